(* The Read wrappers of the stream decoders (flate.Reader.Read,
   brotli.Reader.Read, bzip2.Reader.Read) over a decoder given as a [prog]:
   pending output [toRead], the error latch, Close. The decoder state between
   two Read calls is the remaining program (a continuation) plus the abstract
   source/output state, exactly what the resumable step functions of the Go
   code keep in their fields.

   Proved here, for EVERY decoder program, every schedule of caller buffer
   lengths (zero allowed anywhere):
     - what has been delivered is always a prefix of the one-shot output;
     - when a Read reports an error, everything has been delivered, the error
       is the (wrapped) one-shot outcome, and it is sticky;
     - OutputOffset equals the number of bytes delivered;
     - a zero-length Read delivers nothing and loses nothing;
     - Close returns nil exactly after EOF (or when already closed) and a
       closed reader refuses further reads. *)
From V Require Import Base.Prelude Base.Prog Base.ProgThms.

Inductive variant := VFlate | VBrotli.   (* bzip2 delivers like VBrotli *)

Section ReadLoop.
  Variable wrap : err -> err.          (* the package's errWrap *)
  Variable v : variant.

  Record rd := mkRd {
    cont : option (prog unit);   (* None once the decoder has terminated *)
    st : ast;                    (* source position and output so far *)
    flushed : nat;               (* output bytes already moved to toRead / delivered *)
    toRead : list byte;
    rerr : option err;
    outoff : N
  }.

  Definition rd_init (p : prog unit) (s : ast) : rd :=
    mkRd (Some p) s (length (a_out s)) [] None 0.

  (* run the decoder until it yields with new output, or terminates *)
  Inductive yres :=
  | YYield (k : prog unit) (s : ast)
  | YDone (s : ast)
  | YFail (e : err) (s : ast).

  Fixpoint run_y (p : prog unit) (s : ast) (mark : nat) : yres :=
    match p with
    | Ret _ => YDone s
    | Throw e => YFail e s
    | Bit k =>
      match a_in s with
      | [] => YFail EUEOF s
      | b :: r => run_y (k b) (mkAst r (a_pos s + 1) (a_out s) (a_len s)) mark
      end
    | AlignP k =>
      let n := N.to_nat (pad_count (a_pos s)) in
      if Nat.leb n (length (a_in s))
      then run_y (k (bits_val (firstn n (a_in s))))
                 (mkAst (skipn n (a_in s)) (a_pos s + N.of_nat n) (a_out s) (a_len s)) mark
      else YFail EUEOF s
    | IsEof k => run_y (k (match a_in s with [] => true | _ => false end)) s mark
    | Pos k => run_y (k (a_pos s)) s mark
    | Put b k => run_y k (mkAst (a_in s) (a_pos s) (b :: a_out s) (a_len s + 1)) mark
    | Copy d l k =>
      if (0 <? d) && (d <=? a_len s)
      then run_y k (mkAst (a_in s) (a_pos s)
                          (copy_chunks (S (N.to_nat l)) (N.to_nat l) (N.to_nat d) (a_out s))
                          (a_len s + l)) mark
      else YFail EPanic s
    | Hist k => run_y (k (a_len s)) s mark
    | HistB d k => run_y (k (if (0 <? d) && (d <=? a_len s)
                             then nth (N.to_nat d - 1) (a_out s) 0 else 0)) s mark
    | Yield k => if Nat.ltb mark (length (a_out s)) then YYield k s else run_y k s mark
    end.

  (* one-shot result expressed through run_y *)
  Lemma run_y_sound p s mark :
    match run_y p s mark with
    | YYield k s' => run p s = run k s'
    | YDone s' => run p s = Done tt s'
    | YFail e s' => run p s = Fail e s'
    end.
  Proof.
    revert s; induction p as [a|e|k IH|k IH|k IH|k IH|b k IH|d l k IH|k IH|d k IH|k IH];
      intros s; cbn [run_y run].
    - destruct a; reflexivity.
    - reflexivity.
    - destruct (a_in s); [reflexivity | apply IH].
    - destruct (Nat.leb _ _); [apply IH | reflexivity].
    - apply IH.
    - apply IH.
    - apply IH.
    - destruct (_ && _); [apply IH | reflexivity].
    - apply IH.
    - apply IH.
    - destruct (Nat.ltb _ _); [reflexivity | apply IH].
  Qed.

  (* output written since [flushed], oldest first *)
  Definition pending (s : ast) (fl : nat) : list byte :=
    fast_rev (firstn (length (a_out s) - fl) (a_out s)).

  (* take up to n bytes of toRead *)
  Definition deliver (r : rd) (n : nat) : list byte * rd :=
    let c := firstn n (toRead r) in
    (c, mkRd (cont r) (st r) (flushed r) (skipn n (toRead r)) (rerr r)
             (outoff r + N.of_nat (length c))).

  (* the body of Read after the first two tests: run one resumption *)
  Definition step (r : rd) : rd :=
    match cont r with
    | None => r
    | Some p =>
      match run_y p (st r) (flushed r) with
      | YYield k s' =>
        mkRd (Some k) s' (length (a_out s')) (pending s' (flushed r)) None (outoff r)
      | YDone s' =>
        mkRd None s' (length (a_out s')) (pending s' (flushed r)) (Some (wrap EEOF)) (outoff r)
      | YFail e s' =>
        mkRd None s' (length (a_out s')) (pending s' (flushed r)) (Some (wrap e)) (outoff r)
      end
    end.

  (* Read(buf) with len(buf) = n *)
  Definition read (r : rd) (n : nat) : (list byte * option err) * rd :=
    let finish (r : rd) :=
      let '(c, r') := deliver r n in
      match v with
      | VFlate => ((c, match toRead r' with [] => rerr r' | _ => None end), r')
      | VBrotli => ((c, None), r')
      end in
    match toRead r with
    | _ :: _ => finish r
    | [] =>
      match rerr r with
      | Some e => (([], Some e), r)
      | None =>
        let r1 := step r in
        match toRead r1 with
        | _ :: _ => finish r1
        | [] => (([], rerr r1), r1)      (* terminated without new output *)
        end
      end
    end.

  (* ---- invariant -------------------------------------------------------- *)
  (* total one-shot outcome of the stream this reader was opened on *)
  Variable p0 : prog unit.
  Variable s0 : ast.
  Hypothesis s0_fresh : a_out s0 = [].

  Definition total_out : list byte := res_out (run p0 s0).
  Definition total_err : err :=
    match run p0 s0 with Done _ _ => wrap EEOF | Fail e _ => wrap e end.

  (* delivered so far, as a list: first (flushed - |toRead|) bytes of the output *)
  Definition delivered (r : rd) : list byte :=
    firstn (flushed r - length (toRead r)) (fast_rev (a_out (st r))).

  Record Inv (r : rd) : Prop := {
    inv_run : match cont r with
              | Some p => run p (st r) = run p0 s0
              | None => res_state (run p0 s0) = st r /\ rerr r = Some total_err
              end;
    inv_fl : flushed r = length (a_out (st r));
    inv_tr : toRead r = skipn (flushed r - length (toRead r)) (fast_rev (a_out (st r)));
    inv_len : (length (toRead r) <= flushed r)%nat;
    inv_off : outoff r = N.of_nat (flushed r - length (toRead r));
    inv_err : match cont r with Some _ => rerr r = None | None => True end
  }.

  Lemma inv_init : Inv (rd_init p0 s0).
  Proof.
    unfold rd_init.
    constructor; cbn [cont st flushed toRead rerr outoff]; rewrite ?s0_fresh;
      cbn [length skipn Nat.sub]; auto.
  Qed.

  (* the output of a continuing run extends the current output *)
  Lemma out_extends (p : prog unit) s :
    exists o, a_out (res_state (run p s)) = o ++ a_out s.
  Proof. destruct (run_mono p s) as [o [c [H _]]]. exists o; exact H. Qed.

  Lemma rev_firstn_skipn {A} (l : list A) n :
    (n <= length l)%nat ->
    rev (firstn (length l - n) l) = skipn n (rev l).
  Proof.
    intros H. set (k := (length l - n)%nat).
    assert (Hl : rev l = rev (skipn k l) ++ rev (firstn k l)).
    { rewrite <- rev_app_distr, firstn_skipn. reflexivity. }
    rewrite Hl, skipn_app.
    rewrite skipn_all2 by (rewrite rev_length, skipn_length; subst k; lia).
    rewrite rev_length, skipn_length.
    replace (n - (length l - k))%nat with O by (subst k; lia).
    reflexivity.
  Qed.

  Lemma pending_spec s fl :
    (fl <= length (a_out s))%nat ->
    pending s fl = skipn fl (fast_rev (a_out s)).
  Proof.
    intros H. unfold pending. rewrite !fast_rev_eq. apply rev_firstn_skipn. exact H.
  Qed.

  (* after a step of a reader with empty toRead *)
  Lemma step_inv r :
    Inv r -> toRead r = [] -> rerr r = None -> Inv (step r).
  Proof.
    intros [Hrun Hfl Htr Hlen Hoff Herr] Ht He. unfold step.
    destruct (cont r) as [p|] eqn:Ec.
    2:{ destruct Hrun as [_ Hr]. rewrite He in Hr. discriminate. }
    pose proof (run_y_sound p (st r) (flushed r)) as Hs.
    rewrite Ht in *. cbn [length] in *.
    assert (Hmono : forall s', (exists o, a_out s' = o ++ a_out (st r)) ->
                          (flushed r <= length (a_out s'))%nat).
    { intros s' [o Ho]. rewrite Ho, app_length, Hfl. lia. }
    destruct (run_y p (st r) (flushed r)) as [k s'|s'|e s'] eqn:Ey.
    - (* yield *)
      assert (Hext : exists o, a_out s' = o ++ a_out (st r)).
      { (* the state at a yield is reached by a prefix of the run: use monotonicity
           of the whole run is not enough; prove directly *)
        clear - Ey. revert Ey. generalize (flushed r) as mark. generalize (st r) as s.
        induction p as [a|e|k0 IH|k0 IH|k0 IH|k0 IH|b k0 IH|d l k0 IH|k0 IH|d k0 IH|k0 IH];
          intros s mark Ey; cbn [run_y] in Ey; try discriminate.
        - destruct (a_in s); [discriminate|]. apply IH in Ey. exact Ey.
        - destruct (Nat.leb _ _); [|discriminate]. apply IH in Ey. exact Ey.
        - apply IH in Ey; exact Ey.
        - apply IH in Ey; exact Ey.
        - apply IH in Ey. cbn [a_out] in Ey. destruct Ey as [o Ho].
          exists (o ++ [b]). rewrite Ho, <- app_assoc. reflexivity.
        - destruct (_ && _); [|discriminate]. apply IH in Ey. cbn [a_out] in Ey.
          destruct Ey as [o Ho].
          destruct (copy_chunks_app (S (N.to_nat l)) (N.to_nat l) (N.to_nat d) (a_out s)) as [oc Hc].
          exists (o ++ oc). rewrite Ho, Hc, <- app_assoc. reflexivity.
        - apply IH in Ey; exact Ey.
        - apply IH in Ey; exact Ey.
        - destruct (Nat.ltb _ _).
          + inversion Ey; subst. exists []; reflexivity.
          + apply IH in Ey; exact Ey. }
      pose proof (Hmono s' Hext) as Hle.
      constructor; cbn [cont st flushed toRead rerr outoff].
      + rewrite <- Hs. exact Hrun.
      + reflexivity.
      + rewrite pending_spec by exact Hle.
        rewrite skipn_length, fast_rev_eq, rev_length.
        replace (length (a_out s') - (length (a_out s') - flushed r))%nat with (flushed r) by lia.
        rewrite <- fast_rev_eq. reflexivity.
      + rewrite pending_spec by exact Hle. rewrite skipn_length, fast_rev_eq, rev_length. lia.
      + rewrite pending_spec by exact Hle. rewrite skipn_length, fast_rev_eq, rev_length.
        rewrite Hoff. f_equal. lia.
      + reflexivity.
    - (* done *)
      assert (Hst : res_state (run p0 s0) = s') by (rewrite <- Hrun, Hs; reflexivity).
      assert (Hext : exists o, a_out s' = o ++ a_out (st r)).
      { rewrite <- Hst, <- Hrun. apply out_extends. }
      pose proof (Hmono s' Hext) as Hle.
      constructor; cbn [cont st flushed toRead rerr outoff].
      + split; [exact Hst|]. unfold total_err. rewrite <- Hrun, Hs. reflexivity.
      + reflexivity.
      + rewrite pending_spec by exact Hle.
        rewrite skipn_length, fast_rev_eq, rev_length.
        replace (length (a_out s') - (length (a_out s') - flushed r))%nat with (flushed r) by lia.
        rewrite <- fast_rev_eq. reflexivity.
      + rewrite pending_spec by exact Hle. rewrite skipn_length, fast_rev_eq, rev_length. lia.
      + rewrite pending_spec by exact Hle. rewrite skipn_length, fast_rev_eq, rev_length.
        rewrite Hoff. f_equal. lia.
      + exact I.
    - (* fail *)
      assert (Hst : res_state (run p0 s0) = s') by (rewrite <- Hrun, Hs; reflexivity).
      assert (Hext : exists o, a_out s' = o ++ a_out (st r)).
      { rewrite <- Hst, <- Hrun. apply out_extends. }
      pose proof (Hmono s' Hext) as Hle.
      constructor; cbn [cont st flushed toRead rerr outoff].
      + split; [exact Hst|]. unfold total_err. rewrite <- Hrun, Hs. reflexivity.
      + reflexivity.
      + rewrite pending_spec by exact Hle.
        rewrite skipn_length, fast_rev_eq, rev_length.
        replace (length (a_out s') - (length (a_out s') - flushed r))%nat with (flushed r) by lia.
        rewrite <- fast_rev_eq. reflexivity.
      + rewrite pending_spec by exact Hle. rewrite skipn_length, fast_rev_eq, rev_length. lia.
      + rewrite pending_spec by exact Hle. rewrite skipn_length, fast_rev_eq, rev_length.
        rewrite Hoff. f_equal. lia.
      + exact I.
  Qed.

  Lemma deliver_inv r n :
    Inv r -> Inv (snd (deliver r n)).
  Proof.
    intros [Hrun Hfl Htr Hlen Hoff Herr]. unfold deliver. cbn [snd].
    assert (Hc : length (firstn n (toRead r)) = Nat.min n (length (toRead r))) by apply firstn_length.
    assert (Hs : length (skipn n (toRead r)) = (length (toRead r) - n)%nat) by apply skipn_length.
    constructor; cbn [cont st flushed toRead rerr outoff]; auto.
    - rewrite Hs. rewrite Htr at 1. rewrite skipn_skipn'.
      destruct (Nat.le_ge_cases n (length (toRead r))) as [Hn|Hn].
      + f_equal. lia.
      + assert (Hfull : length (fast_rev (a_out (st r))) = flushed r).
        { rewrite fast_rev_eq, rev_length. symmetry. exact Hfl. }
        rewrite !skipn_all2; [reflexivity | lia | lia].
    - rewrite Hs. lia.
    - rewrite Hs, Hc, Hoff. lia.
  Qed.

  Lemma step_preserves_delivered r :
    Inv r -> toRead r = [] -> rerr r = None ->
    outoff (step r) = outoff r.
  Proof.
    intros _ _ _. unfold step. destruct (cont r); [|reflexivity].
    destruct (run_y _ _ _); reflexivity.
  Qed.

  Theorem read_inv r n : Inv r -> Inv (snd (read r n)).
  Proof.
    intros H. unfold read.
    destruct (toRead r) as [|x xs] eqn:Et.
    - destruct (rerr r) eqn:Ee; [exact H|].
      pose proof (step_inv r H Et Ee) as H1.
      destruct (toRead (step r)) eqn:Et1; [exact H1|].
      pose proof (deliver_inv (step r) n H1) as H2.
      destruct (deliver (step r) n) as [c r']. cbn [snd] in *.
      destruct v; exact H2.
    - pose proof (deliver_inv r n H) as H2.
      destruct (deliver r n) as [c r']. cbn [snd] in *.
      destruct v; exact H2.
  Qed.

  (* ---- consequences ----------------------------------------------------- *)

  (* OutputOffset = number of bytes delivered, which are the first bytes of
     the output decoded so far *)
  Theorem delivered_is_prefix r :
    Inv r -> N.of_nat (length (delivered r)) = outoff r /\
             prefix_of (delivered r) total_out.
  Proof.
    intros [Hrun Hfl Htr Hlen Hoff Herr]. unfold delivered. split.
    - rewrite firstn_length, fast_rev_eq, rev_length, Hoff. f_equal. lia.
    - unfold total_out, res_out.
      assert (Hext : exists o, a_out (res_state (run p0 s0)) = o ++ a_out (st r)).
      { destruct (cont r) as [p|].
        - rewrite <- Hrun. apply out_extends.
        - destruct Hrun as [Hr _]. rewrite Hr. exists []; reflexivity. }
      destruct Hext as [o Ho]. rewrite Ho, !fast_rev_eq, rev_app_distr.
      eapply prefix_of_trans; [|apply prefix_of_app].
      exists (skipn (flushed r - length (toRead r)) (rev (a_out (st r)))).
      symmetry. apply firstn_skipn.
  Qed.

  (* one Read appends exactly what it returned *)
  Theorem read_appends r n :
    Inv r ->
    let '((c, e), r') := read r n in
    delivered r' = delivered r ++ c /\ (length c <= n)%nat.
  Proof.
    intros H.
    assert (Hd : forall q, Inv q ->
              delivered (snd (deliver q n)) = delivered q ++ fst (deliver q n) /\
              (length (fst (deliver q n)) <= n)%nat).
    { intros q [Hrun Hfl Htr Hlen Hoff Herr]. unfold deliver, delivered.
      cbn [fst snd st flushed toRead].
      rewrite skipn_length. split.
      - set (full := fast_rev (a_out (st q))) in *.
        set (a := (flushed q - length (toRead q))%nat) in *.
        assert (Hfull : length full = flushed q).
        { subst full. rewrite fast_rev_eq, rev_length. symmetry; exact Hfl. }
        rewrite (firstn_min n (toRead q)).
        set (m := Nat.min n (length (toRead q))).
        replace (flushed q - (length (toRead q) - n))%nat with (a + m)%nat by (subst a m; lia).
        rewrite firstn_plus. f_equal. rewrite <- Htr. reflexivity.
      - rewrite firstn_length. lia. }
    unfold read.
    destruct (toRead r) as [|x xs] eqn:Et.
    - destruct (rerr r) eqn:Ee.
      + rewrite app_nil_r. split; [reflexivity | cbn; lia].
      + pose proof (step_inv r H Et Ee) as H1.
        assert (Hsame : delivered (step r) = delivered r).
        { (* step moves bytes into toRead but delivers nothing *)
          destruct H as [Hrun Hfl Htr Hlen Hoff Herr].
          destruct H1 as [Hrun1 Hfl1 Htr1 Hlen1 Hoff1 Herr1].
          unfold delivered.
          pose proof (step_preserves_delivered r) as Hp.
          assert (Hoffeq : outoff (step r) = outoff r).
          { unfold step. destruct (cont r); [|reflexivity]. destruct (run_y _ _ _); reflexivity. }
          rewrite Hoff1, Hoff in Hoffeq.
          assert (Heq : (flushed (step r) - length (toRead (step r)) = flushed r - length (toRead r))%nat) by lia.
          rewrite Heq.
          (* the output of step r extends that of r *)
          assert (Hext : exists o, a_out (st (step r)) = o ++ a_out (st r)).
          { unfold step. destruct (cont r) as [p|] eqn:Ec; [|exists []; reflexivity].
            pose proof (run_y_sound p (st r) (flushed r)) as Hs.
            destruct (run_y p (st r) (flushed r)) as [k s'|s'|e s'] eqn:Ey; cbn [st].
            - clear - Ey. revert Ey. generalize (flushed r) as mark. generalize (st r) as s.
              induction p as [a|e|k0 IH|k0 IH|k0 IH|k0 IH|b k0 IH|d l k0 IH|k0 IH|d k0 IH|k0 IH];
                intros s mark Ey; cbn [run_y] in Ey; try discriminate.
              + destruct (a_in s); [discriminate|]. apply IH in Ey. exact Ey.
              + destruct (Nat.leb _ _); [|discriminate]. apply IH in Ey. exact Ey.
              + apply IH in Ey; exact Ey.
              + apply IH in Ey; exact Ey.
              + apply IH in Ey. cbn [a_out] in Ey. destruct Ey as [o Ho].
                exists (o ++ [b]). rewrite Ho, <- app_assoc. reflexivity.
              + destruct (_ && _); [|discriminate]. apply IH in Ey. cbn [a_out] in Ey.
                destruct Ey as [o Ho].
                destruct (copy_chunks_app (S (N.to_nat l)) (N.to_nat l) (N.to_nat d) (a_out s)) as [oc Hc].
                exists (o ++ oc). rewrite Ho, Hc, <- app_assoc. reflexivity.
              + apply IH in Ey; exact Ey.
              + apply IH in Ey; exact Ey.
              + destruct (Nat.ltb _ _).
                * inversion Ey; subst. exists []; reflexivity.
                * apply IH in Ey; exact Ey.
            - assert (Hst : res_state (run p (st r)) = s') by (rewrite Hs; reflexivity).
              rewrite <- Hst. apply out_extends.
            - assert (Hst : res_state (run p (st r)) = s') by (rewrite Hs; reflexivity).
              rewrite <- Hst. apply out_extends. }
          destruct Hext as [o Ho]. rewrite Ho, !fast_rev_eq, rev_app_distr.
          rewrite firstn_app.
          assert (Hz : (flushed r - length (toRead r) - length (rev (a_out (st r))) = 0)%nat).
          { rewrite rev_length, <- Hfl. lia. }
          rewrite Hz. cbn [firstn]. rewrite app_nil_r. reflexivity. }
        destruct (toRead (step r)) eqn:Et1.
        * rewrite Hsame, app_nil_r. split; [reflexivity | cbn; lia].
        * pose proof (Hd (step r) H1) as [Ha Hb].
          destruct (deliver (step r) n) as [c r'] eqn:Ed. cbn [fst snd] in *.
          destruct v; rewrite Ha, Hsame; split; auto.
    - pose proof (Hd r H) as [Ha Hb].
      destruct (deliver r n) as [c r'] eqn:Ed. cbn [fst snd] in *.
      destruct v; split; auto.
  Qed.

  (* when a Read reports an error, the stream is complete, the error is the
     one-shot outcome, and everything decoded has been delivered *)
  Theorem read_error_is_final r n :
    Inv r ->
    let '((c, e), r') := read r n in
    forall x, e = Some x ->
      x = total_err /\ toRead r' = [] /\ rerr r' = Some x /\
      delivered r' = total_out.
  Proof.
    intros H.
    assert (Hfin : forall q, Inv q -> cont q = None -> toRead q = [] ->
                     rerr q = Some total_err /\ delivered q = total_out).
    { intros q [Hrun Hfl Htr Hlen Hoff Herr] Hc Ht. rewrite Hc in Hrun.
      destruct Hrun as [Hst He]. split; [exact He|].
      unfold delivered, total_out, res_out. rewrite Hst, Ht. cbn [length].
      rewrite Nat.sub_0_r, Hfl.
      rewrite firstn_all2; [reflexivity|]. rewrite fast_rev_eq, rev_length. lia. }
    assert (Herrcont : forall q, Inv q -> forall x, rerr q = Some x -> cont q = None).
    { intros q [Hrun Hfl Htr Hlen Hoff Herr] x Hx.
      destruct (cont q); [rewrite Herr in Hx; discriminate | reflexivity]. }
    unfold read.
    destruct (toRead r) as [|y ys] eqn:Et.
    - destruct (rerr r) as [e0|] eqn:Ee.
      + intros x Hx. inversion Hx; subst x.
        pose proof (Herrcont r H e0 Ee) as Hc.
        destruct (Hfin r H Hc Et) as [He Hdl].
        rewrite Ee in He. inversion He; subst e0. auto.
      + pose proof (step_inv r H Et Ee) as H1.
        destruct (toRead (step r)) as [|z zs] eqn:Et1.
        * intros x Hx.
          pose proof (Herrcont (step r) H1 x Hx) as Hc.
          destruct (Hfin (step r) H1 Hc Et1) as [He Hdl].
          rewrite Hx in He. inversion He; subst x. auto.
        * pose proof (deliver_inv (step r) n H1) as H2.
          destruct (deliver (step r) n) as [c r'] eqn:Ed. cbn [snd] in H2.
          destruct v; [|intros x Hx; discriminate].
          destruct (toRead r') eqn:Et2; [|intros x Hx; discriminate].
          intros x Hx.
          pose proof (Herrcont r' H2 x Hx) as Hc.
          destruct (Hfin r' H2 Hc Et2) as [He Hdl].
          rewrite Hx in He. inversion He; subst x. auto.
    - pose proof (deliver_inv r n H) as H2.
      destruct (deliver r n) as [c r'] eqn:Ed. cbn [snd] in H2.
      destruct v; [|intros x Hx; discriminate].
      destruct (toRead r') eqn:Et2; [|intros x Hx; discriminate].
      intros x Hx.
      pose proof (Herrcont r' H2 x Hx) as Hc.
      destruct (Hfin r' H2 Hc Et2) as [He Hdl].
      rewrite Hx in He. inversion He; subst x. auto.
  Qed.

  (* sticky: once the latch is set and toRead is drained, every Read
     returns (0, same error) and changes nothing *)
  Theorem read_sticky r n e :
    toRead r = [] -> rerr r = Some e -> read r n = (([], Some e), r).
  Proof. intros Ht He. unfold read. rewrite Ht, He. reflexivity. Qed.

  (* a zero-length Read delivers nothing and keeps all pending output *)
  Theorem read_zero_loses_nothing r :
    Inv r ->
    let '((c, e), r') := read r 0 in
    c = [] /\ delivered r' = delivered r.
  Proof.
    intros H. pose proof (read_appends r 0 H) as Ha.
    destruct (read r 0) as [[c e] r']. destruct Ha as [Hd Hl].
    assert (c = []) by (destruct c; [reflexivity | cbn in Hl; lia]).
    subst c. rewrite app_nil_r in Hd. auto.
  Qed.

  Section Close.
  Variable closed_err : err.           (* errClosed / io.ErrClosedPipe *)

  Definition close (r : rd) : option err * rd :=
    match rerr r with
    | Some e =>
      if err_eqb e (wrap EEOF) || err_eqb e closed_err
      then (None, mkRd (cont r) (st r) (flushed r) [] (Some closed_err) (outoff r))
      else (Some e, r)
    | None => (None, r)   (* flate: toRead dropped, no latch; see DESIGN C18 *)
    end.

  (* Close: nil exactly after EOF / when already closed; then reads refuse *)
  Theorem close_contract r :
    toRead r = [] ->
    match rerr r with
    | Some e =>
      if err_eqb e (wrap EEOF) || err_eqb e closed_err
      then fst (close r) = None /\
           forall n, read (snd (close r)) n = (([], Some closed_err), snd (close r))
      else fst (close r) = Some e /\ snd (close r) = r
    | None => True
    end.
  Proof.
    intros Ht. destruct (rerr r) as [e|] eqn:Ee; [|exact I].
    unfold close. rewrite Ee.
    destruct (err_eqb e (wrap EEOF) || err_eqb e closed_err); cbn [fst snd].
    - split; [reflexivity|]. intros n. unfold read. cbn [toRead rerr]. reflexivity.
    - split; reflexivity.
  Qed.
  End Close.

  (* ---- whole schedules --------------------------------------------------- *)
  Fixpoint reads (r : rd) (sched : list nat) : list (list byte * option err) * rd :=
    match sched with
    | [] => ([], r)
    | n :: rest =>
      let '(ob, r1) := read r n in
      let '(obs, r2) := reads r1 rest in
      (ob :: obs, r2)
    end.

  Theorem reads_deliver r sched :
    Inv r ->
    Inv (snd (reads r sched)) /\ delivered (snd (reads r sched)) = delivered r ++ concat (map fst (fst (reads r sched))).
  Proof.
    revert r; induction sched as [|n rest IH]; intros r H; cbn [reads].
    - cbn. rewrite app_nil_r. auto.
    - pose proof (read_inv r n H) as H1.
      pose proof (read_appends r n H) as Ha.
      destruct (read r n) as [[c e] r1]. cbn [snd] in H1. destruct Ha as [Ha _].
      destruct (IH r1 H1) as [H2 Hd].
      destruct (reads r1 rest) as [obs r2]. cbn [fst snd map concat] in *.
      split; [exact H2|]. rewrite Hd, Ha, <- app_assoc. reflexivity.
  Qed.

  (* if the last Read of a schedule reports an error, the whole output has
     been delivered and the error is the stream's outcome: the same for
     every schedule *)
  Theorem reads_complete r sched n :
    Inv r ->
    let '(obs, r1) := reads r sched in
    let '((c, e), r2) := read r1 n in
    forall x, e = Some x ->
      x = total_err /\ delivered r ++ concat (map fst obs) ++ c = total_out.
  Proof.
    intros H.
    destruct (reads_deliver r sched H) as [H1 Hd].
    destruct (reads r sched) as [obs r1]. cbn [fst snd] in *.
    pose proof (read_error_is_final r1 n H1) as Hf.
    pose proof (read_appends r1 n H1) as Ha.
    destruct (read r1 n) as [[c e] r2]. destruct Ha as [Ha _].
    intros x Hx. destruct (Hf x Hx) as [He [_ [_ Hdl]]].
    split; [exact He|]. rewrite <- Hdl, Ha, Hd, <- app_assoc. reflexivity.
  Qed.
End ReadLoop.
