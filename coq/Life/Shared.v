(* C19, the logical half: instances that share nothing but immutable
   package-level tables do not influence each other. Every Reader/Writer
   model in this development is a deterministic step function over its own
   state, parameterised by the shared tables [T] which no step returns or
   modifies. For any two such machines, every interleaving of their call
   sequences produces, for each instance, exactly the observations and the
   final state of running it alone. *)
From V Require Import Base.Prelude.

Section Two.
  Variable T : Type.                       (* shared, read-only tables *)
  Variables SA SB OpA OpB ObA ObB : Type.
  Variable stepA : T -> SA -> OpA -> ObA * SA.
  Variable stepB : T -> SB -> OpB -> ObB * SB.

  Fixpoint runA (t : T) (s : SA) (ops : list OpA) : list ObA * SA :=
    match ops with
    | [] => ([], s)
    | o :: r => let '(ob, s1) := stepA t s o in let '(obs, s2) := runA t s1 r in (ob :: obs, s2)
    end.
  Fixpoint runB (t : T) (s : SB) (ops : list OpB) : list ObB * SB :=
    match ops with
    | [] => ([], s)
    | o :: r => let '(ob, s1) := stepB t s o in let '(obs, s2) := runB t s1 r in (ob :: obs, s2)
    end.

  (* a schedule: which instance makes the next call *)
  Inductive call := CA (o : OpA) | CB (o : OpB).

  Definition projA (sched : list call) : list OpA :=
    flat_map (fun c => match c with CA o => [o] | CB _ => [] end) sched.
  Definition projB (sched : list call) : list OpB :=
    flat_map (fun c => match c with CB o => [o] | CA _ => [] end) sched.

  (* joint execution on the pair of states with the one copy of the tables *)
  Fixpoint run2 (t : T) (sa : SA) (sb : SB) (sched : list call)
    : list ObA * list ObB * SA * SB :=
    match sched with
    | [] => ([], [], sa, sb)
    | CA o :: r =>
      let '(ob, sa1) := stepA t sa o in
      let '(oa, obb, sa2, sb2) := run2 t sa1 sb r in (ob :: oa, obb, sa2, sb2)
    | CB o :: r =>
      let '(ob, sb1) := stepB t sb o in
      let '(oa, obb, sa2, sb2) := run2 t sa sb1 r in (oa, ob :: obb, sa2, sb2)
    end.

  Theorem instances_commute t sa sb sched :
    run2 t sa sb sched =
    (fst (runA t sa (projA sched)), fst (runB t sb (projB sched)),
     snd (runA t sa (projA sched)), snd (runB t sb (projB sched))).
  Proof.
    revert sa sb; induction sched as [|c r IH]; intros sa sb; cbn [run2 projA projB flat_map].
    - reflexivity.
    - destruct c as [o|o]; cbn [app].
      + fold (projA r). fold (projB r). cbn [runA].
        destruct (stepA t sa o) as [ob sa1]. rewrite IH.
        destruct (runA t sa1 (projA r)) as [oa sa2]. reflexivity.
      + fold (projA r). fold (projB r). cbn [runB].
        destruct (stepB t sb o) as [ob sb1]. rewrite IH.
        destruct (runB t sb1 (projB r)) as [obb sb2]. reflexivity.
  Qed.

  (* two schedules with the same per-instance call sequences are
     indistinguishable to both instances *)
  Corollary schedule_irrelevant t sa sb s1 s2 :
    projA s1 = projA s2 -> projB s1 = projB s2 -> run2 t sa sb s1 = run2 t sa sb s2.
  Proof. intros Ha Hb. rewrite !instances_commute, Ha, Hb. reflexivity. Qed.
End Two.
