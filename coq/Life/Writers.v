(* The error-latch discipline of the Writers (bzip2.Writer, xflate.Writer,
   meta.Writer) over a sink that can fail. What a call emits is a parameter
   of the call (the list of sink Write sizes it would perform on a healthy
   sink, taken from the real encoder), so the model is about exactly the
   logic the property constrains: when a failure is surfaced, that it stays
   surfaced, that Close never reports success after a failure, and the
   offset bookkeeping. The pre-repair bzip2.Writer.Close (no guard on the
   latch) is kept and refuted. *)
From V Require Import Base.Prelude.

(* ---- sink ------------------------------------------------------------- *)
Record plan := mkPlan { p_at : N; p_short : bool; p_once : bool }.
Record sink := mkSink { s_len : N; s_fired : bool; s_plan : option plan }.

(* one Write of n bytes: (bytes accepted, failed?) *)
Definition sink_write (s : sink) (n : N) : (N * bool) * sink :=
  match s_plan s with
  | None => ((n, false), mkSink (s_len s + n) (s_fired s) None)
  | Some p =>
    if (p_once p && s_fired s) || (s_len s + n <=? p_at p)
    then ((n, false), mkSink (s_len s + n) (s_fired s) (Some p))
    else
      let k := if p_short p then p_at p - s_len s else 0 in
      ((k, true), mkSink (s_len s + k) true (Some p))
  end.

(* ---- writer ------------------------------------------------------------ *)
Inductive wkind := KWrite | KFlush | KClose.

Record wcall := mkCall {
  c_kind : wkind;
  c_accept : N;            (* bytes a successful Write reports as accepted *)
  c_chunks : list N        (* sink Writes it performs on a healthy sink *)
}.

Record lw := mkLW {
  l_err : option err;      (* the latch *)
  l_in : N;                (* InputOffset *)
  l_out : N;               (* OutputOffset *)
  l_sink : sink
}.

Definition lw_init (pl : option plan) : lw := mkLW None 0 0 (mkSink 0 false pl).

(* emit the chunks until one fails *)
Fixpoint emit (s : sink) (out : N) (chunks : list N) : (bool * N) * sink :=
  match chunks with
  | [] => ((false, out), s)
  | n :: rest =>
    let '((k, failed), s') := sink_write s n in
    if failed then ((true, out + k), s') else emit s' (out + k) rest
  end.

Definition sink_err : err := ESrc 9.

(* [guarded]: the call looks at the latch first (every call of the repaired
   code; false only for the pre-repair bzip2 Close) *)
Definition wcall_step (guarded : bool) (w : lw) (c : wcall) : (N * option err) * lw :=
  let blocked :=
    match l_err w with
    | Some e => if guarded then true
                else match c_kind c with KClose => err_eqb e EClosed | _ => true end
    | None => false
    end in
  if blocked then
    match l_err w, c_kind c with
    | Some EClosed, KClose => ((0, None), w)
    | Some e, _ => ((0, Some e), w)
    | None, _ => ((0, None), w)
    end
  else
    let '((failed, out'), s') := emit (l_sink w) (l_out w) (c_chunks c) in
    if failed then ((0, Some sink_err), mkLW (Some sink_err) (l_in w) out' s')
    else
      match c_kind c with
      | KWrite => ((c_accept c, None), mkLW None (l_in w + c_accept c) out' s')
      | KFlush => ((0, None), mkLW None (l_in w) out' s')
      | KClose => ((0, None), mkLW (Some EClosed) (l_in w) out' s')
      end.

Fixpoint wcalls (guarded : bool) (w : lw) (cs : list wcall) : list (N * option err) * lw :=
  match cs with
  | [] => ([], w)
  | c :: rest =>
    let '(ob, w1) := wcall_step guarded w c in
    let '(obs, w2) := wcalls guarded w1 rest in
    (ob :: obs, w2)
  end.

(* ---- theorems (repaired discipline: guarded = true) ---------------------- *)

Definition winv (w : lw) : Prop :=
  l_out w = s_len (l_sink w) /\
  (* a sink failure, once it has happened, stays latched *)
  (s_fired (l_sink w) = true -> exists e, l_err w = Some e /\ e <> EClosed).

Lemma sink_write_len s n :
  s_len (snd (sink_write s n)) = s_len s + fst (fst (sink_write s n)).
Proof.
  unfold sink_write. destruct (s_plan s) as [p|]; cbn; [|reflexivity].
  destruct (_ || _); reflexivity.
Qed.

Lemma sink_write_fired s n :
  snd (fst (sink_write s n)) = true -> s_fired (snd (sink_write s n)) = true.
Proof.
  unfold sink_write. destruct (s_plan s) as [p|]; cbn; [|discriminate].
  destruct (_ || _); cbn; [discriminate | reflexivity].
Qed.

Lemma sink_write_ok_keeps s n :
  snd (fst (sink_write s n)) = false -> s_fired (snd (sink_write s n)) = s_fired s.
Proof.
  unfold sink_write. destruct (s_plan s) as [p|]; cbn; [|reflexivity].
  destruct (_ || _); cbn; [reflexivity | discriminate].
Qed.

Lemma emit_spec s out chunks :
  out = s_len s ->
  let '((failed, out'), s') := emit s out chunks in
  out' = s_len s' /\
  (failed = true -> s_fired s' = true) /\
  (failed = false -> s_fired s' = s_fired s).
Proof.
  revert s out; induction chunks as [|n rest IH]; intros s out Ho; cbn [emit].
  - repeat split; auto; discriminate.
  - pose proof (sink_write_len s n) as Hl.
    pose proof (sink_write_fired s n) as Hf.
    pose proof (sink_write_ok_keeps s n) as Hk.
    destruct (sink_write s n) as [[k failed] s1]. cbn [fst snd] in *.
    destruct failed.
    + repeat split; auto; try lia; discriminate.
    + assert (Ho1 : out + k = s_len s1) by lia.
      specialize (IH s1 (out + k) Ho1).
      destruct (emit s1 (out + k) rest) as [[failed out'] s'].
      destruct IH as [I1 [I2 I3]].
      repeat split; auto.
      intros Hff. rewrite (I3 Hff). apply Hk. reflexivity.
Qed.

Lemma step_inv w c : winv w -> winv (snd (wcall_step true w c)).
Proof.
  intros [Ho Hl]. unfold wcall_step.
  destruct (l_err w) as [e|] eqn:Ee.
  - destruct e, (c_kind c); cbn [snd]; (split; [exact Ho | rewrite Ee; exact Hl]).
  - pose proof (emit_spec (l_sink w) (l_out w) (c_chunks c) Ho) as He.
    destruct (emit (l_sink w) (l_out w) (c_chunks c)) as [[failed out'] s'].
    destruct He as [E1 [E2 E3]].
    assert (Hnf : s_fired (l_sink w) = false).
    { destruct (s_fired (l_sink w)) eqn:F; [|reflexivity].
      destruct (Hl eq_refl) as [e [He _]]. discriminate. }
    destruct failed.
    + cbn [snd]. split; cbn [l_out l_sink l_err]; auto.
      intros _. exists sink_err. split; [reflexivity | discriminate].
    + assert (Hf' : s_fired s' = false) by (rewrite (E3 eq_refl); exact Hnf).
      destruct (c_kind c); cbn [snd]; split; cbn [l_out l_sink l_err]; auto;
        rewrite Hf'; discriminate.
Qed.

Lemma init_inv pl : winv (lw_init pl).
Proof. unfold winv, lw_init. cbn. split; [reflexivity | discriminate]. Qed.

Theorem calls_inv w cs : winv w -> winv (snd (wcalls true w cs)).
Proof.
  revert w; induction cs as [|c rest IH]; intros w H; cbn [wcalls]; [exact H|].
  pose proof (step_inv w c H) as H1.
  destruct (wcall_step true w c) as [ob w1]. cbn [snd] in H1.
  specialize (IH w1 H1). destruct (wcalls true w1 rest) as [obs w2]. exact IH.
Qed.

(* C13 (a): once the sink has failed, every call fails (Close included) *)
Theorem fault_surfaced_and_sticky w c :
  winv w -> s_fired (l_sink w) = true ->
  exists e, snd (fst (wcall_step true w c)) = Some e /\ snd (wcall_step true w c) = w.
Proof.
  intros [_ Hl] Hf. destruct (Hl Hf) as [e [He Hne]].
  unfold wcall_step. rewrite He.
  destruct e; try contradiction; destruct (c_kind c); cbn; eexists; split; reflexivity.
Qed.

(* C13 (b): the call during which the sink fails reports it *)
Theorem fault_reported_by_failing_call w c :
  winv w -> s_fired (l_sink w) = false ->
  s_fired (l_sink (snd (wcall_step true w c))) = true ->
  snd (fst (wcall_step true w c)) = Some sink_err.
Proof.
  intros [Ho Hl] Hnf. unfold wcall_step.
  destruct (l_err w) as [e|] eqn:Ee.
  - destruct e, (c_kind c); cbn [snd fst]; rewrite Hnf; discriminate.
  - pose proof (emit_spec (l_sink w) (l_out w) (c_chunks c) Ho) as He.
    destruct (emit (l_sink w) (l_out w) (c_chunks c)) as [[failed out'] s'].
    destruct He as [E1 [E2 E3]].
    destruct failed; [reflexivity|].
    destruct (c_kind c); cbn [snd fst l_sink]; rewrite (E3 eq_refl), Hnf; discriminate.
Qed.

(* C13 (c): Close returns nil only if the sink never failed *)
Theorem close_never_false_success w c :
  winv w -> c_kind c = KClose ->
  snd (fst (wcall_step true w c)) = None ->
  s_fired (l_sink (snd (wcall_step true w c))) = false.
Proof.
  intros Hi Hk Hn.
  destruct (s_fired (l_sink (snd (wcall_step true w c)))) eqn:F; [|reflexivity].
  exfalso.
  destruct (s_fired (l_sink w)) eqn:F0.
  - destruct (fault_surfaced_and_sticky w c Hi F0) as [e [He _]]. rewrite He in Hn. discriminate.
  - pose proof (fault_reported_by_failing_call w c Hi F0 F) as He. rewrite He in Hn. discriminate.
Qed.

(* C13 (d): OutputOffset equals the bytes the sink accepted, after every call *)
Theorem output_offset_is_sink_length w cs :
  winv w -> l_out (snd (wcalls true w cs)) = s_len (l_sink (snd (wcalls true w cs))).
Proof. intros H. exact (proj1 (calls_inv w cs H)). Qed.

(* C13 (e): InputOffset is the sum of what Write reported as accepted *)
Fixpoint sum_accepted (obs : list (N * option err)) : N :=
  match obs with [] => 0 | (n, _) :: r => n + sum_accepted r end.

Theorem input_offset_is_accepted g w cs :
  l_in (snd (wcalls g w cs)) = l_in w + sum_accepted (fst (wcalls g w cs)).
Proof.
  revert w; induction cs as [|c rest IH]; intros w; cbn [wcalls]; [cbn; lia|].
  assert (Hs : l_in (snd (wcall_step g w c)) = l_in w + fst (fst (wcall_step g w c))).
  { unfold wcall_step.
    destruct (match l_err w with Some e => _ | None => false end).
    - destruct (l_err w) as [[]|], (c_kind c); cbn; lia.
    - destruct (emit _ _ _) as [[failed out'] s']. destruct failed; [cbn; lia|].
      destruct (c_kind c); cbn; lia. }
  destruct (wcall_step g w c) as [[n e] w1]. cbn [fst snd] in Hs.
  specialize (IH w1). destruct (wcalls g w1 rest) as [obs w2]. cbn [fst snd sum_accepted] in *. lia.
Qed.

(* C18: a successfully closed writer is inert *)
Theorem closed_is_inert g w c :
  l_err w = Some EClosed ->
  snd (wcall_step g w c) = w /\
  snd (fst (wcall_step g w c)) = match c_kind c with KClose => None | _ => Some EClosed end.
Proof.
  intros H. unfold wcall_step. rewrite H.
  destruct g, (c_kind c); cbn; split; reflexivity.
Qed.

(* ---- the pre-repair bzip2.Writer.Close is refuted (D6) -------------------- *)
(* Write 5 bytes (nothing reaches the sink yet), Close emits 4+37 bytes; the
   sink fails once at byte 28; the second Close re-emits and returns nil. *)
Definition d6_calls : list wcall :=
  [mkCall KWrite 5 []; mkCall KClose 0 [4; 37]; mkCall KClose 0 [4; 37]].
Definition d6_plan : option plan := Some (mkPlan 28 false true).

Example C13_D6_refuted :
  map snd (fst (wcalls false (lw_init d6_plan) d6_calls)) = [None; Some sink_err; None] /\
  s_fired (l_sink (snd (wcalls false (lw_init d6_plan) d6_calls))) = true.
Proof. vm_compute. split; reflexivity. Qed.

Example D6_repaired :
  map snd (fst (wcalls true (lw_init d6_plan) d6_calls)) = [None; Some sink_err; Some sink_err].
Proof. vm_compute. reflexivity. Qed.
