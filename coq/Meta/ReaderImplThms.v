(* Theorems about the implementation-level model of meta.Reader (Meta/ReaderImpl.v):

   meta_reader_sticky_closed        the error latch, Close, Close twice, Close and the source
   meta_reader_reset_as_new         Reset from ANY state = NewReader
   meta_reader_offsets              OutputOffset / InputOffset / NumBlocks after every call
   meta_reader_refines              the Reader against the specification decode_stream /
                                    meta_decode of Meta/Model.v: delivered bytes, error class,
                                    FinalMode, NumBlocks, InputOffset, source position
   meta_reader_schedule_independent (corollary)
   mr_read_progress                 a Read with a non-empty buffer delivers bytes or an error

   all for every input, both source kinds, every script of the source's freedoms and every
   schedule of Read sizes. Built on the block-level simulation of Meta/ReaderImplSim.v. *)
From V Require Import Base.Prelude Base.Prog Base.ProgThms Base.DepthThms Base.FuelThms Base.OkThms Bzip2.Common
  Prefix.Code Prefix.ReaderImpl Prefix.ReaderSpec Prefix.ReaderThms
  Prefix.DecTable Prefix.DecTableSpec Prefix.DecTableThms Prefix.DecReadThms Prefix.DecReadBufThms.
From V Require Import Flate.Impl Flate.ImplRel Flate.ImplBits Flate.ImplBitsFail Flate.SpecChar.
From V Require Flate.ImplThms.
From V Require Import Meta.Model Meta.DecTotal Meta.Stream Meta.ReaderImpl Meta.ReaderImplSim.
From Coq Require Import ZifyBool ZifyN ZifyNat.

Local Open Scope N_scope.

(* ---- histories of Reads ------------------------------------------------------------------------ *)
(* Read with the given buffer sizes until an error is returned or the schedule ends *)
Fixpoint rd_run (st : mrst) (sched : list nat) : list mrobs * mrst :=
  match sched with
  | [] => ([], st)
  | n :: r =>
    let '((bs, e), st') := mr_read st n in
    let o := observe (RetRead bs e) st' in
    match e with
    | Some _ => ([o], st')
    | None => let '(l, fin) := rd_run st' r in (o :: l, fin)
    end
  end.

Definition obs_bytes (o : mrobs) : list byte :=
  match ro_ret o with RetRead bs _ => bs | _ => [] end.
Definition obs_err (o : mrobs) : option err :=
  match ro_ret o with RetRead _ e => e | RetClose e => e | RetReset => None end.
Definition delivered (obs : list mrobs) : list byte := flat_map obs_bytes obs.
(* the error the history ends with *)
Definition run_err (obs : list mrobs) : option err :=
  match rev obs with o :: _ => obs_err o | [] => None end.

Lemma run_err_cons o obs : obs <> [] -> run_err (o :: obs) = run_err obs.
Proof.
  intros Hne. unfold run_err. cbn [rev].
  destruct (rev obs) as [|x r] eqn:E.
  - exfalso. apply Hne. rewrite <- (rev_involutive obs), E. reflexivity.
  - reflexivity.
Qed.

(* ================================================================================================ *)
(* (1) the latch, Close                                                                             *)
(* ================================================================================================ *)
Theorem meta_reader_sticky_closed :
  (* after the first error every later Read returns it, with no bytes, and changes nothing
     (offsets, NumBlocks, FinalMode, the bit reader and the source included) *)
  (forall st n bs e st', mr_read st n = ((bs, Some e), st') ->
     forall n', mr_read st' n' = (([], Some e), st')) /\
  (* after a successful Close every Read returns the closed error and changes nothing *)
  (forall st st', mr_close st = (None, st') ->
     forall n, mr_read st' n = (([], Some EClosed), st')) /\
  (* Close is idempotent *)
  (forall st, mr_close (snd (mr_close st)) = mr_close st) /\
  (* Close touches neither the source (nor the bit reader) nor the counters *)
  (forall st, m_br (snd (mr_close st)) = m_br st /\ m_inOff (snd (mr_close st)) = m_inOff st /\
              m_outOff (snd (mr_close st)) = m_outOff st /\ m_nblocks (snd (mr_close st)) = m_nblocks st /\
              m_buf (snd (mr_close st)) = m_buf st) /\
  (* Close succeeds exactly when no error other than io.EOF is latched; then FinalMode = final *)
  (forall st, match m_err st with
              | None | Some EEOF => mr_close st = (None, snd (mr_close st)) /\
                                    m_FinalMode (snd (mr_close st)) = m_final st /\
                                    m_err (snd (mr_close st)) = Some EClosed
              | Some EClosed => mr_close st = (None, st)
              | Some e => mr_close st = (Some e, st)
              end).
Proof.
  split; [|split; [|split; [|split]]].
  - intros st n bs e st' H n'. unfold mr_read in H.
    destruct (m_err st) as [e0|] eqn:E0.
    + inversion H; subst. unfold mr_read. rewrite E0. reflexivity.
    + destruct (match n with O => _ | S _ => _ end) as [out st1].
      inversion H as [[H1 H2 H3]]. unfold mr_read. cbn [m_err]. rewrite H2. reflexivity.
  - intros st st' H n. unfold mr_close in H.
    destruct (m_err st) as [e0|] eqn:E0.
    + destruct e0; inversion H; subst; unfold mr_read; cbn [m_err]; try rewrite E0; reflexivity.
    + inversion H; subst. reflexivity.
  - intros st. unfold mr_close at 2 3. destruct (m_err st) as [e0|] eqn:E0.
    + destruct e0; cbn [snd]; unfold mr_close; cbn [m_err]; try rewrite E0; reflexivity.
    + cbn [snd]. reflexivity.
  - intros st. unfold mr_close. destruct (m_err st) as [e0|]; [destruct e0|]; cbn [snd m_br m_inOff m_outOff m_nblocks m_buf];
      repeat split.
  - intros st. unfold mr_close. destruct (m_err st) as [e0|]; [destruct e0|]; cbn [snd m_FinalMode m_err]; repeat split.
Qed.

(* ================================================================================================ *)
(* (2) Reset                                                                                        *)
(* ================================================================================================ *)
(* From ANY state (in the middle of a stream, after an error, after Close, after a crash of the
   model) Reset gives the state of NewReader: every later history has the same observations.
   (The model has no recycled storage: prefix.Reader.Init and prefix.Writer.Init replace every
   field, bytes.Buffer.Reset empties the buffer.) *)
Theorem meta_reader_reset_as_new st data bf fills reads :
  mr_reset st data bf fills reads = mr_new data bf fills reads /\
  forall ops, mr_run (mr_reset st data bf fills reads) ops = mr_run (mr_new data bf fills reads) ops.
Proof. split; [reflexivity | intros ops; reflexivity]. Qed.

(* ================================================================================================ *)
(* (3) the invariant of a Reader over one source                                                    *)
(* ================================================================================================ *)
Section Top.
Variable data : list byte.
Hypothesis Hd : forall b, In b data -> b < 256.
Variable bf : bool.

Local Notation sg := (sigma data).
Local Notation St := (St data bf).
Local Notation Bad := (Bad data bf).

(* [spec_at nb R out f]: the specification, run from the start of the input, has decoded exactly
   nb blocks, none of them final except possibly the last one (final mode f), stands at bit R and
   has produced out *)
Inductive spec_at : N -> nat -> list byte -> fmode -> Prop :=
| SA0 : spec_at 0 0%nat [] FinalNil
| SAS nb R out R' buf f :
    spec_at nb R out FinalNil ->
    run decode_block (sg R out) = Done (BBlock buf f) (sg R' out) ->
    (R + 32 <= R')%nat -> (R' <= nbits data)%nat ->
    spec_at (nb + 1) R' (out ++ buf) f.

Lemma spec_at_range nb R out f : spec_at nb R out f -> (R <= nbits data)%nat.
Proof. intros H. destruct H; [lia | assumption]. Qed.

Lemma run_stream_body_block nb R out R' buf f :
  run decode_block (sg R out) = Done (BBlock buf f) (sg R' out) ->
  run (stream_body nb) (sg R out) =
  Done (match f with FinalNil => inl (nb + 1) | _ => inr (f, nb + 1) end) (sg R' (out ++ buf)).
Proof.
  intros E. unfold stream_body. rewrite run_bind, E, run_bind. unfold sigma at 1. rewrite run_put_all.
  assert (Es : mkAst (skipn R' (sbits data)) (N.of_nat R') (rev buf ++ rev out)
                     (N.of_nat (length out) + N.of_nat (length buf)) = sg R' (out ++ buf)).
  { unfold sigma. rewrite rev_app_distr, app_length. f_equal. lia. }
  rewrite Es. destruct f; reflexivity.
Qed.

Lemma run_stream_body_eof nb R out :
  run decode_block (sg R out) = Done BEof (sg R out) ->
  run (stream_body nb) (sg R out) = Done (inr (FinalNil, nb)) (sg R out).
Proof. intros E. unfold stream_body. rewrite run_bind, E. reflexivity. Qed.

Lemma run_stream_body_fail nb R out e s' :
  run decode_block (sg R out) = Fail e s' -> run (stream_body nb) (sg R out) = Fail e s'.
Proof. intros E. unfold stream_body. rewrite run_bind, E. reflexivity. Qed.

Section Fut.
Variable r0 : result (fmode * N).
Hypothesis Hr0 : loops stream_body 0 (sg 0 []) r0.

Lemma spec_at_loops nb R out f : spec_at nb R out f ->
  (f = FinalNil -> loops stream_body nb (sg R out) r0) /\
  (f <> FinalNil -> r0 = Done (f, nb) (sg R out)).
Proof.
  induction 1 as [|nb R out R' buf f Hprev IH Hblk Hadv Hrng].
  - split; [intros _; exact Hr0 | intros C; contradiction].
  - destruct IH as [IH _]. specialize (IH eq_refl).
    pose proof (run_stream_body_block nb R out R' buf f Hblk) as E.
    inversion IH as [st s e s' E1|st s x s' E1|st s st1 s1 r E1 HL]; subst; rewrite E in E1.
    + discriminate.
    + destruct f; inversion E1; subst; (split; [intros C; discriminate | intros _; reflexivity]).
    + destruct f; inversion E1; subst. split; [intros _; exact HL | intros C; contradiction].
Qed.

Lemma spec_at_prefix nb R out f : spec_at nb R out f -> prefix_of out (res_out r0).
Proof.
  intros H. pose proof (spec_at_range _ _ _ _ H) as HR.
  destruct (spec_at_loops _ _ _ _ H) as [H1 H2].
  destruct (fmode_eqb f FinalNil) eqn:Ef.
  - assert (f = FinalNil) by (destruct f; try discriminate; reflexivity).
    apply (Flate.ImplThms.loops_prefix data stream_body nb R out r0 HR (H1 H0)).
  - assert (f <> FinalNil) by (intros ->; discriminate).
    rewrite (H2 H0). rewrite (Flate.ImplThms.res_out_sigma data). apply prefix_of_refl.
Qed.

End Fut.

(* ---- the states of a Reader that has not yet returned an error ------------------------------- *)
Definition Core (st : mrst) (dl : list byte) : Prop :=
  m_err st = None /\ m_nil st = false /\ m_FinalMode st = FinalNil /\
  exists R nb, St R (m_br st) /\ src_pos st = ((R + 7) / 8)%nat /\
    p_offset (m_br st) = Z.of_nat (src_pos st) /\ m_inOff st = Z.of_nat (src_pos st) /\
    m_nblocks st = Z.of_N nb /\ spec_at nb R (dl ++ m_buf st) (m_final st).

Definition RunInv (st : mrst) (dl : list byte) : Prop :=
  Core st dl /\ m_outOff st = Z.of_nat (length dl).

(* ---- the states of a Reader that has just returned the error e, having delivered dl ---------- *)
Definition EndCore (st : mrst) (dl : list byte) (e : err) : Prop :=
  m_err st = Some e /\ m_buf st = [] /\ m_inOff st = Z.of_nat (src_pos st) /\ e <> EPanic /\ e <> EFuel /\ e <> EClosed /\
  exists R nb, m_nblocks st = Z.of_N nb /\
    ((e = EEOF /\ src_pos st = ((R + 7) / 8)%nat /\
      ((m_FinalMode st <> FinalNil /\ spec_at nb R dl (m_FinalMode st)) \/
       (m_FinalMode st = FinalNil /\ spec_at nb R dl FinalNil /\
        run decode_block (sg R dl) = Done BEof (sg R dl)))) \/
     (e <> EEOF /\ spec_at nb R dl FinalNil /\ fails e dl (run decode_block (sg R dl)))).

Definition EndInv (st : mrst) (dl : list byte) (e : err) : Prop :=
  EndCore st dl e /\ m_outOff st = Z.of_nat (length dl).

Lemma St_data R p : St R p -> s_data (p_src p) = data.
Proof. intros [HB _]. apply (BIs_offset data 0 R p HB). Qed.

(* the specification never reports io.EOF as an error *)
Lemma decode_block_not_eeof R out : ~ fails EEOF out (run decode_block (sg R out)).
Proof.
  intros (s' & E & _).
  pose proof (only_elim merr decode_block (sg R out) only_decode_block) as H.
  rewrite E in H.
  assert (Hw : wf_ast (sg R out)).
  { unfold wf_ast, sigma. cbn [a_out Prog.a_len]. rewrite rev_length. reflexivity. }
  specialize (H Hw). destruct H as [H|[H|H]]; discriminate.
Qed.

(* one call of decodeBlock from a state of the running Reader with an empty buffer *)
Lemma decode_block_step st dl : Core st dl -> m_buf st = [] -> m_final st = FinalNil ->
  let '(e, st1) := mr_decode_block st in
  m_outOff st1 = m_outOff st /\
  match e with
  | None => Core st1 dl /\ (src_pos st < src_pos st1)%nat
  | Some x => EndCore (set_err st1 (Some x)) dl x /\ m_buf st1 = [] /\ crashed x = false
  end.
Proof.
  intros (He & Hnil & HFM & R & nb & HS & Hpos & Hoff & Hin & Hnb & Hat) Hbuf Hfin.
  rewrite Hbuf, app_nil_r, Hfin in Hat.
  unfold mr_decode_block. rewrite Hnil.
  pose proof (block_body_sim data Hd bf dl R (m_br st) HS) as Hsim.
  destruct (block_body (m_br st)) as [r p1]. unfold block_post in Hsim.
  destruct r as [[buf final]|e|e].
  - (* a block *)
    destruct Hsim as (R' & Eblk & Hadv & HS1). cbn [fst snd] in Eblk.
    unfold block_finish.
    destruct (flush_sim data 0 R' p1 (proj1 HS1)) as (p2 & Efl & HB2 & Hb2 & Hoff2 & Hex).
    rewrite Efl. destruct (Hex (or_introl eq_refl)) as [Ho2 Hp2].
    cbn [m_outOff]. split; [reflexivity|].
    pose proof (BIs_range data Hd 0 R' p1 (proj1 HS1)) as HR'.
    split.
    + unfold Core. cbn [m_err m_nil m_FinalMode m_br m_inOff m_nblocks m_buf m_final].
      split; [exact He|]. split; [exact Hnil|]. split; [exact HFM|].
      exists R', (nb + 1). unfold src_pos. cbn [m_br].
      split; [split; [exact HB2 | destruct HS1 as [_ Hb1]; congruence]|].
      split; [exact Hp2|]. split; [rewrite Hp2; exact Ho2|].
      split; [rewrite Hin, Hoff, Hp2, Ho2; unfold src_pos; lia|].
      split; [lia|].
      apply (SAS nb R dl R' buf final Hat Eblk Hadv). lia.
    + unfold src_pos in *. cbn [m_br]. rewrite Hp2, Hpos. lia.
  - (* a returned error *)
    destruct Hsim as [Hcase HBd].
    unfold block_finish.
    destruct HBd as [(Rb & HBb) Hbb].
    destruct (flush_sim data 64 Rb p1 HBb) as (p2 & Efl & HB2 & Hb2 & Hoff2 & Hex).
    rewrite Efl. cbn [m_outOff]. split; [reflexivity|].
    assert (Hin2 : (m_inOff st + (p_offset p2 - p_offset (m_br st)))%Z = Z.of_nat (s_pos (p_src p2))).
    { rewrite Hin, Hoff, Hoff2. lia. }
    destruct Hcase as [(-> & Eeof & HRe & HS1)|(Hf & ->)].
    + (* the clean end of the source *)
      destruct (flush_sim data 0 R p1 (proj1 HS1)) as (p2' & Efl' & _ & _ & _ & Hex').
      rewrite Efl in Efl'. inversion Efl'; subst p2'.
      destruct (Hex' (or_introl eq_refl)) as [_ Hp2].
      split; [|split; [cbn [m_buf]; exact Hbuf | reflexivity]].
      unfold EndCore, set_err. cbn [m_err m_inOff m_nblocks m_FinalMode m_buf]. unfold src_pos. cbn [m_br].
      split; [reflexivity|]. split; [exact Hbuf|]. split; [exact Hin2|]. split; [discriminate|]. split; [discriminate|].
      split; [discriminate|].
      exists R, nb. split; [exact Hnb|]. left. split; [reflexivity|]. split; [exact Hp2|].
      right. split; [exact HFM|]. split; [exact Hat | exact Eeof].
    + split; [|split; [cbn [m_buf]; exact Hbuf | reflexivity]].
      unfold EndCore, set_err. cbn [m_err m_inOff m_nblocks m_FinalMode m_buf]. unfold src_pos. cbn [m_br].
      split; [reflexivity|]. split; [exact Hbuf|]. split; [exact Hin2|]. split; [discriminate|]. split; [discriminate|].
      split; [discriminate|].
      exists R, nb. split; [exact Hnb|]. right. split; [discriminate|]. split; [exact Hat | exact Hf].
  - (* an error raised with errors.Panic *)
    destruct Hsim as (Hf & HBd & Hn1 & Hn2).
    assert (Eb : match e with
                 | EPanic => (Some EPanic, crash (set_br st p1) EPanic)
                 | EFuel => (Some EFuel, crash (set_br st p1) EFuel)
                 | _ => block_finish st (p_offset (m_br st)) (BThrow e) p1
                 end = block_finish st (p_offset (m_br st)) (BThrow e) p1).
    { destruct e; try reflexivity; contradiction. }
    rewrite Eb. unfold block_finish.
    destruct HBd as [(Rb & HBb) Hbb].
    destruct (flush_sim data 64 Rb p1 HBb) as (p2 & Efl & HB2 & Hb2 & Hoff2 & Hex).
    rewrite Efl. cbn [m_outOff]. split; [reflexivity|].
    assert (Hin2 : (m_inOff st + (p_offset p2 - p_offset (m_br st)))%Z = Z.of_nat (s_pos (p_src p2))).
    { rewrite Hin, Hoff, Hoff2. lia. }
    split; [|split; [cbn [m_buf]; exact Hbuf | destruct e; try reflexivity; contradiction]].
    unfold EndCore, set_err. cbn [m_err m_inOff m_nblocks m_FinalMode m_buf]. unfold src_pos. cbn [m_br].
    split; [reflexivity|]. split; [exact Hbuf|]. split; [exact Hin2|]. split; [exact Hn1|]. split; [exact Hn2|].
    assert (Hne : e <> EEOF).
    { intros ->. exact (decode_block_not_eeof R dl Hf). }
    split.
    { intros ->. destruct Hf as (s' & E & _).
      pose proof (only_elim merr decode_block (sg R dl) only_decode_block) as H. rewrite E in H.
      assert (Hw : wf_ast (sg R dl)).
      { unfold wf_ast, sigma. cbn [a_out Prog.a_len]. rewrite rev_length. reflexivity. }
      destruct (H Hw) as [H1|[H1|H1]]; discriminate. }
    exists R, nb. split; [exact Hnb|]. right. split; [exact Hne|]. split; [exact Hat | exact Hf].
Qed.

Lemma Core_range st dl : Core st dl -> (src_pos st <= length data)%nat.
Proof.
  intros (_ & _ & _ & R & nb & HS & Hpos & _). pose proof (St_range data Hd bf R _ HS) as HR.
  unfold nbits in HR. rewrite Hpos. lia.
Qed.

Definition mu (st : mrst) : nat := (length data - src_pos st)%nat.

(* the loop of Read from a state of the running Reader *)
Lemma read_loop_inv : forall fuel st dl n, Core st dl -> n <> O -> (mu st < fuel)%nat ->
  let '(out, st1) := read_loop fuel st n in
  m_outOff st1 = m_outOff st /\
  ((out <> [] /\ Core st1 (dl ++ out)) \/
   (out = [] /\ exists e, EndCore st1 dl e)).
Proof.
  induction fuel as [|fuel IH]; intros st dl n HC Hn Hf; [lia|].
  cbn [read_loop]. destruct (m_buf st) as [|b l] eqn:Ebuf.
  - destruct (negb (fmode_eqb (m_final st) FinalNil)) eqn:Efin.
    + (* a final block has been delivered completely *)
      cbn [m_outOff]. split; [reflexivity|]. right. split; [reflexivity|]. exists EEOF.
      destruct HC as (He & Hnil & HFM & R & nb & HS & Hpos & Hoff & Hin & Hnb & Hat).
      rewrite Ebuf, app_nil_r in Hat.
      unfold EndCore. cbn [m_err m_buf m_inOff m_nblocks m_FinalMode]. unfold src_pos in *. cbn [m_br].
      split; [reflexivity|]. split; [reflexivity|]. split; [exact Hin|].
      split; [discriminate|]. split; [discriminate|]. split; [discriminate|].
      exists R, nb. split; [exact Hnb|]. left. split; [reflexivity|]. split; [exact Hpos|].
      left. split; [|exact Hat]. intros C. rewrite C in Efin. discriminate.
    + assert (Hfin : m_final st = FinalNil) by (destruct (m_final st); try discriminate; reflexivity).
      pose proof (decode_block_step st dl HC Ebuf Hfin) as Hstep.
      destruct (mr_decode_block st) as [[x|] st1].
      * destruct Hstep as (Ho & HE & Hb1 & Hcr). rewrite Hcr.
        split; [exact Ho|]. right. split; [reflexivity|]. exists x. exact HE.
      * destruct Hstep as (Ho & HC1 & Hadv).
        pose proof (Core_range st1 dl HC1) as Hr1.
        specialize (IH st1 dl n HC1 Hn ltac:(unfold mu in *; lia)).
        destruct (read_loop fuel st1 n) as [out st2]. destruct IH as [Ho2 IH].
        split; [congruence | exact IH].
  - cbn [m_outOff]. split; [reflexivity|]. left.
    split; [destruct n; [contradiction | cbn [firstn]; discriminate]|].
    destruct HC as (He & Hnil & HFM & R & nb & HS & Hpos & Hoff & Hin & Hnb & Hat).
    unfold Core. cbn [m_err m_nil m_FinalMode m_br m_inOff m_nblocks m_buf m_final]. unfold src_pos in *. cbn [m_br].
    split; [exact He|]. split; [exact Hnil|]. split; [exact HFM|].
    exists R, nb. repeat (split; [assumption|]).
    rewrite Ebuf in Hat. rewrite <- app_assoc, firstn_skipn. exact Hat.
Qed.

(* one Read call *)
Lemma mr_read_inv st dl n : RunInv st dl ->
  let '((bs, e), st') := mr_read st n in
  match e with
  | None => RunInv st' (dl ++ bs) /\ (n <> O -> bs <> [])
  | Some x => bs = [] /\ EndInv st' dl x
  end.
Proof.
  intros [HC Ho]. unfold mr_read. destruct HC as (He & HC'). rewrite He.
  assert (HC : Core st dl) by exact (conj He HC').
  destruct n as [|n].
  - cbn [length Z.of_nat m_err]. rewrite He.
    split; [|intros C; contradiction]. rewrite app_nil_r. split; [exact (conj eq_refl HC') | cbn [m_outOff]; lia].
  - assert (Hfuel : (mu st < read_fuel st)%nat).
    { unfold read_fuel, mu, src_pos. destruct HC' as (_ & _ & R & nb & HS & _).
      rewrite (St_data R _ HS). lia. }
    pose proof (read_loop_inv (read_fuel st) st dl (S n) HC ltac:(discriminate) Hfuel) as H.
    destruct (read_loop (read_fuel st) st (S n)) as [out st1]. destruct H as [Ho1 H].
    cbn [m_err]. destruct H as [[Hne HC1]|[-> (e & HE)]].
    + destruct HC1 as (He1 & HC1'). rewrite He1.
      split; [|intros _; exact Hne].
      split; [exact (conj eq_refl HC1')|]. cbn [m_outOff]. rewrite app_length. lia.
    + destruct HE as (He1 & HE'). rewrite He1. split; [reflexivity|].
      split; [exact (conj eq_refl HE')|]. cbn [m_outOff length]. lia.
Qed.

Definition no_crash (o : mrobs) : Prop := obs_err o <> Some EPanic /\ obs_err o <> Some EFuel.

(* a whole history of Reads *)
Lemma rd_run_inv : forall sched st dl obs fin, RunInv st dl -> rd_run st sched = (obs, fin) ->
  Forall no_crash obs /\
  match run_err obs with
  | None => RunInv fin (dl ++ delivered obs) /\ length obs = length sched
  | Some e => EndInv fin (dl ++ delivered obs) e
  end.
Proof.
  induction sched as [|n r IH]; intros st dl obs fin HI Hrun; cbn [rd_run] in Hrun.
  - inversion Hrun; subst. split; [constructor|]. cbn [run_err rev delivered flat_map].
    rewrite app_nil_r. split; [exact HI | reflexivity].
  - pose proof (mr_read_inv st dl n HI) as Hr.
    destruct (mr_read st n) as [[bs e] st'].
    destruct e as [x|].
    + inversion Hrun; subst. destruct Hr as [-> HE].
      assert (Hx : x <> EPanic /\ x <> EFuel).
      { destruct HE as [(_ & _ & _ & H1 & H2 & _) _]. split; assumption. }
      split.
      { constructor; [|constructor]. unfold no_crash, obs_err, observe. cbn [ro_ret].
        split; intros C; inversion C; subst; destruct Hx; contradiction. }
      unfold run_err. cbn [rev app obs_err observe ro_ret delivered flat_map obs_bytes].
      rewrite !app_nil_r. exact HE.
    + destruct Hr as [HI' _].
      destruct (rd_run st' r) as [l fin'] eqn:El. inversion Hrun; subst.
      destruct (IH st' (dl ++ bs) l fin HI' El) as [Hall Hm].
      split.
      { constructor; [|exact Hall]. unfold no_crash, obs_err, observe. cbn [ro_ret]. split; discriminate. }
      assert (Ed : dl ++ delivered (observe (RetRead bs None) st' :: l) = (dl ++ bs) ++ delivered l).
      { unfold delivered. cbn [flat_map obs_bytes observe ro_ret]. rewrite app_assoc. reflexivity. }
      rewrite Ed.
      destruct l as [|o1 l1].
      * unfold run_err in *. cbn [rev app obs_err observe ro_ret] in *.
        destruct Hm as [Hm1 Hm2]. split; [exact Hm1 | cbn [length] in *; lia].
      * rewrite run_err_cons by discriminate.
        destruct (run_err (o1 :: l1)); [exact Hm|].
        destruct Hm as [Hm1 Hm2]. split; [exact Hm1 | cbn [length] in *; lia].
Qed.

Lemma RunInv_new fills reads : bf = bf -> RunInv (mr_new data bf fills reads) [].
Proof.
  intros _. unfold RunInv, Core, mr_new, mr_reset.
  cbn [m_err m_nil m_FinalMode m_br m_inOff m_nblocks m_buf m_final m_outOff length]. unfold src_pos. cbn [m_br].
  split; [|reflexivity].
  split; [reflexivity|]. split; [reflexivity|]. split; [reflexivity|].
  exists 0%nat, 0. split.
  { split; [apply (BIs_init data Hd) | reflexivity]. }
  split; [reflexivity|]. split; [reflexivity|]. split; [reflexivity|]. split; [reflexivity|].
  apply SA0.
Qed.

(* what the end of a history means for the specification's run *)
Lemma end_spec st dl e r0 : loops stream_body 0 (sg 0 []) r0 -> EndCore st dl e ->
  (e = EEOF -> exists nb R, r0 = Done (m_FinalMode st, nb) (sg R dl) /\ m_nblocks st = Z.of_N nb /\
                            src_pos st = ((R + 7) / 8)%nat) /\
  (e <> EEOF -> exists s', r0 = Fail e s' /\ a_out s' = rev dl).
Proof.
  intros Hr0 (He & Hbuf & Hin & Hn1 & Hn2 & Hn3 & R & nb & Hnb & Hcase).
  destruct Hcase as [(-> & Hpos & [[Hfm Hat]|(Hfm & Hat & Heof)])|(Hne & Hat & Hf)].
  - split; [|intros C; contradiction]. intros _. exists nb, R.
    destruct (spec_at_loops r0 Hr0 _ _ _ _ Hat) as [_ H2]. rewrite (H2 Hfm).
    split; [reflexivity|]. split; assumption.
  - split; [|intros C; contradiction]. intros _. exists nb, R.
    destruct (spec_at_loops r0 Hr0 _ _ _ _ Hat) as [H1 _]. specialize (H1 eq_refl).
    pose proof (loops_done stream_body nb (sg R dl) _ _ (run_stream_body_eof nb R dl Heof)) as H2.
    rewrite (loops_det _ _ _ _ _ H1 H2), Hfm. split; [reflexivity|]. split; assumption.
  - split; [intros C; contradiction|]. intros _.
    destruct Hf as (s' & E & Ho). exists s'.
    destruct (spec_at_loops r0 Hr0 _ _ _ _ Hat) as [H1 _]. specialize (H1 eq_refl).
    pose proof (loops_fail stream_body nb (sg R dl) _ _ (run_stream_body_fail nb R dl e s' E)) as H2.
    rewrite (loops_det _ _ _ _ _ H1 H2). split; [reflexivity | exact Ho].
Qed.

End Top.

(* ================================================================================================ *)
(* (4) the theorems, for all inputs                                                                 *)
(* ================================================================================================ *)
Definition bytes_lt256 (data : list byte) : Prop := forall b, In b data -> b < 256.

Lemma spec_loops data D : bytes_lt256 data -> (nbits data < 32 * 2 ^ D)%nat ->
  loops stream_body 0 (sigma data 0 []) (run (decode_stream D) (ast_init (bytes_to_bits data))).
Proof.
  intros Hd HD. change (ast_init (bytes_to_bits data)) with (sigma data 0 []).
  unfold decode_stream. apply loop_loops. fold (decode_stream D).
  pose proof (decode_stream_nofuel D (sigma data 0 [])) as H.
  assert (Hi : (ilen (sigma data 0 []) < 32 * 2 ^ D)%nat).
  { unfold ilen, sigma. cbn [a_in skipn]. unfold sbits. rewrite bytes_to_bits_length. unfold nbits in HD. exact HD. }
  specialize (H Hi).
  destruct (run (decode_stream D) (sigma data 0 [])) as [x s|e s]; cbn [is_efuel]; [tauto|].
  destruct e; try tauto.
Qed.

(* OutputOffset is the number of bytes delivered; InputOffset is the number of bytes taken from
   the source (never more: after every call the source stands exactly at InputOffset); NumBlocks
   is the number of blocks the specification decodes up to the bit position R where the Reader
   stands, all the payload of these blocks is either delivered or in mr.buf, and while no error
   other than io.EOF has been returned the source stands at the byte boundary after bit R. *)
Theorem meta_reader_offsets data bf fills reads sched obs fin :
  bytes_lt256 data -> rd_run (mr_new data bf fills reads) sched = (obs, fin) ->
  m_outOff fin = Z.of_nat (length (delivered obs)) /\
  m_inOff fin = Z.of_nat (src_pos fin) /\
  exists nb R f, m_nblocks fin = Z.of_N nb /\ spec_at data nb R (delivered obs ++ m_buf fin) f /\
    (run_err obs = None \/ run_err obs = Some EEOF -> src_pos fin = ((R + 7) / 8)%nat).
Proof.
  intros Hd Hrun.
  destruct (rd_run_inv data Hd bf sched _ [] obs fin (RunInv_new data Hd bf fills reads eq_refl) Hrun) as [_ Hm].
  cbn [app] in Hm. destruct (run_err obs) as [e|].
  - destruct Hm as [(He & Hbuf & Hin & Hn1 & Hn2 & Hn3 & R & nb & Hnb & Hcase) Ho].
    split; [exact Ho|]. split; [exact Hin|]. rewrite Hbuf, app_nil_r.
    destruct Hcase as [(-> & Hpos & [[Hfm Hat]|(Hfm & Hat & Heof)])|(Hne & Hat & Hf)].
    + exists nb, R, (m_FinalMode fin). split; [exact Hnb|]. split; [exact Hat|]. intros _. exact Hpos.
    + exists nb, R, FinalNil. split; [exact Hnb|]. split; [exact Hat|]. intros _. exact Hpos.
    + exists nb, R, FinalNil. split; [exact Hnb|]. split; [exact Hat|].
      intros [C|C]; [discriminate | inversion C; subst; contradiction].
  - destruct Hm as [[(He & Hnil & HFM & R & nb & HS & Hpos & Hoff & Hin & Hnb & Hat) Ho] _].
    split; [exact Ho|]. split; [exact Hin|].
    exists nb, R, (m_final fin). split; [exact Hnb|]. split; [exact Hat|]. intros _. exact Hpos.
Qed.

(* THE REFINEMENT THEOREM. For every input, both source kinds, every script of the source and
   every schedule of Read sizes: the bytes delivered are a prefix of the specification's output;
   no call crashes; and when the history ends with an error e, then
     - the bytes delivered are exactly the specification's output (also when it fails);
     - e is io.EOF exactly when the specification accepts, otherwise e is the specification's
       error class (io.ErrUnexpectedEOF / Corrupted): the classes never differ;
     - on acceptance FinalMode and NumBlocks are the specification's, InputOffset is the number
       of bytes of the stream (up to the end of the final block, rounded up to a byte) and the
       source stands exactly there: nothing beyond the final block is consumed.
   [D] is the loop budget of the specification's stream loop (Meta/Model.v: 40 in meta_decode);
   any D with 8 * |data| < 32 * 2^D will do. *)
Theorem meta_reader_refines data bf fills reads sched obs fin D :
  bytes_lt256 data -> (nbits data < 32 * 2 ^ D)%nat ->
  rd_run (mr_new data bf fills reads) sched = (obs, fin) ->
  let r0 := run (decode_stream D) (ast_init (bytes_to_bits data)) in
  let out := delivered obs in
  prefix_of out (res_out r0) /\
  Forall no_crash obs /\
  (run_err obs <> None \/ length obs = length sched) /\
  forall e, run_err obs = Some e ->
    out = res_out r0 /\
    (e = EEOF <-> res_err r0 = None) /\
    (forall x, res_err r0 = Some x -> e = x) /\
    (forall f nb s', r0 = Done (f, nb) s' ->
       m_FinalMode fin = f /\ m_nblocks fin = Z.of_N nb /\
       m_inOff fin = Z.of_N ((a_pos s' + 7) / 8) /\
       src_pos fin = N.to_nat ((a_pos s' + 7) / 8)).
Proof.
  intros Hd HD Hrun r0 out.
  pose proof (spec_loops data D Hd HD) as Hr0. fold r0 in Hr0.
  destruct (rd_run_inv data Hd bf sched _ [] obs fin (RunInv_new data Hd bf fills reads eq_refl) Hrun) as [Hall Hm].
  cbn [app] in Hm. fold out in Hm.
  destruct (run_err obs) as [e|] eqn:Ee.
  - destruct Hm as [HE Ho].
    destruct (end_spec data Hd fin out e r0 Hr0 HE) as [H1 H2].
    assert (Hin : m_inOff fin = Z.of_nat (src_pos fin)) by (destruct HE as (_ & _ & H & _); exact H).
    assert (Hres : out = res_out r0 /\ (e = EEOF <-> res_err r0 = None) /\
                   (forall x, res_err r0 = Some x -> e = x) /\
                   (forall f nb s', r0 = Done (f, nb) s' ->
                      m_FinalMode fin = f /\ m_nblocks fin = Z.of_N nb /\
                      m_inOff fin = Z.of_N ((a_pos s' + 7) / 8) /\
                      src_pos fin = N.to_nat ((a_pos s' + 7) / 8))).
    { destruct (err_eqb e EEOF) eqn:Eq.
      - apply err_eqb_eq in Eq. subst e. destruct (H1 eq_refl) as (nb & R & E & Hnb & Hpos).
        rewrite E. split; [rewrite (Flate.ImplThms.res_out_sigma data); reflexivity|].
        split; [split; reflexivity|]. split; [intros x C; discriminate|].
        intros f nb' s' C. inversion C; subst. unfold sigma. cbn [a_pos].
        split; [reflexivity|]. split; [exact Hnb|]. rewrite Hin, Hpos. split; lia.
      - assert (Hne : e <> EEOF) by (intros C; subst e; cbn in Eq; discriminate).
        destruct (H2 Hne) as (s' & E & Hos). rewrite E.
        split; [rewrite Flate.ImplThms.res_out_fail, Hos, rev_involutive; reflexivity|].
        split; [split; [intros C; contradiction | intros C; discriminate]|].
        split; [intros x C; inversion C; reflexivity|]. intros f nb s2 C. discriminate. }
    split; [destruct Hres as [-> _]; apply prefix_of_refl|].
    split; [exact Hall|]. split; [left; discriminate|].
    intros e' He'. inversion He'; subst e'. exact Hres.
  - destruct Hm as [[(He & Hnil & HFM & R & nb & HS & Hpos & Hoff & Hin & Hnb & Hat) Ho] Hlen].
    split.
    { eapply prefix_of_trans; [apply prefix_of_app | apply (spec_at_prefix data Hd r0 Hr0 _ _ _ _ Hat)]. }
    split; [exact Hall|]. split; [right; exact Hlen|]. intros e C. discriminate.
Qed.

(* the same against the byte-level entry point meta_decode (budget 2^40 blocks: inputs below 2^42 bytes) *)
Theorem meta_reader_refines_meta_decode data bf fills reads sched obs fin :
  bytes_lt256 data -> N.of_nat (length data) < 2 ^ 42 ->
  rd_run (mr_new data bf fills reads) sched = (obs, fin) ->
  let res := meta_decode data in
  prefix_of (delivered obs) (mr_payload res) /\
  forall e, run_err obs = Some e ->
    delivered obs = mr_payload res /\
    (e = EEOF <-> mr_err res = None) /\
    (forall x, mr_err res = Some x -> e = x) /\
    (mr_err res = None ->
       m_FinalMode fin = mr_final res /\ m_nblocks fin = Z.of_N (mr_blocks res) /\
       m_inOff fin = Z.of_N (mr_used res) /\ src_pos fin = N.to_nat (mr_used res)).
Proof.
  intros Hd Hlen Hrun res.
  assert (HD : (nbits data < 32 * 2 ^ 40)%nat).
  { unfold nbits. assert (H : (length data < 2 ^ 42)%nat) by (apply nat_lt_pow2'; exact Hlen).
    change 42%nat with (2 + 40)%nat in H. rewrite Nat.pow_add_r in H.
    change (2 ^ 2)%nat with 4%nat in H. generalize dependent (2 ^ 40)%nat. intros m H. lia. }
  destruct (meta_reader_refines data bf fills reads sched obs fin 40 Hd HD Hrun) as (Hp & _ & _ & Hf).
  unfold res, meta_decode.
  destruct (run (decode_stream 40) (ast_init (bytes_to_bits data))) as [[f nb] s|x s] eqn:Er;
    cbn [mr_payload mr_err mr_final mr_blocks mr_used res_out res_state res_err] in *.
  - split; [exact Hp|]. intros e He. destruct (Hf e He) as (A & B & C & Dd).
    split; [exact A|]. split; [exact B|]. split; [exact C|]. intros _. apply (Dd f nb s eq_refl).
  - split; [exact Hp|]. intros e He. destruct (Hf e He) as (A & B & C & Dd).
    split; [exact A|]. split; [exact B|]. split; [exact C|]. intros Cx. discriminate.
Qed.

(* the delivered bytes and the final error class depend neither on the Read sizes nor on the
   source (kind, script): two histories over the same input that both end with an error agree *)
Theorem meta_reader_schedule_independent data bf1 fills1 reads1 sched1 obs1 fin1 bf2 fills2 reads2 sched2 obs2 fin2 :
  bytes_lt256 data ->
  rd_run (mr_new data bf1 fills1 reads1) sched1 = (obs1, fin1) ->
  rd_run (mr_new data bf2 fills2 reads2) sched2 = (obs2, fin2) ->
  (* histories that have not ended yet have delivered comparable prefixes of the same output *)
  (prefix_of (delivered obs1) (delivered obs2) \/ prefix_of (delivered obs2) (delivered obs1) \/
   exists o, prefix_of (delivered obs1) o /\ prefix_of (delivered obs2) o) /\
  forall e1 e2, run_err obs1 = Some e1 -> run_err obs2 = Some e2 ->
    delivered obs1 = delivered obs2 /\ e1 = e2 /\
    (e1 = EEOF -> m_FinalMode fin1 = m_FinalMode fin2 /\ m_nblocks fin1 = m_nblocks fin2 /\
                  m_inOff fin1 = m_inOff fin2 /\ src_pos fin1 = src_pos fin2).
Proof.
  intros Hd H1 H2.
  set (D := S (length data)).
  assert (HD : (nbits data < 32 * 2 ^ D)%nat).
  { unfold nbits, D. cbn [Nat.pow]. pose proof (Nat.pow_gt_lin_r 2 (length data) ltac:(lia)). lia. }
  destruct (meta_reader_refines data bf1 fills1 reads1 sched1 obs1 fin1 D Hd HD H1) as (P1 & _ & _ & F1).
  destruct (meta_reader_refines data bf2 fills2 reads2 sched2 obs2 fin2 D Hd HD H2) as (P2 & _ & _ & F2).
  split.
  { right; right. eexists. split; [exact P1 | exact P2]. }
  intros e1 e2 He1 He2. destruct (F1 e1 He1) as (A1 & B1 & C1 & D1). destruct (F2 e2 He2) as (A2 & B2 & C2 & D2).
  split; [congruence|].
  destruct (run (decode_stream D) (ast_init (bytes_to_bits data))) as [[f nb] s|x s] eqn:Er; cbn [res_err] in *.
  - assert (e1 = EEOF) by (apply B1; reflexivity). assert (e2 = EEOF) by (apply B2; reflexivity).
    split; [congruence|]. intros _.
    destruct (D1 f nb s eq_refl) as (X1 & X2 & X3 & X4). destruct (D2 f nb s eq_refl) as (Y1 & Y2 & Y3 & Y4).
    repeat split; congruence.
  - pose proof (C1 x eq_refl) as X1. pose proof (C2 x eq_refl) as X2. split; [congruence|].
    intros C. apply B1 in C. discriminate.
Qed.

(* every Read with a non-empty buffer delivers at least one byte or returns an error: a history
   with positive sizes delivers everything and ends *)
Theorem mr_read_progress data bf fills reads sched obs fin n :
  bytes_lt256 data -> rd_run (mr_new data bf fills reads) sched = (obs, fin) -> run_err obs = None ->
  n <> O -> let '((bs, e), _) := mr_read fin n in bs <> [] \/ e <> None.
Proof.
  intros Hd Hrun Hne Hn.
  destruct (rd_run_inv data Hd bf sched _ [] obs fin (RunInv_new data Hd bf fills reads eq_refl) Hrun) as [_ Hm].
  rewrite Hne in Hm. destruct Hm as [HI _].
  pose proof (mr_read_inv data Hd bf fin _ n HI) as H.
  destruct (mr_read fin n) as [[bs e] st']. destruct e as [x|].
  - right. discriminate.
  - left. apply H. exact Hn.
Qed.

Print Assumptions meta_reader_sticky_closed.
Print Assumptions meta_reader_reset_as_new.
Print Assumptions meta_reader_offsets.
Print Assumptions meta_reader_refines.
Print Assumptions meta_reader_refines_meta_decode.
Print Assumptions meta_reader_schedule_independent.
Print Assumptions mr_read_progress.

(* ================================================================================================ *)
(* (5) non-vacuity: a concrete stream of three blocks (66 payload bytes, FinalMeta) followed by     *)
(*     two bytes that do not belong to it                                                           *)
(* ================================================================================================ *)
Definition ex_payload : list byte :=
  [1;2;3;4;5;6;7;8;9;10;11;12;13;14;15;16;17;18;19;20;21;22;23;24;25;26;27;28;29;30;200;201;202;203;
   255;255;255;255;255;255;255;255;255;255;255;255;255;255;255;255;255;255;255;255;255;255;255;255;
   255;255;255;255;255;255;255;255].

(* meta_encode ex_payload FinalMeta ++ [9; 9] *)
Definition ex_stream : list byte :=
  [36;128;134;5;128;204;202;150;89;182;172;100;150;85;217;50;34;43;25;37;179;140;148;85;25;13;91;8;
   25;17;138;172;132;36;163;132;74;102;61;213;14;252;36;128;134;5;128;136;74;209;16;21;209;66;37;52;
   140;166;66;41;146;50;82;255;191;208;222;11;252;28;64;135;5;0;0;0;82;170;255;47;174;224;9;9].

Lemma ex_stream_is_encoded : option_map (fun x => x ++ [9; 9]) (meta_encode ex_payload FinalMeta) = Some ex_stream.
Proof. vm_compute. reflexivity. Qed.

Lemma ex_stream_bytes : bytes_lt256 ex_stream.
Proof.
  assert (H : forallb (fun b => b <? 256) ex_stream = true) by (vm_compute; reflexivity).
  rewrite forallb_forall in H. intros b Hb. specialize (H b Hb). lia.
Qed.

Lemma ex_budget : (nbits ex_stream < 32 * 2 ^ 5)%nat.
Proof. vm_compute. lia. Qed.

(* what the specification says about it: 66 bytes, FinalMeta, 3 blocks, 82 bytes used *)
Lemma ex_spec : meta_decode ex_stream = mkMR None ex_payload FinalMeta 3 82.
Proof. vm_compute. reflexivity. Qed.

(* the refinement theorem applies, and its conclusion is what the model computes: a buffered
   source that over-buffers, Read sizes 10, 100, ...: everything is delivered, io.EOF, FinalMeta,
   InputOffset = 82 = the position of the source (the two trailing bytes are not consumed) *)
Example meta_reader_refines_ex :
  let run := rd_run (mr_new ex_stream true [3; 0; 100]%nat []) [10; 100; 100; 0; 100; 5; 5]%nat in
  delivered (fst run) = ex_payload /\ run_err (fst run) = Some EEOF /\
  m_FinalMode (snd run) = FinalMeta /\ m_nblocks (snd run) = 3%Z /\ m_inOff (snd run) = 82%Z /\
  src_pos (snd run) = 82%nat /\ length (fst run) = 6%nat.
Proof. vm_compute. repeat split. Qed.

Example meta_reader_refines_ex_thm :
  forall bf fills reads sched obs fin,
    rd_run (mr_new ex_stream bf fills reads) sched = (obs, fin) ->
    prefix_of (delivered obs) ex_payload /\
    forall e, run_err obs = Some e ->
      delivered obs = ex_payload /\ e = EEOF /\ m_FinalMode fin = FinalMeta /\ m_nblocks fin = 3%Z /\
      m_inOff fin = 82%Z /\ src_pos fin = 82%nat.
Proof.
  intros bf fills reads sched obs fin Hrun.
  destruct (meta_reader_refines_meta_decode ex_stream bf fills reads sched obs fin ex_stream_bytes
              ltac:(vm_compute; reflexivity) Hrun) as [Hp Hf].
  rewrite ex_spec in Hp, Hf. cbn [mr_payload mr_err mr_final mr_blocks mr_used] in Hp, Hf.
  split; [exact Hp|]. intros e He. destruct (Hf e He) as (A & B & _ & Dd).
  destruct (Dd eq_refl) as (D1 & D2 & D3 & D4).
  split; [exact A|]. split; [apply B; reflexivity|]. split; [exact D1|]. split; [exact D2|].
  split; [exact D3 | exact D4].
Qed.

(* a truncated stream: both sides report io.ErrUnexpectedEOF after the first block's payload *)
Example meta_reader_refines_ex_truncated :
  let data := firstn 60 ex_stream in
  mr_err (meta_decode data) = Some EUEOF /\ mr_payload (meta_decode data) = firstn 24 ex_payload /\
  let run := rd_run (mr_new data false [] []) [7; 7; 7; 7; 7]%nat in
  delivered (fst run) = firstn 24 ex_payload /\ run_err (fst run) = Some EUEOF.
Proof. vm_compute. repeat split. Qed.

(* schedule independence: one byte at a time over a ByteReader / large reads over a buffered source *)
Example meta_reader_schedule_independent_ex :
  let r1 := rd_run (mr_new ex_stream false [] []) (repeat 1%nat 70) in
  let r2 := rd_run (mr_new ex_stream true [5000]%nat []) [4096; 4096; 4096; 4096]%nat in
  delivered (fst r1) = delivered (fst r2) /\ run_err (fst r1) = Some EEOF /\ run_err (fst r2) = Some EEOF /\
  length (fst r1) = 67%nat /\ length (fst r2) = 4%nat /\ src_pos (snd r1) = src_pos (snd r2).
Proof. vm_compute. repeat split. Qed.

(* offsets after every call of a history: (OutputOffset, InputOffset, NumBlocks, source position) *)
Example meta_reader_offsets_ex :
  map (fun o => (ro_outOff o, ro_inOff o, ro_nblocks o, ro_srcPos o))
      (fst (rd_run (mr_new ex_stream true [3]%nat []) [10; 100; 100; 100; 5]%nat)) =
  [(10, 42, 1, 42%nat); (24, 42, 1, 42%nat); (52, 69, 2, 69%nat); (66, 82, 3, 82%nat); (66, 82, 3, 82%nat)]%Z.
Proof. vm_compute. reflexivity. Qed.

(* the latch and Close: Read after io.EOF, Close, Close again, Read after Close *)
Example meta_reader_sticky_closed_ex :
  map (fun o => (ro_ret o, ro_outOff o, ro_inOff o, ro_FinalMode o, ro_srcPos o))
      (mr_run_new ex_stream false [] [] [RdRead 100; RdRead 100; RdRead 100; RdRead 1; RdRead 1; RdClose; RdClose; RdRead 9])%nat =
  [(RetRead (firstn 24 ex_payload) None, 24, 42, FinalNil, 42%nat);
   (RetRead (firstn 28 (skipn 24 ex_payload)) None, 52, 69, FinalNil, 69%nat);
   (RetRead (skipn 52 ex_payload) None, 66, 82, FinalNil, 82%nat);
   (RetRead [] (Some EEOF), 66, 82, FinalMeta, 82%nat);
   (RetRead [] (Some EEOF), 66, 82, FinalMeta, 82%nat);
   (RetClose None, 66, 82, FinalMeta, 82%nat);
   (RetClose None, 66, 82, FinalMeta, 82%nat);
   (RetRead [] (Some EClosed), 66, 82, FinalMeta, 82%nat)]%Z.
Proof. vm_compute. reflexivity. Qed.

(* a corrupted stream: the error is latched; Close reports it *)
Example meta_reader_sticky_ex_corrupted :
  map (fun o => ro_ret o)
      (mr_run_new (firstn 42 ex_stream ++ [0; 1; 2; 3]%N) true [] [] [RdRead 100; RdRead 100; RdRead 100; RdClose; RdRead 1])%nat =
  [RetRead (firstn 24 ex_payload) None; RetRead [] (Some ECorrupted); RetRead [] (Some ECorrupted);
   RetClose (Some ECorrupted); RetRead [] (Some ECorrupted)].
Proof. vm_compute. reflexivity. Qed.

(* Reset in the middle of a stream, after Close, after an error: as NewReader *)
Example meta_reader_reset_as_new_ex :
  let mid := snd (mr_run (mr_new ex_stream true [] []) [RdRead 10]%nat) in
  let closed := snd (mr_run (mr_new ex_stream true [] []) [RdRead 30; RdClose]%nat) in
  let failed := snd (mr_run (mr_new (firstn 50 ex_stream) false [] []) [RdRead 30; RdRead 30]%nat) in
  m_err failed = Some EUEOF /\ m_err closed = Some EClosed /\ m_buf mid <> [] /\
  mr_reset mid ex_stream false [1]%nat [] = mr_new ex_stream false [1]%nat [] /\
  fst (mr_run (mr_reset closed ex_stream false [] []) [RdRead 100; RdClose]%nat)
    = mr_run_new ex_stream false [] [] [RdRead 100; RdClose]%nat /\
  fst (mr_run (mr_reset failed ex_stream true [] []) [RdRead 100]%nat)
    = mr_run_new ex_stream true [] [] [RdRead 100]%nat.
Proof.
  vm_compute. split; [reflexivity|]. split; [reflexivity|]. split; [discriminate|].
  split; [reflexivity|]. split; reflexivity.
Qed.

(* NOTES.md, finding 2 (verified against the real code): Close in the middle of the payload of a
   FinalStream block returns nil and reports FinalStream; the second payload byte is dropped *)
Example meta_reader_close_midblock_ex :
  map (fun o => (ro_ret o, ro_outOff o, ro_inOff o, ro_FinalMode o, ro_srcPos o))
      (mr_run_new [13;0;135;5;0;0;72;132;108;253;127;103;123;242;5] true [] [] [RdRead 1%nat; RdClose]) =
  [(RetRead [1%N] None, 1, 14, FinalNil, 14%nat); (RetClose None, 1, 14, FinalStream, 14%nat)]%Z.
Proof. vm_compute. reflexivity. Qed.

(* NOTES.md, finding 1: a FinalNil block followed by the end of the source is a clean io.EOF *)
Example meta_reader_finalnil_eof_ex :
  let data := [20;192;134;5;0;32;20;42;171;178;170;255;207;107;239;93;248] in
  meta_decode data = mkMR None [7;7;7] FinalNil 1 17 /\
  map (fun o => (ro_ret o, ro_inOff o, ro_nblocks o, ro_FinalMode o))
      (mr_run_new data false [] [] [RdRead 100%nat; RdRead 100%nat]) =
  [(RetRead [7;7;7]%N None, 17, 1, FinalNil); (RetRead [] (Some EEOF), 17, 1, FinalNil)]%Z.
Proof. vm_compute. split; reflexivity. Qed.
