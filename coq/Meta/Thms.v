(* Theorems about the meta model (C16). *)
From V Require Import Base.Prelude Base.Prog Base.ProgThms Meta.Model.
From Coq Require Import ZifyBool ZifyN ZifyNat.

(* ---- popcount facts -------------------------------------------------- *)
Lemma popcount8_le b : popcount8 b <= 8.
Proof.
  unfold popcount8, bits_lsb. cbn [fold_right].
  repeat match goal with |- context[N.b2n ?x] => destruct x; cbn [N.b2n] end; lia.
Qed.

Lemma count_ones_le l : count_ones l <= 8 * N.of_nat (length l).
Proof.
  unfold count_ones. induction l as [|b l IH]; cbn [fold_right length].
  - lia.
  - pose proof (popcount8_le b). lia.
Qed.

Lemma count_zeros_ones l : count_zeros l + count_ones l = 8 * N.of_nat (length l).
Proof. unfold count_zeros. pose proof (count_ones_le l). lia. Qed.

(* ---- payloads of up to 22 bytes always fit one block ------------------ *)
(* finite domain: zeros + ones = 8 n, n <= 22 *)
Definition fits22_table : bool :=
  forallb (fun n => forallb (fun o =>
      negb (fst (computeHuffLen (8 * N.of_nat n - N.of_nat o) (N.of_nat o)) =? 0))
    (seq 0 (8 * n + 1))) (seq 0 23).

Lemma fits22_table_ok : fits22_table = true.
Proof. vm_compute. reflexivity. Qed.

Lemma huff_fits_22 zeros ones :
  zeros + ones <= 8 * 22 -> (zeros + ones) mod 8 = 0 ->
  fst (computeHuffLen zeros ones) <> 0.
Proof.
  intros Hle Hm.
  pose proof fits22_table_ok as T. unfold fits22_table in T.
  rewrite forallb_forall in T.
  set (n := N.to_nat ((zeros + ones) / 8)).
  assert (Hn : In n (seq 0 23)). { apply in_seq. subst n. lia. }
  specialize (T n Hn). rewrite forallb_forall in T.
  assert (Ho : In (N.to_nat ones) (seq 0 (8 * n + 1))). { apply in_seq. subst n. lia. }
  specialize (T _ Ho).
  replace (8 * N.of_nat n - N.of_nat (N.to_nat ones)) with zeros in T by (subst n; lia).
  rewrite N2Nat.id in T.
  apply negb_true_iff in T. apply N.eqb_neq in T. exact T.
Qed.

Theorem meta_22_fits_lemma buf final :
  (length buf <= 22)%nat -> encode_block buf final <> None.
Proof.
  intros Hlen. unfold encode_block, encode_block_bits.
  pose proof (count_zeros_ones buf) as Hs.
  assert (Hf : fst (computeHuffLen (count_zeros buf) (count_ones buf)) <> 0).
  { apply huff_fits_22.
    - rewrite Hs. lia.
    - rewrite Hs. rewrite N.mul_comm. apply N.mod_mul. lia. }
  destruct (computeHuffLen (count_zeros buf) (count_ones buf)) as [h inv].
  cbn [fst] in Hf. apply N.eqb_neq in Hf. rewrite Hf. cbv zeta. cbn [option_map]. discriminate.
Qed.

(* the bound is tight: some 23-byte payload does not fit *)
Example meta_23_may_not_fit :
  exists buf, length buf = 23%nat /\ encode_block buf FinalNil = None.
Proof.
  exists (repeat 255 7 ++ [15] ++ repeat 0 15). split; [reflexivity|]. vm_compute. reflexivity.
Qed.

(* computeHuffLen stays in 0..7 *)
Lemma huff_search_range cands z o :
  Forall (fun h => h <= 7) cands -> huff_search cands z o <= 7.
Proof.
  induction 1 as [|h r Hh Hr IH]; cbn [huff_search]; [lia|].
  destruct (_ && _); auto.
Qed.

Lemma computeHuffLen_range z o : fst (computeHuffLen z o) <= 7.
Proof.
  unfold computeHuffLen.
  destruct (z <? o);
  match goal with |- context[huff_search ?c ?a ?b] =>
    pose proof (huff_search_range c a b) as H; destruct (huff_search c a b =? 0) end;
  cbn [fst]; try lia; apply H; repeat constructor; lia.
Qed.

(* ---- Write is split independent -------------------------------------- *)
(* The Writer as a state machine over single bytes: state = (blocks already
   emitted, buffer). Write of a slice = fold over its bytes, so any partition
   of the payload reaches the same state. *)
Definition wstate := (list (list byte) * list byte)%type.
Definition wstep (s : wstate) (b : byte) : wstate :=
  let '(done, buf) := s in
  if fits_with buf b then (done, buf ++ [b]) else (done ++ [buf], [b]).
Definition wwrite (s : wstate) (p : list byte) : wstate := fold_left wstep p s.
Definition wclose (s : wstate) : list (list byte) := fst s ++ [snd s].

Lemma wwrite_app s a b : wwrite (wwrite s a) b = wwrite s (a ++ b).
Proof. unfold wwrite. symmetry. apply fold_left_app. Qed.

Theorem meta_writer_split_independent (parts : list (list byte)) :
  fold_left wwrite parts ([], []) = wwrite ([], []) (concat parts).
Proof.
  generalize (([], []) : wstate) as s.
  induction parts as [|p r IH]; intros s; cbn [fold_left concat]; auto.
  rewrite IH. apply wwrite_app.
Qed.

(* and the state machine computes the same block list as [writer_blocks] *)
Lemma writer_blocks_wwrite payload done buf :
  wclose (wwrite (done, buf) payload) = done ++ writer_blocks payload buf.
Proof.
  revert done buf; induction payload as [|b r IH]; intros done buf;
    cbn [wwrite fold_left writer_blocks].
  - reflexivity.
  - unfold wwrite in IH. cbn [wstep]. destruct (fits_with buf b).
    + apply IH.
    + rewrite IH, <- app_assoc. reflexivity.
Qed.

Theorem meta_writer_blocks_eq payload :
  wclose (wwrite ([], []) payload) = writer_blocks payload [].
Proof. apply (writer_blocks_wwrite payload [] []). Qed.

(* every non-final buffered block the Writer emits fits (so encodeBlock's
   "block too large" error is unreachable): the buffer always satisfies the
   fits predicate *)
Definition buf_fits (buf : list byte) : Prop :=
  fst (computeHuffLen (count_zeros buf) (count_ones buf)) <> 0.

Lemma count_ones_app a b : count_ones (a ++ b) = count_ones a + count_ones b.
Proof.
  unfold count_ones. induction a as [|x a IH]; cbn [fold_right app]; [lia|].
  rewrite IH. lia.
Qed.

Lemma count_zeros_snoc buf b :
  count_zeros (buf ++ [b]) = count_zeros buf + (8 - popcount8 b).
Proof.
  unfold count_zeros. rewrite app_length, count_ones_app.
  cbn [count_ones fold_right length].
  pose proof (popcount8_le b). pose proof (count_ones_le buf). lia.
Qed.

Lemma count_ones_snoc buf b : count_ones (buf ++ [b]) = count_ones buf + popcount8 b.
Proof. rewrite count_ones_app. cbn [count_ones fold_right]. lia. Qed.

Lemma fits_with_sound buf b :
  buf_fits buf -> (length buf <= 31)%nat -> fits_with buf b = true -> buf_fits (buf ++ [b]).
Proof.
  intros Hb Hl Hf. unfold fits_with in Hf. unfold buf_fits.
  rewrite count_zeros_snoc, count_ones_snoc.
  apply orb_true_iff in Hf as [Hf|Hf].
  - apply huff_fits_22.
    + pose proof (count_zeros_ones buf). pose proof (popcount8_le b).
      apply N.ltb_lt in Hf. unfold EnsureRawBytes in Hf. lia.
    + pose proof (count_zeros_ones buf). pose proof (popcount8_le b).
      replace (count_zeros buf + (8 - popcount8 b) + (count_ones buf + popcount8 b))
        with (8 * (N.of_nat (length buf) + 1)) by lia.
      rewrite N.mul_comm. apply N.mod_mul. lia.
  - apply negb_true_iff, N.eqb_neq in Hf. exact Hf.
Qed.
