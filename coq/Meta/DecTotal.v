(* The XFLATE meta DECODER on arbitrary (hostile) input: it ends in success,
   UnexpectedEOF or Corrupted - never in the panic outcome of the symbol decoder
   (the fixed code of [decHuff] is complete), never with an exhausted loop budget
   (the symbol loop advances [ss_idx]; every block the stream loop accepts has
   consumed its 32-bit magic). A stream that ends with a final mode has consumed
   at least 32 bits. Used by XFlate/Total.v. *)
From V Require Import Base.Prelude Base.Prog Base.ProgThms Base.OkThms Base.FuelThms Meta.Model.

Definition merr (e : err) : Prop := e = ECorrupted \/ e = EUEOF \/ e = EFuel.

(* ---- the symbol decoder never reaches its dead end ------------------------------- *)
Lemma run_sym_walk_dec s :
  match run (sym_walk 3 decHuff []) s with
  | Done o _ => exists v, o = Some v
  | Fail e _ => e = EUEOF
  end.
Proof.
  cbn [sym_walk decHuff lookup_code list_eqb any_extends existsb is_prefix_b snd orb app run].
  destruct (a_in s) as [|b1 r1]; [reflexivity|].
  destruct b1; cbn [sym_walk decHuff lookup_code list_eqb Bool.eqb andb any_extends existsb is_prefix_b snd orb app run a_in];
    [|eexists; reflexivity].
  destruct r1 as [|b2 r2]; [reflexivity|].
  destruct b2; cbn [sym_walk decHuff lookup_code list_eqb Bool.eqb andb any_extends existsb is_prefix_b snd orb app run a_in];
    [|eexists; reflexivity].
  destruct r2 as [|b3 r3]; [reflexivity|].
  destruct b3; cbn [sym_walk decHuff lookup_code list_eqb Bool.eqb andb any_extends existsb is_prefix_b snd orb app run a_in];
    eexists; reflexivity.
Qed.

Transparent only hoare nofuel eats post.

Lemma hoare_sym_walk_dec (S : err -> Prop) :
  S EUEOF -> hoare S (fun o => exists v, o = Some v) (sym_walk 3 decHuff []).
Proof.
  intros Hu s _. pose proof (run_sym_walk_dec s) as H.
  destruct (run (sym_walk 3 decHuff []) s); [exact H | subst; exact Hu].
Qed.

Lemma merr_c : merr ECorrupted. Proof. left; reflexivity. Qed.
Lemma merr_u : merr EUEOF. Proof. right; left; reflexivity. Qed.
Lemma merr_f : merr EFuel. Proof. right; right; reflexivity. Qed.
#[local] Hint Resolve merr_c merr_u merr_f : core.

Lemma only_read_bits n : only merr (read_bits n).
Proof. unfold read_bits. apply only_bits_lsbf. auto. Qed.

Lemma only_chk fail (p : prog bool) : only merr p -> only merr (chk fail p).
Proof. intros H. unfold chk. destruct fail; [apply only_ret | exact H]. Qed.

Lemma only_hclen_zeros n : forall fail, only merr (hclen_zeros n fail).
Proof.
  induction n as [|n IH]; intros fail; cbn [hclen_zeros]; [apply only_ret|].
  apply only_bind; [|intros f; apply IH].
  apply only_chk. apply only_bind; [apply only_read_bits | intros; apply only_ret].
Qed.

Lemma only_sym_body st : only merr (sym_body st).
Proof.
  unfold sym_body. destruct (256 <=? ss_idx st); [apply only_ret|].
  apply only_of_hoare with (Q := fun _ => True).
  eapply hoare_bind; [apply hoare_sym_walk_dec; auto|].
  intros o [sym ->]. apply hoare_of_only.
  apply only_bind.
  - destruct (sym =? 0); [apply only_ret|].
    destruct (sym =? 1); [apply only_ret|].
    destruct (sym =? 2); (apply only_bind; [apply only_read_bits | intros; apply only_ret]).
  - intros [[bit cnt] fifo]. destruct (fifo =? 0); [apply only_throw; auto | apply only_ret].
Qed.

Lemma only_decode_block : only merr decode_block.
Proof.
  unfold decode_block. apply only_iseof. intros eof. destruct eof; [apply only_ret|].
  apply only_bind; [apply only_read_bits|]. intros magic.
  apply only_assert_bind; [auto|]. intros _.
  apply only_bind; [apply only_hclen_zeros|]. intros f1.
  apply only_bind; [apply only_chk; apply only_bind; [apply only_read_bits | intros; apply only_ret]|]. intros f2.
  apply only_bind; [apply only_chk; apply only_bind; [apply only_read_bits | intros; apply only_ret]|]. intros f3.
  apply only_assert_bind; [auto|]. intros _.
  apply only_bind; [apply only_loop; [auto | intros; apply only_sym_body]|]. intros st.
  apply only_assert_bind; [auto|]. intros _.
  apply only_assert_bind; [auto|]. intros _.
  apply only_assert_bind; [auto|]. intros _.
  apply only_assert_bind; [auto|]. intros _.
  apply only_bind; [apply only_bind; [apply only_read_bits | intros; apply only_ret]|]. intros f4.
  apply only_bind; [apply only_chk; apply only_bind; [apply only_read_bits | intros; apply only_ret]|]. intros f5.
  apply only_bind; [apply only_chk; apply only_bind; [apply only_read_bits | intros; apply only_ret]|]. intros f6.
  apply only_bind; [apply only_chk; apply only_pos; intros; apply only_ret|]. intros f7.
  apply only_assert_bind; [auto|]. intros _. apply only_ret.
Qed.

Lemma only_stream_body nb : only merr (stream_body nb).
Proof.
  unfold stream_body. apply only_bind; [apply only_decode_block|].
  intros [|buf final]; [apply only_ret|].
  apply only_bind; [apply only_put_all|]. intros _. destruct final; apply only_ret.
Qed.

Lemma only_decode_stream d : only merr (decode_stream d).
Proof. unfold decode_stream. apply only_loop; [auto | intros; apply only_stream_body]. Qed.

(* ---- budgets ------------------------------------------------------------------------ *)
Section NF.
Variable n : nat.

Lemma nf_read_bits k : nofuel n (read_bits k).
Proof. unfold read_bits. apply nofuel_bits_lsbf. Qed.

Lemma nf_chk fail (p : prog bool) : nofuel n p -> nofuel n (chk fail p).
Proof. intros H. unfold chk. destruct fail; [apply nofuel_ret | exact H]. Qed.

Lemma nf_rb_ret {B} k (f : N -> B) : nofuel n (v <- read_bits k ;; Ret (f v)).
Proof. apply nofuel_bind; [apply nf_read_bits | intros; apply nofuel_ret]. Qed.

Lemma nf_hclen_zeros k : forall fail, nofuel n (hclen_zeros k fail).
Proof.
  induction k as [|k IH]; intros fail; cbn [hclen_zeros]; [apply nofuel_ret|].
  apply nofuel_bind; [|intros f; apply IH]. apply nf_chk. apply nf_rb_ret.
Qed.

Lemma nf_sym_walk m cs : forall acc, nofuel n (sym_walk m cs acc).
Proof.
  induction m as [|m IH]; intros acc; cbn [sym_walk]; destruct (lookup_code cs acc);
    try apply nofuel_ret.
  destruct (any_extends cs acc); [|apply nofuel_ret].
  apply nofuel_bit. intros b. apply IH.
Qed.

Lemma nf_sym_body st : nofuel n (sym_body st).
Proof.
  unfold sym_body. destruct (256 <=? ss_idx st); [apply nofuel_ret|].
  apply nofuel_bind; [apply nf_sym_walk|]. intros [sym|]; [|apply nofuel_throw; discriminate].
  apply nofuel_bind.
  - destruct (sym =? 0); [apply nofuel_ret|].
    destruct (sym =? 1); [apply nofuel_ret|].
    destruct (sym =? 2); apply nf_rb_ret.
  - intros [[bit cnt] fifo]. destruct (fifo =? 0); [apply nofuel_throw; discriminate | apply nofuel_ret].
Qed.

(* a continuing iteration of the symbol loop advances the index, which stays below 256
   before the step *)
Definition sym_mu (st : symst) : nat := N.to_nat (394 - ss_idx st).

Lemma sym_body_measure st s st' s' :
  ss_idx st < 394 ->
  run (sym_body st) s = Done (inl st') s' -> ss_idx st < ss_idx st' /\ ss_idx st' < 394.
Proof.
  intros Hi. unfold sym_body. destruct (256 <=? ss_idx st) eqn:E; [cbn [run]; discriminate|].
  apply N.leb_gt in E.
  rewrite run_bind. destruct (run (sym_walk 3 decHuff []) s) as [[sym|] s1|e s1]; [| cbn [run]; discriminate | discriminate].
  rewrite run_bind.
  set (q := if sym =? 0 then _ else _).
  assert (Hq : post (fun r : bool * N * N => 1 <= snd (fst r) <= 138) q).
  { unfold q. destruct (sym =? 0); [apply post_ret; cbn; lia|].
    destruct (sym =? 1); [apply post_ret; cbn; lia|].
    destruct (sym =? 2).
    - eapply post_bind; [apply (post_bits_lsbf 2)|]. intros v Hv. apply post_ret. cbn [fst snd].
      cbv beta in Hv. change (2 ^ N.of_nat 2) with 4 in Hv. lia.
    - eapply post_bind; [apply (post_bits_lsbf 7)|]. intros v Hv. apply post_ret. cbn [fst snd].
      cbv beta in Hv. change (2 ^ N.of_nat 7) with 128 in Hv. lia. }
  destruct (run q s1) as [[[bit cnt] fifo] s2|e s2] eqn:Eq; [|discriminate].
  specialize (Hq _ _ _ Eq). cbn [fst snd] in Hq.
  destruct (fifo =? 0); cbn [run]; [discriminate|].
  intros H. inversion H; subst. cbn [ss_idx]. lia.
Qed.

Lemma nf_sym_loop : nofuel n (loop 9 sym_body (mkSymst 0 false 0 255 [false])).
Proof.
  (* the invariant idx < 394 is threaded through a measure that also records it *)
  set (mu := fun st => if ss_idx st <? 394 then sym_mu st else O).
  intros s Hs. unfold loop. rewrite run_bind.
  pose proof (nofuel_iter2 n 9 sym_body (mkSymst 0 false 0 255 [false]) nf_sym_body s Hs) as H1.
  destruct (run (iter2 9 sym_body _) s) as [[st1|r] s1|e s1] eqn:E1; [| exact I | exact H1].
  exfalso.
  assert (G : forall d st s st' s', ss_idx st < 394 ->
             run (iter2 d sym_body st) s = Done (inl st') s' ->
             ss_idx st' < 394 /\ (N.to_nat (ss_idx st) + 2 ^ d <= N.to_nat (ss_idx st'))%nat).
  { clear. induction d as [|d IH]; intros st s st' s' Hi H; cbn [iter2] in H.
    - destruct (sym_body_measure st s st' s' Hi H). cbn. lia.
    - rewrite run_bind in H.
      destruct (run (iter2 d sym_body st) s) as [[st1|r] s1|e s1] eqn:E1;
        [ | cbn [run] in H; discriminate | discriminate ].
      destruct (IH _ _ _ _ Hi E1) as [Hi1 H1]. destruct (IH _ _ _ _ Hi1 H) as [Hi2 H2].
      split; [exact Hi2|]. cbn [Nat.pow]. lia. }
  assert (Hi0 : ss_idx (mkSymst 0 false 0 255 [false]) < 394) by (cbn; lia).
  destruct (G _ _ _ _ _ Hi0 E1) as [Hb Hc]. cbn [ss_idx] in Hc.
  change (2 ^ 9)%nat with 512%nat in Hc. lia.
Qed.

Lemma nf_decode_block : nofuel n decode_block.
Proof.
  unfold decode_block. apply nofuel_iseof. intros eof. destruct eof; [apply nofuel_ret|].
  apply nofuel_bind; [apply nf_read_bits|]. intros magic.
  apply nofuel_assert_bind; [discriminate|]. intros _.
  apply nofuel_bind; [apply nf_hclen_zeros|]. intros f1.
  apply nofuel_bind; [apply nf_chk; apply nf_rb_ret|]. intros f2.
  apply nofuel_bind; [apply nf_chk; apply nf_rb_ret|]. intros f3.
  apply nofuel_assert_bind; [discriminate|]. intros _.
  apply nofuel_bind; [apply nf_sym_loop|]. intros st.
  apply nofuel_assert_bind; [discriminate|]. intros _.
  apply nofuel_assert_bind; [discriminate|]. intros _.
  apply nofuel_assert_bind; [discriminate|]. intros _.
  apply nofuel_assert_bind; [discriminate|]. intros _.
  apply nofuel_bind; [apply nf_rb_ret|]. intros f4.
  apply nofuel_bind; [apply nf_chk; apply nf_rb_ret|]. intros f5.
  apply nofuel_bind; [apply nf_chk; apply nf_rb_ret|]. intros f6.
  apply nofuel_bind; [apply nf_chk; apply nofuel_pos; intros; apply nofuel_ret|]. intros f7.
  apply nofuel_assert_bind; [discriminate|]. intros _. apply nofuel_ret.
Qed.

Lemma nf_stream_body nb : nofuel n (stream_body nb).
Proof.
  unfold stream_body. apply nofuel_bind; [apply nf_decode_block|].
  intros [|buf final]; [apply nofuel_ret|].
  apply nofuel_bind; [apply nofuel_put_all|]. intros _. destruct final; apply nofuel_ret.
Qed.
End NF.

(* ---- every accepted block has consumed its 32-bit magic ------------------------------- *)
Lemma run_bits_lsbf_adv k : forall s v s',
  run (bits_lsbf k) s = Done v s' ->
  a_pos s' = a_pos s + N.of_nat k /\ (ilen s' + k = ilen s)%nat.
Proof.
  induction k as [|k IH]; intros s v s' H; cbn [bits_lsbf run] in H.
  - inversion H; subst. split; lia.
  - destruct (a_in s) as [|b r] eqn:E; [discriminate|].
    rewrite run_bind in H.
    destruct (run (bits_lsbf k) _) as [v1 s1|e s1] eqn:E1; [|discriminate].
    cbn [run] in H. injection H as Hv Hs. subst s'.
    destruct (IH _ _ _ E1) as [G1 G2]. cbn [a_pos] in G1. unfold ilen in *. cbn [a_in] in G2.
    rewrite E. cbn [length]. split; lia.
Qed.

Lemma run_done_pos_le {A} (p : prog A) s a s' : run p s = Done a s' -> a_pos s <= a_pos s'.
Proof.
  intros H. destruct (run_mono p s) as [o [c [_ [_ H3]]]]. rewrite H in H3. cbn [res_state] in H3. lia.
Qed.

Lemma decode_block_adv s r s' :
  run decode_block s = Done r s' -> r <> BEof ->
  a_pos s + 32 <= a_pos s' /\ (ilen s' + 32 <= ilen s)%nat.
Proof.
  unfold decode_block. cbn [run]. destruct (a_in s) as [|b0 r0] eqn:Ein.
  { cbn [run]. intros H Hne. inversion H; subst. contradiction. }
  rewrite run_bind. intros H _.
  destruct (run (read_bits 32) s) as [magic s1|e s1] eqn:E1; [|discriminate].
  unfold read_bits in E1. destruct (run_bits_lsbf_adv _ _ _ _ E1) as [P1 P2].
  pose proof (run_done_pos_le _ _ _ _ H) as P3. pose proof (run_done_ilen_le _ _ _ _ H) as P4.
  change (N.of_nat (N.to_nat 32)) with 32 in P1. change (N.to_nat 32) with 32%nat in P2. split; lia.
Qed.

Lemma stream_body_adv nb s r s' :
  run (stream_body nb) s = Done r s' ->
  (forall k, r <> inr (FinalNil, k)) ->
  a_pos s + 32 <= a_pos s' /\ (ilen s' + 32 <= ilen s)%nat.
Proof.
  unfold stream_body. rewrite run_bind.
  destruct (run decode_block s) as [[|buf final] s1|e s1] eqn:E1; [| |discriminate].
  - cbn [run]. intros H Hne. inversion H; subst. exfalso. exact (Hne nb eq_refl).
  - intros H _. destruct (decode_block_adv _ _ _ E1 ltac:(discriminate)) as [P1 P2].
    pose proof (run_done_pos_le _ _ _ _ H) as P3. pose proof (run_done_ilen_le _ _ _ _ H) as P4.
    split; lia.
Qed.

Lemma iter2_stream_inl d : forall nb s nb' s',
  run (iter2 d stream_body nb) s = Done (inl nb') s' -> (ilen s' + 32 * 2 ^ d <= ilen s)%nat.
Proof.
  induction d as [|d IH]; intros nb s nb' s' H; cbn [iter2] in H.
  - destruct (stream_body_adv _ _ _ _ H ltac:(intros k; discriminate)) as [_ P]. cbn. lia.
  - rewrite run_bind in H.
    destruct (run (iter2 d stream_body nb) s) as [[nb1|r] s1|e s1] eqn:E1;
      [ | cbn [run] in H; discriminate | discriminate ].
    pose proof (IH _ _ _ _ E1). pose proof (IH _ _ _ _ H). cbn [Nat.pow]. lia.
Qed.

Lemma iter2_stream_final d : forall nb s f k s',
  run (iter2 d stream_body nb) s = Done (inr (f, k)) s' -> f <> FinalNil ->
  a_pos s + 32 <= a_pos s'.
Proof.
  induction d as [|d IH]; intros nb s f k s' H Hf; cbn [iter2] in H.
  - destruct (stream_body_adv _ _ _ _ H) as [P _]; [|exact P].
    intros k' E. inversion E; subst. contradiction.
  - rewrite run_bind in H.
    destruct (run (iter2 d stream_body nb) s) as [[nb1|r] s1|e s1] eqn:E1; [| |discriminate].
    + pose proof (run_done_pos_le _ _ _ _ E1). pose proof (IH _ _ _ _ _ H Hf). lia.
    + cbn [run] in H. inversion H; subst. exact (IH _ _ _ _ _ E1 Hf).
Qed.

Theorem decode_stream_final_consumes d s f k s' :
  run (decode_stream d) s = Done (f, k) s' -> f <> FinalNil -> a_pos s + 32 <= a_pos s'.
Proof.
  unfold decode_stream, loop. rewrite run_bind.
  destruct (run (iter2 d stream_body 0) s) as [[nb1|[f1 k1]] s1|e s1] eqn:E1; cbn [run]; try discriminate.
  intros H Hf. inversion H; subst. exact (iter2_stream_final _ _ _ _ _ _ E1 Hf).
Qed.

Theorem decode_stream_nofuel d s :
  (ilen s < 32 * 2 ^ d)%nat ->
  match run (decode_stream d) s with Fail e _ => e <> EFuel | Done _ _ => True end.
Proof.
  intros Hs. unfold decode_stream, loop. rewrite run_bind.
  pose proof (nofuel_iter2 (S (ilen s)) d stream_body 0 (nf_stream_body (S (ilen s))) s ltac:(lia)) as H1.
  destruct (run (iter2 d stream_body 0) s) as [[nb1|r] s1|e s1] eqn:E1; [| exact I | exact H1].
  exfalso. pose proof (iter2_stream_inl _ _ _ _ _ E1). lia.
Qed.

Opaque only hoare nofuel eats post.

(* ---- the byte-level entry point --------------------------------------------------------- *)
Lemma bytes_to_bits_length l : length (bytes_to_bits l) = (8 * length l)%nat.
Proof.
  unfold bytes_to_bits. induction l as [|b l IH]; cbn [flat_map length]; [reflexivity|].
  rewrite app_length, IH. cbn [bits_lsb length]. lia.
Qed.

Lemma nat_lt_pow2' (n d : nat) : N.of_nat n < 2 ^ N.of_nat d -> (n < 2 ^ d)%nat.
Proof.
  intros H. change 2 with (N.of_nat 2) in H. rewrite <- Nat2N.inj_pow in H.
  generalize dependent (2 ^ d)%nat. intros m H. lia.
Qed.

(* The decoder model's stream loop has a budget of 2^40 blocks (the Go loop has none); every
   block costs at least 32 bits, so the budget suffices for every input below 2^42 bytes. *)
Theorem meta_decode_total input :
  N.of_nat (length input) < 2 ^ 42 ->
  match mr_err (meta_decode input) with
  | None => True
  | Some e => e = ECorrupted \/ e = EUEOF
  end.
Proof.
  intros Hlen. unfold meta_decode.
  set (s := ast_init (bytes_to_bits input)).
  assert (Hw : wf_ast s) by reflexivity.
  pose proof (only_elim merr (decode_stream 40) s (only_decode_stream 40) Hw) as H1.
  assert (Hs : (ilen s < 32 * 2 ^ 40)%nat).
  { unfold ilen, s. cbn [ast_init a_in]. rewrite bytes_to_bits_length.
    assert (H : (length input < 2 ^ 42)%nat) by (apply nat_lt_pow2'; exact Hlen).
    change 42%nat with (2 + 40)%nat in H. rewrite Nat.pow_add_r in H.
    change (2 ^ 2)%nat with 4%nat in H. generalize dependent (2 ^ 40)%nat. intros m H. lia. }
  pose proof (decode_stream_nofuel 40 s Hs) as H2.
  destruct (run (decode_stream 40) s) as [[f nb] s'|e s']; cbn [mr_err]; [exact I|].
  destruct H1 as [H1|[H1|H1]]; [left; exact H1 | right; exact H1 | contradiction].
Qed.

(* a result with a final mode has consumed at least 4 bytes, and never more than the input *)
Theorem meta_decode_used_ge input :
  mr_err (meta_decode input) = None -> mr_final (meta_decode input) <> FinalNil ->
  4 <= mr_used (meta_decode input).
Proof.
  unfold meta_decode. set (s := ast_init (bytes_to_bits input)).
  destruct (run (decode_stream 40) s) as [[f nb] s'|e s'] eqn:E; cbn [mr_err mr_final mr_used]; [|discriminate].
  intros _ Hf. pose proof (decode_stream_final_consumes _ _ _ _ _ E Hf) as H.
  change (a_pos s) with 0 in H. lia.
Qed.

Theorem meta_decode_used_le input : mr_used (meta_decode input) <= N.of_nat (length input).
Proof.
  unfold meta_decode. set (s := ast_init (bytes_to_bits input)).
  destruct (run_mono (decode_stream 40) s) as [o [c [_ [H2 H3]]]].
  assert (Hc : (length c <= 8 * length input)%nat).
  { apply (f_equal (@length bool)) in H2. unfold s in H2. cbn [ast_init a_in] in H2.
    rewrite bytes_to_bits_length, app_length in H2. lia. }
  change (a_pos s) with 0 in H3.
  destruct (run (decode_stream 40) s) as [[f nb] s'|e s']; cbn [mr_used res_state] in *; lia.
Qed.

Print Assumptions meta_decode_total.
Print Assumptions meta_decode_used_ge.
Print Assumptions meta_decode_used_le.
