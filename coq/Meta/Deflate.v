(* XFLATE meta blocks are EMPTY dynamic-Huffman DEFLATE blocks.

   For the RFC 1951 decoder model (Flate/Spec.v) every block the meta encoder
   (Meta/Model.v) produces is a dynamic block (BTYPE = 2) with
     HLIT  = pads            (257 + pads literal/length code lengths)
     HDIST = 0               (one distance code length)
     HCLEN = (8 - huffLen)*2 (code-length-code lengths in the order 16,17,18,0,8,7,9,6,...)
   whose code-length code is  0 -> "0", huffLen -> "10", 16 -> "110", 18 -> "111",
   whose literal/length code has exactly 2^huffLen symbols, all of length huffLen, the
   largest of them 256 (end of block), whose distance code is empty, and whose data is
   the single code word of 256 (huffLen one bits). It produces no output, consumes
   exactly the block and is the last block iff the mode is FinalStream.

   Statements: XFlate/RoundTripStmt.v (meta_block_is_empty_deflate_stmt,
   meta_nonfinal_blocks_stmt, meta_footer_chunk_stmt). *)
From V Require Import Base.Prelude Base.Prog Base.ProgThms Prefix.Thms Meta.Model Meta.Thms
  Meta.RoundTrip Flate.Spec Flate.Fuel Flate.Canon Flate.CanonLink.
From Coq Require Import ZifyBool ZifyN ZifyNat.

Local Open Scope N_scope.

(* ====================================================================== *)
(* 1. header fields                                                        *)
(* ====================================================================== *)

Lemma run_rbits n v rest pos out len :
  v < 2 ^ n ->
  run (rbits n) (mkAst (val_bits (N.to_nat n) v ++ rest) pos out len) =
  Done v (mkAst rest (pos + n) out len).
Proof. exact (run_read_bits n v rest pos out len). Qed.

(* the 32-bit word at the start of a block, cut into the DEFLATE header fields:
   BFINAL, BTYPE, HLIT, HDIST, HCLEN and the first five code-length-code lengths *)
Lemma hdr_word_fields h fs pads : 1 <= h <= 7 -> pads < 8 ->
  val_bits 32 (hdr_magic h fs + 8 * pads) =
  val_bits 1 (N.b2n fs) ++ val_bits 2 2 ++ val_bits 5 pads ++ val_bits 5 0
  ++ val_bits 4 ((8 - h) * 2) ++ flat_map (val_bits 3) [3; 0; 3; 1; 0].
Proof.
  intros Hh Hp.
  destruct (h_cases h Hh) as [E|[E|[E|[E|[E|[E|E]]]]]]; subst h;
  destruct (pads_cases pads Hp) as [F|[F|[F|[F|[F|[F|[F|F]]]]]]]; subst pads;
  destruct fs; vm_compute; reflexivity.
Qed.

(* what [read_clens] returns for given 3-bit values *)
Fixpoint clens_res (order ls : list N) : list (N * N) :=
  match order, ls with
  | s :: r, l :: t => if 0 <? l then (s, l) :: clens_res r t else clens_res r t
  | _, _ => []
  end.

Lemma run_read_clens order : forall ls rest pos out len,
  length ls = length order -> Forall (fun l => l < 8) ls ->
  run (read_clens order) (mkAst (flat_map (val_bits 3) ls ++ rest) pos out len) =
  Done (clens_res order ls) (mkAst rest (pos + 3 * N.of_nat (length order)) out len).
Proof.
  induction order as [|s order IH]; intros ls rest pos out len Hl Hf.
  - destruct ls; [|discriminate]. cbn [read_clens flat_map app run clens_res length].
    f_equal. f_equal. lia.
  - destruct ls as [|l ls]; [discriminate|].
    inversion Hf as [|? ? Hl8 Hf']; subst.
    cbn [read_clens flat_map clens_res]. rewrite <- app_assoc.
    rewrite run_bind.
    change (val_bits 3 l) with (val_bits (N.to_nat 3) l).
    rewrite run_rbits by (change (2 ^ 3) with 8; exact Hl8).
    rewrite run_bind, IH by (cbn [length] in Hl; auto; lia).
    cbn [run]. f_equal. f_equal. cbn [length]. lia.
Qed.

(* the code-length-code lengths of a block, in [clenLens] order *)
Definition hclens (h : N) : list N :=
  [3; 0; 3; 1; 0] ++ repeat 0 (N.to_nat (4 + (8 - h) * 2 - 1 - 5)) ++ [2].

(* the code-length code: 0 -> 0, huffLen -> 10, 16 -> 110, 18 -> 111 *)
Definition ctree (h : N) : htree :=
  HNode (HLeaf 0) (HNode (HLeaf h) (HNode (HLeaf 16) (HLeaf 18))).

Lemma hclens_tree h : 1 <= h <= 7 ->
  let order := firstn (N.to_nat ((8 - h) * 2 + 4)) clenLens in
  length (hclens h) = length order /\ Forall (fun l => l < 8) (hclens h) /\
  N.of_nat (length order) = (8 - h) * 2 + 4 /\
  build_tree (sort_by_sym (clens_res order (hclens h))) maxNumCLenSyms = Some (ctree h).
Proof.
  intros Hh.
  destruct (h_cases h Hh) as [E|[E|[E|[E|[E|[E|E]]]]]]; subst h; cbv zeta;
    (split; [reflexivity|]); (split; [repeat constructor|]); (split; [reflexivity|]);
    vm_compute; reflexivity.
Qed.

Lemma zero_triples_flat k : zero_triples k = flat_map (val_bits 3) (repeat 0 k).
Proof.
  unfold zero_triples. induction k as [|k IH]; cbn [repeat concat flat_map]; [reflexivity|].
  rewrite IH. reflexivity.
Qed.

(* the block header up to and including the code-length code, as fields *)
Lemma hdr_bits_fields h fs pads T : 1 <= h <= 7 -> pads < 8 ->
  val_bits 32 (hdr_magic h fs + 8 * pads)
  ++ zero_triples (N.to_nat (4 + (8 - h) * 2 - 1 - 5)) ++ val_bits 3 2 ++ T
  = val_bits 1 (N.b2n fs) ++ val_bits 2 2 ++ val_bits 5 pads ++ val_bits 5 0
    ++ val_bits 4 ((8 - h) * 2) ++ flat_map (val_bits 3) (hclens h) ++ T.
Proof.
  intros Hh Hp. rewrite (hdr_word_fields h fs pads Hh Hp). unfold hclens.
  rewrite !flat_map_app, zero_triples_flat. rewrite <- !app_assoc.
  cbn [flat_map app]. reflexivity.
Qed.

(* ---- the four code words of the code-length code ------------------------ *)
Lemma ctree0 h rest pos out len :
  run (sym_or_corrupt (ctree h)) (mkAst (false :: rest) pos out len)
  = Done 0 (mkAst rest (pos + 1) out len).
Proof. reflexivity. Qed.

Lemma ctree1 h rest pos out len :
  run (sym_or_corrupt (ctree h)) (mkAst (true :: false :: rest) pos out len)
  = Done h (mkAst rest (pos + 1 + 1) out len).
Proof. reflexivity. Qed.

Lemma ctree2 h rest pos out len :
  run (sym_or_corrupt (ctree h)) (mkAst (true :: true :: false :: rest) pos out len)
  = Done 16 (mkAst rest (pos + 1 + 1 + 1) out len).
Proof. reflexivity. Qed.

Lemma ctree3 h rest pos out len :
  run (sym_or_corrupt (ctree h)) (mkAst (true :: true :: true :: rest) pos out len)
  = Done 18 (mkAst rest (pos + 1 + 1 + 1) out len).
Proof. reflexivity. Qed.

(* ====================================================================== *)
(* 2. the code-length loop on the body symbols                             *)
(* ====================================================================== *)

(* effect of one body symbol on the state of the code-length reader *)
Definition cl_step (h : N) (s : clst) (m : msym) : clst :=
  match m with
  | MZero => mkClst (cl_sym s + 1) 0 (cl_acc s)
  | MOne => mkClst (cl_sym s + 1) h ((cl_sym s, h) :: cl_acc s)
  | MRepLast v =>
    mkClst (cl_sym s + (3 + v)) (cl_last s)
           (if 0 <? cl_last s
            then rep_codes (N.to_nat (3 + v)) (cl_sym s) (cl_last s) (cl_acc s)
            else cl_acc s)
  | MRepZero v => mkClst (cl_sym s + (11 + v)) 0 (cl_acc s)
  end.

Lemma cl_step_sym h s m : cl_sym (cl_step h s m) = cl_sym s + msym_cnt m.
Proof. destruct m; cbn [cl_step cl_sym msym_cnt]; lia. Qed.

Lemma clen_body_step h maxS s m rest pos out len :
  1 <= h <= 7 -> msym_wf m -> (forall v, m = MRepLast v -> cl_sym s <> 0) ->
  cl_sym s + msym_cnt m <= maxS ->
  run (clen_body (ctree h) maxS s) (mkAst (msym_bits m ++ rest) pos out len) =
  Done (inl (cl_step h s m))
       (mkAst rest (pos + N.of_nat (length (msym_bits m))) out len).
Proof.
  intros Hh Hw Hnz Hmax. unfold clen_body.
  assert (Hc1 : 1 <= msym_cnt m) by (destruct m; cbn [msym_cnt]; lia).
  assert (E : (maxS <=? cl_sym s) = false) by (apply N.leb_gt; lia).
  rewrite E, run_bind.
  destruct m as [| |v|v]; cbn [msym_bits app msym_wf msym_cnt cl_step] in *.
  - rewrite ctree0. change (0 <? 16) with true. change (0 <? 0) with false.
    cbn [run length]. reflexivity.
  - rewrite ctree1.
    assert (E1 : (h <? 16) = true) by (apply N.ltb_lt; lia).
    assert (E2 : (0 <? h) = true) by (apply N.ltb_lt; lia).
    rewrite E1, E2. cbn [run length]. f_equal. f_equal. lia.
  - rewrite ctree2. change (16 <? 16) with false. change (16 =? 16) with true. cbv iota.
    assert (E0 : negb (cl_sym s =? 0) = true).
    { apply negb_true_iff, N.eqb_neq. apply (Hnz v). reflexivity. }
    rewrite E0. cbn [assert_p bind].
    rewrite !run_bind.
    change 2%nat with (N.to_nat 2) at 1.
    rewrite run_rbits by (change (2 ^ 2) with 4; exact Hw).
    cbn [run].
    assert (E3 : (cl_sym s + (3 + v) <=? maxS) = true) by (apply N.leb_le; lia).
    rewrite E3. cbn [assert_p bind run]. f_equal. f_equal.
    cbn [length]. rewrite val_bits_length. lia.
  - rewrite ctree3. change (18 <? 16) with false. change (18 =? 16) with false.
    change (18 =? 17) with false. change (18 =? 18) with true. cbv iota.
    rewrite !run_bind.
    change 7%nat with (N.to_nat 7) at 1.
    rewrite run_rbits by (change (2 ^ 7) with 128; exact Hw).
    cbn [run]. change (0 <? 0) with false. cbv iota.
    assert (E3 : (cl_sym s + (11 + v) <=? maxS) = true) by (apply N.leb_le; lia).
    rewrite E3. cbn [assert_p bind run]. f_equal. f_equal.
    cbn [length]. rewrite val_bits_length. lia.
Qed.

Fixpoint msyms_cnt (l : list msym) : N :=
  match l with [] => 0 | m :: r => msym_cnt m + msyms_cnt r end.

Lemma msyms_cnt_app a b : msyms_cnt (a ++ b) = msyms_cnt a + msyms_cnt b.
Proof. induction a as [|m a IH]; cbn [app msyms_cnt]; [lia|]. rewrite IH. lia. Qed.

Lemma msyms_cnt_zeros n : msyms_cnt (repeat MZero n) = N.of_nat n.
Proof. induction n as [|n IH]; cbn [repeat msyms_cnt]; [reflexivity|]. rewrite IH. cbn [msym_cnt]. lia. Qed.

Lemma cl_steps_sym h l : forall s, cl_sym (fold_left (cl_step h) l s) = cl_sym s + msyms_cnt l.
Proof.
  induction l as [|m l IH]; intros s; cbn [fold_left msyms_cnt]; [lia|].
  rewrite IH, cl_step_sym. lia.
Qed.

Lemma cl_steps_iters h maxS l : forall s rest pos out len,
  1 <= h <= 7 -> Forall msym_wf l -> cl_sym s <> 0 ->
  cl_sym s + msyms_cnt l <= maxS ->
  iters (clen_body (ctree h) maxS) (length l) s (mkAst (sym_bits l ++ rest) pos out len)
        (fold_left (cl_step h) l s)
        (mkAst rest (pos + N.of_nat (length (sym_bits l))) out len).
Proof.
  induction l as [|m l IH]; intros s rest pos out len Hh Hw Hnz Hmax.
  - cbn [length sym_bits flat_map app fold_left]. rewrite N.add_0_r. constructor.
  - inversion Hw as [|? ? Hwm Hwl]; subst.
    cbn [msyms_cnt] in Hmax.
    cbn [length sym_bits flat_map fold_left]. fold (sym_bits l).
    rewrite <- app_assoc.
    econstructor.
    + apply clen_body_step; auto. lia.
    + rewrite app_length.
      replace (pos + N.of_nat (length (msym_bits m) + length (sym_bits l)))
        with (pos + N.of_nat (length (msym_bits m)) + N.of_nat (length (sym_bits l))) by lia.
      apply IH; auto.
      * rewrite cl_step_sym. assert (1 <= msym_cnt m) by (destruct m; cbn [msym_cnt]; lia). lia.
      * rewrite cl_step_sym. lia.
Qed.

(* ---- the accumulated lengths, from the bits the symbols stand for -------- *)
(* [bs] : the bit per symbol, most recent first (as [ss_bits]); a one bit at index i
   (counted from the far end) is the length [h] for symbol i *)
Fixpoint acc_of (h : N) (bs : list bool) : list (N * N) :=
  match bs with
  | [] => []
  | b :: r => if b then (N.of_nat (length r), h) :: acc_of h r else acc_of h r
  end.

Lemma acc_of_zeros h n bs : acc_of h (repeat false n ++ bs) = acc_of h bs.
Proof. induction n as [|n IH]; cbn [repeat app acc_of]; [reflexivity | exact IH]. Qed.

Lemma repeat_snoc {A} (x : A) n l : repeat x (S n) ++ l = repeat x n ++ x :: l.
Proof.
  induction n as [|n IH]; [reflexivity|].
  change (repeat x (S (S n))) with (x :: repeat x (S n)). cbn [app]. rewrite IH. reflexivity.
Qed.

Lemma acc_of_ones h n : forall bs,
  acc_of h (repeat true n ++ bs) = rep_codes n (N.of_nat (length bs)) h (acc_of h bs).
Proof.
  induction n as [|n IH]; intros bs; [reflexivity|].
  rewrite repeat_snoc, IH. cbn [rep_codes acc_of length].
  replace (N.of_nat (S (length bs))) with (N.of_nat (length bs) + 1) by lia. reflexivity.
Qed.

(* the simulation between the meta decoder's symbol state and the code-length reader *)
Definition clR (h : N) (ss : symst) (cs : clst) : Prop :=
  cl_sym cs = ss_idx ss + 1 /\
  cl_sym cs = N.of_nat (length (ss_bits ss)) /\
  cl_last cs = (if ss_bit ss then h else 0) /\
  cl_acc cs = acc_of h (ss_bits ss).

Lemma clR_step h ss cs m : 1 <= h -> clR h ss cs -> clR h (sym_step ss m) (cl_step h cs m).
Proof.
  intros Hh (R1 & R2 & R3 & R4). unfold clR.
  rewrite cl_step_sym.
  cbn [sym_step ss_idx ss_bit ss_bits]. rewrite app_length, repeat_length.
  split; [lia|]. split; [lia|].
  destruct m as [| |v|v]; cbn [msym_bit msym_cnt cl_step cl_last cl_acc].
  - split; [reflexivity|]. rewrite acc_of_zeros. exact R4.
  - split; [reflexivity|]. change (N.to_nat 1) with 1%nat. cbn [repeat app acc_of].
    rewrite R4, R2. reflexivity.
  - split; [exact R3|]. rewrite R3. destruct (ss_bit ss).
    + assert (E : (0 <? h) = true) by (apply N.ltb_lt; lia). rewrite E.
      rewrite acc_of_ones, R4, R2. f_equal. lia.
    + change (0 <? 0) with false. rewrite acc_of_zeros. exact R4.
  - split; [reflexivity|]. rewrite acc_of_zeros. exact R4.
Qed.

Lemma clR_steps h l : forall ss cs, 1 <= h -> clR h ss cs ->
  clR h (fold_left sym_step l ss) (fold_left (cl_step h) l cs).
Proof.
  induction l as [|m l IH]; intros ss cs Hh HR; cbn [fold_left]; [exact HR|].
  apply IH; [exact Hh|]. apply clR_step; assumption.
Qed.

Lemma steps_ok_wf l : forall s, steps_ok s l -> Forall msym_wf l.
Proof.
  induction l as [|m l IH]; intros s H; [constructor|].
  cbn [steps_ok] in H. destruct H as [_ [Hw [_ Hr]]]. constructor; [exact Hw|]. eapply IH; exact Hr.
Qed.

Lemma sym_steps_idx l : forall s, ss_idx (fold_left sym_step l s) = ss_idx s + msyms_cnt l.
Proof.
  induction l as [|m l IH]; intros s; cbn [fold_left msyms_cnt]; [lia|].
  rewrite IH. cbn [sym_step ss_idx]. lia.
Qed.

Lemma sym_steps_zeros n : forall s,
  ss_bits (fold_left sym_step (repeat MZero n) s) = repeat false n ++ ss_bits s.
Proof.
  induction n as [|n IH]; intros s; [reflexivity|].
  cbn [repeat fold_left]. rewrite IH. cbn [sym_step ss_bits msym_bit msym_cnt].
  change (N.to_nat 1) with 1%nat. cbn [repeat app]. rewrite <- repeat_snoc. reflexivity.
Qed.

Lemma sym_bits_zeros n : sym_bits (repeat MZero n) = repeat false n.
Proof. induction n as [|n IH]; [reflexivity|]. cbn [repeat sym_bits flat_map msym_bits app]. fold (sym_bits (repeat MZero n)). rewrite IH. reflexivity. Qed.

(* the whole code-length loop: first length (the implicit zero of symbol 0), the body
   symbols, then pads+1 zero lengths (symbols 257.. and the single distance code) *)
Lemma run_clen_loop h pads cn maxS T pos out len :
  1 <= h <= 7 -> pads < 8 ->
  Forall nz cn -> noNN cn -> length (expand cn) = 256%nat ->
  maxS = 258 + pads ->
  let bodyb := sym_bits (enc_runs cn false) in
  run (loop 10 (clen_body (ctree h) maxS) (mkClst 0 0 []))
      (mkAst ([false] ++ bodyb ++ repeat false (N.to_nat pads) ++ [false] ++ T) pos out len)
  = Done (fast_rev (acc_of h (rev (expand cn) ++ [false])))
         (mkAst T (pos + 1 + N.of_nat (length bodyb) + pads + 1) out len).
Proof.
  intros Hh Hp Hnz Hnn Hlen HmaxS bodyb.
  destruct (enc_runs_spec cn false sym_init Hnz Hnn) as [K1 [K2 [_ K4]]].
  { left. cbn [sym_init ss_fifo]. lia. }
  { reflexivity. }
  { rewrite Hlen. cbn [sym_init ss_idx]. lia. }
  set (l := enc_runs cn false) in *.
  set (zs := repeat MZero (S (N.to_nat pads))).
  set (L := l ++ zs).
  set (s1 := mkClst 1 0 []).
  assert (Hcnt : msyms_cnt l = 256).
  { pose proof (sym_steps_idx l sym_init) as Hi. rewrite K2, Hlen in Hi.
    cbn [sym_init ss_idx] in Hi. lia. }
  assert (HcntL : msyms_cnt L = 257 + pads).
  { unfold L, zs. rewrite msyms_cnt_app, msyms_cnt_zeros, Hcnt. lia. }
  assert (HwfL : Forall msym_wf L).
  { unfold L. apply Forall_app. split; [eapply steps_ok_wf; exact K1|].
    unfold zs. apply Forall_forall. intros m Hm. apply repeat_spec in Hm. subst m. exact I. }
  assert (HR0 : clR h sym_init s1).
  { unfold clR, sym_init, s1. cbn [cl_sym cl_last cl_acc ss_idx ss_bits ss_bit length acc_of].
    repeat split. }
  pose proof (clR_steps h L sym_init s1 ltac:(lia) HR0) as (R1 & R2 & R3 & R4).
  assert (Hbits : ss_bits (fold_left sym_step L sym_init)
                  = repeat false (S (N.to_nat pads)) ++ rev (expand cn) ++ ss_bits sym_init).
  { unfold L. rewrite fold_left_app. unfold zs. rewrite sym_steps_zeros, K4. reflexivity. }
  assert (HbitsL : sym_bits L ++ T
                   = bodyb ++ repeat false (N.to_nat pads) ++ [false] ++ T).
  { unfold L. rewrite sym_bits_app, <- app_assoc. fold bodyb. f_equal.
    unfold zs. rewrite sym_bits_zeros, repeat_snoc. reflexivity. }
  assert (HlenL : N.of_nat (length (sym_bits L)) = N.of_nat (length bodyb) + pads + 1).
  { unfold L. rewrite sym_bits_app, app_length. fold bodyb. unfold zs.
    rewrite sym_bits_zeros, repeat_length. lia. }
  assert (HlenLs : (length L <= 265)%nat).
  { pose proof (steps_ok_idx l sym_init K1) as Hc. rewrite K2, Hlen in Hc.
    cbn [sym_init ss_idx] in Hc. unfold L, zs. rewrite app_length, repeat_length. lia. }
  eapply (loop_iters _ 10 (S (length L))).
  - econstructor.
    + change ([false] ++ bodyb ++ repeat false (N.to_nat pads) ++ [false] ++ T)
        with (msym_bits MZero ++ bodyb ++ repeat false (N.to_nat pads) ++ [false] ++ T).
      apply clen_body_step; [exact Hh | exact I | intros v Hv; discriminate |].
      cbn [cl_sym msym_cnt]. lia.
    + change (cl_step h (mkClst 0 0 []) MZero) with s1.
      rewrite <- HbitsL.
      apply cl_steps_iters; [exact Hh | exact HwfL | cbn [s1 cl_sym]; lia |].
      rewrite HcntL. cbn [s1 cl_sym]. lia.
  - change (2 ^ 10)%nat with 1024%nat. lia.
  - unfold clen_body.
    assert (E : (maxS <=? cl_sym (fold_left (cl_step h) L s1)) = true).
    { apply N.leb_le. rewrite cl_steps_sym, HcntL. cbn [s1 cl_sym]. lia. }
    rewrite E. cbn [run]. rewrite R4, Hbits, acc_of_zeros. cbn [sym_init ss_bits].
    f_equal. f_equal. cbn [msym_bits length]. lia.
Qed.

(* ====================================================================== *)
(* 3. the literal/length code                                              *)
(* ====================================================================== *)

Lemma acc_of_props h bs :
  Forall (fun sl => snd sl = h) (acc_of h bs) /\
  desc_below (N.of_nat (length bs)) (acc_of h bs) /\
  N.of_nat (length (acc_of h bs)) = ntrue bs.
Proof.
  induction bs as [|b bs (I1 & I2 & I3)]; cbn [acc_of length ntrue].
  - repeat split. constructor.
  - destruct b; cbn [N.b2n].
    + split; [constructor; [reflexivity | exact I1]|]. split.
      * cbn [desc_below]. split; [lia | exact I2].
      * cbn [length]. lia.
    + split; [exact I1|]. split; [|lia].
      eapply desc_below_weaken; [|exact I2]. lia.
Qed.

(* lists in which every length is [h] *)
Definition allh (h : N) (l : list (N * N)) : Prop := Forall (fun sl => snd sl = h) l.

Lemma allh_kraft h l : allh h l -> kraft h l = N.of_nat (length l).
Proof.
  induction 1 as [|[s x] l Hx Hl IH]; [reflexivity|].
  rewrite kraft_cons, IH. cbn [snd] in Hx. subst x. rewrite N.sub_diag.
  change (2 ^ 0) with 1. cbn [length]. lia.
Qed.

Lemma allh_max_len h l : allh h l -> l <> [] -> max_len l = h.
Proof.
  induction 1 as [|[s x] l Hx Hl IH]; intros Hne; [congruence|].
  rewrite max_len_cons. cbn [snd] in Hx. subst x.
  destruct l as [|y l]; [cbn [max_len fold_right]; lia|].
  rewrite IH by discriminate. lia.
Qed.

Lemma allh_fc h l : allh h l -> fc l h = 0.
Proof.
  induction 1 as [|[s x] l Hx Hl IH]; [reflexivity|].
  rewrite fc_cons, IH. cbn [snd] in Hx. subst x. rewrite N.ltb_irrefl. reflexivity.
Qed.

Lemma allh_count h l : allh h l -> count_len l h = N.of_nat (length l).
Proof.
  induction 1 as [|[s x] l Hx Hl IH]; [reflexivity|].
  rewrite count_len_cons, IH. cbn [snd] in Hx. subst x. rewrite N.eqb_refl. cbn [length]. lia.
Qed.

Lemma allh_complete h l : allh h l -> N.of_nat (length l) = 2 ^ h -> complete l = true.
Proof.
  intros Ha Hl. unfold complete.
  assert (Hne : l <> []).
  { intros ->. cbn [length] in Hl. assert (0 < 2 ^ h) by (apply N.neq_0_lt_0, N.pow_nonzero; lia). lia. }
  rewrite (allh_max_len h l Ha Hne), (allh_kraft h l Ha), Hl. apply N.eqb_refl.
Qed.

Lemma build_tree_complete lens fake :
  (2 <= length lens)%nat -> complete lens = true -> build_tree lens fake = Some (tree_of lens).
Proof.
  intros Hl Hc. destruct lens as [|a [|b r]]; cbn [length] in Hl; try lia.
  unfold build_tree. rewrite Hc. reflexivity.
Qed.

Lemma filter_all {A} (f : A -> bool) l : Forall (fun x => f x = true) l -> filter f l = l.
Proof.
  induction 1 as [|x l Hx Hl IH]; cbn [filter]; [reflexivity|]. rewrite Hx, IH. reflexivity.
Qed.

Lemma filter_none {A} (f : A -> bool) l : Forall (fun x => f x = true) l -> filter (fun x => negb (f x)) l = [].
Proof.
  induction 1 as [|x l Hx Hl IH]; cbn [filter]; [reflexivity|]. rewrite Hx, IH. reflexivity.
Qed.

Lemma ones_word h : 1 <= h <= 7 -> msb_bits (N.to_nat h) (2 ^ h - 1) = repeat true (N.to_nat h).
Proof.
  intros Hh. destruct (h_cases h Hh) as [E|[E|[E|[E|[E|[E|E]]]]]]; subst h; reflexivity.
Qed.

Lemma ntrue_rev l : ntrue (rev l) = ntrue l.
Proof. induction l as [|b l IH]; [reflexivity|]. cbn [rev ntrue]. rewrite ntrue_app, IH. cbn [ntrue]. lia. Qed.

(* everything the decoder needs from the length list of a meta block *)
Lemma lit_code_facts h tl numLit fake :
  1 <= h <= 7 -> length tl = 256%nat -> ntrue tl + 1 = 2 ^ h -> 257 <= numLit ->
  let lens := fast_rev (acc_of h (true :: tl)) in
  filter (fun sl => fst sl <? numLit) lens = lens /\
  filter (fun sl => negb (fst sl <? numLit)) lens = [] /\
  build_tree lens fake = Some (tree_of lens) /\
  (forall rest pos out len,
     run (sym_tree (tree_of lens)) (mkAst (repeat true (N.to_nat h) ++ rest) pos out len)
     = Done (Some 256) (mkAst rest (pos + h) out len)).
Proof.
  intros Hh Hlen Hnt HnumLit lens.
  destruct (acc_of_props h (true :: tl)) as (A1 & A2 & A3).
  destruct (acc_of_props h tl) as (B1 & _ & B3).
  destruct (desc_below_rev_nodup _ _ A2) as [N1 F1].
  assert (Hlens : lens = rev (acc_of h tl) ++ [(256, h)]).
  { unfold lens. rewrite fast_rev_eq. cbn [acc_of rev]. rewrite Hlen. reflexivity. }
  assert (Hallh : allh h lens).
  { unfold allh, lens. rewrite fast_rev_eq. apply Forall_rev. exact A1. }
  assert (Hlenl : N.of_nat (length lens) = 2 ^ h).
  { unfold lens. rewrite fast_rev_eq, rev_length, A3. cbn [ntrue N.b2n]. lia. }
  assert (Hbound : Forall (fun sl => (fst sl <? numLit) = true) lens).
  { unfold lens. rewrite fast_rev_eq. apply Forall_rev.
    eapply Forall_impl; [|exact F1]. intros sl Hsl. apply N.ltb_lt.
    cbn [length] in Hsl. rewrite Hlen in Hsl. lia. }
  assert (Hc : complete lens = true) by (apply (allh_complete h); assumption).
  assert (H2h : 2 <= 2 ^ h).
  { replace h with (N.succ (h - 1)) by lia. rewrite N.pow_succ_r'.
    assert (0 < 2 ^ (h - 1)) by (apply N.neq_0_lt_0, N.pow_nonzero; lia). lia. }
  assert (Hpos : lens_pos lens).
  { intros s l Hin. unfold allh in Hallh. rewrite Forall_forall in Hallh.
    specialize (Hallh _ Hin). cbn [snd] in Hallh. lia. }
  assert (Hnd : NoDup (map fst lens)).
  { unfold lens. rewrite fast_rev_eq, map_rev. apply NoDup_rev. exact N1. }
  split; [apply filter_all; exact Hbound|].
  split; [apply (filter_none (fun sl => fst sl <? numLit)); exact Hbound|].
  split; [apply build_tree_complete; [lia | exact Hc]|].
  intros rest pos out len.
  rewrite <- ones_word by exact Hh.
  apply tree_decodes_code; [exact Hpos | apply complete_kraft_ok; exact Hc | exact Hnd |].
  apply (canonical_spec lens Hpos).
  exists (rev (acc_of h tl)), []. split; [exact Hlens|].
  rewrite (allh_fc h lens Hallh).
  rewrite (allh_count h) by (apply Forall_rev; exact B1).
  rewrite rev_length, B3. lia.
Qed.

(* ====================================================================== *)
(* 4. the dynamic block header and the block                               *)
(* ====================================================================== *)

Lemma run_opt_tree_some t s : run (opt_tree (Some t)) s = Done t s.
Proof. reflexivity. Qed.

Lemma run_read_prefix_codes h pads cn tl T pos out len :
  1 <= h <= 7 -> pads < 8 ->
  Forall nz cn -> noNN cn -> length (expand cn) = 256%nat ->
  rev (expand cn) ++ [false] = true :: tl -> ntrue (expand cn) = 2 ^ h ->
  let bodyb := sym_bits (enc_runs cn false) in
  run read_prefix_codes
      (mkAst (val_bits 5 pads ++ val_bits 5 0 ++ val_bits 4 ((8 - h) * 2)
              ++ flat_map (val_bits 3) (hclens h)
              ++ [false] ++ bodyb ++ repeat false (N.to_nat pads) ++ [false] ++ T) pos out len)
  = Done (tree_of (fast_rev (acc_of h (true :: tl))), HEmpty)
         (mkAst T (pos + 5 + 5 + 4 + 3 * ((8 - h) * 2 + 4) + 1 + N.of_nat (length bodyb) + pads + 1)
                out len).
Proof.
  intros Hh Hp Hnz Hnn Hlen Htl Hnt bodyb.
  destruct (hclens_tree h Hh) as (C1 & C2 & C3 & C4).
  assert (Htl256 : length tl = 256%nat).
  { apply (f_equal (@length bool)) in Htl. rewrite app_length, rev_length, Hlen in Htl.
    cbn [length] in Htl. lia. }
  assert (Hnt' : ntrue tl + 1 = 2 ^ h).
  { apply (f_equal ntrue) in Htl. rewrite ntrue_app, ntrue_rev, Hnt in Htl.
    cbn [ntrue N.b2n] in Htl. lia. }
  destruct (lit_code_facts h tl (pads + 257) maxNumLitSyms Hh Htl256 Hnt' ltac:(lia))
    as (F1 & F2 & F3 & _).
  unfold read_prefix_codes.
  rewrite run_bind, (run_rbits 5 pads) by (change (2 ^ 5) with 32; lia). cbv beta iota.
  rewrite run_bind, (run_rbits 5 0) by (cbv; reflexivity). cbv beta iota.
  rewrite run_bind, (run_rbits 4 ((8 - h) * 2)) by (change (2 ^ 4) with 16; lia).
  cbv beta iota zeta.
  assert (E : ((pads + 257 <=? maxNumLitSyms) && (0 + 1 <=? maxNumDistSyms)) = true).
  { apply andb_true_iff. unfold maxNumLitSyms, maxNumDistSyms. split; apply N.leb_le; lia. }
  rewrite run_bind, E, run_assert_true. cbv beta iota.
  rewrite run_bind, run_read_clens by assumption. cbv beta iota.
  rewrite run_bind, C4, run_opt_tree_some. cbv beta iota.
  rewrite run_bind.
  rewrite (run_clen_loop h pads cn (pads + 257 + (0 + 1))) by (assumption || lia).
  cbv beta iota. rewrite Htl, F1, F2. cbn [map].
  rewrite run_bind, F3, run_opt_tree_some. cbv beta iota.
  cbn [build_tree]. rewrite run_bind, run_opt_tree_some. cbv beta iota.
  cbn [run]. f_equal. f_equal. fold bodyb. rewrite C3. lia.
Qed.

Lemma loop_exit_now {St R} (body : St -> prog (St + R)) d s st r st' :
  run (body s) st = Done (inr r) st' -> run (loop d body s) st = Done r st'.
Proof.
  intros H. eapply (loop_iters body d 0); [constructor | | exact H].
  apply Nat.neq_0_lt_0, Nat.pow_nonzero. lia.
Qed.

(* a block in the shape of [encode_shape] is an empty dynamic DEFLATE block *)
Lemma run_one_block_shape h fs pads cn tl depth rest pos out len :
  1 <= h <= 7 -> pads < 8 ->
  Forall nz cn -> noNN cn -> length (expand cn) = 256%nat ->
  rev (expand cn) ++ [false] = true :: tl -> ntrue (expand cn) = 2 ^ h ->
  run (one_block depth) (mkAst (block_bits h fs pads cn ++ rest) pos out len)
  = Done fs (mkAst rest (pos + N.of_nat (length (block_bits h fs pads cn))) out len).
Proof.
  intros Hh Hp Hnz Hnn Hlen Htl Hnt.
  assert (Htl256 : length tl = 256%nat).
  { apply (f_equal (@length bool)) in Htl. rewrite app_length, rev_length, Hlen in Htl.
    cbn [length] in Htl. lia. }
  assert (Hnt' : ntrue tl + 1 = 2 ^ h).
  { apply (f_equal ntrue) in Htl. rewrite ntrue_app, ntrue_rev, Hnt in Htl.
    cbn [ntrue N.b2n] in Htl. lia. }
  destruct (lit_code_facts h tl (pads + 257) maxNumLitSyms Hh Htl256 Hnt' ltac:(lia))
    as (_ & _ & _ & F4).
  assert (Hblen : N.of_nat (length (block_bits h fs pads cn))
                  = 1 + 2 + (5 + 5 + 4 + 3 * ((8 - h) * 2 + 4) + 1
                             + N.of_nat (length (sym_bits (enc_runs cn false))) + pads + 1) + h).
  { unfold block_bits, trailer_bits.
    rewrite !app_length, !val_bits_length, zero_triples_length, !repeat_length.
    cbn [length]. lia. }
  rewrite Hblen.
  unfold block_bits, trailer_bits. rewrite <- !app_assoc.
  rewrite (hdr_bits_fields h fs pads _ Hh Hp).
  unfold one_block.
  rewrite run_bind, (run_rbits 1 (N.b2n fs)) by (destruct fs; cbv; reflexivity). cbv beta iota.
  rewrite run_bind, (run_rbits 2 2) by (cbv; reflexivity). cbv beta iota.
  change (2 =? 0) with false. change (2 =? 1) with false. change (2 =? 2) with true.
  cbv beta iota.
  rewrite !run_bind.
  rewrite (run_read_prefix_codes h pads cn tl) by assumption.
  cbv beta iota. cbn [fst snd].
  rewrite (loop_exit_now _ depth tt _ tt (mkAst rest
             (pos + 1 + 2 + 5 + 5 + 4 + 3 * ((8 - h) * 2 + 4) + 1
              + N.of_nat (length (sym_bits (enc_runs cn false))) + pads + 1 + h) out len)).
  - cbn [run]. f_equal.
    + destruct fs; reflexivity.
    + f_equal. lia.
  - unfold block_body, sym_or_corrupt. rewrite !run_bind, F4. cbv beta iota.
    cbn [run]. change (256 <? 256) with false. change (256 =? 256) with true.
    cbv beta iota. cbn [run]. reflexivity.
Qed.

(* ---- L2: one block ------------------------------------------------------ *)
Theorem meta_block_is_empty_deflate :
  forall buf final bits depth rest pos out len,
    (forall b, In b buf -> b < 256) ->
    encode_block_bits buf final = Some bits ->
    run (one_block depth) (mkAst (bits ++ rest) pos out len) =
    Done (fmode_eqb final FinalStream) (mkAst rest (pos + N.of_nat (length bits)) out len).
Proof.
  intros buf final bits depth rest pos out len Hb Henc.
  destruct (encode_shape buf final bits Hb Henc)
    as [h [inv [cn [pz [po [pads [Hh [Hp [Hnz [Hnn [Hlen [Hexp [Hpo [Hnt [Hn [Hshape Hal]]]]]]]]]]]]]]]].
  assert (Htl : exists tl, rev (expand cn) ++ [false] = true :: tl).
  { change (rev (expand cn) ++ [false]) with (rev (false :: expand cn)).
    rewrite Hexp, !rev_app_distr, rev_repeat'.
    destruct po as [|po]; [lia|]. cbn [repeat app]. eexists. reflexivity. }
  destruct Htl as [tl Htl].
  rewrite Hshape.
  apply (run_one_block_shape h _ pads cn tl); assumption.
Qed.

(* non-vacuity: a concrete payload, final block, mid-stream position, prior output *)
Example meta_block_is_empty_deflate_ex :
  exists bits, encode_block_bits [1; 2; 3; 250] FinalStream = Some bits /\
    length bits = 144%nat /\
    run (one_block 3) (mkAst (bits ++ [true; false]) 5 [7] 1)
    = Done true (mkAst [true; false] (5 + 144) [7] 1).
Proof. eexists. split; [vm_compute; reflexivity|]. split; vm_compute; reflexivity. Qed.

Print Assumptions meta_block_is_empty_deflate.
