(* Whole payloads through the XFLATE meta encoding:
   - [meta_encode] is total on byte payloads and produces bytes;
   - [meta_decode] reads back the payload, the final mode, the number of blocks and
     the number of bytes used;
   - small payloads are one block; every block is 12..64 bytes. *)
From V Require Import Base.Prelude Base.Prog Base.ProgThms Meta.Model Meta.Thms Meta.RoundTrip.
From Coq Require Import ZifyBool ZifyN ZifyNat.

(* ====================================================================== *)
(* 1. the Writer only ever hands fitting buffers to encode_block           *)
(* ====================================================================== *)

Lemma encode_block_some_iff buf final :
  buf_fits buf <-> exists blk, encode_block buf final = Some blk.
Proof.
  unfold buf_fits, encode_block. rewrite encode_block_bits_eq.
  destruct (computeHuffLen (count_zeros buf) (count_ones buf)) as [h inv]. cbn [fst].
  destruct (h =? 0) eqn:E.
  - apply N.eqb_eq in E. split; [intros H; contradiction | intros [blk H]; discriminate].
  - apply N.eqb_neq in E. split; [intros _; eexists; reflexivity | intros _; exact E].
Qed.

Lemma buf_fits_small buf : (length buf <= 22)%nat -> buf_fits buf.
Proof.
  intros Hl. unfold buf_fits. pose proof (count_zeros_ones buf) as Hs.
  apply huff_fits_22.
  - rewrite Hs. lia.
  - rewrite Hs, N.mul_comm. apply N.mod_mul. lia.
Qed.

(* [fits_with_sound] without its (unused) length premise *)
Lemma fits_with_fits buf b : fits_with buf b = true -> buf_fits (buf ++ [b]).
Proof.
  intros Hf. unfold fits_with in Hf. unfold buf_fits.
  rewrite count_zeros_snoc, count_ones_snoc.
  apply orb_true_iff in Hf as [Hf|Hf].
  - apply huff_fits_22.
    + pose proof (count_zeros_ones buf). pose proof (popcount8_le b).
      apply N.ltb_lt in Hf. unfold EnsureRawBytes in Hf. lia.
    + pose proof (count_zeros_ones buf). pose proof (popcount8_le b).
      replace (count_zeros buf + (8 - popcount8 b) + (count_ones buf + popcount8 b))
        with (8 * (N.of_nat (length buf) + 1)) by lia.
      rewrite N.mul_comm. apply N.mod_mul. lia.
  - apply negb_true_iff, N.eqb_neq in Hf. exact Hf.
Qed.

Lemma writer_blocks_fit payload : forall buf,
  buf_fits buf -> Forall buf_fits (writer_blocks payload buf).
Proof.
  induction payload as [|b r IH]; intros buf Hb; cbn [writer_blocks].
  - constructor; [exact Hb | constructor].
  - destruct (fits_with buf b) eqn:E.
    + apply IH. apply fits_with_fits. exact E.
    + constructor; [exact Hb|]. apply IH. apply buf_fits_small. cbn [length]. lia.
Qed.

Lemma writer_blocks_nonempty payload buf : writer_blocks payload buf <> [].
Proof.
  revert buf; induction payload as [|b r IH]; intros buf; cbn [writer_blocks].
  - discriminate.
  - destruct (fits_with buf b); [apply IH | discriminate].
Qed.

Lemma writer_blocks_concat payload : forall buf,
  concat (writer_blocks payload buf) = buf ++ payload.
Proof.
  induction payload as [|b r IH]; intros buf; cbn [writer_blocks].
  - cbn [concat]. reflexivity.
  - destruct (fits_with buf b).
    + rewrite IH, <- app_assoc. reflexivity.
    + cbn [concat]. rewrite IH. reflexivity.
Qed.

Lemma writer_blocks_count payload : forall buf,
  (length (writer_blocks payload buf) <= length payload + 1)%nat.
Proof.
  induction payload as [|b r IH]; intros buf; cbn [writer_blocks length].
  - lia.
  - destruct (fits_with buf b); [specialize (IH (buf ++ [b])) | specialize (IH [b]); cbn [length]]; lia.
Qed.

(* the first byte always joins the empty buffer *)
Lemma writer_blocks_count0 payload :
  (length (writer_blocks payload []) <= Nat.max 1 (length payload))%nat.
Proof.
  destruct payload as [|b r]; cbn [writer_blocks length]; [lia|].
  assert (E : fits_with [] b = true) by reflexivity.
  rewrite E. pose proof (writer_blocks_count r ([] ++ [b])). lia.
Qed.

(* ---- bytes out of bits_to_bytes --------------------------------------- *)
Lemma bits_val_firstn8 l : bits_val (firstn 8 l) < 256.
Proof.
  pose proof (bits_val_bound (firstn 8 l)) as H.
  assert (Hl : (length (firstn 8 l) <= 8)%nat) by (rewrite firstn_length; lia).
  assert (Hp : 2 ^ N.of_nat (length (firstn 8 l)) <= 2 ^ 8) by (apply N.pow_le_mono_r; lia).
  change (2 ^ 8) with 256 in Hp. lia.
Qed.

Lemma btb_fuel_bytes f : forall l b, In b (bits_to_bytes_fuel f l) -> b < 256.
Proof.
  induction f as [|f IH]; intros l b H; cbn [bits_to_bytes_fuel] in H; [contradiction|].
  destruct l as [|x l]; [contradiction|].
  destruct H as [H|H]; [subst b; apply bits_val_firstn8 | exact (IH _ _ H)].
Qed.

Lemma bits_to_bytes_bytes l b : In b (bits_to_bytes l) -> b < 256.
Proof. apply btb_fuel_bytes. Qed.

Lemma encode_block_bytes buf final blk b :
  encode_block buf final = Some blk -> In b blk -> b < 256.
Proof.
  unfold encode_block. destruct (encode_block_bits buf final) as [bits|]; [|discriminate].
  cbn [option_map]. intros H; injection H as <-. apply bits_to_bytes_bytes.
Qed.

Lemma encode_blocks_total bs final :
  Forall buf_fits bs ->
  exists enc, encode_blocks bs final = Some enc /\ (forall b, In b enc -> b < 256).
Proof.
  induction 1 as [|x r Hx Hr IH].
  - exists []. split; [reflexivity | intros b []].
  - cbn [encode_blocks]. destruct r as [|y r'].
    + apply (encode_block_some_iff x final) in Hx as [blk Hblk].
      exists blk. split; [exact Hblk | intros b; apply (encode_block_bytes _ _ _ _ Hblk)].
    + apply (encode_block_some_iff x FinalNil) in Hx as [blk Hblk].
      destruct IH as [enc [He Hbytes]]. rewrite Hblk, He.
      exists (blk ++ enc). split; [reflexivity|].
      intros b Hin. apply in_app_or in Hin as [Hin|Hin];
        [apply (encode_block_bytes _ _ _ _ Hblk); exact Hin | apply Hbytes; exact Hin].
Qed.

Lemma buf_fits_nil : buf_fits [].
Proof. apply buf_fits_small. cbn [length]. lia. Qed.

(* the premise on the payload is not needed: the statement holds for any list of numbers *)
Theorem meta_encode_total_any payload final :
  exists enc, meta_encode payload final = Some enc /\ (forall b, In b enc -> b < 256).
Proof.
  unfold meta_encode. apply encode_blocks_total, writer_blocks_fit, buf_fits_nil.
Qed.

Theorem meta_encode_total :
  forall payload final, (forall b, In b payload -> b < 256) ->
    exists enc, meta_encode payload final = Some enc /\ (forall b, In b enc -> b < 256).
Proof. intros payload final _. apply meta_encode_total_any. Qed.

Example meta_encode_total_ex :
  exists enc, meta_encode (repeat 0x5a 40 ++ repeat 0xc3 33) FinalMeta = Some enc
              /\ length enc = 143%nat
              /\ map (@length N) (writer_blocks (repeat 0x5a 40 ++ repeat 0xc3 33) []) = [30; 30; 13]%nat.
Proof. eexists. repeat split; vm_compute; reflexivity. Qed.

(* ====================================================================== *)
(* 2. small payloads: a single block; block sizes                          *)
(* ====================================================================== *)

Lemma writer_blocks_small payload : forall buf,
  (length buf + length payload <= 22)%nat -> writer_blocks payload buf = [buf ++ payload].
Proof.
  induction payload as [|b r IH]; intros buf Hl; cbn [writer_blocks].
  - rewrite app_nil_r. reflexivity.
  - cbn [length] in Hl.
    assert (E : fits_with buf b = true).
    { unfold fits_with. apply orb_true_iff. left. apply N.ltb_lt. unfold EnsureRawBytes. lia. }
    rewrite E, IH by (rewrite app_length; cbn [length]; lia).
    rewrite <- app_assoc. reflexivity.
Qed.

Theorem meta_small_single_block :
  forall payload final, (length payload <= 22)%nat ->
    meta_encode payload final = encode_block payload final.
Proof.
  intros payload final Hl. unfold meta_encode.
  rewrite writer_blocks_small by (cbn [length]; lia). reflexivity.
Qed.

Theorem meta_block_bytes_size :
  forall buf final blk, (forall b, In b buf -> b < 256) ->
    encode_block buf final = Some blk -> (12 <= length blk <= 64)%nat.
Proof. intros buf final blk Hb H. exact (meta_block_size_bytes buf final blk Hb H). Qed.

Example meta_small_single_block_ex :
  meta_encode [1; 2; 3] FinalStream = encode_block [1; 2; 3] FinalStream /\
  exists blk, encode_block [1; 2; 3] FinalStream = Some blk /\ length blk = 16%nat.
Proof. split; [apply meta_small_single_block; cbn [length]; lia|]. eexists. split; vm_compute; reflexivity. Qed.

(* ====================================================================== *)
(* 3. the stream round trip                                                *)
(* ====================================================================== *)

Lemma run_put_all l : forall i pos out len,
  run (put_all l) (mkAst i pos out len)
  = Done tt (mkAst i pos (rev l ++ out) (len + N.of_nat (length l))).
Proof.
  induction l as [|b l IH]; intros i pos out len.
  - cbn [put_all fold_right run rev app length]. f_equal. f_equal. lia.
  - cbn [put_all fold_right run a_in a_pos a_out a_len]. fold (put_all l). rewrite IH.
    cbn [rev length]. rewrite <- app_assoc. cbn [app]. f_equal. f_equal. lia.
Qed.

Lemma bytes_to_bits_app a b : bytes_to_bits (a ++ b) = bytes_to_bits a ++ bytes_to_bits b.
Proof. apply flat_map_app. Qed.

(* one block, through stream_body *)
Lemma stream_body_block buf final blk nb rest pos out len :
  (forall b, In b buf -> b < 256) ->
  encode_block buf final = Some blk ->
  pos mod 8 = 0 ->
  run (stream_body nb) (mkAst (bytes_to_bits blk ++ rest) pos out len)
  = Done (match final with FinalNil => inl (nb + 1) | _ => inr (final, nb + 1) end)
         (mkAst rest (pos + 8 * N.of_nat (length blk)) (rev buf ++ out)
                (len + N.of_nat (length buf))).
Proof.
  intros Hb Henc Hpos. unfold stream_body. rewrite run_bind.
  rewrite (meta_block_bytes_roundtrip buf final blk Hb Henc rest pos out len Hpos).
  rewrite run_bind, run_put_all. destruct final; reflexivity.
Qed.

Lemma stream_body_eof nb pos out len :
  run (stream_body nb) (mkAst [] pos out len) = Done (inr (FinalNil, nb)) (mkAst [] pos out len).
Proof. reflexivity. Qed.

(* the blocks of a payload, read one after the other: some number k <= #blocks of
   continuing iterations followed by one that ends the loop *)
Lemma stream_blocks bs : forall final enc nb rest pos out len,
  bs <> [] ->
  (forall blk b, In blk bs -> In b blk -> b < 256) ->
  encode_blocks bs final = Some enc ->
  final <> FinalNil \/ rest = [] ->
  pos mod 8 = 0 ->
  exists k nb' st',
    (k <= length bs)%nat /\ (final <> FinalNil -> k < length bs)%nat /\
    iters stream_body k nb (mkAst (bytes_to_bits enc ++ rest) pos out len) nb' st' /\
    run (stream_body nb') st'
    = Done (inr (final, nb + N.of_nat (length bs)))
           (mkAst rest (pos + 8 * N.of_nat (length enc)) (rev (concat bs) ++ out)
                  (len + N.of_nat (length (concat bs)))).
Proof.
  induction bs as [|x r IH]; intros final enc nb rest pos out len Hne Hb Henc Hfin Hpos;
    [congruence|].
  cbn [encode_blocks] in Henc. destruct r as [|y r'].
  - (* the last block *)
    assert (Hx : forall b, In b x -> b < 256) by (intros b; apply Hb; left; reflexivity).
    cbn [concat length]. rewrite app_nil_r.
    pose proof (stream_body_block x final enc nb rest pos out len Hx Henc Hpos) as Hrun.
    destruct final.
    + (* FinalNil: one more iteration, which sees the clean EOF *)
      destruct Hfin as [Hfin|Hfin]; [congruence|]. subst rest.
      exists 1%nat, (nb + 1). eexists. split; [lia|]. split; [congruence|]. split.
      * econstructor; [exact Hrun | constructor].
      * apply stream_body_eof.
    + exists 0%nat, nb. eexists. split; [lia|]. split; [lia|]. split; [constructor | exact Hrun].
    + exists 0%nat, nb. eexists. split; [lia|]. split; [lia|]. split; [constructor | exact Hrun].
  - destruct (encode_block x FinalNil) as [ex|] eqn:Ex; [|discriminate].
    destruct (encode_blocks (y :: r') final) as [er|] eqn:Er; [|discriminate].
    injection Henc as <-.
    assert (Hx : forall b, In b x -> b < 256) by (intros b; apply Hb; left; reflexivity).
    assert (Hr : forall blk b, In blk (y :: r') -> In b blk -> b < 256)
      by (intros blk b Hin; apply Hb; right; exact Hin).
    assert (Hal : (pos + 8 * N.of_nat (length ex)) mod 8 = 0) by lia.
    destruct (IH final er (nb + 1) rest (pos + 8 * N.of_nat (length ex)) (rev x ++ out)
                 (len + N.of_nat (length x)) ltac:(discriminate) Hr Er Hfin Hal)
      as [k [nb' [st' [Hk [Hk' [Hit Hlast]]]]]].
    exists (S k), nb', st'. split; [cbn [length] in *; lia|].
    split; [cbn [length] in *; intros Hf; specialize (Hk' Hf); lia|]. split.
    + econstructor; [|exact Hit].
      rewrite bytes_to_bits_app, <- app_assoc.
      apply (stream_body_block x FinalNil ex nb _ pos out len Hx Ex Hpos).
    + rewrite Hlast. f_equal.
      * f_equal. f_equal. cbn [length]. lia.
      * cbn [concat].
        f_equal; rewrite ?rev_app_distr, <- ?app_assoc, ?app_length; try reflexivity; lia.
Qed.

(* nat < 2 ^ d from the same inequality in N; the nat power is never computed *)
Lemma nat_lt_pow2 (n d : nat) : N.of_nat n < 2 ^ N.of_nat d -> (n < 2 ^ d)%nat.
Proof.
  intros H. change 2 with (N.of_nat 2) in H. rewrite <- Nat2N.inj_pow in H.
  generalize dependent (2 ^ d)%nat. intros m H. lia.
Qed.

(* general form: the bound is on the number of blocks; with a final mode one iteration
   less is needed *)
Theorem meta_stream_roundtrip_blocks payload final enc rest :
  (forall b, In b payload -> b < 256) ->
  N.of_nat (length (writer_blocks payload [])) + (if fmode_eqb final FinalNil then 1 else 0)
    <= 2 ^ 40 ->
  meta_encode payload final = Some enc ->
  final <> FinalNil \/ rest = [] ->
  meta_decode (enc ++ rest) =
  mkMR None payload final (N.of_nat (length (writer_blocks payload []))) (N.of_nat (length enc)).
Proof.
  intros Hp Hn Henc Hfin. unfold meta_encode in Henc. unfold meta_decode, decode_stream.
  assert (Hb : forall blk b, In blk (writer_blocks payload []) -> In b blk -> b < 256).
  { intros blk b H1 H2. apply Hp.
    change payload with ([] ++ payload). rewrite <- writer_blocks_concat.
    apply in_concat. exists blk. split; assumption. }
  assert (Hfin' : final <> FinalNil \/ bytes_to_bits rest = []).
  { destruct Hfin as [H|H]; [left; exact H | right; subst rest; reflexivity]. }
  destruct (stream_blocks (writer_blocks payload []) final enc 0 (bytes_to_bits rest) 0 [] 0
              (writer_blocks_nonempty payload []) Hb Henc Hfin' eq_refl)
    as [k [nb' [st' [Hk [Hk' [Hit Hlast]]]]]].
  rewrite bytes_to_bits_app. unfold ast_init.
  assert (Hk40 : (k < 2 ^ 40)%nat).
  { apply nat_lt_pow2. change (N.of_nat 40) with 40.
    destruct final; cbn [fmode_eqb] in Hn.
    - lia.
    - assert (k < length (writer_blocks payload []))%nat by (apply Hk'; discriminate). lia.
    - assert (k < length (writer_blocks payload []))%nat by (apply Hk'; discriminate). lia. }
  rewrite (loop_iters stream_body 40 k 0 _ nb' st' _ _ Hit Hk40 Hlast).
  cbn [a_out a_pos]. rewrite writer_blocks_concat. cbn [app]. rewrite app_nil_r.
  rewrite fast_rev_eq, rev_involutive. f_equal; lia.
Qed.

(* The decoder's loop budget is 2^40 blocks ([decode_stream 40]). Without a bound the
   statement is false in Coq (a [nat] length is unbounded: a payload of 32 * 2^40 bytes gives
   more than 2^40 blocks and the model's decoder ends in [EFuel]). Two convenient bounds:
   on the payload length, and on the encoded length (each block is at least 12 bytes). *)
Theorem meta_stream_roundtrip_payload :
  forall payload final enc rest,
    (forall b, In b payload -> b < 256) -> (forall b, In b rest -> b < 256) ->
    N.of_nat (length payload) < 2 ^ 40 ->
    meta_encode payload final = Some enc ->
    final <> FinalNil \/ rest = [] ->
    meta_decode (enc ++ rest) =
    mkMR None payload final (N.of_nat (length (writer_blocks payload []))) (N.of_nat (length enc)).
Proof.
  intros payload final enc rest Hp _ Hlen Henc Hfin.
  apply meta_stream_roundtrip_blocks; auto.
  pose proof (writer_blocks_count0 payload) as Hc.
  change (2 ^ 40) with 1099511627776 in *.
  destruct (fmode_eqb final FinalNil); lia.
Qed.

Lemma encode_blocks_length bs : forall final enc,
  (forall blk b, In blk bs -> In b blk -> b < 256) ->
  encode_blocks bs final = Some enc -> (12 * length bs <= length enc)%nat.
Proof.
  induction bs as [|x r IH]; intros final enc Hb Henc; [cbn [length]; lia|].
  assert (Hx : forall b, In b x -> b < 256) by (intros b; apply Hb; left; reflexivity).
  cbn [encode_blocks] in Henc. destruct r as [|y r'].
  - pose proof (meta_block_size_bytes x final enc Hx Henc). cbn [length]. lia.
  - destruct (encode_block x FinalNil) as [ex|] eqn:Ex; [|discriminate].
    destruct (encode_blocks (y :: r') final) as [er|] eqn:Er; [|discriminate].
    injection Henc as <-.
    pose proof (meta_block_size_bytes x FinalNil ex Hx Ex).
    assert (Hr : forall blk b, In blk (y :: r') -> In b blk -> b < 256)
      by (intros blk b Hin; apply Hb; right; exact Hin).
    specialize (IH final er Hr Er). rewrite app_length. cbn [length] in *. lia.
Qed.

Theorem meta_stream_roundtrip :
  forall payload final enc rest,
    (forall b, In b payload -> b < 256) -> (forall b, In b rest -> b < 256) ->
    meta_encode payload final = Some enc ->
    N.of_nat (length enc) < 2 ^ 40 ->
    final <> FinalNil \/ rest = [] ->
    meta_decode (enc ++ rest) =
    mkMR None payload final (N.of_nat (length (writer_blocks payload []))) (N.of_nat (length enc)).
Proof.
  intros payload final enc rest Hp _ Henc Hlen Hfin.
  apply meta_stream_roundtrip_blocks; auto.
  assert (Hb : forall blk b, In blk (writer_blocks payload []) -> In b blk -> b < 256).
  { intros blk b H1 H2. apply Hp.
    change payload with ([] ++ payload). rewrite <- writer_blocks_concat.
    apply in_concat. exists blk. split; assumption. }
  pose proof (encode_blocks_length _ final enc Hb Henc) as Hc.
  pose proof (writer_blocks_nonempty payload []) as Hne.
  destruct (writer_blocks payload []) as [|x r]; [congruence|]. cbn [length] in *.
  change (2 ^ 40) with 1099511627776 in *.
  destruct (fmode_eqb final FinalNil); lia.
Qed.

(* non-vacuity: a three-block payload with trailing bytes, and a FinalNil payload read to
   the clean end of the input *)
Example meta_stream_roundtrip_ex :
  let payload := repeat 0x5a 40 ++ repeat 0xc3 33 in
  exists enc, meta_encode payload FinalMeta = Some enc /\
    meta_decode (enc ++ [1; 2; 3]) = mkMR None payload FinalMeta 3 143.
Proof.
  intros payload.
  destruct (meta_encode_total_any payload FinalMeta) as [enc [He _]].
  exists enc. split; [exact He|].
  assert (Hl : length enc = 143%nat).
  { revert He. vm_compute. intros H; injection H as <-. reflexivity. }
  rewrite (meta_stream_roundtrip payload FinalMeta enc [1; 2; 3]); auto.
  - rewrite Hl. reflexivity.
  - subst payload. intros b Hb. apply in_app_or in Hb as [Hb|Hb]; apply repeat_spec in Hb; subst b; reflexivity.
  - intros b [<-|[<-|[<-|[]]]]; reflexivity.
  - rewrite Hl. reflexivity.
  - left. discriminate.
Qed.

Example meta_stream_roundtrip_nil_ex :
  exists enc, meta_encode [7; 8; 9] FinalNil = Some enc /\
    meta_decode enc = mkMR None [7; 8; 9] FinalNil 1 (N.of_nat (length enc)).
Proof. eexists. split; [vm_compute; reflexivity|]. vm_compute. reflexivity. Qed.

Print Assumptions meta_encode_total.
Print Assumptions meta_stream_roundtrip_blocks.
Print Assumptions meta_stream_roundtrip.
Print Assumptions meta_stream_roundtrip_payload.
Print Assumptions meta_small_single_block.
Print Assumptions meta_block_bytes_size.

(* the statements of XFlate/RoundTripStmt.v ([meta_stream_roundtrip_stmt] carries the loop
   budget premise [N.of_nat (length enc) < 2 ^ 40]) *)
From V Require XFlate.RoundTripStmt.
Goal XFlate.RoundTripStmt.meta_encode_total_stmt. Proof. exact meta_encode_total. Qed.
Goal XFlate.RoundTripStmt.meta_stream_roundtrip_stmt. Proof. exact meta_stream_roundtrip. Qed.
Goal XFlate.RoundTripStmt.meta_small_single_block_stmt. Proof. exact meta_small_single_block. Qed.
Goal XFlate.RoundTripStmt.meta_block_bytes_size_stmt. Proof. exact meta_block_bytes_size. Qed.
