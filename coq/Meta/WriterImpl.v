(* Implementation-level model of meta.Writer (xflate/internal/meta/writer.go) over the
   implementation-level bit writer (Prefix/WriterImpl.v) and a scripted, possibly failing
   sink.

   WHAT is written is Meta/Model.v (computeHuffLen, computeCounts, enc_runs, the block
   layout of encode_block_bits, the buffering rule of writer_blocks). This file adds the
   call structure of writer.go:

   * Write: byte by byte; a byte is added to buf when bufCnt < EnsureRawBytes or when the
     block with it still has a Huffman length, otherwise encodeBlock(FinalNil) first; the
     loop breaks at the first failure and Write returns (bytes stored so far, err);
     buf0s / buf1s / bufCnt are the literal counters;
   * encodeBlock: bb.Reset(); bw.Init(&bb, false): the bit writer is re-initialised (on its
     old value: [pw_init]) over a bytes.Buffer, i.e. a sink that accepts everything; then the
     bit fields in the order of the code (header, "TryWriteSymbol else WriteSymbol" /
     "TryWriteBits else WriteBits" per run, the pad count computed from bw.BitsWritten(),
     footer), bw.Flush() with its result ignored, the patch of the first byte, and ONE
     mw.wr.Write(bb.Bytes()) on the real sink; OutputOffset += cnt also when that call
     fails; the buffer counters are cleared and NumBlocks incremented only on success;
   * the latch mw.err (errClosed after a successful Close), Close (FinalMode is a public
     field set by the caller: it is the argument of the Close operation), Reset.

   Explicit failure outcomes: mw.buf[mw.bufCnt] with bufCnt >= MaxRawBytes and
   mw.bb.Bytes()[0] on an empty buffer are run-time panics (EPanic), "block too large to
   encode" is EInvalid; the theorems show them unreachable. Not modelled: mw.wr = nil in
   Close (never dereferenced afterwards: the latch is set), bytes.Buffer growing. *)
From V Require Import Base.Prelude Meta.Model Prefix.ReaderImpl Prefix.WriterImpl Prefix.WriterFields.

(* ---- the fields of one block ---------------------------------------------------------- *)
(* encHuff chunks: 0 -> "0", symOne -> "10", symRepLast -> "110", symRepZero -> "111"
   (first bit = least significant); the extra bits go through TryWriteBits / WriteBits *)
Definition msym_fields (m : msym) : list field :=
  match m with
  | MZero => [FSym 0 1]
  | MOne => [FSym 1 2]
  | MRepLast v => [FSym 3 3; FSym v 2]
  | MRepZero v => [FSym 7 3; FSym v 7]
  end.

Definition block_magic (huffLen : N) (final : fmode) : N :=
  let numHCLen := 4 + (8 - huffLen) * 2 in
  magicVals + N.b2n (fmode_eqb final FinalStream) + (numHCLen - 4) * 2 ^ 13.

(* everything before "pads := numPads(...)" *)
Definition block_fields1 (buf : list byte) (huffLen : N) (inv : bool) (final : fmode) : list field :=
  let numHCLen := 4 + (8 - huffLen) * 2 in
  FBits (block_magic huffLen final) 32 ::
  repeat (FBits 0 3) (N.to_nat (numHCLen - 1 - 5)) ++ [FBits 2 3; FBits 0 1] ++
  flat_map msym_fields
    (enc_runs (Model.bump_head (computeCounts buf (2 ^ huffLen) (negb (fmode_eqb final FinalNil)) inv)) false).

Definition block_fields2 (huffLen pads : N) : list field :=
  [FBits 0 pads; FBits 0 1; FBits (2 ^ huffLen - 1) huffLen].

(* numPads(uint(bw.BitsWritten()) + 1 + huffLen): -n & 7 on uint *)
Definition num_pads (bitsWritten : Z) (huffLen : N) : N :=
  let n := u64 (Z.to_N (bitsWritten mod 2 ^ 64) + 1 + huffLen) in
  u64 (2 ^ 64 - n) mod 8.

(* ---- the Writer ----------------------------------------------------------------------- *)
Record mtw := mkMtw {
  m_in : Z;                 (* InputOffset *)
  m_out : Z;                (* OutputOffset *)
  m_nblocks : Z;            (* NumBlocks *)
  m_sink : wsink;           (* wr *)
  m_bw : pwr;               (* bw; its sink is bb *)
  m_buf0s : N;
  m_buf1s : N;
  m_buf : list byte;        (* buf[:bufCnt] *)
  m_cnt : N;                (* bufCnt *)
  m_err : option err        (* err; Some EClosed = errClosed *)
}.


(* Reset(wr): "*mw = Writer{wr: wr, bw: mw.bw, bb: mw.bb, cnts: mw.cnts}" *)
Definition mreset (st : mtw) (s : wsink) : mtw :=
  mkMtw 0 0 0 s (m_bw st) 0 0 [] 0 None.

Definition mnew (s : wsink) : mtw :=
  mreset (mkMtw 0 0 0 (new_sink [] SAccept) zero_pwr 0 0 [] 0 None) s.

Definition with_bw (st : mtw) (p : pwr) : mtw :=
  mkMtw (m_in st) (m_out st) (m_nblocks st) (m_sink st) p (m_buf0s st) (m_buf1s st)
        (m_buf st) (m_cnt st) (m_err st).

(* encodeBlock(final): (returned error, state); Some EPanic = a run-time panic that unwinds
   to the caller. A value raised with errors.Panic inside WriteBits is returned as the
   error (defer errors.Recover(&err)). *)
Definition mencode (st : mtw) (final : fmode) : option err * mtw :=
  let bw0 := pw_init (m_bw st) (new_sink [] SAccept) false in
  let '(huffLen, inv) := computeHuffLen (m_buf0s st) (m_buf1s st) in
  if huffLen =? 0 then (Some EInvalid, with_bw st bw0) else
  let '(e1, bw1) := frun bw0 (block_fields1 (m_buf st) huffLen inv final) in
  match e1 with
  | Some _ => (e1, with_bw st bw1)
  | None =>
    let pads := num_pads (bits_written bw1) huffLen in
    let '(e2, bw2) := frun bw1 (block_fields2 huffLen pads) in
    match e2 with
    | Some _ => (e2, with_bw st bw2)
    | None =>
      let '((_, fe), bw3) := wflush bw2 in                 (* mw.bw.Flush(): result ignored *)
      match fe with
      | Some EPanic => (fe, with_bw st bw3)
      | _ =>
        match wsink_data (bw_sink bw3) with                (* mw.bb.Bytes() *)
        | [] => (Some EPanic, with_bw st bw3)              (* Bytes()[0]: index out of range *)
        | b0 :: rest =>
          let bytes := N.lor b0 ((pads * 8) mod 256) :: rest in
          let '((n, e), sink') := wsink_write (m_sink st) bytes in
          let out' := (m_out st + Z.of_nat n)%Z in
          match e with
          | Some _ =>
            (e, mkMtw (m_in st) out' (m_nblocks st) sink' bw3 (m_buf0s st) (m_buf1s st)
                      (m_buf st) (m_cnt st) (m_err st))
          | None =>
            (None, mkMtw (m_in st) out' (m_nblocks st + 1) sink' bw3 0 0 [] 0 (m_err st))
          end
        end
      end
    end
  end.

(* ---- the API ---------------------------------------------------------------------------- *)
Inductive mret :=
| MRWrite (n : nat) (e : option err)
| MRClose (e : option err)
| MRReset
| MRPanic.

Definition set_err (st : mtw) (e : option err) : mtw :=
  mkMtw (m_in st) (m_out st) (m_nblocks st) (m_sink st) (m_bw st) (m_buf0s st) (m_buf1s st)
        (m_buf st) (m_cnt st) e.

(* mw.InputOffset += int64(wrCnt); return wrCnt, mw.err *)
Definition mwrite_done (st : mtw) (wrCnt : nat) : mret * mtw :=
  (MRWrite wrCnt (m_err st),
   mkMtw (m_in st + Z.of_nat wrCnt) (m_out st) (m_nblocks st) (m_sink st) (m_bw st)
         (m_buf0s st) (m_buf1s st) (m_buf st) (m_cnt st) (m_err st)).

(* the loop "for _, b := range buf" *)
Fixpoint mwrite_loop (data : list byte) (st : mtw) (wrCnt : nat) : mret * mtw :=
  match data with
  | [] => mwrite_done st wrCnt
  | b :: r =>
    let ones := popcount8 b in
    let zeros := 8 - ones in
    let skip := (m_cnt st <? EnsureRawBytes) ||
                negb (fst (computeHuffLen (m_buf0s st + zeros) (m_buf1s st + ones)) =? 0) in
    let '(e, st1) := if skip then (None, st) else mencode st FinalNil in
    match e with
    | Some EPanic => (MRPanic, st1)
    | Some _ => mwrite_done (set_err st1 e) wrCnt             (* mw.err = err; break *)
    | None =>
      if MaxRawBytes <=? m_cnt st1 then (MRPanic, st1)        (* mw.buf[mw.bufCnt]: out of range *)
      else
        mwrite_loop r
          (mkMtw (m_in st1) (m_out st1) (m_nblocks st1) (m_sink st1) (m_bw st1)
                 (m_buf0s st1 + zeros) (m_buf1s st1 + ones) (m_buf st1 ++ [b]) (m_cnt st1 + 1)
                 (m_err st1))
          (S wrCnt)
    end
  end.

Definition mwrite (st : mtw) (data : list byte) : mret * mtw :=
  match m_err st with
  | Some e => (MRWrite 0 (Some e), st)
  | None => mwrite_loop data st 0
  end.

Definition mclose (st : mtw) (mode : fmode) : mret * mtw :=
  match m_err st with
  | Some EClosed => (MRClose None, st)
  | Some e => (MRClose (Some e), st)
  | None =>
    let '(e, st1) := mencode st mode in
    match e with
    | Some EPanic => (MRPanic, st1)
    | Some _ => (MRClose e, set_err st1 e)
    | None => (MRClose None, set_err st1 (Some EClosed))
    end
  end.

(* ---- histories -------------------------------------------------------------------------- *)
Inductive mop :=
| MWrite (data : list byte)
| MClose (mode : fmode)                          (* mw.FinalMode = mode; mw.Close() *)
| MReset (script : list sbeh) (rest : sbeh).

Record mobs := mkMobs { mo_ret : mret; mo_in : Z; mo_out : Z; mo_nblocks : Z; mo_sink : wsink }.

Definition mstep (st : mtw) (o : mop) : mret * mtw :=
  match o with
  | MWrite data => mwrite st data
  | MClose mode => mclose st mode
  | MReset script rest => (MRReset, mreset st (new_sink script rest))
  end.

Definition mobserve (r : mret) (st : mtw) : mobs :=
  mkMobs r (m_in st) (m_out st) (m_nblocks st) (m_sink st).

Fixpoint mrun (st : mtw) (ops : list mop) : list mobs * mtw :=
  match ops with
  | [] => ([], st)
  | o :: r =>
    let '(ret, st') := mstep st o in
    match ret with
    | MRPanic => ([mobserve ret st'], st')
    | _ => let '(obs, st'') := mrun st' r in (mobserve ret st' :: obs, st'')
    end
  end.

Definition mrun_new (script : list sbeh) (rest : sbeh) (ops : list mop) : list mobs :=
  fst (mrun (mnew (new_sink script rest)) ops).
