(* Theorems about the implementation-level model of meta.Writer (Meta/WriterImpl.v) over the
   implementation-level bit writer and a scripted sink, for EVERY history (Write / Close /
   Reset) and EVERY sink script. The abstract Writer is Meta/WriterImplSpec.v; encodeBlock is
   handled in Meta/WriterImplBits.v. See the summary at the end of the file. *)
From V Require Import Base.Prelude Meta.Model Meta.Thms Prefix.ReaderImpl Prefix.ReaderSpec
  Prefix.WriterImpl Prefix.WriterSpec Prefix.WriterThms Prefix.WriterFields Prefix.WriterFieldsThms
  Meta.WriterImpl Meta.WriterImplSpec Meta.WriterImplBits.
From Coq Require Import ZifyBool ZifyN ZifyNat.

Local Open Scope N_scope.

Ltac mprj := cbn [m_in m_out m_nblocks m_sink m_bw m_buf0s m_buf1s m_buf m_cnt m_err].
Tactic Notation "mprj" "in" hyp(H) :=
  cbn [m_in m_out m_nblocks m_sink m_bw m_buf0s m_buf1s m_buf m_cnt m_err] in H.

(* ------------------------------------------------------------------------- *)
(* (0) small facts                                                            *)
(* ------------------------------------------------------------------------- *)
Definition ret_err (r : mret) : option err :=
  match r with MRWrite _ e | MRClose e => e | _ => None end.
Definition ret_n (r : mret) : nat := match r with MRWrite n _ => n | _ => O end.
Definition no_reset (o : mop) : Prop := match o with MReset _ _ => False | _ => True end.

(* the number of accepted calls among the behaviours met *)
Definition acceptsb (b : sbeh) : bool := match b with SAccept => true | SFail _ _ => false end.
Definition n_ok (l : list sbeh) : nat := length (filter acceptsb l).

Lemma n_ok_app a b : n_ok (a ++ b) = (n_ok a + n_ok b)%nat.
Proof. unfold n_ok. rewrite filter_app, app_length. reflexivity. Qed.

Lemma n_ok_accepts l : Forall beh_accepts l -> n_ok l = length l.
Proof.
  unfold n_ok. induction 1 as [|b l Hb Hl IH]; [reflexivity|].
  unfold beh_accepts in Hb. subst b. cbn [filter acceptsb length]. rewrite IH. reflexivity.
Qed.

Lemma n_ok_fail l k t : Forall beh_accepts l -> n_ok (l ++ [SFail k t]) = length l.
Proof. intros H. rewrite n_ok_app, (n_ok_accepts l H). cbn. lia. Qed.

Lemma blocks_out_app a b : blocks_out (a ++ b) = blocks_out a ++ blocks_out b.
Proof. unfold blocks_out. rewrite map_app, concat_app. reflexivity. Qed.

Lemma blocks_out_one b : blocks_out [b] = block_bytes b FinalNil.
Proof. unfold blocks_out. cbn [map concat]. apply app_nil_r. Qed.

(* the byte-wise state machine only appends to the emitted blocks *)
Lemma wwrite_cons s b r : wwrite s (b :: r) = wwrite (wstep s b) r.
Proof. reflexivity. Qed.

Lemma wwrite_done_mono data : forall done buf, exists more, fst (wwrite (done, buf) data) = done ++ more.
Proof.
  induction data as [|b r IH]; intros done buf.
  - exists []. cbn. rewrite app_nil_r. reflexivity.
  - rewrite wwrite_cons. cbn [wstep]. destruct (fits_with buf b).
    + apply IH.
    + destruct (IH (done ++ [buf]) [b]) as (more & E). exists ([buf] ++ more).
      rewrite E, <- app_assoc. reflexivity.
Qed.

Lemma wwrite_payload data : forall done buf,
  concat (fst (wwrite (done, buf) data)) ++ snd (wwrite (done, buf) data) = concat done ++ buf ++ data.
Proof.
  induction data as [|b r IH]; intros done buf.
  - cbn. rewrite app_nil_r. reflexivity.
  - rewrite wwrite_cons. cbn [wstep]. destruct (fits_with buf b).
    + rewrite IH, <- app_assoc. reflexivity.
    + rewrite IH, concat_app. cbn [concat]. rewrite app_nil_r, <- app_assoc. reflexivity.
Qed.

Lemma prefix_firstn_app {A} (a x y : list A) k : prefix_of (a ++ firstn k x) ((a ++ x) ++ y).
Proof.
  exists (skipn k x ++ y). rewrite <- !app_assoc. f_equal. rewrite app_assoc, firstn_skipn. reflexivity.
Qed.

Lemma with_bw_same st : with_bw st (m_bw st) = st.
Proof. destruct st; reflexivity. Qed.

(* ------------------------------------------------------------------------- *)
(* (1) the latch: ANY state                                                    *)
(* ------------------------------------------------------------------------- *)
(* THEOREM 1a (any state whatsoever): once the latch holds a failure, Write and Close return
   it, make no sink call and change no field *)
Theorem mstep_latched st o e : m_err st = Some e -> e <> EClosed -> no_reset o ->
  mstep st o = (match o with MWrite _ => MRWrite 0 (Some e) | _ => MRClose (Some e) end, st).
Proof.
  intros He Hne Ho. destruct o as [data|mode|sc rs]; cbn [mstep]; [| |contradiction].
  - unfold mwrite. rewrite He. reflexivity.
  - unfold mclose. rewrite He. destruct e; try reflexivity. contradiction.
Qed.

(* after a successful Close: Write returns errClosed, Close returns nil, nothing changes *)
Theorem mstep_closed st o : m_err st = Some EClosed -> no_reset o ->
  mstep st o = (match o with MWrite _ => MRWrite 0 (Some EClosed) | _ => MRClose None end, st).
Proof.
  intros He Ho. destruct o as [data|mode|sc rs]; cbn [mstep]; [| |contradiction].
  - unfold mwrite. rewrite He. reflexivity.
  - unfold mclose. rewrite He. reflexivity.
Qed.

Theorem latched_history st ops e : m_err st = Some e -> e <> EClosed -> Forall no_reset ops ->
  mrun st ops =
  (map (fun o => mobserve (match o with MWrite _ => MRWrite 0 (Some e) | _ => MRClose (Some e) end) st) ops,
   st).
Proof.
  intros He Hne. induction ops as [|o ops IH]; intros Hno; cbn [mrun map]; [reflexivity|].
  inversion Hno as [|o' ops' Ho Hno']; subst.
  rewrite (mstep_latched st o e He Hne Ho). rewrite (IH Hno').
  destruct o; reflexivity.
Qed.

Theorem closed_history st ops : m_err st = Some EClosed -> Forall no_reset ops ->
  mrun st ops =
  (map (fun o => mobserve (match o with MWrite _ => MRWrite 0 (Some EClosed) | _ => MRClose None end) st) ops,
   st).
Proof.
  intros He. induction ops as [|o ops IH]; intros Hno; cbn [mrun map]; [reflexivity|].
  inversion Hno as [|o' ops' Ho Hno']; subst.
  rewrite (mstep_closed st o He Ho). rewrite (IH Hno').
  destruct o; reflexivity.
Qed.

(* ------------------------------------------------------------------------- *)
(* (2) states in which nothing has failed                                      *)
(* ------------------------------------------------------------------------- *)
Definition OutOk (st : mtw) : Prop := m_out st = Z.of_nat (length (wsink_data (m_sink st))).

(* latch clear: the sink holds the blocks [done], the buffer is [buf] and is encodable *)
Definition Open (st : mtw) (done : list (list byte)) (buf : list byte) : Prop :=
  m_err st = None /\ wsink_data (m_sink st) = blocks_out done /\ OutOk st /\
  m_nblocks st = Z.of_nat (length done) /\ Forall buf_fits done /\ m_buf st = buf /\ CntOk st.

Definition Closed (st : mtw) (done : list (list byte)) (buf : list byte) (mode : fmode) : Prop :=
  m_err st = Some EClosed /\ wsink_data (m_sink st) = blocks_out done ++ block_bytes buf mode /\
  OutOk st /\ m_nblocks st = Z.of_nat (S (length done)) /\ Forall buf_fits done /\ buf_fits buf.

Lemma Open_fits st done buf : Open st done buf -> buf_fits buf.
Proof. intros (_ & _ & _ & _ & _ & Hb & (_ & _ & _ & Hf)). rewrite <- Hb. exact Hf. Qed.

(* encodeBlock from an open state: one sink call *)
Lemma mencode_open st done buf final : Open st done buf ->
  let '(e, st1) := mencode st final in
  m_in st1 = m_in st /\ m_err st1 = None /\ OutOk st1 /\
  match e with
  | None =>
    calls (m_sink st) [SAccept] (m_sink st1) /\
    wsink_data (m_sink st1) = blocks_out done ++ block_bytes buf final /\
    m_nblocks st1 = Z.of_nat (S (length done)) /\
    m_buf st1 = [] /\ m_cnt st1 = 0 /\ m_buf0s st1 = 0 /\ m_buf1s st1 = 0
  | Some (ESrc t) => exists k,
    calls (m_sink st) [SFail k t] (m_sink st1) /\
    wsink_data (m_sink st1) =
      blocks_out done ++ firstn (Nat.min k (length (block_bytes buf final))) (block_bytes buf final) /\
    m_nblocks st1 = Z.of_nat (length done) /\ m_buf st1 = buf /\ CntOk st1
  | Some _ => False
  end.
Proof.
  intros (He & Hd & Ho & Hn & Hfd & Hb & HC). subst buf.
  destruct (mencode_spec st final HC) as (bw3 & ->).
  pose proof (wsink_write_spec (m_sink st) (block_bytes (m_buf st) final)) as Hs.
  pose proof (calls_one (m_sink st) (block_bytes (m_buf st) final)) as Hc.
  destruct (wsink_write (m_sink st) (block_bytes (m_buf st) final)) as [[n e] sink']. cbn [snd] in Hc.
  destruct Hs as (Hee & Hdd & Hle & Hacc & Hfl & _).
  assert (Hout : (m_out st + Z.of_nat n)%Z = Z.of_nat (length (wsink_data sink'))).
  { unfold OutOk in Ho. rewrite Hdd, app_length, firstn_length, Ho. lia. }
  destruct (next_beh (m_sink st)) as [|k t] eqn:Enb; cbn [beh_err] in Hee; subst e.
  - specialize (Hacc eq_refl). subst n. rewrite firstn_all in Hdd.
    mprj. split; [reflexivity|]. split; [exact He|]. split; [exact Hout|].
    split; [exact Hc|]. split; [rewrite Hdd, Hd; reflexivity|].
    split; [rewrite Hn; lia|]. repeat split; reflexivity.
  - specialize (Hfl k t eq_refl). subst n.
    mprj. split; [reflexivity|]. split; [exact He|]. split; [exact Hout|].
    exists k. split; [exact Hc|]. split; [rewrite Hdd, Hd; reflexivity|].
    split; [exact Hn|]. split; [reflexivity|]. exact HC.
Qed.

(* ------------------------------------------------------------------------- *)
(* (3) the loop of Write                                                       *)
(* ------------------------------------------------------------------------- *)
(* the BLOCK link: the "skipEncode" test is [fits_with] of Meta/Model.v *)
Lemma skip_is_fits st done buf b : Open st done buf ->
  ((m_cnt st <? EnsureRawBytes) ||
   negb (fst (computeHuffLen (m_buf0s st + (8 - popcount8 b)) (m_buf1s st + popcount8 b)) =? 0))
  = fits_with buf b.
Proof.
  intros (_ & _ & _ & _ & _ & Hb & (Hc & H0 & H1 & _)). subst buf.
  unfold fits_with. rewrite Hc, H0, H1. reflexivity.
Qed.

Definition push_byte (st : mtw) (b : byte) : mtw :=
  mkMtw (m_in st) (m_out st) (m_nblocks st) (m_sink st) (m_bw st)
        (m_buf0s st + (8 - popcount8 b)) (m_buf1s st + popcount8 b) (m_buf st ++ [b]) (m_cnt st + 1)
        (m_err st).

Lemma Open_push st done buf b : Open st done buf -> fits_with buf b = true ->
  Open (push_byte st b) done (buf ++ [b]).
Proof.
  intros (He & Hd & Ho & Hn & Hfd & Hb & (Hc & H0 & H1 & Hf)) Hfit. subst buf.
  unfold Open, OutOk, CntOk, push_byte. mprj.
  split; [exact He|]. split; [exact Hd|]. split; [exact Ho|]. split; [exact Hn|].
  split; [exact Hfd|]. split; [reflexivity|].
  split; [rewrite Hc, app_length; cbn [length]; lia|].
  split; [rewrite H0, count_zeros_snoc; reflexivity|].
  split; [rewrite H1, count_ones_snoc; reflexivity|].
  apply fits_with_sound; [exact Hf | pose proof (buf_fits_len _ Hf); lia | exact Hfit].
Qed.

Lemma count_one b : count_zeros [b] = 8 - popcount8 b /\ count_ones [b] = popcount8 b.
Proof.
  pose proof (count_zeros_snoc [] b) as H0. pose proof (count_ones_snoc [] b) as H1.
  cbn [app] in H0, H1. rewrite H0, H1. split; reflexivity.
Qed.

Lemma Open_push_fresh st1 done buf b :
  m_err st1 = None -> OutOk st1 -> buf_fits buf -> Forall buf_fits done ->
  wsink_data (m_sink st1) = blocks_out done ++ block_bytes buf FinalNil ->
  m_nblocks st1 = Z.of_nat (S (length done)) ->
  m_buf st1 = [] -> m_cnt st1 = 0 -> m_buf0s st1 = 0 -> m_buf1s st1 = 0 ->
  Open (push_byte st1 b) (done ++ [buf]) [b].
Proof.
  intros He Ho Hf Hfd Hd Hn Hb Hc H0 H1. destruct (count_one b) as [Z0 Z1].
  unfold Open, OutOk, CntOk, push_byte. mprj. rewrite Hb, Hc, H0, H1. cbn [app].
  split; [exact He|]. split; [rewrite Hd, blocks_out_app, blocks_out_one; reflexivity|].
  split; [exact Ho|]. split; [rewrite Hn, app_length; cbn [length]; lia|].
  split; [apply Forall_app; split; [exact Hfd | constructor; [exact Hf | constructor]]|].
  split; [reflexivity|]. split; [reflexivity|].
  split; [rewrite Z0; reflexivity|]. split; [rewrite Z1; reflexivity|]. apply buf_fits_one.
Qed.

Lemma mwrite_loop_spec data : forall st done buf n, Open st done buf ->
  let '(ret, st') := mwrite_loop data st n in
  exists l', calls (m_sink st) l' (m_sink st') /\
    m_nblocks st' = (m_nblocks st + Z.of_nat (n_ok l'))%Z /\
    m_in st' = (m_in st + Z.of_nat (ret_n ret))%Z /\ OutOk st' /\
    match ret with
    | MRWrite n' None =>
      n' = (n + length data)%nat /\ Forall beh_accepts l' /\
      Open st' (fst (wwrite (done, buf) data)) (snd (wwrite (done, buf) data))
    | MRWrite n' (Some (ESrc t)) =>
      (n <= n' < n + length data)%nat /\ m_err st' = Some (ESrc t) /\
      (exists l1 k, l' = l1 ++ [SFail k t] /\ Forall beh_accepts l1) /\
      (exists done1 kk, wwrite (done, buf) (firstn (n' - n) data) = (done1, m_buf st') /\
          fits_with (m_buf st') (nth (n' - n) data 0) = false /\
          wsink_data (m_sink st') = blocks_out done1 ++ firstn kk (block_bytes (m_buf st') FinalNil)) /\
      prefix_of (wsink_data (m_sink st')) (blocks_out (fst (wwrite (done, buf) data)))
    | _ => False
    end.
Proof.
  induction data as [|b r IH]; intros st done buf n HO.
  - cbn [mwrite_loop]. unfold mwrite_done.
    destruct HO as (He & Hd & Ho & Hn & Hfd & Hb & HC). rewrite He.
    exists []. mprj. split; [apply calls_nil|].
    split; [change (n_ok []) with 0%nat; lia|]. split; [cbn [ret_n]; reflexivity|].
    split; [exact Ho|]. split; [cbn [length]; lia|]. split; [constructor|].
    cbn [wwrite fold_left fst snd]. unfold Open, OutOk, CntOk in *. mprj.
    split; [reflexivity|]. split; [exact Hd|]. split; [exact Ho|]. split; [exact Hn|].
    split; [exact Hfd|]. split; [exact Hb | exact HC].
  - cbn [mwrite_loop]. cbv zeta. rewrite (skip_is_fits st done buf b HO).
    rewrite wwrite_cons. cbn [wstep]. destruct (fits_with buf b) eqn:Ef.
    + (* the byte fits: no block *)
      cbv beta iota.
      assert (Hlt : (MaxRawBytes <=? m_cnt st) = false).
      { pose proof (buf_fits_len _ (Open_fits _ _ _ HO)) as Hl.
        destruct HO as (_ & _ & _ & _ & _ & Hb & (Hc & _)). subst buf. unfold MaxRawBytes. lia. }
      rewrite Hlt.
      pose proof (IH (push_byte st b) done (buf ++ [b]) (S n) (Open_push _ _ _ _ HO Ef)) as H.
      unfold push_byte in H.
      destruct (mwrite_loop r _ (S n)) as [ret st'].
      destruct H as (l' & Hc & Hnb & Hin & Hout & Hret). mprj in Hc. mprj in Hnb. mprj in Hin.
      exists l'. split; [exact Hc|]. split; [exact Hnb|]. split; [exact Hin|]. split; [exact Hout|].
      destruct ret as [n' [e|]| | |]; try contradiction.
      * destruct e; try contradiction.
        destruct Hret as (Hn' & He' & Hl' & (done1 & kk & Hw & Hnf & Hsk) & Hp).
        split; [cbn [length]; lia|]. split; [exact He'|]. split; [exact Hl'|]. split; [|exact Hp].
        exists done1, kk. replace (n' - n)%nat with (S (n' - S n)) by lia.
        cbn [firstn nth]. rewrite wwrite_cons. cbn [wstep]. rewrite Ef.
        split; [exact Hw|]. split; [exact Hnf | exact Hsk].
      * destruct Hret as (Hn' & Hl' & HO').
        split; [cbn [length]; lia|]. split; [exact Hl' | exact HO'].
    + (* it does not: encodeBlock(FinalNil) first *)
      pose proof (mencode_open st done buf FinalNil HO) as Hm.
      destruct (mencode st FinalNil) as [e st1]. destruct Hm as (Hin1 & He1 & Hout1 & Hm).
      destruct e as [e|].
      * destruct e; try contradiction. destruct Hm as (k & Hc1 & Hd1 & Hn1 & Hb1 & HC1).
        unfold mwrite_done, set_err. mprj.
        exists [SFail k tag]. split; [exact Hc1|].
        split; [change (n_ok [SFail k tag]) with 0%nat; destruct HO as (_ & _ & _ & Hn & _); lia|].
        split; [cbn [ret_n]; lia|]. split; [exact Hout1|].
        split; [cbn [length]; lia|]. split; [reflexivity|].
        split; [exists [], k; split; [reflexivity | constructor]|].
        split.
        { exists done, (Nat.min k (length (block_bytes buf FinalNil))).
          rewrite Nat.sub_diag, Hb1. cbn [firstn nth]. split; [reflexivity|]. split; [exact Ef | exact Hd1]. }
        destruct (wwrite_done_mono r (done ++ [buf]) [b]) as (more & Em). rewrite Em, Hd1.
        rewrite !blocks_out_app, blocks_out_one. apply prefix_firstn_app.
      * destruct Hm as (Hc1 & Hd1 & Hn1 & Hb1 & Hcn1 & H01 & H11).
        rewrite Hcn1. change (MaxRawBytes <=? 0) with false. cbv iota.
        pose proof (IH (push_byte st1 b) (done ++ [buf]) [b] (S n)
                      (Open_push_fresh st1 done buf b He1 Hout1 (Open_fits _ _ _ HO)
                         ltac:(destruct HO as (_ & _ & _ & _ & Hfd & _); exact Hfd)
                         Hd1 Hn1 Hb1 Hcn1 H01 H11)) as H.
        unfold push_byte in H. rewrite Hcn1 in H.
        destruct (mwrite_loop r _ (S n)) as [ret st'].
        destruct H as (l' & Hc & Hnb & Hin & Hout & Hret). mprj in Hc. mprj in Hnb. mprj in Hin.
        exists (SAccept :: l').
        split; [eapply (calls_app _ [SAccept]); eassumption|].
        split.
        { change (SAccept :: l') with ([SAccept] ++ l'). rewrite n_ok_app.
          change (n_ok [SAccept]) with 1%nat. destruct HO as (_ & _ & _ & Hn & _). lia. }
        split; [lia|]. split; [exact Hout|].
        destruct ret as [n' [e|]| | |]; try contradiction.
        -- destruct e; try contradiction.
           destruct Hret as (Hn' & He' & (l1 & k & El & Hl1) & (done1 & kk & Hw & Hnf & Hsk) & Hp).
           split; [cbn [length]; lia|]. split; [exact He'|].
           split; [exists (SAccept :: l1), k; split; [rewrite El; reflexivity | constructor; [reflexivity | exact Hl1]]|].
           split; [|exact Hp].
           exists done1, kk. replace (n' - n)%nat with (S (n' - S n)) by lia.
           cbn [firstn nth]. rewrite wwrite_cons. cbn [wstep]. rewrite Ef.
           split; [exact Hw|]. split; [exact Hnf | exact Hsk].
        -- destruct Hret as (Hn' & Hl' & HO').
           split; [cbn [length]; lia|]. split; [constructor; [reflexivity | exact Hl'] | exact HO'].
Qed.

(* ------------------------------------------------------------------------- *)
(* (4) the abstract Writer: payload, monotone output                           *)
(* ------------------------------------------------------------------------- *)
(* the abstract state is the state of the byte-wise machine after the whole payload *)
Definition AInv (a : amw) : Prop := wwrite ([], []) (am_payload a) = (am_done a, am_buf a).

Lemma AInv_new : AInv anew.
Proof. reflexivity. Qed.

Lemma awrite_payload a data : am_fin a = None -> am_payload (awrite a data) = am_payload a ++ data.
Proof.
  intros Hf. unfold awrite, am_payload. rewrite Hf. cbn [am_done am_buf].
  rewrite wwrite_payload, <- app_assoc. reflexivity.
Qed.

Lemma AInv_awrite a data : AInv a -> AInv (awrite a data).
Proof.
  intros HA. destruct (am_fin a) as [m|] eqn:Hf.
  - unfold awrite. rewrite Hf. exact HA.
  - unfold AInv. rewrite (awrite_payload a data Hf), <- wwrite_app. unfold AInv in HA. rewrite HA.
    unfold awrite. rewrite Hf. cbn [am_done am_buf]. apply surjective_pairing.
Qed.

Lemma AInv_aclose a mode : AInv a -> AInv (aclose a mode).
Proof. intros HA. unfold aclose. destruct (am_fin a); exact HA. Qed.

Lemma AInv_astep a o : AInv a -> AInv (astep a o).
Proof.
  intros HA. destruct o; cbn [astep]; [apply AInv_awrite | apply AInv_aclose | apply AInv_new]; exact HA.
Qed.

Lemma astep_closed a o m : am_fin a = Some m -> no_reset o -> astep a o = a.
Proof.
  intros Hf Ho. destruct o; cbn [astep]; [| |contradiction].
  - unfold awrite. rewrite Hf. reflexivity.
  - unfold aclose. rewrite Hf. reflexivity.
Qed.

Lemma astep_mono a o : no_reset o -> prefix_of (am_out a) (am_out (astep a o)).
Proof.
  intros Ho. destruct (am_fin a) as [m|] eqn:Hf.
  - rewrite (astep_closed a o m Hf Ho). apply prefix_of_refl.
  - destruct o as [data|mode|sc rs]; cbn [astep]; [| |contradiction].
    + unfold awrite, am_out. rewrite Hf. cbn [am_done am_buf am_fin]. rewrite !app_nil_r.
      destruct (wwrite_done_mono data (am_done a) (am_buf a)) as (more & ->).
      rewrite blocks_out_app. apply prefix_of_app.
    + unfold aclose, am_out. rewrite Hf. cbn [am_done am_buf am_fin]. rewrite app_nil_r.
      apply prefix_of_app.
Qed.

Lemma arun_mono ops : forall a, Forall no_reset ops -> prefix_of (am_out a) (am_out (arun a ops)).
Proof.
  unfold arun. induction ops as [|o ops IH]; intros a Hno; cbn [fold_left]; [apply prefix_of_refl|].
  inversion Hno as [|o' ops' Ho Hno']; subst.
  eapply prefix_of_trans; [apply astep_mono; exact Ho | apply IH; exact Hno'].
Qed.

(* ------------------------------------------------------------------------- *)
(* (5) the states a history reaches                                            *)
(* ------------------------------------------------------------------------- *)
Definition Healthy (st : mtw) (a : amw) : Prop :=
  m_in st = am_in a /\
  match am_fin a with
  | None => Open st (am_done a) (am_buf a)
  | Some m => Closed st (am_done a) (am_buf a) m
  end.

Lemma Healthy_sink st a : Healthy st a -> wsink_data (m_sink st) = am_out a.
Proof.
  intros (_ & H). unfold am_out. destruct (am_fin a).
  - destruct H as (_ & H & _). exact H.
  - destruct H as (_ & H & _). rewrite app_nil_r. exact H.
Qed.

Lemma Healthy_err st a : Healthy st a ->
  m_err st = match am_fin a with Some _ => Some EClosed | None => None end.
Proof. intros (_ & H). destruct (am_fin a); destruct H as (H & _); exact H. Qed.

(* since the last Reset (or NewWriter): s0 is the sink installed then, l the behaviours its
   calls met, a the abstract Writer of the calls made. Either nothing failed, or the LAST
   sink call failed: the latch holds its error and the sink holds a prefix of the fault-free
   output. *)
Definition MReach (s0 : wsink) (st : mtw) (a : amw) (l : list sbeh) : Prop :=
  calls s0 l (m_sink st) /\ OutOk st /\ m_nblocks st = Z.of_nat (n_ok l) /\ AInv a /\
  ((Healthy st a /\ Forall beh_accepts l) \/
   (exists t l1 k, m_err st = Some (ESrc t) /\ l = l1 ++ [SFail k t] /\ Forall beh_accepts l1 /\
                   prefix_of (wsink_data (m_sink st)) (am_out a))).

(* what one call reports about the sink calls it made, from a state whose latch is clear *)
Definition StepRep (ret : mret) (st' : mtw) (l' : list sbeh) : Prop :=
  (Forall beh_accepts l' /\ ret_err ret = None /\
   (m_err st' = None \/ m_err st' = Some EClosed)) \/
  (exists l1 k t, l' = l1 ++ [SFail k t] /\ Forall beh_accepts l1 /\
                  ret_err ret = Some (ESrc t) /\ m_err st' = Some (ESrc t)).

Definition err_kind (e : option err) : Prop :=
  e = None \/ e = Some EClosed \/ exists t, e = Some (ESrc t).

(* the kind of value a call returns *)
Definition ret_shape (o : mop) (r : mret) : Prop :=
  match o, r with
  | MWrite _, MRWrite _ _ | MClose _, MRClose _ | MReset _ _, MRReset => True
  | _, _ => False
  end.

Lemma mstep_reach s0 st a l o : MReach s0 st a l -> no_reset o ->
  let '(ret, st') := mstep st o in
  exists l', MReach s0 st' (astep a o) (l ++ l') /\
    calls (m_sink st) l' (m_sink st') /\ ret <> MRPanic /\ ret_shape o ret /\ err_kind (ret_err ret) /\
    m_in st' = (m_in st + Z.of_nat (ret_n ret))%Z /\
    (m_err st = None -> StepRep ret st' l').
Proof.
  intros (Hc0 & Hout0 & Hnb0 & HA & HR) Ho.
  destruct HR as [(HH & Hacc) | (t & l1 & k & He & El & Hl1 & Hp)].
  - pose proof (Healthy_err st a HH) as He. destruct HH as (Hin & HH).
    destruct (am_fin a) as [m|] eqn:Hf.
    + (* closed *)
      rewrite (mstep_closed st o He Ho). exists []. rewrite app_nil_r.
      rewrite (astep_closed a o m Hf Ho).
      split.
      { split; [exact Hc0|]. split; [exact Hout0|]. split; [exact Hnb0|]. split; [exact HA|].
        left. split; [|exact Hacc]. split; [exact Hin|]. rewrite Hf. exact HH. }
      split; [apply calls_nil|]. split; [destruct o; discriminate|]. split; [destruct o; first [exact I | contradiction]|].
      split; [destruct o; cbn [ret_err]; [right; left; reflexivity | left; reflexivity | left; reflexivity]|].
      split; [destruct o; cbn [ret_n]; lia|]. intros E. rewrite E in He. discriminate.
    + destruct o as [data|mode|sc rs]; cbn [mstep astep]; [| |contradiction].
      * (* Write *)
        unfold mwrite. rewrite He.
        pose proof (mwrite_loop_spec data st (am_done a) (am_buf a) 0 HH) as Hw.
        destruct (mwrite_loop data st 0) as [ret st'].
        destruct Hw as (l' & Hc & Hnb & Hin' & Hout & Hret).
        exists l'.
        assert (Hnb' : m_nblocks st' = Z.of_nat (n_ok (l ++ l'))) by (rewrite n_ok_app; lia).
        destruct ret as [n' [e|]| | |]; try contradiction.
        -- destruct e; try contradiction.
           destruct Hret as (Hn' & He' & (l1 & k & El & Hl1) & _ & Hp).
           split.
           { split; [eapply calls_app; eassumption|]. split; [exact Hout|]. split; [exact Hnb'|].
             split; [apply AInv_awrite; exact HA|].
             right. exists tag, (l ++ l1), k. split; [exact He'|].
             split; [rewrite El, app_assoc; reflexivity|].
             split; [apply Forall_app; split; assumption|].
             unfold awrite, am_out. rewrite Hf. cbn [am_done am_buf am_fin]. rewrite app_nil_r. exact Hp. }
           split; [exact Hc|]. split; [discriminate|]. split; [exact I|].
           split; [right; right; exists tag; reflexivity|]. split; [exact Hin'|].
           intros _. right. exists l1, k, tag. split; [exact El|]. split; [exact Hl1|].
           split; [reflexivity | exact He'].
        -- destruct Hret as (Hn' & Hl' & HO').
           split.
           { split; [eapply calls_app; eassumption|]. split; [exact Hout|]. split; [exact Hnb'|].
             split; [apply AInv_awrite; exact HA|].
             left. split; [|apply Forall_app; split; assumption].
             unfold Healthy, awrite. rewrite Hf. cbn [am_done am_buf am_fin am_in].
             split; [|exact HO']. cbn [ret_n] in Hin'. rewrite Hin', Hin, Hn'. reflexivity. }
           split; [exact Hc|]. split; [discriminate|]. split; [exact I|]. split; [left; reflexivity|].
           split; [exact Hin'|].
           intros _. left. split; [exact Hl'|]. split; [reflexivity|]. left.
           destruct HO' as (He' & _). exact He'.
      * (* Close *)
        unfold mclose. rewrite He.
        pose proof (mencode_open st (am_done a) (am_buf a) mode HH) as Hm.
        destruct (mencode st mode) as [e st1]. destruct Hm as (Hin1 & He1 & Hout1 & Hm).
        destruct e as [e|].
        -- destruct e; try contradiction. destruct Hm as (k & Hc1 & Hd1 & Hn1 & Hb1 & HC1).
           exists [SFail k tag].
           split.
           { unfold set_err. split; [eapply calls_app; eassumption|]. split; [exact Hout1|].
             split; [mprj; rewrite Hn1, n_ok_fail by exact Hacc;
                     destruct HH as (_ & _ & _ & Hn & _); rewrite <- Hn, Hnb0, n_ok_accepts by exact Hacc;
                     reflexivity|].
             split; [apply AInv_aclose; exact HA|].
             right. exists tag, l, k. mprj. split; [reflexivity|]. split; [reflexivity|].
             split; [exact Hacc|].
             rewrite Hd1. unfold aclose, am_out. rewrite Hf. cbn [am_done am_buf am_fin].
             rewrite <- (app_nil_r (blocks_out (am_done a) ++ block_bytes (am_buf a) mode)).
             apply prefix_firstn_app. }
           unfold set_err. mprj.
           split; [exact Hc1|]. split; [discriminate|]. split; [exact I|].
           split; [right; right; exists tag; reflexivity|]. split; [cbn [ret_n]; lia|].
           intros _. right. exists [], k, tag. split; [reflexivity|]. split; [constructor|].
           split; reflexivity.
        -- destruct Hm as (Hc1 & Hd1 & Hn1 & Hb1 & Hcn1 & H01 & H11).
           exists [SAccept].
           split.
           { unfold set_err. split; [eapply calls_app; eassumption|]. split; [exact Hout1|].
             split.
             { mprj. rewrite Hn1, n_ok_app. change (n_ok [SAccept]) with 1%nat.
               destruct HH as (_ & _ & _ & Hn & _). rewrite Hn in Hnb0. lia. }
             split; [apply AInv_aclose; exact HA|].
             left. split; [|apply Forall_app; split; [exact Hacc | constructor; [reflexivity | constructor]]].
             unfold Healthy, aclose. rewrite Hf. cbn [am_done am_buf am_fin am_in]. mprj.
             split; [lia|]. unfold Closed, OutOk. mprj.
             split; [reflexivity|]. split; [exact Hd1|]. split; [exact Hout1|]. split; [exact Hn1|].
             split; [destruct HH as (_ & _ & _ & _ & Hfd & _); exact Hfd | exact (Open_fits _ _ _ HH)]. }
           unfold set_err. mprj.
           split; [exact Hc1|]. split; [discriminate|]. split; [exact I|]. split; [left; reflexivity|].
           split; [cbn [ret_n]; lia|].
           intros _. left. split; [constructor; [reflexivity | constructor]|].
           split; [reflexivity|]. right. reflexivity.
  - (* the latch is set *)
    assert (Hne : ESrc t <> EClosed) by discriminate.
    rewrite (mstep_latched st o (ESrc t) He Hne Ho). exists []. rewrite app_nil_r.
    split.
    { split; [exact Hc0|]. split; [exact Hout0|]. split; [exact Hnb0|].
      split; [apply AInv_astep; exact HA|].
      right. exists t, l1, k. split; [exact He|]. split; [exact El|]. split; [exact Hl1|].
      eapply prefix_of_trans; [exact Hp | apply astep_mono; exact Ho]. }
    split; [apply calls_nil|]. split; [destruct o; discriminate|]. split; [destruct o; first [exact I | contradiction]|].
    split; [right; right; exists t; destruct o; reflexivity|].
    split; [destruct o; cbn [ret_n]; lia|]. intros E. rewrite E in He. discriminate.
Qed.

(* ------------------------------------------------------------------------- *)
(* (6) NewWriter, Reset, whole histories                                       *)
(* ------------------------------------------------------------------------- *)
Lemma MReach_reset st script rest :
  MReach (new_sink script rest) (mreset st (new_sink script rest)) anew [].
Proof.
  unfold MReach, mreset, OutOk. mprj.
  split; [apply calls_nil|]. split; [reflexivity|]. split; [reflexivity|]. split; [apply AInv_new|].
  left. split; [|constructor]. unfold Healthy. cbn [anew am_fin am_in am_done am_buf]. mprj.
  split; [reflexivity|]. unfold Open, OutOk, CntOk. mprj.
  split; [reflexivity|]. split; [reflexivity|]. split; [reflexivity|]. split; [reflexivity|].
  split; [constructor|]. split; [reflexivity|]. split; [reflexivity|].
  split; [reflexivity|]. split; [reflexivity|]. apply buf_fits_nil.
Qed.

Lemma MReach_new script rest : MReach (new_sink script rest) (mnew (new_sink script rest)) anew [].
Proof. apply MReach_reset. Qed.

(* the sink in use after an operation / a history *)
Definition sink_after (s0 : wsink) (o : mop) : wsink :=
  match o with MReset sc rs => new_sink sc rs | _ => s0 end.
Definition last_sink (s0 : wsink) (ops : list mop) : wsink := fold_left sink_after ops s0.

(* every state of every history *)
Definition Reach (st : mtw) : Prop := exists s0 a l, MReach s0 st a l.

Lemma mstep_Reach s0 st a l o : MReach s0 st a l ->
  let '(ret, st') := mstep st o in
  (exists l', MReach (sink_after s0 o) st' (astep a o) l') /\
  ret <> MRPanic /\ err_kind (ret_err ret) /\
  m_in st' = (match o with MReset _ _ => 0 | _ => m_in st + Z.of_nat (ret_n ret) end)%Z.
Proof.
  intros HR. destruct o as [data|mode|sc rs].
  - pose proof (mstep_reach s0 st a l (MWrite data) HR I) as H.
    destruct (mstep st (MWrite data)) as [ret st']. destruct H as (l' & H1 & _ & H3 & _ & H4 & H5 & _).
    split; [eexists; exact H1|]. split; [exact H3|]. split; assumption.
  - pose proof (mstep_reach s0 st a l (MClose mode) HR I) as H.
    destruct (mstep st (MClose mode)) as [ret st']. destruct H as (l' & H1 & _ & H3 & _ & H4 & H5 & _).
    split; [eexists; exact H1|]. split; [exact H3|]. split; assumption.
  - cbn [mstep sink_after astep]. split; [exists []; apply MReach_reset|].
    split; [discriminate|]. split; [left; reflexivity | reflexivity].
Qed.

(* what every observation shows; s0 = the sink in use *)
Definition ObsOk (s0 : wsink) (ob : mobs) : Prop :=
  mo_ret ob <> MRPanic /\ err_kind (ret_err (mo_ret ob)) /\
  mo_out ob = Z.of_nat (length (wsink_data (mo_sink ob))) /\
  exists l, calls s0 l (mo_sink ob) /\ mo_nblocks ob = Z.of_nat (n_ok l) /\
    (Forall beh_accepts l \/ exists l1 k t, l = l1 ++ [SFail k t] /\ Forall beh_accepts l1).

(* along a history: s0 the sink in use, z0 InputOffset before the call *)
Fixpoint obs_ok (s0 : wsink) (z0 : Z) (ops : list mop) (obs : list mobs) : Prop :=
  match ops, obs with
  | o :: ops', ob :: obs' =>
    ObsOk (sink_after s0 o) ob /\
    mo_in ob = (match o with MReset _ _ => 0 | _ => z0 + Z.of_nat (ret_n (mo_ret ob)) end)%Z /\
    obs_ok (sink_after s0 o) (mo_in ob) ops' obs'
  | _, _ => True
  end.

Lemma MReach_ObsOk s0 st a l ret : MReach s0 st a l -> ret <> MRPanic -> err_kind (ret_err ret) ->
  ObsOk s0 (mobserve ret st).
Proof.
  intros (Hc & Hout & Hnb & _ & HR) Hr Hk. unfold ObsOk, mobserve. cbn [mo_ret mo_out mo_sink mo_nblocks].
  split; [exact Hr|]. split; [exact Hk|]. split; [exact Hout|].
  exists l. split; [exact Hc|]. split; [exact Hnb|].
  destruct HR as [(_ & Hacc) | (t & l1 & k & _ & El & Hl1 & _)]; [left; exact Hacc|].
  right. exists l1, k, t. split; assumption.
Qed.

(* THEOREM 0 / 5 (every history, every sink script, Resets included): no call ends in a
   run-time panic, the only errors returned are the sink's and errClosed (never "block too
   large"); after EVERY call OutputOffset is the number of bytes the sink in use has accepted,
   NumBlocks the number of its calls that succeeded, InputOffset the sum of the counts Write
   returned since the last Reset; no sink call follows a failed one *)
Theorem mrun_offsets ops : forall s0 st a l, MReach s0 st a l ->
  let '(obs, st') := mrun st ops in
  length obs = length ops /\
  (exists l', MReach (last_sink s0 ops) st' (arun a ops) l') /\
  obs_ok s0 (m_in st) ops obs.
Proof.
  induction ops as [|o ops IH]; intros s0 st a l HR; cbn [mrun].
  - split; [reflexivity|]. split; [exists l; exact HR | exact I].
  - pose proof (mstep_Reach s0 st a l o HR) as H.
    destruct (mstep st o) as [ret st1]. destruct H as ((l1 & H1) & H2 & H3 & H4).
    pose proof (IH _ _ _ _ H1) as IH1. destruct (mrun st1 ops) as [obs st2].
    destruct IH1 as (I1 & I2 & I3).
    assert (G : let '(obs0, st'') := (mobserve ret st1 :: obs, st2) in
             length obs0 = length (o :: ops) /\
             (exists l', MReach (last_sink s0 (o :: ops)) st'' (arun a (o :: ops)) l') /\
             obs_ok s0 (m_in st) (o :: ops) obs0).
    { split; [cbn [length]; lia|]. split; [exact I2|].
      cbn [obs_ok]. split; [eapply MReach_ObsOk; eassumption|].
      split; [exact H4 | exact I3]. }
    destruct ret; try exact G. exfalso. apply H2. reflexivity.
Qed.

Corollary mrun_new_offsets script rest ops :
  let obs := mrun_new script rest ops in
  length obs = length ops /\ obs_ok (new_sink script rest) 0 ops obs.
Proof.
  unfold mrun_new. pose proof (mrun_offsets ops _ _ _ _ (MReach_new script rest)) as H.
  destruct (mrun (mnew (new_sink script rest)) ops) as [obs st']. cbn [fst].
  destruct H as (H1 & _ & H3). split; assumption.
Qed.

(* (0) spelled out: an observation for every call, none is a run-time panic, the errors are
   the sink's or errClosed *)
Lemma obs_ok_forall ops : forall s0 z obs, length obs = length ops -> obs_ok s0 z ops obs ->
  Forall (fun ob => mo_ret ob <> MRPanic /\ err_kind (ret_err (mo_ret ob)) /\
                    mo_out ob = Z.of_nat (length (wsink_data (mo_sink ob)))) obs.
Proof.
  induction ops as [|o ops IH]; intros s0 z obs Hl H; destruct obs as [|ob obs]; try discriminate Hl;
    [constructor|].
  cbn [obs_ok] in H. destruct H as ((H1 & H2 & H3 & _) & _ & H4).
  constructor; [split; [exact H1|]; split; assumption|].
  eapply IH; [cbn [length] in Hl; lia | exact H4].
Qed.

Corollary no_panic_no_invalid script rest ops :
  let obs := mrun_new script rest ops in
  length obs = length ops /\
  Forall (fun ob => mo_ret ob <> MRPanic /\ err_kind (ret_err (mo_ret ob)) /\
                    mo_out ob = Z.of_nat (length (wsink_data (mo_sink ob)))) obs.
Proof.
  cbv zeta. destruct (mrun_new_offsets script rest ops) as (H1 & H2). split; [exact H1|].
  eapply obs_ok_forall; eassumption.
Qed.

Lemma mrun_reach ops s0 st a l : MReach s0 st a l ->
  exists l', MReach (last_sink s0 ops) (snd (mrun st ops)) (arun a ops) l'.
Proof.
  intros HR. pose proof (mrun_offsets ops _ _ _ _ HR) as H.
  destruct (mrun st ops) as [obs st']. destruct H as (_ & H & _). exact H.
Qed.

Lemma Reach_new script rest : Reach (mnew (new_sink script rest)).
Proof. eexists _, _, _. apply MReach_new. Qed.

Lemma Reach_mrun st ops : Reach st -> Reach (snd (mrun st ops)).
Proof.
  intros (s0 & a & l & HR). destruct (mrun_reach ops _ _ _ _ HR) as (l' & H). eexists _, _, _. exact H.
Qed.

(* no run-time panic, and histories compose *)
Lemma mrun_app x : forall st y, Reach st ->
  mrun st (x ++ y) =
  (fst (mrun st x) ++ fst (mrun (snd (mrun st x)) y), snd (mrun (snd (mrun st x)) y)).
Proof.
  induction x as [|o x IH]; intros st y HR; cbn [app mrun].
  - cbn [fst snd app]. destruct (mrun st y); reflexivity.
  - destruct HR as (s0 & a & l & HR). pose proof (mstep_Reach s0 st a l o HR) as H.
    destruct (mstep st o) as [ret st1]. destruct H as ((l1 & H1) & H2 & _).
    assert (HR1 : Reach st1) by (eexists _, _, _; exact H1).
    specialize (IH st1 y HR1).
    destruct ret; try (exfalso; apply H2; reflexivity);
      rewrite IH; destruct (mrun st1 x) as [o1 s1]; cbn [fst snd];
      destruct (mrun s1 y) as [o2 s2]; reflexivity.
Qed.

(* ------------------------------------------------------------------------- *)
(* (7) the latch is set by the call that fails; the sink's error is reported   *)
(* ------------------------------------------------------------------------- *)
(* THEOREM 1b: a call that returns an error other than errClosed sets the latch to that
   error (so, by mstep_latched / latched_history, every later Write / Close returns it, no
   sink call is made, no field changes, until Reset) *)
Theorem error_sets_latch st o e : Reach st -> no_reset o ->
  ret_err (fst (mstep st o)) = Some e -> e <> EClosed -> m_err (snd (mstep st o)) = Some e.
Proof.
  intros (s0 & a & l & HR) Ho He Hne.
  destruct (m_err st) as [e0|] eqn:E0.
  - destruct (err_eqb e0 EClosed) eqn:Ec.
    + apply err_eqb_eq in Ec. subst e0. rewrite (mstep_closed st o E0 Ho) in *.
      cbn [fst snd] in *. destruct o; cbn [ret_err] in He; try discriminate.
      injection He as <-. contradiction.
    + assert (Hn0 : e0 <> EClosed) by (intros ->; cbn in Ec; discriminate).
      rewrite (mstep_latched st o e0 E0 Hn0 Ho) in *. cbn [fst snd] in *.
      destruct o; cbn [ret_err] in He; try contradiction; rewrite <- He; exact E0.
  - pose proof (mstep_reach s0 st a l o HR Ho) as H.
    destruct (mstep st o) as [ret st']. destruct H as (l' & _ & _ & _ & _ & _ & _ & Hrep).
    cbn [fst snd] in *. destruct (Hrep E0) as [(_ & Hr & _) | (l1 & k & t & _ & _ & Hr & Hz)].
    + rewrite Hr in He. discriminate.
    + rewrite Hr in He. injection He as <-. exact Hz.
Qed.

(* the latch only ever holds the sink's error or errClosed *)
Theorem latch_kinds st : Reach st -> err_kind (m_err st).
Proof.
  intros (s0 & a & l & (_ & _ & _ & _ & HR)).
  destruct HR as [(HH & _) | (t & l1 & k & He & _)].
  - rewrite (Healthy_err st a HH). destruct (am_fin a); [right; left | left]; reflexivity.
  - right. right. exists t. exact He.
Qed.

(* THEOREM 2: from a state whose latch is clear, the call during which the sink call fails
   returns that call's error, NO further sink call is made (the failed call is the last of
   the calls made) and the latch is set; a call whose sink calls all succeed returns nil *)
Theorem sink_error_reported st o : Reach st -> no_reset o -> m_err st = None ->
  exists l', calls (m_sink st) l' (m_sink (snd (mstep st o))) /\
             StepRep (fst (mstep st o)) (snd (mstep st o)) l' /\
             m_in (snd (mstep st o)) = (m_in st + Z.of_nat (ret_n (fst (mstep st o))))%Z.
Proof.
  intros (s0 & a & l & HR) Ho E0.
  pose proof (mstep_reach s0 st a l o HR Ho) as H.
  destruct (mstep st o) as [ret st']. destruct H as (l' & _ & Hc & _ & _ & _ & Hin & Hrep).
  exists l'. split; [exact Hc|]. split; [exact (Hrep E0) | exact Hin].
Qed.

Lemma MReach_open s0 st a l : MReach s0 st a l -> m_err st = None ->
  am_fin a = None /\ m_in st = am_in a /\ Open st (am_done a) (am_buf a) /\ Forall beh_accepts l.
Proof.
  intros (_ & _ & _ & _ & HR) E0. destruct HR as [(HH & Hacc) | (t & l1 & k & He & _)].
  - pose proof (Healthy_err st a HH) as He. destruct HH as (Hin & HH).
    destruct (am_fin a); [rewrite E0 in He; discriminate|].
    split; [reflexivity|]. split; [exact Hin|]. split; [exact HH | exact Hacc].
  - rewrite E0 in He. discriminate.
Qed.

(* the failing Write, exactly: it returns the number n of bytes stored before the block that
   could not be written; the buffer still holds that block's contents (the abstract buffer
   after the first n bytes), byte n is the one that did not fit, and the sink holds the
   earlier blocks and the accepted part of that block *)
Theorem write_failure_point s0 st a l data n t st' : MReach s0 st a l -> m_err st = None ->
  mstep st (MWrite data) = (MRWrite n (Some (ESrc t)), st') ->
  (n < length data)%nat /\ m_in st' = (m_in st + Z.of_nat n)%Z /\ m_err st' = Some (ESrc t) /\
  let a1 := awrite a (firstn n data) in
  m_buf st' = am_buf a1 /\ fits_with (am_buf a1) (nth n data 0) = false /\
  exists kk, wsink_data (m_sink st') = am_out a1 ++ firstn kk (block_bytes (am_buf a1) FinalNil).
Proof.
  intros HR E0 Hs. destruct (MReach_open _ _ _ _ HR E0) as (Hf & Hin & HO & _).
  cbn [mstep] in Hs. unfold mwrite in Hs. rewrite E0 in Hs.
  pose proof (mwrite_loop_spec data st (am_done a) (am_buf a) 0 HO) as Hw.
  rewrite Hs in Hw. destruct Hw as (l' & _ & _ & Hin' & _ & Hret).
  destruct Hret as (Hn' & He' & _ & (done1 & kk & Hw & Hnf & Hsk) & _).
  rewrite Nat.sub_0_r in Hw, Hnf.
  split; [lia|]. split; [exact Hin'|]. split; [exact He'|].
  cbv zeta. unfold awrite, am_out. rewrite Hf. cbn [am_done am_buf am_fin]. rewrite Hw. cbn [fst snd].
  rewrite app_nil_r. split; [reflexivity|]. split; [exact Hnf|]. exists kk. exact Hsk.
Qed.

(* ------------------------------------------------------------------------- *)
(* (8) Close returns nil only by closing; what the sink then holds             *)
(* ------------------------------------------------------------------------- *)
(* structure: the stream is the concatenation of the blocks of Meta/Model.v *)
Lemma encode_blocks_out done : forall buf mode, Forall buf_fits done -> buf_fits buf ->
  encode_blocks (done ++ [buf]) mode = Some (blocks_out done ++ block_bytes buf mode).
Proof.
  induction done as [|b r IH]; intros buf mode Hd Hb.
  - cbn [app encode_blocks blocks_out map concat]. apply block_bytes_is_encode_block. exact Hb.
  - inversion Hd as [|b' r' Hfb Hfr]; subst. cbn [app].
    change (encode_blocks (b :: r ++ [buf]) mode) with
      (match r ++ [buf] with
       | [] => encode_block b mode
       | _ :: _ => match encode_block b FinalNil, encode_blocks (r ++ [buf]) mode with
                   | Some x, Some y => Some (x ++ y)
                   | _, _ => None
                   end
       end).
    destruct (r ++ [buf]) as [|c q] eqn:E; [destruct r; discriminate|].
    rewrite <- E, (IH buf mode Hfr Hb), (block_bytes_is_encode_block b FinalNil Hfb).
    unfold blocks_out. cbn [map concat]. rewrite app_assoc. reflexivity.
Qed.

Lemma AInv_blocks a : AInv a -> writer_blocks (am_payload a) [] = am_done a ++ [am_buf a].
Proof.
  intros HA. rewrite <- meta_writer_blocks_eq. unfold AInv in HA. rewrite HA. reflexivity.
Qed.

(* THEOREM 3 (state level). Close from a state whose latch is clear returns nil only if no
   sink call has failed since the last Reset / NewWriter (all of l and the calls of this
   Close were accepted); the Writer is then closed and the sink holds exactly
   meta_encode payload mode, payload = everything Write accepted since then *)
Theorem close_nil_output s0 st a l mode : MReach s0 st a l -> m_err st = None ->
  fst (mstep st (MClose mode)) = MRClose None ->
  let st' := snd (mstep st (MClose mode)) in
  m_err st' = Some EClosed /\ m_in st' = am_in a /\
  meta_encode (am_payload a) mode = Some (wsink_data (m_sink st')) /\
  m_nblocks st' = Z.of_nat (length (writer_blocks (am_payload a) [])) /\
  exists l', calls s0 (l ++ l') (m_sink st') /\ Forall beh_accepts (l ++ l').
Proof.
  intros HR E0 Hret. destruct (MReach_open _ _ _ _ HR E0) as (Hf & Hin & HO & Hacc).
  pose proof (mstep_reach s0 st a l (MClose mode) HR I) as H.
  destruct (mstep st (MClose mode)) as [ret st']. cbn [fst snd] in *. subst ret.
  destruct H as (l' & HR' & _ & _ & _ & _ & Hin' & Hrep). cbn [ret_n] in Hin'.
  destruct (Hrep E0) as [(Hl' & _ & Herr) | (l1 & k & t & _ & _ & Hr & _)]; [|discriminate Hr].
  destruct HR' as (Hc' & _ & _ & HA' & HR').
  destruct HR' as [(HH' & Hacc') | (t & l1 & k & He' & _)];
    [|rewrite He' in Herr; destruct Herr; discriminate].
  cbn [astep] in HH', HA'. unfold aclose in HH', HA'. rewrite Hf in HH', HA'.
  destruct HH' as (_ & HCl). cbn [am_fin am_done am_buf] in HCl.
  destruct HCl as (He' & Hd' & _ & Hn' & Hfd & Hfb).
  split; [exact He'|]. split; [lia|].
  pose proof (AInv_blocks _ HA') as Hb. unfold am_payload in Hb. cbn [am_done am_buf] in Hb.
  fold (am_payload a) in Hb.
  split; [unfold meta_encode; rewrite Hb, Hd'; apply encode_blocks_out; assumption|].
  split; [rewrite Hb, app_length, Hn'; cbn [length]; f_equal; lia|].
  exists l'. split; assumption.
Qed.

(* Close returns nil only by closing (or on a closed Writer) *)
Theorem close_nil_closes st mode : Reach st ->
  fst (mstep st (MClose mode)) = MRClose None -> m_err (snd (mstep st (MClose mode))) = Some EClosed.
Proof.
  intros (s0 & a & l & HR) Hret.
  destruct (m_err st) as [e0|] eqn:E0.
  - destruct (err_eqb e0 EClosed) eqn:Ec.
    + apply err_eqb_eq in Ec. subst e0. rewrite (mstep_closed st (MClose mode) E0 I). exact E0.
    + assert (Hn0 : e0 <> EClosed) by (intros ->; cbn in Ec; discriminate).
      rewrite (mstep_latched st (MClose mode) e0 E0 Hn0 I) in Hret. discriminate.
  - apply (close_nil_output s0 st a l mode HR E0 Hret).
Qed.

(* ------------------------------------------------------------------------- *)
(* (9) what the sink holds: the fault-free output and its prefixes             *)
(* ------------------------------------------------------------------------- *)
(* the same history over sinks that never fail *)
Definition ff_op (o : mop) : mop := match o with MReset _ _ => MReset [] SAccept | _ => o end.

Lemma arun_app a x y : arun a (x ++ y) = arun (arun a x) y.
Proof. unfold arun. apply fold_left_app. Qed.

Lemma arun_ff ops : forall a, arun a (map ff_op ops) = arun a ops.
Proof.
  unfold arun. induction ops as [|o ops IH]; intros a; cbn [map fold_left]; [reflexivity|].
  rewrite IH. destruct o; reflexivity.
Qed.

Lemma last_sink_ff ops : forall s0, SFF s0 -> SFF (last_sink s0 (map ff_op ops)).
Proof.
  unfold last_sink. induction ops as [|o ops IH]; intros s0 H; cbn [map fold_left]; [exact H|].
  apply IH. destruct o; cbn [ff_op sink_after]; [exact H | exact H | apply SFF_new].
Qed.

Lemma last_sink_noreset ops : forall s0, Forall no_reset ops -> last_sink s0 ops = s0.
Proof.
  unfold last_sink. induction ops as [|o ops IH]; intros s0 Hno; cbn [fold_left]; [reflexivity|].
  inversion Hno as [|o' ops' Ho Hno']; subst. destruct o; cbn [sink_after]; try (apply IH; exact Hno').
  contradiction.
Qed.

(* over a sink that never fails nothing fails *)
Lemma MReach_ff s0 st a l : MReach s0 st a l -> SFF s0 -> Healthy st a.
Proof.
  intros (Hc & _ & _ & _ & HR) Hff. destruct HR as [(HH & _) | (t & l1 & k & _ & El & _)]; [exact HH|].
  destruct (calls_ff _ _ _ Hc Hff) as [_ Hacc]. subst l. apply Forall_app in Hacc as [_ Hacc].
  inversion Hacc as [|b r Hb Hr]; subst. discriminate Hb.
Qed.

(* the output of a history over sinks that never fail is the abstract output *)
Theorem faultfree_output ops :
  wsink_data (m_sink (snd (mrun (mnew (new_sink [] SAccept)) (map ff_op ops)))) = am_out (arun anew ops).
Proof.
  destruct (mrun_reach (map ff_op ops) _ _ _ _ (MReach_new [] SAccept)) as (l' & HR).
  rewrite arun_ff in HR. apply Healthy_sink. eapply MReach_ff; [exact HR|].
  apply last_sink_ff. apply SFF_new.
Qed.

(* THEOREM 4. For every history (Resets included) and every sink script, with [good] the
   output of the same history over sinks that never fail: the WHOLE contents of the sink in
   use are a prefix of [good] at every moment; they are equal to [good] as long as no sink
   call has failed; once one has failed (the latch holds its error #t) it was the LAST call
   made on that sink *)
Theorem prefix_always script rest ops :
  let s0 := new_sink script rest in
  let st' := snd (mrun (mnew s0) ops) in
  let good := wsink_data (m_sink (snd (mrun (mnew (new_sink [] SAccept)) (map ff_op ops)))) in
  prefix_of (wsink_data (m_sink st')) good /\
  (m_err st' = None \/ m_err st' = Some EClosed ->
     wsink_data (m_sink st') = good /\
     exists l, calls (last_sink s0 ops) l (m_sink st') /\ Forall beh_accepts l) /\
  (forall t, m_err st' = Some (ESrc t) ->
     exists l1 k, calls (last_sink s0 ops) (l1 ++ [SFail k t]) (m_sink st') /\ Forall beh_accepts l1).
Proof.
  cbv zeta. rewrite faultfree_output.
  destruct (mrun_reach ops _ _ _ _ (MReach_new script rest)) as (l' & Hc & _ & _ & _ & HR).
  destruct HR as [(HH & Hacc) | (t & l1 & k & He & El & Hl1 & Hp)].
  - pose proof (Healthy_err _ _ HH) as He. split; [rewrite (Healthy_sink _ _ HH); apply prefix_of_refl|].
    split.
    + intros _. split; [apply (Healthy_sink _ _ HH)|]. exists l'. split; assumption.
    + intros t Ht. rewrite Ht in He. destruct (am_fin _); discriminate.
  - split; [exact Hp|]. split.
    + intros [E|E]; rewrite E in He; discriminate.
    + intros t' Ht. rewrite Ht in He. injection He as <-. exists l1, k. subst l'. split; assumption.
Qed.

(* ... and every extension of the history (up to the next Reset) keeps it a prefix of the
   fault-free output *)
Theorem prefix_extension script rest ops more : Forall no_reset more ->
  prefix_of (wsink_data (m_sink (snd (mrun (mnew (new_sink script rest)) ops))))
            (wsink_data (m_sink (snd (mrun (mnew (new_sink [] SAccept)) (map ff_op (ops ++ more)))))).
Proof.
  intros Hno. destruct (prefix_always script rest ops) as (Hp & _). cbv zeta in Hp.
  rewrite faultfree_output in *. rewrite arun_app.
  eapply prefix_of_trans; [exact Hp | apply arun_mono; exact Hno].
Qed.

(* the sink in use only grows *)
Theorem sink_only_grows ops : forall st, Reach st -> Forall no_reset ops ->
  prefix_of (wsink_data (m_sink st)) (wsink_data (m_sink (snd (mrun st ops)))).
Proof.
  induction ops as [|o ops IH]; intros st HR Hno; cbn [mrun]; [apply prefix_of_refl|].
  inversion Hno as [|o' ops' Ho Hno']; subst.
  destruct HR as (s0 & a & l & HR). pose proof (mstep_reach s0 st a l o HR Ho) as H.
  destruct (mstep st o) as [ret st1]. destruct H as (l' & HR1 & Hc & Hnp & _).
  assert (HR1' : Reach st1) by (eexists _, _, _; exact HR1).
  specialize (IH st1 HR1' Hno').
  assert (G : prefix_of (wsink_data (m_sink st)) (wsink_data (m_sink (snd (mrun st1 ops))))).
  { eapply prefix_of_trans; [eapply calls_data; exact Hc | exact IH]. }
  destruct ret; try (destruct (mrun st1 ops); exact G). exfalso. apply Hnp. reflexivity.
Qed.

(* ------------------------------------------------------------------------- *)
(* (10) Write ... Write, Close                                                 *)
(* ------------------------------------------------------------------------- *)
Lemma arun_writes ds : forall a, am_fin a = None ->
  am_fin (arun a (map MWrite ds)) = None /\
  am_payload (arun a (map MWrite ds)) = am_payload a ++ concat ds /\
  am_in (arun a (map MWrite ds)) = (am_in a + Z.of_nat (length (concat ds)))%Z.
Proof.
  unfold arun. induction ds as [|d ds IH]; intros a Hf; cbn [map fold_left concat].
  - split; [exact Hf|]. split; [rewrite app_nil_r; reflexivity | cbn [length]; lia].
  - cbn [astep].
    assert (Hf1 : am_fin (awrite a d) = None) by (unfold awrite; rewrite Hf; reflexivity).
    destruct (IH _ Hf1) as (I1 & I2 & I3). split; [exact I1|].
    split; [rewrite I2, (awrite_payload a d Hf), <- app_assoc; reflexivity|].
    rewrite I3, app_length. unfold awrite. rewrite Hf. cbn [am_in]. lia.
Qed.

Lemma arun_closed tail : forall a m, am_fin a = Some m -> Forall no_reset tail -> arun a tail = a.
Proof.
  unfold arun. induction tail as [|o tail IH]; intros a m Hf Hno; cbn [fold_left]; [reflexivity|].
  inversion Hno as [|o' t' Ho Hno']; subst. rewrite (astep_closed a o m Hf Ho). eapply IH; eassumption.
Qed.

Lemma no_reset_writes ds : Forall no_reset (map MWrite ds).
Proof. apply Forall_forall. intros o Ho. apply in_map_iff in Ho as (d & <- & _). exact I. Qed.

(* THEOREM 3 (history level), from ANY state a history reaches with the latch clear (abstract
   Writer a, nothing failed so far): Write(d1) ... Write(dn), Close(mode), then any calls. If
   the Writer ends up closed (exactly when that Close returned nil: close_nil_closes) then no
   sink call ever failed and the sink holds exactly
   meta_encode (everything accepted before ++ d1 ++ ... ++ dn) mode *)
Theorem closed_stream_from s0 st a l ds mode tail :
  MReach s0 st a l -> m_err st = None -> Forall no_reset tail ->
  let st' := snd (mrun st (map MWrite ds ++ MClose mode :: tail)) in
  m_err st' = Some EClosed ->
  meta_encode (am_payload a ++ concat ds) mode = Some (wsink_data (m_sink st')) /\
  m_in st' = (m_in st + Z.of_nat (length (concat ds)))%Z /\
  m_nblocks st' = Z.of_nat (length (writer_blocks (am_payload a ++ concat ds) [])) /\
  exists l', calls s0 l' (m_sink st') /\ Forall beh_accepts l'.
Proof.
  intros HR E0 Hno. cbv zeta. intros He.
  destruct (MReach_open _ _ _ _ HR E0) as (Hf & Hin & _ & _).
  assert (Hno' : Forall no_reset (map MWrite ds ++ MClose mode :: tail)).
  { apply Forall_app. split; [apply no_reset_writes | constructor; [exact I | exact Hno]]. }
  destruct (mrun_reach (map MWrite ds ++ MClose mode :: tail) _ _ _ _ HR) as (l' & HR').
  rewrite (last_sink_noreset _ _ Hno') in HR'. rewrite arun_app in HR'.
  destruct (arun_writes ds a Hf) as (Hf2 & Hp2 & Hin2).
  set (a2 := arun a (map MWrite ds)) in *.
  change (arun a2 (MClose mode :: tail)) with (arun (aclose a2 mode) tail) in HR'.
  assert (Hf3 : am_fin (aclose a2 mode) = Some mode) by (unfold aclose; rewrite Hf2; reflexivity).
  rewrite (arun_closed tail _ mode Hf3 Hno) in HR'.
  destruct HR' as (Hc' & _ & _ & HA' & HR').
  destruct HR' as [(HH' & Hacc') | (t & l1 & k & He' & _)]; [|rewrite He' in He; discriminate].
  destruct HH' as (Hin' & HCl). rewrite Hf3 in HCl.
  unfold aclose in HCl, Hin', HA'. rewrite Hf2 in HCl, Hin', HA'. cbn [am_done am_buf am_in] in HCl, Hin'.
  destruct HCl as (_ & Hd' & _ & Hn' & Hfd & Hfb).
  pose proof (AInv_blocks _ HA') as Hb. unfold am_payload in Hb. cbn [am_done am_buf] in Hb.
  fold (am_payload a2) in Hb. rewrite Hp2 in Hb.
  split; [unfold meta_encode; rewrite Hb, Hd'; apply encode_blocks_out; assumption|].
  split; [lia|].
  split; [rewrite Hb, app_length, Hn'; cbn [length]; f_equal; lia|].
  exists l'. split; assumption.
Qed.

(* ... and every one of those Writes returned (len(d), nil) *)
Theorem writes_before_close_full ds : forall s0 st a l rest,
  MReach s0 st a l -> m_err st = None -> Forall no_reset rest ->
  m_err (snd (mrun st (map MWrite ds ++ rest))) = Some EClosed ->
  map mo_ret (firstn (length ds) (fst (mrun st (map MWrite ds ++ rest)))) =
  map (fun d => MRWrite (length d) None) ds.
Proof.
  induction ds as [|d ds IH]; intros s0 st a l rest HR E0 Hno He; [reflexivity|].
  destruct (MReach_open _ _ _ _ HR E0) as (Hf & Hin & _ & _).
  cbn [map app mrun length] in *.
  pose proof (mstep_reach s0 st a l (MWrite d) HR I) as H.
  destruct (mstep st (MWrite d)) as [ret st1].
  destruct H as (l' & HR1 & _ & Hnp & Hsh & _ & Hin1 & Hrep).
  assert (Hno' : Forall no_reset (map MWrite ds ++ rest)).
  { apply Forall_app. split; [apply no_reset_writes | exact Hno]. }
  destruct ret as [n e| | |]; try contradiction.
  destruct (mrun st1 (map MWrite ds ++ rest)) as [obs st2] eqn:E. cbn [fst snd] in *.
  destruct (Hrep E0) as [(_ & Hr & Herr) | (l1 & k & t & _ & _ & _ & Hz)].
  - cbn [ret_err] in Hr. subst e. cbn [astep] in HR1.
    assert (Hf1 : am_fin (awrite a d) = None) by (unfold awrite; rewrite Hf; reflexivity).
    assert (E1 : m_err st1 = None).
    { destruct HR1 as (_ & _ & _ & _ & [(HH & _) | (t & l1 & k & Hz & _)]).
      - rewrite (Healthy_err _ _ HH), Hf1. reflexivity.
      - rewrite Hz in Herr. destruct Herr; discriminate. }
    destruct (MReach_open _ _ _ _ HR1 E1) as (_ & Hin1' & _ & _).
    assert (Hn : n = length d).
    { unfold awrite in Hin1'. rewrite Hf in Hin1'. cbn [am_in ret_n] in *. lia. }
    subst n. cbn [firstn map mobserve mo_ret]. f_equal.
    pose proof (IH s0 st1 _ _ rest HR1 E1 Hno) as IH1. rewrite E in IH1. cbn [fst snd] in IH1.
    apply IH1. exact He.
  - exfalso. assert (Hne : ESrc t <> EClosed) by discriminate.
    rewrite (latched_history st1 _ (ESrc t) Hz Hne Hno') in E. injection E as _ <-.
    rewrite Hz in He. discriminate.
Qed.

(* a history prefix after which the Writer is as new: nothing, or anything ending in Reset *)
Definition fresh_prefix (pre : list mop) : Prop :=
  pre = [] \/ exists pre' sc rs, pre = pre' ++ [MReset sc rs].

Lemma fresh_prefix_state script rest pre : fresh_prefix pre ->
  let st1 := snd (mrun (mnew (new_sink script rest)) pre) in
  MReach (last_sink (new_sink script rest) pre) st1 anew [] /\ m_err st1 = None /\ m_in st1 = 0%Z.
Proof.
  intros [-> | (pre' & sc & rs & ->)]; cbv zeta.
  - cbn [mrun snd last_sink fold_left]. split; [apply MReach_new|]. split; reflexivity.
  - rewrite (mrun_app pre' _ [MReset sc rs] (Reach_new script rest)). cbn [snd mrun mstep].
    unfold last_sink. rewrite fold_left_app. cbn [fold_left sink_after].
    split; [apply MReach_reset|]. split; reflexivity.
Qed.

(* THEOREM 3 for whole histories: NewWriter (or anything, then Reset), Write(d1) ... Write(dn),
   Close(mode), then any calls *)
Theorem closed_stream_is_meta_encode script rest pre ds mode tail :
  fresh_prefix pre -> Forall no_reset tail ->
  let s0 := new_sink script rest in
  let st' := snd (mrun (mnew s0) (pre ++ map MWrite ds ++ MClose mode :: tail)) in
  m_err st' = Some EClosed ->
  meta_encode (concat ds) mode = Some (wsink_data (m_sink st')) /\
  m_in st' = Z.of_nat (length (concat ds)) /\
  m_nblocks st' = Z.of_nat (length (writer_blocks (concat ds) [])) /\
  exists l', calls (last_sink s0 pre) l' (m_sink st') /\ Forall beh_accepts l'.
Proof.
  intros Hpre Hno. cbv zeta. rewrite (mrun_app pre _ _ (Reach_new script rest)). cbn [snd].
  destruct (fresh_prefix_state script rest pre Hpre) as (HR1 & E1 & Hin1). cbv zeta in *.
  set (st1 := snd (mrun (mnew (new_sink script rest)) pre)) in *.
  intros He.
  destruct (closed_stream_from _ st1 anew [] ds mode tail HR1 E1 Hno He) as (H1 & H2 & H3 & H4).
  cbn [am_payload anew am_done am_buf concat app] in H1, H3.
  split; [exact H1|]. split; [lia|]. split; [exact H3 | exact H4].
Qed.

(* ------------------------------------------------------------------------- *)
(* (11) Reset                                                                  *)
(* ------------------------------------------------------------------------- *)
(* Reset keeps the old bit writer VALUE ("bw: mw.bw"), so [mreset st s] and [mnew s] are not
   the same state; they differ in m_bw only, and encodeBlock re-initialises the bit writer
   (prefix.Writer.Init replaces every field: [pw_init] ignores the old value) *)
Lemma mencode_with_bw st p final : mencode (with_bw st p) final = mencode st final.
Proof. reflexivity. Qed.

Lemma mwrite_loop_bw data : forall st n p,
  fst (mwrite_loop data (with_bw st p) n) = fst (mwrite_loop data st n) /\
  exists q, snd (mwrite_loop data (with_bw st p) n) = with_bw (snd (mwrite_loop data st n)) q.
Proof.
  induction data as [|b r IH]; intros st n p.
  - cbn [mwrite_loop]. unfold mwrite_done. cbn [fst snd]. split; [reflexivity|]. exists p. reflexivity.
  - cbn [mwrite_loop]. cbv zeta.
    change (m_cnt (with_bw st p)) with (m_cnt st).
    change (m_buf0s (with_bw st p)) with (m_buf0s st).
    change (m_buf1s (with_bw st p)) with (m_buf1s st).
    rewrite mencode_with_bw.
    destruct ((m_cnt st <? EnsureRawBytes) ||
              negb (fst (computeHuffLen (m_buf0s st + (8 - popcount8 b)) (m_buf1s st + popcount8 b)) =? 0)).
    + cbv beta iota. change (m_cnt (with_bw st p)) with (m_cnt st).
      destruct (MaxRawBytes <=? m_cnt st).
      * cbn [fst snd]. split; [reflexivity|]. exists p. reflexivity.
      * exact (IH (push_byte st b) (S n) p).
    + destruct (mencode st FinalNil) as [e st1].
      split; [reflexivity|]. eexists. symmetry. apply with_bw_same.
Qed.

Lemma mstep_bw st p o :
  fst (mstep (with_bw st p) o) = fst (mstep st o) /\
  exists q, snd (mstep (with_bw st p) o) = with_bw (snd (mstep st o)) q.
Proof.
  destruct o as [data|mode|sc rs]; cbn [mstep].
  - unfold mwrite. change (m_err (with_bw st p)) with (m_err st). destruct (m_err st) as [e|].
    + cbn [fst snd]. split; [reflexivity|]. exists p. reflexivity.
    + apply mwrite_loop_bw.
  - unfold mclose. change (m_err (with_bw st p)) with (m_err st). rewrite mencode_with_bw.
    destruct (m_err st) as [e|].
    + destruct e; cbn [fst snd]; (split; [reflexivity|]; exists p; reflexivity).
    + split; [reflexivity|]. eexists. symmetry. apply with_bw_same.
  - cbn [fst snd]. split; [reflexivity|]. exists p. reflexivity.
Qed.

Lemma mrun_bw ops : forall st p,
  fst (mrun (with_bw st p) ops) = fst (mrun st ops) /\
  exists q, snd (mrun (with_bw st p) ops) = with_bw (snd (mrun st ops)) q.
Proof.
  induction ops as [|o ops IH]; intros st p; cbn [mrun].
  - cbn [fst snd]. split; [reflexivity|]. exists p. reflexivity.
  - pose proof (mstep_bw st p o) as H.
    destruct (mstep (with_bw st p) o) as [r2 s2]. destruct (mstep st o) as [r1 s1].
    cbn [fst snd] in H. destruct H as (-> & q & ->).
    specialize (IH s1 q).
    destruct (mrun (with_bw s1 q) ops) as [o2 t2]. destruct (mrun s1 ops) as [o1 t1].
    cbn [fst snd] in IH. destruct IH as (-> & q' & ->).
    destruct r1; cbn [fst snd]; try (split; [reflexivity|]; exists q'; reflexivity).
    split; [reflexivity|]. exists q. reflexivity.
Qed.

(* THEOREM 6: Reset on ANY Writer value whatsoever (failed, closed, mid-block, and with ANY
   bit writer value in m_bw: bytes staged, bits pending, a sink and an offset of its own)
   behaves exactly as NewWriter for EVERY later history: the same observations (return
   values, the three offsets, the sink with everything it accepted), and the same final
   state except for the field m_bw. The statement quantifies over every value of m_bw, so it
   would be false for a prefix.Writer.Init that kept a field such as cntBuf (see
   [init_keeping_cnt_differs] below). *)
Theorem reset_behaves_as_new st script rest ops :
  let s := new_sink script rest in
  fst (mrun (mreset st s) ops) = fst (mrun (mnew s) ops) /\
  exists q, snd (mrun (mreset st s) ops) = with_bw (snd (mrun (mnew s) ops)) q.
Proof.
  cbv zeta. change (mreset st (new_sink script rest)) with (with_bw (mnew (new_sink script rest)) (m_bw st)).
  apply mrun_bw.
Qed.

Corollary reset_obs_as_new st script rest ops :
  fst (mrun (mreset st (new_sink script rest)) ops) = mrun_new script rest ops.
Proof. apply (reset_behaves_as_new st script rest ops). Qed.

(* ... and the final states are EQUAL as soon as the sink in use has seen one call (a block
   was encoded: the bit writer was re-initialised); before that they differ in m_bw only *)
Definition BwRel (st2 st1 : mtw) : Prop :=
  st2 = st1 \/ (exists q, st2 = with_bw st1 q /\ ncalls (m_sink st1) = 0%nat).

Lemma mwrite_loop_bw2 data : forall st n p, ncalls (m_sink st) = 0%nat ->
  BwRel (snd (mwrite_loop data (with_bw st p) n)) (snd (mwrite_loop data st n)).
Proof.
  induction data as [|b r IH]; intros st n p Hn.
  - cbn [mwrite_loop]. unfold mwrite_done. cbn [fst snd]. right. exists p. split; [reflexivity | exact Hn].
  - cbn [mwrite_loop]. cbv zeta.
    change (m_cnt (with_bw st p)) with (m_cnt st).
    change (m_buf0s (with_bw st p)) with (m_buf0s st).
    change (m_buf1s (with_bw st p)) with (m_buf1s st).
    rewrite mencode_with_bw.
    destruct ((m_cnt st <? EnsureRawBytes) ||
              negb (fst (computeHuffLen (m_buf0s st + (8 - popcount8 b)) (m_buf1s st + popcount8 b)) =? 0)).
    + cbv beta iota. change (m_cnt (with_bw st p)) with (m_cnt st).
      destruct (MaxRawBytes <=? m_cnt st).
      * cbn [fst snd]. right. exists p. split; [reflexivity | exact Hn].
      * exact (IH (push_byte st b) (S n) p Hn).
    + destruct (mencode st FinalNil) as [e st1]. left. reflexivity.
Qed.

Lemma mstep_bw2 st p o : ncalls (m_sink st) = 0%nat ->
  BwRel (snd (mstep (with_bw st p) o)) (snd (mstep st o)).
Proof.
  intros Hn. destruct o as [data|mode|sc rs]; cbn [mstep].
  - unfold mwrite. change (m_err (with_bw st p)) with (m_err st). destruct (m_err st) as [e|].
    + cbn [fst snd]. right. exists p. split; [reflexivity | exact Hn].
    + apply mwrite_loop_bw2. exact Hn.
  - unfold mclose. change (m_err (with_bw st p)) with (m_err st). rewrite mencode_with_bw.
    destruct (m_err st) as [e|].
    + destruct e; cbn [fst snd]; right; exists p; (split; [reflexivity | exact Hn]).
    + left. reflexivity.
  - cbn [fst snd]. right. exists p. split; reflexivity.
Qed.

Lemma mrun_bw2 ops : forall st p, ncalls (m_sink st) = 0%nat ->
  BwRel (snd (mrun (with_bw st p) ops)) (snd (mrun st ops)).
Proof.
  induction ops as [|o ops IH]; intros st p Hn; cbn [mrun].
  - cbn [snd]. right. exists p. split; [reflexivity | exact Hn].
  - pose proof (mstep_bw st p o) as H. pose proof (mstep_bw2 st p o Hn) as H2.
    destruct (mstep (with_bw st p) o) as [r2 s2]. destruct (mstep st o) as [r1 s1].
    cbn [fst snd] in H, H2. destruct H as (-> & _).
    destruct H2 as [-> | (q & -> & Hn1)].
    + left. reflexivity.
    + specialize (IH s1 q Hn1).
      destruct (mrun (with_bw s1 q) ops) as [o2 t2]. destruct (mrun s1 ops) as [o1 t1].
      cbn [snd] in IH.
      destruct r1; cbn [snd]; try exact IH. right. exists q. split; [reflexivity | exact Hn1].
Qed.

Theorem reset_final_state st script rest ops :
  let s := new_sink script rest in
  let new' := snd (mrun (mnew s) ops) in
  let res' := snd (mrun (mreset st s) ops) in
  res' = new' \/ (exists q, res' = with_bw new' q /\ ncalls (m_sink new') = 0%nat).
Proof.
  cbv zeta. change (mreset st (new_sink script rest)) with (with_bw (mnew (new_sink script rest)) (m_bw st)).
  apply mrun_bw2. reflexivity.
Qed.

(* ------------------------------------------------------------------------- *)
(* (12) non-vacuity: concrete histories                                        *)
(* ------------------------------------------------------------------------- *)
(* 70 bytes 0x55: blocks of 30, 30 and (at Close) 10 + 2 bytes. The sink accepts the first
   block (54 bytes) and fails the second one after 5 bytes with error #7: Write returns
   (60, #7) - 60 bytes were stored, byte 60 is the one that did not fit -; the latch answers
   the next Write and Close; Reset gives a fresh Writer whose Close succeeds; then
   errClosed / nil *)
Definition ex_hist : list mop :=
  [MWrite (repeat 85 70); MWrite [1; 2]; MClose FinalMeta; MReset [] SAccept; MWrite [1; 2; 3];
   MClose FinalStream; MWrite [9]; MClose FinalNil].
Definition ex_script : list sbeh := [SAccept; SFail 5 7].

Example ex_run :
  map (fun ob => (mo_ret ob, mo_in ob, mo_out ob, mo_nblocks ob, length (wsink_data (mo_sink ob))))
      (mrun_new ex_script SAccept ex_hist) =
  [(MRWrite 60 (Some (ESrc 7)), 60%Z, 59%Z, 1%Z, 59%nat);
   (MRWrite 0 (Some (ESrc 7)), 60%Z, 59%Z, 1%Z, 59%nat);
   (MRClose (Some (ESrc 7)), 60%Z, 59%Z, 1%Z, 59%nat);
   (MRReset, 0%Z, 0%Z, 0%Z, 0%nat);
   (MRWrite 3 None, 3%Z, 0%Z, 0%Z, 0%nat);
   (MRClose None, 3%Z, 16%Z, 1%Z, 16%nat);
   (MRWrite 0 (Some EClosed), 3%Z, 16%Z, 1%Z, 16%nat);
   (MRClose None, 3%Z, 16%Z, 1%Z, 16%nat)].
Proof. vm_compute. reflexivity. Qed.

(* the same history over sinks that never fail: three blocks, 136 bytes *)
Example ex_run_ff :
  map (fun ob => (mo_ret ob, mo_in ob, mo_out ob, mo_nblocks ob))
      (mrun_new [] SAccept (map ff_op (firstn 3 ex_hist))) =
  [(MRWrite 70 None, 70%Z, 108%Z, 2%Z); (MRWrite 2 None, 72%Z, 108%Z, 2%Z); (MRClose None, 72%Z, 136%Z, 3%Z)].
Proof. vm_compute. reflexivity. Qed.

Definition ex_st0 : mtw := mnew (new_sink ex_script SAccept).
Definition ex_st1 : mtw := snd (mstep ex_st0 (MWrite (repeat 85 70))).

(* mstep_latched / latched_history / error_sets_latch / sink_error_reported: the premises
   are met by the state after the failing Write *)
Example ex_latched : m_err ex_st0 = None /\ Reach ex_st0 /\
  ret_err (fst (mstep ex_st0 (MWrite (repeat 85 70)))) = Some (ESrc 7) /\
  m_err ex_st1 = Some (ESrc 7) /\
  mstep ex_st1 (MClose FinalMeta) = (MRClose (Some (ESrc 7)), ex_st1).
Proof.
  split; [reflexivity|]. split; [apply Reach_new|]. split; [vm_compute; reflexivity|].
  split; [vm_compute; reflexivity|].
  apply (mstep_latched ex_st1 (MClose FinalMeta) (ESrc 7)); [vm_compute; reflexivity | discriminate | exact I].
Qed.

(* write_failure_point: its premise, and its conclusion on this instance: 60 bytes stored,
   the buffer holds the 30 bytes of the block that failed, 5 of its bytes reached the sink *)
Example ex_failure_point :
  fst (mstep ex_st0 (MWrite (repeat 85 70))) = MRWrite 60 (Some (ESrc 7)) /\
  m_buf ex_st1 = repeat 85 30 /\ m_in ex_st1 = 60%Z /\
  wsink_data (m_sink ex_st1) =
    block_bytes (repeat 85 30) FinalNil ++ firstn 5 (block_bytes (repeat 85 30) FinalNil).
Proof. vm_compute. repeat split; reflexivity. Qed.

(* prefix_always: a strict prefix (59 of 136 bytes) in the failed state *)
Example ex_prefix :
  let st' := snd (mrun ex_st0 (firstn 3 ex_hist)) in
  let good := wsink_data (m_sink (snd (mrun (mnew (new_sink [] SAccept)) (map ff_op (firstn 3 ex_hist))))) in
  m_err st' = Some (ESrc 7) /\ wsink_data (m_sink st') = firstn 59 good /\ length good = 136%nat.
Proof. vm_compute. repeat split; reflexivity. Qed.

(* closed_stream_is_meta_encode / close_nil_output: after anything and a Reset, Write, Close:
   the premise (the Writer ends up closed) holds and the sink holds meta_encode *)
Example ex_closed :
  let st' := snd (mrun ex_st0 (firstn 4 ex_hist ++ map MWrite [[1; 2; 3]] ++ MClose FinalStream :: [MWrite [9]; MClose FinalNil])) in
  fresh_prefix (firstn 4 ex_hist) /\ m_err st' = Some EClosed /\
  Some (wsink_data (m_sink st')) = meta_encode [1; 2; 3] FinalStream /\
  wsink_data (m_sink st') = [61; 0; 135; 5; 0; 0; 72; 10; 217; 50; 235; 255; 39; 219; 5; 240].
Proof.
  cbv zeta. split; [right; exists (firstn 3 ex_hist), [], SAccept; reflexivity|].
  vm_compute. repeat split; reflexivity.
Qed.

(* closing a Writer that was never written to emits one (empty) block *)
Example ex_empty_close :
  map mo_ret (mrun_new [] SAccept [MClose FinalNil]) = [MRClose None] /\
  meta_encode [] FinalNil = Some (wsink_data (mo_sink (nth 0 (mrun_new [] SAccept [MClose FinalNil])
                                                          (mkMobs MRPanic 0 0 0 (new_sink [] SAccept))))).
Proof. vm_compute. split; reflexivity. Qed.

(* reset_behaves_as_new is not an equation between states: a Writer whose bit writer value
   has bytes staged is, after Reset, a different state than a new Writer ... *)
Definition ex_dirty_bw : pwr := mkPwr (new_sink [SFail 0 1] SAccept) true 5 3 (repeat 7 512) 3 99.
Definition ex_dirty : mtw := with_bw ex_st1 ex_dirty_bw.

Example ex_reset_states_differ :
  mreset ex_dirty (new_sink [] SAccept) <> mnew (new_sink [] SAccept).
Proof. intros H. apply (f_equal (fun s => w_cnt (m_bw s))) in H. vm_compute in H. discriminate H. Qed.

(* ... and yet behaves as one *)
Example ex_reset_run :
  fst (mrun (mreset ex_dirty (new_sink [] SAccept)) (skipn 4 ex_hist)) = mrun_new [] SAccept (skipn 4 ex_hist).
Proof. apply reset_obs_as_new. Qed.

(* with an Init that kept cntBuf the same fields would produce other bytes: THEOREM 6 would
   be false *)
Definition pw_init_keepcnt (p : pwr) (s : wsink) (big : bool) : pwr :=
  mkPwr s big 0 0 (repeat 0 512) (w_cnt p) 0.

Example init_keeping_cnt_differs :
  let out (p0 : pwr) := wsink_data (bw_sink (snd (wflush (snd (frun p0 [FBits 5 8]))))) in
  out (pw_init ex_dirty_bw (new_sink [] SAccept) false) = [5] /\
  out (pw_init_keepcnt ex_dirty_bw (new_sink [] SAccept) false) = [0; 0; 0; 5].
Proof. vm_compute. split; reflexivity. Qed.

(* ------------------------------------------------------------------------- *)
(* Summary                                                                     *)
(* ------------------------------------------------------------------------- *)
(* For EVERY history of Write / Close / Reset and EVERY sink script (no assumption on the
   bytes written: values >= 256 included):

   (0) mrun_offsets / mrun_new_offsets (ObsOk): no call ends in a run-time panic; the only
       errors returned are the sink's (ESrc t) and errClosed ([err_kind]; "block too large"
       is never returned); latch_kinds: the latch holds nothing else. The invariants are
       [Open] (CntOk: bufCnt = len, buf0s / buf1s = the bit counts, the buffer encodable,
       hence at most 30 < MaxRawBytes bytes: buf_fits_len) and, in Meta/WriterImplBits.v,
       block_fields1_ok / block_fields2_ok (field_ok), block_bytes_nonempty.
   (1) mstep_latched, latched_history (ANY state), error_sets_latch (reachable states);
       mstep_closed, closed_history after a successful Close.
   (2) sink_error_reported (StepRep), write_failure_point, mstep_reach: the failed sink call
       is the LAST call made; its error is returned and latched; Write returns the number of
       bytes stored, InputOffset grows by it.
   (3) close_nil_closes, close_nil_output (state level), closed_stream_from,
       closed_stream_is_meta_encode, writes_before_close_full (history level): the sink
       holds exactly meta_encode payload mode of Meta/Model.v. CONTENT link:
       block_bytes_is_encode_block (WriterImplBits.v); BLOCK link: skip_is_fits, AInv_blocks.
   (4) faultfree_output, prefix_always, prefix_extension, sink_only_grows.
   (5) mrun_offsets: obs_ok (OutputOffset, NumBlocks = n_ok, InputOffset).
   (6) reset_behaves_as_new, reset_obs_as_new, reset_final_state. *)

Print Assumptions mstep_latched.
Print Assumptions latched_history.
Print Assumptions error_sets_latch.
Print Assumptions latch_kinds.
Print Assumptions sink_error_reported.
Print Assumptions write_failure_point.
Print Assumptions close_nil_output.
Print Assumptions close_nil_closes.
Print Assumptions closed_stream_from.
Print Assumptions closed_stream_is_meta_encode.
Print Assumptions writes_before_close_full.
Print Assumptions faultfree_output.
Print Assumptions prefix_always.
Print Assumptions prefix_extension.
Print Assumptions sink_only_grows.
Print Assumptions mrun_offsets.
Print Assumptions mrun_new_offsets.
Print Assumptions no_panic_no_invalid.
Print Assumptions reset_behaves_as_new.
Print Assumptions reset_final_state.
