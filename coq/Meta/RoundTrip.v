(* Single-block round trip of the XFLATE meta encoding:
   decode_block (encode_block_bits buf final ++ rest) = BBlock buf final. *)
From V Require Import Base.Prelude Base.Prog Base.ProgThms Prefix.Thms Meta.Model Meta.Thms.
From Coq Require Import ZifyBool ZifyN ZifyNat.

(* ====================================================================== *)
(* 0. generic: bounded iteration                                           *)
(* ====================================================================== *)

Section Iter.
  Context {St R : Type} (body : St -> prog (St + R)).

  (* [n] consecutive iterations of [body] that all continue *)
  Inductive iters : nat -> St -> ast -> St -> ast -> Prop :=
  | it0 s st : iters 0 s st s st
  | itS n s st s1 st1 s2 st2 :
      run (body s) st = Done (inl s1) st1 ->
      iters n s1 st1 s2 st2 -> iters (S n) s st s2 st2.

  Lemma iters_app n m s st s1 st1 s2 st2 :
    iters n s st s1 st1 -> iters m s1 st1 s2 st2 -> iters (n + m) s st s2 st2.
  Proof.
    induction 1 as [|n s st sa sta sb stb H1 H2 IH]; intros H; cbn [Nat.add]; auto.
    econstructor; eauto.
  Qed.

  Lemma iters_split n m s st s2 st2 :
    iters (n + m) s st s2 st2 ->
    exists s1 st1, iters n s st s1 st1 /\ iters m s1 st1 s2 st2.
  Proof.
    revert s st; induction n as [|n IH]; intros s st H; cbn [Nat.add] in H.
    - exists s, st. split; [constructor | exact H].
    - inversion H as [|n' sa sta sb stb sc stc H1 H2]; subst.
      destruct (IH _ _ H2) as [s1 [st1 [Ha Hb]]].
      exists s1, st1. split; [econstructor; eauto | exact Hb].
  Qed.

  Lemma iter2_inl d : forall s st s' st',
    iters (2 ^ d) s st s' st' -> run (iter2 d body s) st = Done (inl s') st'.
  Proof.
    induction d as [|d IH]; intros s st s' st' H.
    - cbn [Nat.pow] in H. inversion H as [|n sa sta sb stb sc stc H1 H2]; subst.
      inversion H2; subst. cbn [iter2]. exact H1.
    - cbn [Nat.pow] in H. replace (2 * 2 ^ d)%nat with (2 ^ d + 2 ^ d)%nat in H by lia.
      destruct (iters_split _ _ _ _ _ _ H) as [s1 [st1 [Ha Hb]]].
      cbn [iter2]. rewrite run_bind, (IH _ _ _ _ Ha). apply IH. exact Hb.
  Qed.

  Lemma iter2_inr d : forall n s st s' st' r st'',
    iters n s st s' st' -> (n < 2 ^ d)%nat ->
    run (body s') st' = Done (inr r) st'' ->
    run (iter2 d body s) st = Done (inr r) st''.
  Proof.
    induction d as [|d IH]; intros n s st s' st' r st'' H Hn Hr.
    - cbn [Nat.pow] in Hn. assert (n = 0%nat) by lia. subst n.
      inversion H; subst. cbn [iter2]. exact Hr.
    - cbn [Nat.pow] in Hn. cbn [iter2]. rewrite run_bind.
      destruct (Nat.lt_ge_cases n (2 ^ d)) as [Hlt|Hge].
      + rewrite (IH _ _ _ _ _ _ _ H Hlt Hr). reflexivity.
      + replace n with (2 ^ d + (n - 2 ^ d))%nat in H by lia.
        destruct (iters_split _ _ _ _ _ _ H) as [s1 [st1 [Ha Hb]]].
        rewrite (iter2_inl _ _ _ _ _ Ha).
        apply (IH _ _ _ _ _ _ _ Hb); [lia | exact Hr].
  Qed.

  Lemma loop_iters d n s st s' st' r st'' :
    iters n s st s' st' -> (n < 2 ^ d)%nat ->
    run (body s') st' = Done (inr r) st'' ->
    run (loop d body s) st = Done r st''.
  Proof.
    intros H Hn Hr. unfold loop. rewrite run_bind.
    rewrite (iter2_inr _ _ _ _ _ _ _ _ H Hn Hr). reflexivity.
  Qed.
End Iter.

(* ====================================================================== *)
(* 1. one symbol                                                           *)
(* ====================================================================== *)

Lemma run_read_bits n v rest pos out len :
  v < 2 ^ n ->
  run (read_bits n) (mkAst (val_bits (N.to_nat n) v ++ rest) pos out len) =
  Done v (mkAst rest (pos + n) out len).
Proof.
  intros H. unfold read_bits. rewrite bit_field_roundtrip by (rewrite N2Nat.id; exact H).
  rewrite N2Nat.id. reflexivity.
Qed.

Lemma walk0 rest pos out len :
  run (sym_walk 3 decHuff []) (mkAst (false :: rest) pos out len) =
  Done (Some 0) (mkAst rest (pos + 1) out len).
Proof. reflexivity. Qed.

Lemma walk1 rest pos out len :
  run (sym_walk 3 decHuff []) (mkAst (true :: false :: rest) pos out len) =
  Done (Some 1) (mkAst rest (pos + 1 + 1) out len).
Proof. reflexivity. Qed.

Lemma walk2 rest pos out len :
  run (sym_walk 3 decHuff []) (mkAst (true :: true :: false :: rest) pos out len) =
  Done (Some 2) (mkAst rest (pos + 1 + 1 + 1) out len).
Proof. reflexivity. Qed.

Lemma walk3 rest pos out len :
  run (sym_walk 3 decHuff []) (mkAst (true :: true :: true :: rest) pos out len) =
  Done (Some 3) (mkAst rest (pos + 1 + 1 + 1) out len).
Proof. reflexivity. Qed.

Definition msym_wf (m : msym) : Prop :=
  match m with
  | MZero | MOne => True
  | MRepLast v => v < 4
  | MRepZero v => v < 128
  end.

Definition msym_cnt (m : msym) : N :=
  match m with MZero | MOne => 1 | MRepLast v => v + 3 | MRepZero v => v + 11 end.

Definition msym_bit (prev : bool) (m : msym) : bool :=
  match m with MZero => false | MOne => true | MRepLast _ => prev | MRepZero _ => false end.

Definition msym_fifo (fifo : N) (m : msym) : N :=
  match m with
  | MZero => N.lor (shr fifo 1) 0
  | MOne => N.lor (shr fifo 2) 64
  | MRepLast v => N.lor (shr (N.lor (shr fifo 3) 96) 2) (b8 (v * 64))
  | MRepZero v => N.lor (shr (N.lor (shr fifo 3) 224) 7) (b8 (v * 2))
  end.

Definition sym_step (s : symst) (m : msym) : symst :=
  let bit := msym_bit (ss_bit s) m in
  let cnt := msym_cnt m in
  mkSymst (ss_idx s + cnt) bit (ss_ones s + (if bit then cnt else 0))
          (msym_fifo (ss_fifo s) m)
          (repeat bit (N.to_nat cnt) ++ ss_bits s).

Lemma sym_body_step s m rest pos out len :
  ss_idx s < 256 -> msym_wf m -> msym_fifo (ss_fifo s) m <> 0 ->
  run (sym_body s) (mkAst (msym_bits m ++ rest) pos out len) =
  Done (inl (sym_step s m))
       (mkAst rest (pos + N.of_nat (length (msym_bits m))) out len).
Proof.
  intros Hi Hw Hf. unfold sym_body.
  assert (E : (256 <=? ss_idx s) = false) by (apply N.leb_gt; exact Hi).
  rewrite E. rewrite run_bind.
  destruct m as [| |v|v]; cbn [msym_bits app msym_wf] in *.
  - rewrite walk0. cbn [N.eqb]. cbn [bind run].
    apply N.eqb_neq in Hf. cbn [msym_fifo] in Hf. rewrite Hf.
    cbn [run length]. f_equal.
  - rewrite walk1. change (1 =? 0) with false. change (1 =? 1) with true. cbn [bind run].
    apply N.eqb_neq in Hf. cbn [msym_fifo] in Hf. rewrite Hf.
    cbn [run length]. f_equal. f_equal. lia.
  - rewrite walk2. change (2 =? 0) with false. change (2 =? 1) with false.
    change (2 =? 2) with true. cbv iota.
    rewrite !run_bind.
    change 2%nat with (N.to_nat 2) at 1.
    rewrite run_read_bits by (change (2 ^ 2) with 4; exact Hw).
    cbn [run].
    apply N.eqb_neq in Hf. cbn [msym_fifo] in Hf. rewrite Hf.
    cbn [run]. f_equal. f_equal. cbn [length]. rewrite val_bits_length. lia.
  - rewrite walk3. change (3 =? 0) with false. change (3 =? 1) with false.
    change (3 =? 2) with false. cbv iota.
    rewrite !run_bind.
    change 7%nat with (N.to_nat 7) at 1.
    rewrite run_read_bits by (change (2 ^ 7) with 128; exact Hw).
    cbn [run].
    apply N.eqb_neq in Hf. cbn [msym_fifo] in Hf. rewrite Hf.
    cbn [run]. f_equal. f_equal. cbn [length]. rewrite val_bits_length. lia.
Qed.

(* ---- lower bounds on the rolling fifo --------------------------------- *)
Lemma testbit_ge x k : N.testbit x k = true -> 2 ^ k <= x.
Proof.
  intros H. apply N.testbit_true in H.
  destruct (N.lt_ge_cases x (2 ^ k)) as [Hlt|Hge]; [|exact Hge].
  rewrite N.div_small in H by exact Hlt. cbv in H. discriminate.
Qed.

Lemma fifo_zero fifo k : 2 * k <= fifo -> k <= msym_fifo fifo MZero.
Proof.
  intros H. cbn [msym_fifo]. rewrite N.lor_0_r. unfold shr.
  rewrite N.shiftr_div_pow2. change (2 ^ 1) with 2. lia.
Qed.

Lemma fifo_one fifo : 64 <= msym_fifo fifo MOne.
Proof.
  cbn [msym_fifo]. change 64 with (2 ^ 6) at 1. apply testbit_ge.
  rewrite N.lor_spec. replace (N.testbit 64 6) with true by reflexivity.
  apply orb_true_r.
Qed.

Lemma fifo_replast fifo v : 16 <= msym_fifo fifo (MRepLast v).
Proof.
  cbn [msym_fifo]. change 16 with (2 ^ 4) at 1. apply testbit_ge.
  unfold shr. rewrite N.lor_spec, N.shiftr_spec', N.lor_spec.
  replace (N.testbit 96 (4 + 2)) with true by reflexivity.
  rewrite orb_true_r. reflexivity.
Qed.

Lemma fifo_repzero fifo v : 1 <= msym_fifo fifo (MRepZero v).
Proof.
  cbn [msym_fifo]. change 1 with (2 ^ 0) at 1. apply testbit_ge.
  unfold shr. rewrite N.lor_spec, N.shiftr_spec', N.lor_spec.
  replace (N.testbit 224 (0 + 7)) with true by reflexivity.
  rewrite orb_true_r. reflexivity.
Qed.

Lemma fifo_repzero_max fifo : 128 <= msym_fifo fifo (MRepZero 127).
Proof.
  cbn [msym_fifo]. change 128 with (2 ^ 7) at 1. apply testbit_ge.
  rewrite N.lor_spec. replace (N.testbit (b8 (127 * 2)) 7) with true by reflexivity.
  apply orb_true_r.
Qed.

(* ====================================================================== *)
(* 2. a list of symbols                                                    *)
(* ====================================================================== *)

Fixpoint steps_ok (s : symst) (l : list msym) : Prop :=
  match l with
  | [] => True
  | m :: r =>
    ss_idx s < 256 /\ msym_wf m /\ ss_fifo (sym_step s m) <> 0 /\ steps_ok (sym_step s m) r
  end.

Lemma steps_ok_app s a b :
  steps_ok s (a ++ b) <-> steps_ok s a /\ steps_ok (fold_left sym_step a s) b.
Proof.
  revert s; induction a as [|m a IH]; intros s; cbn [app steps_ok fold_left].
  - tauto.
  - rewrite IH. tauto.
Qed.

Definition sym_bits (l : list msym) : list bool := flat_map msym_bits l.

Lemma sym_bits_app a b : sym_bits (a ++ b) = sym_bits a ++ sym_bits b.
Proof. apply flat_map_app. Qed.

Lemma steps_iters l : forall s rest pos out len,
  steps_ok s l ->
  iters sym_body (length l) s (mkAst (sym_bits l ++ rest) pos out len)
        (fold_left sym_step l s)
        (mkAst rest (pos + N.of_nat (length (sym_bits l))) out len).
Proof.
  induction l as [|m l IH]; intros s rest pos out len H.
  - cbn [length sym_bits flat_map app fold_left]. rewrite N.add_0_r. constructor.
  - cbn [steps_ok] in H. destruct H as [Hi [Hw [Hf Hr]]].
    cbn [length sym_bits flat_map fold_left]. fold (sym_bits l).
    rewrite <- app_assoc.
    econstructor.
    + apply sym_body_step; auto.
    + rewrite app_length.
      replace (pos + N.of_nat (length (msym_bits m) + length (sym_bits l)))
        with (pos + N.of_nat (length (msym_bits m)) + N.of_nat (length (sym_bits l))) by lia.
      apply IH. exact Hr.
Qed.

(* ====================================================================== *)
(* 3. one run                                                              *)
(* ====================================================================== *)

(* what a run of zeros needs from the fifo: room for the leading MZero codes *)
Definition zpre (cnt : N) (ps : bool) (fifo : N) : Prop :=
  cnt < 11 -> (ps = false \/ cnt < 3) ->
  (1 <= cnt -> 2 <= fifo) /\ (2 <= cnt -> 4 <= fifo) /\ (3 <= cnt -> 8 <= fifo).

Lemma repeat_N {A} (x : A) (a b : N) :
  repeat x (N.to_nat a) ++ repeat x (N.to_nat b) = repeat x (N.to_nat (a + b)).
Proof. rewrite N2Nat.inj_add, repeat_app. reflexivity. Qed.

Lemma enc_run_spec fuel : forall one cnt ps s,
  (N.to_nat cnt < fuel)%nat ->
  ss_idx s + cnt <= 256 ->
  (ps = true -> ss_bit s = one) ->
  (one = false -> zpre cnt ps (ss_fifo s)) ->
  steps_ok s (enc_run fuel one cnt ps) /\
  ss_idx (fold_left sym_step (enc_run fuel one cnt ps) s) = ss_idx s + cnt /\
  ss_ones (fold_left sym_step (enc_run fuel one cnt ps) s)
    = ss_ones s + (if one then cnt else 0) /\
  ss_bits (fold_left sym_step (enc_run fuel one cnt ps) s)
    = repeat one (N.to_nat cnt) ++ ss_bits s /\
  (cnt = 0 -> fold_left sym_step (enc_run fuel one cnt ps) s = s) /\
  (0 < cnt ->
     ss_bit (fold_left sym_step (enc_run fuel one cnt ps) s) = one /\
     (if one then 16 else 1) <= ss_fifo (fold_left sym_step (enc_run fuel one cnt ps) s)).
Proof.
  induction fuel as [|f IH]; intros one cnt ps s Hfu Hidx Hps Hz; [lia|].
  cbn [enc_run].
  destruct (cnt =? 0) eqn:E0.
  { apply N.eqb_eq in E0. subst cnt. cbn [steps_ok fold_left].
    change (N.to_nat 0) with 0%nat. cbn [repeat app].
    repeat split; auto; try lia. destruct one; lia. }
  apply N.eqb_neq in E0.
  destruct (negb one && (11 <=? cnt)) eqn:EA.
  { (* MRepZero *)
    apply andb_true_iff in EA as [Eo E11]. apply negb_true_iff in Eo. subst one.
    apply N.leb_le in E11.
    set (v := N.min 138 cnt).
    assert (Hv : 11 <= v <= 138 /\ v <= cnt) by (subst v; lia).
    set (m := MRepZero (v - 11)).
    cbn [steps_ok fold_left].
    set (s1 := sym_step s m).
    assert (Hs1 : ss_idx s1 = ss_idx s + v /\ ss_bit s1 = false /\ ss_ones s1 = ss_ones s /\
                  ss_bits s1 = repeat false (N.to_nat v) ++ ss_bits s /\
                  ss_fifo s1 = msym_fifo (ss_fifo s) m).
    { subst s1 m. cbn [sym_step ss_idx ss_bit ss_ones ss_bits ss_fifo msym_bit msym_cnt].
      replace (v - 11 + 11) with v by lia. repeat split; lia. }
    destruct Hs1 as [H1i [H1b [H1o [H1s H1f]]]].
    assert (Hf1 : 1 <= ss_fifo s1) by (rewrite H1f; apply fifo_repzero).
    destruct (IH false (cnt - v) true s1) as [K1 [K2 [K3 [K4 [K5 K6]]]]].
    - lia.
    - lia.
    - intros _. exact H1b.
    - intros _. unfold zpre. intros _ _.
      destruct (N.eq_dec v 138) as [Ev|Ev].
      + assert (128 <= ss_fifo s1).
        { rewrite H1f. subst m. rewrite Ev. apply fifo_repzero_max. }
        lia.
      + assert (cnt - v = 0) by (subst v; lia). lia.
    - repeat split.
      + lia.
      + unfold m; cbn [msym_wf]; lia.
      + lia.
      + exact K1.
      + rewrite K2. lia.
      + rewrite K3. lia.
      + rewrite K4, H1s, app_assoc, repeat_N. f_equal. f_equal. f_equal. lia.
      + lia.
      + destruct (N.eq_dec (cnt - v) 0) as [Ec|Ec].
        * rewrite (K5 Ec). exact H1b.
        * apply K6. lia.
      + destruct (N.eq_dec (cnt - v) 0) as [Ec|Ec].
        * rewrite (K5 Ec). exact Hf1.
        * apply K6. lia. }
  destruct (ps && (3 <=? cnt)) eqn:EB.
  { (* MRepLast *)
    apply andb_true_iff in EB as [Ep E3]. subst ps. apply N.leb_le in E3.
    specialize (Hps eq_refl).
    set (v := N.min 6 cnt).
    assert (Hv : 3 <= v <= 6 /\ v <= cnt) by (subst v; lia).
    set (m := MRepLast (v - 3)).
    cbn [steps_ok fold_left].
    set (s1 := sym_step s m).
    assert (Hs1 : ss_idx s1 = ss_idx s + v /\ ss_bit s1 = one /\
                  ss_ones s1 = ss_ones s + (if one then v else 0) /\
                  ss_bits s1 = repeat one (N.to_nat v) ++ ss_bits s /\
                  ss_fifo s1 = msym_fifo (ss_fifo s) m).
    { subst s1 m. cbn [sym_step ss_idx ss_bit ss_ones ss_bits ss_fifo msym_bit msym_cnt].
      replace (v - 3 + 3) with v by lia. rewrite Hps. repeat split; lia. }
    destruct Hs1 as [H1i [H1b [H1o [H1s H1f]]]].
    assert (Hf1 : 16 <= ss_fifo s1) by (rewrite H1f; apply fifo_replast).
    assert (Hsmall : one = false -> cnt < 11).
    { intros ->. cbn [negb andb] in EA. apply N.leb_gt in EA. exact EA. }
    destruct (IH one (cnt - v) true s1) as [K1 [K2 [K3 [K4 [K5 K6]]]]].
    - lia.
    - lia.
    - intros _. exact H1b.
    - intros Ho. unfold zpre. intros _ _. lia.
    - repeat split.
      + lia.
      + unfold m; cbn [msym_wf]; lia.
      + lia.
      + exact K1.
      + rewrite K2. lia.
      + rewrite K3, H1o. destruct one; lia.
      + rewrite K4, H1s, app_assoc, repeat_N. f_equal. f_equal. f_equal. lia.
      + lia.
      + destruct (N.eq_dec (cnt - v) 0) as [Ec|Ec].
        * rewrite (K5 Ec). exact H1b.
        * apply K6. lia.
      + destruct (N.eq_dec (cnt - v) 0) as [Ec|Ec].
        * rewrite (K5 Ec). destruct one; lia.
        * apply K6. lia. }
  (* single symbol *)
  remember (if one then MOne else MZero) as m eqn:Em.
  cbn [steps_ok fold_left].
  remember (sym_step s m) as s1 eqn:Es1.
  assert (Hs1 : ss_idx s1 = ss_idx s + 1 /\ ss_bit s1 = one /\
                ss_ones s1 = ss_ones s + (if one then 1 else 0) /\
                ss_bits s1 = repeat one (N.to_nat 1) ++ ss_bits s /\
                ss_fifo s1 = msym_fifo (ss_fifo s) m).
  { subst s1 m. destruct one;
      cbn [sym_step ss_idx ss_bit ss_ones ss_bits ss_fifo msym_bit msym_cnt];
      repeat split; lia. }
  destruct Hs1 as [H1i [H1b [H1o [H1s H1f]]]].
  assert (Hzp' : one = false ->
                (1 <= cnt -> 2 <= ss_fifo s) /\ (2 <= cnt -> 4 <= ss_fifo s) /\
                (3 <= cnt -> 8 <= ss_fifo s)).
  { intros Ho. specialize (Hz Ho). rewrite Ho in EA. cbn [negb andb] in EA. apply N.leb_gt in EA.
    unfold zpre in Hz. apply Hz; [exact EA|].
    destruct ps; [right|left; reflexivity].
    cbn [andb] in EB. apply N.leb_gt in EB. exact EB. }
  assert (Hf1 : (if one then 16 else 1) <= ss_fifo s1 /\
                (one = false -> (2 <= cnt -> 2 <= ss_fifo s1) /\ (3 <= cnt -> 4 <= ss_fifo s1))).
  { rewrite H1f. subst m. destruct one.
    - pose proof (fifo_one (ss_fifo s)). split; [lia|discriminate].
    - destruct (Hzp' eq_refl) as [Ha [Hb Hc]].
      split; [apply fifo_zero; lia|]. intros _. split; intros; apply fifo_zero; lia. }
  destruct Hf1 as [Hf1 Hf2].
  destruct (IH one (cnt - 1) true s1) as [K1 [K2 [K3 [K4 [K5 K6]]]]].
  - lia.
  - lia.
  - intros _. exact H1b.
  - intros Ho. unfold zpre. intros _ [Hd|Hd]; [discriminate|].
    specialize (Hf2 Ho). lia.
  - repeat split.
    + lia.
    + subst m. destruct one; exact I.
    + destruct one; lia.
    + exact K1.
    + rewrite K2. lia.
    + rewrite K3, H1o. destruct one; lia.
    + rewrite K4, H1s, app_assoc, repeat_N. f_equal. f_equal. f_equal. lia.
    + lia.
    + destruct (N.eq_dec (cnt - 1) 0) as [Ec|Ec].
      * rewrite (K5 Ec). exact H1b.
      * apply K6. lia.
    + destruct (N.eq_dec (cnt - 1) 0) as [Ec|Ec].
      * rewrite (K5 Ec). exact Hf1.
      * apply K6. lia.
Qed.

(* ====================================================================== *)
(* 4. a list of runs                                                       *)
(* ====================================================================== *)

(* the bit sequence a list of signed run lengths stands for *)
Definition run_bits (c : Z) : list bool := repeat (0 <? c)%Z (Z.abs_nat c).
Definition expand (cnts : list Z) : list bool := flat_map run_bits cnts.

Fixpoint ntrue (l : list bool) : N :=
  match l with [] => 0 | b :: r => N.b2n b + ntrue r end.

Lemma ntrue_app a b : ntrue (a ++ b) = ntrue a + ntrue b.
Proof. induction a as [|x a IH]; cbn [app ntrue]; [lia|]. rewrite IH. lia. Qed.

Lemma ntrue_repeat b n : ntrue (repeat b n) = if b then N.of_nat n else 0.
Proof.
  induction n as [|n IH]; cbn [repeat ntrue]; [destruct b; reflexivity|].
  rewrite IH. destruct b; cbn [N.b2n]; lia.
Qed.

Lemma rev_repeat' {A} (x : A) n : rev (repeat x n) = repeat x n.
Proof.
  induction n as [|n IH]; cbn [repeat rev]; [reflexivity|].
  rewrite IH. symmetry. apply repeat_cons.
Qed.

Lemma expand_app a b : expand (a ++ b) = expand a ++ expand b.
Proof. apply flat_map_app. Qed.

(* no two adjacent negative runs *)
Definition noNN (l : list Z) : Prop :=
  forall l1 a b l2, l = l1 ++ a :: b :: l2 -> (0 < a \/ 0 < b)%Z.

Lemma noNN_tail c r : noNN (c :: r) -> noNN r.
Proof. intros H l1 a b l2 E. apply (H (c :: l1) a b l2). rewrite E. reflexivity. Qed.

Lemma noNN_head a b r : noNN (a :: b :: r) -> (0 < a \/ 0 < b)%Z.
Proof. intros H. apply (H [] a b r). reflexivity. Qed.

Lemma noNN_cons a b r : (0 < a \/ 0 < b)%Z -> noNN (b :: r) -> noNN (a :: b :: r).
Proof.
  intros Hab H l1 x y l2 E. destruct l1 as [|z l1]; cbn [app] in E.
  - inversion E; subst. exact Hab.
  - inversion E; subst. apply (H l1 x y l2). assumption.
Qed.

Lemma noNN_single a : noNN [a].
Proof.
  intros l1 x y l2 E. apply (f_equal (@length Z)) in E.
  rewrite app_length in E. cbn [length] in E. lia.
Qed.

Lemma noNN_nil : noNN [].
Proof. intros l1 x y l2 E. destruct l1; discriminate. Qed.

Lemma noNN_rev l : noNN l -> noNN (rev l).
Proof.
  intros H l1 a b l2 E.
  apply (f_equal (@rev Z)) in E. rewrite rev_involutive in E.
  rewrite rev_app_distr in E. cbn [rev] in E. rewrite <- !app_assoc in E. cbn [app] in E.
  destruct (H _ _ _ _ E); [right|left]; assumption.
Qed.

Definition nz (c : Z) : Prop := c <> 0%Z.

Lemma enc_runs_spec cnts : forall pre_one s,
  Forall nz cnts -> noNN cnts ->
  (8 <= ss_fifo s \/ match cnts with c :: _ => (0 < c)%Z | [] => True end) ->
  ss_bit s = pre_one ->
  ss_idx s + N.of_nat (length (expand cnts)) <= 256 ->
  steps_ok s (enc_runs cnts pre_one) /\
  ss_idx (fold_left sym_step (enc_runs cnts pre_one) s)
    = ss_idx s + N.of_nat (length (expand cnts)) /\
  ss_ones (fold_left sym_step (enc_runs cnts pre_one) s)
    = ss_ones s + ntrue (expand cnts) /\
  ss_bits (fold_left sym_step (enc_runs cnts pre_one) s)
    = rev (expand cnts) ++ ss_bits s.
Proof.
  induction cnts as [|c r IH]; intros pre_one s Hnz Hnn Hf Hb Hi.
  - cbn [enc_runs steps_ok fold_left expand flat_map length ntrue rev app].
    repeat split; lia.
  - inversion Hnz as [|? ? Hc Hr]; subst.
    cbn [enc_runs]. unfold nz in Hc.
    assert (E0 : (c =? 0)%Z = false) by (apply Z.eqb_neq; exact Hc). rewrite E0.
    set (one := (0 <? c)%Z). set (n := Z.abs_N c).
    cbn [expand flat_map] in *. fold (expand r) in *.
    rewrite app_length in Hi.
    assert (Hlen : N.of_nat (length (run_bits c)) = n).
    { unfold run_bits. rewrite repeat_length. subst n. lia. }
    destruct (enc_run_spec (S (N.to_nat n)) one n (Bool.eqb (ss_bit s) one) s)
      as [K1 [K2 [K3 [K4 [_ K6]]]]].
    + lia.
    + lia.
    + intros H. apply eqb_prop in H. exact H.
    + intros Ho. destruct Hf as [Hf|Hf].
      * unfold zpre. intros. lia.
      * subst one. lia.
    + assert (Hn : 0 < n) by (subst n; lia).
      destruct (K6 Hn) as [K6b K6f].
      set (l1 := enc_run (S (N.to_nat n)) one n (Bool.eqb (ss_bit s) one)) in *.
      set (s1 := fold_left sym_step l1 s) in *.
      destruct (IH one s1) as [J1 [J2 [J3 J4]]].
      * exact Hr.
      * apply noNN_tail in Hnn. exact Hnn.
      * destruct one eqn:Eo.
        -- left. lia.
        -- right. destruct r as [|c2 r2]; [exact I|].
           apply noNN_head in Hnn. subst one. lia.
      * exact K6b.
      * rewrite K2. lia.
      * rewrite fold_left_app. fold s1.
        split; [apply steps_ok_app; split; assumption|].
        split; [rewrite J2, K2, app_length; lia|].
        split.
        -- rewrite J3, K3, ntrue_app. unfold run_bits. rewrite ntrue_repeat.
           fold one. subst n. destruct one; lia.
        -- rewrite J4, K4, rev_app_distr, <- app_assoc. f_equal. f_equal.
           unfold run_bits. rewrite rev_repeat'. fold one. f_equal. subst n. lia.
Qed.

Lemma steps_ok_idx l : forall s,
  steps_ok s l -> ss_idx s + N.of_nat (length l) <= ss_idx (fold_left sym_step l s).
Proof.
  induction l as [|m l IH]; intros s H; cbn [length fold_left]; [lia|].
  cbn [steps_ok] in H. destruct H as [_ [_ [_ H]]].
  specialize (IH _ H).
  assert (ss_idx (sym_step s m) = ss_idx s + msym_cnt m) by reflexivity.
  assert (1 <= msym_cnt m) by (destruct m; cbn [msym_cnt]; lia).
  lia.
Qed.

Definition sym_init : symst := mkSymst 0 false 0 255 [false].

(* (a) the body: decoding the encoded runs rebuilds exactly the bits the runs
   stand for, for every list of non-zero runs without two adjacent negative
   runs that describes 256 bits *)
Theorem body_roundtrip cnts rest pos out len :
  Forall nz cnts -> noNN cnts -> length (expand cnts) = 256%nat ->
  exists s',
    run (loop 9 sym_body sym_init)
        (mkAst (sym_bits (enc_runs cnts false) ++ rest) pos out len)
    = Done s' (mkAst rest (pos + N.of_nat (length (sym_bits (enc_runs cnts false)))) out len)
    /\ ss_bits s' = rev (expand cnts) ++ [false]
    /\ ss_ones s' = ntrue (expand cnts)
    /\ ss_idx s' = 256.
Proof.
  intros Hnz Hnn Hlen.
  destruct (enc_runs_spec cnts false sym_init Hnz Hnn) as [K1 [K2 [K3 K4]]].
  - left. cbn [sym_init ss_fifo]. lia.
  - reflexivity.
  - rewrite Hlen. cbn [sym_init ss_idx]. lia.
  - set (l := enc_runs cnts false) in *.
    set (s' := fold_left sym_step l sym_init) in *.
    exists s'.
    cbn [sym_init ss_idx ss_ones ss_bits] in K2, K3, K4. fold sym_init in K2, K3, K4.
    rewrite Hlen in K2.
    repeat split; [|exact K4|lia|lia].
    pose proof (steps_ok_idx l sym_init K1) as Hcount. fold s' in Hcount.
    cbn [sym_init ss_idx] in Hcount.
    eapply loop_iters.
    + apply steps_iters. exact K1.
    + change (2 ^ 9)%nat with 512%nat. lia.
    + fold s'. unfold sym_body.
      assert (E : (256 <=? ss_idx s') = true) by (apply N.leb_le; lia).
      rewrite E. reflexivity.
Qed.

(* ====================================================================== *)
(* 5. computeCounts                                                        *)
(* ====================================================================== *)

Lemma noNN_resign a a' r : noNN (a :: r) -> ((0 < a)%Z -> (0 < a')%Z) -> noNN (a' :: r).
Proof.
  intros H Hs. destruct r as [|b r]; [apply noNN_single|].
  apply noNN_cons; [|apply noNN_tail in H; exact H].
  apply noNN_head in H. destruct H; [left; auto | right; assumption].
Qed.

Lemma expand_rev_cons a l : expand (rev (a :: l)) = expand (rev l) ++ run_bits a.
Proof.
  cbn [rev]. rewrite expand_app. cbn [expand flat_map]. rewrite app_nil_r. reflexivity.
Qed.

Lemma run_bits_pos_succ c : (0 < c)%Z -> run_bits (c + 1) = run_bits c ++ [true].
Proof.
  intros H. unfold run_bits.
  assert (E1 : (0 <? c + 1)%Z = true) by lia. assert (E2 : (0 <? c)%Z = true) by lia.
  rewrite E1, E2. replace (Z.abs_nat (c + 1)) with (Z.abs_nat c + 1)%nat by lia.
  rewrite repeat_app. reflexivity.
Qed.

Lemma run_bits_neg_pred c : (c < 0)%Z -> run_bits (c + -1) = run_bits c ++ [false].
Proof.
  intros H. unfold run_bits.
  assert (E1 : (0 <? c + -1)%Z = false) by lia. assert (E2 : (0 <? c)%Z = false) by lia.
  rewrite E1, E2. replace (Z.abs_nat (c + -1)) with (Z.abs_nat c + 1)%nat by lia.
  rewrite repeat_app. reflexivity.
Qed.

Lemma run_bits_neg_sub c k : (c < 0)%Z -> (0 <= k)%Z ->
  run_bits (c - k) = run_bits c ++ repeat false (Z.to_nat k).
Proof.
  intros H Hk. unfold run_bits.
  assert (E1 : (0 <? c - k)%Z = false) by lia. assert (E2 : (0 <? c)%Z = false) by lia.
  rewrite E1, E2. replace (Z.abs_nat (c - k)) with (Z.abs_nat c + Z.to_nat k)%nat by lia.
  rewrite repeat_app. reflexivity.
Qed.

Lemma run_bits_pos k : (0 < k)%Z -> run_bits k = repeat true (Z.to_nat k).
Proof.
  intros H. unfold run_bits. assert (E : (0 <? k)%Z = true) by lia. rewrite E.
  f_equal. lia.
Qed.

Lemma run_bits_neg k : (0 < k)%Z -> run_bits (- k) = repeat false (Z.to_nat k).
Proof.
  intros H. unfold run_bits. assert (E : (0 <? - k)%Z = false) by lia. rewrite E.
  f_equal. lia.
Qed.

Definition ccI (st : list Z * Z) : Prop :=
  snd st <> 0%Z /\ Forall nz (fst st) /\ noNN (snd st :: fst st) /\
  (last (snd st :: fst st) 0 < 0)%Z.
Definition ccE (st : list Z * Z) : list bool := expand (rev (snd st :: fst st)).

Lemma last_cons2 {A} (x y : A) l d : last (x :: y :: l) d = last (y :: l) d.
Proof. reflexivity. Qed.

Lemma cc_step_inv st bit :
  ccI st -> ccI (cc_step st bit) /\ ccE (cc_step st bit) = ccE st ++ [bit].
Proof.
  destruct st as [cnts pcnt]. unfold ccI, ccE. cbn [fst snd].
  intros [Hp [Hnz [Hnn Hl]]]. unfold cc_step.
  destruct bit; destruct (0 <? pcnt)%Z eqn:Es; cbn [Bool.eqb negb fst snd].
  - (* extend ones *)
    assert (0 < pcnt)%Z by lia.
    repeat split.
    + lia.
    + exact Hnz.
    + apply (noNN_resign pcnt); [exact Hnn | lia].
    + destruct cnts as [|c cs]; [cbn [last] in *; lia|].
      rewrite last_cons2 in *. exact Hl.
    + rewrite !expand_rev_cons, run_bits_pos_succ by lia. rewrite app_assoc. reflexivity.
  - (* zero run ends, first one *)
    assert (pcnt < 0)%Z by lia.
    rewrite Z.add_0_l.
    repeat split.
    + lia.
    + constructor; [exact Hp | exact Hnz].
    + apply noNN_cons; [left; lia | exact Hnn].
    + rewrite last_cons2. exact Hl.
    + rewrite (expand_rev_cons 1). reflexivity.
  - (* one run ends, first zero *)
    assert (0 < pcnt)%Z by lia.
    rewrite Z.add_0_l.
    repeat split.
    + lia.
    + constructor; [exact Hp | exact Hnz].
    + apply noNN_cons; [right; lia | exact Hnn].
    + rewrite last_cons2. exact Hl.
    + rewrite (expand_rev_cons (-1)). reflexivity.
  - (* extend zeros *)
    assert (pcnt < 0)%Z by lia.
    repeat split.
    + lia.
    + exact Hnz.
    + apply (noNN_resign pcnt); [exact Hnn | lia].
    + destruct cnts as [|c cs]; [cbn [last] in *; lia|].
      rewrite last_cons2 in *. exact Hl.
    + rewrite !expand_rev_cons, run_bits_neg_pred by lia. rewrite app_assoc. reflexivity.
Qed.

Lemma cc_fold_inv bs : forall st,
  ccI st -> ccI (fold_left cc_step bs st) /\ ccE (fold_left cc_step bs st) = ccE st ++ bs.
Proof.
  induction bs as [|b bs IH]; intros st H; cbn [fold_left].
  - rewrite app_nil_r. auto.
  - destruct (cc_step_inv st b H) as [H1 H2].
    destruct (IH _ H1) as [H3 H4]. split; [exact H3|].
    rewrite H4, H2, <- app_assoc. reflexivity.
Qed.

(* the tail of computeCounts: pad with zeros, then ones *)
Definition cc_fin (st : list Z * Z) (padz pado : Z) : list Z :=
  let '(cnts, pcnt) := st in
  let '(cnts, pcnt) := if (0 <? pcnt)%Z then (pcnt :: cnts, 0%Z) else (cnts, pcnt) in
  let pcnt := (pcnt - padz)%Z in
  let '(cnts, pcnt) := if (pcnt <? 0)%Z then (pcnt :: cnts, 0%Z) else (cnts, pcnt) in
  let pcnt := (pcnt + pado)%Z in
  fast_rev (pcnt :: cnts).

Lemma hd_rev_last (l : list Z) : l <> [] -> exists r, rev l = last l 0%Z :: r.
Proof.
  induction l as [|a l IH]; intros H; [congruence|].
  destruct l as [|b l].
  - exists []. reflexivity.
  - destruct IH as [r Hr]; [discriminate|].
    rewrite last_cons2. exists (r ++ [a]).
    change (rev (a :: b :: l)) with (rev (b :: l) ++ [a]). rewrite Hr. reflexivity.
Qed.

Lemma cc_fin_spec st padz pado :
  ccI st -> (0 <= padz)%Z -> (0 < pado)%Z ->
  exists c0 r, cc_fin st padz pado = c0 :: r /\ (c0 < 0)%Z /\
    Forall nz (c0 :: r) /\ noNN (c0 :: r) /\
    expand (c0 :: r) = ccE st ++ repeat false (Z.to_nat padz) ++ repeat true (Z.to_nat pado).
Proof.
  destruct st as [cnts pcnt]. unfold ccI, ccE. cbn [fst snd].
  intros [Hp [Hnz [Hnn Hl]]] Hz Ho.
  assert (Hgen : forall l : list Z,
            Forall nz l -> noNN l -> (last l 0 < 0)%Z -> l <> [] ->
            exists c0 r, fast_rev l = c0 :: r /\ (c0 < 0)%Z /\ Forall nz (c0 :: r) /\
                         noNN (c0 :: r) /\ expand (c0 :: r) = expand (rev l)).
  { intros l H1 H2 H3 H4. destruct (hd_rev_last l H4) as [r Hr].
    exists (last l 0%Z), r. rewrite fast_rev_eq. split; [exact Hr|]. split; [exact H3|].
    rewrite <- Hr. split; [|split; [apply noNN_rev; exact H2 | reflexivity]].
    apply Forall_forall. intros x Hx. apply in_rev in Hx.
    rewrite Forall_forall in H1. apply H1. exact Hx. }
  unfold cc_fin.
  destruct (0 <? pcnt)%Z eqn:Es.
  - assert (0 < pcnt)%Z by lia. rewrite Z.sub_0_l.
    destruct (- padz <? 0)%Z eqn:Ez.
    + rewrite Z.add_0_l.
      destruct (Hgen (pado :: (- padz)%Z :: pcnt :: cnts)) as [c0 [r [K1 [K2 [K3 [K4 K5]]]]]].
      * repeat constructor; auto; unfold nz; lia.
      * apply noNN_cons; [left; lia|]. apply noNN_cons; [right; lia | exact Hnn].
      * rewrite !last_cons2. exact Hl.
      * discriminate.
      * exists c0, r. repeat split; auto. rewrite K5.
        rewrite (expand_rev_cons pado), (expand_rev_cons (- padz)%Z).
        rewrite run_bits_neg, run_bits_pos by lia. rewrite <- app_assoc. reflexivity.
    + assert (padz = 0)%Z by lia. subst padz.
      destruct (Hgen ((- 0 + pado)%Z :: pcnt :: cnts)) as [c0 [r [K1 [K2 [K3 [K4 K5]]]]]].
      * repeat constructor; auto; unfold nz; lia.
      * apply noNN_cons; [left; lia | exact Hnn].
      * rewrite !last_cons2. exact Hl.
      * discriminate.
      * exists c0, r. repeat split; auto. rewrite K5.
        rewrite (expand_rev_cons (- 0 + pado)%Z).
        rewrite run_bits_pos by lia. cbn [Z.to_nat repeat app].
        rewrite Z.add_0_l. reflexivity.
  - assert (pcnt < 0)%Z by lia.
    assert (Ez : (pcnt - padz <? 0)%Z = true) by lia. rewrite Ez, Z.add_0_l.
    destruct (Hgen (pado :: (pcnt - padz)%Z :: cnts)) as [c0 [r [K1 [K2 [K3 [K4 K5]]]]]].
    + repeat constructor; auto; unfold nz; lia.
    + apply noNN_cons; [left; lia|]. apply (noNN_resign pcnt); [exact Hnn | lia].
    + rewrite last_cons2. destruct cnts as [|c cs]; [cbn [last] in *; lia|].
      rewrite last_cons2 in *. exact Hl.
    + discriminate.
    + exists c0, r. repeat split; auto. rewrite K5.
      rewrite (expand_rev_cons pado), !expand_rev_cons.
      rewrite run_bits_neg_sub, (run_bits_pos pado) by lia. rewrite <- !app_assoc. reflexivity.
Qed.

Definition cc_arr (buf : list byte) (final invert : bool) : list byte :=
  flags_byte final invert (N.of_nat (length buf)) :: (if invert then map inv_byte buf else buf).

Lemma computeCounts_eq buf maxOnes final invert :
  computeCounts buf maxOnes final invert =
  cc_fin (fold_left cc_step (bytes_to_bits (cc_arr buf final invert)) ([], 0%Z))
         (Z.of_N maxSyms - Z.of_N maxOnes - Z.of_N (count_zeros (cc_arr buf final invert)))
         (Z.of_N maxOnes - Z.of_N (count_ones (cc_arr buf final invert))).
Proof.
  unfold computeCounts, cc_fin. fold (cc_arr buf final invert).
  destruct (fold_left cc_step (bytes_to_bits (cc_arr buf final invert)) ([], 0%Z)) as [cnts pcnt].
  reflexivity.
Qed.

Lemma flags_bit0 final invert n : N.testbit (flags_byte final invert n) 0 = false.
Proof.
  unfold flags_byte. rewrite N.bit0_odd.
  rewrite <- N.negb_even. apply negb_false_iff.
  apply N.even_spec.
  exists (((N.b2n final * 2 + N.b2n invert * 4 + n * 8) mod 256) / 2).
  destruct final, invert; cbn [N.b2n]; lia.
Qed.

Lemma computeCounts_spec buf maxOnes final invert :
  let arr := cc_arr buf final invert in
  count_zeros arr + maxOnes <= 257 -> count_ones arr < maxOnes ->
  exists c0 r, computeCounts buf maxOnes final invert = c0 :: r /\ (c0 < 0)%Z /\
    Forall nz (c0 :: r) /\ noNN (c0 :: r) /\
    expand (c0 :: r) = bytes_to_bits arr
                       ++ repeat false (N.to_nat (257 - maxOnes - count_zeros arr))
                       ++ repeat true (N.to_nat (maxOnes - count_ones arr)).
Proof.
  intros arr Hz Ho. rewrite computeCounts_eq. fold arr.
  assert (Hbits : exists t, bytes_to_bits arr = false :: t).
  { unfold arr, cc_arr. cbn [bytes_to_bits flat_map]. unfold bits_lsb at 1.
    rewrite flags_bit0. cbn [app]. eexists; reflexivity. }
  destruct Hbits as [t Ht]. rewrite Ht. cbn [fold_left].
  change (cc_step ([], 0%Z) false) with (@nil Z, (-1)%Z).
  assert (HI : ccI ([], (-1)%Z)).
  { unfold ccI. cbn [fst snd last]. repeat split; try lia; [constructor | apply noNN_single]. }
  destruct (cc_fold_inv t _ HI) as [H1 H2].
  destruct (cc_fin_spec (fold_left cc_step t ([], (-1)%Z))
              (Z.of_N maxSyms - Z.of_N maxOnes - Z.of_N (count_zeros arr))
              (Z.of_N maxOnes - Z.of_N (count_ones arr)) H1)
    as [c0 [r [K1 [K2 [K3 [K4 K5]]]]]].
  - unfold maxSyms. lia.
  - lia.
  - exists c0, r. repeat split; auto. rewrite K5, H2.
    change (ccE ([], (-1)%Z)) with [false]. cbn [app]. f_equal. f_equal.
    unfold maxSyms. f_equal; f_equal; lia.
Qed.

(* ====================================================================== *)
(* 6. bytes and bits                                                       *)
(* ====================================================================== *)

Lemma byte_forall (P : N -> bool) :
  forallb P (map N.of_nat (seq 0 256)) = true -> forall b, b < 256 -> P b = true.
Proof.
  intros H b Hb. rewrite forallb_forall in H. apply H.
  apply in_map_iff. exists (N.to_nat b). split; [lia|]. apply in_seq. lia.
Qed.

Lemma bits_val_lsb b : b < 256 -> bits_val (bits_lsb b) = b.
Proof.
  intros H. apply N.eqb_eq.
  apply (byte_forall (fun b => bits_val (bits_lsb b) =? b)); [vm_compute; reflexivity | exact H].
Qed.

Lemma popcount_inv b : b < 256 -> popcount8 (inv_byte b) = 8 - popcount8 b.
Proof.
  intros H. apply N.eqb_eq.
  apply (byte_forall (fun b => popcount8 (inv_byte b) =? 8 - popcount8 b));
    [vm_compute; reflexivity | exact H].
Qed.

Lemma inv_inv b : b < 256 -> inv_byte (inv_byte b) = b.
Proof. unfold inv_byte. lia. Qed.

Lemma map_inv_inv l : (forall b, In b l -> b < 256) -> map inv_byte (map inv_byte l) = l.
Proof.
  induction l as [|b l IH]; intros H; cbn [map]; [reflexivity|].
  rewrite inv_inv by (apply H; left; reflexivity).
  rewrite IH by (intros x Hx; apply H; right; exact Hx). reflexivity.
Qed.

Lemma count_ones_inv l : (forall b, In b l -> b < 256) ->
  count_ones (map inv_byte l) = count_zeros l.
Proof.
  intros H. unfold count_zeros.
  induction l as [|b l IH]; cbn [map count_ones fold_right length]; [reflexivity|].
  fold (count_ones (map inv_byte l)). fold (count_ones l).
  rewrite IH by (intros x Hx; apply H; right; exact Hx).
  rewrite popcount_inv by (apply H; left; reflexivity).
  pose proof (popcount8_le b). pose proof (count_ones_le l). lia.
Qed.

Lemma ntrue_bytes l : ntrue (bytes_to_bits l) = count_ones l.
Proof.
  induction l as [|b l IH]; [reflexivity|].
  cbn [bytes_to_bits flat_map count_ones fold_right]. fold (bytes_to_bits l). fold (count_ones l).
  rewrite ntrue_app, IH. reflexivity.
Qed.

Lemma bytes_to_bits_length l : length (bytes_to_bits l) = (8 * length l)%nat.
Proof.
  induction l as [|b l IH]; [reflexivity|].
  cbn [bytes_to_bits flat_map]. fold (bytes_to_bits l).
  rewrite app_length, IH. cbn [length bits_lsb]. lia.
Qed.

Lemma btb_fuel_indep f1 : forall f2 l,
  (length l <= 8 * f1)%nat -> (length l <= 8 * f2)%nat ->
  bits_to_bytes_fuel f1 l = bits_to_bytes_fuel f2 l.
Proof.
  induction f1 as [|f1 IH]; intros f2 l H1 H2.
  - destruct l; [|cbn [length] in H1; lia]. destruct f2; reflexivity.
  - destruct f2 as [|f2].
    + destruct l; [reflexivity | cbn [length] in H2; lia].
    + cbn [bits_to_bytes_fuel]. destruct l as [|x l]; [reflexivity|].
      f_equal. apply IH; rewrite skipn_length; lia.
Qed.

Lemma btb_fuel_cons f b t :
  b < 256 -> bits_to_bytes_fuel (S f) (bits_lsb b ++ t) = b :: bits_to_bytes_fuel f t.
Proof.
  intros H. unfold bits_lsb. cbn [app bits_to_bytes_fuel firstn skipn].
  change (bits_val (bits_lsb b) :: bits_to_bytes_fuel f t = b :: bits_to_bytes_fuel f t).
  rewrite bits_val_lsb by exact H. reflexivity.
Qed.

Lemma btb_fuel_app l : forall f t,
  (forall b, In b l -> b < 256) ->
  bits_to_bytes_fuel (length l + f) (bytes_to_bits l ++ t) = l ++ bits_to_bytes_fuel f t.
Proof.
  induction l as [|b l IH]; intros f t H; [reflexivity|].
  cbn [length Nat.add bytes_to_bits flat_map]. fold (bytes_to_bits l).
  rewrite <- app_assoc.
  rewrite btb_fuel_cons by (apply H; left; reflexivity).
  cbn [app]. f_equal. apply IH. intros y Hy. apply H. right. exact Hy.
Qed.

Lemma btb_app l t :
  (forall b, In b l -> b < 256) ->
  bits_to_bytes (bytes_to_bits l ++ t) = l ++ bits_to_bytes t.
Proof.
  intros H. unfold bits_to_bytes.
  rewrite (btb_fuel_indep _ (length l + S (length t))).
  - apply btb_fuel_app. exact H.
  - lia.
  - rewrite app_length, bytes_to_bits_length. lia.
Qed.

(* ====================================================================== *)
(* 7. closed finite facts: flags byte, huffLen, header word                *)
(* ====================================================================== *)

Definition flags_ok (f i : bool) (n : N) : bool :=
  let fl := flags_byte f i n in
  Bool.eqb (N.testbit fl 1) f && Bool.eqb (N.testbit fl 2) i && (shr fl 3 =? n)
  && (popcount8 fl <=? 7) && (fl <? 256).

Lemma flags_table :
  forallb (fun n => flags_ok false false (N.of_nat n) && flags_ok false true (N.of_nat n)
                 && flags_ok true false (N.of_nat n) && flags_ok true true (N.of_nat n))
          (seq 0 32) = true.
Proof. vm_compute. reflexivity. Qed.

Lemma flags_spec f i n : n < 32 ->
  let fl := flags_byte f i n in
  N.testbit fl 1 = f /\ N.testbit fl 2 = i /\ shr fl 3 = n /\ popcount8 fl <= 7 /\ fl < 256.
Proof.
  intros Hn fl. pose proof flags_table as T. rewrite forallb_forall in T.
  specialize (T (N.to_nat n)). rewrite N2Nat.id in T.
  assert (Hin : In (N.to_nat n) (seq 0 32)) by (apply in_seq; lia).
  specialize (T Hin).
  assert (Hk : flags_ok f i n = true).
  { apply andb_true_iff in T as [T T4]. apply andb_true_iff in T as [T T3].
    apply andb_true_iff in T as [T1 T2]. destruct f, i; assumption. }
  unfold flags_ok in Hk. fold fl in Hk.
  apply andb_true_iff in Hk as [Hk H5]. apply andb_true_iff in Hk as [Hk H4].
  apply andb_true_iff in Hk as [Hk H3]. apply andb_true_iff in Hk as [H1 H2].
  apply eqb_prop in H1. apply eqb_prop in H2. apply N.eqb_eq in H3.
  apply N.leb_le in H4. apply N.ltb_lt in H5. auto.
Qed.

Lemma huff_search_spec cands z o :
  huff_search cands z o <> 0 ->
  In (huff_search cands z o) cands /\
  z + 8 + 2 ^ huff_search cands z o <= 257 /\ o + 8 <= 2 ^ huff_search cands z o.
Proof.
  induction cands as [|h r IH]; cbn [huff_search]; intros H; [congruence|].
  destruct ((z + 8 <=? maxSyms - 2 ^ h) && (2 ^ h <=? maxSyms) && (o + 8 <=? 2 ^ h)) eqn:E.
  - apply andb_true_iff in E as [E E3]. apply andb_true_iff in E as [E1 E2].
    apply N.leb_le in E1, E2, E3. unfold maxSyms in *.
    split; [left; reflexivity|]. lia.
  - destruct (IH H) as [H1 H2]. split; [right; exact H1 | exact H2].
Qed.

Lemma computeHuffLen_spec zeros ones h inv :
  computeHuffLen zeros ones = (h, inv) -> h <> 0 ->
  1 <= h <= 7 /\
  (if inv then ones else zeros) + 8 + 2 ^ h <= 257 /\
  (if inv then zeros else ones) + 8 <= 2 ^ h.
Proof.
  unfold computeHuffLen. intros H Hh.
  destruct (zeros <? ones) eqn:Ei;
  match type of H with context [huff_search ?c ?a ?b] =>
    pose proof (huff_search_spec c a b) as S; remember (huff_search c a b) as hs eqn:Ehs end;
  destruct (hs =? 0) eqn:E0; injection H as <- <-; try congruence;
  apply N.eqb_neq in E0; destruct (S E0) as [Hin Hb]; (split; [|exact Hb]);
  clear - Hin; cbn [In] in Hin; lia.
Qed.

Lemma h_cases h : 1 <= h <= 7 -> h = 1 \/ h = 2 \/ h = 3 \/ h = 4 \/ h = 5 \/ h = 6 \/ h = 7.
Proof. lia. Qed.

Lemma pads_cases p : p < 8 ->
  p = 0 \/ p = 1 \/ p = 2 \/ p = 3 \/ p = 4 \/ p = 5 \/ p = 6 \/ p = 7.
Proof. lia. Qed.

Definition hdr_magic (h : N) (fs : bool) : N :=
  magicVals + N.b2n fs + (4 + (8 - h) * 2 - 4) * 2 ^ 13.

Lemma hdr_facts h fs pads : 1 <= h <= 7 -> pads < 8 ->
  let magic := hdr_magic h fs in
  let magic' := magic + 8 * pads in
  bits_val (firstn 3 (val_bits 32 magic) ++ val_bits 3 pads ++ skipn 6 (val_bits 32 magic)) = magic'
  /\ magic' < 2 ^ 32
  /\ (N.land magic' magicMask =? magicVals) = true
  /\ N.testbit magic' 0 = fs
  /\ N.land (shr magic' 3) 7 = pads
  /\ N.land (shr magic' 13) 15 = (8 - h) * 2.
Proof.
  intros Hh Hp.
  destruct (h_cases h Hh) as [E|[E|[E|[E|[E|[E|E]]]]]]; subst h;
  destruct (pads_cases pads Hp) as [F|[F|[F|[F|[F|[F|[F|F]]]]]]]; subst pads;
  destruct fs; vm_compute; repeat split; reflexivity.
Qed.

(* ====================================================================== *)
(* 8. the decoder cut into header / body / trailer                         *)
(* ====================================================================== *)

Definition dec_tail (finalStream : bool) (pads huffLen : N) (s : symst) : prog blockres :=
  let huffRange := 2 ^ huffLen in
  assert_p (N.of_nat (length (ss_bits s)) =? maxSyms) ECorrupted ;;;
  let symbits := fast_rev (ss_bits s) in
  let syms := bits_to_bytes symbits in
  assert_p (ss_ones s =? huffRange) ECorrupted ;;;
  assert_p (nth 256 symbits false) ECorrupted ;;;
  let flags := nth 0 syms 0 in
  let finalMeta := N.testbit flags 1 in
  let invert := N.testbit flags 2 in
  let size := shr flags 3 in
  let raw := firstn (N.to_nat size) (skipn 1 syms) in
  let buf := if invert then map inv_byte raw else raw in
  assert_p (negb (finalStream && negb finalMeta)) ECorrupted ;;;
  let final := if finalStream then FinalStream else if finalMeta then FinalMeta else FinalNil in
  fail <- (v <- read_bits pads ;; Ret (0 <? v)) ;;
  fail <- chk fail (v <- read_bits 1 ;; Ret (0 <? v)) ;;
  fail <- chk fail (v <- read_bits huffLen ;; Ret (negb (v =? huffRange - 1))) ;;
  fail <- chk fail (Pos (fun p => Ret (0 <? p mod 8))) ;;
  assert_p (negb fail) ECorrupted ;;;
  Ret (BBlock buf final).

Definition dec_mid (magic : N) : prog blockres :=
  assert_p (N.land magic magicMask =? magicVals) ECorrupted ;;;
  let finalStream := N.testbit magic 0 in
  let pads := N.land (shr magic 3) 7 in
  let numHCLen := 4 + N.land (shr magic 13) 15 in
  let fail := numHCLen <? 6 in
  fail <- hclen_zeros (N.to_nat (numHCLen - 1 - 5)) fail ;;
  fail <- chk fail (v <- read_bits 3 ;; Ret (negb (v =? 2))) ;;
  fail <- chk fail (v <- read_bits 1 ;; Ret (negb (v =? 0))) ;;
  assert_p (negb fail) ECorrupted ;;;
  let huffLen := 8 - (numHCLen - 4) / 2 in
  s <- loop 9 sym_body sym_init ;;
  dec_tail finalStream pads huffLen s.

Lemma decode_block_eq :
  decode_block =
  IsEof (fun eof => if eof then Ret BEof else magic <- read_bits 32 ;; dec_mid magic).
Proof. reflexivity. Qed.

(* ---- trailer ---------------------------------------------------------- *)
Lemma val_bits_zero n : val_bits n 0 = repeat false n.
Proof. induction n as [|n IH]; cbn [val_bits repeat]; [reflexivity|]. rewrite <- IH. reflexivity. Qed.

Lemma val_bits_ones h : 1 <= h <= 7 ->
  val_bits (N.to_nat h) (2 ^ h - 1) = repeat true (N.to_nat h).
Proof.
  intros Hh. destruct (h_cases h Hh) as [E|[E|[E|[E|[E|[E|E]]]]]]; subst h; reflexivity.
Qed.

Lemma cc_arr_ok buf fm inv :
  (forall b, In b buf -> b < 256) -> N.of_nat (length buf) < 32 ->
  forall b, In b (cc_arr buf fm inv) -> b < 256.
Proof.
  intros Hb Hn b [H|H].
  - subst b. apply flags_spec. exact Hn.
  - destruct inv; [|apply Hb; exact H].
    apply in_map_iff in H as [x [Hx _]]. subst b. unfold inv_byte. lia.
Qed.

Lemma tail_pure buf fm inv t :
  (forall b, In b buf -> b < 256) -> N.of_nat (length buf) < 32 ->
  nth 0 (bits_to_bytes (bytes_to_bits (cc_arr buf fm inv) ++ t)) 0
    = flags_byte fm inv (N.of_nat (length buf)) /\
  firstn (length buf) (skipn 1 (bits_to_bytes (bytes_to_bits (cc_arr buf fm inv) ++ t)))
    = (if inv then map inv_byte buf else buf).
Proof.
  intros Hb Hn. rewrite btb_app by (apply cc_arr_ok; assumption).
  unfold cc_arr. cbn [app nth skipn]. split; [reflexivity|].
  set (data := if inv then map inv_byte buf else buf).
  assert (Hl : length data = length buf) by (subst data; destruct inv; [apply map_length|reflexivity]).
  rewrite <- Hl, firstn_app, firstn_all, Nat.sub_diag. cbn [firstn]. apply app_nil_r.
Qed.

Lemma nth_repeat_lt {A} (x d : A) n : forall i, (i < n)%nat -> nth i (repeat x n) d = x.
Proof.
  induction n as [|n IH]; intros i H; [lia|].
  destruct i as [|i]; cbn [repeat nth]; [reflexivity | apply IH; lia].
Qed.

Lemma run_assert_true e s : run (assert_p true e) s = Done tt s.
Proof. reflexivity. Qed.

Lemma run_dec_tail fs pads h s buf fm inv pz po rest pos out len :
  (forall b, In b buf -> b < 256) -> N.of_nat (length buf) < 32 ->
  fast_rev (ss_bits s)
    = bytes_to_bits (cc_arr buf fm inv) ++ repeat false pz ++ repeat true po ->
  (0 < po)%nat -> length (ss_bits s) = 257%nat -> ss_ones s = 2 ^ h ->
  1 <= h <= 7 -> pads < 8 -> (fs = true -> fm = true) ->
  (pos + pads + 1 + h) mod 8 = 0 ->
  run (dec_tail fs pads h s)
      (mkAst (repeat false (N.to_nat pads) ++ [false] ++ repeat true (N.to_nat h) ++ rest)
             pos out len)
  = Done (BBlock buf (if fs then FinalStream else if fm then FinalMeta else FinalNil))
         (mkAst rest (pos + pads + 1 + h) out len).
Proof.
  intros Hb Hn Hsym Hpo Hlen Hones Hh Hp Hfs Hal.
  unfold dec_tail. cbv zeta.
  rewrite Hsym, Hlen, Hones.
  destruct (tail_pure buf fm inv (repeat false pz ++ repeat true po) Hb Hn) as [T1 T2].
  rewrite T1.
  destruct (flags_spec fm inv (N.of_nat (length buf)) Hn) as [F1 [F2 [F3 _]]].
  rewrite F1, F2, F3, Nat2N.id, T2.
  change (N.of_nat 257 =? maxSyms) with true.
  rewrite N.eqb_refl.
  assert (Hnth : nth 256 (bytes_to_bits (cc_arr buf fm inv) ++ repeat false pz ++ repeat true po)
                     false = true).
  { assert (Hl : length (bytes_to_bits (cc_arr buf fm inv) ++ repeat false pz ++ repeat true po)
                 = 257%nat).
    { rewrite <- Hsym, fast_rev_eq, rev_length. exact Hlen. }
    rewrite app_assoc in Hl |- *. rewrite app_length, repeat_length in Hl.
    rewrite app_nth2 by lia.
    apply nth_repeat_lt. lia. }
  rewrite Hnth.
  assert (Hfin : negb (fs && negb fm) = true).
  { destruct fs; [rewrite (Hfs eq_refl)|]; reflexivity. }
  rewrite Hfin.
  assert (Hbuf : (if inv then map inv_byte (if inv then map inv_byte buf else buf)
                  else if inv then map inv_byte buf else buf) = buf).
  { destruct inv; [apply map_inv_inv; exact Hb | reflexivity]. }
  rewrite Hbuf.
  cbn [assert_p bind].
  rewrite <- val_bits_zero.
  rewrite !run_bind.
  rewrite run_read_bits by (apply N.neq_0_lt_0, N.pow_nonzero; lia).
  cbn [run]. change (0 <? 0) with false. cbn [chk].
  rewrite !run_bind.
  change ([false] ++ repeat true (N.to_nat h) ++ rest)
    with (val_bits (N.to_nat 1) 0 ++ repeat true (N.to_nat h) ++ rest).
  rewrite run_read_bits by (cbv; reflexivity).
  cbn [run]. change (0 <? 0) with false. cbn [chk].
  rewrite !run_bind.
  rewrite <- val_bits_ones by exact Hh.
  assert (H2 : 0 < 2 ^ h) by (apply N.neq_0_lt_0, N.pow_nonzero; lia).
  rewrite run_read_bits by lia.
  cbn [run]. rewrite N.eqb_refl. cbn [negb chk run a_pos].
  assert (Hm : (0 <? (pos + pads + 1 + h) mod 8) = false) by (rewrite Hal; reflexivity).
  cbn [bind run a_pos]. rewrite Hm. reflexivity.
Qed.

(* ---- header ----------------------------------------------------------- *)
Definition zero_triples (k : nat) : list bool := concat (repeat [false; false; false] k).

Lemma zero_triples_length k : length (zero_triples k) = (3 * k)%nat.
Proof.
  unfold zero_triples. induction k as [|k IH]; cbn [repeat concat]; [reflexivity|].
  rewrite app_length, IH. cbn [length]. lia.
Qed.

Lemma run_hclen_zeros k : forall rest pos out len,
  run (hclen_zeros k false) (mkAst (zero_triples k ++ rest) pos out len)
  = Done false (mkAst rest (pos + 3 * N.of_nat k) out len).
Proof.
  induction k as [|k IH]; intros rest pos out len.
  - cbn [hclen_zeros zero_triples repeat concat app run]. f_equal. f_equal. lia.
  - unfold zero_triples. cbn [hclen_zeros repeat concat chk]. fold (zero_triples k).
    rewrite <- app_assoc. rewrite !run_bind.
    change [false; false; false] with (val_bits (N.to_nat 3) 0).
    rewrite run_read_bits by (cbv; reflexivity).
    cbn [run]. change (negb (0 =? 0)) with false.
    rewrite IH. f_equal. f_equal. lia.
Qed.

Definition trailer_bits (pads h : N) : list bool :=
  repeat false (N.to_nat pads) ++ [false] ++ repeat true (N.to_nat h).

Lemma run_dec_mid h fs pads cn buf fm inv pz po rest pos out len :
  1 <= h <= 7 -> pads < 8 ->
  Forall nz cn -> noNN cn -> length (expand cn) = 256%nat ->
  false :: expand cn = bytes_to_bits (cc_arr buf fm inv) ++ repeat false pz ++ repeat true po ->
  (0 < po)%nat -> ntrue (expand cn) = 2 ^ h ->
  (forall b, In b buf -> b < 256) -> N.of_nat (length buf) < 32 ->
  (fs = true -> fm = true) ->
  let k := N.to_nat (4 + (8 - h) * 2 - 1 - 5) in
  let bodyb := sym_bits (enc_runs cn false) in
  let total := 3 * N.of_nat k + 3 + 1 + N.of_nat (length bodyb) + pads + 1 + h in
  (pos + total) mod 8 = 0 ->
  run (dec_mid (hdr_magic h fs + 8 * pads))
      (mkAst (zero_triples k ++ val_bits 3 2 ++ [false] ++ bodyb ++ trailer_bits pads h ++ rest)
             pos out len)
  = Done (BBlock buf (if fs then FinalStream else if fm then FinalMeta else FinalNil))
         (mkAst rest (pos + total) out len).
Proof.
  intros Hh Hp Hnz Hnn Hlen Hexp Hpo Hones Hb Hn Hfs k bodyb total Hal.
  destruct (hdr_facts h fs pads Hh Hp) as [_ [_ [M1 [M2 [M3 M4]]]]].
  unfold dec_mid. cbv zeta. rewrite M1, M2, M3, M4.
  cbn [assert_p bind].
  assert (E6 : (4 + (8 - h) * 2 <? 6) = false) by (apply N.ltb_ge; lia).
  rewrite E6.
  assert (Eh : 8 - (4 + (8 - h) * 2 - 4) / 2 = h) by lia.
  rewrite Eh.
  fold k.
  rewrite run_bind, run_hclen_zeros. cbn [chk].
  rewrite !run_bind.
  change (val_bits 3 2) with (val_bits (N.to_nat 3) 2).
  rewrite run_read_bits by (cbv; reflexivity).
  cbn [run]. change (negb (2 =? 2)) with false. cbn [chk].
  rewrite !run_bind.
  change ([false] ++ bodyb ++ trailer_bits pads h ++ rest)
    with (val_bits (N.to_nat 1) 0 ++ bodyb ++ trailer_bits pads h ++ rest).
  rewrite run_read_bits by (cbv; reflexivity).
  cbn [run]. change (negb (0 =? 0)) with false. cbn [negb assert_p bind].
  rewrite run_bind.
  destruct (body_roundtrip cn (trailer_bits pads h ++ rest) (pos + 3 * N.of_nat k + 3 + 1) out len
              Hnz Hnn Hlen) as [s' [R1 [R2 [R3 R4]]]].
  fold bodyb in R1. rewrite R1.
  unfold trailer_bits. rewrite <- !app_assoc.
  rewrite (run_dec_tail fs pads h s' buf fm inv pz po); auto.
  - f_equal. f_equal. subst total. lia.
  - rewrite fast_rev_eq, R2, rev_app_distr, rev_involutive. cbn [rev app]. exact Hexp.
  - rewrite R2, app_length, rev_length, Hlen. reflexivity.
  - rewrite R3. exact Hones.
  - rewrite <- Hal. f_equal. subst total. lia.
Qed.

(* ====================================================================== *)
(* 9. the shape of an encoded block                                        *)
(* ====================================================================== *)

Definition block_bits (h : N) (fs : bool) (pads : N) (cn : list Z) : list bool :=
  val_bits 32 (hdr_magic h fs + 8 * pads)
  ++ zero_triples (N.to_nat (4 + (8 - h) * 2 - 1 - 5))
  ++ val_bits 3 2 ++ [false]
  ++ sym_bits (enc_runs cn false)
  ++ trailer_bits pads h.

Lemma patch_eq h fs pads T : 1 <= h <= 7 -> pads < 8 ->
  firstn 3 (val_bits 32 (hdr_magic h fs) ++ T) ++ val_bits 3 pads
    ++ skipn 6 (val_bits 32 (hdr_magic h fs) ++ T)
  = val_bits 32 (hdr_magic h fs + 8 * pads) ++ T.
Proof.
  intros Hh Hp.
  destruct (hdr_facts h fs pads Hh Hp) as [M0 _].
  set (V := val_bits 32 (hdr_magic h fs)) in *.
  assert (HV : length V = 32%nat) by apply val_bits_length.
  rewrite firstn_app, skipn_app, HV. cbn [Nat.sub firstn skipn]. rewrite app_nil_r.
  set (P := firstn 3 V ++ val_bits 3 pads ++ skipn 6 V) in *.
  assert (HP : length P = 32%nat).
  { subst P. rewrite !app_length, firstn_length, skipn_length, val_bits_length, HV. reflexivity. }
  rewrite <- M0, <- HP, val_bits_bits_val. subst P. rewrite <- !app_assoc. reflexivity.
Qed.

Lemma run_bits_bump c : (c < 0)%Z -> run_bits c = false :: run_bits (c + 1).
Proof.
  intros H. unfold run_bits.
  assert (E1 : (0 <? c)%Z = false) by lia. assert (E2 : (0 <? c + 1)%Z = false) by lia.
  rewrite E1, E2. replace (Z.abs_nat c) with (S (Z.abs_nat (c + 1))) by lia. reflexivity.
Qed.

Lemma count_split (buf : list byte) (inv : bool) :
  (forall b, In b buf -> b < 256) ->
  let data := if inv then map inv_byte buf else buf in
  length data = length buf /\
  count_ones data = (if inv then count_zeros buf else count_ones buf).
Proof.
  intros Hb data. subst data. destruct inv.
  - split; [apply map_length | apply count_ones_inv; exact Hb].
  - split; reflexivity.
Qed.

Definition enc_all (h : N) (fs : bool) (bodyb : list bool) : list bool :=
  let numHCLen := 4 + (8 - h) * 2 in
  let magic := magicVals + N.b2n fs + (numHCLen - 4) * 2 ^ 13 in
  let hdr := val_bits 32 magic
             ++ concat (repeat [false; false; false] (N.to_nat (numHCLen - 1 - 5)))
             ++ val_bits 3 2 ++ [false] in
  let written := N.of_nat (length hdr + length bodyb) in
  let pads := (8 - (written + 1 + h) mod 8) mod 8 in
  let all := hdr ++ bodyb ++ repeat false (N.to_nat pads) ++ [false]
             ++ repeat true (N.to_nat h) in
  firstn 3 all ++ val_bits 3 pads ++ skipn 6 all.

Lemma encode_block_bits_eq buf final :
  encode_block_bits buf final =
  let '(h, inv) := computeHuffLen (count_zeros buf) (count_ones buf) in
  if h =? 0 then None else
  Some (enc_all h (fmode_eqb final FinalStream)
          (sym_bits (enc_runs (bump_head (computeCounts buf (2 ^ h)
                                 (negb (fmode_eqb final FinalNil)) inv)) false))).
Proof.
  unfold encode_block_bits.
  destruct (computeHuffLen (count_zeros buf) (count_ones buf)) as [h inv].
  reflexivity.
Qed.

Lemma enc_all_shape h fs bodyb : 1 <= h <= 7 ->
  exists pads, pads < 8 /\
    enc_all h fs bodyb =
      val_bits 32 (hdr_magic h fs + 8 * pads)
      ++ zero_triples (N.to_nat (4 + (8 - h) * 2 - 1 - 5))
      ++ val_bits 3 2 ++ [false] ++ bodyb ++ trailer_bits pads h /\
    N.of_nat (length (enc_all h fs bodyb)) mod 8 = 0.
Proof.
  intros Hh. unfold enc_all. cbv zeta.
  fold (hdr_magic h fs).
  fold (zero_triples (N.to_nat (4 + (8 - h) * 2 - 1 - 5))).
  set (k := N.to_nat (4 + (8 - h) * 2 - 1 - 5)).
  set (hdr := val_bits 32 (hdr_magic h fs) ++ zero_triples k ++ val_bits 3 2 ++ [false]).
  assert (Hhdr : length hdr = (32 + 3 * k + 4)%nat).
  { subst hdr. rewrite !app_length, !val_bits_length, zero_triples_length. cbn [length]. lia. }
  set (pads := (8 - (N.of_nat (length hdr + length bodyb) + 1 + h) mod 8) mod 8).
  assert (Hpads : pads < 8) by (subst pads; lia).
  assert (Hp0 : (N.of_nat (length hdr + length bodyb) + 1 + h + pads) mod 8 = 0)
    by (subst pads; lia).
  exists pads. split; [exact Hpads|].
  assert (Hshape : firstn 3 (hdr ++ bodyb ++ repeat false (N.to_nat pads) ++ [false]
                                  ++ repeat true (N.to_nat h))
                   ++ val_bits 3 pads
                   ++ skipn 6 (hdr ++ bodyb ++ repeat false (N.to_nat pads) ++ [false]
                                   ++ repeat true (N.to_nat h))
                   = val_bits 32 (hdr_magic h fs + 8 * pads) ++ zero_triples k
                     ++ val_bits 3 2 ++ [false] ++ bodyb ++ trailer_bits pads h).
  { subst hdr. rewrite <- !app_assoc.
    rewrite (patch_eq h fs pads _ Hh Hpads). unfold trailer_bits.
    rewrite <- ?app_assoc. reflexivity. }
  split; [exact Hshape|].
  rewrite Hshape. unfold trailer_bits.
  rewrite !app_length, !val_bits_length, zero_triples_length, !repeat_length.
  cbn [length]. rewrite Hhdr in Hp0. clearbody pads k. lia.
Qed.

Lemma encode_shape buf final bits :
  (forall b, In b buf -> b < 256) ->
  encode_block_bits buf final = Some bits ->
  let fm := negb (fmode_eqb final FinalNil) in
  let fs := fmode_eqb final FinalStream in
  exists h inv cn pz po pads,
    1 <= h <= 7 /\ pads < 8 /\ Forall nz cn /\ noNN cn /\ length (expand cn) = 256%nat /\
    false :: expand cn = bytes_to_bits (cc_arr buf fm inv) ++ repeat false pz ++ repeat true po /\
    (0 < po)%nat /\ ntrue (expand cn) = 2 ^ h /\ N.of_nat (length buf) < 32 /\
    bits = block_bits h fs pads cn /\
    N.of_nat (length bits) mod 8 = 0.
Proof.
  intros Hb Henc fm fs. rewrite encode_block_bits_eq in Henc.
  destruct (computeHuffLen (count_zeros buf) (count_ones buf)) as [h inv] eqn:EH.
  destruct (h =? 0) eqn:E0; [discriminate|]. apply N.eqb_neq in E0.
  injection Henc as Hbits.
  fold fm fs in Hbits.
  destruct (computeHuffLen_spec _ _ _ _ EH E0) as [Hh [Hz Ho]].
  pose proof (count_zeros_ones buf) as Hzo.
  destruct (count_split buf inv Hb) as [Dl Do].
  set (data := if inv then map inv_byte buf else buf) in *.
  assert (Hn : N.of_nat (length buf) < 32) by (destruct inv; lia).
  destruct (flags_spec fm inv (N.of_nat (length buf)) Hn) as [_ [_ [_ [Fp _]]]].
  set (arr := cc_arr buf fm inv).
  assert (Hco : count_ones arr = popcount8 (flags_byte fm inv (N.of_nat (length buf)))
                                 + count_ones data) by reflexivity.
  pose proof (count_zeros_ones arr) as Hzo'.
  assert (Hla : length arr = S (length buf)).
  { subst arr. unfold cc_arr. cbn [length]. fold data. rewrite Dl. reflexivity. }
  rewrite Hla in Hzo'.
  destruct (computeCounts_spec buf (2 ^ h) fm inv) as [c0 [r [C1 [C2 [C3 [C4 C5]]]]]].
  { fold arr. destruct inv; lia. }
  { fold arr. destruct inv; lia. }
  fold arr in C5.
  set (pz := N.to_nat (257 - 2 ^ h - count_zeros arr)) in *.
  set (po := N.to_nat (2 ^ h - count_ones arr)) in *.
  rewrite C1 in Hbits. cbn [bump_head] in Hbits.
  (* the runs after dropping the implicit first zero *)
  set (cn := if (c0 + 1 =? 0)%Z then r else (c0 + 1)%Z :: r).
  assert (Henc2 : enc_runs ((c0 + 1)%Z :: r) false = enc_runs cn false).
  { subst cn. destruct (c0 + 1 =? 0)%Z eqn:E1; [|reflexivity].
    cbn [enc_runs]. rewrite E1. reflexivity. }
  assert (Hexp : false :: expand cn = expand (c0 :: r)).
  { subst cn. cbn [expand flat_map]. rewrite (run_bits_bump c0 C2). cbn [app].
    destruct (c0 + 1 =? 0)%Z eqn:E1.
    - apply Z.eqb_eq in E1. rewrite E1. reflexivity.
    - reflexivity. }
  assert (Hcn1 : Forall nz cn).
  { subst cn. inversion C3 as [|? ? Hc Hr]; subst.
    destruct (c0 + 1 =? 0)%Z eqn:E1; [exact Hr|].
    constructor; [|exact Hr]. apply Z.eqb_neq in E1. exact E1. }
  assert (Hcn2 : noNN cn).
  { subst cn. destruct (c0 + 1 =? 0)%Z; [apply noNN_tail in C4; exact C4|].
    apply (noNN_resign c0); [exact C4 | lia]. }
  assert (Hlen257 : length (expand (c0 :: r)) = 257%nat).
  { rewrite C5, !app_length, !repeat_length, bytes_to_bits_length, Hla. subst pz po.
    destruct inv; lia. }
  assert (Hcn3 : length (expand cn) = 256%nat).
  { rewrite <- Hexp in Hlen257. cbn [length] in Hlen257. lia. }
  assert (Hpo : (0 < po)%nat) by (subst po; destruct inv; lia).
  assert (Hnt : ntrue (expand cn) = 2 ^ h).
  { change (ntrue (expand cn)) with (ntrue (false :: expand cn)).
    rewrite Hexp, C5, !ntrue_app, !ntrue_repeat, ntrue_bytes. subst po. destruct inv; lia. }
  rewrite Henc2 in Hbits.
  destruct (enc_all_shape h fs (sym_bits (enc_runs cn false)) Hh) as [pads [Hpads [S1 S2]]].
  rewrite Hbits in S1, S2.
  exists h, inv, cn, pz, po, pads.
  repeat split; try assumption; try lia.
  rewrite Hexp. exact C5.
Qed.

(* ====================================================================== *)
(* 10. the round trip                                                      *)
(* ====================================================================== *)

Lemma run_IsEof_nonempty {A} (k : bool -> prog A) l pos out len :
  l <> [] -> run (IsEof k) (mkAst l pos out len) = run (k false) (mkAst l pos out len).
Proof. intros H. destruct l; [congruence | reflexivity]. Qed.

Lemma final_of_flags final :
  (if fmode_eqb final FinalStream then FinalStream
   else if negb (fmode_eqb final FinalNil) then FinalMeta else FinalNil) = final.
Proof. destruct final; reflexivity. Qed.

(* every encoded block has a whole number of bytes *)
Theorem meta_block_length_aligned buf final bits :
  (forall b, In b buf -> b < 256) ->
  encode_block_bits buf final = Some bits ->
  N.of_nat (length bits) mod 8 = 0.
Proof.
  intros Hb Henc.
  destruct (encode_shape buf final bits Hb Henc)
    as [h [inv [cn [pz [po [pads [_ [_ [_ [_ [_ [_ [_ [_ [_ [_ H]]]]]]]]]]]]]]]].
  exact H.
Qed.

(* decoding an encoded block, at any byte-aligned position of any stream and
   whatever follows it, returns the payload and the final mode and consumes
   exactly the block *)
Theorem meta_block_roundtrip buf final bits :
  (forall b, In b buf -> b < 256) ->
  encode_block_bits buf final = Some bits ->
  forall rest pos out len,
    pos mod 8 = 0 ->
    run decode_block (mkAst (bits ++ rest) pos out len)
    = Done (BBlock buf final) (mkAst rest (pos + N.of_nat (length bits)) out len).
Proof.
  intros Hb Henc rest pos out len Hpos.
  destruct (encode_shape buf final bits Hb Henc)
    as [h [inv [cn [pz [po [pads [Hh [Hp [Hnz [Hnn [Hlen [Hexp [Hpo [Hnt [Hn [Hshape Hal]]]]]]]]]]]]]]]].
  set (fm := negb (fmode_eqb final FinalNil)) in *.
  set (fs := fmode_eqb final FinalStream) in *.
  assert (Hfs : fs = true -> fm = true) by (subst fs fm; destruct final; auto).
  destruct (hdr_facts h fs pads Hh Hp) as [_ [Hm32 _]].
  rewrite decode_block_eq.
  assert (Hne : bits ++ rest <> []).
  { intros E. apply (f_equal (@length bool)) in E. rewrite Hshape in E. unfold block_bits in E.
    rewrite !app_length, val_bits_length in E. cbn [length] in E. lia. }
  rewrite run_IsEof_nonempty by exact Hne.
  rewrite run_bind.
  assert (Hlenb : N.of_nat (length bits)
                  = 32 + (3 * N.of_nat (N.to_nat (4 + (8 - h) * 2 - 1 - 5)) + 3 + 1
                          + N.of_nat (length (sym_bits (enc_runs cn false))) + pads + 1 + h)).
  { rewrite Hshape. unfold block_bits, trailer_bits.
    rewrite !app_length, !val_bits_length, zero_triples_length, !repeat_length.
    cbn [length]. lia. }
  rewrite Hshape at 1. unfold block_bits. rewrite <- !app_assoc.
  change 32%nat with (N.to_nat 32) at 1.
  rewrite run_read_bits by exact Hm32.
  rewrite (run_dec_mid h fs pads cn buf fm inv pz po); auto.
  - unfold fs, fm. rewrite final_of_flags. f_equal. f_equal. rewrite Hlenb. lia.
  - rewrite Hlenb in Hal.
    match goal with |- (?a) mod 8 = 0 => match type of Hal with (?b) mod 8 = 0 =>
      replace a with (pos + b) by lia end end.
    lia.
Qed.

(* ---- whole bytes: what [encode_block] produces ------------------------- *)
Lemma bits_lsb_val l : length l = 8%nat -> bits_lsb (bits_val l) = l.
Proof.
  intros H.
  do 8 (destruct l as [|? l]; [discriminate|]).
  destruct l; [|discriminate].
  repeat match goal with b : bool |- _ => destruct b end; reflexivity.
Qed.

Lemma bytes_of_bits n : forall f l,
  length l = (8 * n)%nat -> (n <= f)%nat ->
  bytes_to_bits (bits_to_bytes_fuel f l) = l /\ length (bits_to_bytes_fuel f l) = n.
Proof.
  induction n as [|n IH]; intros f l Hl Hf.
  - destruct l; [|discriminate]. destruct f; split; reflexivity.
  - destruct f as [|f]; [lia|]. destruct l as [|x l]; [discriminate|].
    cbn [bits_to_bytes_fuel].
    destruct (IH f (skipn 8 (x :: l))) as [H1 H2].
    + rewrite skipn_length. lia.
    + lia.
    + cbn [bytes_to_bits flat_map length]. fold (bytes_to_bits (bits_to_bytes_fuel f (skipn 8 (x :: l)))).
      rewrite H1, H2. split; [|reflexivity].
      rewrite bits_lsb_val by (rewrite firstn_length; lia).
      apply firstn_skipn.
Qed.

Theorem meta_block_bytes_roundtrip buf final bytes :
  (forall b, In b buf -> b < 256) ->
  encode_block buf final = Some bytes ->
  forall rest pos out len,
    pos mod 8 = 0 ->
    run decode_block (mkAst (bytes_to_bits bytes ++ rest) pos out len)
    = Done (BBlock buf final) (mkAst rest (pos + 8 * N.of_nat (length bytes)) out len).
Proof.
  intros Hb Henc rest pos out len Hpos. unfold encode_block in Henc.
  destruct (encode_block_bits buf final) as [bits|] eqn:E; [|discriminate].
  injection Henc as <-.
  pose proof (meta_block_length_aligned buf final bits Hb E) as Hal.
  destruct (bytes_of_bits (length bits / 8) (S (length bits)) bits) as [H1 H2].
  - clear - Hal. lia.
  - clear. lia.
  - unfold bits_to_bytes. rewrite H1, H2.
    rewrite (meta_block_roundtrip buf final bits Hb E rest pos out len Hpos).
    f_equal. f_equal. clear - Hal. lia.
Qed.

(* ====================================================================== *)
(* 11. size of a block: 12 to 64 bytes                                     *)
(* ====================================================================== *)

Definition nbits (l : list msym) : N := N.of_nat (length (sym_bits l)).

Lemma nbits_cons m l : nbits (m :: l) = N.of_nat (length (msym_bits m)) + nbits l.
Proof. unfold nbits, sym_bits. cbn [flat_map]. rewrite app_length. lia. Qed.

Lemma nbits_app a b : nbits (a ++ b) = nbits a + nbits b.
Proof. unfold nbits. rewrite sym_bits_app, app_length. lia. Qed.

Lemma nbits_nil : nbits [] = 0.
Proof. reflexivity. Qed.

Lemma enc_run_cost fuel : forall one cnt ps,
  (N.to_nat cnt < fuel)%nat ->
  2 * nbits (enc_run fuel one cnt ps)
    <= (if one then 4 else 3) * cnt + (if ps && negb one then 1 else 0) /\
  (if one then 115 else 10) * cnt <= 138 * nbits (enc_run fuel one cnt ps).
Proof.
  induction fuel as [|f IH]; intros one cnt ps Hf; [lia|].
  cbn [enc_run].
  destruct (cnt =? 0) eqn:E0.
  { apply N.eqb_eq in E0. subst cnt. rewrite nbits_nil. destruct one, ps; cbn [andb negb]; lia. }
  apply N.eqb_neq in E0.
  destruct (negb one && (11 <=? cnt)) eqn:EA.
  { apply andb_true_iff in EA as [Eo E11]. apply negb_true_iff in Eo. subst one.
    apply N.leb_le in E11.
    rewrite nbits_cons. cbn [msym_bits app length]. rewrite val_bits_length.
    destruct (IH false (cnt - N.min 138 cnt) true) as [I1 I2]; [lia|].
    cbn [andb negb] in *. destruct ps; lia. }
  destruct (ps && (3 <=? cnt)) eqn:EB.
  { apply andb_true_iff in EB as [Ep E3]. subst ps. apply N.leb_le in E3.
    rewrite nbits_cons. cbn [msym_bits app length]. rewrite val_bits_length.
    destruct (IH one (cnt - N.min 6 cnt) true) as [I1 I2]; [lia|].
    destruct one; cbn [andb negb] in *; lia. }
  rewrite nbits_cons.
  destruct (IH one (cnt - 1) true) as [I1 I2]; [lia|].
  destruct one; cbn [msym_bits length andb negb] in *; destruct ps; cbn [andb negb] in *; lia.
Qed.

Definition extra_first (pre_one : bool) (cnts : list Z) : N :=
  match cnts with
  | c :: _ => if (c <? 0)%Z && negb pre_one then 1 else 0
  | [] => 0
  end.

Lemma enc_runs_cost cnts : forall pre_one,
  Forall nz cnts -> noNN cnts ->
  2 * nbits (enc_runs cnts pre_one)
    <= 3 * N.of_nat (length (expand cnts)) + ntrue (expand cnts) + extra_first pre_one cnts /\
  10 * N.of_nat (length (expand cnts)) + 105 * ntrue (expand cnts)
    <= 138 * nbits (enc_runs cnts pre_one).
Proof.
  induction cnts as [|c r IH]; intros pre_one Hnz Hnn.
  - cbn [enc_runs expand flat_map length ntrue extra_first]. rewrite nbits_nil. lia.
  - inversion Hnz as [|? ? Hc Hr]; subst. unfold nz in Hc.
    cbn [enc_runs]. assert (E0 : (c =? 0)%Z = false) by lia. rewrite E0.
    rewrite nbits_app.
    cbn [expand flat_map]. fold (expand r). rewrite app_length, ntrue_app, Nat2N.inj_add.
    assert (Hlr : N.of_nat (length (run_bits c)) = Z.abs_N c).
    { unfold run_bits. rewrite repeat_length. lia. }
    assert (Hnr : ntrue (run_bits c) = if (0 <? c)%Z then Z.abs_N c else 0).
    { unfold run_bits. rewrite ntrue_repeat. destruct (0 <? c)%Z; lia. }
    rewrite Hlr, Hnr.
    destruct (enc_run_cost (S (N.to_nat (Z.abs_N c))) (0 <? c)%Z (Z.abs_N c)
                (Bool.eqb pre_one (0 <? c)%Z)) as [K1 K2]; [lia|].
    destruct (IH (0 <? c)%Z Hr (noNN_tail _ _ Hnn)) as [J1 J2].
    assert (Hx : (0 <? c)%Z = false -> extra_first false r = 0).
    { intros Hneg. destruct r as [|c2 r2]; [reflexivity|].
      apply noNN_head in Hnn. cbn [extra_first].
      assert (E2 : (c2 <? 0)%Z = false) by lia. rewrite E2. reflexivity. }
    assert (Hx' : extra_first true r = 0).
    { destruct r; cbn [extra_first]; [reflexivity|]. rewrite andb_false_r. reflexivity. }
    cbn [extra_first].
    set (n1 := nbits (enc_run (S (N.to_nat (Z.abs_N c))) (0 <? c)%Z (Z.abs_N c)
                        (Bool.eqb pre_one (0 <? c)%Z))) in *.
    clearbody n1.
    destruct (0 <? c)%Z eqn:Es.
    + assert (E3 : (c <? 0)%Z = false) by lia. rewrite E3. cbn [andb].
      destruct pre_one; cbn [Bool.eqb andb negb] in *; lia.
    + assert (E3 : (c <? 0)%Z = true) by lia. rewrite E3.
      specialize (Hx eq_refl).
      destruct pre_one; cbn [Bool.eqb andb negb] in *; lia.
Qed.

Theorem meta_block_size buf final bits :
  (forall b, In b buf -> b < 256) ->
  encode_block_bits buf final = Some bits ->
  (12 * 8 <= length bits <= 64 * 8)%nat.
Proof.
  intros Hb Henc.
  destruct (encode_shape buf final bits Hb Henc)
    as [h [inv [cn [pz [po [pads [Hh [Hp [Hnz [Hnn [Hlen [_ [_ [Hnt [_ [Hshape Hal]]]]]]]]]]]]]]]].
  destruct (enc_runs_cost cn false Hnz Hnn) as [U L].
  rewrite Hlen, Hnt in U, L.
  assert (Hx : extra_first false cn <= 1).
  { destruct cn; cbn [extra_first]; [lia|]. destruct (_ && _); lia. }
  assert (Hlenb : N.of_nat (length bits)
                  = 32 + 3 * N.of_nat (N.to_nat (4 + (8 - h) * 2 - 1 - 5)) + 3 + 1
                    + nbits (enc_runs cn false) + pads + 1 + h).
  { rewrite Hshape. unfold block_bits, trailer_bits, nbits.
    rewrite !app_length, !val_bits_length, zero_triples_length, !repeat_length.
    cbn [length]. lia. }
  rewrite Hlenb in Hal.
  assert (12 * 8 <= N.of_nat (length bits) <= 64 * 8); [|lia].
  rewrite Hlenb. clear Hlenb Hshape.
  generalize dependent (nbits (enc_runs cn false)). intros nb U L Hal.
  destruct (h_cases h Hh) as [E|[E|[E|[E|[E|[E|E]]]]]]; subst h;
    cbn [N.pow Pos.pow Pos.iter Pos.mul] in U, L; lia.
Qed.

(* the same for the bytes of [encode_block] *)
Corollary meta_block_size_bytes buf final bytes :
  (forall b, In b buf -> b < 256) ->
  encode_block buf final = Some bytes ->
  (12 <= length bytes <= 64)%nat.
Proof.
  intros Hb Henc. unfold encode_block in Henc.
  destruct (encode_block_bits buf final) as [bits|] eqn:E; [|discriminate].
  injection Henc as <-.
  pose proof (meta_block_length_aligned buf final bits Hb E) as Hal.
  pose proof (meta_block_size buf final bits Hb E) as Hs.
  destruct (bytes_of_bits (length bits / 8) (S (length bits)) bits) as [H1 H2].
  - clear - Hal. lia.
  - clear. lia.
  - unfold bits_to_bytes. rewrite H2. clear - Hal Hs. lia.
Qed.

Print Assumptions body_roundtrip.
Print Assumptions meta_block_length_aligned.
Print Assumptions meta_block_roundtrip.
Print Assumptions meta_block_bytes_roundtrip.
Print Assumptions meta_block_size.
Print Assumptions meta_block_size_bytes.
