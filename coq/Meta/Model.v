(* XFLATE meta encoding: executable model of xflate/internal/meta.
   Encoder = pure function to bits; decoder = [prog]. Mirrors writer.go /
   reader.go function by function (see DESIGN.md C16). *)
From V Require Import Base.Prelude Base.Prog.

Definition magicVals : N := 0x05860004.
Definition magicMask : N := 0xfffe3fc6.
Definition maxSyms : N := 257.
Definition EnsureRawBytes : N := 22.
Definition MaxRawBytes : N := 31.

Inductive fmode := FinalNil | FinalMeta | FinalStream.
Definition fmode_eqb (a b : fmode) : bool :=
  match a, b with
  | FinalNil, FinalNil | FinalMeta, FinalMeta | FinalStream, FinalStream => true
  | _, _ => false
  end.
Definition fmode_N (m : fmode) : N :=
  match m with FinalNil => 0 | FinalMeta => 1 | FinalStream => 2 end.

(* ---- bit counting ---------------------------------------------------- *)
Definition popcount8 (b : byte) : N :=
  fold_right (fun x acc => N.b2n x + acc) 0 (bits_lsb b).
Definition count_ones (l : list byte) : N := fold_right (fun b acc => popcount8 b + acc) 0 l.
Definition count_zeros (l : list byte) : N := 8 * N.of_nat (length l) - count_ones l.

(* computeHuffLen: shortest Huffman length 1..7 that can hold the data, and
   whether to invert. 0 = does not fit. *)
Fixpoint huff_search (cands : list N) (zeros ones : N) : N :=
  match cands with
  | [] => 0
  | h :: r =>
    let maxOnes := 2 ^ h in
    if (zeros + 8 <=? maxSyms - maxOnes) && (maxOnes <=? maxSyms) && (ones + 8 <=? maxOnes)
    then h else huff_search r zeros ones
  end.
Definition computeHuffLen (zeros ones : N) : N * bool :=
  let inv := zeros <? ones in
  let '(z, o) := if inv then (ones, zeros) else (zeros, ones) in
  let h := huff_search [1;2;3;4;5;6;7] z o in
  if h =? 0 then (0, false) else (h, inv).

(* ---- encoder --------------------------------------------------------- *)
Inductive msym := MZero | MOne | MRepLast (v : N) | MRepZero (v : N).

Definition msym_bits (m : msym) : list bool :=
  match m with
  | MZero => [false]
  | MOne => [true; false]
  | MRepLast v => [true; true; false] ++ val_bits 2 v
  | MRepZero v => [true; true; true] ++ val_bits 7 v
  end.

(* computeCounts, literally: signed run lengths (+n ones, -n zeros) *)
Definition cc_step (st : list Z * Z) (bit : bool) : list Z * Z :=
  let '(cnts, pcnt) := st in
  let '(cnts, pcnt) :=
    if negb (Bool.eqb bit (0 <? pcnt)%Z) then (pcnt :: cnts, 0%Z) else (cnts, pcnt) in
  (cnts, (pcnt + (if bit then 1 else -1))%Z).

Definition flags_byte (final invert : bool) (len : N) : byte :=
  (N.b2n final * 2 + N.b2n invert * 4 + (len * 8)) mod 256.

Definition inv_byte (b : byte) : byte := 255 - b.

Definition computeCounts (buf : list byte) (maxOnes : N) (final invert : bool) : list Z :=
  let data := if invert then map inv_byte buf else buf in
  let arr := flags_byte final invert (N.of_nat (length buf)) :: data in
  let '(cnts, pcnt) := fold_left cc_step (bytes_to_bits arr) ([], 0%Z) in
  let zeros := count_zeros arr in
  let ones := count_ones arr in
  let '(cnts, pcnt) := if (0 <? pcnt)%Z then (pcnt :: cnts, 0%Z) else (cnts, pcnt) in
  let pcnt := (pcnt - (Z.of_N maxSyms - Z.of_N maxOnes - Z.of_N zeros))%Z in
  let '(cnts, pcnt) := if (pcnt <? 0)%Z then (pcnt :: cnts, 0%Z) else (cnts, pcnt) in
  let pcnt := (pcnt + (Z.of_N maxOnes - Z.of_N ones))%Z in
  fast_rev (pcnt :: cnts).

(* one run of [cnt] equal symbols; [pre_same]: previous symbol has the same
   sign as this run. Mirrors the switch in encodeBlock. *)
Fixpoint enc_run (fuel : nat) (one : bool) (cnt : N) (pre_same : bool) : list msym :=
  match fuel with
  | O => []
  | S f =>
    if cnt =? 0 then []
    else if negb one && (11 <=? cnt) then
      let v := N.min 138 cnt in MRepZero (v - 11) :: enc_run f one (cnt - v) true
    else if pre_same && (3 <=? cnt) then
      let v := N.min 6 cnt in MRepLast (v - 3) :: enc_run f one (cnt - v) true
    else (if one then MOne else MZero) :: enc_run f one (cnt - 1) true
  end.

(* pre: sign of the previous symbol, true = one. starts as zero (-1). *)
Fixpoint enc_runs (cnts : list Z) (pre_one : bool) : list msym :=
  match cnts with
  | [] => []
  | c :: r =>
    if (c =? 0)%Z then enc_runs r pre_one
    else
      let one := (0 <? c)%Z in
      let n := Z.abs_N c in
      enc_run (S (N.to_nat n)) one n (Bool.eqb pre_one one) ++ enc_runs r one
  end.

Definition bump_head (l : list Z) : list Z :=
  match l with [] => [] | c :: r => (c + 1)%Z :: r end.

Definition encode_block_bits (buf : list byte) (final : fmode) : option (list bool) :=
  let zeros := count_zeros buf in
  let ones := count_ones buf in
  let '(huffLen, inv) := computeHuffLen zeros ones in
  if huffLen =? 0 then None else
  let numHCLen := 4 + (8 - huffLen) * 2 in
  let magic := magicVals + N.b2n (fmode_eqb final FinalStream) + (numHCLen - 4) * 2 ^ 13 in
  let hdr := val_bits 32 magic
             ++ concat (repeat [false; false; false] (N.to_nat (numHCLen - 1 - 5)))
             ++ val_bits 3 2 ++ [false] in
  let cnts := bump_head (computeCounts buf (2 ^ huffLen) (negb (fmode_eqb final FinalNil)) inv) in
  let body := flat_map msym_bits (enc_runs cnts false) in
  let written := N.of_nat (length hdr + length body) in
  let pads := (8 - (written + 1 + huffLen) mod 8) mod 8 in
  let all := hdr ++ body ++ repeat false (N.to_nat pads) ++ [false]
             ++ repeat true (N.to_nat huffLen) in
  (* patch NumHLit size: bits 3..5 of the first byte *)
  let patched := firstn 3 all ++ val_bits 3 pads ++ skipn 6 all in
  Some patched.

Definition encode_block (buf : list byte) (final : fmode) : option (list byte) :=
  option_map bits_to_bytes (encode_block_bits buf final).

(* Writer.Write buffering rule + Close: the sequence of blocks for a payload.
   State: buffered bytes (in order). Split-independent by construction:
   the rule looks only at the buffer and the next byte. *)
Definition fits_with (buf : list byte) (b : byte) : bool :=
  (N.of_nat (length buf) <? EnsureRawBytes) ||
  negb (fst (computeHuffLen (count_zeros buf + (8 - popcount8 b))
                            (count_ones buf + popcount8 b)) =? 0).

Fixpoint writer_blocks (payload : list byte) (buf : list byte) : list (list byte) :=
  match payload with
  | [] => [buf]                                  (* Close encodes what is buffered *)
  | b :: r =>
    if fits_with buf b then writer_blocks r (buf ++ [b])
    else buf :: writer_blocks r [b]
  end.

Fixpoint encode_blocks (bs : list (list byte)) (final : fmode) : option (list byte) :=
  match bs with
  | [] => Some []
  | [b] => encode_block b final
  | b :: r =>
    match encode_block b FinalNil, encode_blocks r final with
    | Some x, Some y => Some (x ++ y)
    | _, _ => None
    end
  end.

Definition meta_encode (payload : list byte) (final : fmode) : option (list byte) :=
  encode_blocks (writer_blocks payload []) final.

(* ---- decoder --------------------------------------------------------- *)
Definition decHuff : list code :=
  [(0, [false]); (1, [true; false]); (2, [true; true; false]); (3, [true; true; true])].

Definition read_bits (n : N) : prog N := bits_lsbf (N.to_nat n).

(* fail-accumulating reads with Go's short-circuit: once failed, no reads *)
Definition chk (fail : bool) (p : prog bool) : prog bool :=
  if fail then Ret true else p.

Fixpoint hclen_zeros (n : nat) (fail : bool) : prog bool :=
  match n with
  | O => Ret fail
  | S n' => f <- chk fail (v <- read_bits 3 ;; Ret (negb (v =? 0))) ;; hclen_zeros n' f
  end.

Record symst := mkSymst {
  ss_idx : N; ss_bit : bool; ss_ones : N; ss_fifo : N; ss_bits : list bool (* reversed *)
}.

Definition shr (x n : N) : N := N.shiftr x n.
Definition b8 (x : N) : N := x mod 256.

Definition sym_body (s : symst) : prog (symst + symst) :=
  if 256 <=? ss_idx s then Ret (inr s) else
  o <- sym_walk 3 decHuff [] ;;
  match o with
  | None => Throw EPanic
  | Some sym =>
    r <- (if sym =? 0 then
            Ret (false, 1, N.lor (shr (ss_fifo s) 1) 0)
          else if sym =? 1 then
            Ret (true, 1, N.lor (shr (ss_fifo s) 2) 64)
          else if sym =? 2 then
            v <- read_bits 2 ;;
            let f1 := N.lor (shr (ss_fifo s) 3) 96 in
            Ret (ss_bit s, v + 3, N.lor (shr f1 2) (b8 (v * 64)))
          else
            v <- read_bits 7 ;;
            let f1 := N.lor (shr (ss_fifo s) 3) 224 in
            Ret (false, v + 11, N.lor (shr f1 7) (b8 (v * 2)))) ;;
    let '(bit, cnt, fifo) := r in
    if fifo =? 0 then Throw ECorrupted else
    Ret (inl (mkSymst (ss_idx s + cnt) bit
                      (ss_ones s + (if bit then cnt else 0)) fifo
                      (repeat bit (N.to_nat cnt) ++ ss_bits s)))
  end.

(* outcome of one block *)
Inductive blockres :=
| BEof                                   (* clean EOF before the first bit *)
| BBlock (payload : list byte) (final : fmode).

Definition decode_block : prog blockres :=
  IsEof (fun eof => if eof then Ret BEof else
  magic <- read_bits 32 ;;
  assert_p (N.land magic magicMask =? magicVals) ECorrupted ;;;
  let finalStream := N.testbit magic 0 in
  let pads := N.land (shr magic 3) 7 in
  let numHCLen := 4 + N.land (shr magic 13) 15 in
  let fail := numHCLen <? 6 in
  fail <- hclen_zeros (N.to_nat (numHCLen - 1 - 5)) fail ;;
  fail <- chk fail (v <- read_bits 3 ;; Ret (negb (v =? 2))) ;;
  fail <- chk fail (v <- read_bits 1 ;; Ret (negb (v =? 0))) ;;
  assert_p (negb fail) ECorrupted ;;;
  let huffLen := 8 - (numHCLen - 4) / 2 in
  let huffRange := 2 ^ huffLen in
  s <- loop 9 sym_body (mkSymst 0 false 0 255 [false]) ;;
  assert_p (N.of_nat (length (ss_bits s)) =? maxSyms) ECorrupted ;;;
  let symbits := fast_rev (ss_bits s) in
  let syms := bits_to_bytes symbits in           (* 33 bytes *)
  assert_p (ss_ones s =? huffRange) ECorrupted ;;;
  assert_p (nth 256 symbits false) ECorrupted ;;;
  let flags := nth 0 syms 0 in
  let finalMeta := N.testbit flags 1 in
  let invert := N.testbit flags 2 in
  let size := shr flags 3 in
  let raw := firstn (N.to_nat size) (skipn 1 syms) in
  let buf := if invert then map inv_byte raw else raw in
  assert_p (negb (finalStream && negb finalMeta)) ECorrupted ;;;
  let final := if finalStream then FinalStream else if finalMeta then FinalMeta else FinalNil in
  fail <- (v <- read_bits pads ;; Ret (0 <? v)) ;;
  fail <- chk fail (v <- read_bits 1 ;; Ret (0 <? v)) ;;
  fail <- chk fail (v <- read_bits huffLen ;; Ret (negb (v =? huffRange - 1))) ;;
  fail <- chk fail (Pos (fun p => Ret (0 <? p mod 8))) ;;
  assert_p (negb fail) ECorrupted ;;;
  Ret (BBlock buf final)).

(* Reader.Read to the end: payload goes to the output, result = (final, #blocks).
   Stops after the first block with a final bit; clean EOF at a block start
   yields FinalNil. *)
Definition stream_body (nb : N) : prog (N + (fmode * N)) :=
  r <- decode_block ;;
  match r with
  | BEof => Ret (inr (FinalNil, nb))
  | BBlock buf final =>
    put_all buf ;;;
    match final with
    | FinalNil => Ret (inl (nb + 1))
    | _ => Ret (inr (final, nb + 1))
    end
  end.

Definition decode_stream (depth : nat) : prog (fmode * N) := loop depth stream_body 0.

(* convenience for callers holding bytes *)
Record meta_result := mkMR {
  mr_err : option err; mr_payload : list byte; mr_final : fmode; mr_blocks : N; mr_used : N
}.

Definition meta_decode (input : list byte) : meta_result :=
  match run (decode_stream 40) (ast_init (bytes_to_bits input)) with
  | Done (f, nb) s => mkMR None (fast_rev (a_out s)) f nb ((a_pos s + 7) / 8)
  | Fail e s => mkMR (Some e) (fast_rev (a_out s)) FinalNil 0 ((a_pos s + 7) / 8)
  end.

(* ReverseSearch: last index i with (le32 data[i..i+4] & mask) = vals.
   The Go loop keeps a rolling 32-bit window, so near the end of the buffer
   missing bytes count as zero. *)
Fixpoint le32_at (l : list byte) : N :=
  match l with
  | a :: r => match r with
    | b :: r2 => match r2 with
      | c :: r3 => match r3 with
        | d :: _ => a + 256 * b + 65536 * c + 16777216 * d
        | [] => a + 256 * b + 65536 * c end
      | [] => a + 256 * b end
    | [] => a end
  | [] => 0
  end.

Fixpoint rsearch_from (l : list byte) (i : N) (best : option N) : option N :=
  match l with
  | [] => best
  | _ :: r =>
    let best' := if N.land (le32_at l) magicMask =? magicVals then Some i else best in
    rsearch_from r (i + 1) best'
  end.
Definition reverse_search (data : list byte) : option N := rsearch_from data 0 None.
