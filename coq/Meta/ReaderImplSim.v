(* Block-level simulation for the refinement  Meta/ReaderImpl.v  ->  Meta/Model.v :
   from a bit reader state consistent with the abstract bit position R (the invariant [BIs]
   of Flate/ImplRel.v with no look-ahead slack), the body of decodeBlock ([block_body]) and
   the specification [decode_block] run at [sigma data R out] end alike: the same block
   (payload, final mode) at the same end position, the clean end of the source, or the same
   error class. On every path the bit reader stays consistent with some position (so that the
   deferred Flush is exact).

   Built from: Flate/ImplBits.v, Flate/ImplBitsFail.v (bit reader operations against [BIs]),
   Flate/SpecChar.v (the specification's [run] on [sigma]), Flate/ImplHdrPure.v (tables
   built at package initialisation), Prefix/WriterThms.v, Prefix/WriterFieldsThms.v,
   Meta/WriterImplBits.v (the temporary bit writer over a bytes.Buffer). *)
From V Require Import Base.Prelude Base.Prog Base.ProgThms Base.DepthThms Base.FuelThms Bzip2.Common
  Prefix.Code Prefix.ReaderImpl Prefix.ReaderSpec Prefix.ReaderThms
  Prefix.DecTable Prefix.DecTableSpec Prefix.DecTableThms Prefix.DecReadThms Prefix.DecReadBufThms
  Prefix.DecCanonThms Prefix.WriterImpl Prefix.WriterSpec Prefix.WriterFields.
From V Require Prefix.WriterThms Prefix.WriterFieldsThms.
From V Require Import Flate.Canon Flate.Impl Flate.ImplRel Flate.ImplBits Flate.ImplBitsFail
  Flate.SpecChar Flate.ImplHdrPure Flate.ImplCfg.
From V Require Import Meta.Model Meta.DecTotal Meta.WriterImplBits Meta.ReaderImpl.
From Coq Require Import ZifyBool ZifyN ZifyNat.

Local Open Scope N_scope.
Local Open Scope mr_scope.

(* ---- decHuff -------------------------------------------------------------------------------- *)
Definition mcodes : list pcode := canon_codes meta_code_lens.

Lemma mcodes_eq : mcodes = [(0, 1, 0); (1, 2, 1); (2, 3, 3); (3, 3, 7)].
Proof. vm_compute. reflexivity. Qed.

Lemma meta_tables : exists d, meta_dec = IOk d /\
  dec_valid 27 mcodes /\ zero_min mcodes /\ tables_ok mcodes d /\ d_minBits d = 1.
Proof.
  destruct (fixed_tables meta_code_lens 4) as (d & E & _ & _ & _ & HV & HZ & HT & Emin);
    try (vm_compute; reflexivity); try (cbn [length meta_code_lens]; lia).
  exists d. split; [exact E|]. split; [exact HV|]. split; [exact HZ|]. split; [exact HT|].
  rewrite Emin. vm_compute. reflexivity.
Qed.

(* ---- the wrappers of Meta/ReaderImpl.v are those of Flate/ImplRel.v -------------------------- *)
Definition bres_of_res {A} (r : res A) : bres A :=
  match r with ROk a => BOk a | RThrow e => BThrow e end.

Lemma b_symbol_fast_eq d p :
  b_symbol_fast d p = (bres_of_res (fst (sym_fast d p)), snd (sym_fast d p)).
Proof.
  unfold b_symbol_fast, sym_fast. destruct (try_read_symbol d p) as [[[s|]|] p']; cbn [fst snd bres_of_res];
    try reflexivity.
  unfold sym_slow. destruct (dt_read_symbol d p') as [r p2]. cbn [fst snd].
  destruct r; reflexivity.
Qed.

Lemma b_read_bits_eq nb p :
  b_read_bits nb p =
  (match fst (Prefix.ReaderImpl.read_bits p nb) with Some v => BOk v | None => BThrow EUEOF end, snd (Prefix.ReaderImpl.read_bits p nb)).
Proof. unfold b_read_bits. destruct (Prefix.ReaderImpl.read_bits p nb) as [[v|] p']; reflexivity. Qed.

Lemma b_bits_fast_eq nb p :
  b_bits_fast nb p =
  (match fst (bits_fast p nb) with Some v => BOk v | None => BThrow EUEOF end, snd (bits_fast p nb)).
Proof.
  unfold b_bits_fast, bits_fast. destruct (try_read_bits p nb) as [[v|] p']; cbn [fst snd]; [reflexivity|].
  apply b_read_bits_eq.
Qed.

(* ---- small facts about bit lists ---------------------------------------------------------- *)
Lemma bits_val_app_false l k : bits_val (l ++ repeat false k) = bits_val l.
Proof.
  induction l as [|b l IH]; cbn [app bits_val].
  - induction k as [|k IHk]; cbn [repeat bits_val N.b2n]; [reflexivity | rewrite IHk; reflexivity].
  - rewrite IH. reflexivity.
Qed.

Lemma read_bits_is_rbits nb : Model.read_bits nb = Flate.Spec.rbits nb.
Proof. reflexivity. Qed.

(* ---- the 257 symbol bits as 33 bytes -------------------------------------------------------- *)
Notation WInv := (Prefix.WriterThms.Inv false).
Notation SFF := Prefix.WriterThms.SFF.

Lemma rev_repeat_eq {A} (x : A) n : rev (repeat x n) = repeat x n.
Proof.
  induction n as [|n IH]; cbn [repeat rev]; [reflexivity|].
  rewrite IH. symmetry. apply repeat_cons.
Qed.

Lemma fields_app_rep bits b n :
  fields_app bits (repeat (FSym (N.b2n b) 1) n) = bits ++ repeat b n.
Proof.
  revert bits. induction n as [|n IH]; intros bits; cbn [repeat]; [rewrite app_nil_r; reflexivity|].
  rewrite Prefix.WriterFieldsThms.fields_app_cons, IH. cbn [field_app N.to_nat Pos.to_nat Pos.iter_op val_bits].
  rewrite <- app_assoc. f_equal. cbn [app]. f_equal. destruct b; reflexivity.
Qed.

(* bits_to_bytes pads the last group with zeros; pack wants whole groups *)
Lemma btb_fuel_pad : forall n l fuel, (length l <= n)%nat -> (length l < fuel)%nat ->
  bits_to_bytes_fuel fuel l = pack false (l ++ repeat false (pads_at (length l))).
Proof.
  induction n as [|n IH]; intros l fuel Hn Hf.
  - destruct l; [|cbn [length] in Hn; lia]. destruct fuel; reflexivity.
  - destruct fuel as [|fuel]; [lia|].
    destruct l as [|b0 l]; [reflexivity|].
    destruct (Nat.le_gt_cases 8 (length (b0 :: l))) as [H8|H8].
    + destruct l as [|b1 [|b2 [|b3 [|b4 [|b5 [|b6 [|b7 r]]]]]]]; cbn [length] in H8; try lia.
      cbn [bits_to_bytes_fuel firstn skipn app pack ord]. f_equal.
      rewrite (IH r fuel) by (cbn [length] in *; lia).
      f_equal. f_equal. f_equal. unfold pads_at. cbn [length].
      replace (S (S (S (S (S (S (S (S (length r))))))))) with (length r + 1 * 8)%nat by lia.
      rewrite Nat.mod_add by lia. reflexivity.
    + assert (Hs : skipn 8 (b0 :: l) = []) by (apply skipn_all2; lia).
      assert (Hfst : firstn 8 (b0 :: l) = b0 :: l) by (apply firstn_all2; lia).
      cbn [bits_to_bytes_fuel]. rewrite Hs, Hfst.
      assert (Hp : pads_at (length (b0 :: l)) = (8 - length (b0 :: l))%nat).
      { unfold pads_at. cbn [length] in *. lia. }
      rewrite Hp.
      assert (E : exists c0 c1 c2 c3 c4 c5 c6 c7,
                 (b0 :: l) ++ repeat false (8 - length (b0 :: l)) = [c0; c1; c2; c3; c4; c5; c6; c7]).
      { destruct l as [|b1 [|b2 [|b3 [|b4 [|b5 [|b6 [|b7 r]]]]]]]; cbn [length] in H8; try lia;
          cbn; repeat eexists. }
      destruct E as (c0 & c1 & c2 & c3 & c4 & c5 & c6 & c7 & E).
      rewrite E. cbn [pack ord]. rewrite <- E, bits_val_app_false.
      destruct fuel; reflexivity.
Qed.

Lemma bits_to_bytes_pad l : bits_to_bytes l = pack false (l ++ repeat false (pads_at (length l))).
Proof. unfold bits_to_bytes. apply (btb_fuel_pad (length l)); lia. Qed.

Lemma pack_length : forall n l, (length l <= n)%nat -> length (pack false l) = (length l / 8)%nat.
Proof.
  induction n as [|n IH]; intros l Hn.
  - destruct l; [reflexivity | cbn [length] in Hn; lia].
  - destruct l as [|b0 [|b1 [|b2 [|b3 [|b4 [|b5 [|b6 [|b7 r]]]]]]]]; try reflexivity.
    cbn [pack length]. rewrite (IH r) by (cbn [length] in Hn; lia).
    replace (S (S (S (S (S (S (S (S (length r))))))))) with (length r + 1 * 8)%nat by lia.
    rewrite Nat.div_add by lia. lia.
Qed.

Lemma pack_nth : forall i l, (8 * i + 8 <= length l)%nat ->
  nth_error (pack false l) i = Some (bits_val (firstn 8 (skipn (8 * i) l))).
Proof.
  induction i as [|i IH]; intros l Hl.
  - destruct l as [|b0 [|b1 [|b2 [|b3 [|b4 [|b5 [|b6 [|b7 r]]]]]]]]; cbn [length] in Hl; try lia.
    reflexivity.
  - destruct l as [|b0 [|b1 [|b2 [|b3 [|b4 [|b5 [|b6 [|b7 r]]]]]]]]; cbn [length] in Hl; try lia.
    cbn [pack nth_error]. rewrite IH by lia.
    replace (8 * S i)%nat with (8 + 8 * i)%nat by lia. rewrite <- skipn_skipn'. reflexivity.
Qed.

(* ---- the temporary bit writer over the bytes.Buffer ------------------------------------------ *)
Lemma bw_start_ok : exists bw1, bw_start = BOk bw1 /\ WInv [false] bw1 /\ SFF (bw_sink bw1).
Proof.
  unfold bw_start.
  destruct (frun_ff [FBits 0 1] [] (pw_init zero_pwr (new_sink [] SAccept) false)) as (p' & E & HI & HF).
  - apply Prefix.WriterFieldsThms.Inv_pw_init.
  - apply SFF_new.
  - constructor; [cbn [field_ok]; split; [reflexivity | lia] | constructor].
  - rewrite E. exists p'. split; [reflexivity|]. split; [exact HI | exact HF].
Qed.

Lemma finish_syms_ok bw bits : WInv bits bw -> SFF (bw_sink bw) -> length bits = 257%nat ->
  finish_syms bw = BOk (bits_to_bytes bits).
Proof.
  intros HI HF Hl. unfold finish_syms.
  destruct (frun_ff [FBits 0 pads_257] bits bw HI HF) as (bw2 & E & HI2 & HF2).
  { constructor; [cbn [field_ok]; split; [reflexivity | unfold pads_257; lia] | constructor]. }
  rewrite E. destruct (wflush_ff _ bw2 HI2 HF2) as (r & bw3 & E3 & HI3 & Hc & Hn). rewrite E3.
  f_equal. rewrite (Prefix.WriterThms.Inv_flushed false _ bw3 HI3 Hc Hn). rewrite bits_to_bytes_pad.
  f_equal. rewrite Hl. reflexivity.
Qed.

Definition spec_final (finalStream finalMeta : bool) : fmode :=
  if finalStream then FinalStream else if finalMeta then FinalMeta else FinalNil.

Lemma inv_byte_lxor b : b < 256 -> byte_of (N.lxor b 255) = inv_byte b.
Proof.
  intros Hb.
  assert (H : forallb (fun b => byte_of (N.lxor b 255) =? inv_byte b) (map N.of_nat (seq 0 256)) = true)
    by (vm_compute; reflexivity).
  rewrite forallb_forall in H. apply N.eqb_eq. apply H. apply in_map_iff.
  exists (N.to_nat b). split; [lia|]. apply in_seq. lia.
Qed.

Lemma block_data_spec symbits finalStream : length symbits = 257%nat ->
  let syms := bits_to_bytes symbits in
  let flags := nth 0 syms 0 in
  let finalMeta := N.testbit flags 1 in
  let invert := N.testbit flags 2 in
  let size := shr flags 3 in
  let raw := firstn (N.to_nat size) (skipn 1 syms) in
  let buf := if invert then map inv_byte raw else raw in
  block_data syms finalStream =
    if negb (nth 256 symbits false) then BRet ECorrupted
    else if finalStream && negb finalMeta then BRet ECorrupted
    else BOk (buf, spec_final finalStream finalMeta).
Proof.
  intros Hl. cbv zeta.
  set (syms := bits_to_bytes symbits).
  set (l' := symbits ++ repeat false 7).
  assert (Es : syms = pack false l').
  { unfold syms. rewrite bits_to_bytes_pad, Hl. reflexivity. }
  assert (Hl' : length l' = 264%nat) by (unfold l'; rewrite app_length, repeat_length; lia).
  assert (Hlen : length syms = 33%nat).
  { rewrite Es, (pack_length 264) by lia. rewrite Hl'. reflexivity. }
  assert (Hok : bytes_ok syms) by (rewrite Es; apply Prefix.WriterThms.pack_bytes_ok).
  (* the terminator symbol *)
  assert (E32 : exists b32, nth_error syms 32 = Some b32 /\ N.testbit b32 0 = nth 256 symbits false).
  { rewrite Es, pack_nth by lia. eexists. split; [reflexivity|].
    change (8 * 32)%nat with 256%nat. unfold l'. rewrite skipn_app.
    rewrite Hl. change (256 - 257)%nat with 0%nat. change (skipn 0 (repeat false 7)) with (repeat false 7).
    assert (E1 : skipn 256 symbits = [nth 256 symbits false]).
    { rewrite <- (firstn_skipn 256 symbits) at 2.
      assert (Hf : length (firstn 256 symbits) = 256%nat) by (rewrite firstn_length; lia).
      rewrite app_nth2 by lia. rewrite Hf. change (256 - 256)%nat with 0%nat.
      pose proof (skipn_length 256 symbits) as Hs. rewrite Hl in Hs.
      destruct (skipn 256 symbits) as [|x [|y r]]; cbn [length] in Hs; try lia. reflexivity. }
    rewrite E1. cbn [app repeat firstn bits_val].
    rewrite N.bit0_odd. rewrite N.odd_add_mul_2. destruct (nth 256 symbits false); reflexivity. }
  destruct E32 as (b32 & E32 & Hb32).
  unfold block_data. rewrite E32, Hb32.
  destruct (nth 256 symbits false); cbn [negb]; [|reflexivity].
  destruct syms as [|flags rest] eqn:Esy; [cbn [length] in Hlen; lia|].
  cbn [nth_error nth].
  assert (Hfl : flags < 256).
  { unfold bytes_ok in Hok. rewrite Forall_forall in Hok. apply Hok. left. reflexivity. }
  assert (Hsz : N.land (N.shiftr flags 3) 31 = shr flags 3).
  { unfold shr. change 31 with (N.ones 5). rewrite N.land_ones. apply N.mod_small.
    rewrite N.shiftr_div_pow2. change (2 ^ 3) with 8. change (2 ^ 5) with 32. lia. }
  rewrite Hsz.
  assert (Hs31 : shr flags 3 <= 31).
  { unfold shr. rewrite N.shiftr_div_pow2. change (2 ^ 3) with 8. lia. }
  replace (N.of_nat (length (flags :: rest)) <? 1 + shr flags 3) with false by (rewrite Hlen; lia).
  destruct (finalStream && negb (N.testbit flags 1)) eqn:Ef; [reflexivity|].
  f_equal. f_equal.
  - destruct (N.testbit flags 2); [|reflexivity].
    apply map_ext_in. intros b Hb. apply inv_byte_lxor.
    unfold bytes_ok in Hok. rewrite Forall_forall in Hok. apply Hok.
    right. change (skipn 1 (flags :: rest)) with rest in Hb.
    rewrite <- (firstn_skipn (N.to_nat (shr flags 3)) rest). apply in_or_app. left. exact Hb.
  - unfold fmode_of_bits, spec_final. destruct finalStream, (N.testbit flags 1); cbn in *; try reflexivity; discriminate.
Qed.

(* ---- decode_block of Meta/Model.v, cut where block_body of Meta/ReaderImpl.v is cut --------- *)
Definition spec_after_magic (magic : N) : prog blockres :=
  (assert_p (N.land magic magicMask =? magicVals) ECorrupted ;;;
  let finalStream := N.testbit magic 0 in
  let pads := N.land (shr magic 3) 7 in
  let numHCLen := 4 + N.land (shr magic 13) 15 in
  let fail := numHCLen <? 6 in
  fail <- hclen_zeros (N.to_nat (numHCLen - 1 - 5)) fail ;;
  fail <- chk fail (v <- Model.read_bits 3 ;; Ret (negb (v =? 2))) ;;
  fail <- chk fail (v <- Model.read_bits 1 ;; Ret (negb (v =? 0))) ;;
  assert_p (negb fail) ECorrupted ;;;
  let huffLen := 8 - (numHCLen - 4) / 2 in
  let huffRange := 2 ^ huffLen in
  s <- loop 9 sym_body (mkSymst 0 false 0 255 [false]) ;;
  assert_p (N.of_nat (length (ss_bits s)) =? maxSyms) ECorrupted ;;;
  let symbits := fast_rev (ss_bits s) in
  let syms := bits_to_bytes symbits in
  assert_p (ss_ones s =? huffRange) ECorrupted ;;;
  assert_p (nth 256 symbits false) ECorrupted ;;;
  let flags := nth 0 syms 0 in
  let finalMeta := N.testbit flags 1 in
  let invert := N.testbit flags 2 in
  let size := shr flags 3 in
  let raw := firstn (N.to_nat size) (skipn 1 syms) in
  let buf := if invert then map inv_byte raw else raw in
  assert_p (negb (finalStream && negb finalMeta)) ECorrupted ;;;
  let final := if finalStream then FinalStream else if finalMeta then FinalMeta else FinalNil in
  fail <- (v <- Model.read_bits pads ;; Ret (0 <? v)) ;;
  fail <- chk fail (v <- Model.read_bits 1 ;; Ret (0 <? v)) ;;
  fail <- chk fail (v <- Model.read_bits huffLen ;; Ret (negb (v =? huffRange - 1))) ;;
  fail <- chk fail (Pos (fun p => Ret (0 <? p mod 8))) ;;
  assert_p (negb fail) ECorrupted ;;;
  Ret (BBlock buf final))%prog.

Lemma decode_block_eq :
  decode_block = IsEof (fun eof => if eof then Ret BEof else
                   (magic <- Model.read_bits 32 ;; spec_after_magic magic)%prog).
Proof. reflexivity. Qed.

Lemma int64_wrap_small z : (0 <= z < 2 ^ 62)%Z -> int64_wrap z = z.
Proof.
  intros H. unfold int64_wrap. change (2 ^ 63)%Z with 9223372036854775808%Z.
  change (2 ^ 64)%Z with 18446744073709551616%Z. change (2 ^ 62)%Z with 4611686018427387904%Z in H. lia.
Qed.

Lemma land7_le x : N.land x 7 <= 7.
Proof.
  change 7 with (N.ones 3) at 1. rewrite N.land_ones. change (2 ^ 3) with 8.
  pose proof (N.mod_upper_bound x 8). lia.
Qed.

Section Sim.
Variable data : list byte.
Hypothesis Hd : forall b, In b data -> b < 256.
Variable bf : bool.
Variable out : list byte.

Local Notation sg := (sigma data).

(* the bit reader at abstract position R, no look-ahead slack *)
Definition St (R : nat) (p : prd) : Prop := BIs data 0 R p /\ p_buffered p = bf.
(* the bit reader after a failure: still consistent with some position *)
Definition Bad (p : prd) : Prop := (exists R, BIs data 64 R p) /\ p_buffered p = bf.

Lemma St_Bad R p : St R p -> Bad p.
Proof.
  intros [HB Hb]. split; [|exact Hb]. exists R. apply (BIs_weaken data Hd 0 64 R p); [lia | exact HB].
Qed.

Lemma St_range R p : St R p -> (R <= nbits data)%nat.
Proof. intros [HB _]. pose proof (BIs_range data Hd 0 R p HB). lia. Qed.

Definition simres {A A'} (rel : A -> A' -> Prop) (R : nat) (x : bres A * prd) (r : result A') : Prop :=
  match x with
  | (BOk a, p') => exists a' R', r = Done a' (sg R' out) /\ rel a a' /\ (R <= R')%nat /\ St R' p'
  | (BRet e, p') => fails e out r /\ Bad p' /\ e = ECorrupted
  | (BThrow e, p') => fails e out r /\ Bad p' /\ e <> EPanic /\ e <> EFuel
  end.

Definition Sim {A A'} (rel : A -> A' -> Prop) (R : nat) (m : B A) (sp : prog A') : Prop :=
  forall p, St R p -> simres rel R (m p) (run sp (sg R out)).

Lemma Sim_ret {A A'} (rel : A -> A' -> Prop) R a a' : rel a a' -> Sim rel R (bret a) (Ret a').
Proof.
  intros Hr p HS. cbn [bret simres run]. exists a', R. split; [reflexivity|]. split; [exact Hr|].
  split; [lia | exact HS].
Qed.

Lemma fails_throw {A} e R : fails e out (run (@Throw A e) (sg R out)).
Proof. cbn [run]. eexists. split; reflexivity. Qed.

Lemma Sim_corrupted {A A'} (rel : A -> A' -> Prop) R : Sim rel R corrupted (Throw ECorrupted).
Proof.
  intros p HS. cbn [corrupted breturn simres]. split; [apply fails_throw|].
  split; [apply (St_Bad R); exact HS | reflexivity].
Qed.

Lemma Sim_bind {A A' C C'} (rel : A -> A' -> Prop) (rel2 : C -> C' -> Prop) R
    (m : B A) (sp : prog A') (f : A -> B C) (g : A' -> prog C') :
  Sim rel R m sp ->
  (forall a a' R', rel a a' -> (R <= R')%nat -> Sim rel2 R' (f a) (g a')) ->
  Sim rel2 R (bbind m f) (bind sp g).
Proof.
  intros H1 H2 p HS. specialize (H1 p HS). unfold bbind. rewrite run_bind.
  destruct (m p) as [[a|e|e] p1]; cbn [simres] in H1.
  - destruct H1 as (a' & R' & E & Hr & Hle & HS1). rewrite E.
    specialize (H2 a a' R' Hr Hle p1 HS1).
    destruct (f a p1) as [[c|e|e] p2]; cbn [simres] in *.
    + destruct H2 as (c' & R2 & E2 & Hr2 & Hle2 & HS2). exists c', R2.
      split; [exact E2|]. split; [exact Hr2|]. split; [lia | exact HS2].
    + exact H2.
    + exact H2.
  - destruct H1 as ((s' & E & Ho) & HB & Hn). rewrite E. cbn [simres].
    split; [exists s'; split; [reflexivity | exact Ho]|]. split; assumption.
  - destruct H1 as ((s' & E & Ho) & HB & Hn). rewrite E. cbn [simres].
    split; [exists s'; split; [reflexivity | exact Ho]|]. split; assumption.
Qed.

Lemma Sim_rel_weaken {A A'} (rel rel' : A -> A' -> Prop) R m sp :
  (forall a a', rel a a' -> rel' a a') -> Sim rel R m sp -> Sim rel' R m sp.
Proof.
  intros Hw H p HS. specialize (H p HS). destruct (m p) as [[a|e|e] p1]; cbn [simres] in *; try exact H.
  destruct H as (a' & R' & E & Hr & Hle & HS1). exists a', R'.
  split; [exact E|]. split; [apply Hw; exact Hr|]. split; assumption.
Qed.

(* a value computed without the bit reader *)
Lemma Sim_lift_ok {A A'} (rel : A -> A' -> Prop) R a a' : rel a a' -> Sim rel R (blift (BOk a)) (Ret a').
Proof. intros Hr. exact (Sim_ret rel R a a' Hr). Qed.

(* ---- ReadBits / TryReadBits ------------------------------------------------------------------ *)
Definition valrel (nb : N) (a a' : N) : Prop := a = a' /\ a < 2 ^ nb.

Lemma sval_lt R nb : sval data R nb < 2 ^ nb.
Proof.
  unfold sval, bits_at. eapply N.lt_le_trans; [apply bits_val_bound|].
  apply N.pow_le_mono_r; [lia|]. rewrite firstn_length. lia.
Qed.

Lemma Sim_read_bits R nb : nb <= 57 -> Sim (valrel nb) R (b_read_bits nb) (Model.read_bits nb).
Proof.
  intros Hnb p [HB Hb]. rewrite b_read_bits_eq, read_bits_is_rbits.
  pose proof (read_bits_sim data Hd 0 R p nb HB Hnb) as Hs.
  pose proof (BIs_range data Hd 0 R p HB) as HR.
  destruct (Prefix.ReaderImpl.read_bits p nb) as [[v|] p'] eqn:E; cbn [fst snd simres].
  - destruct Hs as (Hfit & Hv & HB' & Hbf). exists v, (R + N.to_nat nb)%nat.
    split; [rewrite Hv; apply (run_rbits data Hd); exact Hfit|].
    split; [split; [reflexivity | rewrite Hv; apply sval_lt]|].
    split; [lia|]. split; [exact HB' | congruence].
  - split; [apply (run_rbits_eof data Hd); lia|].
    destruct (read_bits_fail data Hd 0 R p nb p' HB Hnb E) as [HB' Hb'].
    split; [split; [exists R; exact HB' | congruence]|]. split; discriminate.
Qed.

Lemma Sim_bits_fast R nb : nb <= 57 -> Sim (valrel nb) R (b_bits_fast nb) (Model.read_bits nb).
Proof.
  intros Hnb p [HB Hb]. rewrite b_bits_fast_eq, read_bits_is_rbits.
  pose proof (bits_fast_sim data Hd 0 R p nb HB Hnb) as Hs.
  pose proof (BIs_range data Hd 0 R p HB) as HR.
  destruct (bits_fast p nb) as [[v|] p'] eqn:E; cbn [fst snd simres].
  - destruct Hs as (Hfit & Hv & HB' & Hbf). exists v, (R + N.to_nat nb)%nat.
    split; [rewrite Hv; apply (run_rbits data Hd); exact Hfit|].
    split; [split; [reflexivity | rewrite Hv; apply sval_lt]|].
    split; [lia|]. split; [exact HB' | congruence].
  - split; [apply (run_rbits_eof data Hd); lia|].
    destruct (bits_fast_fail data Hd 0 R p nb p' HB Hnb E) as [HB' Hb'].
    split; [split; [exists R; exact HB' | congruence]|]. split; discriminate.
Qed.

(* "fail = fail || <read> <cond>" *)
Lemma Sim_chk R fail (m : B bool) (sp : prog bool) :
  Sim eq R m sp -> Sim eq R (b_chk fail m) (chk fail sp).
Proof.
  intros H. destruct fail; cbn [b_chk chk]; [apply Sim_ret; reflexivity | exact H].
Qed.

Lemma Sim_read_test R nb (f : N -> bool) : nb <= 57 ->
  Sim eq R (v <- b_read_bits nb ;; bret (f v)) (bind (Model.read_bits nb) (fun v => Ret (f v))).
Proof.
  intros Hnb. eapply Sim_bind; [apply Sim_read_bits; exact Hnb|].
  intros a a' R' [-> _] _. apply Sim_ret. reflexivity.
Qed.

Lemma Sim_hclen_zeros n : forall R fail, Sim eq R (b_hclen_zeros n fail) (hclen_zeros n fail).
Proof.
  induction n as [|n IH]; intros R fail; cbn [b_hclen_zeros hclen_zeros].
  - apply Sim_ret. reflexivity.
  - eapply Sim_bind.
    + apply Sim_chk. apply (Sim_read_test R 3 (fun v => negb (v =? 0))). lia.
    + intros a a' R' -> _. apply IH.
Qed.

(* mr.rd.BitsRead()%8 > 0 *)
Lemma Sim_unaligned R : Sim eq R b_unaligned (Pos (fun p => Ret (0 <? p mod 8))).
Proof.
  intros p [HB Hb]. cbn [b_unaligned simres run]. unfold sg at 1. cbn [a_pos].
  exists (0 <? N.of_nat R mod 8), R. split; [reflexivity|]. split.
  - rewrite (Inv_bits_read false data R p (BIs_Inv data R p HB)).
    rewrite Z.rem_mod_nonneg by lia. lia.
  - split; [lia|]. split; assumption.
Qed.

(* ---- ReadSymbol(&decHuff) / TryReadSymbol -------------------------------------------------- *)
Lemma window_firstn R n : n <= 64 ->
  window false data R mod 2 ^ n = bits_val (firstn (N.to_nat n) (skipn R (sbits data))).
Proof.
  intros Hn. rewrite (window_low false data Hd R n Hn). unfold bits_at.
  rewrite <- (sbits_stream data Hd). reflexivity.
Qed.

Lemma skipn_more3 R (l : list bool) k rest : skipn R (sbits data) = l ++ rest -> k = length l ->
  skipn (R + k) (sbits data) = rest.
Proof.
  intros E ->. rewrite <- skipn_skipn', E. apply Prefix.WriterThms.skipn_app_len. reflexivity.
Qed.

Local Ltac walk :=
  cbn [sym_walk decHuff lookup_code list_eqb Bool.eqb andb any_extends existsb is_prefix_b snd orb app run
       a_in a_pos a_out Prog.a_len].

Lemma run_sym_walk_ok R c : In c mcodes -> matches c (window false data R) ->
  (R + N.to_nat (c_len c) <= nbits data)%nat ->
  run (sym_walk 3 decHuff []) (sg R out) = Done (Some (c_sym c)) (sg (R + N.to_nat (c_len c)) out).
Proof.
  intros Hin Hm Hfit. pose proof (sbits_skipn_length data Hd R) as Hlen.
  unfold matches in Hm. unfold sigma.
  rewrite mcodes_eq in Hin.
  destruct Hin as [<-|[<-|[<-|[<-|[]]]]]; cbn [c_len c_sym c_val fst snd] in *;
    rewrite window_firstn in Hm by lia.
  - destruct (skipn R (sbits data)) as [|b0 rest] eqn:E; [cbn [length] in Hlen; lia|].
    destruct b0; [vm_compute in Hm; discriminate|].
    walk. f_equal. f_equal; [|lia].
    symmetry. apply (skipn_more3 R [false] 1 rest E). reflexivity.
  - destruct (skipn R (sbits data)) as [|b0 [|b1 rest]] eqn:E; try (cbn [length] in Hlen; lia).
    destruct b0, b1; try (vm_compute in Hm; discriminate).
    walk. f_equal. f_equal; [|lia].
    symmetry. apply (skipn_more3 R [true; false] 2 rest E). reflexivity.
  - destruct (skipn R (sbits data)) as [|b0 [|b1 [|b2 rest]]] eqn:E; try (cbn [length] in Hlen; lia).
    destruct b0, b1, b2; try (vm_compute in Hm; discriminate).
    walk. f_equal. f_equal; [|lia].
    symmetry. apply (skipn_more3 R [true; true; false] 3 rest E). reflexivity.
  - destruct (skipn R (sbits data)) as [|b0 [|b1 [|b2 rest]]] eqn:E; try (cbn [length] in Hlen; lia).
    destruct b0, b1, b2; try (vm_compute in Hm; discriminate).
    walk. f_equal. f_equal; [|lia].
    symmetry. apply (skipn_more3 R [true; true; true] 3 rest E). reflexivity.
Qed.

Lemma run_sym_walk_eof R : (R <= nbits data)%nat ->
  (forall c, In c mcodes -> matches c (window false data R) -> (nbits data < R + N.to_nat (c_len c))%nat) ->
  fails EUEOF out (run (sym_walk 3 decHuff []) (sg R out)).
Proof.
  intros HR Hall. pose proof (sbits_skipn_length data Hd R) as Hlen.
  assert (Hno : forall c, In c mcodes ->
            bits_val (firstn (N.to_nat (c_len c)) (skipn R (sbits data))) = c_val c ->
            (N.to_nat (c_len c) <= length (skipn R (sbits data)))%nat -> False).
  { intros c Hin Hv Hl. assert (Hm : matches c (window false data R)).
    { unfold matches. rewrite window_firstn; [exact Hv|].
      rewrite mcodes_eq in Hin. destruct Hin as [<-|[<-|[<-|[<-|[]]]]]; cbn; lia. }
    specialize (Hall c Hin Hm). rewrite Hlen in Hl. lia. }
  rewrite mcodes_eq in Hno. unfold sigma.
  destruct (skipn R (sbits data)) as [|b0 r0] eqn:E.
  { walk. eexists. split; reflexivity. }
  destruct b0.
  2:{ exfalso. apply (Hno (0, 1, 0)); [left; reflexivity | reflexivity | cbn; lia]. }
  destruct r0 as [|b1 r1].
  { walk. eexists. split; reflexivity. }
  destruct b1.
  2:{ exfalso. apply (Hno (1, 2, 1)); [right; left; reflexivity | reflexivity | cbn; lia]. }
  destruct r1 as [|b2 r2].
  { walk. eexists. split; reflexivity. }
  exfalso. destruct b2.
  - apply (Hno (3, 3, 7)); [right; right; right; left; reflexivity | reflexivity | cbn; lia].
  - apply (Hno (2, 3, 3)); [right; right; left; reflexivity | reflexivity | cbn; lia].
Qed.

Definition symvrel (a : N) (a' : option N) : Prop := a' = Some a /\ a < 4.

Lemma Sim_symbol d R : dec_valid 27 mcodes -> zero_min mcodes -> tables_ok mcodes d -> d_minBits d = 1 ->
  Sim symvrel R (b_symbol_fast d) (sym_walk 3 decHuff []).
Proof.
  intros HV HZ HT Hmin p [HB Hb]. rewrite b_symbol_fast_eq.
  pose proof (BIs_range data Hd 0 R p HB) as HR.
  assert (HL : 27 <= 31) by lia.
  assert (Hm1 : min_bits mcodes <= 1) by (rewrite <- (to_min _ _ HT), Hmin; lia).
  assert (Hm2 : 1 <= max_bits mcodes) by (vm_compute; discriminate).
  assert (Ed : set_min_bits d 1 = d) by (rewrite <- Hmin; apply set_min_bits_id).
  destruct (dv_complete _ _ HV (window false data R)) as (c & Hin & Hmt).
  assert (Hc : 1 <= c_len c <= 3 /\ c_sym c < 4).
  { rewrite mcodes_eq in Hin. destruct Hin as [<-|[<-|[<-|[<-|[]]]]]; cbn; lia. }
  destruct (Nat.le_gt_cases (R + N.to_nat (c_len c)) (nbits data)) as [Hfit|Hno].
  - destruct (sym_fast_ok data Hd 27 mcodes HL HV HZ d HT 1 Hm1 Hm2 0 R p c HB Hin Hmt) as (p' & E & HB' & Hbf).
    { lia. }
    rewrite Ed in E. rewrite E. cbn [fst snd bres_of_res simres].
    rewrite N.mod_small by (change (2 ^ 27) with 134217728; lia).
    exists (Some (c_sym c)), (R + N.to_nat (c_len c))%nat.
    split; [apply run_sym_walk_ok; assumption|].
    split; [split; [reflexivity | lia]|]. split; [lia|].
    split; [|congruence].
    replace (N.max 0 1 - c_len c) with 0 in HB' by lia. exact HB'.
  - assert (Hall : forall c', In c' mcodes -> matches c' (window false data R) ->
                     (nbits data < R + N.to_nat (c_len c'))%nat).
    { intros c' Hin' Hm'. rewrite (dv_unique _ _ HV (window false data R) c' c Hin' Hin Hm' Hmt). exact Hno. }
    destruct (sym_fast_eof data Hd 27 mcodes HL HV d HT 1 Hm1 Hm2 0 R p HB Hall) as (p' & E).
    rewrite Ed in E. rewrite E. cbn [fst snd bres_of_res simres].
    split; [apply run_sym_walk_eof; [lia | exact Hall]|].
    destruct (sym_fast_fail data Hd d 0 R p EUEOF p' ltac:(lia) HB E) as [HB' Hb'].
    split; [split; [exists R; exact HB' | congruence]|]. split; discriminate.
Qed.

Lemma Sim_lift_bind {A C C'} (rel : C -> C' -> Prop) R (a : A) (f : A -> B C) (sp : prog C') :
  Sim rel R (f a) sp -> Sim rel R (bbind (blift (BOk a)) f) sp.
Proof. intros H p HS. unfold bbind, blift. apply H. exact HS. Qed.

(* ---- the symbol loop ------------------------------------------------------------------------- *)
Section Loop.
Variable d : dec.
Hypothesis HV : dec_valid 27 mcodes.
Hypothesis HZ : zero_min mcodes.
Hypothesis HT : tables_ok mcodes d.
Hypothesis Hmin : d_minBits d = 1.

Definition symrel (s : isym) (ss : symst) : Prop :=
  i_idx s = ss_idx ss /\ i_bit s = N.b2n (ss_bit ss) /\ i_ones s = ss_ones ss /\ i_fifo s = ss_fifo ss /\
  WInv (rev (ss_bits ss)) (i_bw s) /\ SFF (bw_sink (i_bw s)) /\
  length (ss_bits ss) = S (N.to_nat (ss_idx ss)) /\ ss_idx ss < 400.

Definition steprel (s : isym) (x : isym + isym) (y : symst + symst) : Prop :=
  match x, y with
  | inl a, inl b => symrel a b /\ i_idx s < i_idx a /\ i_idx s < 256
  | inr a, inr b => symrel a b /\ 256 <= i_idx a
  | _, _ => False
  end.

Definition triple_rel (x : N * N * N) (y : bool * N * N) : Prop :=
  fst (fst x) = N.b2n (fst (fst y)) /\ snd (fst x) = snd (fst y) /\ snd x = snd y /\
  1 <= snd (fst x) <= 138.

Lemma Sim_sym_step s ss R : symrel s ss -> Sim (steprel s) R (sym_step d s) (sym_body ss).
Proof.
  intros (E1 & E2 & E3 & E4 & HI & HF & HL & Hb). unfold sym_step, sym_body.
  change (maxSyms - 1) with 256. rewrite E1.
  destruct (256 <=? ss_idx ss) eqn:Eg.
  { apply Sim_ret. cbn [steprel]. apply N.leb_le in Eg.
    split; [exact (conj E1 (conj E2 (conj E3 (conj E4 (conj HI (conj HF (conj HL Hb))))))) | lia]. }
  eapply Sim_bind; [apply Sim_symbol; assumption|].
  intros a a' R' [-> Ha] _. cbv beta iota.
  eapply (Sim_bind triple_rel).
  - assert (Hc : a = 0 \/ a = 1 \/ a = 2 \/ a = 3) by lia.
    destruct Hc as [ -> | [ -> | [ -> | -> ]]].
    + change (0 =? 0) with true. cbv iota. apply Sim_ret. unfold triple_rel. cbn [fst snd N.b2n].
      rewrite E4. repeat split; lia.
    + change (1 =? 0) with false. change (1 =? 1) with true. cbv iota. apply Sim_ret.
      unfold triple_rel. cbn [fst snd N.b2n]. rewrite E4. repeat split; lia.
    + change (2 =? 0) with false. change (2 =? 1) with false. change (2 =? 2) with true. cbv iota.
      eapply Sim_bind; [apply Sim_bits_fast; lia|]. intros v v' R2 [<- Hv] _. apply Sim_ret.
      unfold triple_rel. cbn [fst snd]. rewrite E4. change (2 ^ 2) with 4 in Hv.
      split; [exact E2|]. split; [reflexivity|]. split; [|lia].
      change (byte_of (N.shiftl 3 5)) with 96.
      unfold shr, b8, byte_of. rewrite (N.shiftl_mul_pow2 v). reflexivity.
    + change (3 =? 0) with false. change (3 =? 1) with false. change (3 =? 2) with false.
      change (3 =? 3) with true. cbv iota.
      eapply Sim_bind; [apply Sim_bits_fast; lia|]. intros v v' R2 [<- Hv] _. apply Sim_ret.
      unfold triple_rel. cbn [fst snd N.b2n]. rewrite E4. change (2 ^ 7) with 128 in Hv.
      split; [reflexivity|]. split; [reflexivity|]. split; [|lia].
      change (byte_of (N.shiftl 7 5)) with 224.
      unfold shr, b8, byte_of. rewrite (N.shiftl_mul_pow2 v). reflexivity.
  - intros [[bit cnt] fifo] [[bitb cnt'] fifo'] R2 (Hbit & Hcnt & Hfifo & Hrange) _.
    cbn [fst snd] in Hbit, Hcnt, Hfifo, Hrange. subst cnt' fifo'. cbv beta iota.
    destruct (fifo =? 0); [apply Sim_corrupted|].
    destruct (frun_ff (repeat (FSym bit 1) (N.to_nat cnt)) _ (i_bw s) HI HF) as (bw' & E & HI' & HF').
    { apply Forall_forall. intros x Hx. apply repeat_spec in Hx. subst x. cbn [field_ok].
      split; [|lia]. subst bit. destruct bitb; reflexivity. }
    rewrite E. apply Sim_ret. cbn [steprel]. apply N.leb_gt in Eg.
    split; [|cbn [i_idx]; lia].
    unfold symrel. cbn [i_idx i_bit i_ones i_fifo i_bw ss_idx ss_bit ss_ones ss_fifo ss_bits].
    split; [lia|]. split; [exact Hbit|].
    split; [subst bit; destruct bitb; cbn [N.b2n]; lia|]. split; [reflexivity|].
    split; [rewrite rev_app_distr, rev_repeat_eq; subst bit; rewrite fields_app_rep in HI'; exact HI'|].
    split; [exact HF'|]. split; [rewrite app_length, repeat_length; lia | lia].
Qed.

Definition looprel (a : isym) (a' : symst) : Prop := symrel a a' /\ 256 <= i_idx a.

Lemma sym_loop_sim : forall fuel s ss R p, symrel s ss -> St R p ->
  (256 - N.to_nat (i_idx s) < fuel)%nat ->
  exists r, loops sym_body ss (sg R out) r /\ simres looprel R (sym_loop fuel d s p) r.
Proof.
  induction fuel as [|fuel IH]; intros s ss R p Hrel HS Hf; [lia|].
  cbn [sym_loop]. unfold bbind.
  pose proof (Sim_sym_step s ss R Hrel p HS) as H1.
  destruct (sym_step d s p) as [[[s1|s1]|e|e] p1]; cbn [simres] in H1.
  - destruct H1 as (a' & R' & E & Hr & Hle & HS1). destruct a' as [ss1|ss1]; cbn [steprel] in Hr; [|contradiction].
    destruct Hr as (Hrel1 & Hlt & Hlt2).
    destruct (IH s1 ss1 R' p1 Hrel1 HS1 ltac:(lia)) as (r & HL & Hs).
    exists r. split; [eapply loops_step; eassumption|].
    destruct (sym_loop fuel d s1 p1) as [[a|e|e] p2]; cbn [simres] in *; try exact Hs.
    destruct Hs as (a' & R2 & E2 & Hr2 & Hle2 & HS2). exists a', R2.
    split; [exact E2|]. split; [exact Hr2|]. split; [lia | exact HS2].
  - destruct H1 as (a' & R' & E & Hr & Hle & HS1). destruct a' as [ss1|ss1]; cbn [steprel] in Hr; [contradiction|].
    exists (Done ss1 (sg R' out)). split; [apply loops_done; exact E|].
    cbn [bret simres]. exists ss1, R'. split; [reflexivity|]. split; [exact Hr|]. split; assumption.
  - destruct H1 as ((s' & E & Ho) & HB & Hn). exists (Fail e s').
    split; [apply loops_fail; exact E|]. cbn [simres].
    split; [exists s'; split; [reflexivity | exact Ho]|]. split; assumption.
  - destruct H1 as ((s' & E & Ho) & HB & Hn). exists (Fail e s').
    split; [apply loops_fail; exact E|]. cbn [simres].
    split; [exists s'; split; [reflexivity | exact Ho]|]. split; assumption.
Qed.

Definition ss0 : symst := mkSymst 0 false 0 255 [false].

Lemma Sim_sym_loop R bw1 : WInv [false] bw1 -> SFF (bw_sink bw1) ->
  Sim looprel R (sym_loop 258 d (mkIsym 0 0 0 255 bw1)) (loop 9 sym_body ss0).
Proof.
  intros HI HF p HS.
  assert (Hrel : symrel (mkIsym 0 0 0 255 bw1) ss0).
  { unfold symrel, ss0. cbn [i_idx i_bit i_ones i_fifo i_bw ss_idx ss_bit ss_ones ss_fifo ss_bits rev app N.b2n length N.to_nat].
    split; [reflexivity|]. split; [reflexivity|]. split; [reflexivity|]. split; [reflexivity|].
    split; [exact HI|]. split; [exact HF|]. split; [reflexivity | lia]. }
  destruct (sym_loop_sim 258 _ ss0 R p Hrel HS) as (r & HL & Hs).
  { cbn [i_idx N.to_nat]. lia. }
  assert (Er : run (loop 9 sym_body ss0) (sg R out) = r).
  { apply loops_loop; [exact HL|].
    pose proof (nofuel_elim (S (ilen (sg R out))) _ (sg R out) (nf_sym_loop _) ltac:(lia)) as Hn.
    unfold ss0. destruct (run (loop 9 sym_body _) (sg R out)) as [x sx|e sx]; cbn [is_efuel]; [tauto|].
    destruct e; try tauto. }
  rewrite Er. exact Hs.
Qed.

End Loop.

Definition blkrel (a : list byte * fmode) (a' : blockres) : Prop := a' = BBlock (fst a) (snd a).

Lemma Sim_after_magic R magic : magic < 2 ^ 32 ->
  Sim blkrel R (block_after_magic magic) (spec_after_magic magic).
Proof.
  intros Hmg. unfold block_after_magic, spec_after_magic, shr.
  rewrite (N.mod_small magic (2 ^ 32) Hmg).
  destruct (N.land magic magicMask =? magicVals); cbn [negb assert_p bind]; [|apply Sim_corrupted].
  cbv zeta.
  eapply Sim_bind; [apply Sim_hclen_zeros|]. intros f1 f1' R1 <- _.
  eapply Sim_bind; [apply Sim_chk; apply (Sim_read_test R1 3 (fun v => negb (v =? 2))); lia|].
  intros f2 f2' R2 <- _.
  eapply Sim_bind; [apply Sim_chk; apply (Sim_read_test R2 1 (fun v => negb (v =? 0))); lia|].
  intros f3 f3' R3 <- _.
  destruct f3; cbn [negb assert_p bind]; [apply Sim_corrupted|].
  destruct meta_tables as (d0 & Ed & HV0 & HZ0 & HT0 & Hmin0).
  unfold the_dec. rewrite Ed. apply Sim_lift_bind.
  destruct bw_start_ok as (bw1 & Ebw & HI1 & HF1). rewrite Ebw. apply Sim_lift_bind.
  eapply Sim_bind; [apply (Sim_sym_loop d0 HV0 HZ0 HT0 Hmin0 R3 bw1 HI1 HF1)|].
  intros s ss R4 [Hrel Hidx] _. unfold ss0.
  destruct Hrel as (E1 & E2 & E3 & E4 & HI & HF & HL & Hb).
  assert (Ebw2 : (bits_written (i_bw s) =? Z.of_N maxSyms)%Z = (N.of_nat (length (ss_bits ss)) =? maxSyms)).
  { rewrite (Inv_bits_written _ _ HI), rev_length, int64_wrap_small.
    - unfold maxSyms. lia.
    - rewrite HL. change (2 ^ 62)%Z with 4611686018427387904%Z. lia. }
  rewrite Ebw2.
  destruct (N.of_nat (length (ss_bits ss)) =? maxSyms) eqn:Elen; cbn [negb assert_p bind]; [|apply Sim_corrupted].
  assert (Hlen : length (rev (ss_bits ss)) = 257%nat).
  { rewrite rev_length. unfold maxSyms in Elen. lia. }
  rewrite (finish_syms_ok (i_bw s) (rev (ss_bits ss)) HI HF Hlen). apply Sim_lift_bind.
  rewrite fast_rev_eq, E3.
  destruct (ss_ones ss =? 2 ^ (8 - (4 + N.land (N.shiftr magic 13) 15 - 4) / 2));
    cbn [negb assert_p bind]; [|apply Sim_corrupted].
  pose proof (block_data_spec (rev (ss_bits ss)) (N.testbit magic 0) Hlen) as Ebd. cbv zeta in Ebd.
  rewrite Ebd. unfold shr.
  destruct (nth 256 (rev (ss_bits ss)) false); cbn [negb assert_p bind];
    [|intros p HS; unfold bbind, blift; apply (Sim_corrupted blkrel R4 p HS)].
  destruct (N.testbit magic 0 && negb (N.testbit (nth 0 (bits_to_bytes (rev (ss_bits ss))) 0) 1));
    cbn [negb assert_p bind];
    [intros p HS; unfold bbind, blift; apply (Sim_corrupted blkrel R4 p HS)|].
  apply Sim_lift_bind.
  eapply Sim_bind.
  { apply (Sim_read_test R4 (N.land (N.shiftr magic 3) 7) (fun v => 0 <? v)).
    pose proof (land7_le (N.shiftr magic 3)). lia. }
  intros f4 f4' R5 <- _.
  eapply Sim_bind; [apply Sim_chk; apply (Sim_read_test R5 1 (fun v => 0 <? v)); lia|].
  intros f5 f5' R6 <- _.
  eapply Sim_bind.
  { apply Sim_chk.
    apply (Sim_read_test R6 (8 - (4 + N.land (N.shiftr magic 13) 15 - 4) / 2)
             (fun v => negb (v =? 2 ^ (8 - (4 + N.land (N.shiftr magic 13) 15 - 4) / 2) - 1))). lia. }
  intros f6 f6' R7 <- _.
  eapply Sim_bind; [apply Sim_chk; apply Sim_unaligned|].
  intros f7 f7' R8 <- _.
  destruct f7; cbn [negb assert_p bind]; [apply Sim_corrupted|].
  apply Sim_ret. reflexivity.
Qed.

(* ---- the whole body of decodeBlock against decode_block --------------------------------------- *)
Definition block_post (R : nat) (x : bres (list byte * fmode) * prd) (r : result blockres) : Prop :=
  match x with
  | (BOk bfin, p') =>
      exists R', r = Done (BBlock (fst bfin) (snd bfin)) (sg R' out) /\ (R + 32 <= R')%nat /\ St R' p'
  | (BRet e, p') =>
      ((e = EEOF /\ r = Done BEof (sg R out) /\ R = nbits data /\ St R p') \/
       (fails e out r /\ e = ECorrupted)) /\ Bad p'
  | (BThrow e, p') => fails e out r /\ Bad p' /\ e <> EPanic /\ e <> EFuel
  end.

Lemma block_body_sim R p : St R p -> block_post R (block_body p) (run decode_block (sg R out)).
Proof.
  intros [HB Hb]. rewrite decode_block_eq.
  pose proof (BIs_PI data 0 R p HB) as HP. pose proof (BIs_QD data 0 R p HB) as HQ.
  pose proof (BIs_range data Hd 0 R p HB) as HR.
  pose proof (sbits_skipn_length data Hd R) as Hlen.
  assert (Ein : a_in (sg R out) = skipn R (sbits data)) by reflexivity.
  cbn [run]. rewrite Ein.
  unfold block_body, bbind at 1, b_pull_first.
  pose proof (pull_ok' data Hd R p 1 HP ltac:(lia)) as Hpull.
  destruct (pull_bits p 1) as [[|] p1] eqn:Ep.
  - (* the source is exhausted *)
    assert (HRe : R = nbits data) by (unfold nbits in *; lia).
    destruct (skipn R (sbits data)) as [|b0 rest]; [|cbn [length] in Hlen; lia].
    cbn [run block_post].
    destruct (pull_fail_sim data Hd 0 R p 1 p1 HB ltac:(lia) Ep) as [HB1 Hb1].
    pose proof (BIs_range data Hd 64 R p1 HB1) as HR1.
    assert (HB0 : BIs data 0 R p1).
    { apply (mk_BIs data 0 R p1 (BIs_PI data 64 R p1 HB1) (BIs_QD data 64 R p1 HB1)). intros _. lia. }
    split; [left; split; [reflexivity|]; split; [reflexivity|]; split; [exact HRe|]; split; [exact HB0 | congruence]|].
    split; [exists R; exact HB1 | congruence].
  - destruct Hpull as (HP1 & Hn1 & Hb1 & Hs1).
    pose proof (pull_qd data Hd R p 1 p1 HP HQ ltac:(lia) Ep) as HQ1.
    assert (HB1 : BIs data 1 R p1).
    { apply (mk_BIs data 1 R p1 HP1 HQ1). intros Hx. rewrite Hb1 in Hx.
      destruct (Hs1 Hx) as [Hlt | ->]; [lia|]. pose proof (BIs_slack data 0 R p HB Hx). lia. }
    pose proof (BIs_range data Hd 1 R p1 HB1) as HR1.
    destruct (skipn R (sbits data)) as [|b0 rest] eqn:Esk; [cbn [length] in Hlen; lia|].
    unfold bbind. rewrite b_read_bits_eq, run_bind, read_bits_is_rbits.
    pose proof (read_bits_sim data Hd 1 R p1 32 HB1 ltac:(lia)) as Hs.
    destruct (Prefix.ReaderImpl.read_bits p1 32) as [[v|] p2] eqn:Er; cbn [fst snd].
    + destruct Hs as (Hfit & Hv & HB2 & Hb2).
      rewrite (run_rbits data Hd R out 32 Hfit), <- Hv.
      replace (1 - 32) with 0 in HB2 by lia.
      assert (HS2 : St (R + N.to_nat 32) p2) by (split; [exact HB2 | congruence]).
      pose proof (Sim_after_magic (R + N.to_nat 32) v ltac:(rewrite Hv; apply sval_lt) p2 HS2) as H.
      destruct (block_after_magic v p2) as [[bfin|e|e] p3]; cbn [simres block_post] in *.
      * destruct H as (a' & R' & E & Hr & Hle & HS3). unfold blkrel in Hr. subst a'.
        exists R'. split; [exact E|]. split; [lia | exact HS3].
      * destruct H as (Hf & HBd & Hn). split; [right; split; [exact Hf | exact Hn] | exact HBd].
      * exact H.
    + cbn [block_post].
      destruct (run_rbits_eof data Hd R out 32 ltac:(lia) Hs) as (s' & E & Ho). rewrite E.
      split; [exists s'; split; [reflexivity | exact Ho]|].
      destruct (read_bits_fail data Hd 1 R p1 32 p2 HB1 ltac:(lia) Er) as [HB2 Hb2].
      split; [split; [exists R; exact HB2 | congruence]|]. split; discriminate.
Qed.

End Sim.

Print Assumptions meta_tables.
Print Assumptions Sim_symbol.
Print Assumptions Sim_after_magic.
Print Assumptions block_body_sim.
