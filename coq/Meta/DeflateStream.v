(* Whole meta-encoded payloads as DEFLATE data (for the RFC 1951 model, Flate/Spec.v):
   - mode FinalNil / FinalMeta: a sequence of complete, non-final, empty blocks
     ([nonfinal_blocks enc = Some []]);
   - mode FinalStream: a complete DEFLATE stream with no output, ending exactly at the
     end of the encoding whatever follows.
   Built on Meta/Deflate.v (one block) and Meta/RoundTrip.v (block sizes, alignment). *)
From V Require Import Base.Prelude Base.Prog Base.ProgThms Meta.Model Meta.Thms Meta.RoundTrip
  Meta.Deflate Flate.Spec Flate.Fuel XFlate.RoundTripStmt.
From Coq Require Import ZifyBool ZifyN ZifyNat.

Local Open Scope N_scope.

(* ---- one block, on bytes -------------------------------------------------- *)
Lemma encode_block_bits_of buf final x :
  (forall b, In b buf -> b < 256) ->
  encode_block buf final = Some x ->
  exists bits, encode_block_bits buf final = Some bits /\ bytes_to_bits x = bits /\
               (length bits = 8 * length x)%nat /\ (12 <= length x)%nat.
Proof.
  intros Hb Henc.
  pose proof (meta_block_size_bytes buf final x Hb Henc) as Hsz.
  unfold encode_block in Henc.
  destruct (encode_block_bits buf final) as [bits|] eqn:E; [|discriminate].
  injection Henc as <-.
  pose proof (meta_block_length_aligned buf final bits Hb E) as Hal.
  destruct (bytes_of_bits (length bits / 8) (S (length bits)) bits) as [H1 H2].
  - clear - Hal. lia.
  - clear. lia.
  - exists bits. unfold bits_to_bytes in *. rewrite H1, H2.
    split; [reflexivity|]. split; [reflexivity|]. split; [clear - Hal; lia|]. lia.
Qed.

Lemma one_block_bytes buf final x depth rest pos out len :
  (forall b, In b buf -> b < 256) ->
  encode_block buf final = Some x ->
  run (one_block depth) (mkAst (bytes_to_bits x ++ rest) pos out len)
  = Done (fmode_eqb final FinalStream) (mkAst rest (pos + 8 * N.of_nat (length x)) out len).
Proof.
  intros Hb Henc.
  destruct (encode_block_bits_of buf final x Hb Henc) as (bits & E & Hbits & Hlen & _).
  rewrite Hbits, (meta_block_is_empty_deflate buf final bits depth rest pos out len Hb E).
  f_equal. f_equal. lia.
Qed.

Lemma bytes_to_bits_app a b : bytes_to_bits (a ++ b) = bytes_to_bits a ++ bytes_to_bits b.
Proof. apply flat_map_app. Qed.

Lemma bytes_to_bits_nonempty x t : (1 <= length x)%nat -> bytes_to_bits x ++ t <> [].
Proof.
  intros H E. apply (f_equal (@length bool)) in E.
  rewrite app_length, RoundTrip.bytes_to_bits_length in E. cbn [length] in E. lia.
Qed.

(* ---- the blocks of a payload ------------------------------------------------ *)
Definition blocks_ok (bs : list (list byte)) : Prop :=
  forall b, In b bs -> forall x, In x b -> x < 256.

Lemma writer_blocks_in payload : forall buf b x,
  In b (writer_blocks payload buf) -> In x b -> In x payload \/ In x buf.
Proof.
  induction payload as [|c r IH]; intros buf b x Hb Hx; cbn [writer_blocks] in Hb.
  - destruct Hb as [<-|[]]. right. exact Hx.
  - destruct (fits_with buf c).
    + destruct (IH _ _ _ Hb Hx) as [H|H]; [left; right; exact H|].
      apply in_app_or in H. destruct H as [H|[<-|[]]]; [right; exact H | left; left; reflexivity].
    + destruct Hb as [<-|Hb]; [right; exact Hx|].
      destruct (IH _ _ _ Hb Hx) as [H|[<-|[]]]; [left; right; exact H | left; left; reflexivity].
Qed.

Lemma writer_blocks_ok payload :
  (forall b, In b payload -> b < 256) -> blocks_ok (writer_blocks payload []).
Proof.
  intros H b Hb x Hx. destruct (writer_blocks_in payload [] b x Hb Hx) as [Hi|[]]. apply H, Hi.
Qed.

Lemma writer_blocks_nonempty payload : forall buf, writer_blocks payload buf <> [].
Proof.
  induction payload as [|c r IH]; intros buf; cbn [writer_blocks]; [discriminate|].
  destruct (fits_with buf c); [apply IH | discriminate].
Qed.

Lemma blocks_ok_tail b r : blocks_ok (b :: r) -> blocks_ok r.
Proof. intros H c Hc. apply H. right. exact Hc. Qed.

Lemma blocks_ok_head b r : blocks_ok (b :: r) -> forall x, In x b -> x < 256.
Proof. intros H. apply H. left. reflexivity. Qed.

(* ---- L2 (stream): non-final payloads ---------------------------------------- *)
Lemma scan_blocks_step f depth s s' :
  a_in s <> [] -> run (one_block depth) s = Done false s' ->
  scan_blocks (S f) depth s = scan_blocks f depth s'.
Proof.
  intros Hne Hr. cbn [scan_blocks]. destruct (a_in s); [congruence|]. rewrite Hr. reflexivity.
Qed.

Lemma scan_encoded bs : forall final enc fuel depth pos out len,
  blocks_ok bs -> final <> FinalStream ->
  encode_blocks bs final = Some enc -> (length bs < fuel)%nat ->
  scan_blocks fuel depth (mkAst (bytes_to_bits enc) pos out len)
  = Some (mkAst [] (pos + 8 * N.of_nat (length enc)) out len) /\
  (12 * length bs <= length enc)%nat.
Proof.
  induction bs as [|b r IH]; intros final enc fuel depth pos out len Hok Hfin Henc Hfuel.
  - cbn [encode_blocks] in Henc. injection Henc as <-.
    destruct fuel as [|f]; [cbn [length] in Hfuel; lia|].
    cbn [scan_blocks bytes_to_bits flat_map a_in length]. split; [|lia].
    f_equal. f_equal. lia.
  - assert (Hnf : fmode_eqb final FinalStream = false) by (destruct final; try reflexivity; congruence).
    destruct r as [|b' r].
    + cbn [encode_blocks] in Henc.
      destruct (encode_block_bits_of b final enc (blocks_ok_head _ _ Hok) Henc)
        as (_ & _ & _ & _ & H12).
      cbn [length] in Hfuel. destruct fuel as [|[|f]]; try lia.
      split; [|cbn [length]; lia].
      rewrite (scan_blocks_step _ depth _
                 (mkAst [] (pos + 8 * N.of_nat (length enc)) out len)).
      * reflexivity.
      * cbn [a_in]. rewrite <- (app_nil_r (bytes_to_bits enc)).
        apply bytes_to_bits_nonempty. lia.
      * rewrite <- (app_nil_r (bytes_to_bits enc)).
        rewrite (one_block_bytes b final enc depth [] pos out len (blocks_ok_head _ _ Hok) Henc).
        rewrite Hnf. reflexivity.
    + change (encode_blocks (b :: b' :: r) final)
        with (match encode_block b FinalNil, encode_blocks (b' :: r) final with
              | Some x, Some y => Some (x ++ y) | _, _ => None end) in Henc.
      destruct (encode_block b FinalNil) as [x|] eqn:Ex; [|discriminate].
      destruct (encode_blocks (b' :: r) final) as [y|] eqn:Ey; [|discriminate].
      injection Henc as <-.
      destruct (encode_block_bits_of b FinalNil x (blocks_ok_head _ _ Hok) Ex)
        as (_ & _ & _ & _ & H12).
      destruct fuel as [|f]; [lia|].
      destruct (IH final y f depth (pos + 8 * N.of_nat (length x)) out len
                  (blocks_ok_tail _ _ Hok) Hfin Ey) as [I1 I2].
      { cbn [length] in Hfuel |- *. lia. }
      split; [|rewrite app_length; cbn [length] in I2 |- *; lia].
      rewrite bytes_to_bits_app.
      rewrite (scan_blocks_step _ depth _
                 (mkAst (bytes_to_bits y) (pos + 8 * N.of_nat (length x)) out len)).
      * rewrite I1. f_equal. f_equal. rewrite app_length. lia.
      * cbn [a_in]. apply bytes_to_bits_nonempty. lia.
      * rewrite (one_block_bytes b FinalNil x depth _ pos out len (blocks_ok_head _ _ Hok) Ex).
        reflexivity.
Qed.

Theorem meta_nonfinal_blocks :
  forall payload final enc, (forall b, In b payload -> b < 256) ->
    final <> FinalStream ->
    meta_encode payload final = Some enc ->
    nonfinal_blocks enc = Some [].
Proof.
  intros payload final enc Hp Hfin Henc. unfold meta_encode in Henc.
  unfold nonfinal_blocks, ast_init.
  pose proof (scan_encoded (writer_blocks payload []) final enc (S (8 * length enc))
                (depth_for (length enc)) 0 [] 0 (writer_blocks_ok payload Hp) Hfin Henc) as H.
  assert (H12 : (12 * length (writer_blocks payload []) <= length enc)%nat).
  { apply (scan_encoded (writer_blocks payload []) final enc
             (S (length (writer_blocks payload []))) 0 0 [] 0
             (writer_blocks_ok payload Hp) Hfin Henc). lia. }
  destruct H as [H _]; [lia|]. rewrite H. reflexivity.
Qed.

(* ---- L2 (stream): FinalStream payloads ---------------------------------------- *)
Lemma stream_iters bs : forall enc depth rest pos out len,
  bs <> [] -> blocks_ok bs -> encode_blocks bs FinalStream = Some enc -> pos mod 8 = 0 ->
  exists st,
    iters (Spec.stream_body depth) (length bs - 1) tt
          (mkAst (bytes_to_bits enc ++ rest) pos out len) tt st /\
    run (Spec.stream_body depth tt) st
    = Done (inr tt) (mkAst rest (pos + 8 * N.of_nat (length enc)) out len) /\
    (12 * length bs <= length enc)%nat.
Proof.
  induction bs as [|b r IH]; intros enc depth rest pos out len Hne Hok Henc Hpos; [congruence|].
  destruct r as [|b' r].
  - cbn [encode_blocks] in Henc.
    destruct (encode_block_bits_of b FinalStream enc (blocks_ok_head _ _ Hok) Henc)
      as (_ & _ & _ & _ & H12).
    eexists. split; [cbn [length Nat.sub]; constructor|]. split; [|cbn [length]; lia].
    unfold Spec.stream_body. rewrite run_bind.
    rewrite (one_block_bytes b FinalStream enc depth rest pos out len (blocks_ok_head _ _ Hok) Henc).
    cbn [fmode_eqb run a_pos a_in a_out a_len].
    assert (Hpc : pad_count (pos + 8 * N.of_nat (length enc)) = 0) by (unfold pad_count; lia).
    rewrite Hpc. cbn [N.to_nat Nat.leb firstn skipn bits_val N.of_nat]. rewrite N.add_0_r. reflexivity.
  - change (encode_blocks (b :: b' :: r) FinalStream)
      with (match encode_block b FinalNil, encode_blocks (b' :: r) FinalStream with
            | Some x, Some y => Some (x ++ y) | _, _ => None end) in Henc.
    destruct (encode_block b FinalNil) as [x|] eqn:Ex; [|discriminate].
    destruct (encode_blocks (b' :: r) FinalStream) as [y|] eqn:Ey; [|discriminate].
    injection Henc as <-.
    destruct (encode_block_bits_of b FinalNil x (blocks_ok_head _ _ Hok) Ex)
      as (_ & _ & _ & _ & H12).
    destruct (IH y depth rest (pos + 8 * N.of_nat (length x)) out len
                ltac:(discriminate) (blocks_ok_tail _ _ Hok) eq_refl ltac:(lia)) as (st & I1 & I2 & I3).
    exists st. split; [|split].
    + replace (length (b :: b' :: r) - 1)%nat with (S (length (b' :: r) - 1))
        by (cbn [length]; lia).
      econstructor; [|exact I1].
      unfold Spec.stream_body. rewrite run_bind, bytes_to_bits_app, <- app_assoc.
      rewrite (one_block_bytes b FinalNil x depth _ pos out len (blocks_ok_head _ _ Hok) Ex).
      reflexivity.
    + rewrite I2. f_equal. f_equal. rewrite app_length. lia.
    + rewrite app_length. cbn [length] in I3 |- *. lia.
Qed.

Theorem meta_footer_chunk :
  forall payload enc rest, (forall b, In b payload -> b < 256) -> (forall b, In b rest -> b < 256) ->
    meta_encode payload FinalStream = Some enc ->
    inflate (enc ++ rest) = mkIR None [] (N.of_nat (length enc)).
Proof.
  intros payload enc rest Hp _ Henc. unfold meta_encode in Henc.
  unfold inflate, inflate_prog, ast_init.
  set (d := depth_for (length (enc ++ rest))).
  rewrite bytes_to_bits_app.
  destruct (stream_iters (writer_blocks payload []) enc d (bytes_to_bits rest) 0 [] 0
              (writer_blocks_nonempty payload []) (writer_blocks_ok payload Hp) Henc
              ltac:(reflexivity)) as (st & I1 & I2 & I3).
  assert (Hn : (length (writer_blocks payload []) - 1 < 2 ^ d)%nat).
  { pose proof (depth_for_enough (length (enc ++ rest))) as Hd. fold d in Hd.
    rewrite app_length in Hd. lia. }
  rewrite (loop_iters (Spec.stream_body d) d _ _ _ _ _ _ _ I1 Hn I2).
  cbn [res_err res_out res_pos res_state a_out a_pos fast_rev rev_append].
  f_equal. lia.
Qed.

(* non-vacuity: a 100-byte payload (several blocks), both kinds of ending *)
Example meta_nonfinal_blocks_ex :
  exists enc, meta_encode (map N.of_nat (seq 0 100)) FinalMeta = Some enc /\
    length (writer_blocks (map N.of_nat (seq 0 100)) []) = 4%nat /\
    nonfinal_blocks enc = Some [].
Proof.
  eexists. split; [vm_compute; reflexivity|].
  split; [vm_compute; reflexivity|]. vm_compute. reflexivity.
Qed.

Example meta_footer_chunk_ex :
  exists enc, meta_encode (map N.of_nat (seq 0 100)) FinalStream = Some enc /\
    inflate (enc ++ [1; 2; 3]) = mkIR None [] (N.of_nat (length enc)).
Proof. eexists. split; [vm_compute; reflexivity|]. vm_compute. reflexivity. Qed.

(* ---- the statements of XFlate/RoundTripStmt.v ---------------------------------- *)
Goal XFlate.RoundTripStmt.meta_block_is_empty_deflate_stmt.
Proof. exact meta_block_is_empty_deflate. Qed.
Goal XFlate.RoundTripStmt.meta_nonfinal_blocks_stmt.
Proof. exact meta_nonfinal_blocks. Qed.
Goal XFlate.RoundTripStmt.meta_footer_chunk_stmt.
Proof. exact meta_footer_chunk. Qed.

Print Assumptions meta_block_is_empty_deflate.
Print Assumptions meta_nonfinal_blocks.
Print Assumptions meta_footer_chunk.
