(* Implementation-level model of meta.Reader (xflate/internal/meta/reader.go) over the
   implementation-level models of the mechanisms it is built from:

     internal/prefix.Reader   -> Prefix/ReaderImpl.v  (bit buffer over a scripted source,
                                                       both source kinds)
     internal/prefix.Decoder  -> Prefix/DecTable.v    (decHuff: the tables built at package
                                                       initialisation from the four codes)
     internal/prefix.Writer   -> Prefix/WriterImpl.v  (mr.bw over the bytes.Buffer mr.bb: the
                                                       temporary bit writer the 257 symbols
                                                       are collected in)

   WHAT a meta block means is Meta/Model.v ([decode_block], a [prog] over the abstract bit
   stream). This file follows reader.go function by function:

   * decodeBlock: "offset := mr.rd.Offset", the deferred closure (Flush; an error of Flush
     replaces a RETURNED error; InputOffset += rd.Offset - offset), "defer errors.Recover"
     (an error raised with errors.Panic inside ReadBits / ReadSymbol / WriteBits becomes the
     result and wins over the error of Flush: Recover runs last), PullBits(1) with
     io.ErrUnexpectedEOF turned into io.EOF, ReadBits(32) and the magic check, the HCLEN
     zeros with Go's short-circuit "fail = fail || ..." (once failed, nothing more is read),
     the symbol loop with the fast paths (TryReadSymbol else ReadSymbol, TryReadBits else
     ReadBits, TryWriteBits else WriteBits), the fifo of the last eight data bits, the
     ones accounting, BitsWritten, the padding WriteBits(0, 7), Flush of the bit writer
     (result ignored), the checks on the 33 bytes, the invert loop, the final bits, the
     footer with the short-circuit, "mr.buf, mr.final = buf, final; mr.NumBlocks++";
   * Read: the latch mr.err, the loop "for len(buf) > 0" (copy from mr.buf and break;
     final != FinalNil: FinalMode = final, err = io.EOF; otherwise decodeBlock),
     OutputOffset += rdCnt;
   * Close (errClosed: nil; another error except io.EOF: that error; otherwise FinalMode =
     final, err = errClosed, rd = nil), Reset, NewReader.

   Explicit failure outcomes. A Go run-time panic (syms[32] / syms[0] / syms[1:1+size] out of
   range, a nil mr.rd, an index out of range in the decoder tables) is [EPanic]: it is NOT
   recovered by errors.Recover, the Read call never returns; the model latches it.
   [EFuel] = a loop budget of the model is exhausted (the Go loop would not terminate) or the
   decoder tables are outside the range Prefix/DecTable.v models. The theorems of
   Meta/ReaderImplThms.v show both unreachable.

   Not modelled: rd being itself a *prefix.Reader (Reset then shares it instead of wrapping
   it; xflate never does that); the capacity (as opposed to the length) of bb.Bytes() in
   syms[1:1+size] - the model panics when 1+size exceeds the LENGTH, which the theorems show
   never happens (the length is 33, size <= 31). mr.buf aliases the storage of mr.bb; this is
   harmless because decodeBlock (the only writer of that storage) runs only when mr.buf is
   empty. prefix.Writer.Init replaces every field of mr.bw, so mr.bw carries no state from one
   block to the next and is not part of the model's state. *)
From V Require Import Base.Prelude Meta.Model Prefix.ReaderImpl Prefix.DecTable
  Prefix.WriterImpl Prefix.WriterFields.
From V Require Flate.Impl.

Local Open Scope N_scope.

(* ---- decHuff (meta.go): prefix.GeneratePrefixes + dec.Init at package initialisation ------ *)
Definition meta_code_lens : list (N * N) := [(0, 1); (1, 2); (2, 3); (3, 3)].
Definition meta_dec : ires dec := Flate.Impl.fixed_dec meta_code_lens.

(* ---- the monad of decodeBlock: the bit reader + three ways to leave -------------------------- *)
Inductive bres (A : Type) : Type :=
| BOk (a : A)
| BRet (e : err)            (* "return err" *)
| BThrow (e : err).         (* errors.Panic(err); EPanic = a Go run-time panic; EFuel *)
Arguments BOk {A} a.
Arguments BRet {A} e.
Arguments BThrow {A} e.

Definition B (A : Type) : Type := prd -> bres A * prd.

Definition bret {A} (a : A) : B A := fun p => (BOk a, p).
Definition breturn {A} (e : err) : B A := fun p => (BRet e, p).
Definition bthrow {A} (e : err) : B A := fun p => (BThrow e, p).
Definition bbind {A C} (m : B A) (f : A -> B C) : B C :=
  fun p => match m p with
           | (BOk a, p') => f a p'
           | (BRet e, p') => (BRet e, p')
           | (BThrow e, p') => (BThrow e, p')
           end.

Declare Scope mr_scope.
Delimit Scope mr_scope with mr.
Notation "x <- m ;; k" := (bbind m (fun x => k))
  (at level 61, m at next level, right associativity) : mr_scope.
Notation "m ;;; k" := (bbind m (fun _ => k))
  (at level 61, right associativity) : mr_scope.
Local Open Scope mr_scope.

(* errorf(errors.Corrupted, ...) returned *)
Definition corrupted {A} : B A := breturn ECorrupted.

(* mr.rd.ReadBits(nb) *)
Definition b_read_bits (nb : N) : B N := fun p =>
  let '(o, p') := read_bits p nb in
  match o with
  | Some v => (BOk v, p')
  | None => (BThrow EUEOF, p')
  end.

(* val, ok := mr.rd.TryReadBits(nb); if !ok { val = mr.rd.ReadBits(nb) } *)
Definition b_bits_fast (nb : N) : B N := fun p =>
  match Flate.Impl.try_read_bits p nb with
  | (Some v, p') => (BOk v, p')
  | (None, p') => b_read_bits nb p'
  end.

Definition of_rsres (r : rsres) : bres N :=
  match r with
  | RSym s => BOk s
  | RUEOF => BThrow EUEOF
  | RInvalid => BThrow EInvalid          (* panicf(errors.Invalid, "decode with empty prefix tree") *)
  | RPanic => BThrow EPanic
  | RFuel => BThrow EFuel
  end.

(* sym, ok := mr.rd.TryReadSymbol(&decHuff); if !ok { sym = mr.rd.ReadSymbol(&decHuff) } *)
Definition b_symbol_fast (d : dec) : B N := fun p =>
  let '(r, p') := try_read_symbol d p in
  match r with
  | None => (BThrow EPanic, p')
  | Some (Some s) => (BOk s, p')
  | Some None => let '(r2, p2) := dt_read_symbol d p' in (of_rsres r2, p2)
  end.

(* mr.rd.BitsRead()%8 > 0   (int64, Go's truncated remainder) *)
Definition b_unaligned : B bool := fun p => (BOk (0 <? Z.rem (bits_read p) 8)%Z, p).

(* "fail = fail || <read> <cond>": nothing is read once fail is set *)
Definition b_chk (fail : bool) (m : B bool) : B bool :=
  if fail then bret true else m.

(* for i := uint(5); i < numHCLen-1; i++ { fail = fail || mr.rd.ReadBits(3) != 0 } *)
Fixpoint b_hclen_zeros (n : nat) (fail : bool) : B bool :=
  match n with
  | O => bret fail
  | S n' => f <- b_chk fail (v <- b_read_bits 3 ;; bret (negb (v =? 0))) ;; b_hclen_zeros n' f
  end.

(* ---- the symbol loop -------------------------------------------------------------------------- *)
Record isym := mkIsym {
  i_idx : N;         (* idx (int) *)
  i_bit : N;         (* bit (uint) *)
  i_ones : N;        (* ones (uint) *)
  i_fifo : N;        (* fifo (byte) *)
  i_bw : pwr         (* mr.bw, writing into mr.bb *)
}.

Definition byte_of (x : N) : N := x mod 256.

(* one iteration of "for idx := 0; idx < maxSyms-1; { ... }"; inr = the loop condition fails *)
Definition sym_step (d : dec) (s : isym) : B (isym + isym) :=
  if maxSyms - 1 <=? i_idx s then bret (inr s) else
  sym <- b_symbol_fast d ;;
  r <- (if sym =? 0 then                                         (* symZero *)
          bret (0, 1, N.lor (N.shiftr (i_fifo s) 1) (byte_of (N.shiftl 0 7)))
        else if sym =? 1 then                                    (* symOne *)
          bret (1, 1, N.lor (N.shiftr (i_fifo s) 2) (byte_of (N.shiftl 1 6)))
        else if sym =? 2 then                                    (* symRepLast *)
          v <- b_bits_fast 2 ;;
          let f1 := N.lor (N.shiftr (i_fifo s) 3) (byte_of (N.shiftl 3 5)) in
          bret (i_bit s, v + 3, N.lor (N.shiftr f1 2) (byte_of (N.shiftl v 6)))
        else if sym =? 3 then                                    (* symRepZero *)
          v <- b_bits_fast 7 ;;
          let f1 := N.lor (N.shiftr (i_fifo s) 3) (byte_of (N.shiftl 7 5)) in
          bret (0, v + 11, N.lor (N.shiftr f1 7) (byte_of (N.shiftl v 1)))
        else                                                     (* the switch has no default *)
          bret (i_bit s, 1, i_fifo s)) ;;
  let '(bit, cnt, fifo) := r in
  if fifo =? 0 then corrupted else                               (* "invalid sequence of meta symbols" *)
  (* for i := 0; i < cnt; i++ { TryWriteBits(bit, 1) else WriteBits(bit, 1); ones += bit } *)
  match frun (i_bw s) (repeat (FSym bit 1) (N.to_nat cnt)) with
  | (Some e, _) => bthrow e
  | (None, bw') => bret (inl (mkIsym (i_idx s + cnt) bit (i_ones s + bit * cnt) fifo bw'))
  end.

Fixpoint sym_loop (fuel : nat) (d : dec) (s : isym) : B isym :=
  match fuel with
  | O => bthrow EFuel
  | S f =>
    r <- sym_step d s ;;
    match r with
    | inl s' => sym_loop f d s'
    | inr s' => bret s'
    end
  end.

(* numPads(maxSyms) = -257 & 7 *)
Definition pads_257 : N := 7.

Definition fmode_of_bits (finalMeta finalStream : bool) : fmode :=
  match N.b2n finalMeta + N.b2n finalStream with
  | 0 => FinalNil
  | 1 => FinalMeta
  | _ => FinalStream
  end.

(* a value computed without the bit reader, or a way to leave *)
Definition blift {A} (r : bres A) : B A := fun p => (r, p).

(* mr.bw.WriteBits(0, numPads(maxSyms)); mr.bw.Flush() (result ignored); syms := mr.bb.Bytes() *)
Definition finish_syms (bw : pwr) : bres (list byte) :=
  match frun bw [FBits 0 pads_257] with
  | (Some e, _) => BThrow e
  | (None, bw2) =>
    let '((_, fe), bw3) := wflush bw2 in
    match fe with
    | Some EPanic => BThrow EPanic
    | _ => BOk (wsink_data (bw_sink bw3))
    end
  end.

(* the data segment: terminator symbol, flags, size, invert, final bits *)
Definition block_data (syms : list byte) (finalStream : bool) : bres (list byte * fmode) :=
  match nth_error syms 32 with                                   (* syms[idxEOB/8] *)
  | None => BThrow EPanic
  | Some b32 =>
    if negb (N.testbit b32 0) then BRet ECorrupted else          (* "missing meta terminator symbol" *)
    match nth_error syms 0 with
    | None => BThrow EPanic
    | Some flags =>
      let finalMeta := N.testbit flags 1 in
      let invert := N.testbit flags 2 in
      let size := N.land (N.shiftr flags 3) 31 in
      if N.of_nat (length syms) <? 1 + size then BThrow EPanic else   (* syms[1 : 1+size] *)
      let raw := firstn (N.to_nat size) (skipn 1 syms) in
      let buf := if invert then map (fun b => byte_of (N.lxor b 255)) raw else raw in
      let final := fmode_of_bits finalMeta finalStream in
      if finalStream && negb finalMeta then BRet ECorrupted      (* "invalid combination of final bits" *)
      else BOk (buf, final)
    end
  end.

(* mr.bb.Reset(); mr.bw.Init(&mr.bb, false); ...; mr.bw.WriteBits(0, 1) *)
Definition bw_start : bres pwr :=
  match frun (pw_init zero_pwr (new_sink [] SAccept) false) [FBits 0 1] with
  | (Some e, _) => BThrow e
  | (None, bw1) => BOk bw1
  end.

Definition the_dec : bres dec :=
  match meta_dec with
  | IOk d => BOk d
  | IPanic => BThrow EPanic
  | IOutOfModel => BThrow EFuel
  end.

(* if err := mr.rd.PullBits(1); err != nil { if err == io.ErrUnexpectedEOF { return io.EOF }; return err }
   (the only other error the scripted source can produce there is the io.EOF of a short Discard) *)
Definition b_pull_first : B unit := fun p =>
  let '(e, p1) := pull_bits p 1 in
  if e then (BRet EEOF, p1) else (BOk tt, p1).

(* after "magic := mr.rd.ReadBits(32)": the rest of the body; the result is (buf, final) *)
Definition block_after_magic (magic : N) : B (list byte * fmode) :=
  if negb (N.land (magic mod 2 ^ 32) magicMask =? magicVals) then corrupted else   (* "invalid meta magic value" *)
  let finalStream := N.testbit magic 0 in
  let pads := N.land (N.shiftr magic 3) 7 in
  let numHCLen := 4 + N.land (N.shiftr magic 13) 15 in
  let fail := numHCLen <? 6 in
  fail <- b_hclen_zeros (N.to_nat (numHCLen - 1 - 5)) fail ;;
  fail <- b_chk fail (v <- b_read_bits 3 ;; bret (negb (v =? 2))) ;;
  fail <- b_chk fail (v <- b_read_bits 1 ;; bret (negb (v =? 0))) ;;
  if fail then corrupted else                                    (* "invalid meta header" *)
  let huffLen := 8 - (numHCLen - 4) / 2 in
  let huffRange := 2 ^ huffLen in
  d <- blift the_dec ;;
  bw1 <- blift bw_start ;;
  s <- sym_loop 258 d (mkIsym 0 0 0 255 bw1) ;;
  if negb (bits_written (i_bw s) =? Z.of_N maxSyms)%Z then corrupted else   (* "excessive number of meta symbols" *)
  syms <- blift (finish_syms (i_bw s)) ;;
  if negb (i_ones s =? huffRange) then corrupted else            (* "degenerate meta prefix tree" *)
  bf <- blift (block_data syms finalStream) ;;
  fail <- (v <- b_read_bits pads ;; bret (0 <? v)) ;;
  fail <- b_chk fail (v <- b_read_bits 1 ;; bret (0 <? v)) ;;
  fail <- b_chk fail (v <- b_read_bits huffLen ;; bret (negb (v =? huffRange - 1))) ;;
  fail <- b_chk fail b_unaligned ;;
  if fail then corrupted else                                    (* "invalid meta footer" *)
  bret bf.

(* the body of decodeBlock between the two defers and the final "return nil" *)
Definition block_body : B (list byte * fmode) :=
  b_pull_first ;;;
  magic <- b_read_bits 32 ;;
  block_after_magic magic.

(* ---- the Reader --------------------------------------------------------------------------------- *)
Record mrst := mkMr {
  m_inOff : Z;               (* InputOffset *)
  m_outOff : Z;              (* OutputOffset *)
  m_nblocks : Z;             (* NumBlocks *)
  m_FinalMode : fmode;       (* FinalMode *)
  m_nil : bool;              (* rd == nil (rd is either nil or &mr.br) *)
  m_br : prd;                (* br, the pre-allocated prefix.Reader rd points to *)
  m_final : fmode;           (* final *)
  m_buf : list byte;         (* buf *)
  m_err : option err         (* err; Some EClosed = errClosed *)
}.

Definition set_err (st : mrst) (e : option err) : mrst :=
  mkMr (m_inOff st) (m_outOff st) (m_nblocks st) (m_FinalMode st) (m_nil st) (m_br st) (m_final st) (m_buf st) e.
Definition set_br (st : mrst) (p : prd) : mrst :=
  mkMr (m_inOff st) (m_outOff st) (m_nblocks st) (m_FinalMode st) (m_nil st) p (m_final st) (m_buf st) (m_err st).

Definition crashed (e : err) : bool :=
  match e with EPanic | EFuel => true | _ => false end.

(* a Go run-time panic (or an exhausted model budget): the call never returns; latched *)
Definition crash (st : mrst) (e : err) : mrst :=
  mkMr (m_inOff st) (m_outOff st) (m_nblocks st) (m_FinalMode st) (m_nil st) (m_br st) (m_final st) [] (Some e).

(* the end of decodeBlock: the deferred closure (Flush; InputOffset), then errors.Recover *)
Definition block_finish (st : mrst) (offset : Z) (r : bres (list byte * fmode)) (p1 : prd) : option err * mrst :=
  let '(short, p2) := flush p1 in
  let inOff := (m_inOff st + (p_offset p2 - offset))%Z in
  let errFl := if short then Some EEOF else None in              (* the scripted Discard reports io.EOF *)
  match r with
  | BOk (buf, final) =>                                          (* mr.buf, mr.final = buf, final; mr.NumBlocks++; return nil *)
    (errFl, mkMr inOff (m_outOff st) (m_nblocks st + 1) (m_FinalMode st) (m_nil st) p2 final buf (m_err st))
  | BRet e =>                                                    (* an error of Flush replaces the returned one *)
    ((match errFl with Some x => Some x | None => Some e end),
     mkMr inOff (m_outOff st) (m_nblocks st) (m_FinalMode st) (m_nil st) p2 (m_final st) (m_buf st) (m_err st))
  | BThrow e =>                                                  (* errors.Recover runs last: the panic value wins *)
    (Some e,
     mkMr inOff (m_outOff st) (m_nblocks st) (m_FinalMode st) (m_nil st) p2 (m_final st) (m_buf st) (m_err st))
  end.

(* decodeBlock(): (the error returned, the state after the call) *)
Definition mr_decode_block (st : mrst) : option err * mrst :=
  if m_nil st then (Some EPanic, crash st EPanic) else           (* mr.rd.Offset on a nil rd *)
  let p := m_br st in
  let offset := p_offset p in
  let '(r, p1) := block_body p in
  match r with
  | BThrow EPanic => (Some EPanic, crash (set_br st p1) EPanic)
  | BThrow EFuel => (Some EFuel, crash (set_br st p1) EFuel)
  | _ => block_finish st offset r p1
  end.

(* the loop of Read: (bytes copied, state) *)
Fixpoint read_loop (fuel : nat) (st : mrst) (n : nat) : list byte * mrst :=
  match fuel with
  | O => ([], crash st EFuel)
  | S f =>
    match m_buf st with
    | _ :: _ =>                                                  (* cpCnt := copy(buf, mr.buf); mr.buf = mr.buf[cpCnt:]; break *)
      (firstn n (m_buf st),
       mkMr (m_inOff st) (m_outOff st) (m_nblocks st) (m_FinalMode st) (m_nil st) (m_br st) (m_final st)
            (skipn n (m_buf st)) (m_err st))
    | [] =>
      if negb (fmode_eqb (m_final st) FinalNil) then             (* mr.FinalMode = mr.final; mr.err = io.EOF; break *)
        ([], mkMr (m_inOff st) (m_outOff st) (m_nblocks st) (m_final st) (m_nil st) (m_br st) (m_final st)
                  (m_buf st) (Some EEOF))
      else
        let '(e, st1) := mr_decode_block st in                   (* mr.err = mr.decodeBlock() *)
        match e with
        | Some x => if crashed x then ([], st1) else ([], set_err st1 (Some x))
        | None => read_loop f st1 n
        end
    end
  end.

(* every decodeBlock that lets the loop go on has consumed at least one byte *)
Definition read_fuel (st : mrst) : nat :=
  S (S (length (s_data (p_src (m_br st))) - s_pos (p_src (m_br st)))).

(* Read(buf) with len(buf) = n *)
Definition mr_read (st : mrst) (n : nat) : (list byte * option err) * mrst :=
  match m_err st with
  | Some e => (([], Some e), st)
  | None =>
    let '(out, st1) := match n with O => ([], st) | _ => read_loop (read_fuel st) st n end in
    let st2 := mkMr (m_inOff st1) (m_outOff st1 + Z.of_nat (length out)) (m_nblocks st1)
                    (m_FinalMode st1) (m_nil st1) (m_br st1) (m_final st1) (m_buf st1) (m_err st1) in
    ((out, m_err st2), st2)
  end.

(* Close() *)
Definition mr_close (st : mrst) : option err * mrst :=
  match m_err st with
  | Some EClosed => (None, st)
  | Some EEOF | None =>                                          (* FinalMode = final; err = errClosed; rd = nil *)
    (None, mkMr (m_inOff st) (m_outOff st) (m_nblocks st) (m_final st) true (m_br st) (m_final st)
                (m_buf st) (Some EClosed))
  | Some e => (Some e, st)
  end.

(* Reset(rd): "*mr = Reader{br: mr.br, bw: mr.bw, bb: mr.bb}; mr.rd = &mr.br; mr.rd.Init(rd, false)";
   prefix.Reader.Init replaces every field of mr.br that the model has *)
Definition mr_reset (st : mrst) (data : list byte) (buffered : bool) (fills reads : list nat) : mrst :=
  mkMr 0 0 0 FinalNil false (init data buffered false fills reads) FinalNil [] None.

(* NewReader(rd): new(Reader) then Reset *)
Definition mr_zero : mrst := mkMr 0 0 0 FinalNil true (init [] false false [] []) FinalNil [] None.
Definition mr_new (data : list byte) (buffered : bool) (fills reads : list nat) : mrst :=
  mr_reset mr_zero data buffered fills reads.

(* ---- histories, as the correspondence harness observes them ---------------------------------- *)
Inductive mrop :=
| RdRead (n : nat)
| RdClose
| RdReset (data : list byte) (buffered : bool) (fills reads : list nat).

Inductive mrret :=
| RetRead (bs : list byte) (e : option err)
| RetClose (e : option err)
| RetReset.

Record mrobs := mkMrobs {
  ro_ret : mrret;
  ro_inOff : Z;
  ro_outOff : Z;
  ro_nblocks : Z;
  ro_FinalMode : fmode;
  ro_srcPos : nat              (* position of the (current) source *)
}.

Definition src_pos (st : mrst) : nat := s_pos (p_src (m_br st)).

Definition observe (r : mrret) (st : mrst) : mrobs :=
  mkMrobs r (m_inOff st) (m_outOff st) (m_nblocks st) (m_FinalMode st) (src_pos st).

Definition mr_step (st : mrst) (o : mrop) : mrret * mrst :=
  match o with
  | RdRead n => let '((bs, e), st') := mr_read st n in (RetRead bs e, st')
  | RdClose => let '(e, st') := mr_close st in (RetClose e, st')
  | RdReset data bf fills reads => (RetReset, mr_reset st data bf fills reads)
  end.

Definition ret_crashed (r : mrret) : bool :=
  match r with
  | RetRead _ (Some e) => crashed e
  | _ => false
  end.

(* a history; it ends at the first run-time panic *)
Fixpoint mr_run (st : mrst) (ops : list mrop) : list mrobs * mrst :=
  match ops with
  | [] => ([], st)
  | o :: r =>
    let '(ret, st') := mr_step st o in
    if ret_crashed ret then ([observe ret st'], st')
    else let '(obs, fin) := mr_run st' r in (observe ret st' :: obs, fin)
  end.

Definition mr_run_new (data : list byte) (bf : bool) (fills reads : list nat) (ops : list mrop) : list mrobs :=
  fst (mr_run (mr_new data bf fills reads) ops).
