(* C16, converse direction: whatever the XFLATE meta DECODER accepts is an EMPTY
   dynamic-Huffman DEFLATE block for the RFC 1951 model (Flate/Spec.v).

   Meta/Deflate.v proves that every block the meta ENCODER produces is such a block; the
   decoder (Meta/Model.v, [decode_block]) accepts more bit strings than the encoder ever
   writes (any choice of body symbols that describes the same 256 bits and keeps the
   rolling fifo non-zero, any position of the pad bits ...). Here:
     1. the shape [gen_block_bits h fs pads l] of a block for an ARBITRARY list [l] of body
        symbols, and the proof that the DEFLATE block reader reads it as an empty block;
     2. the INVERSION of a successful decoder run: the consumed bits have that shape;
     3. the block theorem [meta_accept_block_is_empty_deflate];
     4. the stream theorems [meta_accept_nonfinal_blocks], [meta_accept_final_stream];
     5. non-vacuity: encoder output and hand-made blocks no encoder output equals.
   No hypothesis on byte values or sizes; the only budget is the decoder model's own
   ([decode_stream 40], inside [meta_decode]). *)
From V Require Import Base.Prelude Base.Prog Base.ProgThms Base.FuelThms Base.DepthThms
  Prefix.Thms Meta.Model Meta.Thms Meta.RoundTrip Meta.Deflate
  Flate.Spec Flate.Thms Flate.Fuel Flate.Depth Flate.Canon Flate.CanonLink
  XFlate.Reader XFlate.RoundTripStmt Flate.Compose.
From Coq Require Import ZifyBool ZifyN ZifyNat.

Local Open Scope N_scope.

(* ====================================================================== *)
(* 1. the generalised block shape is an empty dynamic DEFLATE block        *)
(* ====================================================================== *)

Definition gen_block_bits (h : N) (fs : bool) (pads : N) (l : list msym) : list bool :=
  val_bits 32 (hdr_magic h fs + 8 * pads)
  ++ zero_triples (N.to_nat (4 + (8 - h) * 2 - 1 - 5))
  ++ val_bits 3 2 ++ [false]
  ++ sym_bits l
  ++ repeat false (N.to_nat pads) ++ [false] ++ repeat true (N.to_nat h).

Lemma msym_cnt_pos m : 1 <= msym_cnt m.
Proof. destruct m; cbn [msym_cnt]; lia. Qed.

Lemma msyms_len_le l : N.of_nat (length l) <= msyms_cnt l.
Proof.
  induction l as [|m l IH]; cbn [length msyms_cnt]; [lia|].
  pose proof (msym_cnt_pos m). lia.
Qed.

Lemma sym_steps_bits_len l : forall s,
  N.of_nat (length (ss_bits (fold_left sym_step l s)))
  = N.of_nat (length (ss_bits s)) + msyms_cnt l.
Proof.
  induction l as [|m l IH]; intros s; cbn [fold_left msyms_cnt]; [lia|].
  rewrite IH. cbn [sym_step ss_bits]. rewrite app_length, repeat_length. lia.
Qed.

Lemma sym_steps_ones l : forall s,
  ss_ones (fold_left sym_step l s) + ntrue (ss_bits s)
  = ss_ones s + ntrue (ss_bits (fold_left sym_step l s)).
Proof.
  induction l as [|m l IH]; intros s; cbn [fold_left]; [lia|].
  specialize (IH (sym_step s m)). cbn [sym_step ss_ones ss_bits] in IH.
  rewrite ntrue_app, ntrue_repeat in IH.
  destruct (msym_bit (ss_bit s) m); lia.
Qed.

(* the whole code-length loop for an arbitrary list of body symbols *)
Lemma run_clen_loop_gen h pads l maxS T pos out len :
  1 <= h <= 7 -> pads < 8 ->
  Forall msym_wf l -> msyms_cnt l = 256 ->
  maxS = 258 + pads ->
  let bodyb := sym_bits l in
  run (loop 10 (clen_body (ctree h) maxS) (mkClst 0 0 []))
      (mkAst ([false] ++ bodyb ++ repeat false (N.to_nat pads) ++ [false] ++ T) pos out len)
  = Done (fast_rev (acc_of h (ss_bits (fold_left sym_step l sym_init))))
         (mkAst T (pos + 1 + N.of_nat (length bodyb) + pads + 1) out len).
Proof.
  intros Hh Hp Hwf Hcnt HmaxS bodyb.
  set (zs := repeat MZero (S (N.to_nat pads))).
  set (L := l ++ zs).
  set (s1 := mkClst 1 0 []).
  assert (HcntL : msyms_cnt L = 257 + pads).
  { unfold L, zs. rewrite msyms_cnt_app, msyms_cnt_zeros, Hcnt. lia. }
  assert (HwfL : Forall msym_wf L).
  { unfold L. apply Forall_app. split; [exact Hwf|].
    unfold zs. apply Forall_forall. intros m Hm. apply repeat_spec in Hm. subst m. exact I. }
  assert (HR0 : clR h sym_init s1).
  { unfold clR, sym_init, s1. cbn [cl_sym cl_last cl_acc ss_idx ss_bits ss_bit length acc_of].
    repeat split. }
  pose proof (clR_steps h L sym_init s1 ltac:(lia) HR0) as (R1 & R2 & R3 & R4).
  assert (Hbits : ss_bits (fold_left sym_step L sym_init)
                  = repeat false (S (N.to_nat pads)) ++ ss_bits (fold_left sym_step l sym_init)).
  { unfold L. rewrite fold_left_app. unfold zs. rewrite sym_steps_zeros. reflexivity. }
  assert (HbitsL : sym_bits L ++ T
                   = bodyb ++ repeat false (N.to_nat pads) ++ [false] ++ T).
  { unfold L. rewrite sym_bits_app, <- app_assoc. fold bodyb. f_equal.
    unfold zs. rewrite sym_bits_zeros, repeat_snoc. reflexivity. }
  assert (HlenL : N.of_nat (length (sym_bits L)) = N.of_nat (length bodyb) + pads + 1).
  { unfold L. rewrite sym_bits_app, app_length. fold bodyb. unfold zs.
    rewrite sym_bits_zeros, repeat_length. lia. }
  assert (HlenLs : (length L <= 265)%nat).
  { pose proof (msyms_len_le l) as Hc. rewrite Hcnt in Hc.
    unfold L, zs. rewrite app_length, repeat_length. lia. }
  eapply (loop_iters _ 10 (S (length L))).
  - econstructor.
    + change ([false] ++ bodyb ++ repeat false (N.to_nat pads) ++ [false] ++ T)
        with (msym_bits MZero ++ bodyb ++ repeat false (N.to_nat pads) ++ [false] ++ T).
      apply clen_body_step; [exact Hh | exact I | intros v Hv; discriminate |].
      cbn [cl_sym msym_cnt]. lia.
    + change (cl_step h (mkClst 0 0 []) MZero) with s1.
      rewrite <- HbitsL.
      apply cl_steps_iters; [exact Hh | exact HwfL | cbn [s1 cl_sym]; lia |].
      rewrite HcntL. cbn [s1 cl_sym]. lia.
  - change (2 ^ 10)%nat with 1024%nat. lia.
  - unfold clen_body.
    assert (E : (maxS <=? cl_sym (fold_left (cl_step h) L s1)) = true).
    { apply N.leb_le. rewrite cl_steps_sym, HcntL. cbn [s1 cl_sym]. lia. }
    rewrite E. cbn [run]. rewrite R4, Hbits, acc_of_zeros.
    f_equal. f_equal. cbn [msym_bits length]. lia.
Qed.

Lemma run_read_prefix_codes_gen h pads l tl T pos out len :
  1 <= h <= 7 -> pads < 8 ->
  Forall msym_wf l -> msyms_cnt l = 256 ->
  ss_bits (fold_left sym_step l sym_init) = true :: tl -> ntrue tl + 1 = 2 ^ h ->
  let bodyb := sym_bits l in
  run read_prefix_codes
      (mkAst (val_bits 5 pads ++ val_bits 5 0 ++ val_bits 4 ((8 - h) * 2)
              ++ flat_map (val_bits 3) (hclens h)
              ++ [false] ++ bodyb ++ repeat false (N.to_nat pads) ++ [false] ++ T) pos out len)
  = Done (tree_of (fast_rev (acc_of h (true :: tl))), HEmpty)
         (mkAst T (pos + 5 + 5 + 4 + 3 * ((8 - h) * 2 + 4) + 1 + N.of_nat (length bodyb) + pads + 1)
                out len).
Proof.
  intros Hh Hp Hwf Hcnt Htl Hnt bodyb.
  destruct (hclens_tree h Hh) as (C1 & C2 & C3 & C4).
  assert (Htl256 : length tl = 256%nat).
  { pose proof (sym_steps_bits_len l sym_init) as Hl. rewrite Htl, Hcnt in Hl.
    cbn [sym_init ss_bits length] in Hl. lia. }
  destruct (lit_code_facts h tl (pads + 257) maxNumLitSyms Hh Htl256 Hnt ltac:(lia))
    as (F1 & F2 & F3 & _).
  unfold read_prefix_codes.
  rewrite run_bind, (run_rbits 5 pads) by (change (2 ^ 5) with 32; lia). cbv beta iota.
  rewrite run_bind, (run_rbits 5 0) by (cbv; reflexivity). cbv beta iota.
  rewrite run_bind, (run_rbits 4 ((8 - h) * 2)) by (change (2 ^ 4) with 16; lia).
  cbv beta iota zeta.
  assert (E : ((pads + 257 <=? maxNumLitSyms) && (0 + 1 <=? maxNumDistSyms)) = true).
  { apply andb_true_iff. unfold maxNumLitSyms, maxNumDistSyms. split; apply N.leb_le; lia. }
  rewrite run_bind, E, run_assert_true. cbv beta iota.
  rewrite run_bind, run_read_clens by assumption. cbv beta iota.
  rewrite run_bind, C4, run_opt_tree_some. cbv beta iota.
  rewrite run_bind.
  rewrite (run_clen_loop_gen h pads l (pads + 257 + (0 + 1))) by (assumption || lia).
  cbv beta iota. rewrite Htl, F1, F2. cbn [map].
  rewrite run_bind, F3, run_opt_tree_some. cbv beta iota.
  cbn [build_tree]. rewrite run_bind, run_opt_tree_some. cbv beta iota.
  cbn [run]. f_equal. f_equal. fold bodyb. rewrite C3. lia.
Qed.

Lemma gen_block_bits_length h fs pads l :
  N.of_nat (length (gen_block_bits h fs pads l))
  = 32 + 3 * N.of_nat (N.to_nat (4 + (8 - h) * 2 - 1 - 5)) + 3 + 1
    + N.of_nat (length (sym_bits l)) + pads + 1 + h.
Proof.
  unfold gen_block_bits.
  rewrite !app_length, !val_bits_length, zero_triples_length, !repeat_length.
  cbn [length]. lia.
Qed.

(* A. a block in the generalised shape is an empty dynamic DEFLATE block *)
Lemma run_one_block_gen h fs pads l tl depth rest pos out len :
  1 <= h <= 7 -> pads < 8 ->
  Forall msym_wf l -> msyms_cnt l = 256 ->
  ss_bits (fold_left sym_step l sym_init) = true :: tl -> ntrue tl + 1 = 2 ^ h ->
  run (one_block depth) (mkAst (gen_block_bits h fs pads l ++ rest) pos out len)
  = Done fs (mkAst rest (pos + N.of_nat (length (gen_block_bits h fs pads l))) out len).
Proof.
  intros Hh Hp Hwf Hcnt Htl Hnt.
  assert (Htl256 : length tl = 256%nat).
  { pose proof (sym_steps_bits_len l sym_init) as Hl. rewrite Htl, Hcnt in Hl.
    cbn [sym_init ss_bits length] in Hl. lia. }
  destruct (lit_code_facts h tl (pads + 257) maxNumLitSyms Hh Htl256 Hnt ltac:(lia))
    as (_ & _ & _ & F4).
  assert (Hblen : N.of_nat (length (gen_block_bits h fs pads l))
                  = 1 + 2 + (5 + 5 + 4 + 3 * ((8 - h) * 2 + 4) + 1
                             + N.of_nat (length (sym_bits l)) + pads + 1) + h).
  { rewrite gen_block_bits_length. lia. }
  rewrite Hblen.
  unfold gen_block_bits. rewrite <- !app_assoc.
  rewrite (hdr_bits_fields h fs pads _ Hh Hp).
  unfold one_block.
  rewrite run_bind, (run_rbits 1 (N.b2n fs)) by (destruct fs; cbv; reflexivity). cbv beta iota.
  rewrite run_bind, (run_rbits 2 2) by (cbv; reflexivity). cbv beta iota.
  change (2 =? 0) with false. change (2 =? 1) with false. change (2 =? 2) with true.
  cbv beta iota.
  rewrite !run_bind.
  rewrite (run_read_prefix_codes_gen h pads l tl) by assumption.
  cbv beta iota. cbn [fst snd].
  rewrite (loop_exit_now _ depth tt _ tt (mkAst rest
             (pos + 1 + 2 + 5 + 5 + 4 + 3 * ((8 - h) * 2 + 4) + 1
              + N.of_nat (length (sym_bits l)) + pads + 1 + h) out len)).
  - cbn [run]. f_equal.
    + destruct fs; reflexivity.
    + f_equal. lia.
  - unfold block_body, sym_or_corrupt. rewrite !run_bind, F4. cbv beta iota.
    cbn [run]. change (256 <? 256) with false. change (256 =? 256) with true.
    cbv beta iota. cbn [run]. reflexivity.
Qed.

Local Arguments N.mul : simpl never.
Local Arguments N.add : simpl never.

(* ====================================================================== *)
(* 2. inversion of a successful decoder run                                *)
(* ====================================================================== *)

Lemma odd_b2n_2 b v : N.odd (N.b2n b + 2 * v) = b.
Proof. rewrite N.odd_add_mul_2. destruct b; reflexivity. Qed.

Lemma div2_b2n_2 b v : N.div2 (N.b2n b + 2 * v) = v.
Proof. rewrite N.div2_div. destruct b; cbn [N.b2n]; lia. Qed.

Lemma run_ret {A} (a : A) s : run (Ret a) s = Done a s.
Proof. reflexivity. Qed.

Lemma bits_lsbf_inv n : forall i pos out len v s',
  run (bits_lsbf n) (mkAst i pos out len) = Done v s' ->
  v < 2 ^ N.of_nat n /\ i = val_bits n v ++ a_in s' /\
  s' = mkAst (a_in s') (pos + N.of_nat n) out len.
Proof.
  induction n as [|n IH]; intros i pos out len v s' H.
  - cbn [bits_lsbf run] in H. inversion H; subst. cbn [val_bits app a_in N.of_nat].
    rewrite N.add_0_r. split; [cbv; reflexivity|]. split; reflexivity.
  - cbn [bits_lsbf run a_in] in H. destruct i as [|b r]; [discriminate|].
    cbn [a_pos a_out a_len] in H. rewrite run_bind in H.
    destruct (run (bits_lsbf n) (mkAst r (pos + 1) out len)) as [v1 s1|e s1] eqn:E; [|discriminate].
    cbv beta iota in H. rewrite run_ret in H. inversion H; subst v s'. clear H.
    destruct (IH _ _ _ _ _ _ E) as (B1 & B2 & B3).
    split; [rewrite Nat2N.inj_succ, N.pow_succ_r'; revert B1; generalize (2 ^ N.of_nat n); intros p B1;
            destruct b; cbn [N.b2n]; lia|].
    split.
    + cbn [val_bits]. rewrite odd_b2n_2, div2_b2n_2. cbn [app]. f_equal. exact B2.
    + rewrite B3 at 1. cbn [a_in]. f_equal. lia.
Qed.

Lemma read_bits_inv n i pos out len v s' :
  run (read_bits n) (mkAst i pos out len) = Done v s' ->
  v < 2 ^ n /\ i = val_bits (N.to_nat n) v ++ a_in s' /\
  s' = mkAst (a_in s') (pos + n) out len.
Proof.
  intros H. unfold read_bits in H. apply bits_lsbf_inv in H. rewrite N2Nat.id in H. exact H.
Qed.

(* one iteration of the symbol loop *)
Lemma sym_body_inv s i pos out len r st1 :
  run (sym_body s) (mkAst i pos out len) = Done r st1 ->
  (256 <= ss_idx s /\ r = inr s /\ st1 = mkAst i pos out len) \/
  (ss_idx s < 256 /\ exists m rest, msym_wf m /\ i = msym_bits m ++ rest /\
     r = inl (sym_step s m) /\
     st1 = mkAst rest (pos + N.of_nat (length (msym_bits m))) out len).
Proof.
  intros H. unfold sym_body in H.
  destruct (256 <=? ss_idx s) eqn:E.
  { left. apply N.leb_le in E. cbn [run] in H. inversion H; subst. auto. }
  right. apply N.leb_gt in E. split; [exact E|].
  rewrite run_bind in H.
  destruct i as [|[|] i].
  - cbn in H. discriminate.
  - destruct i as [|[|] i].
    + cbn in H. discriminate.
    + destruct i as [|[|] i].
      * cbn in H. discriminate.
      * (* 111: MRepZero *)
        rewrite walk3 in H. change (3 =? 0) with false in H. change (3 =? 1) with false in H.
        change (3 =? 2) with false in H. cbv iota in H.
        rewrite !run_bind in H.
        destruct (run (read_bits 7) (mkAst i (pos + 1 + 1 + 1) out len)) as [v s2|e s2] eqn:Er;
          [|discriminate].
        destruct (read_bits_inv _ _ _ _ _ _ _ Er) as (V1 & V2 & V3).
        cbn [run] in H.
        destruct (N.lor (shr (N.lor (shr (ss_fifo s) 3) 224) 7) (b8 (v * 2)) =? 0) eqn:Ef;
          [discriminate|].
        cbn [run] in H. inversion H; subst r st1. clear H.
        exists (MRepZero v), (a_in s2). split; [exact V1|].
        split; [cbn [msym_bits app]; rewrite V2; reflexivity|].
        split; [reflexivity|].
        rewrite V3 at 1. f_equal. cbn [msym_bits app length]. rewrite val_bits_length. lia.
      * (* 110: MRepLast *)
        rewrite walk2 in H. change (2 =? 0) with false in H. change (2 =? 1) with false in H.
        change (2 =? 2) with true in H. cbv iota in H.
        rewrite !run_bind in H.
        destruct (run (read_bits 2) (mkAst i (pos + 1 + 1 + 1) out len)) as [v s2|e s2] eqn:Er;
          [|discriminate].
        destruct (read_bits_inv _ _ _ _ _ _ _ Er) as (V1 & V2 & V3).
        cbn [run] in H.
        destruct (N.lor (shr (N.lor (shr (ss_fifo s) 3) 96) 2) (b8 (v * 64)) =? 0) eqn:Ef;
          [discriminate|].
        cbn [run] in H. inversion H; subst r st1. clear H.
        exists (MRepLast v), (a_in s2). split; [exact V1|].
        split; [cbn [msym_bits app]; rewrite V2; reflexivity|].
        split; [reflexivity|].
        rewrite V3 at 1. f_equal. cbn [msym_bits app length]. rewrite val_bits_length. lia.
    + (* 10: MOne *)
      rewrite walk1 in H. change (1 =? 0) with false in H. change (1 =? 1) with true in H.
      cbn [bind run] in H.
      destruct (N.lor (shr (ss_fifo s) 2) 64 =? 0) eqn:Ef; [discriminate|].
      cbn [run] in H. inversion H; subst r st1. clear H.
      exists MOne, i. split; [exact I|]. split; [reflexivity|]. split; [reflexivity|].
      f_equal. cbn [msym_bits length]. lia.
  - (* 0: MZero *)
    rewrite walk0 in H. change (0 =? 0) with true in H.
    cbn [bind run] in H.
    destruct (N.lor (shr (ss_fifo s) 1) 0 =? 0) eqn:Ef; [discriminate|].
    cbn [run] in H. inversion H; subst r st1. clear H.
    exists MZero, i. split; [exact I|]. split; [reflexivity|]. split; [reflexivity|].
    f_equal.
Qed.

(* the whole symbol loop *)
Lemma sym_loops_inv s0 st r :
  loops sym_body s0 st r -> forall s st', r = Done s st' ->
  exists l, Forall msym_wf l /\ a_in st = sym_bits l ++ a_in st' /\
    s = fold_left sym_step l s0 /\
    a_pos st' = a_pos st + N.of_nat (length (sym_bits l)) /\
    a_out st' = a_out st /\ a_len st' = a_len st.
Proof.
  intros HL. induction HL as [s0 st e st1 E|s0 st x st1 E|s0 st s1 st1 r E HL IH];
    intros s st' Hr.
  - discriminate.
  - inversion Hr; subst x st1. clear Hr.
    destruct st as [i pos out len].
    destruct (sym_body_inv _ _ _ _ _ _ _ E) as [(_ & R1 & R2)|(_ & m & rest & _ & _ & R1 & _)];
      [|discriminate].
    inversion R1; subst s st'. exists []. cbn [sym_bits flat_map app fold_left a_in a_pos a_out a_len length].
    split; [constructor|]. repeat split. lia.
  - destruct st as [i pos out len].
    destruct (sym_body_inv _ _ _ _ _ _ _ E) as [(_ & R1 & _)|(_ & m & rest & Hw & Hi & R1 & R2)];
      [discriminate|].
    inversion R1; subst s1. subst st1. clear R1.
    destruct (IH s st' Hr) as (l & L1 & L2 & L3 & L4 & L5 & L6).
    cbn [a_in a_pos a_out a_len] in *.
    exists (m :: l). split; [constructor; assumption|].
    cbn [sym_bits flat_map fold_left]. fold (sym_bits l).
    split; [rewrite Hi, L2, app_assoc; reflexivity|].
    split; [exact L3|]. split; [rewrite L4, app_length; lia|]. split; assumption.
Qed.

Lemma sym_loop_inv d s0 st s st' :
  run (loop d sym_body s0) st = Done s st' ->
  exists l, Forall msym_wf l /\ a_in st = sym_bits l ++ a_in st' /\
    s = fold_left sym_step l s0 /\
    a_pos st' = a_pos st + N.of_nat (length (sym_bits l)) /\
    a_out st' = a_out st /\ a_len st' = a_len st.
Proof.
  intros H. apply (sym_loops_inv s0 st (Done s st')); [|reflexivity].
  rewrite <- H. apply loop_loops. rewrite H. intros C; exact C.
Qed.

(* the zero code-length-code lengths *)
Lemma hclen_zeros_inv k : forall fail i pos out len s',
  run (hclen_zeros k fail) (mkAst i pos out len) = Done false s' ->
  fail = false /\ i = zero_triples k ++ a_in s' /\
  s' = mkAst (a_in s') (pos + 3 * N.of_nat k) out len.
Proof.
  induction k as [|k IH]; intros fail i pos out len s' H.
  - cbn [hclen_zeros] in H. rewrite run_ret in H. inversion H; subst.
    cbn [zero_triples repeat concat app a_in]. split; [reflexivity|]. split; [reflexivity|].
    f_equal. lia.
  - cbn [hclen_zeros] in H. rewrite run_bind in H.
    destruct fail.
    + cbn [chk] in H. rewrite run_ret in H. destruct (IH _ _ _ _ _ _ H) as [C _]. discriminate.
    + cbn [chk] in H. rewrite run_bind in H.
      destruct (run (read_bits 3) (mkAst i pos out len)) as [v s1|e s1] eqn:E; [|discriminate].
      destruct (read_bits_inv _ _ _ _ _ _ _ E) as (V1 & V2 & V3).
      rewrite run_ret in H. rewrite V3 in H.
      destruct (IH _ _ _ _ _ _ H) as (C1 & C2 & C3).
      apply negb_false_iff, N.eqb_eq in C1. subst v.
      split; [reflexivity|]. split.
      * rewrite V2, C2. unfold zero_triples. cbn [repeat concat]. rewrite <- app_assoc. reflexivity.
      * rewrite C3 at 1. f_equal. lia.
Qed.

(* ---- the magic word: what the mask test leaves free ---------------------- *)
Fixpoint zipand (a b : list bool) : list bool :=
  match a, b with
  | x :: a', y :: b' => (x && y) :: zipand a' b'
  | _, _ => []
  end.

Lemma val_bits_land n : forall a b,
  val_bits n (N.land a b) = zipand (val_bits n a) (val_bits n b).
Proof.
  induction n as [|n IH]; intros a b; cbn [val_bits zipand]; [reflexivity|].
  f_equal.
  - rewrite <- !N.bit0_odd, N.land_spec. reflexivity.
  - rewrite !N.div2_spec, N.shiftr_land. apply IH.
Qed.

(* masked positions take the value, the others stay *)
Fixpoint fixup (l mask vals : list bool) : list bool :=
  match l, mask, vals with
  | b :: l', m :: ms, v :: vs => (if m then v else b) :: fixup l' ms vs
  | _, _, _ => []
  end.

Lemma zipand_fixup : forall l mask vals,
  length mask = length l -> zipand l mask = vals -> l = fixup l mask vals.
Proof.
  induction l as [|b l IH]; intros mask vals Hl H; [reflexivity|].
  destruct mask as [|m ms]; [discriminate Hl|].
  cbn [zipand] in H. subst vals. cbn [fixup]. f_equal.
  - destruct m, b; reflexivity.
  - apply IH; [cbn [length] in Hl; lia | reflexivity].
Qed.

Definition magic_of (fs : bool) (pads k : N) : N := magicVals + N.b2n fs + 8 * pads + k * 2 ^ 14.

Lemma mask_list_inv L : length L = 32%nat ->
  zipand L (val_bits 32 magicMask) = val_bits 32 magicVals ->
  L = val_bits 32 (magic_of (nth 0 L false)
        (N.b2n (nth 3 L false) + 2 * N.b2n (nth 4 L false) + 4 * N.b2n (nth 5 L false))
        (N.b2n (nth 14 L false) + 2 * N.b2n (nth 15 L false) + 4 * N.b2n (nth 16 L false))).
Proof.
  intros Hlen H.
  apply zipand_fixup in H; [|rewrite val_bits_length; symmetry; exact Hlen].
  do 32 (destruct L as [|? L]; [discriminate Hlen|]).
  destruct L; [|discriminate Hlen]. clear Hlen.
  let mb := eval vm_compute in (val_bits 32 magicMask) in
    change (val_bits 32 magicMask) with mb in H.
  let vb := eval vm_compute in (val_bits 32 magicVals) in
    change (val_bits 32 magicVals) with vb in H.
  cbn [fixup] in H. injection H; intros; subst. clear H.
  cbn [nth].
  repeat match goal with b : bool |- _ => destruct b end; vm_compute; reflexivity.
Qed.

Lemma magic_inv magic : magic < 2 ^ 32 -> N.land magic magicMask = magicVals ->
  exists fs pads k, pads < 8 /\ k < 8 /\ magic = magic_of fs pads k.
Proof.
  intros Hlt H.
  set (L := val_bits 32 magic).
  assert (HL : zipand L (val_bits 32 magicMask) = val_bits 32 magicVals).
  { unfold L. rewrite <- val_bits_land, H. reflexivity. }
  pose proof (mask_list_inv L (val_bits_length 32 magic) HL) as E.
  exists (nth 0 L false),
    (N.b2n (nth 3 L false) + 2 * N.b2n (nth 4 L false) + 4 * N.b2n (nth 5 L false)),
    (N.b2n (nth 14 L false) + 2 * N.b2n (nth 15 L false) + 4 * N.b2n (nth 16 L false)).
  split; [destruct (nth 3 L false), (nth 4 L false), (nth 5 L false); cbv; reflexivity|].
  split; [destruct (nth 14 L false), (nth 15 L false), (nth 16 L false); cbv; reflexivity|].
  apply (f_equal bits_val) in E. unfold L in E at 1.
  rewrite !bits_val_val_bits in E.
  change (2 ^ N.of_nat 32) with (2 ^ 32) in E.
  rewrite N.mod_small in E by exact Hlt.
  rewrite N.mod_small in E; [exact E|].
  destruct (nth 0 L false), (nth 3 L false), (nth 4 L false), (nth 5 L false),
    (nth 14 L false), (nth 15 L false), (nth 16 L false); vm_compute; reflexivity.
Qed.

Lemma k_cases k : k < 8 ->
  k = 0 \/ k = 1 \/ k = 2 \/ k = 3 \/ k = 4 \/ k = 5 \/ k = 6 \/ k = 7.
Proof. lia. Qed.

Lemma magic_of_fields fs pads k : pads < 8 -> k < 8 ->
  N.testbit (magic_of fs pads k) 0 = fs /\
  N.land (shr (magic_of fs pads k) 3) 7 = pads /\
  N.land (shr (magic_of fs pads k) 13) 15 = 2 * k.
Proof.
  intros Hp Hk.
  destruct (k_cases k Hk) as [E|[E|[E|[E|[E|[E|[E|E]]]]]]]; subst k;
  destruct (pads_cases pads Hp) as [F|[F|[F|[F|[F|[F|[F|F]]]]]]]; subst pads;
  destruct fs; vm_compute; repeat split; reflexivity.
Qed.

Lemma magic_of_hdr fs pads k : 1 <= k <= 7 ->
  magic_of fs pads k = hdr_magic (8 - k) fs + 8 * pads.
Proof.
  intros Hk. unfold magic_of, hdr_magic.
  change (2 ^ 14) with 16384. change (2 ^ 13) with 8192. lia.
Qed.

(* ---- generic inversion of [bind], [assert_p], [chk] ----------------------- *)
Lemma run_bind_inv {A B} (p : prog A) (f : A -> prog B) st b st' :
  run (bind p f) st = Done b st' ->
  exists a st1, run p st = Done a st1 /\ run (f a) st1 = Done b st'.
Proof.
  rewrite run_bind. destruct (run p st) as [a st1|e st1]; [|discriminate].
  intros H. exists a, st1. split; [reflexivity | exact H].
Qed.

Lemma run_assert_bind_inv {A} c e (q : prog A) st a st' :
  run (assert_p c e ;;; q) st = Done a st' -> c = true /\ run q st = Done a st'.
Proof.
  destruct c; cbn [assert_p bind run]; intros H; [split; [reflexivity | exact H] | discriminate].
Qed.

Lemma chk_false_inv fail p st st' :
  run (chk fail p) st = Done false st' -> fail = false /\ run p st = Done false st'.
Proof.
  destruct fail; cbn [chk]; intros H; [rewrite run_ret in H; discriminate|].
  split; [reflexivity | exact H].
Qed.

Lemma read_test_inv n (t : N -> bool) i pos out len b s' :
  run (v <- read_bits n ;; Ret (t v)) (mkAst i pos out len) = Done b s' ->
  exists v, v < 2 ^ n /\ t v = b /\ i = val_bits (N.to_nat n) v ++ a_in s' /\
            s' = mkAst (a_in s') (pos + n) out len.
Proof.
  intros H. apply run_bind_inv in H as (v & st1 & H1 & H2).
  rewrite run_ret in H2. inversion H2; subst b st1. clear H2.
  destruct (read_bits_inv _ _ _ _ _ _ _ H1) as (V1 & V2 & V3).
  exists v. auto.
Qed.

(* ---- trailer -------------------------------------------------------------- *)
Lemma dec_tail_inv fs pads h s i pos out len buf final s' :
  1 <= h <= 7 -> pads < 8 ->
  run (dec_tail fs pads h s) (mkAst i pos out len) = Done (BBlock buf final) s' ->
  length (ss_bits s) = 257%nat /\ ss_ones s = 2 ^ h /\
  nth 256 (fast_rev (ss_bits s)) false = true /\
  fs = fmode_eqb final FinalStream /\
  i = repeat false (N.to_nat pads) ++ [false] ++ repeat true (N.to_nat h) ++ a_in s' /\
  s' = mkAst (a_in s') (pos + pads + 1 + h) out len /\ (pos + pads + 1 + h) mod 8 = 0.
Proof.
  intros Hh Hp H. unfold dec_tail in H. cbv zeta in H.
  apply run_assert_bind_inv in H as [E1 H].
  apply run_assert_bind_inv in H as [E2 H].
  apply run_assert_bind_inv in H as [E3 H].
  apply run_assert_bind_inv in H as [_ H].
  apply run_bind_inv in H as (f1 & st1 & H1 & H).
  apply run_bind_inv in H as (f2 & st2 & H2 & H).
  apply run_bind_inv in H as (f3 & st3 & H3 & H).
  apply run_bind_inv in H as (f4 & st4 & H4 & H).
  apply run_assert_bind_inv in H as [E5 H].
  rewrite run_ret in H. injection H as Hbuf Hfin Hst. subst st4.
  apply negb_true_iff in E5. subst f4.
  apply chk_false_inv in H4 as [-> H4].
  apply chk_false_inv in H3 as [-> H3].
  apply chk_false_inv in H2 as [-> H2].
  apply read_test_inv in H1 as (v1 & V1 & T1 & I1 & S1).
  rewrite S1 in H2.
  apply read_test_inv in H2 as (v2 & V2 & T2 & I2 & S2).
  rewrite S2 in H3.
  apply read_test_inv in H3 as (v3 & V3 & T3 & I3 & S3).
  rewrite S3 in H4. cbn [run a_pos] in H4. injection H4 as Hpos Hs'. subst s'. cbn [a_in].
  apply N.ltb_ge in T1. assert (v1 = 0) by lia. subst v1.
  apply N.ltb_ge in T2. assert (v2 = 0) by lia. subst v2.
  apply negb_false_iff, N.eqb_eq in T3. subst v3.
  apply N.eqb_eq in E1. apply N.eqb_eq in E2.
  split; [unfold maxSyms in E1; lia|]. split; [exact E2|]. split; [exact E3|].
  split; [rewrite <- Hfin; destruct fs; [reflexivity|]; destruct (N.testbit _ 1); reflexivity|].
  split.
  - rewrite I1, I2, I3. rewrite val_bits_zero, (val_bits_ones h Hh). reflexivity.
  - apply N.ltb_ge in Hpos. split; [reflexivity|].
    assert (Hlt : (pos + pads + 1 + h) mod 8 < 8) by (apply N.mod_lt; lia). lia.
Qed.

(* ---- what the final symbol state says about the body symbols ------------- *)
Lemma final_state_facts l h :
  length (ss_bits (fold_left sym_step l sym_init)) = 257%nat ->
  ss_ones (fold_left sym_step l sym_init) = 2 ^ h ->
  nth 256 (fast_rev (ss_bits (fold_left sym_step l sym_init))) false = true ->
  msyms_cnt l = 256 /\
  exists tl, ss_bits (fold_left sym_step l sym_init) = true :: tl /\ ntrue tl + 1 = 2 ^ h.
Proof.
  intros Hlen Hones Hnth.
  pose proof (sym_steps_bits_len l sym_init) as Hl.
  pose proof (sym_steps_ones l sym_init) as Ho.
  set (bs := ss_bits (fold_left sym_step l sym_init)) in *.
  rewrite Hlen in Hl. cbn [sym_init ss_bits length] in Hl.
  split; [lia|].
  rewrite fast_rev_eq, rev_nth, Hlen in Hnth by lia.
  change (257 - 257)%nat with 0%nat in Hnth.
  destruct bs as [|b tl]; [discriminate Hlen|]. cbn [nth] in Hnth. subst b.
  exists tl. split; [reflexivity|].
  rewrite Hones in Ho. cbn [sym_init ss_ones ss_bits ntrue N.b2n] in Ho. lia.
Qed.

(* ---- header, body, trailer ------------------------------------------------ *)
Lemma dec_mid_inv magic i pos out len buf final s' :
  magic < 2 ^ 32 ->
  run (dec_mid magic) (mkAst i pos out len) = Done (BBlock buf final) s' ->
  exists h fs pads l tl,
    1 <= h <= 7 /\ pads < 8 /\ magic = hdr_magic h fs + 8 * pads /\
    Forall msym_wf l /\ msyms_cnt l = 256 /\
    ss_bits (fold_left sym_step l sym_init) = true :: tl /\ ntrue tl + 1 = 2 ^ h /\
    fs = fmode_eqb final FinalStream /\
    i = zero_triples (N.to_nat (4 + (8 - h) * 2 - 1 - 5)) ++ val_bits 3 2 ++ [false]
        ++ sym_bits l ++ repeat false (N.to_nat pads) ++ [false]
        ++ repeat true (N.to_nat h) ++ a_in s' /\
    s' = mkAst (a_in s')
               (pos + 3 * N.of_nat (N.to_nat (4 + (8 - h) * 2 - 1 - 5)) + 3 + 1
                + N.of_nat (length (sym_bits l)) + pads + 1 + h) out len /\
    a_pos s' mod 8 = 0.
Proof.
  intros Hlt H. unfold dec_mid in H. cbv zeta in H.
  apply run_assert_bind_inv in H as [E H]. apply N.eqb_eq in E.
  destruct (magic_inv magic Hlt E) as (fs & pads & k & Hp & Hk & Hm). subst magic.
  destruct (magic_of_fields fs pads k Hp Hk) as (M2 & M3 & M4).
  rewrite M2, M3, M4 in H.
  apply run_bind_inv in H as (f1 & st1 & H1 & H).
  apply run_bind_inv in H as (f2 & st2 & H2 & H).
  apply run_bind_inv in H as (f3 & st3 & H3 & H).
  apply run_assert_bind_inv in H as [E3 H].
  apply negb_true_iff in E3. subst f3.
  apply chk_false_inv in H3 as [-> H3].
  apply chk_false_inv in H2 as [-> H2].
  apply hclen_zeros_inv in H1 as (C1 & C2 & C3).
  apply N.ltb_ge in C1.
  rewrite C3 in H2.
  apply read_test_inv in H2 as (v2 & V2 & T2 & I2 & S2).
  apply negb_false_iff, N.eqb_eq in T2. subst v2.
  rewrite S2 in H3.
  apply read_test_inv in H3 as (v3 & V3 & T3 & I3 & S3).
  apply negb_false_iff, N.eqb_eq in T3. subst v3.
  apply run_bind_inv in H as (s & st4 & H4 & H).
  fold sym_init in H4.
  destruct (sym_loop_inv _ _ _ _ _ H4) as (l & L1 & L2 & L3 & L4 & L5 & L6).
  rewrite S3 in L2, L4, L5, L6. cbn [a_in a_pos a_out a_len] in L2, L4, L5, L6.
  destruct st4 as [i4 p4 o4 n4]. cbn [a_in a_pos a_out a_len] in L2, L4, L5, L6. subst p4 o4 n4.
  assert (Hh : 1 <= 8 - k <= 7) by lia.
  replace (8 - (4 + 2 * k - 4) / 2) with (8 - k) in H by lia.
  destruct (dec_tail_inv _ _ _ _ _ _ _ _ _ _ _ Hh Hp H) as (D1 & D2 & D3 & D4 & D5 & D6 & D7).
  subst s.
  destruct (final_state_facts l (8 - k) D1 D2 D3) as (Hcnt & tl & Htl & Hnt).
  exists (8 - k), fs, pads, l, tl.
  replace (4 + (8 - (8 - k)) * 2 - 1 - 5) with (4 + 2 * k - 1 - 5) by lia.
  split; [exact Hh|]. split; [exact Hp|].
  split; [apply magic_of_hdr; lia|].
  split; [exact L1|]. split; [exact Hcnt|]. split; [exact Htl|]. split; [exact Hnt|].
  split; [exact D4|].
  split.
  - rewrite C2, I2, I3, L2, D5. reflexivity.
  - rewrite D6 at 1. cbn [a_pos].
    split; [f_equal; lia|].
    rewrite D6. cbn [a_pos]. exact D7.
Qed.

(* B. a block the decoder accepts has the generalised shape *)
Lemma decode_block_inv bits pos out len buf final s' :
  run decode_block (mkAst bits pos out len) = Done (BBlock buf final) s' ->
  exists h fs pads l tl,
    1 <= h <= 7 /\ pads < 8 /\
    Forall msym_wf l /\ msyms_cnt l = 256 /\
    ss_bits (fold_left sym_step l sym_init) = true :: tl /\ ntrue tl + 1 = 2 ^ h /\
    fs = fmode_eqb final FinalStream /\
    bits = gen_block_bits h fs pads l ++ a_in s' /\
    s' = mkAst (a_in s') (pos + N.of_nat (length (gen_block_bits h fs pads l))) out len /\
    a_pos s' mod 8 = 0.
Proof.
  intros H. rewrite decode_block_eq in H. cbn [run a_in] in H.
  destruct bits as [|b0 bits0]; [rewrite run_ret in H; discriminate|].
  apply run_bind_inv in H as (magic & st1 & H1 & H).
  destruct (read_bits_inv _ _ _ _ _ _ _ H1) as (V1 & V2 & V3).
  rewrite V3 in H.
  destruct (dec_mid_inv _ _ _ _ _ _ _ _ V1 H)
    as (h & fs & pads & l & tl & Hh & Hp & Hm & Hw & Hcnt & Htl & Hnt & Hfs & Hi & Hs & Hal).
  exists h, fs, pads, l, tl.
  repeat (split; [assumption|]).
  split; [|split; [|exact Hal]].
  - rewrite V2, Hi, Hm. unfold gen_block_bits. change (N.to_nat 32) with 32%nat.
    rewrite <- !app_assoc. reflexivity.
  - rewrite Hs at 1. f_equal. rewrite gen_block_bits_length. lia.
Qed.

(* ====================================================================== *)
(* 3. the block theorem                                                    *)
(* ====================================================================== *)

(* C. whatever [decode_block] accepts as a block is, for the RFC 1951 block reader at every
   depth and with any output history, an empty block that ends at the same (byte aligned)
   position, and is the last block iff the decoder reports FinalStream *)
Theorem meta_accept_block_is_empty_deflate :
  forall depth bits pos out len buf final s',
    run decode_block (mkAst bits pos out len) = Done (BBlock buf final) s' ->
    a_out s' = out /\ a_len s' = len /\ a_pos s' mod 8 = 0 /\
    (exists c, bits = c ++ a_in s' /\ c <> [] /\ a_pos s' = pos + N.of_nat (length c)) /\
    forall out2 len2,
      run (one_block depth) (mkAst bits pos out2 len2) =
      Done (fmode_eqb final FinalStream) (mkAst (a_in s') (a_pos s') out2 len2).
Proof.
  intros depth bits pos out len buf final s' H.
  destruct (decode_block_inv _ _ _ _ _ _ _ H)
    as (h & fs & pads & l & tl & Hh & Hp & Hw & Hcnt & Htl & Hnt & Hfs & Hb & Hs & Hal).
  split; [rewrite Hs; reflexivity|]. split; [rewrite Hs; reflexivity|].
  split; [exact Hal|]. split.
  - exists (gen_block_bits h fs pads l). split; [exact Hb|]. split.
    + intros C. pose proof (gen_block_bits_length h fs pads l) as Hl. rewrite C in Hl.
      cbn [length] in Hl. lia.
    + rewrite Hs at 1. reflexivity.
  - intros out2 len2. rewrite Hb at 1.
    rewrite (run_one_block_gen h fs pads l tl depth (a_in s') pos out2 len2 Hh Hp Hw Hcnt Htl Hnt).
    rewrite <- Hfs. f_equal. f_equal. rewrite Hs at 1. reflexivity.
Qed.

(* ====================================================================== *)
(* 4. streams                                                              *)
(* ====================================================================== *)

(* a successful block decode never reports "end of input" once it has read the magic *)
Lemma dec_mid_not_eof magic : post (fun r => r <> BEof) (dec_mid magic).
Proof.
  unfold dec_mid, dec_tail. cbv zeta.
  repeat first [ apply post_assert_bind; intros _
               | apply post_bind_any; intros ?
               | apply post_ret; discriminate ].
Qed.

Lemma decode_block_eof_inv i pos out len st1 :
  run decode_block (mkAst i pos out len) = Done BEof st1 ->
  i = [] /\ st1 = mkAst [] pos out len.
Proof.
  intros H. rewrite decode_block_eq in H. cbn [run a_in] in H.
  destruct i as [|b0 i0].
  - rewrite run_ret in H. injection H as <-. split; reflexivity.
  - exfalso. apply run_bind_inv in H as (magic & st2 & _ & H).
    exact (post_elim _ _ _ _ _ (dec_mid_not_eof magic) H eq_refl).
Qed.

Lemma put_all_state l : forall st, exists o n,
  run (put_all l) st = Done tt (mkAst (a_in st) (a_pos st) o n).
Proof.
  induction l as [|b l IH]; intros st.
  - exists (a_out st), (a_len st). destruct st; reflexivity.
  - cbn [put_all fold_right run]. fold (put_all l).
    destruct (IH (mkAst (a_in st) (a_pos st) (b :: a_out st) (a_len st + 1))) as (o & n & E).
    exists o, n. exact E.
Qed.

(* one iteration of the meta stream loop *)
Lemma stream_body_inv nb i pos out len r st' :
  run (Model.stream_body nb) (mkAst i pos out len) = Done r st' ->
  (i = [] /\ r = inr (FinalNil, nb) /\ st' = mkAst [] pos out len) \/
  (exists buf final st1,
     run decode_block (mkAst i pos out len) = Done (BBlock buf final) st1 /\
     a_in st' = a_in st1 /\ a_pos st' = a_pos st1 /\
     r = match final with FinalNil => inl (nb + 1) | _ => inr (final, nb + 1) end).
Proof.
  intros H. unfold Model.stream_body in H.
  apply run_bind_inv in H as (r0 & st1 & H1 & H).
  destruct r0 as [|buf final].
  - left. apply decode_block_eof_inv in H1 as [-> ->].
    rewrite run_ret in H. injection H as Hr Hs. subst r st'. repeat split.
  - right. exists buf, final, st1. split; [exact H1|].
    apply run_bind_inv in H as (u & st2 & H2 & H).
    destruct (put_all_state buf st1) as (o & n & E). rewrite E in H2. injection H2 as _ <-.
    destruct final; rewrite run_ret in H; injection H as Hr Hs; subst r st'; repeat split.
Qed.

(* the blocks a successful meta stream run reads are DEFLATE blocks: all but possibly the
   last one non-final; the last one final iff the run reports FinalStream *)
Lemma meta_loops_deflate d nb st r :
  loops Model.stream_body nb st r -> forall f nb' s, r = Done (f, nb') s ->
  a_pos st mod 8 = 0 ->
  a_pos s mod 8 = 0 /\
  forall o2 l2, exists s1,
    nf_steps d (mkAst (a_in st) (a_pos st) o2 l2) s1 /\
    ((f <> FinalStream /\ s1 = mkAst (a_in s) (a_pos s) o2 l2) \/
     (f = FinalStream /\
      run (one_block d) s1 = Done true (mkAst (a_in s) (a_pos s) o2 l2))).
Proof.
  intros HL.
  induction HL as [nb st e st1 E|nb st x st1 E|nb st nb1 st1 r E HL IH];
    intros f nb' s Hr Hal.
  - discriminate.
  - injection Hr as -> ->. destruct st as [i pos out len]. cbn [a_in a_pos] in *.
    destruct (stream_body_inv _ _ _ _ _ _ _ E)
      as [(-> & R & ->)|(buf & final & st1 & H1 & S1 & S2 & R)].
    + injection R as Hf _. subst f. cbn [a_in a_pos]. split; [exact Hal|].
      intros o2 l2. eexists. split; [apply nfs_refl|]. left. split; [discriminate | reflexivity].
    + destruct (meta_accept_block_is_empty_deflate d _ _ _ _ _ _ _ H1)
        as (_ & _ & A3 & _ & A5).
      rewrite S1, S2. split; [exact A3|].
      intros o2 l2. specialize (A5 o2 l2).
      destruct final; [discriminate R| |]; injection R as Hf _; subst f; cbn [fmode_eqb] in A5.
      * eexists. split; [eapply nfs_step; [exact A5 | apply nfs_refl]|].
        left. split; [discriminate | reflexivity].
      * eexists. split; [apply nfs_refl|]. right. split; [reflexivity | exact A5].
  - destruct st as [i pos out len]. cbn [a_in a_pos] in *.
    destruct (stream_body_inv _ _ _ _ _ _ _ E)
      as [(_ & R & _)|(buf & final & st2 & H1 & S1 & S2 & R)]; [discriminate R|].
    destruct (meta_accept_block_is_empty_deflate d _ _ _ _ _ _ _ H1)
      as (_ & _ & A3 & _ & A5).
    destruct final; [|discriminate R|discriminate R]. cbn [fmode_eqb] in A5.
    rewrite <- S2 in A3.
    destruct (IH f nb' s Hr A3) as [I1 I2].
    split; [exact I1|]. intros o2 l2.
    destruct (I2 o2 l2) as (s1 & N1 & N2).
    exists s1. split; [|exact N2].
    eapply nfs_step; [apply A5|]. rewrite <- S1, <- S2. exact N1.
Qed.

(* what a successful [meta_decode] is, as a [loops] derivation *)
Lemma meta_decode_loops blk :
  mr_err (meta_decode blk) = None ->
  exists nb s,
    loops Model.stream_body 0 (ast_init (bytes_to_bits blk))
          (Done (mr_final (meta_decode blk), nb) s) /\
    mr_used (meta_decode blk) = (a_pos s + 7) / 8.
Proof.
  unfold meta_decode, decode_stream. intros Herr.
  remember (run (loop 40 Model.stream_body 0) (ast_init (bytes_to_bits blk))) as R eqn:E.
  destruct R as [[f nb] s|e s]; cbn [mr_err] in Herr; [|discriminate Herr].
  cbn [mr_final mr_used].
  exists nb, s. split; [|reflexivity].
  rewrite E. apply loop_loops. rewrite <- E. intros C; exact C.
Qed.

(* D1. an accepted non-FinalStream meta stream that uses up its input is a sequence of
   complete, non-final, empty DEFLATE blocks *)
Theorem meta_accept_nonfinal_blocks : forall blk,
  mr_err (meta_decode blk) = None -> mr_final (meta_decode blk) <> FinalStream ->
  mr_used (meta_decode blk) = N.of_nat (length blk) ->
  nonfinal_blocks blk = Some [].
Proof.
  intros blk Herr Hfin Hused.
  destruct (meta_decode_loops blk Herr) as (nb & s & HL & Hu). rewrite Hu in Hused.
  set (d := depth_for (length blk)).
  destruct (meta_loops_deflate d _ _ _ HL _ _ _ eq_refl ltac:(reflexivity)) as [Hal Hd].
  destruct (Hd [] 0) as (s1 & Hs1 & [[_ Es1]|[C _]]); [|contradiction].
  change (mkAst (a_in (ast_init (bytes_to_bits blk))) (a_pos (ast_init (bytes_to_bits blk))) [] 0)
    with (ast_init (bytes_to_bits blk)) in Hs1.
  assert (He : a_in s1 = []).
  { destruct (nf_steps_mono _ _ _ Hs1) as (c & M1 & M2).
    subst s1. cbn [ast_init a_in a_pos] in M1, M2.
    apply (f_equal (@length bool)) in M1.
    rewrite app_length, Fuel.bytes_to_bits_length in M1.
    destruct (a_in s) as [|x r]; [reflexivity|]. cbn [length] in M1. lia. }
  rewrite (nonfinal_blocks_intro blk d s1 (le_n _) Hs1 He). subst s1. reflexivity.
Qed.

(* D2. an accepted FinalStream meta stream is a complete DEFLATE stream without output,
   ending exactly where the meta decoder stopped, whatever follows *)
Theorem meta_accept_final_stream : forall blk rest,
  mr_err (meta_decode blk) = None -> mr_final (meta_decode blk) = FinalStream ->
  mr_used (meta_decode blk) = N.of_nat (length blk) ->
  inflate (blk ++ rest) = mkIR None [] (N.of_nat (length blk)).
Proof.
  intros blk rest Herr Hfin Hused.
  destruct (meta_decode_loops blk Herr) as (nb & s & HL & Hu). rewrite Hu in Hused.
  set (d := depth_for (length (blk ++ rest))).
  destruct (meta_loops_deflate d _ _ _ HL _ _ _ eq_refl ltac:(reflexivity)) as [Hal Hd].
  destruct (Hd [] 0) as (s1 & Hs1 & [[C _]|[_ Hone]]); [contradiction|].
  change (mkAst (a_in (ast_init (bytes_to_bits blk))) (a_pos (ast_init (bytes_to_bits blk))) [] 0)
    with (ast_init (bytes_to_bits blk)) in Hs1.
  set (t := bytes_to_bits rest).
  assert (Hstart : ast_init (bytes_to_bits (blk ++ rest)) = ext (ast_init (bytes_to_bits blk)) t).
  { rewrite Compose.bytes_to_bits_app. reflexivity. }
  assert (Hlast : run (Spec.stream_body d tt) (ext s1 t)
                  = Done (inr tt) (mkAst (a_in s ++ t) (a_pos s) [] 0)).
  { unfold Spec.stream_body. rewrite run_bind.
    rewrite (run_extend (one_block d) s1 t (ef_one_block d)) by (rewrite Hone; discriminate).
    rewrite Hone. cbn [ext_result ext run a_in a_pos a_out a_len].
    assert (Hpc : pad_count (a_pos s) = 0) by (unfold pad_count; lia).
    rewrite Hpc. cbn [N.to_nat Nat.leb firstn skipn bits_val N.of_nat]. rewrite N.add_0_r.
    reflexivity. }
  assert (HLd : loops (Spec.stream_body d) tt (ast_init (bytes_to_bits (blk ++ rest)))
                      (Done tt (mkAst (a_in s ++ t) (a_pos s) [] 0))).
  { rewrite Hstart. apply (nf_steps_loops d _ (ext s1 t)); [apply nf_steps_ext; exact Hs1|].
    apply loops_done. exact Hlast. }
  unfold inflate, inflate_prog. fold d.
  rewrite (loops_loop d _ _ _ _ HLd).
  - cbn [res_err res_out res_pos res_state a_out a_pos fast_rev rev_append].
    f_equal. exact Hused.
  - apply (inflate_prog_not_efuel d). apply depth_for_enough_init. apply le_n.
Qed.

(* ====================================================================== *)
(* 5. non-vacuity                                                          *)
(* ====================================================================== *)

(* a block of the encoder, mid-stream, with a history and bits behind it: accepted by the
   decoder, hence (by the theorem) an empty final DEFLATE block at every depth *)
Example meta_accept_block_ex :
  exists bits, encode_block_bits [1; 2; 3; 250] FinalStream = Some bits /\
    run decode_block (mkAst (bits ++ [true; false]) 8 [7] 1)
    = Done (BBlock [1; 2; 3; 250] FinalStream) (mkAst [true; false] (8 + 144) [7] 1) /\
    forall depth,
      run (one_block depth) (mkAst (bits ++ [true; false]) 8 [9; 9] 2)
      = Done true (mkAst [true; false] (8 + 144) [9; 9] 2).
Proof.
  eexists. split; [vm_compute; reflexivity|].
  match goal with |- ?P /\ _ => assert (H : P) by (vm_compute; reflexivity) end.
  split; [exact H|]. intros depth.
  destruct (meta_accept_block_is_empty_deflate depth _ _ _ _ _ _ _ H) as (_ & _ & _ & _ & A5).
  exact (A5 [9; 9] 2).
Qed.

(* two hand-made blocks the encoder never writes (a zero run cut into MZero, MRepLast and
   MRepZero symbols in another way, ones written one by one, other pad counts): the decoder
   accepts them; the theorem makes them empty DEFLATE blocks *)
Definition nc_body_nil : list msym :=
  [MZero; MZero; MOne; MRepLast 0; MZero; MOne; MRepZero 100; MOne; MRepLast 1; MRepLast 0;
   MRepZero 115; MOne; MOne; MOne].
Definition nc_body_fin : list msym :=
  [MOne; MZero; MOne; MRepLast 0; MZero; MOne; MRepZero 100; MOne; MRepLast 1; MRepLast 0;
   MRepZero 116; MOne; MOne].
Definition nc_block_nil : list bool := gen_block_bits 4 false 3 nc_body_nil.
Definition nc_block_fin : list bool := gen_block_bits 4 true 4 nc_body_fin.
Definition nc_payload : list byte := [1; 0; 0; 0; 0; 0; 0; 0; 0; 0; 0; 0; 0; 0; 255].

Example meta_accept_block_noncanonical_ex :
  run decode_block (mkAst (nc_block_nil ++ [true]) 0 [] 0)
  = Done (BBlock nc_payload FinalNil) (mkAst [true] 112 [] 0) /\
  (exists bits, encode_block_bits nc_payload FinalNil = Some bits /\ bits <> nc_block_nil) /\
  forall depth out2 len2,
    run (one_block depth) (mkAst (nc_block_nil ++ [true]) 0 out2 len2)
    = Done false (mkAst [true] 112 out2 len2).
Proof.
  assert (H : run decode_block (mkAst (nc_block_nil ++ [true]) 0 [] 0)
              = Done (BBlock nc_payload FinalNil) (mkAst [true] 112 [] 0))
    by (vm_compute; reflexivity).
  split; [exact H|]. split.
  - eexists. split; [vm_compute; reflexivity|]. intros C. vm_compute in C. discriminate C.
  - intros depth out2 len2.
    destruct (meta_accept_block_is_empty_deflate depth _ _ _ _ _ _ _ H) as (_ & _ & _ & _ & A5).
    exact (A5 out2 len2).
Qed.

Example meta_accept_block_noncanonical_final_ex :
  run decode_block (mkAst (nc_block_fin ++ [true]) 0 [] 0)
  = Done (BBlock nc_payload FinalStream) (mkAst [true] 112 [] 0) /\
  (exists bits, encode_block_bits nc_payload FinalStream = Some bits /\ bits <> nc_block_fin) /\
  forall depth out2 len2,
    run (one_block depth) (mkAst (nc_block_fin ++ [true]) 0 out2 len2)
    = Done true (mkAst [true] 112 out2 len2).
Proof.
  assert (H : run decode_block (mkAst (nc_block_fin ++ [true]) 0 [] 0)
              = Done (BBlock nc_payload FinalStream) (mkAst [true] 112 [] 0))
    by (vm_compute; reflexivity).
  split; [exact H|]. split.
  - eexists. split; [vm_compute; reflexivity|]. intros C. vm_compute in C. discriminate C.
  - intros depth out2 len2.
    destruct (meta_accept_block_is_empty_deflate depth _ _ _ _ _ _ _ H) as (_ & _ & _ & _ & A5).
    exact (A5 out2 len2).
Qed.

(* streams: a 100-byte payload of the encoder (4 blocks), both kinds of ending ... *)
Example meta_accept_nonfinal_blocks_ex :
  exists enc, meta_encode (map N.of_nat (seq 0 100)) FinalMeta = Some enc /\
    mr_err (meta_decode enc) = None /\ mr_final (meta_decode enc) = FinalMeta /\
    mr_blocks (meta_decode enc) = 4 /\
    mr_used (meta_decode enc) = N.of_nat (length enc) /\
    nonfinal_blocks enc = Some [].
Proof.
  eexists. split; [vm_compute; reflexivity|].
  match goal with |- ?A /\ ?B /\ ?C /\ ?D /\ _ =>
    assert (HA : A) by (vm_compute; reflexivity);
    assert (HB : B) by (vm_compute; reflexivity);
    assert (HC : C) by (vm_compute; reflexivity);
    assert (HD : D) by (vm_compute; reflexivity)
  end.
  repeat (split; [assumption|]).
  apply meta_accept_nonfinal_blocks; [exact HA | rewrite HB; discriminate | exact HD].
Qed.

Example meta_accept_final_stream_ex :
  exists enc, meta_encode (map N.of_nat (seq 0 100)) FinalStream = Some enc /\
    mr_err (meta_decode enc) = None /\ mr_final (meta_decode enc) = FinalStream /\
    mr_used (meta_decode enc) = N.of_nat (length enc) /\
    inflate (enc ++ [1; 2; 3]) = mkIR None [] (N.of_nat (length enc)).
Proof.
  eexists. split; [vm_compute; reflexivity|].
  match goal with |- ?A /\ ?B /\ ?C /\ _ =>
    assert (HA : A) by (vm_compute; reflexivity);
    assert (HB : B) by (vm_compute; reflexivity);
    assert (HC : C) by (vm_compute; reflexivity)
  end.
  repeat (split; [assumption|]).
  apply meta_accept_final_stream; assumption.
Qed.

(* ... and streams made of the hand-made blocks above, which no encoder output equals *)
Definition nc_nil : list byte := bits_to_bytes nc_block_nil.
Definition nc_fin : list byte := bits_to_bytes nc_block_fin.

Example meta_accept_nonfinal_blocks_noncanonical_ex :
  mr_err (meta_decode (nc_nil ++ nc_nil)) = None /\
  mr_final (meta_decode (nc_nil ++ nc_nil)) = FinalNil /\
  mr_payload (meta_decode (nc_nil ++ nc_nil)) = nc_payload ++ nc_payload /\
  mr_used (meta_decode (nc_nil ++ nc_nil)) = N.of_nat (length (nc_nil ++ nc_nil)) /\
  meta_encode (nc_payload ++ nc_payload) FinalNil <> Some (nc_nil ++ nc_nil) /\
  nonfinal_blocks (nc_nil ++ nc_nil) = Some [].
Proof.
  match goal with |- ?A /\ ?B /\ ?C /\ ?D /\ _ =>
    assert (HA : A) by (vm_compute; reflexivity);
    assert (HB : B) by (vm_compute; reflexivity);
    assert (HC : C) by (vm_compute; reflexivity);
    assert (HD : D) by (vm_compute; reflexivity)
  end.
  repeat (split; [assumption|]).
  split; [intros C; vm_compute in C; discriminate C|].
  apply meta_accept_nonfinal_blocks; [exact HA | rewrite HB; discriminate | exact HD].
Qed.

Example meta_accept_final_stream_noncanonical_ex :
  mr_err (meta_decode (nc_nil ++ nc_fin)) = None /\
  mr_final (meta_decode (nc_nil ++ nc_fin)) = FinalStream /\
  mr_used (meta_decode (nc_nil ++ nc_fin)) = N.of_nat (length (nc_nil ++ nc_fin)) /\
  meta_encode (nc_payload ++ nc_payload) FinalStream <> Some (nc_nil ++ nc_fin) /\
  inflate ((nc_nil ++ nc_fin) ++ [200; 201]) = mkIR None [] 28.
Proof.
  match goal with |- ?A /\ ?B /\ ?C /\ _ =>
    assert (HA : A) by (vm_compute; reflexivity);
    assert (HB : B) by (vm_compute; reflexivity);
    assert (HC : C) by (vm_compute; reflexivity)
  end.
  repeat (split; [assumption|]).
  split; [intros C; vm_compute in C; discriminate C|].
  rewrite (meta_accept_final_stream (nc_nil ++ nc_fin) [200; 201] HA HB HC).
  vm_compute. reflexivity.
Qed.

Print Assumptions meta_accept_block_is_empty_deflate.
Print Assumptions meta_accept_nonfinal_blocks.
Print Assumptions meta_accept_final_stream.
