(* encodeBlock of the implementation-level model of meta.Writer (Meta/WriterImpl.v: [mencode]):

   (A) REFINEMENT: on a state whose counters describe an encodable buffer, [mencode] never
       panics, never returns "block too large", and is exactly ONE [wsink_write] of
       [block_bytes (m_buf st) final] (Meta/WriterImplSpec.v) on the real sink: the bit
       writer works over its own all-accepting sink, so only the fault-free facts of
       Prefix/WriterThms.v / WriterFieldsThms.v are needed;
   (B) CONTENT link: [encode_block buf final = Some (block_bytes buf final)] (Meta/Model.v). *)
From V Require Import Base.Prelude Meta.Model Meta.Thms Prefix.ReaderImpl Prefix.ReaderSpec
  Prefix.WriterImpl Prefix.WriterSpec Prefix.WriterThms Prefix.WriterFields Prefix.WriterFieldsThms
  Meta.WriterImpl Meta.WriterImplSpec.
From Coq Require Import ZifyBool ZifyN ZifyNat.

Local Open Scope N_scope.

(* ------------------------------------------------------------------------- *)
(* (0) the buffer: encodable implies at most 30 bytes                          *)
(* ------------------------------------------------------------------------- *)
Lemma huff_search_sum cands : forall z o, huff_search cands z o <> 0 -> z + o + 16 <= 257.
Proof.
  induction cands as [|h r IH]; intros z o H; cbn [huff_search] in H; [contradiction H; reflexivity|].
  set (m := 2 ^ h) in *. unfold maxSyms in H.
  destruct ((z + 8 <=? 257 - m) && (m <=? 257) && (o + 8 <=? m)) eqn:E.
  - lia.
  - apply IH. exact H.
Qed.

Lemma computeHuffLen_sum z o : fst (computeHuffLen z o) <> 0 -> z + o + 16 <= 257.
Proof.
  unfold computeHuffLen. destruct (z <? o).
  - destruct (huff_search [1; 2; 3; 4; 5; 6; 7] o z =? 0) eqn:E; cbn [fst]; intros H;
      [contradiction H; reflexivity|].
    pose proof (huff_search_sum _ o z H). lia.
  - destruct (huff_search [1; 2; 3; 4; 5; 6; 7] z o =? 0) eqn:E; cbn [fst]; intros H;
      [contradiction H; reflexivity|].
    pose proof (huff_search_sum _ z o H). lia.
Qed.

Lemma buf_fits_len buf : buf_fits buf -> (length buf <= 30)%nat.
Proof.
  intros H. apply computeHuffLen_sum in H. pose proof (count_zeros_ones buf). lia.
Qed.

Lemma buf_fits_nil : buf_fits [].
Proof. unfold buf_fits. vm_compute. discriminate. Qed.

Lemma buf_fits_one b : buf_fits [b].
Proof.
  unfold buf_fits. apply huff_fits_22.
  - rewrite count_zeros_ones. cbn [length]. lia.
  - rewrite count_zeros_ones. cbn [length]. reflexivity.
Qed.

Lemma computeHuffLen_pos z o : fst (computeHuffLen z o) <> 0 -> 1 <= fst (computeHuffLen z o) <= 7.
Proof. intros H. pose proof (computeHuffLen_range z o). lia. Qed.

(* ------------------------------------------------------------------------- *)
(* (1) the fields are within the bit writer's use                              *)
(* ------------------------------------------------------------------------- *)
Definition msym_ok (m : msym) : Prop :=
  match m with
  | MRepLast v => v <= 3
  | MRepZero v => v <= 127
  | _ => True
  end.

Lemma enc_run_ok fuel : forall one cnt pre, Forall msym_ok (enc_run fuel one cnt pre).
Proof.
  induction fuel as [|f IH]; intros one cnt pre; cbn [enc_run]; [constructor|].
  destruct (cnt =? 0); [constructor|].
  destruct (negb one && (11 <=? cnt)).
  - constructor; [cbn [msym_ok]; lia | apply IH].
  - destruct (pre && (3 <=? cnt)).
    + constructor; [cbn [msym_ok]; lia | apply IH].
    + constructor; [destruct one; exact I | apply IH].
Qed.

Lemma enc_runs_ok cnts : forall pre, Forall msym_ok (enc_runs cnts pre).
Proof.
  induction cnts as [|c r IH]; intros pre; cbn [enc_runs]; [constructor|].
  destruct (c =? 0)%Z; [apply IH|].
  apply Forall_app. split; [apply enc_run_ok | apply IH].
Qed.

Ltac pow_lia :=
  repeat match goal with
         | |- context [2 ^ 1] => change (2 ^ 1) with 2
         | |- context [2 ^ 2] => change (2 ^ 2) with 4
         | |- context [2 ^ 3] => change (2 ^ 3) with 8
         | |- context [2 ^ 7] => change (2 ^ 7) with 128
         end; lia.

Lemma msym_fields_ok m : msym_ok m -> Forall field_ok (msym_fields m).
Proof.
  destruct m as [| |v|v]; cbn [msym_ok msym_fields]; intros H;
    repeat (constructor; cbn [field_ok]); try pow_lia.
Qed.

Lemma flat_msym_fields_ok l : Forall msym_ok l -> Forall field_ok (flat_map msym_fields l).
Proof.
  induction 1 as [|m r Hm Hr IH]; cbn [flat_map]; [constructor|].
  apply Forall_app. split; [apply msym_fields_ok; exact Hm | exact IH].
Qed.

Lemma block_magic_lt h final : h <= 8 -> block_magic h final < 2 ^ 32.
Proof.
  intros Hh. unfold block_magic, magicVals.
  change (2 ^ 13) with 8192. change (2 ^ 32) with 4294967296.
  destruct (fmode_eqb final FinalStream); cbn [N.b2n]; lia.
Qed.

Lemma block_fields1_ok buf h inv final : h <= 8 -> Forall field_ok (block_fields1 buf h inv final).
Proof.
  intros Hh. unfold block_fields1. constructor.
  - cbn [field_ok]. split; [apply block_magic_lt; exact Hh | lia].
  - apply Forall_app. split.
    + apply Forall_forall. intros f Hf. apply repeat_spec in Hf. subst f. cbn [field_ok].
      change (2 ^ 3) with 8. lia.
    + apply Forall_app. split.
      * repeat (constructor; cbn [field_ok]); try pow_lia.
      * apply flat_msym_fields_ok. apply enc_runs_ok.
Qed.

Lemma pow2_pos k : 0 < 2 ^ k.
Proof. apply N.neq_0_lt_0. apply N.pow_nonzero. lia. Qed.

Lemma block_fields2_ok h pads : h <= 7 -> pads <= 7 -> Forall field_ok (block_fields2 h pads).
Proof.
  intros Hh Hp. unfold block_fields2. pose proof (pow2_pos h). pose proof (pow2_pos pads).
  repeat (constructor; cbn [field_ok]); try pow_lia.
Qed.

Lemma blk_pads_le n h : blk_pads n h <= 7.
Proof. unfold blk_pads. lia. Qed.

(* ------------------------------------------------------------------------- *)
(* (2) the bit writer over a sink that accepts everything                      *)
(* ------------------------------------------------------------------------- *)
Lemma frun_ff fs bits p : Inv false bits p -> SFF (bw_sink p) -> Forall field_ok fs ->
  exists p', frun p fs = (None, p') /\ Inv false (fields_app bits fs) p' /\ SFF (bw_sink p').
Proof.
  intros HI Hff Hok. pose proof (frun_inv false fs bits p HI Hok) as H.
  pose proof (frun_step fs p) as Hs.
  destruct (frun p fs) as [e p']. destruct Hs as (l & Hc & Hr & _).
  destruct (calls_ff _ _ _ Hc Hff) as [Hff' Hacc].
  pose proof (reported_ff _ _ Hr Hacc) as Hne.
  destruct e as [e|]; [|exists p'; split; [reflexivity | split; assumption]].
  destruct e; try contradiction. exfalso. apply (Hne tag). reflexivity.
Qed.

Lemma wflush_ff bits p : Inv false bits p -> SFF (bw_sink p) ->
  exists r p', wflush p = ((r, None), p') /\ Inv false bits p' /\ w_cnt p' = 0 /\ w_numBits p' < 8.
Proof.
  intros HI Hff. pose proof (wflush_inv false bits p HI) as H.
  pose proof (wflush_step p) as Hs.
  destruct (wflush p) as [[r e] p']. destruct Hs as (l & Hc & Hr & _).
  destruct (calls_ff _ _ _ Hc Hff) as [Hff' Hacc].
  pose proof (reported_ff _ _ Hr Hacc) as Hne. destruct H as [_ H].
  destruct e as [e|]; [|exists r, p'; split; [reflexivity | exact H]].
  destruct e; try contradiction. exfalso. apply (Hne tag). reflexivity.
Qed.

Lemma Inv_bits_written bits p : Inv false bits p -> bits_written p = int64_wrap (Z.of_nat (length bits)).
Proof.
  intros HI. destruct (Inv_view false bits p HI) as [(_ & H & _) _]. exact H.
Qed.

(* numPads(uint(bw.BitsWritten()) + 1 + huffLen) in wrapping uint arithmetic *)
Lemma num_pads_wrap n h : h <= 7 -> num_pads (int64_wrap (Z.of_nat n)) h = blk_pads n h.
Proof.
  intros Hh. unfold num_pads, blk_pads, int64_wrap, u64.
  change (2 ^ 64)%Z with 18446744073709551616%Z. change (2 ^ 63)%Z with 9223372036854775808%Z.
  change (2 ^ 64) with 18446744073709551616.
  set (L := Z.of_nat n).
  assert (E : (((L + 9223372036854775808) mod 18446744073709551616 - 9223372036854775808)
               mod 18446744073709551616 = L mod 18446744073709551616)%Z) by lia.
  rewrite E.
  assert (E2 : Z.to_N (L mod 18446744073709551616) = N.of_nat n mod 18446744073709551616) by lia.
  rewrite E2. lia.
Qed.

Lemma SFF_new : SFF (new_sink [] SAccept).
Proof. split; [constructor | reflexivity]. Qed.

Lemma pack_nonempty big l : (8 <= length l)%nat -> pack big l <> [].
Proof.
  intros H. do 8 (destruct l as [|? l]; [cbn [length] in H; lia|]). cbn [pack]. discriminate.
Qed.

Lemma fields_app_length_ge fs bits : (length bits <= length (fields_app bits fs))%nat.
Proof.
  destruct (fields_app_prefix fs bits) as [t Ht]. rewrite Ht, app_length. lia.
Qed.

Lemma block_bits_len buf final : (32 <= length (block_bits buf final))%nat.
Proof.
  unfold block_bits. destruct (computeHuffLen _ _) as [h inv].
  eapply Nat.le_trans; [|apply fields_app_length_ge].
  unfold block_fields1. rewrite fields_app_cons. eapply Nat.le_trans; [|apply fields_app_length_ge].
  cbn [field_app app]. rewrite val_bits_length. lia.
Qed.

Lemma patch0_nonempty pads l : l <> [] -> patch0 pads l <> [].
Proof. destruct l; [intros H; contradiction H; reflexivity | discriminate]. Qed.

Lemma block_bytes_nonempty buf final : block_bytes buf final <> [].
Proof.
  unfold block_bytes. apply patch0_nonempty. apply pack_nonempty.
  pose proof (block_bits_len buf final). lia.
Qed.

(* ------------------------------------------------------------------------- *)
(* (A) encodeBlock = one sink call with block_bytes                            *)
(* ------------------------------------------------------------------------- *)
Definition CntOk (st : mtw) : Prop :=
  m_cnt st = N.of_nat (length (m_buf st)) /\
  m_buf0s st = count_zeros (m_buf st) /\ m_buf1s st = count_ones (m_buf st) /\
  buf_fits (m_buf st).

Lemma mencode_spec st final : CntOk st ->
  exists bw3,
    mencode st final =
    let '((n, e), sink') := wsink_write (m_sink st) (block_bytes (m_buf st) final) in
    match e with
    | Some _ =>
      (e, mkMtw (m_in st) (m_out st + Z.of_nat n) (m_nblocks st) sink' bw3 (m_buf0s st) (m_buf1s st)
                (m_buf st) (m_cnt st) (m_err st))
    | None =>
      (None, mkMtw (m_in st) (m_out st + Z.of_nat n) (m_nblocks st + 1) sink' bw3 0 0 [] 0 (m_err st))
    end.
Proof.
  intros (Hc & H0 & H1 & Hfit).
  pose proof (block_bytes_nonempty (m_buf st) final) as Hne.
  unfold block_bytes, block_pads, block_bits in *. unfold mencode. rewrite H0, H1.
  unfold buf_fits in Hfit. pose proof (computeHuffLen_pos _ _ Hfit) as Hh.
  destruct (computeHuffLen (count_zeros (m_buf st)) (count_ones (m_buf st))) as [h inv].
  cbn [fst] in Hfit, Hh. replace (h =? 0) with false by lia.
  assert (Hh8 : h <= 8) by lia. assert (Hh7 : h <= 7) by lia.
  set (bw0 := pw_init (m_bw st) (new_sink [] SAccept) false).
  assert (HI0 : Inv false [] bw0) by apply Inv_pw_init.
  assert (HF0 : SFF (bw_sink bw0)) by apply SFF_new.
  destruct (frun_ff (block_fields1 (m_buf st) h inv final) [] bw0 HI0 HF0
              (block_fields1_ok _ _ _ _ Hh8)) as (bw1 & -> & HI1 & HF1).
  set (bits1 := fields_app [] (block_fields1 (m_buf st) h inv final)) in *.
  rewrite (Inv_bits_written _ _ HI1), (num_pads_wrap _ _ Hh7).
  set (pads := blk_pads (length bits1) h) in *.
  destruct (frun_ff (block_fields2 h pads) bits1 bw1 HI1 HF1
              (block_fields2_ok _ _ Hh7 (blk_pads_le _ _))) as (bw2 & -> & HI2 & HF2).
  set (bits2 := fields_app bits1 (block_fields2 h pads)) in *.
  destruct (wflush_ff bits2 bw2 HI2 HF2) as (r & bw3 & -> & HI3 & Hc3 & Hn3).
  rewrite (Inv_flushed false bits2 bw3 HI3 Hc3 Hn3).
  exists bw3.
  destruct (pack false bits2) as [|b0 rest]; [contradiction Hne; reflexivity|].
  cbn [patch0].
  destruct (wsink_write (m_sink st) (N.lor b0 ((pads * 8) mod 256) :: rest)) as [[n e] sink'].
  destruct e; reflexivity.
Qed.

(* ------------------------------------------------------------------------- *)
(* (B) the CONTENT link: block_bytes is encode_block of Meta/Model.v           *)
(* ------------------------------------------------------------------------- *)
Definition nopad (f : field) : Prop := match f with FPads => False | _ => True end.

Lemma fields_app_nopad fs : forall bits, Forall nopad fs ->
  fields_app bits fs = bits ++ flat_map field_bits fs.
Proof.
  induction fs as [|f fs IH]; intros bits Hn; [cbn [flat_map]; rewrite app_nil_r; reflexivity|].
  inversion Hn as [|f' fs' Hf Hfs]; subst. rewrite fields_app_cons, IH by exact Hfs.
  cbn [flat_map]. rewrite app_assoc. f_equal.
  destruct f; [reflexivity | reflexivity | contradiction].
Qed.

Lemma msym_fields_nopad l : Forall nopad (flat_map msym_fields l).
Proof.
  induction l as [|m l IH]; cbn [flat_map]; [constructor|].
  apply Forall_app. split; [|exact IH]. destruct m; repeat constructor.
Qed.

Lemma msym_fields_bits l : flat_map field_bits (flat_map msym_fields l) = flat_map msym_bits l.
Proof.
  induction l as [|m l IH]; cbn [flat_map]; [reflexivity|].
  rewrite flat_map_app, IH. f_equal. destruct m; reflexivity.
Qed.

Lemma repeat_zero3_bits n :
  flat_map field_bits (repeat (FBits 0 3) n) = concat (repeat [false; false; false] n).
Proof. induction n as [|n IH]; [reflexivity|]. cbn [repeat flat_map concat]. rewrite IH. reflexivity. Qed.

Lemma block_fields1_nopad buf h inv final : Forall nopad (block_fields1 buf h inv final).
Proof.
  unfold block_fields1. constructor; [exact I|]. apply Forall_app. split.
  - apply Forall_forall. intros f Hf. apply repeat_spec in Hf. subst f. exact I.
  - apply Forall_app. split; [repeat constructor | apply msym_fields_nopad].
Qed.

Lemma block_fields2_nopad h pads : Forall nopad (block_fields2 h pads).
Proof. repeat constructor. Qed.

Lemma h_cases h : 1 <= h <= 7 -> h = 1 \/ h = 2 \/ h = 3 \/ h = 4 \/ h = 5 \/ h = 6 \/ h = 7.
Proof. lia. Qed.

Lemma pads_cases p : p <= 7 -> p = 0 \/ p = 1 \/ p = 2 \/ p = 3 \/ p = 4 \/ p = 5 \/ p = 6 \/ p = 7.
Proof. lia. Qed.

Lemma val_bits_ones h : 1 <= h <= 7 -> val_bits (N.to_nat h) (2 ^ h - 1) = repeat true (N.to_nat h).
Proof.
  intros Hh. destruct (h_cases h Hh) as [->|[->|[->|[->|[->|[->| ->]]]]]]; reflexivity.
Qed.

(* bits 3..5 of the first byte are zero before the patch *)
Lemma magic_bits h final : 1 <= h <= 7 ->
  exists a0 a1 a2 a6 a7 t,
    val_bits 32 (block_magic h final) = a0 :: a1 :: a2 :: false :: false :: false :: a6 :: a7 :: t.
Proof.
  intros Hh. destruct (h_cases h Hh) as [->|[->|[->|[->|[->|[->| ->]]]]]];
    destruct final; vm_compute; do 6 eexists; reflexivity.
Qed.

Lemma bits_to_bytes_fuel_pack n : forall l fuel, length l = (8 * n)%nat -> (n < fuel)%nat ->
  bits_to_bytes_fuel fuel l = pack false l.
Proof.
  induction n as [|n IH]; intros l fuel Hl Hf.
  - destruct l; [|cbn [length] in Hl; lia]. destruct fuel; reflexivity.
  - destruct fuel as [|fuel]; [lia|].
    do 8 (destruct l as [|? l]; [cbn [length] in Hl; lia|]).
    cbn [bits_to_bytes_fuel firstn skipn pack ord]. f_equal.
    apply IH; [cbn [length] in Hl; lia | lia].
Qed.

Lemma bits_to_bytes_pack l : (length l mod 8 = 0)%nat -> bits_to_bytes l = pack false l.
Proof.
  intros H. unfold bits_to_bytes. apply (bits_to_bytes_fuel_pack (length l / 8)); lia.
Qed.

Lemma patch_byte a0 a1 a2 a6 a7 pads : pads <= 7 ->
  N.lor (bits_val [a0; a1; a2; false; false; false; a6; a7]) ((pads * 8) mod 256) =
  bits_val ([a0; a1; a2] ++ val_bits 3 pads ++ [a6; a7]).
Proof.
  intros Hp.
  destruct (pads_cases pads Hp) as [->|[->|[->|[->|[->|[->|[->| ->]]]]]]];
    destruct a0, a1, a2, a6, a7; reflexivity.
Qed.

Lemma patch_lemma a0 a1 a2 a6 a7 r pads : pads <= 7 -> (length r mod 8 = 0)%nat ->
  let all := a0 :: a1 :: a2 :: false :: false :: false :: a6 :: a7 :: r in
  bits_to_bytes (firstn 3 all ++ val_bits 3 pads ++ skipn 6 all) = patch0 pads (pack false all).
Proof.
  intros Hp Hr. cbv zeta. cbn [firstn skipn pack ord patch0].
  rewrite (patch_byte _ _ _ _ _ _ Hp).
  assert (Hv : exists p0 p1 p2, val_bits 3 pads = [p0; p1; p2]).
  { cbn [val_bits]. eexists _, _, _. reflexivity. }
  destruct Hv as (p0 & p1 & p2 & Hv). rewrite Hv. cbn [app].
  rewrite bits_to_bytes_pack by (cbn [length]; lia).
  reflexivity.
Qed.

Theorem block_bytes_is_encode_block buf final : buf_fits buf ->
  encode_block buf final = Some (block_bytes buf final).
Proof.
  intros Hfit. unfold buf_fits in Hfit. pose proof (computeHuffLen_pos _ _ Hfit) as Hh.
  unfold encode_block, encode_block_bits, block_bytes, block_pads, block_bits.
  destruct (computeHuffLen (count_zeros buf) (count_ones buf)) as [h inv].
  cbn [fst] in Hfit, Hh. replace (h =? 0) with false by lia. cbv zeta. cbn [option_map]. f_equal.
  rewrite (fields_app_nopad (block_fields1 buf h inv final) [] (block_fields1_nopad _ _ _ _)).
  cbn [app].
  set (cnts := Model.bump_head (computeCounts buf (2 ^ h) (negb (fmode_eqb final FinalNil)) inv)).
  set (k := N.to_nat (4 + (8 - h) * 2 - 1 - 5)).
  set (magic := magicVals + N.b2n (fmode_eqb final FinalStream) + (4 + (8 - h) * 2 - 4) * 2 ^ 13).
  assert (E1 : flat_map field_bits (block_fields1 buf h inv final) =
               (val_bits 32 magic ++ concat (repeat [false; false; false] k) ++ val_bits 3 2 ++ [false])
               ++ flat_map msym_bits (enc_runs cnts false)).
  { unfold block_fields1. cbn [flat_map]. rewrite !flat_map_app, repeat_zero3_bits, msym_fields_bits.
    fold cnts. fold k. cbn [flat_map field_bits app]. change (N.to_nat 32) with 32%nat.
    unfold block_magic. fold magic.
    rewrite <- !app_assoc. reflexivity. }
  rewrite E1.
  set (hdr := val_bits 32 magic ++ concat (repeat [false; false; false] k) ++ val_bits 3 2 ++ [false]).
  set (body := flat_map msym_bits (enc_runs cnts false)).
  rewrite app_length.
  set (pads := blk_pads (length hdr + length body) h).
  assert (Ep : (8 - (N.of_nat (length hdr + length body) + 1 + h) mod 8) mod 8 = pads) by reflexivity.
  rewrite Ep.
  rewrite (fields_app_nopad (block_fields2 h pads) _ (block_fields2_nopad _ _)).
  unfold block_fields2. cbn [flat_map field_bits]. rewrite app_nil_r.
  rewrite val_bits_zero, (val_bits_ones h Hh). change (val_bits (N.to_nat 1) 0) with [false].
  rewrite <- !app_assoc.
  assert (Hpads : pads <= 7) by apply blk_pads_le.
  destruct (magic_bits h final Hh) as (a0 & a1 & a2 & a6 & a7 & t & Hm).
  unfold block_magic in Hm. fold magic in Hm.
  unfold hdr. rewrite Hm. rewrite <- !app_assoc. cbn [app].
  match goal with |- context [patch0 pads (pack false (_ :: _ :: _ :: _ :: _ :: _ :: _ :: _ :: ?r))] =>
    set (r0 := r) end.
  apply (patch_lemma a0 a1 a2 a6 a7 r0 pads Hpads).
  (* the total length is a multiple of 8 *)
  assert (HL : (length hdr + length body + N.to_nat pads + 1 + N.to_nat h = 8 + length r0)%nat).
  { unfold hdr, r0. rewrite Hm. cbn [app length]. rewrite !app_length. cbn [length].
    rewrite !app_length. cbn [length]. rewrite !repeat_length. lia. }
  unfold pads, blk_pads in *. lia.
Qed.

Print Assumptions mencode_spec.
Print Assumptions block_bytes_is_encode_block.
