(* ReverseSearch finds the start of a trailing meta block: the magic value matches at the
   first byte of an encoded block and at no later byte offset inside it (including the
   offsets near the end, where the missing bytes count as zero). *)
From V Require Import Base.Prelude Base.Prog Base.ProgThms Meta.Model Meta.Thms Meta.RoundTrip
  Meta.Stream.
From Coq Require Import ZifyBool ZifyN ZifyNat.

(* ====================================================================== *)
(* 1. bytes, bits, and the 32-bit little-endian word                       *)
(* ====================================================================== *)

Lemma testbit_bits_val l : forall j, N.testbit (bits_val l) (N.of_nat j) = nth j l false.
Proof.
  induction l as [|b l IH]; intros j.
  - cbn [bits_val]. rewrite N.bits_0. destruct j; reflexivity.
  - cbn [bits_val]. rewrite N.add_comm. destruct j as [|j].
    + cbn [N.of_nat nth]. apply N.testbit_0_r.
    + rewrite Nat2N.inj_succ, N.testbit_succ_r. cbn [nth]. apply IH.
Qed.

Lemma bits_val_app' x y :
  bits_val (x ++ y) = bits_val x + 2 ^ N.of_nat (length x) * bits_val y.
Proof.
  induction x as [|b x IH]; cbn [app bits_val length].
  - change (2 ^ N.of_nat 0) with 1. lia.
  - rewrite IH, Nat2N.inj_succ, N.pow_succ_r'. lia.
Qed.

Definition le_val (l : list byte) : N := fold_right (fun b acc => b + 256 * acc) 0 l.

Lemma le_val_bits l : (forall b, In b l -> b < 256) -> bits_val (bytes_to_bits l) = le_val l.
Proof.
  induction l as [|a l IH]; intros Hb; [reflexivity|].
  cbn [bytes_to_bits flat_map le_val fold_right]. fold (bytes_to_bits l). fold (le_val l).
  rewrite bits_val_app', bits_val_lsb by (apply Hb; left; reflexivity).
  rewrite IH by (intros b Hin; apply Hb; right; exact Hin).
  rewrite bits_lsb_len. reflexivity.
Qed.

Lemma le32_le_val l : le32_at l = le_val (firstn 4 l).
Proof.
  destruct l as [|a [|b [|c [|d r]]]]; cbn [le32_at firstn le_val fold_right]; lia.
Qed.

Lemma firstn_bytes_to_bits n : forall l,
  firstn (8 * n) (bytes_to_bits l) = bytes_to_bits (firstn n l).
Proof.
  induction n as [|n IH]; intros l; [reflexivity|].
  destruct l as [|a l]; [reflexivity|].
  replace (8 * S n)%nat with (8 + 8 * n)%nat by lia.
  cbn [bytes_to_bits flat_map firstn]. fold (bytes_to_bits l). fold (bytes_to_bits (firstn n l)).
  rewrite firstn_app, bits_lsb_len, <- IH.
  replace (8 + 8 * n - 8)%nat with (8 * n)%nat by lia.
  rewrite firstn_all2 by (rewrite bits_lsb_len; lia). reflexivity.
Qed.

Lemma skipn_bytes_to_bits n : forall l,
  skipn (8 * n) (bytes_to_bits l) = bytes_to_bits (skipn n l).
Proof.
  induction n as [|n IH]; intros l; [reflexivity|].
  destruct l as [|a l]; [reflexivity|].
  replace (8 * S n)%nat with (8 + 8 * n)%nat by lia.
  cbn [bytes_to_bits flat_map skipn]. fold (bytes_to_bits l).
  rewrite skipn_app, bits_lsb_len.
  replace (8 + 8 * n - 8)%nat with (8 * n)%nat by lia.
  rewrite (skipn_all2 (bits_lsb a)) by (rewrite bits_lsb_len; lia). cbn [app]. apply IH.
Qed.

Lemma nth_firstn_lt {A} (d : A) n : forall j l, (j < n)%nat -> nth j (firstn n l) d = nth j l d.
Proof.
  induction n as [|n IH]; intros j l H; [lia|].
  destruct l as [|x l]; [destruct j; reflexivity|].
  destruct j as [|j]; cbn [firstn nth]; [reflexivity | apply IH; lia].
Qed.

Lemma nth_skipn' {A} (d : A) n : forall j l, nth j (skipn n l) d = nth (n + j) l d.
Proof.
  induction n as [|n IH]; intros j l; [reflexivity|].
  destruct l as [|x l]; [destruct j; reflexivity|]. cbn [skipn Nat.add nth]. apply IH.
Qed.

(* bit j (< 32) of the word at the head of [l] is bit j of the byte stream *)
Lemma le32_testbit l j : (forall b, In b l -> b < 256) -> (j < 32)%nat ->
  N.testbit (le32_at l) (N.of_nat j) = nth j (bytes_to_bits l) false.
Proof.
  intros Hb Hj. rewrite le32_le_val, <- le_val_bits.
  - rewrite testbit_bits_val. change 32%nat with (8 * 4)%nat in Hj.
    rewrite <- firstn_bytes_to_bits. apply nth_firstn_lt. exact Hj.
  - intros b Hin. apply Hb. rewrite <- (firstn_skipn 4 l). apply in_or_app. left. exact Hin.
Qed.

Definition wmatch (l : list byte) : bool := N.land (le32_at l) magicMask =? magicVals.

(* what a match forces on the bit stream (a part of it: all that the proof needs) *)
Definition cand (B : nat -> bool) (s : nat) : Prop :=
  (forall t, (t < 8)%nat -> B (s + t)%nat = false) /\
  B (s + 11)%nat = true /\ B (s + 12)%nat = true /\ B (s + 13)%nat = false /\ B (s + 17)%nat = true.

Lemma land_bit v j :
  N.land v magicMask = magicVals -> N.testbit magicMask (N.of_nat j) = true ->
  N.testbit v (N.of_nat j) = N.testbit magicVals (N.of_nat j).
Proof.
  intros H Hm. rewrite <- H, N.land_spec, Hm, andb_true_r. reflexivity.
Qed.

Lemma wmatch_cand l : (forall b, In b l -> b < 256) -> wmatch l = true ->
  cand (fun j => nth j (bytes_to_bits l) false) 6.
Proof.
  intros Hb H. unfold wmatch in H. apply N.eqb_eq in H.
  assert (K : forall j, (j < 32)%nat -> N.testbit magicMask (N.of_nat j) = true ->
              nth j (bytes_to_bits l) false = N.testbit magicVals (N.of_nat j)).
  { intros j Hj Hm. rewrite <- (le32_testbit l j Hb Hj). apply land_bit; assumption. }
  unfold cand. repeat split.
  - intros t Ht.
    do 8 (destruct t as [|t]; [apply K; [lia | reflexivity]|]). lia.
  - apply (K 17%nat); [lia | reflexivity].
  - apply (K 18%nat); [lia | reflexivity].
  - apply (K 19%nat); [lia | reflexivity].
  - apply (K 23%nat); [lia | reflexivity].
Qed.

(* ====================================================================== *)
(* 2. the search                                                           *)
(* ====================================================================== *)

Fixpoint nomatch (l : list byte) : Prop :=
  match l with
  | [] => True
  | _ :: r => wmatch l = false /\ nomatch r
  end.

Lemma rsearch_nomatch l : forall i best, nomatch l -> rsearch_from l i best = best.
Proof.
  induction l as [|a l IH]; intros i best H; [reflexivity|].
  destruct H as [H1 H2]. cbn [rsearch_from]. fold (wmatch (a :: l)). rewrite H1. apply IH. exact H2.
Qed.

Lemma rsearch_app pre : forall l i best,
  exists best', rsearch_from (pre ++ l) i best = rsearch_from l (i + N.of_nat (length pre)) best'.
Proof.
  induction pre as [|a pre IH]; intros l i best.
  - exists best. cbn [app length]. f_equal. lia.
  - cbn [app rsearch_from length].
    match goal with |- context[rsearch_from (pre ++ l) (i + 1) ?b] =>
      destruct (IH l (i + 1) b) as [best' Hb] end.
    exists best'. rewrite Hb. f_equal. lia.
Qed.

Lemma nomatch_skipn l :
  (forall i, (i < length l)%nat -> wmatch (skipn i l) = false) -> nomatch l.
Proof.
  induction l as [|a l IH]; intros H; [exact I|].
  split; [apply (H 0%nat); cbn [length]; lia|].
  apply IH. intros i Hi. apply (H (S i)). cbn [length]. lia.
Qed.

Lemma search_last pre blk :
  wmatch blk = true ->
  (forall i, (1 <= i < length blk)%nat -> wmatch (skipn i blk) = false) ->
  reverse_search (pre ++ blk) = Some (N.of_nat (length pre)).
Proof.
  intros H0 Hn. unfold reverse_search.
  destruct (rsearch_app pre blk 0 None) as [best' ->].
  destruct blk as [|a tl]; [discriminate H0|].
  cbn [rsearch_from]. fold (wmatch (a :: tl)). rewrite H0.
  rewrite rsearch_nomatch; [f_equal; lia|].
  apply nomatch_skipn. intros i Hi. apply (Hn (S i)). cbn [length]. lia.
Qed.

(* ====================================================================== *)
(* 3. no eight consecutive zero bits inside the symbol body                *)
(* ====================================================================== *)

(* scan a bit list keeping the number of zeros just seen; [None]: 8 zeros in a row *)
Fixpoint zscan (z : nat) (l : list bool) : option nat :=
  match l with
  | [] => Some z
  | true :: r => zscan 0 r
  | false :: r => if Nat.leb 7 z then None else zscan (S z) r
  end.

Lemma zscan_app a : forall z b,
  zscan z (a ++ b) = match zscan z a with Some z' => zscan z' b | None => None end.
Proof.
  induction a as [|x a IH]; intros z b; [reflexivity|].
  cbn [app zscan]. destruct x; [apply IH|]. destruct (Nat.leb 7 z); [reflexivity | apply IH].
Qed.

Lemma zscan_zeros n : forall z l,
  (z <= 7)%nat -> (8 <= z + n)%nat -> (n <= length l)%nat ->
  (forall t, (t < n)%nat -> nth t l false = false) -> zscan z l = None.
Proof.
  induction n as [|n IH]; intros z l Hz Hn Hl Hall; [lia|].
  destruct l as [|b r]; [cbn [length] in Hl; lia|].
  assert (Hb : b = false) by (apply (Hall 0%nat); lia). subst b.
  cbn [zscan]. destruct (Nat.leb 7 z) eqn:E; [reflexivity|].
  apply Nat.leb_gt in E. apply IH; cbn [length] in Hl; try lia.
  intros t Ht. apply (Hall (S t)). lia.
Qed.

Lemma zscan_some_le l : forall z z', zscan z l = Some z' -> (z <= 7)%nat -> (z' <= 7)%nat.
Proof.
  induction l as [|b r IH]; intros z z' H Hz; cbn [zscan] in H.
  - injection H as <-. exact Hz.
  - destruct b; [apply (IH 0%nat z' H); lia|].
    destruct (Nat.leb 7 z) eqn:E; [discriminate|]. apply Nat.leb_gt in E.
    apply (IH (S z) z' H). lia.
Qed.

Lemma zscan_no8 l : forall z z' j,
  zscan z l = Some z' -> (z <= 7)%nat -> (j + 8 <= length l)%nat ->
  ~ (forall t, (t < 8)%nat -> nth (j + t) l false = false).
Proof.
  induction l as [|b r IH]; intros z z' j H Hz Hj Hall; [cbn [length] in Hj; lia|].
  destruct j as [|j].
  - rewrite (zscan_zeros 8 z (b :: r)) in H; try discriminate; try lia. exact Hall.
  - cbn [zscan] in H. cbn [length] in Hj.
    assert (Hall' : forall t, (t < 8)%nat -> nth (j + t) r false = false)
      by (intros t Ht; apply (Hall t Ht)).
    destruct b.
    + apply (IH 0%nat z' j H); [lia | lia | exact Hall'].
    + destruct (Nat.leb 7 z) eqn:E; [discriminate|]. apply Nat.leb_gt in E.
      apply (IH (S z) z' j H); [lia | lia | exact Hall'].
Qed.

(* leading zeros of the 8-bit window = zeros just seen *)
Definition lz (f : N) : nat := (7 - N.to_nat (N.log2 f))%nat.

Definition all_syms : list msym :=
  [MZero; MOne] ++ map MRepLast [0; 1; 2; 3] ++ map (fun v => MRepZero (N.of_nat v)) (seq 0 128).

Definition sym_chk (f : N) (m : msym) : bool :=
  let f' := msym_fifo f m in
  (f' =? 0) ||
  ((f' <? 256) &&
   match zscan (lz f) (msym_bits m) with Some z => Nat.eqb z (lz f') | None => false end).

Definition sym_table : bool :=
  forallb (fun f => forallb (sym_chk (N.of_nat f)) all_syms) (seq 1 255).

Lemma sym_table_ok : sym_table = true.
Proof. vm_compute. reflexivity. Qed.

Lemma all_syms_complete m : msym_wf m -> In m all_syms.
Proof.
  unfold all_syms. destruct m as [| |v|v]; cbn [msym_wf]; intros H.
  - left. reflexivity.
  - right. left. reflexivity.
  - apply in_or_app. right. apply in_or_app. left. apply in_map.
    assert (v = 0 \/ v = 1 \/ v = 2 \/ v = 3) as [E|[E|[E|E]]] by lia; subst v; cbn [In]; auto.
  - apply in_or_app. right. apply in_or_app. right.
    apply in_map_iff. exists (N.to_nat v). split; [rewrite N2Nat.id; reflexivity|].
    apply in_seq. lia.
Qed.

Lemma sym_zscan f m :
  1 <= f < 256 -> msym_wf m -> msym_fifo f m <> 0 ->
  msym_fifo f m < 256 /\ zscan (lz f) (msym_bits m) = Some (lz (msym_fifo f m)).
Proof.
  intros Hf Hw Hn.
  pose proof sym_table_ok as T. unfold sym_table in T. rewrite forallb_forall in T.
  assert (Hin : In (N.to_nat f) (seq 1 255)) by (apply in_seq; lia).
  specialize (T _ Hin). rewrite N2Nat.id, forallb_forall in T.
  specialize (T m (all_syms_complete m Hw)). unfold sym_chk in T. cbv zeta in T.
  apply orb_true_iff in T as [T|T]; [apply N.eqb_eq in T; contradiction|].
  apply andb_true_iff in T as [T1 T2]. apply N.ltb_lt in T1. split; [exact T1|].
  destruct (zscan (lz f) (msym_bits m)) as [z|]; [|discriminate].
  apply Nat.eqb_eq in T2. subst z. reflexivity.
Qed.

Lemma steps_zscan l : forall s,
  steps_ok s l -> 1 <= ss_fifo s < 256 ->
  exists z', zscan (lz (ss_fifo s)) (sym_bits l) = Some z'.
Proof.
  induction l as [|m l IH]; intros s H Hf.
  - eexists. reflexivity.
  - cbn [steps_ok] in H. destruct H as [_ [Hw [Hn Hr]]].
    change (ss_fifo (sym_step s m)) with (msym_fifo (ss_fifo s) m) in Hn.
    destruct (sym_zscan (ss_fifo s) m Hf Hw Hn) as [Hlt Hz].
    destruct (IH (sym_step s m) Hr) as [z' Hz'].
    { change (ss_fifo (sym_step s m)) with (msym_fifo (ss_fifo s) m). lia. }
    exists z'. unfold sym_bits. cbn [flat_map]. fold (sym_bits l).
    rewrite zscan_app, Hz. exact Hz'.
Qed.

(* the body of a block never contains eight consecutive zeros *)
Lemma body_no8 cn j :
  Forall nz cn -> noNN cn -> length (expand cn) = 256%nat ->
  (j + 8 <= length (sym_bits (enc_runs cn false)))%nat ->
  ~ (forall t, (t < 8)%nat -> nth (j + t) (sym_bits (enc_runs cn false)) false = false).
Proof.
  intros Hnz Hnn Hlen Hj.
  destruct (enc_runs_spec cn false sym_init Hnz Hnn) as [K1 _].
  - left. cbn [sym_init ss_fifo]. lia.
  - reflexivity.
  - rewrite Hlen. cbn [sym_init ss_idx]. lia.
  - destruct (steps_zscan _ _ K1) as [z' Hz]; [cbn [sym_init ss_fifo]; lia|].
    apply (zscan_no8 _ _ z' j Hz); [|exact Hj].
    cbn [sym_init ss_fifo]. vm_compute. lia.
Qed.

(* ====================================================================== *)
(* 4. the body does not start with three zeros                             *)
(* ====================================================================== *)

Lemma body_start cn :
  Forall nz cn -> noNN cn -> length (expand cn) = 256%nat ->
  exists t, (t < 3)%nat /\ nth t (sym_bits (enc_runs cn false)) false = true.
Proof.
  intros Hnz Hnn Hlen.
  destruct cn as [|c r]; [discriminate Hlen|].
  inversion Hnz as [|? ? Hc Hr]; subst. unfold nz in Hc.
  cbn [enc_runs]. assert (E0 : (c =? 0)%Z = false) by lia. rewrite E0.
  set (n := Z.abs_N c). assert (Hn : 0 < n) by (subst n; lia).
  destruct (0 <? c)%Z eqn:Es.
  - (* a run of ones: MOne first *)
    exists 0%nat. split; [lia|]. cbn [Bool.eqb enc_run].
    assert (E1 : (n =? 0) = false) by lia. rewrite E1. reflexivity.
  - cbn [Bool.eqb enc_run]. assert (E1 : (n =? 0) = false) by lia. rewrite E1.
    cbn [negb andb].
    destruct (11 <=? n) eqn:E11; [exists 0%nat; split; [lia | reflexivity]|].
    destruct (3 <=? n) eqn:E3; [exists 0%nat; split; [lia | reflexivity]|].
    apply N.leb_gt in E3.
    (* one or two single zeros, then a run of ones *)
    destruct r as [|c2 r2].
    { exfalso. cbn [expand flat_map] in Hlen. rewrite app_nil_r in Hlen.
      unfold run_bits in Hlen. rewrite repeat_length in Hlen. lia. }
    pose proof (noNN_head _ _ _ Hnn) as H2.
    assert (Hc2 : (0 < c2)%Z) by lia.
    assert (Hfirst : exists tl, enc_runs (c2 :: r2) false = MOne :: tl).
    { cbn [enc_runs]. assert (E2 : (c2 =? 0)%Z = false) by lia. rewrite E2.
      assert (E3' : (0 <? c2)%Z = true) by lia. rewrite E3'. cbn [Bool.eqb enc_run].
      assert (E4 : (Z.abs_N c2 =? 0) = false) by lia. rewrite E4. cbn [negb andb app].
      eexists. reflexivity. }
    destruct Hfirst as [tl Htl]. rewrite Htl.
    assert (n = 1 \/ n = 2) as [En|En] by lia; rewrite En.
    + exists 1%nat. split; [lia|]. reflexivity.
    + exists 2%nat. split; [lia|]. reflexivity.
Qed.

(* ====================================================================== *)
(* 5. the header: finite check over huffLen, pads, finalStream             *)
(* ====================================================================== *)

Definition hdr_bits (h : N) (fs : bool) (pads : N) : list bool :=
  val_bits 32 (hdr_magic h fs + 8 * pads)
  ++ zero_triples (N.to_nat (4 + (8 - h) * 2 - 1 - 5)) ++ val_bits 3 2 ++ [false].

(* could offset [s] be the zero window of a match, judging from the header alone?
   positions beyond the header are unknown: they may be zero / may be one *)
Definition hcand (H : list bool) (s : nat) : bool :=
  forallb (fun t => negb (nth (s + t) H false)) (seq 0 8)
  && nth (s + 11) H true && nth (s + 12) H true.

Definition hdr_ok (H : list bool) : bool :=
  forallb (fun i => Nat.ltb (length H) (8 * i + 6 + 3) || negb (hcand H (8 * i + 6))) (seq 1 12)
  && Nat.leb (length H) 72.

Definition hdr_table_b : bool :=
  forallb (fun h => forallb (fun p => forallb (fun fs =>
      hdr_ok (hdr_bits (N.of_nat h) fs (N.of_nat p))) [true; false]) (seq 0 8)) (seq 1 7).

Lemma hdr_table_b_ok : hdr_table_b = true.
Proof. vm_compute. reflexivity. Qed.

Lemma hdr_table h fs pads : 1 <= h <= 7 -> pads < 8 -> hdr_ok (hdr_bits h fs pads) = true.
Proof.
  intros Hh Hp.
  pose proof hdr_table_b_ok as T. unfold hdr_table_b in T. rewrite forallb_forall in T.
  assert (H1 : In (N.to_nat h) (seq 1 7)) by (apply in_seq; lia).
  specialize (T _ H1). rewrite forallb_forall in T.
  assert (H2 : In (N.to_nat pads) (seq 0 8)) by (apply in_seq; lia).
  specialize (T _ H2). rewrite forallb_forall in T.
  assert (H3 : In fs [true; false]) by (destruct fs; cbn [In]; auto).
  specialize (T _ H3). rewrite !N2Nat.id in T. exact T.
Qed.

Lemma hdr_no_cand H (B : nat -> bool) i :
  hdr_ok H = true -> (1 <= i)%nat -> (8 * i + 6 + 3 <= length H)%nat ->
  (forall j, (j < length H)%nat -> B j = nth j H false) ->
  ~ cand B (8 * i + 6).
Proof.
  intros Hok Hi Hs HB [Hz [H11 [H12 _]]].
  unfold hdr_ok in Hok. apply andb_true_iff in Hok as [Hok Hlen]. apply Nat.leb_le in Hlen.
  rewrite forallb_forall in Hok.
  assert (Hin : In i (seq 1 12)) by (apply in_seq; lia).
  specialize (Hok i Hin). apply orb_true_iff in Hok as [Hok|Hok];
    [apply Nat.ltb_lt in Hok; lia|].
  apply negb_true_iff in Hok.
  assert (Hc : hcand H (8 * i + 6) = true); [|congruence].
  unfold hcand. rewrite !andb_true_iff. repeat split.
  - apply forallb_forall. intros t Ht. apply in_seq in Ht. apply negb_true_iff.
    destruct (Nat.lt_ge_cases (8 * i + 6 + t) (length H)) as [Hlt|Hge].
    + rewrite <- HB by exact Hlt. apply Hz. lia.
    + apply nth_overflow. exact Hge.
  - destruct (Nat.lt_ge_cases (8 * i + 6 + 11) (length H)) as [Hlt|Hge].
    + rewrite (nth_indep H true false) by exact Hlt. rewrite <- HB by exact Hlt. exact H11.
    + apply nth_overflow. exact Hge.
  - destruct (Nat.lt_ge_cases (8 * i + 6 + 12) (length H)) as [Hlt|Hge].
    + rewrite (nth_indep H true false) by exact Hlt. rewrite <- HB by exact Hlt. exact H12.
    + apply nth_overflow. exact Hge.
Qed.

(* ====================================================================== *)
(* 6. the trailer                                                          *)
(* ====================================================================== *)

Lemma nth_trailer pads h q :
  nth q (trailer_bits pads h) false
  = (Nat.leb (N.to_nat pads + 1) q && Nat.ltb q (N.to_nat pads + 1 + N.to_nat h)).
Proof.
  unfold trailer_bits. rewrite app_assoc.
  replace (repeat false (N.to_nat pads) ++ [false]) with (repeat false (N.to_nat pads + 1))
    by (rewrite repeat_app; reflexivity).
  destruct (Nat.lt_ge_cases q (N.to_nat pads + 1)) as [H|H].
  - rewrite app_nth1 by (rewrite repeat_length; exact H).
    rewrite nth_repeat_lt by exact H.
    assert (E : Nat.leb (N.to_nat pads + 1) q = false) by (apply Nat.leb_gt; exact H).
    rewrite E. reflexivity.
  - rewrite app_nth2 by (rewrite repeat_length; exact H). rewrite repeat_length.
    assert (E : Nat.leb (N.to_nat pads + 1) q = true) by (apply Nat.leb_le; exact H).
    rewrite E. cbn [andb].
    destruct (Nat.lt_ge_cases (q - (N.to_nat pads + 1)) (N.to_nat h)) as [H2|H2].
    + rewrite nth_repeat_lt by exact H2. symmetry. apply Nat.ltb_lt. lia.
    + rewrite nth_overflow by (rewrite repeat_length; exact H2). symmetry. apply Nat.ltb_ge. lia.
Qed.

(* ====================================================================== *)
(* 7. no match at a later byte offset of a block                           *)
(* ====================================================================== *)

Lemma block_no_cand h fs pads cn i :
  1 <= h <= 7 -> pads < 8 ->
  Forall nz cn -> noNN cn -> length (expand cn) = 256%nat ->
  (1 <= i)%nat ->
  ~ cand (fun j => nth j (block_bits h fs pads cn) false) (8 * i + 6).
Proof.
  intros Hh Hp Hnz Hnn Hlen Hi Hc.
  set (H := hdr_bits h fs pads).
  set (body := sym_bits (enc_runs cn false)).
  set (T := trailer_bits pads h).
  assert (Hbits : block_bits h fs pads cn = H ++ body ++ T).
  { unfold block_bits, H, hdr_bits, body, T. rewrite <- !app_assoc. reflexivity. }
  rewrite Hbits in Hc. clear Hbits.
  pose proof (hdr_table h fs pads Hh Hp) as Hok. fold H in Hok.
  assert (HlenH : (36 <= length H)%nat).
  { unfold H, hdr_bits. rewrite !app_length, !val_bits_length. cbn [length]. lia. }
  set (B := fun j => nth j (H ++ body ++ T) false) in *.
  assert (BH : forall j, (j < length H)%nat -> B j = nth j H false).
  { intros j Hj. unfold B. apply app_nth1. exact Hj. }
  assert (Bbody : forall j, (j < length body)%nat -> B (length H + j)%nat = nth j body false).
  { intros j Hj. unfold B. rewrite app_nth2 by lia.
    replace (length H + j - length H)%nat with j by lia. apply app_nth1. exact Hj. }
  assert (BT : forall q, B (length H + length body + q)%nat = nth q T false).
  { intros q. unfold B. rewrite app_nth2 by lia. rewrite app_nth2 by lia. f_equal. lia. }
  set (s := (8 * i + 6)%nat) in *.
  destruct Hc as [Hz [H11 [H12 [H13 H17]]]].
  destruct (Nat.lt_ge_cases (s + 7) (length H + length body)) as [Hin|Htr].
  - (* the window lies before the trailer *)
    destruct (Nat.le_gt_cases (s + 3) (length H)) as [Hhd|Hnh].
    + (* judged by the header alone *)
      apply (hdr_no_cand H B i Hok Hi Hhd BH). repeat split; assumption.
    + destruct (Nat.lt_ge_cases s (length H)) as [Hb|Hb].
      * (* the window starts in the last two header bits: body bits 0..2 are inside *)
        destruct (body_start cn Hnz Hnn Hlen) as [t [Ht Hbt]]. fold body in Hbt.
        assert (Htl : (t < length body)%nat).
        { destruct (Nat.lt_ge_cases t (length body)) as [Hl|Hl]; [exact Hl|].
          rewrite nth_overflow in Hbt by exact Hl. discriminate. }
        rewrite <- (Bbody t Htl) in Hbt.
        replace (length H + t)%nat with (s + (length H + t - s))%nat in Hbt by lia.
        rewrite Hz in Hbt by lia. discriminate.
      * (* the window lies inside the body *)
        apply (body_no8 cn (s - length H) Hnz Hnn Hlen); fold body; [lia|].
        intros t Ht. rewrite <- Bbody by lia.
        replace (length H + (s - length H + t))%nat with (s + t)%nat by lia.
        apply Hz. exact Ht.
  - (* the window reaches the trailer: what follows is zeros, ones, zeros *)
    set (T0 := (length H + length body)%nat) in *.
    replace (s + 12)%nat with (T0 + (s + 12 - T0))%nat in H12 by lia.
    replace (s + 13)%nat with (T0 + (s + 13 - T0))%nat in H13 by lia.
    replace (s + 17)%nat with (T0 + (s + 17 - T0))%nat in H17 by lia.
    unfold T0 in H12, H13, H17. rewrite BT in H12, H13, H17. unfold T in H12, H13, H17.
    rewrite nth_trailer in H12, H13, H17.
    apply andb_true_iff in H12 as [A1 A2]. apply andb_true_iff in H17 as [A3 A4].
    apply Nat.leb_le in A1, A3. apply Nat.ltb_lt in A2, A4.
    apply andb_false_iff in H13 as [A5|A5];
      [apply Nat.leb_gt in A5 | apply Nat.ltb_ge in A5]; lia.
Qed.

(* ====================================================================== *)
(* 8. the theorem                                                          *)
(* ====================================================================== *)

Lemma firstn_app_exact {A} n (a x : list A) : length a = n -> firstn n (a ++ x) = a.
Proof.
  intros <-. rewrite firstn_app, Nat.sub_diag, firstn_all. cbn [firstn]. apply app_nil_r.
Qed.

(* bit level: in an encoded block the magic matches at byte offset 0 only *)
Lemma block_magic_only_at_start buf final blk :
  (forall b, In b buf -> b < 256) ->
  encode_block buf final = Some blk ->
  wmatch blk = true /\
  (forall i, (1 <= i < length blk)%nat -> wmatch (skipn i blk) = false).
Proof.
  intros Hb Henc.
  assert (Hblk : forall b, In b blk -> b < 256) by (intros b; apply (encode_block_bytes _ _ _ _ Henc)).
  unfold encode_block in Henc.
  destruct (encode_block_bits buf final) as [bits|] eqn:E; [|discriminate].
  injection Henc as Hbb.
  destruct (encode_shape buf final bits Hb E)
    as [h [inv [cn [pz [po [pads [Hh [Hp [Hnz [Hnn [Hlen [_ [_ [_ [_ [Hshape Hal]]]]]]]]]]]]]]]].
  destruct (bytes_of_bits (length bits / 8) (S (length bits)) bits) as [H1 _].
  { clear - Hal. lia. }
  { clear. lia. }
  fold (bits_to_bytes bits) in H1. rewrite Hbb in H1.
  set (fs := fmode_eqb final FinalStream) in *.
  split.
  - destruct (hdr_facts h fs pads Hh Hp) as [_ [M32 [M1 _]]].
    unfold wmatch. rewrite le32_le_val, <- le_val_bits.
    + rewrite <- (firstn_bytes_to_bits 4). change (8 * 4)%nat with 32%nat.
      rewrite H1, Hshape. unfold block_bits.
      rewrite (firstn_app_exact 32) by apply val_bits_length.
      rewrite bits_val_val_bits. change (N.of_nat 32) with 32.
      rewrite N.mod_small by exact M32. exact M1.
    + intros b Hin. apply Hblk. rewrite <- (firstn_skipn 4 blk). apply in_or_app. left. exact Hin.
  - intros i Hi. destruct (wmatch (skipn i blk)) eqn:Em; [exfalso | reflexivity].
    assert (Hsk : forall b, In b (skipn i blk) -> b < 256).
    { intros b Hin. apply Hblk. rewrite <- (firstn_skipn i blk). apply in_or_app. right. exact Hin. }
    pose proof (wmatch_cand _ Hsk Em) as Hc.
    rewrite <- skipn_bytes_to_bits, H1, Hshape in Hc.
    apply (block_no_cand h fs pads cn i Hh Hp Hnz Hnn Hlen); [lia|].
    destruct Hc as [Hz [H11 [H12 [H13 H17]]]].
    rewrite nth_skipn' in H11, H12, H13, H17.
    unfold cand. cbv beta. repeat split.
    + intros t Ht. specialize (Hz t Ht). rewrite nth_skipn' in Hz.
      etransitivity; [|exact Hz]. f_equal. lia.
    + etransitivity; [|exact H11]. f_equal. lia.
    + etransitivity; [|exact H12]. f_equal. lia.
    + etransitivity; [|exact H13]. f_equal. lia.
    + etransitivity; [|exact H17]. f_equal. lia.
Qed.

Theorem reverse_search_finds_block :
  forall pre buf final blk,
    (forall b, In b buf -> b < 256) -> (forall b, In b pre -> b < 256) ->
    encode_block buf final = Some blk ->
    reverse_search (pre ++ blk) = Some (N.of_nat (length pre)).
Proof.
  intros pre buf final blk Hb _ Henc.
  destruct (block_magic_only_at_start buf final blk Hb Henc) as [H0 Hn].
  apply search_last; assumption.
Qed.

(* non-vacuity: a prefix that itself contains the magic word, then a block *)
Example reverse_search_finds_block_ex :
  exists blk, encode_block [1; 2; 3] FinalStream = Some blk /\
    wmatch [0x04; 0x00; 0x86; 0x05] = true /\
    reverse_search ([0x04; 0x00; 0x86; 0x05; 9; 9] ++ blk) = Some 6.
Proof.
  destruct (encode_block [1; 2; 3] FinalStream) as [blk|] eqn:E; [|vm_compute in E; discriminate].
  exists blk. split; [reflexivity|]. split; [vm_compute; reflexivity|].
  apply (reverse_search_finds_block [0x04; 0x00; 0x86; 0x05; 9; 9] [1; 2; 3] FinalStream blk).
  - intros b [<-|[<-|[<-|[]]]]; reflexivity.
  - intros b Hin. repeat (destruct Hin as [<-|Hin]; [reflexivity|]). destruct Hin.
  - exact E.
Qed.

Print Assumptions block_no_cand.
Print Assumptions block_magic_only_at_start.
Print Assumptions reverse_search_finds_block.

From V Require XFlate.RoundTripStmt.
Goal XFlate.RoundTripStmt.reverse_search_finds_block_stmt.
Proof. exact reverse_search_finds_block. Qed.
