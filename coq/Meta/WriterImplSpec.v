(* The abstract, sink-free meta.Writer against which the implementation-level model
   (Meta/WriterImpl.v) is proved in Meta/WriterImplBits.v and Meta/WriterImplThms.v.

   * [block_bytes buf final]: the bytes of ONE meta block as the bit writer produces them:
     the fields of the implementation model ([block_fields1], the pad count, [block_fields2])
     appended to the empty bit list, packed little-endian, the first byte patched with the
     pad count. Meta/WriterImplBits.v proves that this is [encode_block buf final] of
     Meta/Model.v (the CONTENT link).
   * the abstract state [amw]: the raw contents of the blocks already emitted, the buffered
     bytes, whether (and with which FinalMode) the Writer was closed, InputOffset. Write is
     the byte-wise state machine [wwrite] of Meta/Thms.v (which is [writer_blocks]: the BLOCK
     link), Close marks the buffer as the last block.
   * [am_out]: the output of the history over a sink that never fails. *)
From V Require Import Base.Prelude Meta.Model Meta.Thms Prefix.ReaderImpl Prefix.WriterImpl
  Prefix.WriterSpec Prefix.WriterFields Meta.WriterImpl.

Local Open Scope N_scope.

(* ---- one block ------------------------------------------------------------------------- *)
(* the pad count at [written] bits: (8 - (written + 1 + huffLen) mod 8) mod 8 *)
Definition blk_pads (written : nat) (huffLen : N) : N :=
  (8 - (N.of_nat written + 1 + huffLen) mod 8) mod 8.

(* mw.bb.Bytes()[0] |= byte(pads) << 3 *)
Definition patch0 (pads : N) (l : list byte) : list byte :=
  match l with
  | [] => []
  | b0 :: r => N.lor b0 ((pads * 8) mod 256) :: r
  end.

(* the bits the fields of a block append to an empty stream *)
Definition block_bits (buf : list byte) (final : fmode) : list bool :=
  let '(huffLen, inv) := computeHuffLen (count_zeros buf) (count_ones buf) in
  let bits1 := fields_app [] (block_fields1 buf huffLen inv final) in
  fields_app bits1 (block_fields2 huffLen (blk_pads (length bits1) huffLen)).

Definition block_pads (buf : list byte) (final : fmode) : N :=
  let '(huffLen, inv) := computeHuffLen (count_zeros buf) (count_ones buf) in
  blk_pads (length (fields_app [] (block_fields1 buf huffLen inv final))) huffLen.

Definition block_bytes (buf : list byte) (final : fmode) : list byte :=
  patch0 (block_pads buf final) (pack false (block_bits buf final)).

(* ---- the abstract Writer ---------------------------------------------------------------- *)
Record amw := mkAmw {
  am_done : list (list byte);   (* raw contents of the (non-final) blocks emitted since Reset *)
  am_buf : list byte;           (* buffered bytes; after Close: the contents of the last block *)
  am_fin : option fmode;        (* Some mode: closed with that FinalMode *)
  am_in : Z                     (* InputOffset *)
}.

Definition anew : amw := mkAmw [] [] None 0.

Definition awrite (a : amw) (data : list byte) : amw :=
  match am_fin a with
  | Some _ => a
  | None =>
    let s := wwrite (am_done a, am_buf a) data in
    mkAmw (fst s) (snd s) None (am_in a + Z.of_nat (length data))
  end.

Definition aclose (a : amw) (mode : fmode) : amw :=
  match am_fin a with
  | Some _ => a
  | None => mkAmw (am_done a) (am_buf a) (Some mode) (am_in a)
  end.

Definition astep (a : amw) (o : mop) : amw :=
  match o with
  | MWrite data => awrite a data
  | MClose mode => aclose a mode
  | MReset _ _ => anew
  end.

Definition arun (a : amw) (ops : list mop) : amw := fold_left astep ops a.

Definition blocks_out (done : list (list byte)) : list byte :=
  concat (map (fun b => block_bytes b FinalNil) done).

(* the output over a sink that never fails *)
Definition am_out (a : amw) : list byte :=
  blocks_out (am_done a) ++
  match am_fin a with Some m => block_bytes (am_buf a) m | None => [] end.

(* everything Write accepted since Reset *)
Definition am_payload (a : amw) : list byte := concat (am_done a) ++ am_buf a.

(* the number of blocks emitted = successful sink calls *)
Definition am_nblocks (a : amw) : nat :=
  (length (am_done a) + match am_fin a with Some _ => 1 | None => 0 end)%nat.
