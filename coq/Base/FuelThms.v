(* Loop budgets are sufficient: a semantic predicate saying that a decoder program,
   started with fewer than [n] input bits left, never ends in EFuel, with
   composition lemmas. The loop rule needs progress: every iteration that continues
   consumes at least one input bit (or decreases a measure on the loop state). *)
From V Require Import Base.Prelude Base.Prog Base.ProgThms.

Definition ilen (s : ast) : nat := length (a_in s).

Lemma run_ilen_le {A} (p : prog A) s : (ilen (res_state (run p s)) <= ilen s)%nat.
Proof.
  destruct (run_mono p s) as [o [c [_ [H _]]]]. unfold ilen. rewrite H. rewrite app_length. lia.
Qed.

Lemma run_done_ilen_le {A} (p : prog A) s a s' : run p s = Done a s' -> (ilen s' <= ilen s)%nat.
Proof. intros H. pose proof (run_ilen_le p s) as G. rewrite H in G. exact G. Qed.

Definition nofuel (n : nat) {A} (p : prog A) : Prop :=
  forall s, (ilen s < n)%nat -> match run p s with Fail e _ => e <> EFuel | Done _ _ => True end.

(* [eats c p]: whenever p finishes with a value satisfying c, it has consumed input *)
Definition eats {A} (c : A -> Prop) (p : prog A) : Prop :=
  forall s a s', run p s = Done a s' -> c a -> (ilen s' < ilen s)%nat.

Section NoFuel.
  Variable n : nat.

  Lemma nofuel_ret {A} (a : A) : nofuel n (Ret a).
  Proof. intros s _. exact I. Qed.

  Lemma nofuel_throw {A} e : e <> EFuel -> nofuel n (@Throw A e).
  Proof. intros H s _. exact H. Qed.

  Lemma nofuel_bind {A B} (p : prog A) (f : A -> prog B) :
    nofuel n p -> (forall a, nofuel n (f a)) -> nofuel n (bind p f).
  Proof.
    intros Hp Hf s Hs. rewrite run_bind. specialize (Hp s Hs).
    destruct (run p s) as [a s'|e s'] eqn:E; [|exact Hp].
    apply Hf. pose proof (run_done_ilen_le p s a s' E). lia.
  Qed.

  Lemma nofuel_bit {A} (k : bool -> prog A) : (forall b, nofuel n (k b)) -> nofuel n (Bit k).
  Proof.
    intros Hk s Hs. cbn [run]. destruct (a_in s) as [|b r] eqn:E; [discriminate|].
    apply Hk. unfold ilen in *. rewrite E in Hs. cbn [a_in length] in *. lia.
  Qed.

  Lemma nofuel_align {A} (k : N -> prog A) : (forall v, nofuel n (k v)) -> nofuel n (AlignP k).
  Proof.
    intros Hk s Hs. cbn [run]. destruct (Nat.leb _ _); [|discriminate].
    apply Hk. unfold ilen in *. cbn [a_in]. rewrite skipn_length. lia.
  Qed.

  Lemma nofuel_iseof {A} (k : bool -> prog A) : (forall b, nofuel n (k b)) -> nofuel n (IsEof k).
  Proof. intros Hk s Hs. cbn [run]. apply Hk. exact Hs. Qed.
  Lemma nofuel_pos {A} (k : N -> prog A) : (forall v, nofuel n (k v)) -> nofuel n (Pos k).
  Proof. intros Hk s Hs. cbn [run]. apply Hk. exact Hs. Qed.
  Lemma nofuel_hist {A} (k : N -> prog A) : (forall v, nofuel n (k v)) -> nofuel n (Hist k).
  Proof. intros Hk s Hs. cbn [run]. apply Hk. exact Hs. Qed.
  Lemma nofuel_histb {A} d (k : N -> prog A) : (forall v, nofuel n (k v)) -> nofuel n (HistB d k).
  Proof. intros Hk s Hs. cbn [run]. apply Hk. exact Hs. Qed.
  Lemma nofuel_put {A} b (k : prog A) : nofuel n k -> nofuel n (Put b k).
  Proof. intros Hk s Hs. cbn [run]. apply Hk. exact Hs. Qed.
  Lemma nofuel_yield {A} (k : prog A) : nofuel n k -> nofuel n (Yield k).
  Proof. intros Hk s Hs. cbn [run]. apply Hk. exact Hs. Qed.
  Lemma nofuel_copy {A} d l (k : prog A) : nofuel n k -> nofuel n (Copy d l k).
  Proof. intros Hk s Hs. cbn [run]. destruct (_ && _); [|discriminate]. apply Hk. exact Hs. Qed.

  Lemma nofuel_assert c e : e <> EFuel -> nofuel n (assert_p c e).
  Proof. intros H. unfold assert_p. destruct c; [apply nofuel_ret | apply nofuel_throw; exact H]. Qed.

  Lemma nofuel_bits_lsbf m : nofuel n (bits_lsbf m).
  Proof.
    induction m as [|m IH]; cbn [bits_lsbf]; [apply nofuel_ret|].
    apply nofuel_bit. intros b. apply nofuel_bind; [exact IH|]. intros; apply nofuel_ret.
  Qed.

  Lemma nofuel_put_all l : nofuel n (put_all l).
  Proof. induction l; cbn; [apply nofuel_ret | apply nofuel_put; assumption]. Qed.

  (* iterations that continue consume input: 2^d of them need 2^d bits *)
  Lemma iter2_eats {St R} d (body : St -> prog (St + R)) :
    (forall st, eats (fun r => exists st', r = inl st') (body st)) ->
    forall st s st' s', run (iter2 d body st) s = Done (inl st') s' -> (ilen s' + 2 ^ d <= ilen s)%nat.
  Proof.
    intros Hb. induction d as [|d IH]; intros st s st' s' H; cbn [iter2] in H.
    - specialize (Hb st s (inl st') s' H (ex_intro _ st' eq_refl)). cbn. lia.
    - rewrite run_bind in H.
      destruct (run (iter2 d body st) s) as [[st1|r] s1|e s1] eqn:E1;
        [ | cbn [run] in H; discriminate | discriminate ].
      pose proof (IH _ _ _ _ E1) as H1. pose proof (IH _ _ _ _ H) as H2.
      cbn [Nat.pow]. lia.
  Qed.

  Lemma nofuel_iter2 {St R} d (body : St -> prog (St + R)) st :
    (forall st, nofuel n (body st)) -> nofuel n (iter2 d body st).
  Proof.
    intros Hb. revert st. induction d as [|d IH]; intros st; cbn [iter2]; [apply Hb|].
    apply nofuel_bind; [apply IH|]. intros [st1|r]; [apply IH | apply nofuel_ret].
  Qed.

  Lemma nofuel_loop {St R} d (body : St -> prog (St + R)) st :
    (forall st, nofuel n (body st)) ->
    (forall st, eats (fun r => exists st', r = inl st') (body st)) ->
    (n <= 2 ^ d)%nat ->
    nofuel n (loop d body st).
  Proof.
    intros Hb He Hn s Hs. unfold loop. rewrite run_bind.
    pose proof (nofuel_iter2 d body st Hb s Hs) as H1.
    destruct (run (iter2 d body st) s) as [[st1|r] s1|e s1] eqn:E1; [| exact I | exact H1].
    exfalso. pose proof (iter2_eats d body He _ _ _ _ E1). lia.
  Qed.

  (* a loop whose continuing iterations decrease a measure on the loop state *)
  Lemma iter2_measure {St R} (mu : St -> nat) d (body : St -> prog (St + R)) :
    (forall st s st' s', run (body st) s = Done (inl st') s' -> (mu st' < mu st)%nat) ->
    forall st s st' s', run (iter2 d body st) s = Done (inl st') s' -> (mu st' + 2 ^ d <= mu st)%nat.
  Proof.
    intros Hb. induction d as [|d IH]; intros st s st' s' H; cbn [iter2] in H.
    - specialize (Hb _ _ _ _ H). cbn. lia.
    - rewrite run_bind in H.
      destruct (run (iter2 d body st) s) as [[st1|r] s1|e s1] eqn:E1;
        [ | cbn [run] in H; discriminate | discriminate ].
      pose proof (IH _ _ _ _ E1) as H1. pose proof (IH _ _ _ _ H) as H2.
      cbn [Nat.pow]. lia.
  Qed.

  Lemma nofuel_loop_measure {St R} (mu : St -> nat) d (body : St -> prog (St + R)) st :
    (forall st, nofuel n (body st)) ->
    (forall st s st' s', run (body st) s = Done (inl st') s' -> (mu st' < mu st)%nat) ->
    (mu st < 2 ^ d)%nat ->
    nofuel n (loop d body st).
  Proof.
    intros Hb Hm Hn s Hs. unfold loop. rewrite run_bind.
    pose proof (nofuel_iter2 d body st Hb s Hs) as H1.
    destruct (run (iter2 d body st) s) as [[st1|r] s1|e s1] eqn:E1; [| exact I | exact H1].
    exfalso. pose proof (iter2_measure mu d body Hm _ _ _ _ E1). lia.
  Qed.
End NoFuel.

(* ---- progress lemmas ------------------------------------------------------------- *)
Lemma eats_bit {A} (c : A -> Prop) (k : bool -> prog A) : eats c (Bit k).
Proof.
  intros s a s' H _. cbn [run] in H. destruct (a_in s) as [|b r] eqn:E; [discriminate|].
  pose proof (run_done_ilen_le _ _ _ _ H) as G. unfold ilen in *. rewrite E. cbn [a_in length] in *. lia.
Qed.

(* the first part consumes: so does the whole *)
Lemma eats_bind_first {A B} (c : B -> Prop) (p : prog A) (f : A -> prog B) :
  eats (fun _ => True) p -> eats c (bind p f).
Proof.
  intros Hp s b s' H _. rewrite run_bind in H.
  destruct (run p s) as [a s1|e s1] eqn:E; [|discriminate].
  specialize (Hp s a s1 E I). pose proof (run_done_ilen_le _ _ _ _ H). lia.
Qed.

(* the second part consumes whenever it yields a value in c *)
Lemma eats_bind_second {A B} (c : B -> Prop) (p : prog A) (f : A -> prog B) :
  (forall a, eats c (f a)) -> eats c (bind p f).
Proof.
  intros Hf s b s' H Hc. rewrite run_bind in H.
  destruct (run p s) as [a s1|e s1] eqn:E; [|discriminate].
  specialize (Hf a s1 b s' H Hc). pose proof (run_done_ilen_le _ _ _ _ E). lia.
Qed.

Lemma eats_ret_not {A} (c : A -> Prop) (a : A) : ~ c a -> eats c (Ret a).
Proof. intros H s a' s' E Hc. cbn [run] in E. inversion E; subst. contradiction. Qed.

Lemma eats_throw {A} (c : A -> Prop) e : eats c (@Throw A e).
Proof. intros s a s' E. cbn [run] in E. discriminate. Qed.

Lemma eats_weaken {A} (c c' : A -> Prop) (p : prog A) :
  (forall a, c' a -> c a) -> eats c p -> eats c' p.
Proof. intros Hc Hp s a s' E H. apply (Hp s a s' E). apply Hc. exact H. Qed.

Lemma eats_bits_lsbf m (c : N -> Prop) : (0 < m)%nat -> eats c (bits_lsbf m).
Proof. intros Hm. destruct m as [|m]; [lia|]. cbn [bits_lsbf]. apply eats_bit. Qed.

Lemma nofuel_elim n {A} (p : prog A) s :
  nofuel n p -> (ilen s < n)%nat -> match run p s with Fail e _ => e <> EFuel | Done _ _ => True end.
Proof. intros H Hs. exact (H s Hs). Qed.

(* ---- plain postconditions (no state hypothesis) ------------------------------------ *)
Definition post {A} (Q : A -> Prop) (p : prog A) : Prop :=
  forall s a s', run p s = Done a s' -> Q a.

Lemma post_ret {A} (Q : A -> Prop) a : Q a -> post Q (Ret a).
Proof. intros H s a' s' E. cbn [run] in E. inversion E; subst. exact H. Qed.

Lemma post_throw {A} (Q : A -> Prop) e : post Q (@Throw A e).
Proof. intros s a s' E. cbn [run] in E. discriminate. Qed.

Lemma post_true {A} (p : prog A) : post (fun _ => True) p.
Proof. intros s a s' _. exact I. Qed.

Lemma post_bind {A B} (Q1 : A -> Prop) (Q : B -> Prop) (p : prog A) (f : A -> prog B) :
  post Q1 p -> (forall a, Q1 a -> post Q (f a)) -> post Q (bind p f).
Proof.
  intros Hp Hf s b s' E. rewrite run_bind in E.
  destruct (run p s) as [a s1|e s1] eqn:E1; [|discriminate].
  exact (Hf a (Hp s a s1 E1) s1 b s' E).
Qed.

Lemma post_bind_any {A B} (Q : B -> Prop) (p : prog A) (f : A -> prog B) :
  (forall a, post Q (f a)) -> post Q (bind p f).
Proof. intros Hf. apply (post_bind (fun _ => True)); [apply post_true | intros a _; apply Hf]. Qed.

Lemma post_weaken {A} (Q R : A -> Prop) (p : prog A) : post Q p -> (forall a, Q a -> R a) -> post R p.
Proof. intros H HQ s a s' E. apply HQ. exact (H s a s' E). Qed.

Lemma post_assert_bind {A} (Q : A -> Prop) c e (q : prog A) :
  (c = true -> post Q q) -> post Q (assert_p c e ;;; q).
Proof.
  intros Hq. unfold assert_p. destruct c; cbn [bind]; [apply Hq; reflexivity | apply post_throw].
Qed.

Lemma post_bits_lsbf m : post (fun v => v < 2 ^ N.of_nat m) (bits_lsbf m).
Proof.
  induction m as [|m IH]; cbn [bits_lsbf].
  - apply post_ret. cbn. lia.
  - intros s a s' E. cbn [run] in E. destruct (a_in s) as [|b r]; [discriminate|].
    rewrite run_bind in E.
    destruct (run (bits_lsbf m) _) as [v s1|e s1] eqn:E1; [|discriminate].
    change (Done (N.b2n b + 2 * v) s1 = Done a s') in E. injection E as Ea Es. subst a s'.
    specialize (IH _ _ _ E1). cbv beta in IH.
    rewrite Nat2N.inj_succ, N.pow_succ_r'.
    change (match v with 0 => 0 | N.pos q => N.pos q~0 end) with (2 * v).
    destruct b; cbn [N.b2n]; lia.
Qed.

Lemma post_iter2 {St R} (I : St -> Prop) (Q : R -> Prop) d (body : St -> prog (St + R)) :
  (forall st, I st -> post (fun r => match r with inl st' => I st' | inr x => Q x end) (body st)) ->
  forall st, I st -> post (fun r => match r with inl st' => I st' | inr x => Q x end) (iter2 d body st).
Proof.
  intros Hb. induction d as [|d IH]; intros st Hi; cbn [iter2]; [apply Hb; exact Hi|].
  eapply post_bind; [apply IH; exact Hi|].
  intros [st1|x] Hr; [apply IH; exact Hr | apply post_ret; exact Hr].
Qed.

Lemma post_loop {St R} (I : St -> Prop) (Q : R -> Prop) d (body : St -> prog (St + R)) st :
  (forall st, I st -> post (fun r => match r with inl st' => I st' | inr x => Q x end) (body st)) ->
  I st -> post Q (loop d body st).
Proof.
  intros Hb Hi. unfold loop. eapply post_bind; [apply (post_iter2 I Q d body Hb st Hi)|].
  intros [st1|x] Hr; [apply post_throw | apply post_ret; exact Hr].
Qed.

(* nofuel with what is known about the first part's result *)
Lemma nofuel_bind_post n {A B} (Q : A -> Prop) (p : prog A) (f : A -> prog B) :
  nofuel n p -> post Q p -> (forall a, Q a -> nofuel n (f a)) -> nofuel n (bind p f).
Proof.
  intros Hp Hq Hf s Hs. rewrite run_bind. specialize (Hp s Hs).
  destruct (run p s) as [a s1|e s1] eqn:E; [|exact Hp].
  apply (Hf a (Hq s a s1 E)). pose proof (run_done_ilen_le p s a s1 E). lia.
Qed.

Lemma nofuel_assert_bind n {A} c e (q : prog A) :
  e <> EFuel -> (c = true -> nofuel n q) -> nofuel n (assert_p c e ;;; q).
Proof.
  intros He Hq. unfold assert_p. destruct c; cbn [bind]; [apply Hq; reflexivity | apply nofuel_throw; exact He].
Qed.

Lemma post_elim {A} (Q : A -> Prop) (p : prog A) s a s' : post Q p -> run p s = Done a s' -> Q a.
Proof. intros H E. exact (H s a s' E). Qed.

Global Opaque nofuel eats post.
