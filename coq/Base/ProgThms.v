(* Generic theorems about every decoder written as a [prog]:
   - bind law for [run]
   - output only grows, consumption is a prefix of the source
   - G2 locality: the outcome depends only on the bits actually consumed;
     on a truncated source the outcome is EUEOF and the output a prefix. *)
From V Require Import Base.Prelude Base.Prog.

Lemma run_bind {A B} (p : prog A) (f : A -> prog B) s :
  run (bind p f) s =
  match run p s with
  | Done a s' => run (f a) s'
  | Fail e s' => Fail e s'
  end.
Proof.
  revert s; induction p as [a|e|k IH|k IH|k IH|k IH|b k IH|d l k IH|k IH|d k IH|k IH];
    intros s; cbn [bind run]; auto.
  - destruct (a_in s); auto.
  - destruct (Nat.leb _ _); auto.
  - destruct (_ && _); auto.
Qed.

(* ---- monotonic output, prefix consumption --------------------------- *)

Lemma copy_hist_app n d out : exists o, copy_hist n d out = o ++ out /\ length o = n.
Proof.
  revert out; induction n as [|n IH]; intros out; cbn [copy_hist].
  - exists []; auto.
  - destruct (IH (nth (d - 1) out 0 :: out)) as [o [Ho Hl]].
    exists (o ++ [nth (d - 1) out 0]). rewrite <- app_assoc. cbn [app].
    split; auto. rewrite app_length, Hl. cbn [length]. lia.
Qed.

Lemma copy_chunks_app f n d out : exists o, copy_chunks f n d out = o ++ out.
Proof.
  revert n out; induction f as [|f IH]; intros n out; cbn [copy_chunks].
  - exists []; reflexivity.
  - destruct (Nat.leb n d).
    + eexists; reflexivity.
    + destruct (IH (n - d)%nat (firstn d out ++ out)) as [o Ho].
      exists (o ++ firstn d out). rewrite Ho, <- app_assoc. reflexivity.
Qed.

Lemma copy_chunks_length f n d out :
  (0 < d)%nat -> (d <= length out)%nat -> (n < f)%nat ->
  length (copy_chunks f n d out) = (n + length out)%nat.
Proof.
  intros Hd. revert n out; induction f as [|f IH]; intros n out Hl Hn; [lia|].
  cbn [copy_chunks]. destruct (Nat.leb n d) eqn:E.
  - apply Nat.leb_le in E. rewrite app_length, firstn_length, skipn_length. lia.
  - apply Nat.leb_gt in E.
    rewrite IH.
    + rewrite app_length, firstn_length. lia.
    + rewrite app_length, firstn_length. lia.
    + lia.
Qed.

Definition wf_ast (s : ast) : Prop := a_len s = N.of_nat (length (a_out s)).

Lemma run_mono {A} (p : prog A) s :
  exists o c,
    a_out (res_state (run p s)) = o ++ a_out s /\
    a_in s = c ++ a_in (res_state (run p s)) /\
    a_pos (res_state (run p s)) = a_pos s + N.of_nat (length c).
Proof.
  revert s; induction p as [a|e|k IH|k IH|k IH|k IH|b k IH|d l k IH|k IH|d k IH|k IH];
    intros s; cbn [run].
  - exists [], []. cbn. repeat split; auto; lia.
  - exists [], []. cbn. repeat split; auto; lia.
  - destruct (a_in s) as [|b r] eqn:E.
    + exists [], []. cbn. rewrite E. repeat split; auto; lia.
    + destruct (IH b (mkAst r (a_pos s + 1) (a_out s) (a_len s))) as [o [c [H1 [H2 H3]]]].
      cbn [a_out a_in a_pos a_len] in *.
      exists o, (b :: c). rewrite H1, H3. repeat split; auto.
      * cbn [app]. f_equal. exact H2.
      * cbn [length]. lia.
  - destruct (Nat.leb _ _) eqn:E.
    + match goal with |- context[run (k ?v) ?s'] =>
        destruct (IH v s') as [o [c [H1 [H2 H3]]]] end.
      cbn [a_out a_in a_pos a_len] in *.
      set (n := N.to_nat (pad_count (a_pos s))) in *.
      exists o, (firstn n (a_in s) ++ c). rewrite H1, H3. repeat split; auto.
      * rewrite <- app_assoc, <- H2. symmetry; apply firstn_skipn.
      * rewrite app_length, firstn_length. apply Nat.leb_le in E. lia.
    + exists [], []. cbn. repeat split; auto; lia.
  - apply IH.
  - apply IH.
  - destruct (IH (mkAst (a_in s) (a_pos s) (b :: a_out s) (a_len s + 1))) as [o [c [H1 [H2 H3]]]].
    cbn [a_out a_in a_pos a_len] in *.
    exists (o ++ [b]), c. rewrite H1, H3, <- app_assoc. repeat split; auto.
  - destruct (_ && _).
    + destruct (copy_chunks_app (S (N.to_nat l)) (N.to_nat l) (N.to_nat d) (a_out s)) as [oc Hc].
      rewrite Hc.
      match goal with |- context[run k ?s'] =>
        destruct (IH s') as [o [c [H1 [H2 H3]]]] end.
      cbn [a_out a_in a_pos a_len] in *.
      exists (o ++ oc), c. rewrite H1, H3, <- app_assoc. repeat split; auto.
    + exists [], []. cbn. repeat split; auto; lia.
  - apply IH.
  - apply IH.
  - apply IH.
Qed.

Lemma run_wf {A} (p : prog A) s : wf_ast s -> wf_ast (res_state (run p s)).
Proof.
  unfold wf_ast.
  revert s; induction p as [a|e|k IH|k IH|k IH|k IH|b k IH|d l k IH|k IH|d k IH|k IH];
    intros s H; cbn [run]; auto.
  - destruct (a_in s); auto.
  - destruct (Nat.leb _ _); auto.
  - apply IH. cbn [a_len a_out length]. lia.
  - destruct (_ && _) eqn:E; auto.
    apply IH. cbn [a_len a_out].
    apply andb_true_iff in E as [E1 E2].
    apply N.ltb_lt in E1. apply N.leb_le in E2.
    rewrite copy_chunks_length; lia.
Qed.

(* ---- G2: locality --------------------------------------------------- *)

Inductive eof_free {A} : prog A -> Prop :=
| ef_ret a : eof_free (Ret a)
| ef_throw e : eof_free (Throw e)
| ef_bit k : (forall b, eof_free (k b)) -> eof_free (Bit k)
| ef_align k : (forall v, eof_free (k v)) -> eof_free (AlignP k)
| ef_pos k : (forall v, eof_free (k v)) -> eof_free (Pos k)
| ef_put b k : eof_free k -> eof_free (Put b k)
| ef_copy d l k : eof_free k -> eof_free (Copy d l k)
| ef_hist k : (forall v, eof_free (k v)) -> eof_free (Hist k)
| ef_histb d k : (forall v, eof_free (k v)) -> eof_free (HistB d k)
| ef_yield k : eof_free k -> eof_free (Yield k).

Lemma eof_free_bind {A B} (p : prog A) (f : A -> prog B) :
  eof_free p -> (forall a, eof_free (f a)) -> eof_free (bind p f).
Proof.
  intros Hp Hf; induction Hp; cbn [bind]; try constructor; auto.
Qed.

Lemma eof_free_iter2 {S R} d (body : S -> prog (S + R)) s :
  (forall s, eof_free (body s)) -> eof_free (iter2 d body s).
Proof.
  intros Hb; revert s; induction d as [|d IH]; intros s; cbn [iter2]; auto.
  apply eof_free_bind; auto. intros [s'|r]; auto. constructor.
Qed.

Lemma eof_free_loop {S R} d (body : S -> prog (S + R)) s :
  (forall s, eof_free (body s)) -> eof_free (loop d body s).
Proof.
  intros Hb. unfold loop. apply eof_free_bind.
  - apply eof_free_iter2; auto.
  - intros [s'|r]; constructor.
Qed.

Lemma eof_free_bits_lsbf n : eof_free (bits_lsbf n).
Proof.
  induction n as [|n IH]; cbn [bits_lsbf]; constructor.
  intros b. apply eof_free_bind; auto. intros; constructor.
Qed.

Lemma eof_free_bits_msbf_acc n acc : eof_free (bits_msbf_acc n acc).
Proof. revert acc; induction n as [|n IH]; intros; cbn [bits_msbf_acc]; constructor; auto. Qed.

Lemma eof_free_put_all l : eof_free (put_all l).
Proof. induction l; cbn; constructor; auto. Qed.

Lemma eof_free_assert c e : eof_free (assert_p c e).
Proof. unfold assert_p; destruct c; constructor. Qed.

Lemma eof_free_sym_walk m cs acc : eof_free (sym_walk m cs acc).
Proof.
  revert acc; induction m as [|m IH]; intros acc; cbn [sym_walk];
    destruct (lookup_code cs acc); try constructor.
  destruct (any_extends cs acc); constructor; auto.
Qed.

Definition ext (s : ast) (t : list bool) : ast :=
  mkAst (a_in s ++ t) (a_pos s) (a_out s) (a_len s).

Definition ext_result {A} (r : result A) (t : list bool) : result A :=
  match r with
  | Done a s => Done a (ext s t)
  | Fail e s => Fail e (ext s t)
  end.

(* The outcome of a run that did not hit the end of its source is unchanged
   when more bits are appended to the source, and leaves exactly those bits
   (plus whatever it had left) unread. *)
Theorem run_extend {A} (p : prog A) s t :
  eof_free p ->
  res_err (run p s) <> Some EUEOF ->
  run p (ext s t) = ext_result (run p s) t.
Proof.
  intros Hp; revert s; induction Hp as
    [a|e|k Hk IH|k Hk IH|k Hk IH|b k Hk IH|d l k Hk IH|k Hk IH|d k Hk IH|k Hk IH];
    intros s Hne; cbn [run ext a_in a_pos a_out a_len] in *.
  - reflexivity.
  - reflexivity.
  - destruct (a_in s) as [|b r] eqn:E; cbn [app].
    + exfalso; apply Hne; reflexivity.
    + specialize (IH b (mkAst r (a_pos s + 1) (a_out s) (a_len s)) Hne).
      unfold ext in IH; cbn [a_in a_pos a_out a_len] in IH. exact IH.
  - set (n := N.to_nat (pad_count (a_pos s))) in *.
    destruct (Nat.leb n (length (a_in s))) eqn:E.
    + apply Nat.leb_le in E.
      assert (E' : Nat.leb n (length (a_in s ++ t)) = true).
      { apply Nat.leb_le. rewrite app_length. lia. }
      rewrite E'.
      rewrite firstn_app, skipn_app.
      replace (n - length (a_in s))%nat with O by lia.
      cbn [firstn skipn]. rewrite app_nil_r.
      match goal with |- context[run (k ?v) ?s'] =>
        match type of Hne with context[run (k v) ?s0] =>
          specialize (IH v s0 Hne) end end.
      unfold ext in IH; cbn [a_in a_pos a_out a_len] in IH. exact IH.
    + exfalso; apply Hne; reflexivity.
  - apply (IH _ s Hne).
  - specialize (IH (mkAst (a_in s) (a_pos s) (b :: a_out s) (a_len s + 1)) Hne).
    exact IH.
  - destruct (_ && _); auto.
    match type of Hne with context[run k ?s0] => specialize (IH s0 Hne) end. exact IH.
  - apply (IH _ s Hne).
  - apply (IH _ s Hne).
  - apply (IH s Hne).
Qed.

(* On a source that ran dry the decoder stops with EUEOF; with more bits
   appended it can only continue: what it had produced stays a prefix. *)
Theorem run_extend_ueof {A} (p : prog A) s t :
  eof_free p ->
  res_err (run p s) = Some EUEOF ->
  exists o, a_out (res_state (run p (ext s t))) = o ++ a_out (res_state (run p s)).
Proof.
  intros Hp; revert s; induction Hp as
    [a|e|k Hk IH|k Hk IH|k Hk IH|b k Hk IH|d l k Hk IH|k Hk IH|d k Hk IH|k Hk IH];
    intros s Hu; cbn [run ext a_in a_pos a_out a_len] in *.
  - discriminate.
  - exists []; reflexivity.
  - destruct (a_in s) as [|b r] eqn:E; cbn [app].
    + cbn [res_state a_out].
      destruct t as [|b t'].
      * exists []; reflexivity.
      * destruct (run_mono (k b) (mkAst t' (a_pos s + 1) (a_out s) (a_len s)))
          as [o [c [H1 _]]]. exists o. exact H1.
    + specialize (IH b (mkAst r (a_pos s + 1) (a_out s) (a_len s)) Hu).
      unfold ext in IH; cbn [a_in a_pos a_out a_len] in IH. exact IH.
  - set (n := N.to_nat (pad_count (a_pos s))) in *.
    destruct (Nat.leb n (length (a_in s))) eqn:E.
    + apply Nat.leb_le in E.
      assert (E' : Nat.leb n (length (a_in s ++ t)) = true).
      { apply Nat.leb_le. rewrite app_length. lia. }
      rewrite E'.
      rewrite firstn_app, skipn_app.
      replace (n - length (a_in s))%nat with O by lia.
      cbn [firstn skipn]. rewrite app_nil_r.
      match goal with |- context[run (k ?v) ?s'] =>
        match type of Hu with context[run (k v) ?s0] =>
          specialize (IH v s0 Hu) end end.
      unfold ext in IH; cbn [a_in a_pos a_out a_len] in IH. exact IH.
    + cbn [res_state a_out].
      destruct (Nat.leb n (length (a_in s ++ t))).
      * match goal with |- context[run (k ?v) ?s'] =>
          destruct (run_mono (k v) s') as [o [c [H1 _]]] end.
        exists o. exact H1.
      * exists []; reflexivity.
  - apply (IH _ s Hu).
  - specialize (IH (mkAst (a_in s) (a_pos s) (b :: a_out s) (a_len s + 1)) Hu). exact IH.
  - destruct (_ && _).
    + match type of Hu with context[run k ?s0] => specialize (IH s0 Hu) end. exact IH.
    + discriminate.
  - apply (IH _ s Hu).
  - apply (IH _ s Hu).
  - apply (IH s Hu).
Qed.

(* ---- byte-level corollaries ----------------------------------------- *)

Section ByteLevel.
  Variable tobits : byte -> list bool.
  Hypothesis tobits_len : forall b, length (tobits b) = 8%nat.

  Definition bits_of (l : list byte) : list bool := flat_map tobits l.

  Lemma bits_of_app a b : bits_of (a ++ b) = bits_of a ++ bits_of b.
  Proof. unfold bits_of. apply flat_map_app. Qed.

  Lemma bits_of_length l : length (bits_of l) = (8 * length l)%nat.
  Proof.
    induction l as [|b l IH]; cbn [bits_of flat_map length]; auto.
    rewrite app_length, tobits_len. unfold bits_of in IH. rewrite IH. lia.
  Qed.

  Definition decode {A} (p : prog A) (input : list byte) : result A :=
    run p (ast_init (bits_of input)).

  (* bytes of the source a run has touched *)
  Definition used_bytes {A} (r : result A) : N := (res_pos r + 7) / 8.

  (* C11/C09: a run that did not end in EUEOF is unaffected by trailing bytes *)
  Theorem decode_trailing {A} (p : prog A) input trailer :
    eof_free p ->
    res_err (decode p input) <> Some EUEOF ->
    res_err (decode p (input ++ trailer)) = res_err (decode p input) /\
    res_out (decode p (input ++ trailer)) = res_out (decode p input) /\
    res_pos (decode p (input ++ trailer)) = res_pos (decode p input).
  Proof.
    intros Hp Hne. unfold decode in *.
    rewrite bits_of_app.
    change (ast_init (bits_of input ++ bits_of trailer))
      with (ext (ast_init (bits_of input)) (bits_of trailer)).
    rewrite (run_extend p _ _ Hp Hne).
    destruct (run p (ast_init (bits_of input))); cbn; auto.
  Qed.

  (* C09/C12: every cut of a stream whose complete decode touched its last
     byte ends in exactly EUEOF, and what was delivered is a prefix. *)
  Theorem decode_truncated {A} (p : prog A) input cut rest :
    eof_free p ->
    input = cut ++ rest ->
    res_err (decode p input) <> Some EUEOF ->
    (8 * N.of_nat (length cut) < res_pos (decode p input)) ->
    res_err (decode p cut) = Some EUEOF /\
    prefix_of (res_out (decode p cut)) (res_out (decode p input)).
  Proof.
    intros Hp -> Hne Hpos.
    destruct (res_err (decode p cut)) as [e|] eqn:Ec.
    - destruct (err_eqb e EUEOF) eqn:Ee.
      + apply err_eqb_eq in Ee; subst e. split; auto.
        unfold decode in *. rewrite bits_of_app.
        change (ast_init (bits_of cut ++ bits_of rest))
          with (ext (ast_init (bits_of cut)) (bits_of rest)).
        destruct (run_extend_ueof p (ast_init (bits_of cut)) (bits_of rest) Hp Ec) as [o Ho].
        unfold res_out. rewrite !fast_rev_eq, Ho, rev_app_distr. apply prefix_of_app.
      + exfalso.
        assert (Hne' : res_err (decode p cut) <> Some EUEOF).
        { rewrite Ec. intros H; inversion H; subst.
          rewrite (proj2 (err_eqb_eq EUEOF EUEOF) eq_refl) in Ee. discriminate. }
        destruct (decode_trailing p cut rest Hp Hne') as [_ [_ Hp3]].
        rewrite Hp3 in Hpos.
        unfold decode, res_pos in Hpos.
        destruct (run_mono p (ast_init (bits_of cut))) as [o [c [_ [H2 H3]]]].
        cbn [ast_init a_in a_pos] in H2, H3.
        assert (length c <= length (bits_of cut))%nat.
        { rewrite H2, app_length. lia. }
        rewrite bits_of_length in H. lia.
    - exfalso.
      assert (Hne' : res_err (decode p cut) <> Some EUEOF) by (rewrite Ec; discriminate).
      destruct (decode_trailing p cut rest Hp Hne') as [_ [_ Hp3]].
      rewrite Hp3 in Hpos.
      unfold decode, res_pos in Hpos.
      destruct (run_mono p (ast_init (bits_of cut))) as [o [c [_ [H2 H3]]]].
      cbn [ast_init a_in a_pos] in H2, H3.
      assert (length c <= length (bits_of cut))%nat.
      { rewrite H2, app_length. lia. }
      rewrite bits_of_length in H. lia.
  Qed.
End ByteLevel.

Lemma bits_lsb_len b : length (bits_lsb b) = 8%nat.
Proof. reflexivity. Qed.
Lemma bits_msb_len b : length (bits_msb b) = 8%nat.
Proof. reflexivity. Qed.
