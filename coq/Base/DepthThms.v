(* Loop budgets are monotone: a run of [loop d body] that does not end in the
   budget failure [Fail EFuel] is reproduced unchanged by every larger budget, also
   when the body itself contains loops whose budget grows at the same time.

   [fuel_le p q] : "q is p with budgets that are at least as large": on every state on
   which p does not end in [Fail EFuel], q gives exactly p's result. The relation is a
   congruence for [bind] and every request, and [loop]/[iter2] are monotone in their
   depth. Second part: a budget-free big-step reading of [loop] ([loops]), used to
   unroll iterations without counting them. *)
From V Require Import Base.Prelude Base.Prog Base.ProgThms.

Definition is_efuel {A} (r : result A) : Prop :=
  match r with Fail EFuel _ => True | _ => False end.

Definition fuel_le {A} (p q : prog A) : Prop :=
  forall s, ~ is_efuel (run p s) -> run q s = run p s.

Lemma fuel_le_refl {A} (p : prog A) : fuel_le p p.
Proof. intros s _. reflexivity. Qed.

Lemma fuel_le_trans {A} (p q r : prog A) : fuel_le p q -> fuel_le q r -> fuel_le p r.
Proof.
  intros H1 H2 s Hs. pose proof (H1 s Hs) as E1.
  rewrite <- E1. apply H2. rewrite E1. exact Hs.
Qed.

Lemma fuel_le_bind {A B} (p q : prog A) (f g : A -> prog B) :
  fuel_le p q -> (forall a, fuel_le (f a) (g a)) -> fuel_le (bind p f) (bind q g).
Proof.
  intros Hp Hf s Hs. rewrite !run_bind in *.
  assert (Hps : ~ is_efuel (run p s)).
  { intros C. apply Hs. destruct (run p s) as [a s1|e s1]; [destruct C|]. exact C. }
  rewrite (Hp s Hps).
  destruct (run p s) as [a s1|e s1]; [|reflexivity].
  apply Hf. exact Hs.
Qed.

Lemma fuel_le_bit {A} (k k' : bool -> prog A) :
  (forall b, fuel_le (k b) (k' b)) -> fuel_le (Bit k) (Bit k').
Proof.
  intros Hk s Hs. cbn [run] in *. destruct (a_in s) as [|b r]; [reflexivity|].
  apply Hk. exact Hs.
Qed.

Lemma fuel_le_align {A} (k k' : N -> prog A) :
  (forall v, fuel_le (k v) (k' v)) -> fuel_le (AlignP k) (AlignP k').
Proof.
  intros Hk s Hs. cbn [run] in *. destruct (Nat.leb _ _); [|reflexivity].
  apply Hk. exact Hs.
Qed.

Lemma fuel_le_iseof {A} (k k' : bool -> prog A) :
  (forall b, fuel_le (k b) (k' b)) -> fuel_le (IsEof k) (IsEof k').
Proof. intros Hk s Hs. cbn [run] in *. apply Hk. exact Hs. Qed.

Lemma fuel_le_pos {A} (k k' : N -> prog A) :
  (forall v, fuel_le (k v) (k' v)) -> fuel_le (Pos k) (Pos k').
Proof. intros Hk s Hs. cbn [run] in *. apply Hk. exact Hs. Qed.

Lemma fuel_le_hist {A} (k k' : N -> prog A) :
  (forall v, fuel_le (k v) (k' v)) -> fuel_le (Hist k) (Hist k').
Proof. intros Hk s Hs. cbn [run] in *. apply Hk. exact Hs. Qed.

Lemma fuel_le_histb {A} d (k k' : byte -> prog A) :
  (forall v, fuel_le (k v) (k' v)) -> fuel_le (HistB d k) (HistB d k').
Proof. intros Hk s Hs. cbn [run] in *. apply Hk. exact Hs. Qed.

Lemma fuel_le_put {A} b (k k' : prog A) : fuel_le k k' -> fuel_le (Put b k) (Put b k').
Proof. intros Hk s Hs. cbn [run] in *. apply Hk. exact Hs. Qed.

Lemma fuel_le_yield {A} (k k' : prog A) : fuel_le k k' -> fuel_le (Yield k) (Yield k').
Proof. intros Hk s Hs. cbn [run] in *. apply Hk. exact Hs. Qed.

Lemma fuel_le_copy {A} d l (k k' : prog A) : fuel_le k k' -> fuel_le (Copy d l k) (Copy d l k').
Proof.
  intros Hk s Hs. cbn [run] in *. destruct (_ && _); [|reflexivity].
  apply Hk. exact Hs.
Qed.

(* ---- iter2 / loop ------------------------------------------------------------------ *)

(* same depth, larger budgets inside the body *)
Lemma fuel_le_iter2_body {St R} d (b1 b2 : St -> prog (St + R)) :
  (forall st, fuel_le (b1 st) (b2 st)) ->
  forall st, fuel_le (iter2 d b1 st) (iter2 d b2 st).
Proof.
  intros Hb. induction d as [|d IH]; intros st; cbn [iter2]; [apply Hb|].
  apply fuel_le_bind; [apply IH|].
  intros [st1|x]; [apply IH | apply fuel_le_refl].
Qed.

(* same body, one more level: a finished iteration (result or failure) stays *)
Lemma iter2_succ_done {St R} d (body : St -> prog (St + R)) st s x s' :
  run (iter2 d body st) s = Done (inr x) s' ->
  run (iter2 (S d) body st) s = Done (inr x) s'.
Proof. intros H. cbn [iter2]. rewrite run_bind, H. reflexivity. Qed.

Lemma iter2_succ_fail {St R} d (body : St -> prog (St + R)) st s e s' :
  run (iter2 d body st) s = Fail e s' ->
  run (iter2 (S d) body st) s = Fail e s'.
Proof. intros H. cbn [iter2]. rewrite run_bind, H. reflexivity. Qed.

Lemma iter2_add_done {St R} k d (body : St -> prog (St + R)) st s x s' :
  run (iter2 d body st) s = Done (inr x) s' ->
  run (iter2 (k + d) body st) s = Done (inr x) s'.
Proof.
  intros H. induction k as [|k IH]; [exact H|].
  change (S k + d)%nat with (S (k + d)). apply iter2_succ_done. exact IH.
Qed.

Lemma iter2_add_fail {St R} k d (body : St -> prog (St + R)) st s e s' :
  run (iter2 d body st) s = Fail e s' ->
  run (iter2 (k + d) body st) s = Fail e s'.
Proof.
  intros H. induction k as [|k IH]; [exact H|].
  change (S k + d)%nat with (S (k + d)). apply iter2_succ_fail. exact IH.
Qed.

(* the generic budget monotonicity, same body *)
Theorem loop_depth_mono {St R} d d' (body : St -> prog (St + R)) st :
  (d <= d')%nat -> fuel_le (loop d body st) (loop d' body st).
Proof.
  intros Hd s Hs. replace d' with ((d' - d) + d)%nat by lia.
  unfold loop in *. rewrite !run_bind in *.
  destruct (run (iter2 d body st) s) as [[st1|x] s1|e s1] eqn:E.
  - exfalso. apply Hs. exact I.
  - rewrite (iter2_add_done _ _ _ _ _ _ _ E). reflexivity.
  - rewrite (iter2_add_fail _ _ _ _ _ _ _ E). reflexivity.
Qed.

(* in the form of the task statement *)
Corollary loop_depth_mono_run {St R} d d' (body : St -> prog (St + R)) st s r :
  (d <= d')%nat -> run (loop d body st) s = r -> ~ is_efuel r -> run (loop d' body st) s = r.
Proof. intros Hd Hr Hne. subst r. apply (loop_depth_mono d d' body st Hd s Hne). Qed.

(* body budgets and loop depth grow together *)
Theorem fuel_le_loop {St R} d d' (b1 b2 : St -> prog (St + R)) st :
  (forall st, fuel_le (b1 st) (b2 st)) -> (d <= d')%nat ->
  fuel_le (loop d b1 st) (loop d' b2 st).
Proof.
  intros Hb Hd. apply (fuel_le_trans _ (loop d b2 st)).
  - unfold loop. apply fuel_le_bind; [apply fuel_le_iter2_body; exact Hb|].
    intros r. apply fuel_le_refl.
  - apply loop_depth_mono. exact Hd.
Qed.

(* ---- budget-free reading of a loop -------------------------------------------------- *)
(* [loops body st s r]: iterating [body] from loop state [st] and machine state [s]
   ends with [r] (a result of the loop, or the first failure of the body) *)
Inductive loops {St R} (body : St -> prog (St + R)) : St -> ast -> result R -> Prop :=
| loops_fail st s e s' : run (body st) s = Fail e s' -> loops body st s (Fail e s')
| loops_done st s x s' : run (body st) s = Done (inr x) s' -> loops body st s (Done x s')
| loops_step st s st1 s1 r :
    run (body st) s = Done (inl st1) s1 -> loops body st1 s1 r -> loops body st s r.

Lemma loops_det {St R} (body : St -> prog (St + R)) st s r1 r2 :
  loops body st s r1 -> loops body st s r2 -> r1 = r2.
Proof.
  intros H1. revert r2. induction H1 as [st s e s' E|st s x s' E|st s st1 s1 r E H IH];
    intros r2 H2; inversion H2; subst;
    match goal with
    | Ha : run (body st) s = _, Hb : run (body st) s = _ |- _ => rewrite Ha in Hb; inversion Hb; subst
    end; try reflexivity.
  apply IH. assumption.
Qed.

(* what a (partial) iter2 run means for [loops] *)
Lemma iter2_loops {St R} d (body : St -> prog (St + R)) : forall st s,
  match run (iter2 d body st) s with
  | Done (inr x) s' => loops body st s (Done x s')
  | Fail e s' => loops body st s (Fail e s')
  | Done (inl st') s' => forall r, loops body st' s' r -> loops body st s r
  end.
Proof.
  induction d as [|d IH]; intros st s; cbn [iter2].
  - destruct (run (body st) s) as [[st1|x] s1|e s1] eqn:E.
    + intros r Hr. eapply loops_step; eauto.
    + apply loops_done; exact E.
    + apply loops_fail; exact E.
  - rewrite run_bind. pose proof (IH st s) as H1.
    destruct (run (iter2 d body st) s) as [[st1|x] s1|e s1] eqn:E1.
    + pose proof (IH st1 s1) as H2.
      destruct (run (iter2 d body st1) s1) as [[st2|x] s2|e s2] eqn:E2.
      * intros r Hr. apply H1. apply H2. exact Hr.
      * apply H1. exact H2.
      * apply H1. exact H2.
    + cbn [run]. exact H1.
    + exact H1.
Qed.

(* a loop run within its budget is a [loops] derivation *)
Theorem loop_loops {St R} d (body : St -> prog (St + R)) st s :
  ~ is_efuel (run (loop d body st) s) -> loops body st s (run (loop d body st) s).
Proof.
  unfold loop. rewrite run_bind. intros Hs. pose proof (iter2_loops d body st s) as H.
  destruct (run (iter2 d body st) s) as [[st1|x] s1|e s1] eqn:E.
  - exfalso. apply Hs. exact I.
  - exact H.
  - exact H.
Qed.

(* and conversely determines every in-budget run of the loop *)
Corollary loops_loop {St R} d (body : St -> prog (St + R)) st s r :
  loops body st s r -> ~ is_efuel (run (loop d body st) s) -> run (loop d body st) s = r.
Proof. intros H Hs. eapply loops_det; [apply loop_loops; exact Hs | exact H]. Qed.

(* non-vacuity: a counting loop that needs 5 iterations fails with budget 2^2, succeeds
   with 2^3 and then with every larger budget *)
Example loop_depth_mono_ex :
  let body := fun n : N => if n <? 5 then Bit (fun _ => Ret (inl (n + 1))) else Ret (inr n) in
  let s := ast_init [true; true; true; true; true; true] in
  is_efuel (run (loop 2 body 0) s) /\
  run (loop 3 body 0) s = Done 5 (mkAst [true] 5 [] 0) /\
  forall d', (3 <= d')%nat -> run (loop d' body 0) s = Done 5 (mkAst [true] 5 [] 0).
Proof.
  intros body s. split; [vm_compute; exact I|]. split; [vm_compute; reflexivity|].
  intros d' Hd. apply (loop_depth_mono_run 3 d' body 0 s _ Hd); [vm_compute; reflexivity|].
  intros C; exact C.
Qed.

Print Assumptions loop_depth_mono_run.
Print Assumptions fuel_le_loop.
Print Assumptions loop_loops.
Print Assumptions loops_loop.
