(* Prelude: numbers, bytes, bits, error classes shared by all models. *)
From Coq Require Export List NArith ZArith Bool Lia.
From Coq Require Import ZifyBool ZifyN ZifyNat.
Export ListNotations.
Open Scope N_scope.

Ltac Zify.zify_post_hook ::= Z.div_mod_to_equations.

(* A byte is an N below 256; models never rely on the bound implicitly:
   every place that needs it carries [byte_ok]. *)
Notation byte := N (only parsing).
Definition byte_ok (b : byte) : Prop := b < 256.
Definition bytes_ok (l : list byte) : Prop := Forall byte_ok l.

(* Error classes as the public API exposes them (internal/errors codes +
   the two io sentinels + verbatim source errors). *)
Inductive err : Type :=
| EEOF                 (* io.EOF: clean end *)
| EUEOF                (* io.ErrUnexpectedEOF *)
| ECorrupted
| EDeprecated
| EInvalid
| EInternal
| EClosed
| EClosedPipe          (* brotli's closed marker *)
| ESrc (tag : N)       (* error returned by the underlying reader/writer, verbatim *)
| EPanic               (* a non-errWrap Go panic: index out of range, nil deref ... *)
| EFuel.               (* model loop budget exhausted; excluded by theorems *)

Definition err_eqb (a b : err) : bool :=
  match a, b with
  | EEOF, EEOF | EUEOF, EUEOF | ECorrupted, ECorrupted | EDeprecated, EDeprecated
  | EInvalid, EInvalid | EInternal, EInternal | EClosed, EClosed
  | EClosedPipe, EClosedPipe | EPanic, EPanic | EFuel, EFuel => true
  | ESrc x, ESrc y => N.eqb x y
  | _, _ => false
  end.

Lemma err_eqb_eq a b : err_eqb a b = true <-> a = b.
Proof.
  destruct a, b; simpl; split; intros H; try reflexivity; try discriminate;
    try (apply N.eqb_eq in H; subst; reflexivity).
  inversion H; apply N.eqb_refl.
Qed.

(* Bits of a byte, least-significant first (DEFLATE, Brotli, meta) and
   most-significant first (bzip2). *)
Definition bits_lsb (b : byte) : list bool :=
  [N.testbit b 0; N.testbit b 1; N.testbit b 2; N.testbit b 3;
   N.testbit b 4; N.testbit b 5; N.testbit b 6; N.testbit b 7].
Definition bits_msb (b : byte) : list bool := rev (bits_lsb b).

Definition bytes_to_bits (l : list byte) : list bool := flat_map bits_lsb l.
Definition bytes_to_bits_msb (l : list byte) : list bool := flat_map bits_msb l.

(* value of a bit list, first element = least significant *)
Fixpoint bits_val (l : list bool) : N :=
  match l with
  | [] => 0
  | b :: r => N.b2n b + 2 * bits_val r
  end.

(* n low bits of v, LSB first *)
Fixpoint val_bits (n : nat) (v : N) : list bool :=
  match n with
  | O => []
  | S n' => N.odd v :: val_bits n' (N.div2 v)
  end.

Lemma val_bits_length n v : length (val_bits n v) = n.
Proof. revert v; induction n; simpl; intros; auto. Qed.

Lemma bits_val_val_bits n v : bits_val (val_bits n v) = v mod 2 ^ N.of_nat n.
Proof.
  revert v; induction n as [|n IH]; intros v.
  - simpl. rewrite N.mod_1_r. reflexivity.
  - cbn [val_bits bits_val]. rewrite IH.
    rewrite Nat2N.inj_succ, N.pow_succ_r'.
    rewrite N.div2_div.
    assert (H2 : 2 ^ N.of_nat n <> 0) by (apply N.pow_nonzero; lia).
    rewrite N.mod_mul_r by lia.
    rewrite <- N.bit0_odd, N.bit0_mod. reflexivity.
Qed.

Lemma bits_val_bound l : bits_val l < 2 ^ N.of_nat (length l).
Proof.
  induction l as [|b r IH]; simpl length.
  - simpl. lia.
  - cbn [bits_val]. rewrite Nat2N.inj_succ, N.pow_succ_r'.
    destruct b; simpl N.b2n; lia.
Qed.

Lemma val_bits_bits_val l : val_bits (length l) (bits_val l) = l.
Proof.
  induction l as [|b r IH]; cbn [length val_bits bits_val]; auto.
  assert (Ho : N.odd (N.b2n b + 2 * bits_val r) = b).
  { rewrite N.odd_add_mul_2. destruct b; reflexivity. }
  assert (H : N.div2 (N.b2n b + 2 * bits_val r) = bits_val r).
  { rewrite N.div2_div. destruct b; cbn [N.b2n].
    - replace (1 + 2 * bits_val r) with (1 + bits_val r * 2) by lia.
      rewrite N.div_add by lia. reflexivity.
    - rewrite N.add_0_l, N.mul_comm, N.div_mul by lia. reflexivity. }
  rewrite Ho, H, IH. reflexivity.
Qed.

(* packing a bit list (LSB first) back into bytes, zero padding the tail *)
Fixpoint bits_to_bytes_fuel (fuel : nat) (l : list bool) : list byte :=
  match fuel with
  | O => []
  | S f =>
    match l with
    | [] => []
    | _ => bits_val (firstn 8 l) :: bits_to_bytes_fuel f (skipn 8 l)
    end
  end.
Definition bits_to_bytes (l : list bool) : list byte :=
  bits_to_bytes_fuel (S (length l)) l.

(* linear-time reverse for executable paths (stdlib [rev] is quadratic) *)
Definition fast_rev {A} (l : list A) : list A := rev_append l [].
Lemma fast_rev_eq {A} (l : list A) : fast_rev l = rev l.
Proof. unfold fast_rev. symmetry. apply rev_alt. Qed.

Lemma skipn_skipn' {A} (a b : nat) (l : list A) : skipn a (skipn b l) = skipn (b + a) l.
Proof.
  revert l; induction b as [|b IH]; intros l; cbn [skipn Nat.add]; [reflexivity|].
  destruct l as [|x l]; [destruct a; reflexivity | apply IH].
Qed.

Lemma firstn_plus {A} (a m : nat) (l : list A) :
  firstn (a + m) l = firstn a l ++ firstn m (skipn a l).
Proof.
  revert l; induction a as [|a IH]; intros l; cbn [Nat.add firstn skipn app]; [reflexivity|].
  destruct l as [|x l]; [destruct m; reflexivity|]. cbn [app]. f_equal. apply IH.
Qed.

Lemma firstn_min {A} (n : nat) (l : list A) : firstn n l = firstn (Nat.min n (length l)) l.
Proof.
  destruct (Nat.le_ge_cases n (length l)) as [H|H].
  - rewrite Nat.min_l by exact H. reflexivity.
  - rewrite Nat.min_r by exact H. rewrite !firstn_all2; [reflexivity | lia | lia].
Qed.

Definition opt_bind {A B} (o : option A) (f : A -> option B) : option B :=
  match o with Some a => f a | None => None end.

Fixpoint list_eqb {A} (eqb : A -> A -> bool) (a b : list A) : bool :=
  match a, b with
  | [], [] => true
  | x :: a', y :: b' => eqb x y && list_eqb eqb a' b'
  | _, _ => false
  end.

Lemma list_eqb_N_eq a b : list_eqb N.eqb a b = true <-> a = b.
Proof.
  revert b; induction a as [|x a IH]; destruct b as [|y b]; simpl; split; intros H;
    try reflexivity; try discriminate.
  - apply andb_true_iff in H as [H1 H2]. apply N.eqb_eq in H1. apply IH in H2. subst; auto.
  - inversion H; subst. rewrite N.eqb_refl. simpl. apply IH. reflexivity.
Qed.

(* is [a] a prefix of [b] *)
Definition prefix_of {A} (a b : list A) : Prop := exists t, b = a ++ t.

Lemma prefix_of_refl {A} (a : list A) : prefix_of a a.
Proof. exists []. rewrite app_nil_r. reflexivity. Qed.

Lemma prefix_of_trans {A} (a b c : list A) : prefix_of a b -> prefix_of b c -> prefix_of a c.
Proof. intros [t Ht] [u Hu]. exists (t ++ u). subst. rewrite app_assoc. reflexivity. Qed.

Lemma prefix_of_app {A} (a t : list A) : prefix_of a (a ++ t).
Proof. exists t; reflexivity. Qed.
