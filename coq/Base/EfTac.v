(* A tactic that proves [eof_free p] for programs built from the derived
   requests by bind / loop / if / match. *)
From V Require Import Base.Prelude Base.Prog Base.ProgThms.

Lemma eof_free_rbits n : eof_free (bits_lsbf n).
Proof. apply eof_free_bits_lsbf. Qed.

Ltac ef_step :=
  first
  [ assumption
  | apply eof_free_bits_lsbf
  | apply eof_free_bits_msbf_acc
  | apply eof_free_assert
  | apply eof_free_put_all
  | apply eof_free_loop; intros
  | apply eof_free_iter2; intros
  | apply eof_free_bind; [| intros ]
  | match goal with |- eof_free (if ?c then _ else _) => destruct c end
  | match goal with |- eof_free (match ?x with _ => _ end) => destruct x end
  | match goal with |- eof_free (let '(_, _) := ?x in _) => destruct x end
  | constructor; intros ].

Ltac ef := repeat ef_step.
