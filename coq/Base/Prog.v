(* Decoders as data: finite trees of requests against a bit source and an
   output history.  A decoder written as a [prog] cannot observe its source
   except through these constructors; the generic theorems of Base/ProgThms.v
   are proved once, by induction on this type, for every decoder. *)
From V Require Import Base.Prelude.

Inductive prog (A : Type) : Type :=
| Ret    (a : A)
| Throw  (e : err)                         (* errors.Panic(e) / return e        *)
| Bit    (k : bool -> prog A)              (* next bit of the source            *)
| AlignP (k : N -> prog A)                 (* ReadPads: skip to byte boundary,
                                              returns the value of the pads     *)
| IsEof  (k : bool -> prog A)              (* "is the source exhausted here?"
                                              (meta first bit, bzip2 next stream) *)
| Pos    (k : N -> prog A)                 (* bits consumed so far (BitsRead)   *)
| Put    (b : byte) (k : prog A)           (* dict.WriteByte                    *)
| Copy   (dist len : N) (k : prog A)       (* dict.WriteCopy (whole copy)       *)
| Hist   (k : N -> prog A)                 (* bytes produced so far             *)
| HistB  (d : N) (k : byte -> prog A)      (* byte at distance d (1 = last), 0 if none *)
| Yield  (k : prog A).                     (* hand pending output to Read loop  *)

Arguments Ret {A} a.
Arguments Throw {A} e.
Arguments Bit {A} k.
Arguments AlignP {A} k.
Arguments IsEof {A} k.
Arguments Pos {A} k.
Arguments Put {A} b k.
Arguments Copy {A} dist len k.
Arguments Hist {A} k.
Arguments HistB {A} d k.
Arguments Yield {A} k.

Fixpoint bind {A B} (p : prog A) (f : A -> prog B) : prog B :=
  match p with
  | Ret a => f a
  | Throw e => Throw e
  | Bit k => Bit (fun b => bind (k b) f)
  | AlignP k => AlignP (fun v => bind (k v) f)
  | IsEof k => IsEof (fun b => bind (k b) f)
  | Pos k => Pos (fun n => bind (k n) f)
  | Put b k => Put b (bind k f)
  | Copy d l k => Copy d l (bind k f)
  | Hist k => Hist (fun n => bind (k n) f)
  | HistB d k => HistB d (fun b => bind (k b) f)
  | Yield k => Yield (bind k f)
  end.

Declare Scope prog_scope.
Delimit Scope prog_scope with prog.
Notation "x <- p ;; q" := (bind p (fun x => q))
  (at level 61, p at next level, right associativity) : prog_scope.
Notation "p ;;; q" := (bind p (fun _ => q))
  (at level 61, right associativity) : prog_scope.
Open Scope prog_scope.

(* ---- derived requests ------------------------------------------------- *)

(* n bits, first bit read = least significant (ReadBits, LSB-first streams) *)
Fixpoint bits_lsbf (n : nat) : prog N :=
  match n with
  | O => Ret 0
  | S n' => Bit (fun b => v <- bits_lsbf n' ;; Ret (N.b2n b + 2 * v))
  end.

(* n bits, first bit read = most significant (bzip2; brotli never) *)
Fixpoint bits_msbf_acc (n : nat) (acc : N) : prog N :=
  match n with
  | O => Ret acc
  | S n' => Bit (fun b => bits_msbf_acc n' (2 * acc + N.b2n b))
  end.
Definition bits_msbf (n : nat) : prog N := bits_msbf_acc n 0.

Definition put_all (l : list byte) : prog unit :=
  fold_right (fun b k => Put b k) (Ret tt) l.

Definition assert_p (c : bool) (e : err) : prog unit :=
  if c then Ret tt else Throw e.

(* bounded iteration: [iter2 d body s] runs [body] at most 2^d times,
   threading the loop state; [inr r] ends the loop. Depth 62 is beyond any
   input that fits in memory; theorems quantify over every depth and exclude
   the [EFuel] outcome explicitly. *)
Fixpoint iter2 {S R} (d : nat) (body : S -> prog (S + R)) (s : S) : prog (S + R) :=
  match d with
  | O => body s
  | Datatypes.S d' =>
      r <- iter2 d' body s ;;
      match r with
      | inl s' => iter2 d' body s'
      | inr x => Ret (inr x)
      end
  end.

Definition loop {S R} (d : nat) (body : S -> prog (S + R)) (s : S) : prog R :=
  r <- iter2 d body s ;;
  match r with
  | inl _ => Throw EFuel
  | inr x => Ret x
  end.

(* prefix-code symbol decode against an explicit code list: read bits one
   at a time until the accumulated (len, value-as-read) matches an entry.
   [codes] : list of (symbol, length, bits of the code in reading order).
   This is the *meaning* of ReadSymbol; the table walk of the Go code is a
   refinement of it (Prefix/DecTable.v). *)
Definition code := (N * list bool)%type.   (* symbol, code bits in reading order *)

Fixpoint lookup_code (cs : list code) (acc : list bool) : option N :=
  match cs with
  | [] => None
  | (s, bs) :: r => if list_eqb Bool.eqb bs acc then Some s else lookup_code r acc
  end.

(* does any code have acc as a proper prefix? (otherwise: dead end) *)
Fixpoint is_prefix_b (a b : list bool) : bool :=
  match a, b with
  | [], _ => true
  | x :: a', y :: b' => Bool.eqb x y && is_prefix_b a' b'
  | _, [] => false
  end.
Definition any_extends (cs : list code) (acc : list bool) : bool :=
  existsb (fun c => is_prefix_b acc (snd c)) cs.

Fixpoint sym_walk (maxlen : nat) (cs : list code) (acc : list bool) : prog (option N) :=
  match lookup_code cs acc with
  | Some s => Ret (Some s)
  | None =>
    match maxlen with
    | O => Ret None
    | S m =>
      if any_extends cs acc
      then Bit (fun b => sym_walk m cs (acc ++ [b]))
      else Ret None
    end
  end.

(* ---- abstract handler: source = list of bits, output = list of bytes --- *)

Record ast : Type := mkAst {
  a_in  : list bool;      (* unread bits *)
  a_pos : N;              (* bits consumed *)
  a_out : list byte;      (* output so far, most recent first *)
  a_len : N               (* length of a_out *)
}.

Inductive result (A : Type) : Type :=
| Done (a : A) (s : ast)
| Fail (e : err) (s : ast).
Arguments Done {A} a s.
Arguments Fail {A} e s.

Definition ast_init (bits : list bool) : ast := mkAst bits 0 [] 0.

Definition pad_count (pos : N) : N := (8 - pos mod 8) mod 8.

Fixpoint copy_hist (n : nat) (dist : nat) (out : list byte) : list byte :=
  match n with
  | O => out
  | S n' => copy_hist n' dist (nth (dist - 1) out 0 :: out)
  end.

(* the same copy done in chunks of [dist] bytes (one list traversal per
   chunk instead of one per byte); [fuel] bounds the number of chunks *)
Fixpoint copy_chunks (fuel : nat) (n dist : nat) (out : list byte) : list byte :=
  match fuel with
  | O => out
  | S f =>
    if Nat.leb n dist then firstn n (skipn (dist - n) out) ++ out
    else copy_chunks f (n - dist) dist (firstn dist out ++ out)
  end.

Fixpoint run {A} (p : prog A) (s : ast) : result A :=
  match p with
  | Ret a => Done a s
  | Throw e => Fail e s
  | Bit k =>
    match a_in s with
    | [] => Fail EUEOF s
    | b :: r => run (k b) (mkAst r (a_pos s + 1) (a_out s) (a_len s))
    end
  | AlignP k =>
    let n := N.to_nat (pad_count (a_pos s)) in
    if Nat.leb n (length (a_in s))
    then run (k (bits_val (firstn n (a_in s))))
             (mkAst (skipn n (a_in s)) (a_pos s + N.of_nat n) (a_out s) (a_len s))
    else Fail EUEOF s
  | IsEof k => run (k (match a_in s with [] => true | _ => false end)) s
  | Pos k => run (k (a_pos s)) s
  | Put b k => run k (mkAst (a_in s) (a_pos s) (b :: a_out s) (a_len s + 1))
  | Copy d l k =>
    if (0 <? d) && (d <=? a_len s)
    then run k (mkAst (a_in s) (a_pos s)
                      (copy_chunks (S (N.to_nat l)) (N.to_nat l) (N.to_nat d) (a_out s)) (a_len s + l))
    else Fail EPanic s
  | Hist k => run (k (a_len s)) s
  | HistB d k => run (k (if (0 <? d) && (d <=? a_len s)
                         then nth (N.to_nat d - 1) (a_out s) 0 else 0)) s
  | Yield k => run k s
  end.

(* what a caller sees of a whole-stream run *)
Definition res_state {A} (r : result A) : ast :=
  match r with Done _ s => s | Fail _ s => s end.
Definition res_out {A} (r : result A) : list byte := fast_rev (a_out (res_state r)).
Definition res_err {A} (r : result A) : option err :=
  match r with Done _ _ => None | Fail e _ => Some e end.
Definition res_pos {A} (r : result A) : N := a_pos (res_state r).
