(* "Only these errors": a semantic predicate on decoder programs and its
   composition lemmas. [only S p]: from every well-formed state, if [p]
   fails then with an error in [S]. Used to show that the decoder models
   never reach the outcome EPanic (an out-of-range window copy) and end only
   in the error classes the property allows. *)
From V Require Import Base.Prelude Base.Prog Base.ProgThms.

Definition only {A} (S : err -> Prop) (p : prog A) : Prop :=
  forall s, wf_ast s -> match run p s with Fail e _ => S e | Done _ _ => True end.

Section Only.
  Variable S : err -> Prop.

  Lemma only_ret {A} (a : A) : only S (Ret a).
  Proof. intros s _. exact I. Qed.

  Lemma only_throw {A} e : S e -> only S (@Throw A e).
  Proof. intros H s _. exact H. Qed.

  Lemma only_bind {A B} (p : prog A) (f : A -> prog B) :
    only S p -> (forall a, only S (f a)) -> only S (bind p f).
  Proof.
    intros Hp Hf s Hw. rewrite run_bind.
    specialize (Hp s Hw). pose proof (run_wf p s Hw) as Hw'.
    destruct (run p s) as [a s'|e s']; [|exact Hp].
    cbn [res_state] in Hw'. apply Hf. exact Hw'.
  Qed.

  Lemma only_bit {A} (k : bool -> prog A) :
    S EUEOF -> (forall b, only S (k b)) -> only S (Bit k).
  Proof.
    intros Hu Hk s Hw. cbn [run]. destruct (a_in s) as [|b r]; [exact Hu|].
    apply Hk. unfold wf_ast in *. cbn [a_len a_out]. exact Hw.
  Qed.

  Lemma only_align {A} (k : N -> prog A) :
    S EUEOF -> (forall v, only S (k v)) -> only S (AlignP k).
  Proof.
    intros Hu Hk s Hw. cbn [run]. destruct (Nat.leb _ _); [|exact Hu].
    apply Hk. unfold wf_ast in *. cbn [a_len a_out]. exact Hw.
  Qed.

  Lemma only_iseof {A} (k : bool -> prog A) : (forall b, only S (k b)) -> only S (IsEof k).
  Proof. intros Hk s Hw. cbn [run]. apply Hk. exact Hw. Qed.

  Lemma only_pos {A} (k : N -> prog A) : (forall v, only S (k v)) -> only S (Pos k).
  Proof. intros Hk s Hw. cbn [run]. apply Hk. exact Hw. Qed.

  Lemma only_hist {A} (k : N -> prog A) : (forall v, only S (k v)) -> only S (Hist k).
  Proof. intros Hk s Hw. cbn [run]. apply Hk. exact Hw. Qed.

  Lemma only_histb {A} d (k : N -> prog A) : (forall v, only S (k v)) -> only S (HistB d k).
  Proof. intros Hk s Hw. cbn [run]. apply Hk. exact Hw. Qed.

  Lemma only_put {A} b (k : prog A) : only S k -> only S (Put b k).
  Proof.
    intros Hk s Hw. cbn [run]. apply Hk. unfold wf_ast in *. cbn [a_len a_out length]. lia.
  Qed.

  Lemma only_yield {A} (k : prog A) : only S k -> only S (Yield k).
  Proof. intros Hk s Hw. cbn [run]. apply Hk. exact Hw. Qed.

  (* a copy guarded by a test against the number of bytes produced so far *)
  Lemma only_hist_copy {A} (d l : N) (bound : N -> N) (e : err) (k : prog A) :
    0 < d -> (forall h, bound h <= h) -> S e -> only S k ->
    only S (Hist (fun h => assert_p (d <=? bound h) e ;;; Copy d l k)).
  Proof.
    intros Hd Hb He Hk s Hw. cbn [run]. rewrite run_bind. unfold assert_p.
    destruct (d <=? bound (a_len s)) eqn:E; cbn [run]; [|exact He].
    apply N.leb_le in E. specialize (Hb (a_len s)).
    assert (G : (0 <? d) && (d <=? a_len s) = true).
    { apply andb_true_iff. split; [apply N.ltb_lt; exact Hd | apply N.leb_le; lia]. }
    rewrite G. apply Hk.
    unfold wf_ast in *. cbn [a_len a_out].
    rewrite copy_chunks_length; lia.
  Qed.

  Lemma only_iter2 {St R} d (body : St -> prog (St + R)) s :
    (forall s, only S (body s)) -> only S (iter2 d body s).
  Proof.
    intros Hb; revert s; induction d as [|d IH]; intros s; cbn [iter2]; auto.
    apply only_bind; auto. intros [s'|r]; auto. apply only_ret.
  Qed.

  Lemma only_loop {St R} d (body : St -> prog (St + R)) s :
    S EFuel -> (forall s, only S (body s)) -> only S (loop d body s).
  Proof.
    intros Hf Hb. unfold loop. apply only_bind; [apply only_iter2; exact Hb|].
    intros [s'|r]; [apply only_throw; exact Hf | apply only_ret].
  Qed.

  Lemma only_bits_lsbf n : S EUEOF -> only S (bits_lsbf n).
  Proof.
    intros Hu. induction n as [|n IH]; cbn [bits_lsbf]; [apply only_ret|].
    apply only_bit; auto. intros b. apply only_bind; auto. intros; apply only_ret.
  Qed.

  Lemma only_assert c e : S e -> only S (assert_p c e).
  Proof. intros H. unfold assert_p. destruct c; [apply only_ret | apply only_throw; exact H]. Qed.

  Lemma only_put_all l : only S (put_all l).
  Proof. induction l; cbn; [apply only_ret | apply only_put; assumption]. Qed.
End Only.

Ltac only_step S :=
  first
  [ assumption
  | apply only_ret
  | apply only_bits_lsbf
  | apply only_assert
  | apply only_put_all
  | apply only_loop; [| intros ]
  | apply only_iter2; intros
  | apply only_bind; [| intros ]
  | apply only_bit; [| intros ]
  | apply only_align; [| intros ]
  | apply only_put
  | apply only_yield
  | apply only_pos; intros
  | apply only_hist; intros
  | apply only_histb; intros
  | apply only_iseof; intros
  | apply only_throw
  | match goal with |- only _ (if ?c then _ else _) => destruct c end
  | match goal with |- only _ (match ?x with _ => _ end) => destruct x end
  | match goal with |- only _ (let '(_, _) := ?x in _) => destruct x end ].

Lemma only_assert_bind {A} (S : err -> Prop) c e (q : prog A) :
  S e -> (c = true -> only S q) -> only S (assert_p c e ;;; q).
Proof.
  intros He Hq. unfold assert_p. destruct c; cbn [bind].
  - apply Hq. reflexivity.
  - apply only_throw. exact He.
Qed.

(* ---- with postconditions ------------------------------------------------ *)
Definition hoare {A} (S : err -> Prop) (Q : A -> Prop) (p : prog A) : Prop :=
  forall s, wf_ast s -> match run p s with Fail e _ => S e | Done a _ => Q a end.

Lemma hoare_of_only {A} (S : err -> Prop) (p : prog A) : only S p -> hoare S (fun _ => True) p.
Proof. intros H s Hw. specialize (H s Hw). destruct (run p s); auto. Qed.

Lemma only_of_hoare {A} (S : err -> Prop) Q (p : prog A) : hoare S Q p -> only S p.
Proof. intros H s Hw. specialize (H s Hw). destruct (run p s); auto. Qed.

Lemma hoare_weaken {A} (S : err -> Prop) (Q R : A -> Prop) (p : prog A) :
  hoare S Q p -> (forall a, Q a -> R a) -> hoare S R p.
Proof. intros H HQ s Hw. specialize (H s Hw). destruct (run p s); auto. Qed.

Lemma hoare_ret {A} (S : err -> Prop) (Q : A -> Prop) a : Q a -> hoare S Q (Ret a).
Proof. intros H s _. exact H. Qed.

Lemma hoare_throw {A} (S : err -> Prop) (Q : A -> Prop) e : S e -> hoare S Q (Throw e).
Proof. intros H s _. exact H. Qed.

Lemma hoare_bind {A B} (S : err -> Prop) (Q : A -> Prop) (R : B -> Prop) (p : prog A) (f : A -> prog B) :
  hoare S Q p -> (forall a, Q a -> hoare S R (f a)) -> hoare S R (bind p f).
Proof.
  intros Hp Hf s Hw. rewrite run_bind.
  specialize (Hp s Hw). pose proof (run_wf p s Hw) as Hw'.
  destruct (run p s) as [a s'|e s']; [|exact Hp].
  cbn [res_state] in Hw'. apply Hf; assumption.
Qed.

Lemma hoare_bind_only {A B} (S : err -> Prop) (R : B -> Prop) (p : prog A) (f : A -> prog B) :
  only S p -> (forall a, hoare S R (f a)) -> hoare S R (bind p f).
Proof.
  intros Hp Hf. apply (hoare_bind S (fun _ => True)); [apply hoare_of_only; exact Hp | auto].
Qed.

Lemma hoare_hist {A} (S : err -> Prop) (Q : A -> Prop) (k : N -> prog A) :
  (forall v, hoare S Q (k v)) -> hoare S Q (Hist k).
Proof. intros Hk s Hw. cbn [run]. apply Hk. exact Hw. Qed.

Lemma hoare_histb {A} (S : err -> Prop) (Q : A -> Prop) d (k : N -> prog A) :
  (forall v, hoare S Q (k v)) -> hoare S Q (HistB d k).
Proof. intros Hk s Hw. cbn [run]. apply Hk. exact Hw. Qed.

Lemma hoare_copy {A} (S : err -> Prop) (Q : A -> Prop) (d l : N) (k : prog A) :
  hoare S Q k ->
  forall s, wf_ast s -> 0 < d -> d <= a_len s ->
  match run (Copy d l k) s with Fail e _ => S e | Done a _ => Q a end.
Proof.
  intros Hk s Hw Hd Hl. cbn [run].
  assert (G : (0 <? d) && (d <=? a_len s) = true).
  { apply andb_true_iff. split; [apply N.ltb_lt; exact Hd | apply N.leb_le; exact Hl]. }
  rewrite G. apply Hk. unfold wf_ast in *. cbn [a_len a_out].
  rewrite copy_chunks_length; lia.
Qed.

(* loops with an invariant on the loop state and a postcondition on exit *)
Lemma hoare_iter2 {St R} (S : err -> Prop) (I : St -> Prop) (Q : R -> Prop) d (body : St -> prog (St + R)) :
  (forall s, I s -> hoare S (fun r => match r with inl s' => I s' | inr x => Q x end) (body s)) ->
  forall s, I s -> hoare S (fun r => match r with inl s' => I s' | inr x => Q x end) (iter2 d body s).
Proof.
  intros Hb. induction d as [|d IH]; intros s Hi; cbn [iter2]; auto.
  eapply hoare_bind; [apply IH; exact Hi|].
  intros [s'|x] Hr; [apply IH; exact Hr | apply hoare_ret; exact Hr].
Qed.

Lemma hoare_loop {St R} (S : err -> Prop) (I : St -> Prop) (Q : R -> Prop) d (body : St -> prog (St + R)) s :
  S EFuel ->
  (forall s, I s -> hoare S (fun r => match r with inl s' => I s' | inr x => Q x end) (body s)) ->
  I s -> hoare S Q (loop d body s).
Proof.
  intros Hf Hb Hi. unfold loop.
  eapply hoare_bind; [apply (hoare_iter2 S I Q d body Hb s Hi)|].
  intros [s'|x] Hr; [apply hoare_throw; exact Hf | apply hoare_ret; exact Hr].
Qed.

Lemma hoare_bits_lsbf (S : err -> Prop) n :
  S EUEOF -> hoare S (fun v => v < 2 ^ N.of_nat n) (bits_lsbf n).
Proof.
  intros Hu. induction n as [|n IH]; cbn [bits_lsbf].
  - apply hoare_ret. cbn. lia.
  - intros s Hw. cbn [run]. destruct (a_in s) as [|b r]; [exact Hu|].
    rewrite run_bind.
    assert (Hw' : wf_ast (mkAst r (a_pos s + 1) (a_out s) (a_len s))) by exact Hw.
    specialize (IH _ Hw').
    destruct (run (bits_lsbf n) _) as [v s'|e s']; [|exact IH].
    cbn [run]. rewrite Nat2N.inj_succ, N.pow_succ_r'. destruct b; cbn [N.b2n]; lia.
Qed.

(* the shape of an LZ77 back-reference in the decoders: the distance is tested
   against the number of bytes produced so far, then a length check, then the copy;
   anything else (e.g. a static-dictionary reference) happens on the other arm *)
Lemma hoare_hist_guard_copy {A} (S : err -> Prop) (Q : A -> Prop) (d l : N) (bound : N -> N)
      (c : bool) (e : err) (kc : prog A) (kelse : N -> prog A) :
  0 < d -> (forall h, bound h <= h) -> S e -> hoare S Q kc -> (forall h, hoare S Q (kelse h)) ->
  hoare S Q (Hist (fun h => if d <=? bound h then assert_p c e ;;; Copy d l kc else kelse h)).
Proof.
  intros Hd Hb He Hk Hel s Hw. cbn [run].
  destruct (d <=? bound (a_len s)) eqn:E.
  - rewrite run_bind. unfold assert_p. destruct c; cbn [run]; [|exact He].
    apply N.leb_le in E. specialize (Hb (a_len s)).
    apply hoare_copy; auto. lia.
  - apply Hel. exact Hw.
Qed.

(* elimination forms, then make the predicates opaque for unification: an
   [apply only_yield] must not succeed on arbitrary goals by unfolding. *)
Lemma only_elim {A} (S : err -> Prop) (p : prog A) s :
  only S p -> wf_ast s -> match run p s with Fail e _ => S e | Done _ _ => True end.
Proof. intros H Hw. exact (H s Hw). Qed.

Lemma hoare_elim {A} (S : err -> Prop) (Q : A -> Prop) (p : prog A) s :
  hoare S Q p -> wf_ast s -> match run p s with Fail e _ => S e | Done a _ => Q a end.
Proof. intros H Hw. exact (H s Hw). Qed.

Global Opaque only hoare.
