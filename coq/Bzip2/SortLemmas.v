(* Reusable lemmas for the Burrows-Wheeler round trip (Bwt.v):
   - the stack-safe helpers of Common.v equal their textbook versions;
   - N-keyed maps built from lists;
   - lexicographic comparison of byte lists (a total order);
   - two strongly sorted lists that are permutations of each other are equal;
   - the merge sort of SpecW.v returns a sorted permutation of its input
     (for a total comparison, enough fuel and at most 2^64 elements);
   - list facts (nth/firstn/skipn/last, flat_map and sortedness). *)
From Coq Require Import Permutation Sorted FMapPositive.
From V Require Import Base.Prelude Bzip2.Common Bzip2.SpecW.

(* ---- stack-safe helpers ---------------------------------------------------------- *)
Lemma len_n_length {A} (l : list A) : len_n l = N.of_nat (length l).
Proof.
  unfold len_n.
  assert (H : forall k, fold_left (fun n (_ : A) => n + 1) l k = k + N.of_nat (length l)).
  { induction l as [|x l IH]; intros k; cbn [fold_left length]; [lia|]. rewrite IH. lia. }
  rewrite H. lia.
Qed.

Lemma map_tr_eq {A B} (f : A -> B) l : map_tr f l = map f l.
Proof.
  unfold map_tr. rewrite fast_rev_eq.
  assert (H : forall acc, fold_left (fun acc x => f x :: acc) l acc = rev (map f l) ++ acc).
  { induction l as [|x l IH]; intros acc; cbn [fold_left map rev]; [reflexivity|].
    rewrite IH, <- app_assoc. reflexivity. }
  rewrite H, app_nil_r, rev_involutive. reflexivity.
Qed.

Lemma app_tr_eq {A} (a b : list A) : app_tr a b = a ++ b.
Proof. unfold app_tr. rewrite fast_rev_eq, rev_append_rev, rev_involutive. reflexivity. Qed.

Lemma nat_of_nat k : nat_of k = N.to_nat k.
Proof.
  unfold nat_of. induction k as [|k IH] using N.peano_ind; [reflexivity|].
  rewrite N.iter_succ, IH, N2Nat.inj_succ. reflexivity.
Qed.

(* ---- N-keyed maps ------------------------------------------------------------------ *)
Lemma nm_get_set_eq {A} (m : nmap A) k v : nm_get (nm_set m k v) k = Some v.
Proof. unfold nm_get, nm_set. apply PositiveMap.gss. Qed.

Lemma nm_get_set_neq {A} (m : nmap A) k k' v : k <> k' -> nm_get (nm_set m k v) k' = nm_get m k'.
Proof.
  intros H. unfold nm_get, nm_set. apply PositiveMap.gso. intros F. apply H.
  apply N.succ_inj. rewrite <- !N.succ_pos_spec, F. reflexivity.
Qed.

Lemma nm_get_empty {A} k : nm_get (@nm_empty A) k = None.
Proof. unfold nm_get, nm_empty. apply PositiveMap.gempty. Qed.

Lemma nm_getd_set_eq {A} (m : nmap A) k v d : nm_getd (nm_set m k v) k d = v.
Proof. unfold nm_getd. rewrite nm_get_set_eq. reflexivity. Qed.

Lemma nm_getd_set_neq {A} (m : nmap A) k k' v d : k <> k' -> nm_getd (nm_set m k v) k' d = nm_getd m k' d.
Proof. intros H. unfold nm_getd. rewrite nm_get_set_neq by exact H. reflexivity. Qed.

Lemma nth_error_nth_d {A} (l : list A) d : forall i,
  match nth_error l i with Some v => v | None => d end = nth i l d.
Proof.
  induction l as [|x l IH]; intros [|i]; cbn [nth_error nth]; try reflexivity. apply IH.
Qed.

Lemma nm_of_list_state {A} (l : list A) :
  let st := fold_left (fun (st : nmap A * N) x => (nm_set (fst st) (snd st) x, snd st + 1))
                      l (nm_empty, 0) in
  snd st = N.of_nat (length l) /\ forall k, nm_get (fst st) k = nth_error l (N.to_nat k).
Proof.
  induction l as [|x l IH] using rev_ind.
  - cbn [fold_left fst snd length]. split; [reflexivity|]. intros k. rewrite nm_get_empty.
    destruct (N.to_nat k); reflexivity.
  - cbv zeta in IH |- *. rewrite fold_left_app. cbn [fold_left fst snd].
    destruct IH as [IHs IHg]. rewrite IHs. split.
    + rewrite app_length. cbn [length]. lia.
    + intros k. destruct (N.eq_dec (N.of_nat (length l)) k) as [E|E].
      * subst k. rewrite nm_get_set_eq, Nat2N.id, nth_error_app2 by lia.
        rewrite Nat.sub_diag. reflexivity.
      * rewrite nm_get_set_neq by exact E. rewrite IHg.
        destruct (Nat.ltb_spec (N.to_nat k) (length l)) as [Hlt|Hge].
        -- rewrite nth_error_app1 by exact Hlt. reflexivity.
        -- transitivity (@None A); [apply nth_error_None; lia|].
           symmetry. apply nth_error_None. rewrite app_length. cbn [length]. lia.
Qed.

Lemma nm_of_list_get {A} (l : list A) k : nm_get (nm_of_list l) k = nth_error l (N.to_nat k).
Proof. unfold nm_of_list. apply (proj2 (nm_of_list_state l)). Qed.

Lemma nm_of_list_getd {A} (l : list A) k d : nm_getd (nm_of_list l) k d = nth (N.to_nat k) l d.
Proof. unfold nm_getd. rewrite nm_of_list_get. apply nth_error_nth_d. Qed.

(* ---- list facts -------------------------------------------------------------------- *)
Lemma nth_skipn' {A} (l : list A) d : forall i k, nth k (skipn i l) d = nth (i + k) l d.
Proof.
  induction l as [|x l IH]; intros i k.
  - rewrite skipn_nil. destruct k, (i + 0)%nat, i; reflexivity.
  - destruct i as [|i]; [reflexivity|]. cbn [skipn Nat.add nth]. apply IH.
Qed.

Lemma nth_firstn' {A} (l : list A) d : forall n k, (k < n)%nat -> nth k (firstn n l) d = nth k l d.
Proof.
  induction l as [|x l IH]; intros n k H.
  - rewrite firstn_nil. reflexivity.
  - destruct n as [|n]; [lia|]. destruct k as [|k]; [reflexivity|].
    cbn [firstn nth]. apply IH. lia.
Qed.

Lemma last_nth' {A} (l : list A) d : last l d = nth (length l - 1) l d.
Proof.
  induction l as [|x l IH]; [reflexivity|]. destruct l as [|y l]; [reflexivity|].
  change (last (x :: y :: l) d) with (last (y :: l) d). rewrite IH.
  cbn [length]. replace (S (S (length l)) - 1)%nat with (S (S (length l) - 1)) by lia.
  reflexivity.
Qed.

Lemma skipn_cons_nth {A} (l : list A) d : forall i, (i < length l)%nat ->
  skipn i l = nth i l d :: skipn (S i) l.
Proof.
  induction l as [|x l IH]; intros i H; cbn [length] in H; [lia|].
  destruct i as [|i]; [reflexivity|]. cbn [skipn nth]. apply IH. lia.
Qed.

Lemma firstn_S_nth {A} (l : list A) d : forall i, (i < length l)%nat ->
  firstn (S i) l = firstn i l ++ [nth i l d].
Proof.
  induction l as [|x l IH]; intros i H; cbn [length] in H; [lia|].
  destruct i as [|i]; [reflexivity|].
  change (firstn (S (S i)) (x :: l)) with (x :: firstn (S i) l).
  rewrite IH by lia. reflexivity.
Qed.

Lemma map_nth_seq' {A} (l : list A) d : map (fun i => nth i l d) (seq 0 (length l)) = l.
Proof.
  induction l as [|x l IH]; [reflexivity|].
  cbn [length seq map nth]. f_equal. rewrite <- seq_shift, map_map. exact IH.
Qed.

Lemma StronglySorted_nth {A} (R : A -> A -> Prop) l d :
  StronglySorted R l -> forall i j, (i < j)%nat -> (j < length l)%nat -> R (nth i l d) (nth j l d).
Proof.
  induction 1 as [|x l Hs IH Hf]; intros i j Hij Hj; cbn [length] in Hj; [lia|].
  destruct j as [|j]; [lia|]. destruct i as [|i]; cbn [nth].
  - rewrite Forall_forall in Hf. apply Hf, nth_In. lia.
  - apply IH; lia.
Qed.

Lemma StronglySorted_map_in {A B} (R : A -> A -> Prop) (R' : B -> B -> Prop) (f : A -> B) l :
  (forall x y, In x l -> In y l -> R x y -> R' (f x) (f y)) ->
  StronglySorted R l -> StronglySorted R' (map f l).
Proof.
  intros H Hs. induction Hs as [|x l Hs IH Hf]; cbn [map]; constructor.
  - apply IH. intros a b Ha Hb. apply H; right; assumption.
  - rewrite Forall_forall in Hf |- *. intros y Hy. apply in_map_iff in Hy.
    destruct Hy as (z & <- & Hz). apply H; [left; reflexivity | right; exact Hz | apply Hf, Hz].
Qed.

Lemma Sorted_map_in {A B} (R : A -> A -> Prop) (R' : B -> B -> Prop) (f : A -> B) l :
  (forall x y, In x l -> In y l -> R x y -> R' (f x) (f y)) ->
  Sorted R l -> Sorted R' (map f l).
Proof.
  intros H Hs. induction Hs as [|x l Hs IH Hh]; cbn [map]; constructor.
  - apply IH. intros a b Ha Hb. apply H; right; assumption.
  - destruct Hh as [|y l' Hxy]; cbn [map]; constructor.
    apply H; [left; reflexivity | right; left; reflexivity | exact Hxy].
Qed.

(* segments sorted, and everything in an earlier segment below everything in a later one *)
Lemma StronglySorted_app {A} (R : A -> A -> Prop) l1 l2 :
  StronglySorted R l1 -> StronglySorted R l2 ->
  (forall x y, In x l1 -> In y l2 -> R x y) -> StronglySorted R (l1 ++ l2).
Proof.
  intros H1 H2 H. induction H1 as [|x l1 Hs IH Hf]; cbn [app]; [exact H2|]. constructor.
  - apply IH. intros a b Ha Hb. apply H; [right; exact Ha | exact Hb].
  - apply Forall_app. split; [exact Hf|]. rewrite Forall_forall. intros y Hy.
    apply H; [left; reflexivity | exact Hy].
Qed.

Lemma StronglySorted_flat_map {A B} (R : B -> B -> Prop) (Q : A -> A -> Prop) (f : A -> list B) l :
  (forall a, In a l -> StronglySorted R (f a)) ->
  StronglySorted Q l ->
  (forall a b x y, In a l -> In b l -> Q a b -> In x (f a) -> In y (f b) -> R x y) ->
  StronglySorted R (flat_map f l).
Proof.
  intros Hseg Hs Hx. induction Hs as [|a l Hs IH Hf]; cbn [flat_map]; [constructor|].
  apply StronglySorted_app.
  - apply Hseg. left; reflexivity.
  - apply IH.
    + intros b Hb. apply Hseg. right; exact Hb.
    + intros b c x y Hb Hc. apply Hx; right; assumption.
  - intros x y Hxa Hy. apply in_flat_map in Hy. destruct Hy as (b & Hb & Hy).
    rewrite Forall_forall in Hf.
    apply (Hx a b); [left; reflexivity | right; exact Hb | apply Hf, Hb | exact Hxa | exact Hy].
Qed.

(* ---- lexicographic comparison --------------------------------------------------------- *)
Fixpoint lexcmp (a b : list N) : comparison :=
  match a, b with
  | [], [] => Eq
  | [], _ :: _ => Lt
  | _ :: _, [] => Gt
  | x :: a', y :: b' => match x ?= y with Eq => lexcmp a' b' | c => c end
  end.

Definition lex_le (a b : list N) : Prop := lexcmp a b <> Gt.

Lemma lexcmp_refl a : lexcmp a a = Eq.
Proof. induction a as [|x a IH]; cbn [lexcmp]; [reflexivity|]. rewrite N.compare_refl. exact IH. Qed.

Lemma lexcmp_eq a : forall b, lexcmp a b = Eq -> a = b.
Proof.
  induction a as [|x a IH]; intros [|y b] H; cbn [lexcmp] in H; try discriminate; [reflexivity|].
  destruct (N.compare_spec x y) as [E|E|E]; try discriminate. subst y. f_equal. apply IH, H.
Qed.

Lemma lexcmp_antisym a : forall b, lexcmp b a = CompOpp (lexcmp a b).
Proof.
  induction a as [|x a IH]; intros [|y b]; cbn [lexcmp]; try reflexivity.
  rewrite (N.compare_antisym x y). destruct (x ?= y); cbn [CompOpp]; [apply IH | reflexivity | reflexivity].
Qed.

Lemma lex_le_refl a : lex_le a a.
Proof. unfold lex_le. rewrite lexcmp_refl. discriminate. Qed.

Lemma lex_le_trans a : forall b c, lex_le a b -> lex_le b c -> lex_le a c.
Proof.
  unfold lex_le. induction a as [|x a IH]; intros [|y b] [|z c] H1 H2; cbn [lexcmp] in *;
    try congruence.
  destruct (N.compare_spec x y) as [E1|E1|E1]; destruct (N.compare_spec y z) as [E2|E2|E2];
    destruct (N.compare_spec x z) as [E3|E3|E3]; try congruence; try lia.
  eapply IH; eassumption.
Qed.

Lemma lex_le_antisym a b : lex_le a b -> lex_le b a -> a = b.
Proof.
  unfold lex_le. intros H1 H2. rewrite (lexcmp_antisym a b) in H2.
  apply lexcmp_eq. destruct (lexcmp a b); cbn [CompOpp] in H2; congruence.
Qed.

Lemma lex_le_total a b : lex_le a b \/ lex_le b a.
Proof.
  unfold lex_le. rewrite (lexcmp_antisym a b).
  destruct (lexcmp a b); cbn [CompOpp]; [left|left|right]; discriminate.
Qed.

Lemma lexcmp_snoc a : forall b x y, length a = length b ->
  lexcmp (a ++ [x]) (b ++ [y]) = match lexcmp a b with Eq => x ?= y | c => c end.
Proof.
  induction a as [|u a IH]; intros [|v b] x y H; cbn [length] in H; try discriminate.
  - cbn [app lexcmp]. destruct (x ?= y); reflexivity.
  - cbn [app lexcmp]. destruct (u ?= v); [|reflexivity|reflexivity]. apply IH. lia.
Qed.

(* ---- sorted permutations are unique -------------------------------------------------- *)
Lemma sorted_perm_unique {A} (R : A -> A -> Prop) :
  (forall x y, R x y -> R y x -> x = y) ->
  forall l1 l2, StronglySorted R l1 -> StronglySorted R l2 -> Permutation l1 l2 -> l1 = l2.
Proof.
  intros Hanti l1. induction l1 as [|a l1 IH]; intros l2 H1 H2 HP.
  - apply Permutation_nil in HP. subst l2. reflexivity.
  - destruct l2 as [|b l2]; [apply Permutation_sym, Permutation_nil in HP; discriminate|].
    assert (E : a = b).
    { assert (Ha : In a (b :: l2)) by (eapply Permutation_in; [exact HP | left; reflexivity]).
      assert (Hb : In b (a :: l1))
        by (eapply Permutation_in; [apply Permutation_sym, HP | left; reflexivity]).
      destruct Ha as [Ha|Ha]; [congruence|]. destruct Hb as [Hb|Hb]; [congruence|].
      apply StronglySorted_inv in H1. apply StronglySorted_inv in H2.
      destruct H1 as [_ H1]. destruct H2 as [_ H2]. rewrite Forall_forall in H1, H2.
      apply Hanti; [apply H1, Hb | apply H2, Ha]. }
    subst b. f_equal. apply StronglySorted_inv in H1. apply StronglySorted_inv in H2.
    apply IH; [apply H1 | apply H2 | eapply Permutation_cons_inv, HP].
Qed.

(* ---- the merge sort of SpecW.v ---------------------------------------------------------- *)
Section MergeSort.
  Variable A : Type.
  Variable leb : A -> A -> bool.
  Hypothesis leb_total : forall x y, leb x y = false -> leb y x = true.

  Let le (x y : A) : Prop := leb x y = true.

  Lemma merge_acc_spec : forall fuel a b acc,
    (length a + length b <= fuel)%nat -> Sorted le a -> Sorted le b ->
    exists m, merge_acc A leb fuel a b acc = rev_append acc m /\
              Permutation m (a ++ b) /\ Sorted le m /\
              (forall z, HdRel le z a -> HdRel le z b -> HdRel le z m).
  Proof.
    induction fuel as [|f IH]; intros a b acc Hlen Ha Hb.
    - destruct a; cbn [length] in Hlen; [|lia]. destruct b; cbn [length] in Hlen; [|lia].
      exists []. cbn [merge_acc]. repeat split; auto.
    - cbn [merge_acc]. destruct a as [|x a'].
      + exists b. repeat split; auto.
      + destruct b as [|y b'].
        * exists (x :: a'). rewrite app_nil_r. repeat split; auto.
        * cbn [length] in Hlen. destruct (leb x y) eqn:E.
          -- destruct (IH a' (y :: b') (x :: acc)) as (m & Em & Pm & Sm & Hm).
             { cbn [length]. lia. } { inversion Ha; assumption. } { exact Hb. }
             exists (x :: m). split; [exact Em|]. split; [cbn [app]; constructor; exact Pm|].
             split.
             ++ constructor; [exact Sm|]. apply Hm; [inversion Ha; assumption|].
                constructor. exact E.
             ++ intros z Hz _. constructor. inversion Hz; assumption.
          -- destruct (IH (x :: a') b' (y :: acc)) as (m & Em & Pm & Sm & Hm).
             { cbn [length]. lia. } { exact Ha. } { inversion Hb; assumption. }
             exists (y :: m). split; [exact Em|].
             split; [apply Permutation_cons_app; exact Pm|].
             split.
             ++ constructor; [exact Sm|]. apply Hm; [|inversion Hb; assumption].
                constructor. apply leb_total, E.
             ++ intros z _ Hz. constructor. inversion Hz; assumption.
  Qed.

  Lemma merge_pairs_spec fuel : forall k runs acc,
    (length runs <= k)%nat ->
    (length (concat runs) <= fuel)%nat -> Forall (Sorted le) runs -> Forall (Sorted le) acc ->
    let r := merge_pairs A leb fuel runs acc in
    Forall (Sorted le) r /\ Permutation (concat r) (concat runs ++ concat acc) /\
    (2 * length r <= 2 * length acc + length runs + 1)%nat.
  Proof.
    induction k as [|k IH]; intros runs acc Hk Hlen Hr Ha.
    - destruct runs; cbn [length] in Hk; [|lia]. cbn [merge_pairs concat app length].
      split; [exact Ha|]. split; [apply Permutation_refl | lia].
    - destruct runs as [|a [|b r]].
      + cbn [merge_pairs concat app length]. split; [exact Ha|]. split; [apply Permutation_refl | lia].
      + cbn [merge_pairs concat app length]. split.
        * constructor; [inversion Hr; assumption | exact Ha].
        * split; [rewrite app_nil_r; apply Permutation_refl | lia].
      + cbn [merge_pairs]. cbn [concat] in Hlen. rewrite !app_length in Hlen.
        inversion Hr as [|? ? Sa Hr']. inversion Hr' as [|? ? Sb Hr'']. subst.
        destruct (merge_acc_spec fuel a b []) as (m & Em & Pm & Sm & _); [lia | exact Sa | exact Sb |].
        rewrite Em. cbn [rev_append].
        destruct (IH r (m :: acc)) as (F & P & L).
        { cbn [length] in Hk. lia. } { lia. } { exact Hr''. } { constructor; assumption. }
        split; [exact F|]. split.
        * eapply Permutation_trans; [exact P|]. cbn [concat].
          eapply Permutation_trans; [apply Permutation_app_swap_app|].
          rewrite <- !app_assoc, (app_assoc a b). apply Permutation_app_tail. exact Pm.
        * cbn [length] in L |- *. lia.
  Qed.

  Lemma merge_passes_spec fuel : forall p runs,
    N.of_nat (length runs) <= 2 ^ N.of_nat p ->
    (length (concat runs) <= fuel)%nat -> Forall (Sorted le) runs ->
    let r := merge_passes A leb p fuel runs in
    Sorted le r /\ Permutation r (concat runs).
  Proof.
    induction p as [|p IH]; intros runs Hp Hlen Hr.
    - destruct runs as [|a [|b r]].
      + cbn. split; constructor.
      + cbn [merge_passes concat]. rewrite app_nil_r. split; [inversion Hr; assumption | apply Permutation_refl].
      + cbn [length] in Hp. change (2 ^ N.of_nat 0) with 1 in Hp. lia.
    - destruct runs as [|a [|b r]].
      + cbn. split; constructor.
      + cbn [merge_passes concat]. rewrite app_nil_r. split; [inversion Hr; assumption | apply Permutation_refl].
      + cbn [merge_passes].
        destruct (merge_pairs_spec fuel (length (a :: b :: r)) (a :: b :: r) []) as (F & P & L);
          [lia | exact Hlen | exact Hr | constructor |].
        cbn [concat] in P. rewrite app_nil_r in P.
        destruct (IH (merge_pairs A leb fuel (a :: b :: r) [])) as (S1 & P1).
        * rewrite Nat2N.inj_succ, N.pow_succ_r' in Hp. cbn [length] in L, Hp. lia.
        * rewrite (Permutation_length P). exact Hlen.
        * exact F.
        * split; [exact S1|]. eapply Permutation_trans; [exact P1 | exact P].
  Qed.

  Theorem msort_spec fuel l :
    (length l <= fuel)%nat -> N.of_nat (length l) <= 2 ^ 64 ->
    Sorted le (msort leb fuel l) /\ Permutation (msort leb fuel l) l.
  Proof.
    intros Hf Hl. unfold msort. rewrite map_tr_eq.
    assert (Hc : concat (map (fun x => [x]) l) = l).
    { clear. induction l as [|x l IH]; cbn [map concat app]; [reflexivity | rewrite IH; reflexivity]. }
    destruct (merge_passes_spec fuel 64 (map (fun x => [x]) l)) as (S1 & P1).
    - rewrite map_length. exact Hl.
    - rewrite Hc. exact Hf.
    - clear. induction l as [|x l IH]; cbn [map]; constructor; [repeat constructor | exact IH].
    - rewrite Hc in P1. split; assumption.
  Qed.

  (* the bound is sharp: with more than 2^passes runs the passes run out and
     the result is the empty list *)
  Lemma merge_pairs_length_ge fuel : forall k runs acc,
    (length runs <= k)%nat ->
    (2 * length acc + length runs <= 2 * length (merge_pairs A leb fuel runs acc))%nat.
  Proof.
    induction k as [|k IH]; intros runs acc Hk.
    - destruct runs; cbn [length] in Hk; [|lia]. cbn [merge_pairs length]. lia.
    - destruct runs as [|a [|b r]]; cbn [merge_pairs length]; [lia | lia |].
      cbn [length] in Hk. specialize (IH r (merge_acc A leb fuel a b [] :: acc) ltac:(lia)).
      cbn [length] in IH. lia.
  Qed.

  Lemma merge_passes_overflow fuel : forall p runs,
    2 ^ N.of_nat p < N.of_nat (length runs) -> merge_passes A leb p fuel runs = [].
  Proof.
    induction p as [|p IH]; intros runs Hp.
    - change (2 ^ N.of_nat 0) with 1 in Hp.
      destruct runs as [|a [|b r]]; cbn [length] in Hp; [lia | lia | reflexivity].
    - assert (H1 : 1 <= 2 ^ N.of_nat p) by (apply N.lt_pred_le, N.neq_0_lt_0, N.pow_nonzero; lia).
      rewrite Nat2N.inj_succ, N.pow_succ_r' in Hp.
      destruct runs as [|a [|b r]]; cbn [length] in Hp; [lia | lia |].
      cbn [merge_passes]. apply IH.
      pose proof (merge_pairs_length_ge fuel (length (a :: b :: r)) (a :: b :: r) [] ltac:(lia)) as H.
      cbn [length] in H. lia.
  Qed.

  Lemma msort_overflow fuel l : 2 ^ 64 < N.of_nat (length l) -> msort leb fuel l = [].
  Proof.
    intros H. unfold msort. apply (merge_passes_overflow fuel 64). rewrite map_tr_eq, map_length.
    exact H.
  Qed.
End MergeSort.
