(* C04, stage 4b: the symbol map and the selectors of a bzip2 block.
   - SpecW.write_symbol_map pushes exactly [symbol_map_bits used] and
     SpecR.read_symbol_map reads these bits back as the dictionary
     [filter (is_used used) (iota 256)] the encoder uses;
   - the selectors: the encoder's MTF (start list 0..5) followed by the unary code is
     read back by [read_sels] and undone by [mtf_decode_sels] (start list 0..nGroups-1)
     for every selector list with values below nGroups, 2 <= nGroups <= 6. *)
From Coq Require Import Permutation.
From V Require Import Base.Prelude Base.Prog Base.ProgThms Bzip2.Common Bzip2.SpecR Bzip2.SpecW
  Bzip2.SortLemmas Bzip2.MtfRle2 Bzip2.BitIO.
Local Open Scope N_scope.

(* ==== generic list facts ============================================================ *)
Lemma fold_cons_eq {X} (f : X -> bool) l : forall acc,
  fold_left (fun a x => f x :: a) l acc = rev (map f l) ++ acc.
Proof.
  induction l as [|x l IH]; intros acc; cbn [fold_left map rev app]; [reflexivity|].
  rewrite IH, <- app_assoc. reflexivity.
Qed.

Lemma appends_fold_cons {X} (f : X -> bool) l :
  appends (fun acc => fold_left (fun a x => f x :: a) l acc) (map f l).
Proof. intros acc. apply fold_cons_eq. Qed.

Lemma filter_flat_map {X Y} (f : Y -> bool) (g : X -> list Y) l :
  filter f (flat_map g l) = flat_map (fun x => filter f (g x)) l.
Proof.
  induction l as [|x l IH]; cbn [flat_map filter]; [reflexivity|].
  rewrite filter_app, IH. reflexivity.
Qed.

Lemma filter_map_existsb_false {X Y} (f : Y -> bool) (g : X -> Y) l :
  existsb (fun x => f (g x)) l = false -> filter f (map g l) = [].
Proof.
  induction l as [|x l IH]; cbn [existsb map filter]; [reflexivity|].
  intros H. apply orb_false_iff in H. destruct H as [H1 H2]. rewrite H1. apply IH, H2.
Qed.

Lemma rev_repeat_eq {X} (x : X) n : rev (repeat x n) = repeat x n.
Proof.
  induction n as [|n IH]; cbn [repeat rev]; [reflexivity|].
  rewrite IH. symmetry. apply repeat_cons.
Qed.

(* ==== PART 1: the symbol map ========================================================= *)
Definition row_used (used : nmap bool) (r : N) : bool :=
  existsb (fun j => is_used used (16 * r + j)) (iota 16).
Definition row_bits (used : nmap bool) (r : N) : list bool :=
  map (fun j => is_used used (16 * r + j)) (iota 16).

(* the 16 row bits, then 16 bits for each used row, in stream order *)
Definition symbol_map_bits (used : nmap bool) : list bool :=
  map (row_used used) (iota 16) ++
  flat_map (fun r => if row_used used r then row_bits used r else []) (iota 16).

Theorem write_symbol_map_appends used : appends (write_symbol_map used) (symbol_map_bits used).
Proof.
  unfold write_symbol_map, symbol_map_bits.
  change (existsb (fun j => is_used used (16 * ?r + j)) (iota 16)) with (row_used used r).
  apply (appends_comp
    (fun acc => fold_left (fun a r => row_used used r :: a) (iota 16) acc)
    (fun acc => fold_left (fun a r => if row_used used r
                  then fold_left (fun a2 j => is_used used (16 * r + j) :: a2) (iota 16) a
                  else a) (iota 16) acc)).
  - apply appends_fold_cons.
  - apply (appends_fold
      (fun a r => if row_used used r
                  then fold_left (fun a2 j => is_used used (16 * r + j) :: a2) (iota 16) a
                  else a)
      (fun r => if row_used used r then row_bits used r else [])).
    intros r _. destruct (row_used used r).
    + apply (appends_fold_cons (fun j => is_used used (16 * r + j))).
    + intros acc. reflexivity.
Qed.

Lemma field_bits16_mbits v : field_bits16 v = mbits 16 v.
Proof. reflexivity. Qed.

Lemma field_bits16_mval l : length l = 16%nat -> field_bits16 (mval l) = l.
Proof. intros H. rewrite field_bits16_mbits, <- H. apply mbits_mval. Qed.

Lemma reads_rbits16 l : length l = 16%nat -> reads (rbits 16) l (mval l).
Proof. intros H. rewrite <- H. apply reads_rbits_list. Qed.

(* consecutive numbers *)
Fixpoint nseq (a : N) (n : nat) : list N :=
  match n with
  | O => []
  | S n' => a :: nseq (a + 1) n'
  end.

Lemma iota16_nseq : iota 16 = nseq 0 16.
Proof. vm_compute. reflexivity. Qed.

Lemma iota256_rows :
  iota 256 = flat_map (fun r => map (fun j => 16 * r + j) (iota 16)) (iota 16).
Proof. vm_compute. reflexivity. Qed.

Lemma used_in_row_filter used c n : forall j0,
  used_in_row (c + j0) (map (fun j => is_used used (c + j)) (nseq j0 n)) =
  filter (is_used used) (map (fun j => c + j) (nseq j0 n)).
Proof.
  induction n as [|n IH]; intros j0; cbn [nseq map used_in_row filter]; [reflexivity|].
  rewrite <- N.add_assoc, IH. destruct (is_used used (c + j0)); reflexivity.
Qed.

Lemma used_in_row_row used r :
  used_in_row (16 * r) (row_bits used r) =
  filter (is_used used) (map (fun j => 16 * r + j) (iota 16)).
Proof.
  unfold row_bits. rewrite iota16_nseq.
  rewrite <- (used_in_row_filter used (16 * r) 16 0), N.add_0_r. reflexivity.
Qed.

Lemma row_bits_length used r : length (row_bits used r) = 16%nat.
Proof. unfold row_bits. rewrite map_length, iota_length. reflexivity. Qed.

Lemma read_map_rows_correct used n : forall r0,
  reads (read_map_rows (map (row_used used) (nseq r0 n)) (16 * r0))
        (flat_map (fun r => if row_used used r then row_bits used r else []) (nseq r0 n))
        (flat_map (fun r => filter (is_used used) (map (fun j => 16 * r + j) (iota 16)))
                  (nseq r0 n)).
Proof.
  induction n as [|n IH]; intros r0; cbn [nseq map flat_map read_map_rows].
  - apply reads_ret.
  - apply reads_bind with
      (a := filter (is_used used) (map (fun j => 16 * r0 + j) (iota 16))).
    + destruct (row_used used r0) eqn:E.
      * eapply reads_eq.
        -- eapply reads_bind; [apply reads_rbits16, row_bits_length | apply reads_ret].
        -- apply app_nil_r.
        -- rewrite field_bits16_mval by apply row_bits_length. apply used_in_row_row.
      * eapply reads_eq; [apply reads_ret | reflexivity |].
        symmetry. apply filter_map_existsb_false. exact E.
    + eapply reads_eq.
      * eapply reads_bind; [|apply reads_ret].
        replace (16 * r0 + 16) with (16 * (r0 + 1)) by lia. apply IH.
      * apply app_nil_r.
      * reflexivity.
Qed.

Theorem read_symbol_map_correct used :
  reads read_symbol_map (symbol_map_bits used) (filter (is_used used) (iota 256)).
Proof.
  unfold read_symbol_map, symbol_map_bits.
  assert (Hl : length (map (row_used used) (iota 16)) = 16%nat)
    by (rewrite map_length, iota_length; reflexivity).
  eapply reads_bind; [apply reads_rbits16, Hl|].
  rewrite field_bits16_mval by exact Hl.
  rewrite iota256_rows, filter_flat_map, iota16_nseq.
  rewrite <- iota16_nseq at 1 2. rewrite iota16_nseq at 1.
  exact (read_map_rows_correct used 16 0).
Qed.

Example symbol_map_example :
  let used := used_map [65; 66; 200; 65; 0] in
  symbol_map_bits used <> [] /\
  run read_symbol_map (mkAst (symbol_map_bits used ++ [true; false]) 7 [] 0) =
  Done [0; 65; 66; 200] (mkAst [true; false] (7 + 64) [] 0).
Proof. vm_compute. split; [discriminate | reflexivity]. Qed.

(* ==== PART 2: the selectors ========================================================== *)
Definition sels_bits (sels : list N) : list bool :=
  flat_map (fun j => repeat true (N.to_nat j) ++ [false]) (mtf_encode_sels sels).

Lemma write_unary_appends j : appends (write_unary j) (repeat true (N.to_nat j) ++ [false]).
Proof.
  intros acc. unfold write_unary. rewrite repeat_acc_eq, rev_app_distr, rev_repeat_eq.
  reflexivity.
Qed.

Theorem write_sels_appends sels :
  appends (fun acc => fold_left (fun a j => write_unary j a) (mtf_encode_sels sels) acc)
          (sels_bits sels).
Proof.
  unfold sels_bits.
  apply (appends_fold (fun a j => write_unary j a)
                      (fun j => repeat true (N.to_nat j) ++ [false])).
  intros j _. apply write_unary_appends.
Qed.

(* the two MTF folds as structural recursions *)
Fixpoint enc_sels (l : list N) (sels : list N) : list N :=
  match sels with
  | [] => []
  | v :: r =>
    let idx := mtf_index N.eqb v l 0 in
    let (x, rest) := mtf_pick (N.to_nat idx) l 0 in
    idx :: enc_sels (x :: rest) r
  end.

Fixpoint dec_sels (l : list N) (idxs : list N) : list N :=
  match idxs with
  | [] => []
  | j :: r =>
    let (v, rest) := mtf_pick (N.to_nat j) l 0 in
    v :: dec_sels (v :: rest) r
  end.

Lemma enc_fold_eq sels : forall l acc,
  snd (fold_left
    (fun (st : list N * list N) v =>
       let idx := mtf_index N.eqb v (fst st) 0 in
       let (x, rest) := mtf_pick (N.to_nat idx) (fst st) 0 in
       (x :: rest, idx :: snd st))
    sels (l, acc)) = rev (enc_sels l sels) ++ acc.
Proof.
  induction sels as [|v r IH]; intros l acc; cbn [fold_left enc_sels fst snd]; [reflexivity|].
  destruct (mtf_pick (N.to_nat (mtf_index N.eqb v l 0)) l 0) as [x rest].
  rewrite IH. cbn [rev]. rewrite <- app_assoc. reflexivity.
Qed.

Lemma mtf_encode_sels_eq sels : mtf_encode_sels sels = enc_sels (iota 6) sels.
Proof.
  unfold mtf_encode_sels. rewrite fast_rev_eq, enc_fold_eq, app_nil_r. apply rev_involutive.
Qed.

Lemma dec_fold_eq idxs : forall l acc,
  snd (fold_left
    (fun (st : list N * list N) j =>
       let (v, rest) := mtf_pick (N.to_nat j) (fst st) 0 in
       (v :: rest, v :: snd st))
    idxs (l, acc)) = rev (dec_sels l idxs) ++ acc.
Proof.
  induction idxs as [|j r IH]; intros l acc; cbn [fold_left dec_sels fst snd]; [reflexivity|].
  destruct (mtf_pick (N.to_nat j) l 0) as [v rest].
  rewrite IH. cbn [rev]. rewrite <- app_assoc. reflexivity.
Qed.

Lemma mtf_decode_sels_eq nGroups idxs :
  mtf_decode_sels nGroups idxs = dec_sels (iota nGroups) idxs.
Proof.
  unfold mtf_decode_sels. rewrite fast_rev_eq, dec_fold_eq, app_nil_r. apply rev_involutive.
Qed.

Lemma enc_sels_length sels : forall l, length (enc_sels l sels) = length sels.
Proof.
  induction sels as [|v r IH]; intros l; cbn [enc_sels length]; [reflexivity|].
  destruct (mtf_pick (N.to_nat (mtf_index N.eqb v l 0)) l 0) as [x rest].
  cbn [length]. rewrite IH. reflexivity.
Qed.

Theorem mtf_encode_sels_length sels : length (mtf_encode_sels sels) = length sels.
Proof. rewrite mtf_encode_sels_eq. apply enc_sels_length. Qed.

(* a tail that is never reached changes neither the index nor the pick *)
Lemma mtf_index_app v l tl : forall i,
  In v l -> mtf_index N.eqb v (l ++ tl) i = mtf_index N.eqb v l i.
Proof.
  induction l as [|x l IH]; intros i Hin; [destruct Hin|].
  cbn [app mtf_index]. destruct (x =? v) eqn:E; [reflexivity|].
  destruct Hin as [Hx|Hin]; [apply N.eqb_neq in E; contradiction|]. apply IH, Hin.
Qed.

Lemma mtf_pick_app {X} (d : X) tl : forall l j v rest,
  (j < length l)%nat -> mtf_pick j l d = (v, rest) ->
  mtf_pick j (l ++ tl) d = (v, rest ++ tl).
Proof.
  induction l as [|x l IH]; intros j v rest Hj Hp; cbn [length] in Hj; [lia|].
  destruct j as [|j]; cbn [mtf_pick app] in *.
  - injection Hp as <- <-. reflexivity.
  - destruct (mtf_pick j l d) as [y r'] eqn:E. injection Hp as <- <-.
    rewrite (IH j y r' ltac:(lia) E). reflexivity.
Qed.

Lemma enc_dec_sels sels : forall ld tl,
  (forall x, In x sels -> In x ld) ->
  dec_sels ld (enc_sels (ld ++ tl) sels) = sels /\
  Forall (fun j => j < N.of_nat (length ld)) (enc_sels (ld ++ tl) sels).
Proof.
  induction sels as [|v r IH]; intros ld tl Hin; cbn [enc_sels dec_sels].
  - split; [reflexivity | constructor].
  - assert (Hv : In v ld) by (apply Hin; left; reflexivity).
    destruct (index_pick v 0 ld 0 Hv) as (j & rest & Hi & Hj & Hp & Hperm & _).
    rewrite mtf_index_app by exact Hv. rewrite Hi, N.add_0_l, Nat2N.id.
    rewrite (mtf_pick_app 0 tl ld j v rest Hj Hp).
    cbn [dec_sels]. rewrite Nat2N.id, Hp.
    change (v :: rest ++ tl) with ((v :: rest) ++ tl).
    destruct (IH (v :: rest) tl) as [H1 H2].
    { intros x Hx. apply (Permutation_in x (Permutation_sym Hperm)).
      apply Hin. right. exact Hx. }
    split.
    + rewrite H1. reflexivity.
    + constructor; [lia|].
      rewrite <- (Permutation_length Hperm). exact H2.
Qed.

Lemma iota6_split nGroups : 2 <= nGroups <= 6 -> exists tl, iota 6 = iota nGroups ++ tl.
Proof.
  intros H.
  assert (C : nGroups = 2 \/ nGroups = 3 \/ nGroups = 4 \/ nGroups = 5 \/ nGroups = 6) by lia.
  destruct C as [->|[->|[->|[->| ->]]]].
  - exists [2; 3; 4; 5]. reflexivity.
  - exists [3; 4; 5]. reflexivity.
  - exists [4; 5]. reflexivity.
  - exists [5]. reflexivity.
  - exists []. reflexivity.
Qed.

Lemma sels_enc_dec nGroups sels :
  2 <= nGroups <= 6 -> (forall x, In x sels -> x < nGroups) ->
  mtf_decode_sels nGroups (mtf_encode_sels sels) = sels /\
  Forall (fun j => j < nGroups) (mtf_encode_sels sels).
Proof.
  intros Hn Hs. destruct (iota6_split nGroups Hn) as [tl Htl].
  rewrite mtf_decode_sels_eq, mtf_encode_sels_eq, Htl.
  destruct (enc_dec_sels sels (iota nGroups) tl) as [H1 H2].
  { intros x Hx. apply iota_In, Hs, Hx. }
  split; [exact H1|].
  rewrite iota_length, N2Nat.id in H2. exact H2.
Qed.

Theorem mtf_sels_roundtrip nGroups sels :
  2 <= nGroups <= 6 -> (forall x, In x sels -> x < nGroups) ->
  mtf_decode_sels nGroups (mtf_encode_sels sels) = sels.
Proof. intros Hn Hs. apply (sels_enc_dec nGroups sels Hn Hs). Qed.

Theorem mtf_encode_sels_bound nGroups sels :
  2 <= nGroups <= 6 -> (forall x, In x sels -> x < nGroups) ->
  Forall (fun j => j < nGroups) (mtf_encode_sels sels).
Proof. intros Hn Hs. apply (sels_enc_dec nGroups sels Hn Hs). Qed.

(* the unary code *)
Lemma read_unary_correct k : forall max acc,
  (k < max)%nat ->
  reads (read_unary max acc) (repeat true k ++ [false]) (acc + N.of_nat k).
Proof.
  induction k as [|k IH]; intros max acc Hk; (destruct max as [|max]; [lia|]);
    cbn [read_unary repeat app]; apply reads_bit.
  - eapply reads_eq; [apply reads_ret | reflexivity | lia].
  - eapply reads_eq; [apply IH; lia | reflexivity | lia].
Qed.

Lemma read_sel_correct nGroups j :
  j < nGroups -> nGroups <= 6 ->
  reads (read_sel nGroups) (repeat true (N.to_nat j) ++ [false]) j.
Proof.
  intros Hj Hn. unfold read_sel.
  eapply reads_eq.
  - eapply reads_bind.
    + apply (read_unary_correct (N.to_nat j) 6 0). lia.
    + apply reads_assert_bind; [|apply reads_ret].
      apply N.ltb_lt. lia.
  - apply app_nil_r.
  - lia.
Qed.

Lemma read_sels_list nGroups idxs : forall acc,
  nGroups <= 6 -> Forall (fun j => j < nGroups) idxs ->
  reads (read_sels (length idxs) nGroups acc)
        (flat_map (fun j => repeat true (N.to_nat j) ++ [false]) idxs)
        (rev acc ++ idxs).
Proof.
  induction idxs as [|j r IH]; intros acc Hn Hf; cbn [length read_sels flat_map].
  - eapply reads_eq; [apply reads_ret | reflexivity|].
    rewrite fast_rev_eq, app_nil_r. reflexivity.
  - inversion Hf as [|? ? Hj Hr]; subst.
    eapply reads_bind; [apply read_sel_correct; assumption|].
    eapply reads_eq; [apply IH; assumption | reflexivity|].
    cbn [rev]. rewrite <- app_assoc. reflexivity.
Qed.

Theorem read_sels_correct nGroups sels :
  2 <= nGroups <= 6 -> (forall x, In x sels -> x < nGroups) ->
  reads (read_sels (length sels) nGroups []) (sels_bits sels) (mtf_encode_sels sels).
Proof.
  intros Hn Hs. unfold sels_bits. rewrite <- (mtf_encode_sels_length sels).
  apply (read_sels_list nGroups (mtf_encode_sels sels) []); [lia|].
  apply mtf_encode_sels_bound; assumption.
Qed.

Example sels_example :
  let sels := [0; 1; 2; 0; 0; 2; 1; 1] in
  mtf_encode_sels sels = [0; 1; 2; 2; 0; 1; 2; 0] /\
  sels_bits sels <> [] /\
  run (read_sels (length sels) 3 []) (mkAst (sels_bits sels ++ [true]) 5 [] 0) =
  Done (mtf_encode_sels sels) (mkAst [true] (5 + N.of_nat (length (sels_bits sels))) [] 0) /\
  mtf_decode_sels 3 (mtf_encode_sels sels) = sels.
Proof. vm_compute. repeat split; try reflexivity; discriminate. Qed.

Print Assumptions write_symbol_map_appends.
Print Assumptions read_symbol_map_correct.
Print Assumptions symbol_map_example.
Print Assumptions write_sels_appends.
Print Assumptions mtf_encode_sels_length.
Print Assumptions read_sels_correct.
Print Assumptions mtf_sels_roundtrip.
Print Assumptions mtf_encode_sels_bound.
Print Assumptions sels_example.
