(* Layer (c), part 2 of the refinement of bzip2.Reader (Bzip2/Impl.v) to the libbzip2 port
   (Bzip2/SpecR.v): the tree selectors of Reader.decodePrefix.

     decSel_ok            the package-level decoder decSel (bzip2/prefix.go) is built without a
                          panic, from the codes 0,10,110,1110,11110,111110,111111 (valid, tables
                          correct)
     sel_sim              one selector: TryReadSymbol/ReadSymbol(&decSel) + the numTrees check
                          refines [SpecR.read_sel] (unary code of at most 6 ones)
     sels_sim             the loop over numSels selectors refines [SpecR.read_sels]
     spec_read_sels_range what the specification's selectors look like (all < nGroups)
     sels_mtf_eq          internal.MoveToFront.Decode on a fresh value (list 0..255) computes the
                          specification's [mtf_decode_sels] (list 0..nGroups-1), never panics;
                          dropping the selectors beyond 18002 (libbzip2 1.0.8) commutes with it *)
From V Require Import Base.Prelude Base.Prog Base.ProgThms Base.FuelThms Bzip2.Common Bzip2.SpecR Bzip2.BitIO
  Bzip2.MtfRle2 Prefix.Code Prefix.ReaderImpl Prefix.ReaderSpec Prefix.ReaderThms Prefix.DecTable
  Prefix.DecTableSpec Prefix.DecTableThms Prefix.DecReadThms Bzip2.Impl Bzip2.ImplBits Bzip2.ImplSim
  Bzip2.ImplSym.
From V Require Bzip2.Degenerate.

Local Open Scope N_scope.

(* ---- decSel ---------------------------------------------------------------------------------- *)
Definition sel_codes : list pcode :=
  [(0, 1, 0); (1, 2, 1); (2, 3, 3); (3, 4, 7); (4, 5, 15); (5, 6, 31); (6, 6, 63)].

Lemma gen_sel_codes : gen_prefixes sel_lens = GPOk sel_codes.
Proof. vm_compute. reflexivity. Qed.

Lemma sel_codes_valid : dec_valid 20 sel_codes.
Proof. apply kraft_check_sound. vm_compute. reflexivity. Qed.

Lemma decSel_tables : exists dsel, decSel = IOk dsel /\ tables_ok sel_codes dsel.
Proof.
  unfold decSel. rewrite gen_sel_codes.
  destruct (dec_table_correct 20 sel_codes (fun _ => 0) (fun _ => 0) ltac:(lia) sel_codes_valid)
    as (d & E & HT & _).
  exists d. split; [exact E | exact HT].
Qed.

Lemma decSel_ok : exists dsel codes,
  decSel = IOk dsel /\ gen_prefixes sel_lens = GPOk codes /\ dec_valid 20 codes /\ tables_ok codes dsel.
Proof.
  destruct decSel_tables as (d & E & HT). exists d, sel_codes.
  split; [exact E|]. split; [exact gen_sel_codes|]. split; [exact sel_codes_valid | exact HT].
Qed.

Lemma sel_max_bits : max_bits sel_codes = 6.
Proof. vm_compute. reflexivity. Qed.

Lemma sel_codes_cases c : In c sel_codes ->
  c_sym c <= 6 /\ (1 <= c_len c /\ c_len c <= 6) /\ c_val c < 2 ^ c_len c.
Proof.
  intros H. cbn [sel_codes In] in H.
  repeat (destruct H as [<-|H]);
    try (repeat split; (apply N.leb_le || apply N.ltb_lt); vm_compute; reflexivity).
  destruct H.
Qed.

(* ---- the specification side: the unary code -------------------------------------------------- *)
Lemma done_eq {A} (a a' : A) (i i' : list bool) p p' o l :
  a = a' -> i = i' -> p = p' -> Done a (mkAst i p o l) = Done a' (mkAst i' p' o l).
Proof. intros -> -> ->. reflexivity. Qed.

Lemma run_unary_code c : In c sel_codes -> forall t pos out len,
  run (read_unary 6 0) (mkAst (Degenerate.code_bits c ++ t) pos out len) =
  Done (c_sym c) (mkAst t (pos + c_len c) out len).
Proof.
  intros H. cbn [sel_codes In] in H.
  repeat (destruct H as [<-|H]); try (destruct H); intros t pos out len;
    match goal with
    | |- context [Degenerate.code_bits ?c] =>
      let x := eval vm_compute in (Degenerate.code_bits c) in
      change (Degenerate.code_bits c) with x
    end;
    cbn [app read_unary run a_in a_pos a_out Prog.a_len];
    unfold c_sym, c_len; cbn [fst snd];
    (apply done_eq; [lia | reflexivity | lia]).
Qed.

Lemma skipn_app_exact {A} (a t : list A) : skipn (length a) (a ++ t) = t.
Proof. induction a as [|x a IH]; [reflexivity | exact IH]. Qed.

(* a step that is pointwise the same computation *)
Lemma sim_ext data {A B} (m m' : M A) (q : prog B) (rel : A -> B -> Prop) :
  (forall st, m st = m' st) -> sim data m q rel -> sim data m' q rel.
Proof.
  intros He Hm R st out len HP HR. specialize (Hm R st out len HP HR). rewrite <- He. exact Hm.
Qed.

Section Sels.
Variable data : list byte.
Hypothesis Hd : forall b, In b data -> b < 256.

Notation bits := (stream_bits true data).
Notation PI := (PI true data).
Notation total := (8 * length data)%nat.
Notation sat := (sat data).
Notation Rep := (Rep data).

(* ---- one selector ---------------------------------------------------------------------------- *)
Theorem sel_sim dsel numTrees : decSel = IOk dsel -> 2 <= numTrees <= 6 ->
  sim data
      (mbind (m_symbol_fast dsel)
             (fun sym => if numTrees <=? sym then corrupted else ret (sym mod 256)))
      (SpecR.read_sel numTrees) eq.
Proof.
  intros Hdsel Hnt R st out len HP HR.
  destruct decSel_tables as (d' & Ed & HT). rewrite Hdsel in Ed. injection Ed as Ed. subst d'.
  destruct (m_symbol_fast_pi data Hd 20 sel_codes ltac:(lia) sel_codes_valid dsel HT R st HP)
    as [(c & p' & Em & Hc & Hpr & HP' & Hb)|(p' & Em & Hshort)].
  - destruct (sel_codes_cases c Hc) as (Hsym & Hlen & Hval).
    pose proof Hpr as [_ Hin].
    apply (present_prefix data Hd c R ltac:(lia) Hval) in Hpr.
    apply is_prefix_b_spec in Hpr. destruct Hpr as [t Ht].
    assert (Et : t = skipn (R + N.to_nat (c_len c)) bits).
    { rewrite <- skipn_skipn', Ht.
      assert (Hl : length (Degenerate.code_bits c) = N.to_nat (c_len c))
        by (unfold Degenerate.code_bits; apply val_bits_length).
      rewrite <- Hl. symmetry. apply skipn_app_exact. }
    assert (H27 : c_sym c mod 2 ^ 27 = c_sym c).
    { apply N.mod_small. change (2 ^ 27) with 134217728. lia. }
    unfold SpecR.read_sel. rewrite run_bind. unfold ImplBits.sat at 1.
    rewrite Ht, (run_unary_code c Hc). rewrite run_bind.
    rewrite (mbind_ok _ _ st _ _ Em). cbv beta. rewrite H27.
    destruct (c_sym c <? numTrees) eqn:E; cbn [assert_p run].
    + left. exists (R + N.to_nat (c_len c))%nat, (c_sym c), p'.
      replace (numTrees <=? c_sym c) with false by lia.
      split; [unfold ImplBits.sat; rewrite Et; f_equal; lia|]. split; [lia|].
      split; [unfold ret; rewrite N.mod_small by lia; reflexivity|].
      split; [reflexivity|]. split; [exact HP' | exact Hb].
    + exists p'. left. replace (numTrees <=? c_sym c) with true by lia. reflexivity.
  - rewrite sel_max_bits in Hshort. change (N.to_nat 6) with 6%nat in Hshort.
    pose proof (run_ilen_le (SpecR.read_sel numTrees) (sat R out len)) as Hmono.
    assert (Hi : ilen (sat R out len) = (total - R)%nat).
    { unfold ilen, ImplBits.sat. cbn [a_in]. rewrite skipn_length, (bits_length data). reflexivity. }
    rewrite Hi in Hmono.
    rewrite (mbind_throw _ _ st _ _ Em).
    destruct (run (SpecR.read_sel numTrees) (sat R out len)) as [b s'|e s']; cbn [res_state] in Hmono.
    + right. split; [lia|]. exists p'. reflexivity.
    + exists p'. right. reflexivity.
Qed.

(* ---- numSels selectors ------------------------------------------------------------------------ *)
Lemma sels_sim_gen dsel n numTrees : decSel = IOk dsel -> 2 <= numTrees <= 6 -> forall acc,
  sim data (Impl.read_sels n dsel numTrees acc) (SpecR.read_sels n numTrees acc) eq.
Proof.
  intros Hdsel Hnt. induction n as [|n IH]; intros acc.
  - cbn [Impl.read_sels SpecR.read_sels]. apply (sim_ret data Hd). reflexivity.
  - cbn [Impl.read_sels SpecR.read_sels].
    apply (sim_ext data
             (mbind (mbind (m_symbol_fast dsel)
                           (fun sym => if numTrees <=? sym then corrupted else ret (sym mod 256)))
                    (fun v => Impl.read_sels n dsel numTrees (v :: acc)))).
    + intros st. unfold mbind. destruct (m_symbol_fast dsel st) as [[a|e] st1]; [|reflexivity].
      destruct (numTrees <=? a); reflexivity.
    + apply (sim_bind data Hd _ _ eq _ _ eq); [apply sel_sim; assumption|].
      intros a b ->. apply IH.
Qed.

Theorem sels_sim dsel n numTrees acc : decSel = IOk dsel -> 2 <= numTrees <= 6 ->
  sim data (Impl.read_sels n dsel numTrees acc) (SpecR.read_sels n numTrees acc) eq.
Proof. intros Hdsel Hnt. apply sels_sim_gen; assumption. Qed.

End Sels.

(* ---- the specification's selectors are in range ------------------------------------------------ *)
Lemma spec_read_sel_range g s j s' : run (SpecR.read_sel g) s = Done j s' -> j < g.
Proof.
  unfold SpecR.read_sel. rewrite run_bind.
  destruct (run (read_unary 6 0) s) as [v s1|e s1]; [|discriminate].
  rewrite run_bind. destruct (v <? g) eqn:E; cbn [assert_p run]; [|discriminate].
  intros H. injection H as H _. subst v. lia.
Qed.

Lemma spec_read_sels_range n g : forall acc s l s',
  run (SpecR.read_sels n g acc) s = Done l s' -> Forall (fun j => j < g) acc ->
  Forall (fun j => j < g) l /\ length l = (n + length acc)%nat.
Proof.
  induction n as [|n IH]; intros acc s l s' Hrun Hacc; cbn [SpecR.read_sels] in Hrun.
  - cbn [run] in Hrun. injection Hrun as Hl _. subst l. rewrite fast_rev_eq.
    split; [|rewrite rev_length; reflexivity].
    apply Forall_forall. intros x Hx. apply in_rev in Hx.
    rewrite Forall_forall in Hacc. apply Hacc. exact Hx.
  - rewrite run_bind in Hrun.
    destruct (run (SpecR.read_sel g) s) as [j s1|e s1] eqn:E1; [|discriminate].
    pose proof (spec_read_sel_range g s j s1 E1) as Hj.
    destruct (IH (j :: acc) s1 l s' Hrun ltac:(constructor; assumption)) as [H1 H2].
    split; [exact H1|]. rewrite H2. cbn [length]. lia.
Qed.

(* ---- move to front ------------------------------------------------------------------------------ *)
(* what both folds emit, started with the list [perm] *)
Fixpoint mtf_out (perm : list N) (idxs : list N) : list N :=
  match idxs with
  | [] => []
  | j :: r => let (v, rest) := mtf_pick (N.to_nat j) perm 0 in v :: mtf_out (v :: rest) r
  end.

Lemma spec_fold idxs : forall perm out,
  snd (fold_left
         (fun (st : list N * list N) j =>
            let (v, rest) := mtf_pick (N.to_nat j) (fst st) 0 in
            (v :: rest, v :: snd st))
         idxs (perm, out)) = rev (mtf_out perm idxs) ++ out.
Proof.
  induction idxs as [|j r IH]; intros perm out; cbn [fold_left mtf_out]; [reflexivity|].
  cbn [fst snd]. destruct (mtf_pick (N.to_nat j) perm 0) as [v rest].
  rewrite IH. cbn [rev]. rewrite <- app_assoc. reflexivity.
Qed.

Lemma mtf_decode_sels_out g idxs : mtf_decode_sels g idxs = mtf_out (iota g) idxs.
Proof.
  unfold mtf_decode_sels. rewrite spec_fold, fast_rev_eq, app_nil_r, rev_involutive. reflexivity.
Qed.

Lemma firstn_mtf_out idxs : forall k perm,
  firstn k (mtf_out perm idxs) = mtf_out perm (firstn k idxs).
Proof.
  induction idxs as [|j r IH]; intros k perm; destruct k as [|k]; cbn [firstn mtf_out]; try reflexivity.
  destruct (mtf_pick (N.to_nat j) perm 0) as [v rest]. cbn [firstn]. f_equal. apply IH.
Qed.

Lemma mtf_out_length idxs : forall perm, length (mtf_out perm idxs) = length idxs.
Proof.
  induction idxs as [|j r IH]; intros perm; cbn [mtf_out length]; [reflexivity|].
  destruct (mtf_pick (N.to_nat j) perm 0) as [v rest]. cbn [length]. rewrite IH. reflexivity.
Qed.

Lemma pick_front_app (tl : list N) perm : forall i, (i < length perm)%nat ->
  pick_front i (perm ++ tl) = let (v, r) := mtf_pick i perm 0 in Some (v, r ++ tl).
Proof.
  induction perm as [|x perm IH]; intros i Hi; cbn [length] in Hi; [lia|].
  destruct i as [|i]; cbn [app pick_front mtf_pick]; [reflexivity|].
  rewrite IH by lia. destruct (mtf_pick i perm 0) as [y r']. reflexivity.
Qed.

Lemma pick_inv (P : N -> Prop) perm : forall i v rest, (i < length perm)%nat -> Forall P perm ->
  mtf_pick i perm 0 = (v, rest) -> length (v :: rest) = length perm /\ Forall P (v :: rest).
Proof.
  induction perm as [|x perm IH]; intros i v rest Hi HF Hp; cbn [length] in Hi; [lia|].
  inversion HF as [|x' l' Hx HF']; subst.
  destruct i as [|i]; cbn [mtf_pick] in Hp.
  - injection Hp as <- <-. split; [reflexivity | constructor; assumption].
  - destruct (mtf_pick i perm 0) as [y r'] eqn:E. injection Hp as <- <-.
    destruct (IH i y r' ltac:(lia) HF' E) as [H1 H2].
    inversion H2 as [|y' r'' Hy Hr']; subst.
    split; [cbn [length] in *; lia|]. constructor; [exact Hy|]. constructor; assumption.
Qed.

Lemma mtf_out_Forall (g : N) idxs : forall perm,
  length perm = N.to_nat g -> Forall (fun v => v < g) perm -> Forall (fun j => j < g) idxs ->
  Forall (fun v => v < g) (mtf_out perm idxs).
Proof.
  induction idxs as [|j r IH]; intros perm Hlen HF Hidx; cbn [mtf_out]; [constructor|].
  inversion Hidx as [|j' r' Hj Hr]; subst.
  destruct (mtf_pick (N.to_nat j) perm 0) as [v rest] eqn:E.
  destruct (pick_inv (fun v => v < g) perm (N.to_nat j) v rest ltac:(lia) HF E) as [H1 H2].
  constructor.
  - inversion H2; assumption.
  - apply IH; [lia | exact H2 | exact Hr].
Qed.

(* Go's list is [perm ++ tl]: the tail never moves because every index is below [length perm] *)
Lemma go_fold (g : N) (tl : list N) idxs : forall perm out,
  Forall (fun j => j < g) idxs -> length perm = N.to_nat g ->
  exists perm',
    fold_left
      (fun (st : option (list N * list N)) j =>
         match st with
         | None => None
         | Some (dict, out) =>
           match pick_front (N.to_nat j) dict with
           | Some (v, rest) => Some (v :: rest, v :: out)
           | None => None
           end
         end) idxs (Some (perm ++ tl, out))
    = Some (perm' ++ tl, rev (mtf_out perm idxs) ++ out).
Proof.
  induction idxs as [|j r IH]; intros perm out Hidx Hlen; cbn [fold_left mtf_out].
  - exists perm. reflexivity.
  - inversion Hidx as [|j' r' Hj Hr]; subst.
    rewrite pick_front_app by lia.
    destruct (mtf_pick (N.to_nat j) perm 0) as [v rest] eqn:E.
    destruct (pick_inv (fun _ => True) perm (N.to_nat j) v rest ltac:(lia)
                       ltac:(apply Forall_forall; intros; exact I) E) as [H1 _].
    destruct (IH (v :: rest) (v :: out) Hr ltac:(lia)) as (perm' & Ep).
    exists perm'. change (v :: rest ++ tl) with ((v :: rest) ++ tl). rewrite Ep.
    cbn [rev]. rewrite <- app_assoc. reflexivity.
Qed.

Lemma iota_split_le b m : b <= m -> exists tl, iota m = iota b ++ tl.
Proof.
  intros H. rewrite !iota_eq.
  replace (N.to_nat m) with (N.to_nat b + (N.to_nat m - N.to_nat b))%nat by lia.
  rewrite seq_app, map_app. eexists. reflexivity.
Qed.

Theorem sels_mtf_eq idxs g : 2 <= g <= 6 -> Forall (fun j => j < g) idxs ->
  exists l, go_sels_mtf idxs = ROk l /\ length l = length idxs /\
            Forall (fun v => v < g) l /\
            firstn (N.to_nat maxSelectors) l =
            mtf_decode_sels g (firstn (N.to_nat maxSelectors) idxs).
Proof.
  intros Hg Hidx.
  destruct (iota_split_le g 256 ltac:(lia)) as [tl Etl].
  destruct (go_fold g tl idxs (iota g) [] Hidx (iota_length g)) as (perm' & Ef).
  exists (mtf_out (iota g) idxs).
  split.
  - unfold go_sels_mtf. rewrite Etl, Ef, fast_rev_eq, app_nil_r, rev_involutive. reflexivity.
  - split; [apply mtf_out_length|]. split.
    + apply mtf_out_Forall; [apply iota_length | | exact Hidx].
      apply Forall_forall. intros x Hx. apply iota_In. exact Hx.
    + rewrite mtf_decode_sels_out. apply firstn_mtf_out.
Qed.

(* the selectors of a block, end to end on the pure side: what the specification reads and
   decodes is what Go's MoveToFront.Decode produces, up to libbzip2's cap *)
Corollary sels_of_spec n g s l s' : 2 <= g <= 6 ->
  run (SpecR.read_sels n g []) s = Done l s' ->
  exists sels, go_sels_mtf l = ROk sels /\ length sels = n /\ Forall (fun v => v < g) sels /\
               firstn (N.to_nat maxSelectors) sels =
               mtf_decode_sels g (firstn (N.to_nat maxSelectors) l).
Proof.
  intros Hg Hrun.
  destruct (spec_read_sels_range n g [] s l s' Hrun ltac:(constructor)) as [HF Hl].
  destruct (sels_mtf_eq l g Hg HF) as (sels & E & H1 & H2 & H3).
  exists sels. split; [exact E|]. split; [cbn [length] in Hl; lia|]. split; assumption.
Qed.

(* ---- non-vacuity --------------------------------------------------------------------------------- *)
Example go_sels_mtf_ex : go_sels_mtf [1; 1; 0; 2] = ROk [1; 0; 0; 2].
Proof. vm_compute. reflexivity. Qed.

Example mtf_decode_sels_ex : mtf_decode_sels 3 [1; 1; 0; 2] = [1; 0; 0; 2].
Proof. vm_compute. reflexivity. Qed.

(* decSel on a concrete Reader (ByteReader over the byte 11001000): selectors 2, 0, 1; the
   specification reads the same three and stands at bit 6; the check against numTrees fires *)
Example sels_ex :
  match decSel with
  | IOk dsel =>
    fst (Impl.read_sels 3 dsel 3 [] (bz_new [0xC8] false [] [])) = ROk [2; 0; 1] /\
    fst (Impl.read_sels 3 dsel 2 [] (bz_new [0xC8] false [] [])) = RThrow ECorrupted
  | _ => False
  end /\
  match run (SpecR.read_sels 3 3 []) (ast_init (stream_bits true [0xC8])) with
  | Done l s' => l = [2; 0; 1] /\ a_pos s' = 6
  | Fail _ _ => False
  end /\
  match run (SpecR.read_sels 3 2 []) (ast_init (stream_bits true [0xC8])) with
  | Done _ _ => False
  | Fail e _ => e = ECorrupted
  end.
Proof. vm_compute. repeat split. Qed.

Print Assumptions decSel_ok.
Print Assumptions sel_sim.
Print Assumptions sels_sim.
Print Assumptions spec_read_sels_range.
Print Assumptions sels_mtf_eq.
