(* bzip2/prefix.go: handleDegenerateCodes and the dispatch in ReadPrefixCodes.

   An executable model that follows the Go code function by function:

     createTables  (BZ2_hbCreateDecodeTables)   [create_tables]
     getSymbol     (GET_MTF_VAL)                [get_symbol]
     exploreCode   (recursive exploration)      [explore]
     step 3        (copy the sparse codes)      [handle_degenerate]
     ReadPrefixCodes, "sum == 0" dispatch       [build_codes]

   Go slices and arrays are lists with CHECKED indexing ([aget]/[aset] return
   None outside the bounds): a run-time panic of the Go code is the explicit
   outcome [DPanic]; the recursion of exploreCode has explicit fuel ([DFuel]).
   Bzip2/DegenerateThms.v proves that neither outcome is reachable for length
   vectors of 2..258 symbols with lengths 1..20.  Outside that domain (the
   caller never leaves it) the model is still the Go code: a length 0 gives the
   empty list, a length >= 21 or more than 258 lengths a panic; only a length
   >= 2^32-1, for which the uint32 loop counter of the Go code wraps around,
   is [DUnmodelled].

   Numbers.  The int32 arrays limits/bases/perms and the int32 locals vec/zvec
   are Z WITHOUT wrap-around: whenever createTables returns without panic the
   vector has at most 258 lengths, all <= 20 (more than 258 lengths overflow
   perms[pp]; a length >= 21 overflows bases[c.Len+1]), and then every value is
   bounded in absolute value by 258 * 2^22 < 2^31 (theorem
   [create_tables_int32] in DegenerateCheck.v, with the loop invariants of
   DegenerateTables.v).  The uint32 word v of getSymbol
   does overflow on "v <<= zn" and "v <<= 1": written [w32] (and 0xffffffff).

   No proofs here (the file is extracted). *)
From V Require Import Base.Prelude Base.Prog Bzip2.Common Prefix.Code.

Local Open Scope N_scope.

Definition maxNumSyms : N := 258.

(* a code as prefix.PrefixCode{Sym, Len, Val}: ((sym, len), val); Val holds the
   bits in reading order, first bit in bit 0 *)
Definition pcode := (N * N * N)%type.
Definition c_sym (c : pcode) : N := fst (fst c).
Definition c_len (c : pcode) : N := snd (fst c).
Definition c_val (c : pcode) : N := snd c.

(* ---- checked arrays ------------------------------------------------------ *)
Fixpoint aget {A : Type} (a : list A) (i : N) : option A :=
  match a with
  | [] => None
  | x :: r => match i with N0 => Some x | _ => aget r (N.pred i) end
  end.

Fixpoint aset {A : Type} (a : list A) (i : N) (v : A) : option (list A) :=
  match a with
  | [] => None
  | x :: r =>
    match i with
    | N0 => Some (v :: r)
    | _ => match aset r (N.pred i) v with Some r' => Some (x :: r') | None => None end
    end
  end.

(* fold_left in the option monad: a loop whose body may panic *)
Fixpoint ofold {S A : Type} (f : S -> A -> option S) (l : list A) (s : S) : option S :=
  match l with
  | [] => Some s
  | x :: r => match f s x with Some s' => ofold f r s' | None => None end
  end.

(* for i := lo; i <= hi; i++ *)
Definition range_n (lo hi : N) : list N :=
  if lo <=? hi then map (fun i => lo + i) (iota (hi - lo + 1)) else [].

(* ---- createTables ---------------------------------------------------------- *)
Record dtab := mkDtab {
  d_min : N; d_max : N;          (* minLen, maxLen *)
  d_limits : list Z;             (* [maxPrefixBits+2]int32 *)
  d_bases  : list Z;             (* [maxPrefixBits+2]int32 *)
  d_perms  : list Z              (* [maxNumSyms]int32 *)
}.

(* first loop: maxLen from 0 up, minLen from maxPrefixBits down *)
Definition scan_minmax (lens : list N) : N * N :=
  fold_left (fun (st : N * N) l =>
               let mx := if snd st <? l then l else snd st in
               let mn := if l <? fst st then l else fst st in (mn, mx))
            lens (maxPrefixBits, 0).

(* second loop: for i in minLen..maxLen, for j, c in codes:
   if c.Len == i { perms[pp] = j; pp++ } *)
Definition perms_inner (i : N) (st : list Z * N) (jl : N * N) : option (list Z * N) :=
  if snd jl =? i then
    match aset (fst st) (snd st) (Z.of_N (fst jl)) with
    | Some p => Some (p, snd st + 1)
    | None => None
    end
  else Some st.

Definition fill_perms (lens : list N) (mn mx : N) (perms : list Z) : option (list Z) :=
  let indexed := combine (iota (len_n lens)) lens in
  match ofold (fun st i => ofold (perms_inner i) indexed st) (range_n mn mx) (perms, 0) with
  | Some st => Some (fst st)
  | None => None
  end.

(* bases[c.Len+1]++ *)
Definition count_bases (lens : list N) (bases : list Z) : option (list Z) :=
  ofold (fun b l => match aget b (l + 1) with
                    | Some x => aset b (l + 1) (x + 1)%Z
                    | None => None
                    end) lens bases.

(* for i := 1; i < len(bases); i++ { bases[i] += bases[i-1] } *)
Definition sum_bases (bases : list Z) : option (list Z) :=
  ofold (fun b i => match aget b i, aget b (i - 1) with
                    | Some x, Some y => aset b i (x + y)%Z
                    | _, _ => None
                    end) (range_n 1 (N.of_nat (length bases) - 1)) bases.

(* for i in minLen..maxLen { vec += bases[i+1]-bases[i]; limits[i] = vec-1; vec <<= 1 } *)
Definition fill_limits (bases : list Z) (mn mx : N) (limits : list Z) : option (list Z) :=
  match ofold (fun (st : Z * list Z) i =>
                 match aget bases (i + 1), aget bases i with
                 | Some b1, Some b0 =>
                   let vec := (fst st + (b1 - b0))%Z in
                   match aset (snd st) i (vec - 1)%Z with
                   | Some lim => Some ((vec * 2)%Z, lim)
                   | None => None
                   end
                 | _, _ => None
                 end) (range_n mn mx) (0%Z, limits) with
  | Some st => Some (snd st)
  | None => None
  end.

(* for i in minLen+1..maxLen { bases[i] = ((limits[i-1]+1)<<1) - bases[i] } *)
Definition fix_bases (limits : list Z) (mn mx : N) (bases : list Z) : option (list Z) :=
  ofold (fun b i => match aget limits (i - 1), aget b i with
                    | Some l, Some x => aset b i ((l + 1) * 2 - x)%Z
                    | _, _ => None
                    end) (range_n (mn + 1) mx) bases.

(* None = run-time panic.  A length >= 21: the perms loop either panics (more
   than 258 codes) or ends, and then "bases[c.Len+1]++" is out of range for
   the first such code; the loops are not unfolded up to such a maxLen. *)
Definition create_tables (lens : list N) : option dtab :=
  let (mn, mx) := scan_minmax lens in
  if 21 <=? mx then None else
  match fill_perms lens mn mx (repeat 0%Z 258) with
  | None => None
  | Some perms =>
    match count_bases lens (repeat 0%Z 22) with
    | None => None
    | Some b0 =>
      match sum_bases b0 with
      | None => None
      | Some b1 =>
        match fill_limits b1 mn mx (repeat 0%Z 22) with
        | None => None
        | Some limits =>
          match fix_bases limits mn mx b1 with
          | None => None
          | Some bases => Some (mkDtab mn mx limits bases perms)
          end
        end
      end
    end
  end.

(* ---- getSymbol -------------------------------------------------------------- *)
Inductive dstatus :=
| SOkay (sym : N) | SInvalid | SNeedBits | SMaxBits
| SPanic | SFuel.

Definition reverse32 (v : N) : N := reverse_bits v 32.
(* truncation to uint32 *)
Definition w32 (x : N) : N := N.land x mask32.

(* after the loop: the range check and perms[zvec-bases[zn]] *)
Definition gs_finish (T : dtab) (zn : N) (zvec : Z) : dstatus :=
  match aget (d_bases T) zn with
  | None => SPanic
  | Some b =>
    let idx := (zvec - b)%Z in
    if ((idx <? 0) || (Z.of_N maxNumSyms <=? idx))%Z then SInvalid
    else match aget (d_perms T) (Z.to_N idx) with
         | Some p => SOkay (Z.to_N p)          (* uint32(perms[..]) of a value in 0..257 *)
         | None => SPanic
         end
  end.

(* the for loop; n = c.Len.  "(zvec << 1) | int32(v>>31)": the shifted zvec
   has bit 0 clear, so the OR is an addition *)
Fixpoint gs_loop (fuel : nat) (T : dtab) (n zn : N) (zvec : Z) (v : N) : dstatus :=
  match fuel with
  | O => SFuel
  | S f =>
    if d_max T <? zn then SMaxBits else
    match aget (d_limits T) zn with
    | None => SPanic
    | Some lim =>
      if (zvec <=? lim)%Z then gs_finish T zn zvec
      else
        let zn := zn + 1 in
        if n <? zn then SNeedBits
        else gs_loop f T n zn (zvec * 2 + Z.of_N (N.shiftr v 31))%Z (w32 (v * 2))
    end
  end.

Definition get_symbol (T : dtab) (len val : N) : dstatus :=
  let v := reverse32 val in
  let zn := d_min T in
  if len <? zn then SNeedBits else
  let zvec := Z.of_N (N.shiftr v (32 - zn)) in        (* zn = 0: v >> 32 = 0 *)
  let v := w32 (N.shiftl v zn) in
  gs_loop 23 T len zn zvec v.

(* ---- exploreCode ------------------------------------------------------------- *)
Inductive xres := XOk (term : bool) (pc : list pcode) | XPanic | XFuel.

Definition push_invalid (pc : list pcode) (len val : N) : list pcode :=
  pc ++ [(N.of_nat (length pc), len, val)].           (* c.Sym = uint32(len(pcodes)); append *)

(* the code explored is (len, val); its Sym field is 0 until it is stored *)
Fixpoint explore (fuel : nat) (T : dtab) (len val : N) (pc : list pcode) : xres :=
  match fuel with
  | O => XFuel
  | S f =>
    match get_symbol T len val with
    | SOkay sym =>
      match aset pc sym (sym, len, val) with            (* pcodes[sym] = c *)
      | Some pc' => XOk true pc'
      | None => XPanic
      end
    | SInvalid => XOk true (push_invalid pc len val)
    | SNeedBits =>
      let len1 := len + 1 in                           (* c.Len++ *)
      let val1 := N.lor val (w32 (N.shiftl 1 (len1 - 1))) in
      match explore f T len1 val pc with
      | XOk b0 pc0 =>
        match explore f T len1 val1 pc0 with
        | XOk b1 pc1 =>
          let pc2 := if negb b0 && b1 then push_invalid pc1 len1 val
                     else if negb b1 && b0 then push_invalid pc1 len1 val1
                     else pc1 in
          XOk (b0 || b1) pc2
        | r => r
        end
      | r => r
      end
    | SMaxBits => XOk false pc
    | SPanic => XPanic
    | SFuel => XFuel
    end
  end.

(* ---- handleDegenerateCodes ------------------------------------------------------ *)
Inductive dres :=
| DOk (codes : list pcode)
| DPanic                        (* index out of range *)
| DFuel                         (* model budget; excluded by theorem *)
| DUnmodelled.                  (* a length >= 2^32-1: "i <= maxLen" never false on uint32 *)

Definition explore_fuel : nat := 24.

Definition handle_degenerate (lens : list N) : dres :=
  if existsb (fun l => 4294967295 <=? l) lens then DUnmodelled else
  match create_tables lens with
  | None => DPanic
  | Some T =>
    match explore explore_fuel T 0 0 (repeat (0, 0, 0) (N.to_nat maxNumSyms)) with
    | XOk _ pc => DOk (filter (fun c => 0 <? c_len c) pc)
    | XPanic => DPanic
    | XFuel => DFuel
    end
  end.

(* ---- ReadPrefixCodes: which construction is used ---------------------------------- *)
Inductive bres :=
| BOk (codes : list pcode)
| BInternal                     (* errors.Panic(err) of GeneratePrefixes: "should never fail" *)
| BPanic | BFuel | BUnmodelled.

(* sum := 1<<20; sum -= (1<<20) >> clen      (Go int: 64 bits, no overflow) *)
Definition kraft_rest (lens : list N) : Z :=
  fold_left (fun s l => (s - Z.shiftr 1048576 (Z.of_N l))%Z) lens 1048576%Z.

Definition build_codes (lens : list N) : bres :=
  if (kraft_rest lens =? 0)%Z then
    match gen_prefixes (combine (iota (len_n lens)) lens) with
    | GPOk out => BOk out
    | GPInvalid => BInternal
    end
  else
    match handle_degenerate lens with
    | DOk out => BOk out
    | DPanic => BPanic
    | DFuel => BFuel
    | DUnmodelled => BUnmodelled
    end.

(* ---- what decoding with a code list means -------------------------------------------
   The bits of a code in reading order; a bit string is decoded by the first
   entry that is a prefix of it (for the prefix-free lists produced above at
   most one entry is).  The chunks/links tables of prefix.Decoder are a
   refinement of this (Prefix/DecTable). Result: (symbol, bits consumed). *)
Definition code_bits (c : pcode) : list bool := val_bits (N.to_nat (c_len c)) (c_val c).

Fixpoint decode_with_codes (cs : list pcode) (bs : list bool) : option (N * N) :=
  match cs with
  | [] => None
  | c :: r => if is_prefix_b (code_bits c) bs then Some (c_sym c, c_len c)
              else decode_with_codes r bs
  end.
