(* C04, stage 4b: the delta coding of the code lengths of the Huffman trees.
   Encoder [SpecW.write_lens]: 5-bit start value (= first length), then per length l,
   from the current value clen, (clen - l) times "1 1" or (l - clen) times "1 0", then "0".
   Decoder [SpecR.read_lens] / [clen_body] / [read_tables].

   [loop_count]          a counted unrolling of [loop]: k continuing iterations, k < 2^d
   [lens_bits]           the bits [write_lens] appends, in stream order
   [write_lens_appends]  ... and it appends exactly these
   [read_lens_correct]   one tree is read back
   [read_tables_correct] all trees are read back *)
From V Require Import Base.Prelude Base.Prog Base.ProgThms Base.DepthThms Bzip2.Common Bzip2.SpecR
  Bzip2.SpecW Bzip2.SortLemmas Bzip2.MtfRle2 Bzip2.BitIO.
Local Open Scope N_scope.

(* ---- counted unrolling of a loop ------------------------------------------------------ *)
(* [loopsn body k st s r]: [Base.DepthThms.loops] with the number k of continuing
   ([inl]) iterations before the final one *)
Inductive loopsn {St R} (body : St -> prog (St + R)) : nat -> St -> ast -> result R -> Prop :=
| loopsn_fail st s e s' : run (body st) s = Fail e s' -> loopsn body 0 st s (Fail e s')
| loopsn_done st s x s' : run (body st) s = Done (inr x) s' -> loopsn body 0 st s (Done x s')
| loopsn_step k st s st1 s1 r :
    run (body st) s = Done (inl st1) s1 -> loopsn body k st1 s1 r -> loopsn body (S k) st s r.

Lemma loopsn_loops {St R} (body : St -> prog (St + R)) k st s r :
  loopsn body k st s r -> loops body st s r.
Proof.
  intros H. induction H as [st s e s' E|st s x s' E|k st s st1 s1 r E H IH].
  - apply loops_fail; exact E.
  - apply loops_done; exact E.
  - eapply loops_step; eauto.
Qed.

(* the result of the loop as a result of [iter2] *)
Definition fin_res {St R} (r : result R) : result (St + R) :=
  match r with Done x s' => Done (inr x) s' | Fail e s' => Fail e s' end.

Lemma iter2_count {St R} (body : St -> prog (St + R)) d : forall k st s r,
  loopsn body k st s r ->
  ((k < 2 ^ d)%nat -> run (iter2 d body st) s = fin_res r) /\
  ((2 ^ d <= k)%nat -> exists st' s',
     run (iter2 d body st) s = Done (inl st') s' /\ loopsn body (k - 2 ^ d) st' s' r).
Proof.
  induction d as [|d IH]; intros k st s r H.
  - cbn [iter2 Nat.pow]. split; intros Hk.
    + inversion H; subst; try lia; cbn [fin_res]; assumption.
    + inversion H; subst; try lia.
      eexists; eexists; split; [eassumption|].
      replace (S k0 - 1)%nat with k0 by lia. assumption.
  - assert (E2 : (2 ^ S d = 2 ^ d + 2 ^ d)%nat) by (cbn [Nat.pow]; lia).
    rewrite E2. cbn [iter2]. rewrite run_bind.
    destruct (IH k st s r H) as [Hlt Hge].
    split; intros Hk.
    + destruct (Nat.lt_ge_cases k (2 ^ d)) as [Hk1|Hk1].
      * rewrite (Hlt Hk1). destruct r as [x s'|e s']; reflexivity.
      * destruct (Hge Hk1) as [st' [s' [E H']]]. rewrite E.
        destruct (IH _ _ _ _ H') as [Hlt' _]. apply Hlt'. lia.
    + assert (Hk1 : (2 ^ d <= k)%nat) by lia.
      destruct (Hge Hk1) as [st' [s' [E H']]]. rewrite E.
      destruct (IH _ _ _ _ H') as [_ Hge'].
      destruct Hge' as [st2 [s2 [E' H2]]]; [lia|].
      exists st2, s2. split; [exact E'|].
      replace (k - (2 ^ d + 2 ^ d))%nat with (k - 2 ^ d - 2 ^ d)%nat by lia. exact H2.
Qed.

Theorem loop_count {St R} d (body : St -> prog (St + R)) k st s r :
  loopsn body k st s r -> (k < 2 ^ d)%nat -> run (loop d body st) s = r.
Proof.
  intros H Hk. unfold loop. rewrite run_bind.
  destruct (iter2_count body d k st s r H) as [Hlt _]. rewrite (Hlt Hk).
  destruct r as [x s'|e s']; reflexivity.
Qed.

(* ---- the bits of one tree --------------------------------------------------------------- *)
(* n times the pair "a b" *)
Fixpoint rep2 (n : nat) (a b : bool) : list bool :=
  match n with
  | O => []
  | S n' => a :: b :: rep2 n' a b
  end.

Lemma rep2_snoc n a b : rep2 n a b ++ [a; b] = a :: b :: rep2 n a b.
Proof. induction n as [|n IH]; cbn [rep2 app]; [reflexivity | rewrite IH; reflexivity]. Qed.

Lemma rep2_length n a b : length (rep2 n a b) = (2 * n)%nat.
Proof. induction n as [|n IH]; cbn [rep2 length]; lia. Qed.

(* from the current value clen to l, closed by "0" *)
Definition delta_bits (clen l : N) : list bool :=
  (if l <? clen then rep2 (N.to_nat (clen - l)) true true
   else rep2 (N.to_nat (l - clen)) true false) ++ [false].

Fixpoint lens_bits_from (clen : N) (lens : list N) : list bool :=
  match lens with
  | [] => []
  | l :: r => delta_bits clen l ++ lens_bits_from l r
  end.

Definition lens_bits (lens : list N) : list bool :=
  mbits 5 (hd 0 lens) ++ lens_bits_from (hd 0 lens) lens.

(* ---- the writer ---------------------------------------------------------------------------- *)
Lemma iter_rep2 n a b acc : N.iter n (fun x => b :: a :: x) acc = rev (rep2 (N.to_nat n) a b) ++ acc.
Proof.
  rewrite N2Nat.inj_iter. induction (N.to_nat n) as [|m IH]; [reflexivity|].
  unfold Nat.iter in *. cbn [nat_rect]. rewrite IH.
  cbn [rep2]. rewrite <- rep2_snoc, rev_app_distr. reflexivity.
Qed.

Lemma write_lens_fold lens : forall clen acc,
  snd (fold_left
    (fun (st : N * list bool) l =>
       let clen := fst st in
       let a := snd st in
       let a := if l <? clen then N.iter (clen - l) (fun x => true :: true :: x) a
                else N.iter (l - clen) (fun x => false :: true :: x) a in
       (l, false :: a))
    lens (clen, acc)) =
  rev (lens_bits_from clen lens) ++ acc.
Proof.
  induction lens as [|l r IH]; intros clen acc; cbn [fold_left lens_bits_from]; [reflexivity|].
  cbn [fst snd]. rewrite IH.
  rewrite rev_app_distr, <- app_assoc. f_equal.
  unfold delta_bits. rewrite rev_app_distr. cbn [rev app].
  destruct (l <? clen); rewrite iter_rep2; reflexivity.
Qed.

Theorem write_lens_appends lens : appends (write_lens lens) (lens_bits lens).
Proof.
  intros acc. unfold write_lens, lens_bits. rewrite write_lens_fold.
  rewrite wbits_eq, rev_app_distr, <- app_assoc. reflexivity.
Qed.

(* ---- the reader ------------------------------------------------------------------------------ *)
Lemma clen_ok c : 1 <= c <= 20 -> (1 <=? c) && (c <=? maxPrefixBits) = true.
Proof.
  intros [H1 H2]. change maxPrefixBits with 20. apply andb_true_iff. split; apply N.leb_le; assumption.
Qed.

Lemma clen_body_stop c rest pos out len :
  1 <= c <= 20 ->
  run (clen_body c) (mkAst (false :: rest) pos out len) = Done (inr c) (mkAst rest (pos + 1) out len).
Proof. intros Hc. unfold clen_body. rewrite (clen_ok c Hc). reflexivity. Qed.

Lemma clen_body_move c d rest pos out len :
  1 <= c <= 20 ->
  run (clen_body c) (mkAst (true :: d :: rest) pos out len) =
  Done (inl (if d then c - 1 else c + 1)) (mkAst rest (pos + 1 + 1) out len).
Proof. intros Hc. unfold clen_body. rewrite (clen_ok c Hc). reflexivity. Qed.

Lemma loopsn_up n : forall c rest pos out len,
  1 <= c -> c + N.of_nat n <= 20 ->
  loopsn clen_body n c (mkAst (rep2 n true false ++ false :: rest) pos out len)
    (Done (c + N.of_nat n) (mkAst rest (pos + N.of_nat (2 * n + 1)) out len)).
Proof.
  induction n as [|n IH]; intros c rest pos out len H1 H2.
  - cbn [rep2 app]. rewrite N.add_0_r. apply loopsn_done. apply clen_body_stop. lia.
  - cbn [rep2 app]. eapply loopsn_step; [apply clen_body_move; lia|].
    replace (c + N.of_nat (S n)) with (c + 1 + N.of_nat n) by lia.
    replace (pos + N.of_nat (2 * S n + 1)) with (pos + 1 + 1 + N.of_nat (2 * n + 1)) by lia.
    apply IH; lia.
Qed.

Lemma loopsn_down n : forall c rest pos out len,
  1 + N.of_nat n <= c -> c <= 20 ->
  loopsn clen_body n c (mkAst (rep2 n true true ++ false :: rest) pos out len)
    (Done (c - N.of_nat n) (mkAst rest (pos + N.of_nat (2 * n + 1)) out len)).
Proof.
  induction n as [|n IH]; intros c rest pos out len H1 H2.
  - cbn [rep2 app]. rewrite N.sub_0_r. apply loopsn_done. apply clen_body_stop. lia.
  - cbn [rep2 app]. eapply loopsn_step; [apply clen_body_move; lia|].
    replace (c - N.of_nat (S n)) with (c - 1 - N.of_nat n) by lia.
    replace (pos + N.of_nat (2 * S n + 1)) with (pos + 1 + 1 + N.of_nat (2 * n + 1)) by lia.
    apply IH; lia.
Qed.

Lemma pow2_5_le depth : (5 <= depth)%nat -> (32 <= 2 ^ depth)%nat.
Proof.
  intros H. change 32%nat with (2 ^ 5)%nat. apply Nat.pow_le_mono_r; lia.
Qed.

(* one length *)
Lemma reads_delta depth clen l :
  (5 <= depth)%nat -> 1 <= clen <= 20 -> 1 <= l <= 20 ->
  reads (loop depth clen_body clen) (delta_bits clen l) l.
Proof.
  intros Hd Hc Hl rest pos out len. pose proof (pow2_5_le depth Hd) as Hp.
  unfold delta_bits. rewrite <- app_assoc. cbn [app].
  destruct (l <? clen) eqn:E.
  - apply N.ltb_lt in E. set (n := N.to_nat (clen - l)).
    apply (loop_count depth clen_body n); [|subst n; lia].
    rewrite app_length, rep2_length. cbn [length].
    replace l with (clen - N.of_nat n) at 1 by (subst n; lia).
    apply loopsn_down; subst n; lia.
  - apply N.ltb_ge in E. set (n := N.to_nat (l - clen)).
    apply (loop_count depth clen_body n); [|subst n; lia].
    rewrite app_length, rep2_length. cbn [length].
    replace l with (clen + N.of_nat n) at 1 by (subst n; lia).
    apply loopsn_up; subst n; lia.
Qed.

Lemma reads_lens_from depth lens : forall clen acc,
  (5 <= depth)%nat -> 1 <= clen <= 20 -> (forall l, In l lens -> 1 <= l <= 20) ->
  reads (read_lens depth (length lens) clen acc) (lens_bits_from clen lens) (rev acc ++ lens).
Proof.
  induction lens as [|l r IH]; intros clen acc Hd Hc Hl; cbn [length read_lens lens_bits_from].
  - eapply reads_eq; [apply reads_ret | reflexivity|]. rewrite fast_rev_eq, app_nil_r. reflexivity.
  - assert (Hl1 : 1 <= l <= 20) by (apply Hl; left; reflexivity).
    eapply reads_bind; [apply reads_delta; assumption|].
    eapply reads_eq; [apply IH; [assumption | assumption | intros x Hx; apply Hl; right; exact Hx]
                     | reflexivity|].
    cbn [rev]. rewrite <- app_assoc. reflexivity.
Qed.

(* one tree *)
Theorem read_lens_correct depth lens :
  (5 <= depth)%nat -> lens <> [] -> (forall l, In l lens -> 1 <= l <= 20) ->
  reads (start <- rbits 5 ;; read_lens depth (length lens) start []) (lens_bits lens) lens.
Proof.
  intros Hd Hne Hl. unfold lens_bits.
  assert (Hs : 1 <= hd 0 lens <= 20).
  { destruct lens as [|l r]; [congruence|]. apply Hl. left. reflexivity. }
  eapply reads_bind.
  - apply reads_rbits. change (2 ^ N.of_nat 5) with 32. lia.
  - apply (reads_lens_from depth lens (hd 0 lens) [] Hd Hs Hl).
Qed.

(* all trees *)
Theorem read_tables_correct depth alpha lenss acc :
  (5 <= depth)%nat ->
  (forall lens, In lens lenss -> length lens = alpha /\ lens <> [] /\ forall l, In l lens -> 1 <= l <= 20) ->
  reads (read_tables depth (length lenss) alpha acc) (flat_map lens_bits lenss) (rev acc ++ map mk_table lenss).
Proof.
  intros Hd. revert acc. induction lenss as [|lens r IH]; intros acc H;
    cbn [length read_tables flat_map map].
  - eapply reads_eq; [apply reads_ret | reflexivity|]. rewrite fast_rev_eq, app_nil_r. reflexivity.
  - destruct (H lens (or_introl eq_refl)) as [Ha [Hne Hl]].
    assert (Hs : 1 <= hd 0 lens <= 20).
    { destruct lens as [|l t]; [congruence|]. apply Hl. left. reflexivity. }
    unfold lens_bits at 1. rewrite <- app_assoc.
    eapply reads_bind; [apply reads_rbits; change (2 ^ N.of_nat 5) with 32; lia|].
    eapply reads_bind.
    + rewrite <- Ha. apply (reads_lens_from depth lens (hd 0 lens) [] Hd Hs Hl).
    + cbn [rev app].
      eapply reads_eq; [apply IH; intros x Hx; apply H; right; exact Hx | reflexivity|].
      cbn [rev]. rewrite <- app_assoc. reflexivity.
Qed.

(* ---- non-vacuity ----------------------------------------------------------------------------- *)
Example lens_bits_ex :
  lens_bits [3; 5; 2; 2] =
  [false; false; false; true; true;  false;
   true; false; true; false; false;
   true; true; true; true; true; true; false;
   false].
Proof. vm_compute. reflexivity. Qed.

Example write_read_lens_ex :
  let lenss := [[3; 5; 2; 2; 20; 1]; [1; 1; 7; 6; 6; 20]] in
  let bits := fast_rev (fold_left (fun a l => write_lens l a) lenss []) in
  bits = flat_map lens_bits lenss /\
  run (read_tables 5 2 6 []) (mkAst (bits ++ [true; false]) 7 [] 0) =
  Done (map mk_table lenss) (mkAst [true; false] (7 + N.of_nat (length bits)) [] 0).
Proof. vm_compute. split; reflexivity. Qed.

Example loop_count_ex :
  loopsn clen_body 2 3 (mkAst [true; false; true; false; false; true] 0 [] 0)
    (Done 5 (mkAst [true] 5 [] 0)).
Proof.
  eapply loopsn_step; [vm_compute; reflexivity|].
  eapply loopsn_step; [vm_compute; reflexivity|].
  apply loopsn_done. vm_compute. reflexivity.
Qed.

Print Assumptions loop_count.
Print Assumptions write_lens_appends.
Print Assumptions read_lens_correct.
Print Assumptions read_tables_correct.
Print Assumptions write_read_lens_ex.
