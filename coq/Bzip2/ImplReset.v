(* Layer (g), Reset: a Reader that has been used on anything (to the end, to an error, or
   abandoned in the middle of a stream) and is Reset onto a new input behaves on that input as
   a new Reader does: the refinement theorem holds for the new input.  The recycled Decoder
   objects keep their stale tables; Decoder.Init overwrites every entry it later reads
   (Prefix/DecTableThms.v dec_table_correct holds for any previous contents). *)
From V Require Import Base.Prelude Base.Prog Bzip2.Common Bzip2.SpecR Prefix.ReaderImpl Prefix.ReaderSpec
  Prefix.ReaderThms Prefix.DecTable Prefix.DecReadThms Bzip2.Impl Bzip2.ImplBits Bzip2.ImplRle
  Bzip2.ImplRead Bzip2.ImplSpecRun Bzip2.ImplInv Bzip2.ImplThms Bzip2.ImplFrame.

Local Open Scope N_scope.

Lemma inv_reset data (Hd : forall b, In b data -> b < 256) st buffered fills reads :
  length (z_trees st) = 6%nat -> Inv data (bz_reset st data buffered fills reads) [].
Proof.
  intros H6. split.
  - constructor; [reflexivity | exact H6 | reflexivity].
  - left. unfold InvStart. split; [reflexivity|]. split; [reflexivity|]. split; [reflexivity|].
    split.
    + split; [reflexivity|]. exists (block_run []), crc_init. split.
      * apply (owes_init [] (Forall_nil _)); reflexivity.
      * unfold block_run. cbn. lia.
    + split.
      * unfold ImplBits.Rep, bz_reset. cbn [z_rd]. apply Inv_PI. apply Inv_init.
      * apply (spec_run_loops data Hd).
Qed.

(* the refinement theorem after Reset, from any Reader state with its six Decoder objects *)
Theorem bzip2_reset_refines_libbzip2 :
  forall (st0 : bzst) (data : list byte) (buffered : bool) (fills reads : list nat) (sched : list nat)
         (obs : list bzobs) (fin : bzst) (pre : list bzobs) (o : bzobs) (e : err),
    length (z_trees st0) = 6%nat ->
    (forall b, In b data -> b < 256) ->
    bz_run (bz_reset st0 data buffered fills reads) sched = (obs, fin) ->
    obs = pre ++ [o] -> bo_err o = Some e ->
    let spec := bzip2_decode data in
    e <> EPanic /\ e <> EFuel /\
    match bz_err spec with
    | None => e = EEOF /\ obs_out obs = bz_out spec /\ bo_inOff o = Z.of_N (bz_used spec)
    | Some es => e <> EEOF /\ prefix_of (obs_out obs) (bz_out spec) /\
                 ((e = es /\ obs_out obs = bz_out spec) \/ e = EUEOF)
    end.
Proof.
  intros st0 data buffered fills reads sched obs fin pre o e H6 Hd Hrun Hobs Herr spec.
  rewrite bz_run_eq in Hrun.
  pose proof (run_final data Hd sched _ [] (inv_reset data Hd st0 buffered fills reads H6)
                        obs fin Hrun pre o e Hobs Herr) as Hf.
  cbn [app] in Hf. exact Hf.
Qed.

(* every state a Reader can be in has its six Decoder objects: a new Reader, after any schedule
   of Read calls (whatever they returned), after Reset *)
Inductive reachable : bzst -> Prop :=
| reach_new data buffered fills reads : reachable (bz_new data buffered fills reads)
| reach_run st sched : reachable st -> reachable (snd (bz_run st sched))
| reach_reset st data buffered fills reads : reachable st -> reachable (bz_reset st data buffered fills reads).

Lemma reachable_six st : reachable st -> length (z_trees st) = 6%nat.
Proof.
  induction 1 as [data buffered fills reads|st sched Hr IH|st data buffered fills reads Hr IH].
  - apply bz_new_six.
  - rewrite bz_run_trees. exact IH.
  - exact IH.
Qed.

Corollary bzip2_reset_reused_reader :
  forall (st0 : bzst) (data : list byte) (buffered : bool) (fills reads : list nat) (sched : list nat)
         (obs : list bzobs) (fin : bzst) (pre : list bzobs) (o : bzobs) (e : err),
    reachable st0 ->
    (forall b, In b data -> b < 256) ->
    bz_run (bz_reset st0 data buffered fills reads) sched = (obs, fin) ->
    obs = pre ++ [o] -> bo_err o = Some e ->
    let spec := bzip2_decode data in
    e <> EPanic /\ e <> EFuel /\
    match bz_err spec with
    | None => e = EEOF /\ obs_out obs = bz_out spec /\ bo_inOff o = Z.of_N (bz_used spec)
    | Some es => e <> EEOF /\ prefix_of (obs_out obs) (bz_out spec) /\
                 ((e = es /\ obs_out obs = bz_out spec) \/ e = EUEOF)
    end.
Proof.
  intros st0 data buffered fills reads sched obs fin pre o e Hr.
  apply bzip2_reset_refines_libbzip2. apply reachable_six. exact Hr.
Qed.

Print Assumptions bzip2_reset_reused_reader.
