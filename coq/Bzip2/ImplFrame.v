(* Frame property of the implementation-level model of bzip2.Reader (Bzip2/Impl.v):
   the number of recycled prefix.Decoder objects (zr.trees1D, the field [z_trees]) never
   changes, whatever a step does and however it ends (errors.Panic, run-time panic and
   exhausted fuel included).  Hence Reset always finds the six objects NewReader made.

   [keeps m] : running [m] from any state, with any result, leaves [length z_trees] alone.
   It is proved compositionally along the structure of every step function of Impl.v, then
   carried through one_round / drain / read_rounds / bz_read / bz_run. *)
From V Require Import Base.Prelude Bzip2.Common Prefix.Code Prefix.ReaderImpl Prefix.DecTable
                      Bzip2.Impl.
From V Require Bzip2.Degenerate.

Local Open Scope N_scope.
Local Open Scope bz_scope.

Definition keeps {A} (m : M A) : Prop :=
  forall st r st', m st = (r, st') -> length (z_trees st') = length (z_trees st).

(* ---- the monad ---------------------------------------------------------------------------- *)
Lemma keeps_ret {A} (a : A) : keeps (ret a).
Proof. intros st r st' H. unfold ret in H. inversion H; subst. reflexivity. Qed.

Lemma keeps_throw {A} (e : err) : keeps (@throw A e).
Proof. intros st r st' H. unfold throw in H. inversion H; subst. reflexivity. Qed.

Lemma keeps_corrupted {A} : keeps (@corrupted A).
Proof. unfold corrupted. apply keeps_throw. Qed.

Lemma keeps_mget : keeps mget.
Proof. intros st r st' H. unfold mget in H. inversion H; subst. reflexivity. Qed.

Lemma keeps_lift {A} (x : res A) : keeps (lift x).
Proof. intros st r st' H. unfold lift in H. inversion H; subst. reflexivity. Qed.

Lemma keeps_mupd (u : bzst -> bzst) :
  (forall st, length (z_trees (u st)) = length (z_trees st)) -> keeps (mupd u).
Proof. intros Hu st r st' H. unfold mupd in H. inversion H; subst. apply Hu. Qed.

Lemma keeps_bind {A B} (m : M A) (f : A -> M B) :
  keeps m -> (forall a, keeps (f a)) -> keeps (mbind m f).
Proof.
  intros Hm Hf st r st' H. unfold mbind in H.
  destruct (m st) as [[a|e] st1] eqn:Em.
  - apply Hf in H. apply Hm in Em. congruence.
  - inversion H; subst. eapply Hm. exact Em.
Qed.

Lemma keeps_iterM {S R} (d : nat) (body : S -> M (S + R)) :
  (forall s, keeps (body s)) -> forall s, keeps (iterM d body s).
Proof.
  intros Hb. induction d as [|d IH]; intros s; cbn [iterM]; [apply Hb|].
  apply keeps_bind; [apply IH|]. intros [s'|x]; [apply IH | apply keeps_ret].
Qed.

Lemma keeps_loopM {S R} (d : nat) (body : S -> M (S + R)) :
  (forall s, keeps (body s)) -> forall s, keeps (loopM d body s).
Proof.
  intros Hb s. unfold loopM. apply keeps_bind; [apply keeps_iterM; exact Hb|].
  intros [s'|x]; [apply keeps_throw | apply keeps_ret].
Qed.

(* ---- the bit reader ----------------------------------------------------------------------- *)
Lemma keeps_read_bits nb : keeps (m_read_bits nb).
Proof.
  intros st r st' H. unfold m_read_bits in H.
  destruct (read_bits (z_rd st) nb) as [o p']. destruct o as [v|]; inversion H; subst; reflexivity.
Qed.

Lemma keeps_bits_fast nb : keeps (m_bits_fast nb).
Proof.
  intros st r st' H. unfold m_bits_fast in H.
  destruct (try_read_bits (z_rd st) nb) as [o p']. destruct o as [v|].
  - inversion H; subst; reflexivity.
  - apply keeps_read_bits in H. rewrite H. reflexivity.
Qed.

Lemma keeps_read_pads : keeps m_read_pads.
Proof.
  intros st r st' H. unfold m_read_pads in H.
  destruct (read_pads (z_rd st)) as [v p']. inversion H; subst; reflexivity.
Qed.

Lemma keeps_read_symbol d : keeps (m_read_symbol d).
Proof.
  intros st r st' H. unfold m_read_symbol in H.
  destruct (dt_read_symbol d (z_rd st)) as [x p']. inversion H; subst; reflexivity.
Qed.

Lemma keeps_symbol_fast d : keeps (m_symbol_fast d).
Proof.
  intros st r st' H. unfold m_symbol_fast in H.
  destruct (try_read_symbol d (z_rd st)) as [x p']. destruct x as [[s|]|].
  - inversion H; subst; reflexivity.
  - apply keeps_read_symbol in H. rewrite H. reflexivity.
  - inversion H; subst; reflexivity.
Qed.

Lemma keeps_pull_first : keeps m_pull_first.
Proof.
  intros st r st' H. unfold m_pull_first in H.
  destruct (pull_bits (z_rd st) 1) as [e p']. destruct e; inversion H; subst; reflexivity.
Qed.

(* one structural step; the atoms proved so far are closed directly *)
Ltac kstep :=
  first
  [ apply keeps_ret | apply keeps_throw | apply keeps_corrupted | apply keeps_mget
  | apply keeps_lift | apply keeps_read_bits | apply keeps_bits_fast | apply keeps_read_pads
  | apply keeps_read_symbol | apply keeps_symbol_fast | apply keeps_pull_first
  | apply keeps_mupd; intro; reflexivity
  | apply keeps_bind; [|intro]
  | progress cbv zeta
  | match goal with |- keeps (match ?x with _ => _ end) => destruct x end ].
Ltac kp := repeat kstep.

Lemma keeps_read_be64 nb : keeps (m_read_be64 nb).
Proof. unfold m_read_be64. kp. Qed.

(* ---- ReadPrefixCodes ---------------------------------------------------------------------- *)
Lemma keeps_clen_body clen : keeps (clen_body clen).
Proof. unfold clen_body. kp. Qed.

Lemma keeps_read_clens d n : forall clen acc, keeps (read_clens d n clen acc).
Proof.
  induction n as [|n IH]; intros clen acc; cbn [read_clens]; [apply keeps_ret|].
  apply keeps_bind; [apply keeps_loopM; exact keeps_clen_body|]. intro c. apply IH.
Qed.

Lemma keeps_build_tree lens s : keeps (build_tree lens s).
Proof. unfold build_tree. kp. Qed.

Lemma frame_set_nth_length {A} (l : list A) : forall i x, length (set_nth i l x) = length l.
Proof.
  induction l as [|y l IH]; intros i x; [destruct i; reflexivity|].
  destruct i; cbn [set_nth length]; [reflexivity | rewrite IH; reflexivity].
Qed.

Lemma keeps_set_tree i s :
  keeps (mupd (fun st => set_trees st (set_nth i (z_trees st) s))).
Proof. apply keeps_mupd. intro st. cbn [set_trees z_trees]. apply frame_set_nth_length. Qed.

Lemma keeps_read_prefix_codes d numSyms k : forall i, keeps (read_prefix_codes d numSyms k i).
Proof.
  induction k as [|k IH]; intros i; cbn [read_prefix_codes]; [apply keeps_ret|].
  apply keeps_bind; [apply keeps_read_be64|]. intro clen.
  apply keeps_bind; [apply keeps_read_clens|]. intro lens.
  apply keeps_bind; [apply keeps_mget|]. intro st.
  destruct (nth_error (z_trees st) i) as [s|]; [|apply keeps_throw].
  apply keeps_bind; [apply keeps_build_tree|]. intro s'.
  apply keeps_bind; [apply keeps_set_tree|]. intros _. apply IH.
Qed.

(* ---- decodePrefix ------------------------------------------------------------------------- *)
Lemma keeps_read_sels n dsel numTrees : forall acc, keeps (read_sels n dsel numTrees acc).
Proof.
  induction n as [|n IH]; intros acc; cbn [read_sels]; [apply keeps_ret|].
  apply keeps_bind; [apply keeps_symbol_fast|]. intro sym.
  destruct (numTrees <=? sym); [apply keeps_corrupted | apply IH].
Qed.

Lemma keeps_sym_body trees numSyms limit y : keeps (sym_body trees numSyms limit y).
Proof. unfold sym_body. kp. Qed.

Lemma keeps_decode_prefix dictLen : keeps (decode_prefix dictLen).
Proof.
  unfold decode_prefix. cbv zeta.
  destruct (dictLen + 2 <? 3); [apply keeps_corrupted|].
  apply keeps_bind; [apply keeps_read_be64|]. intro numTrees.
  destruct ((numTrees <? minNumTrees) || (maxNumTrees <? numTrees)); [apply keeps_corrupted|].
  apply keeps_bind; [apply keeps_read_be64|]. intro numSels.
  destruct decSel as [dsel| |]; [|apply keeps_throw|apply keeps_throw].
  apply keeps_bind; [apply keeps_read_sels|]. intro idxs.
  apply keeps_bind; [apply keeps_lift|]. intro sels.
  apply keeps_bind; [apply keeps_mget|]. intro st.
  apply keeps_bind; [apply keeps_read_prefix_codes|]. intros _.
  apply keeps_bind; [apply keeps_mget|]. intro st2.
  apply keeps_loopM. intro y. apply keeps_sym_body.
Qed.

(* ---- decodeBlock -------------------------------------------------------------------------- *)
Lemma keeps_read_dict k : forall i bmapHi acc, keeps (read_dict k i bmapHi acc).
Proof.
  induction k as [|k IH]; intros i bmapHi acc; cbn [read_dict]; [apply keeps_ret|].
  destruct (N.odd bmapHi); [|apply IH].
  apply keeps_bind; [apply keeps_read_bits|]. intro bmapLo. apply IH.
Qed.

Lemma keeps_decode_block : keeps decode_block.
Proof.
  unfold decode_block.
  apply keeps_bind; [apply keeps_read_be64|]. intro magic.
  destruct (negb (magic =? blkMagic)).
  - destruct (magic =? endMagic); [|apply keeps_corrupted].
    apply keeps_bind; [apply keeps_read_be64|]. intro endCRC.
    apply keeps_bind; [apply keeps_mget|]. intro st.
    destruct (negb (z_endCRC st =? w32 endCRC)); [apply keeps_corrupted|].
    apply keeps_bind; [apply keeps_mupd; intro; reflexivity|]. intros _.
    apply keeps_bind; [apply keeps_read_pads|]. intros _.
    apply keeps_bind; [apply keeps_mupd; intro; reflexivity|]. intros _.
    apply keeps_ret.
  - apply keeps_bind; [apply keeps_mupd; intro; reflexivity|]. intros _.
    apply keeps_bind; [apply keeps_read_be64|]. intro blkCRC.
    apply keeps_bind; [apply keeps_mupd; intro; reflexivity|]. intros _.
    apply keeps_bind; [apply keeps_read_be64|]. intro rnd.
    destruct (negb (rnd =? 0)); [apply keeps_throw|].
    apply keeps_bind; [apply keeps_read_be64|]. intro ptr.
    apply keeps_bind; [apply keeps_read_bits|]. intro bmapHi.
    apply keeps_bind; [apply keeps_read_dict|]. intro dict.
    apply keeps_bind; [apply keeps_decode_prefix|]. intro syms.
    apply keeps_bind; [apply keeps_mget|]. intro st.
    apply keeps_bind; [apply keeps_lift|]. intro buf.
    destruct (len_n buf <=? ptr); [apply keeps_corrupted|].
    destruct (go_bwt_decode buf ptr) as [out|]; [apply keeps_ret | apply keeps_throw].
Qed.

(* ---- the closure under errors.Recover ------------------------------------------------------- *)
Lemma keeps_round_body : keeps round_body.
Proof.
  unfold round_body.
  apply keeps_bind; [apply keeps_mget|]. intro st.
  apply keeps_bind.
  - destruct (z_hdrftr st mod 2 =? 0).
    + apply keeps_bind; [apply keeps_pull_first|]. intros _.
      apply keeps_bind; [apply keeps_read_be64|]. intro magic.
      destruct (negb (magic =? hdrMagic)); [apply keeps_corrupted|].
      apply keeps_bind; [apply keeps_read_be64|]. intro ver.
      destruct (negb (ver =? 104)).
      * destruct (ver =? 48); [apply keeps_throw | apply keeps_corrupted].
      * apply keeps_bind; [apply keeps_read_be64|]. intro lvl.
        destruct ((lvl <? 49) || (57 <? lvl)); [apply keeps_corrupted|].
        apply keeps_mupd; intro; reflexivity.
    + destruct (negb (z_blkCRC st =? z_crc st)); [apply keeps_corrupted|].
      apply keeps_mupd; intro; reflexivity.
  - intros _. apply keeps_bind; [apply keeps_decode_block|]. intro buf.
    apply keeps_mupd; intro; reflexivity.
Qed.

(* ---- Read ----------------------------------------------------------------------------------- *)
Ltac break_all :=
  repeat (cbn [z_err z_trees set_inOff set_rd set_err set_rle set_crc set_outOff];
          match goal with
          | |- context [match ?x with _ => _ end] =>
            lazymatch x with
            | context [match _ with _ => _ end] => fail
            | _ => destruct x
            end
          end).

Lemma one_round_trees st : length (z_trees (one_round st)) = length (z_trees st).
Proof.
  unfold one_round.
  match goal with |- context [round_body ?s] => set (st0 := s) end.
  assert (H0 : length (z_trees st0) = length (z_trees st)) by reflexivity.
  destruct (round_body st0) as [r st1] eqn:Er. apply keeps_round_body in Er.
  rewrite <- H0, <- Er. clear H0 Er st0.
  destruct r as [u|e]; [|destruct e]; cbv zeta; break_all; reflexivity.
Qed.

Lemma drain_trees st n :
  match drain st n with
  | inl (_, st') => length (z_trees st') = length (z_trees st)
  | inr st' => length (z_trees st') = length (z_trees st)
  end.
Proof.
  unfold drain. cbv zeta.
  destruct (rle_read n _ _ _ _) as [[out e] r']. break_all; reflexivity.
Qed.

Lemma read_rounds_trees fuel : forall st n,
  length (z_trees (snd (read_rounds fuel st n))) = length (z_trees st).
Proof.
  induction fuel as [|f IH]; intros st n; cbn [read_rounds]; [reflexivity|].
  cbv zeta. pose proof (one_round_trees st) as H1.
  destruct (z_err (one_round st)) as [e|]; [cbn [snd]; exact H1|].
  pose proof (drain_trees (one_round st) n) as H2.
  destruct (drain (one_round st) n) as [[o st']|st2].
  - cbn [snd]. congruence.
  - rewrite IH. congruence.
Qed.

Theorem bz_read_trees st n : length (z_trees (snd (bz_read st n))) = length (z_trees st).
Proof.
  unfold bz_read. pose proof (drain_trees st n) as H.
  destruct (drain st n) as [[o st']|st1].
  - cbn [snd]. exact H.
  - rewrite read_rounds_trees. exact H.
Qed.

Lemma bz_run_acc_trees sched : forall st acc,
  length (z_trees (snd (bz_run_acc st sched acc))) = length (z_trees st).
Proof.
  induction sched as [|n sched IH]; intros st acc; cbn [bz_run_acc]; [reflexivity|].
  pose proof (bz_read_trees st n) as H.
  destruct (bz_read st n) as [o st']. cbn [snd] in H.
  destruct (snd o) as [e|]; [cbn [snd]; exact H|].
  rewrite IH. exact H.
Qed.

Theorem bz_run_trees st sched : length (z_trees (snd (bz_run st sched))) = length (z_trees st).
Proof. unfold bz_run. apply bz_run_acc_trees. Qed.

(* ---- NewReader / Reset ---------------------------------------------------------------------- *)
Lemma bz_new_six data buffered fills reads :
  length (z_trees (bz_new data buffered fills reads)) = 6%nat.
Proof. reflexivity. Qed.

Lemma bz_reset_trees st data buffered fills reads :
  z_trees (bz_reset st data buffered fills reads) = z_trees st.
Proof. reflexivity. Qed.

Corollary reset_six : forall st sched data buffered fills reads,
  length (z_trees st) = 6%nat ->
  length (z_trees (bz_reset (snd (bz_run st sched)) data buffered fills reads)) = 6%nat.
Proof.
  intros st sched data buffered fills reads H6.
  rewrite bz_reset_trees, bz_run_trees. exact H6.
Qed.

(* any history of NewReader / Read* / Reset / Read* ... has six Decoder objects *)
Corollary new_run_reset_six data buffered fills reads sched data' buffered' fills' reads' sched' :
  length (z_trees (snd (bz_run (bz_reset (snd (bz_run (bz_new data buffered fills reads) sched))
                                         data' buffered' fills' reads') sched'))) = 6%nat.
Proof. rewrite bz_run_trees. apply reset_six. apply bz_new_six. Qed.

(* non-vacuity: the hypothesis of [reset_six] holds of a fresh Reader *)
Example reset_six_nonvacuous :
  length (z_trees (bz_reset (snd (bz_run (bz_new [66; 90; 104; 57] false [] []) [4%nat; 4%nat]))
                            [] true [] [])) = 6%nat.
Proof. apply reset_six. apply bz_new_six. Qed.

Print Assumptions bz_run_trees.
Print Assumptions reset_six.
Print Assumptions new_run_reset_six.
