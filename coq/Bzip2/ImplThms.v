(* REFINEMENT OF bzip2.Reader (Bzip2/Impl.v) TO THE libbzip2 PORT (Bzip2/SpecR.v).

   For every input, every kind and script of the source (ByteReader / BufferedReader, fills,
   reads) and every schedule of Read buffer sizes continued to the first error:
   the verdict [Final] of Bzip2/ImplInv.v holds.

   Layers (each a named theorem, see NOTES.md):
     (a) bit fields, header, footer     ImplBits.v, ImplHdr.v, Prefix/PullFailThms.v
     (b) ReadPrefixCodes                ImplClens.v, ImplCodes.v, ImplTables.v
     (c) symbols                        ImplSym.v, ImplCodes.v (sym_sim), ImplSels.v, ImplSyms.v
     (d) moveToFront.Decode             ImplMtf.v
     (e) inverse BWT                    ImplBwt.v
     (f) rle.Read in pieces, CRC        ImplRle.v, ImplCrc.v, ImplRead.v
     (g) blocks, streams, Read loop     ImplBlock.v, ImplBof.v, ImplStep.v, this file *)
From V Require Import Base.Prelude Base.Prog Base.ProgThms Base.FuelThms Base.DepthThms
  Bzip2.Common Bzip2.SpecR Bzip2.Safe Bzip2.Rle1 Bzip2.StreamBits Prefix.ReaderImpl Prefix.ReaderSpec
  Prefix.ReaderThms Prefix.DecTable Prefix.DecReadThms Bzip2.Impl Bzip2.ImplBits Bzip2.ImplSim
  Bzip2.ImplRle Bzip2.ImplCrc Bzip2.ImplRead Bzip2.ImplTables Bzip2.ImplSpecRun Bzip2.ImplNoPut
  Bzip2.ImplHdr Bzip2.ImplBlock Bzip2.ImplBof Bzip2.ImplRound Bzip2.ImplInv Bzip2.ImplStep.

Local Open Scope N_scope.

Section Thms.
Variable data : list byte.
Hypothesis Hd : forall b, In b data -> b < 256.

Notation total := (8 * length data)%nat.
Notation sat := (sat data).
Notation Rep := (Rep data).
Notation PI := (PI true data).
Notation d := (spec_depth data).
Notation r_total := (spec_run data).
Notation Final := (Final data).
Notation Inv := (Inv data).
Notation InvStart := (InvStart data).
Notation InvBetween := (InvBetween data).
Notation InvBlock := (InvBlock data).
Notation spec_fails := (spec_fails data).

(* the abstract position of a state is determined by the state *)
Lemma Rep_unique R R' st : Rep R st -> Rep R' st -> R = R'.
Proof.
  intros H1 H2. pose proof (PI_bits_read true data R _ H1) as E1.
  pose proof (PI_bits_read true data R' _ H2) as E2. lia.
Qed.

(* bits left where the state stands *)
Definition left_le (st : bzst) (k : nat) : Prop := exists R, Rep R st /\ (total - R <= k)%nat.

Lemma spec_fails_err e outs : spec_fails e outs -> e <> EPanic /\ e <> EFuel /\ err_wrap e = e.
Proof.
  intros (es & s' & more & Hr & _ & He).
  pose proof (spec_errs data) as Hs. rewrite Hr in Hs. cbn [res_err] in Hs.
  destruct He as [[-> _]| ->].
  - destruct Hs as [-> | [-> | ->]]; repeat split; discriminate.
  - repeat split; discriminate.
Qed.

Lemma round_body_head st :
  round_body st =
  match (if z_hdrftr st mod 2 =? 0 then mbind m_pull_first (fun _ => go_header)
         else if negb (z_blkCRC st =? z_crc st) then corrupted
              else mupd (fun st => set_endCRC st (N.lxor (rotl1 (z_endCRC st)) (z_blkCRC st)))) st with
  | (ROk _, st0) => tail_go st0
  | (RThrow e, st0) => (RThrow e, st0)
  end.
Proof.
  rewrite round_body_unfold. unfold mbind at 1.
  destruct ((if z_hdrftr st mod 2 =? 0 then mbind m_pull_first (fun _ => go_header)
             else if negb (z_blkCRC st =? z_crc st) then corrupted
                  else mupd (fun st => set_endCRC st (N.lxor (rotl1 (z_endCRC st)) (z_blkCRC st)))) st)
    as [[u|e] st0]; reflexivity.
Qed.

(* ---- a turn whose closure ends with decodeBlock from st0 ------------------------------------------ *)
(* what the loop in Read sees after the turn *)
Definition turn_result (st' : bzst) (outs : list byte) (k : nat) : Prop :=
  match z_err st' with
  | Some e => Final e outs (z_inOff st')
  | None => Inv st' outs /\ (48 <= k)%nat /\ left_le st' (k - 48)
  end.

Lemma turn_tail st st0 outs R lvl c k :
  z_inOff st = p_offset (z_rd st) -> round_body st = tail_go st0 ->
  z_inOff st0 = z_inOff st -> z_outOff st0 = Z.of_nat (length outs) -> z_err st0 = None ->
  z_level st0 = lvl -> 1 <= lvl <= 9 -> z_endCRC st0 = c -> c < 2 ^ 32 -> z_hdrftr st0 mod 2 = 1 ->
  length (z_trees st0) = 6%nat -> z_crc st0 < 2 ^ 32 ->
  Rep R st0 -> (R <= total)%nat -> (total - R <= k)%nat ->
  in_stream d lvl c (sat R (rev outs) (N.of_nat (length outs))) r_total ->
  turn_result (one_round st) outs k.
Proof.
  intros Hoff Hbody Hio Hoo He0 Hlev Hlvl Hec Hc Hodd Htr Hcrc HP HR Hk Hin.
  pose proof (tail_step data Hd st0 outs R lvl c Hlev Hlvl Hec Hc Htr HP HR Hin) as Ht.
  unfold turn_result.
  destruct (tail_go st0) as [[u|e] st1] eqn:Etail.
  - (* the closure finished *)
    destruct u.
    assert (Hcommon : forall R', Rep R' st1 -> z_err st1 = None ->
              exists p', one_round st = set_inOff (set_rd st1 p') (p_offset p') /\ PI R' p').
    { intros R' HP' He1. destruct (one_round_ok data st st1 R' Hoff Hbody HP' He1) as (p' & Eo & HPp & _).
      exists p'. split; assumption. }
    destruct Ht as [(Hrest & Htr' & R' & HP' & HR' & Hal & Hafter)|
                    (stored & block & R' & Hrest & Htr' & Hs32 & Hbytes & HP' & HR' & Hspec)].
    + (* footer *)
      unfold rest in Hrest. inversion Hrest as [[H1 H2 H3 H4 H5 H6 H7 H8 H9]].
      assert (He1 : z_err st1 = None) by congruence.
      destruct (Hcommon R' HP' He1) as (p' & Eo & HPp). rewrite Eo.
      cbn [z_err set_inOff set_rd]. rewrite He1.
      split.
      * split.
        { constructor; cbn [z_inOff z_rd z_trees z_outOff set_inOff set_rd]; [reflexivity | exact Htr'|].
          congruence. }
        right. left. exists R'. cbn [z_hdrftr z_endCRC set_inOff set_rd].
        split; [rewrite H5; lia|]. split; [rewrite H5; lia|]. split; [exact H7|].
        split.
        { split; [cbn [z_err set_inOff set_rd]; exact He1|].
          exists (block_run []), (crc_final (z_crc st0)). split.
          - constructor; cbn [z_rle z_crc set_inOff set_rd].
            + rewrite H9. cbn [rle_init r_lastCnt]. lia.
            + rewrite H9. apply rle_rest_init.
            + constructor.
            + apply crc_final_lt. exact Hcrc.
            + rewrite H8, crc_final_involutive. reflexivity.
          - unfold block_run. cbn. lia. }
        split; [exact HPp|]. split; [lia|]. split; [exact Hal | exact Hafter].
      * split; [lia|]. exists R'. split; [exact HPp | lia].
    + (* block *)
      unfold rest in Hrest. inversion Hrest as [[H1 H2 H3 H4 H5 H6 H7 H8 H9]].
      assert (He1 : z_err st1 = None) by congruence.
      destruct (Hcommon R' HP' He1) as (p' & Eo & HPp). rewrite Eo.
      cbn [z_err set_inOff set_rd]. rewrite He1.
      split.
      * split.
        { constructor; cbn [z_inOff z_rd z_trees z_outOff set_inOff set_rd]; [reflexivity | exact Htr'|].
          congruence. }
        right. right.
        exists R', lvl, c, stored, block, outs, [], (block_out block), (block_run block), crc_init.
        cbn [z_hdrftr z_level z_endCRC z_blkCRC z_err set_inOff set_rd].
        split; [rewrite H5; exact Hodd|]. split; [exact H4|]. split; [exact Hlvl|].
        split; [exact H7|]. split; [exact Hc|]. split; [exact H6|]. split; [exact Hs32|].
        split.
        { assert (Ho : Owes st1 (block_out block) (block_run block) crc_init)
            by (apply (owes_init block Hbytes); [exact H9 | exact H8]).
          destruct Ho as [O1 O2 O3 O4 O5]. constructor; cbn [z_rle z_crc set_inOff set_rd]; assumption. }
        split; [reflexivity|]. split; [reflexivity|]. split; [reflexivity|].
        split; [rewrite app_nil_r; reflexivity|]. split; [exact HPp|]. split; [lia|].
        split; [left; exact He1 | exact Hspec].
      * split; [lia|]. exists R'. split; [exact HPp | lia].
  - (* the closure threw *)
    destruct (spec_fails_err e outs Ht) as (Hp & Hf & Hw).
    destruct (one_round_throw st e st1 Hoff Hbody Hp Hf) as (H1 & H2 & H3).
    rewrite H1, Hw. apply spec_fails_final. exact Ht.
Qed.

(* ---- the turn after a completely delivered block ------------------------------------------------------ *)
Lemma expand_block block : expand block 0 0 = (block_out block, block_run block, snd (expand block 0 0)).
Proof. unfold block_out, block_run. destruct (expand block 0 0) as [[o r] l]. reflexivity. Qed.

Lemma turn_block st outs k R lvl c stored block out0 reg :
  Book st outs -> z_err st = None ->
  z_hdrftr st mod 2 = 1 -> z_level st = lvl -> 1 <= lvl <= 9 ->
  z_endCRC st = c -> c < 2 ^ 32 -> z_blkCRC st = stored -> stored < 2 ^ 32 ->
  Owes st [] (block_run block) reg -> block_run block <> 4 ->
  reg = fold_left crc_step (block_out block) crc_init -> outs = out0 ++ block_out block ->
  Rep R st -> (R <= total)%nat -> (total - R <= k)%nat ->
  match run (emit_k stored block) (sat R (rev out0) (N.of_nat (length out0))) with
  | Done blk s2 => in_stream d lvl (crc_combine c blk) s2 r_total
  | Fail e s2 => r_total = Fail e s2
  end ->
  turn_result (one_round st) outs k.
Proof.
  intros HB He Hodd Hlev Hlvl Hec Hc Hbc Hs32 How H4 Hreg Houts HP HR Hk Hspec.
  destruct How as [O1 O2 O3 O4 O5].
  rewrite run_emit_k, expand_block in Hspec.
  replace (block_run block =? 4) with false in Hspec by lia.
  rewrite <- Hreg in Hspec.
  pose proof (round_body_head st) as Hbody.
  replace (z_hdrftr st mod 2 =? 0) with false in Hbody by lia.
  rewrite Hbc, O5 in Hbody. rewrite (N.eqb_sym stored (crc_final reg)) in Hbody.
  destruct (crc_final reg =? stored) eqn:Ecrc; cbn [negb] in Hbody.
  - (* the block checksum is right *)
    unfold mupd in Hbody.
    set (st0 := set_endCRC st (N.lxor (rotl1 (z_endCRC st)) (z_blkCRC st))) in *.
    rewrite push_out_sat in Hspec.
    assert (Hs2 : sat R (rev (block_out block) ++ rev out0)
                      (N.of_nat (length out0) + N.of_nat (length (block_out block)))
                  = sat R (rev outs) (N.of_nat (length outs))).
    { rewrite Houts, rev_app_distr, app_length. f_equal. lia. }
    rewrite Hs2 in Hspec.
    apply (turn_tail st st0 outs R lvl (crc_combine c stored) k (bk_off _ _ HB) Hbody);
      cbn [z_inOff z_outOff z_err z_level z_endCRC z_hdrftr z_trees z_crc st0 set_endCRC]; try assumption.
    + reflexivity.
    + apply (bk_out _ _ HB).
    + rewrite Hec, Hbc. reflexivity.
    + apply crc_combine_lt; assumption.
    + apply (bk_trees _ _ HB).
    + rewrite O5. apply crc_final_lt. exact O4.
  - (* mismatching block checksum *)
    unfold turn_result.
    destruct (one_round_throw st ECorrupted st (bk_off _ _ HB) Hbody ltac:(discriminate) ltac:(discriminate))
      as (H1 & _ & _).
    rewrite H1. cbn [err_wrap].
    apply (final_fail_exact data ECorrupted _ outs _ Hspec).
    rewrite push_out_sat. cbn [ImplBits.sat a_out]. rewrite Houts, rev_app_distr. reflexivity.
Qed.

(* ---- the turn that starts a stream ----------------------------------------------------------------------- *)
Lemma hdr_short R out len : (R <= total)%nat -> (total - R < 16)%nat ->
  exists s', run hdr_ro (sat R out len) = Fail EUEOF s' /\ a_out s' = out.
Proof.
  intros HR Hs. unfold hdr_ro. rewrite run_bind.
  pose proof (run_rbits_at data Hd R 16 out len HR) as S1.
  replace (R + 16 <=? total)%nat with false in S1 by (symmetry; apply Nat.leb_gt; lia).
  destruct S1 as (s' & -> & Ho & _). exists s'. split; [reflexivity | exact Ho].
Qed.

Lemma turn_start st outs k R :
  Book st outs -> z_err st = None -> z_hdrftr st mod 2 = 0 -> z_endCRC st = 0 ->
  z_crc st < 2 ^ 32 ->
  Rep R st -> (R <= total)%nat -> (total - R <= k)%nat ->
  (* what the specification still has to do *)
  (z_hdrftr st = 0 -> loops (streams_body d) tt (sat R (rev outs) (N.of_nat (length outs))) r_total) ->
  (0 < z_hdrftr st -> after_stream d (sat R (rev outs) (N.of_nat (length outs))) r_total) ->
  turn_result (one_round st) outs k.
Proof.
  intros HB He Heven Hec Hcrc HP HR Hk Hstart Hbetween.
  pose proof Hdepth data as Hdep.
  destruct (Nat.eq_dec R total) as [HRt|HRt].
  - (* the end of the input *)
    subst R. destruct (one_round_eof data Hd st (bk_off _ _ HB) HP Heven) as (H1 & _ & H3).
    unfold turn_result. rewrite H1, H3.
    destruct (0 <? z_hdrftr st) eqn:Eh.
    + (* after at least one stream: io.EOF *)
      specialize (Hbetween ltac:(lia)). unfold after_stream in Hbetween.
      cbn [ImplBits.sat a_in] in Hbetween. rewrite skipn_all2 in Hbetween by (rewrite (bits_length data); lia).
      apply (final_done data Hd outs _ Hbetween).
    + (* no stream at all *)
      specialize (Hstart ltac:(lia)).
      pose proof (streams_inv d _ _ ltac:(rewrite (ilen_sat data); lia) Hstart) as Hinv.
      destruct (hdr_short total (rev outs) (N.of_nat (length outs)) ltac:(lia) ltac:(lia)) as (s' & Es & Ho).
      rewrite Es in Hinv. apply (final_fail_exact data EUEOF s' outs _ Hinv Ho).
  - (* a stream begins *)
    assert (Hloops : loops (streams_body d) tt (sat R (rev outs) (N.of_nat (length outs))) r_total).
    { destruct (0 <? z_hdrftr st) eqn:Eh.
      - specialize (Hbetween ltac:(lia)). unfold after_stream in Hbetween.
        destruct (a_in (sat R (rev outs) (N.of_nat (length outs)))) eqn:Ea; [|exact Hbetween].
        exfalso. assert (HL : length (a_in (sat R (rev outs) (N.of_nat (length outs)))) = 0%nat) by (rewrite Ea; reflexivity).
        cbn [ImplBits.sat a_in] in HL. rewrite skipn_length, (bits_length data) in HL. lia.
      - apply Hstart. lia. }
    pose proof (streams_inv d _ _ ltac:(rewrite (ilen_sat data); lia) Hloops) as Hinv.
    destruct (pull_first_more data Hd R st HP ltac:(lia)) as (p1 & Epf & HP1).
    pose proof (header_exact data Hd R (set_rd st p1) (rev outs) (N.of_nat (length outs)) HP1 HR) as Hh.
    pose proof (round_body_head st) as Hbody.
    replace (z_hdrftr st mod 2 =? 0) with true in Hbody by lia.
    unfold mbind at 1 in Hbody. rewrite Epf in Hbody.
    destruct (run hdr_ro (sat R (rev outs) (N.of_nat (length outs)))) as [lvl s1|e s1].
    + destruct Hh as (p' & -> & HR32 & Hlvl & Eg & HP').
      rewrite Eg in Hbody.
      set (st0 := set_hdrftr (set_level (set_rd (set_rd st p1) p') lvl) (z_hdrftr (set_rd st p1) + 1)) in *.
      apply (turn_tail st st0 outs (R + 32) lvl 0 k (bk_off _ _ HB) Hbody);
        cbn [z_inOff z_outOff z_err z_level z_endCRC z_hdrftr z_trees z_crc st0
             set_hdrftr set_level set_rd]; try assumption; try lia; try reflexivity;
        try (apply (bk_out _ _ HB)); try (apply (bk_trees _ _ HB)).
    + destruct Hh as (Ho & _ & st' & Eg). rewrite Eg in Hbody.
      pose proof (spec_errs data) as Hs. rewrite Hinv in Hs. cbn [res_err] in Hs.
      assert (Hpf : e <> EPanic /\ e <> EFuel /\ err_wrap e = e)
        by (destruct Hs as [-> | [-> | ->]]; repeat split; discriminate).
      destruct Hpf as (Hp & Hf & Hw).
      destruct (one_round_throw st e st' (bk_off _ _ HB) Hbody Hp Hf) as (H1 & _ & _).
      unfold turn_result. rewrite H1, Hw.
      apply (final_fail_exact data e s1 outs _ Hinv Ho).
Qed.

(* ---- the top of the loop: rle.Read ------------------------------------------------------------------- *)
(* states from which the next thing Read does is a turn of its loop *)
Definition Drained (st : bzst) (outs : list byte) : Prop :=
  z_err st = None /\ (exists r' reg, Owes st [] r' reg /\ r' <> 4) /\ Inv st outs.

Lemma owes_unique st T r' reg T2 r2 reg2 : Owes st T r' reg -> Owes st T2 r2 reg2 -> T = T2 /\ r' = r2.
Proof.
  intros [_ H1 _ _ _] [_ H2 _ _ _]. rewrite H1 in H2. inversion H2. split; reflexivity.
Qed.

(* the specification's verdict on a block that ends after four equal bytes *)
Lemma missing_count_final (st : bzst) outs inOff R lvl c stored block out0 :
  block_run block = 4 -> outs = out0 ++ block_out block ->
  match run (emit_k stored block) (sat R (rev out0) (N.of_nat (length out0))) with
  | Done blk s2 => in_stream d lvl (crc_combine c blk) s2 r_total
  | Fail e s2 => r_total = Fail e s2
  end ->
  Final ECorrupted outs inOff.
Proof.
  intros H4 Houts Hspec. rewrite run_emit_k, expand_block, H4 in Hspec. change (4 =? 4) with true in Hspec.
  cbv iota in Hspec. apply (final_fail_exact data ECorrupted _ outs _ Hspec).
  rewrite push_out_sat. cbn [ImplBits.sat a_out]. rewrite Houts, rev_app_distr. reflexivity.
Qed.

Lemma drain_spec st outs n : n <> 0%nat -> Inv st outs ->
  match drain st n with
  | inl ((bytes, None), st') => bytes <> [] /\ Inv st' (outs ++ bytes)
  | inl ((bytes, Some e), st') => bytes = [] /\ Final e outs (z_inOff st')
  | inr st' => Drained st' outs /\ z_rd st' = z_rd st
  end.
Proof.
  intros Hn (HB & Hcases).
  assert (Hidle : forall r' reg, z_err st = None -> Owes st [] r' reg -> r' <> 4 ->
            match drain st n with
            | inl _ => False
            | inr st' => z_err st' = None /\ Owes st' [] r' reg /\ Book st' outs /\
                         z_rd st' = z_rd st /\ z_hdrftr st' = z_hdrftr st /\ z_endCRC st' = z_endCRC st /\
                         z_level st' = z_level st /\ z_blkCRC st' = z_blkCRC st
            end).
  { intros r' reg He Ho H4.
    destruct (drain_done st n r' reg Ho He Hn H4) as (st' & Ed & Ho' & He' & F1 & F2 & F3 & F4 & F5 & F6 & F7 & F8 & F9).
    rewrite Ed. split; [exact He'|]. split; [exact Ho'|]. split.
    - destruct HB as [B1 B2 B3]. constructor; [rewrite F4, F3; exact B1 | rewrite F9; exact B2 | rewrite F1; exact B3].
    - repeat split; assumption. }
  destruct Hcases as [HS|[HBt|HBl]].
  - (* before the first stream *)
    destruct HS as (Ho & Hh & Hec & (He & r' & reg & How & H4) & HP & Hl).
    specialize (Hidle r' reg He How H4). destruct (drain st n) as [res|st']; [destruct Hidle|].
    destruct Hidle as (He' & Ho' & HB' & Hrd & Hh' & Hec' & _ & _).
    split; [|exact Hrd]. split; [exact He'|]. split; [exists r', reg; split; assumption|].
    split; [exact HB'|]. left. unfold ImplInv.InvStart.
    split; [exact Ho|]. split; [congruence|]. split; [congruence|].
    split; [split; [exact He' | exists r', reg; split; assumption]|].
    split; [unfold ImplBits.Rep; rewrite Hrd; exact HP | exact Hl].
  - (* between streams *)
    destruct HBt as (R & Hev & Hpos & Hec & (He & r' & reg & How & H4) & HP & HR & Hal & Haft).
    specialize (Hidle r' reg He How H4). destruct (drain st n) as [res|st']; [destruct Hidle|].
    destruct Hidle as (He' & Ho' & HB' & Hrd & Hh' & Hec' & _ & _).
    split; [|exact Hrd]. split; [exact He'|]. split; [exists r', reg; split; assumption|].
    split; [exact HB'|]. right. left. exists R.
    split; [congruence|]. split; [congruence|]. split; [congruence|].
    split; [split; [exact He' | exists r', reg; split; assumption]|].
    split; [unfold ImplBits.Rep; rewrite Hrd; exact HP|]. split; [exact HR|]. split; assumption.
  - (* a block *)
    destruct HBl as (R & lvl & c & stored & block & out0 & delivered & T & r' & reg &
                     Hodd & Hlev & Hlvl & Hec & Hc & Hbc & Hs32 & How & Hbo & Hbr & Hreg & Houts &
                     HP & HR & Herr & Hspec).
    destruct Herr as [He|(He & HT & H4)].
    + destruct T as [|t T'].
      * (* everything delivered *)
        rewrite app_nil_r in Hbo.
        destruct (N.eq_dec r' 4) as [E4|E4].
        -- rewrite E4 in *. destruct (drain_missing st n reg How Hn) as (st' & Ed & _). rewrite Ed, He.
           split; [reflexivity|].
           apply (missing_count_final st outs _ R lvl c stored block out0 Hbr); [|exact Hspec].
           rewrite Houts, Hbo. reflexivity.
        -- specialize (Hidle r' reg He How E4). destruct (drain st n) as [res|st']; [destruct Hidle|].
           destruct Hidle as (He' & Ho' & HB' & Hrd & Hh' & Hec' & Hlev' & Hbc').
           split; [|exact Hrd]. split; [exact He'|]. split; [exists r', reg; split; assumption|].
           split; [exact HB'|]. right. right.
           exists R, lvl, c, stored, block, out0, delivered, [], r', reg.
           rewrite app_nil_r.
           split; [congruence|]. split; [congruence|]. split; [exact Hlvl|]. split; [congruence|].
           split; [exact Hc|]. split; [congruence|]. split; [exact Hs32|]. split; [exact Ho'|].
           split; [exact Hbo|]. split; [exact Hbr|]. split; [exact Hreg|]. split; [exact Houts|].
           split; [unfold ImplBits.Rep; rewrite Hrd; exact HP|]. split; [exact HR|].
           split; [left; exact He' | exact Hspec].
      * (* bytes to deliver *)
        destruct (drain_deliver st n (t :: T') r' reg How He Hn ltac:(discriminate))
          as (st' & Ed & Ho' & Hoff' & Herr' & F3 & F4 & F5 & F6 & F7 & F8 & F9).
        rewrite Ed. set (bytes := firstn n (t :: T')) in *.
        assert (Hne : bytes <> []) by (destruct n; [contradiction | discriminate]).
        split; [exact Hne|]. split.
        { destruct HB as [B1 B2 B3]. constructor; [rewrite F4, F3; exact B1 | rewrite F9; exact B2|].
          rewrite Hoff', B3, app_length. lia. }
        right. right.
        exists R, lvl, c, stored, block, out0, (delivered ++ bytes), (skipn n (t :: T')), r',
               (fold_left crc_step bytes reg).
        split; [congruence|]. split; [congruence|]. split; [exact Hlvl|]. split; [congruence|].
        split; [exact Hc|]. split; [congruence|]. split; [exact Hs32|]. split; [exact Ho'|].
        split; [rewrite <- app_assoc; unfold bytes; rewrite firstn_skipn; exact Hbo|].
        split; [exact Hbr|]. split; [rewrite fold_left_app, Hreg; reflexivity|].
        split; [rewrite Houts, app_assoc; reflexivity|].
        split; [unfold ImplBits.Rep; rewrite F3; exact HP|]. split; [exact HR|].
        split; [|exact Hspec].
        rewrite Herr'. destruct ((length (t :: T') <? n)%nat && (r' =? 4)) eqn:E.
        -- right. apply andb_true_iff in E as [E1 E2]. apply Nat.ltb_lt in E1.
           split; [reflexivity|]. split; [apply skipn_all2; lia | lia].
        -- left. reflexivity.
    + (* the missing count has been noticed: it is reported now *)
      rewrite HT, H4 in *.
      destruct (drain_error st n ECorrupted [] 4 reg How He eq_refl) as (st' & Ed & _).
      rewrite Ed. split; [reflexivity|].
      rewrite app_nil_r in Hbo.
      apply (missing_count_final st outs _ R lvl c stored block out0 Hbr); [|exact Hspec].
      rewrite Houts, Hbo. reflexivity.
Qed.

(* ---- a turn from a drained state ---------------------------------------------------------------------- *)
Lemma turn_drained st outs k : Drained st outs -> left_le st k -> turn_result (one_round st) outs k.
Proof.
  intros (He & (r0 & reg0 & How0 & H40) & HB & Hcases) (Rk & HPk & Hk).
  assert (Hcrc : z_crc st < 2 ^ 32).
  { destruct How0 as [_ _ _ O4 O5]. rewrite O5. apply crc_final_lt. exact O4. }
  destruct Hcases as [HS|[HBt|HBl]].
  - destruct HS as (Ho & Hh & Hec & _ & HP & Hl).
    rewrite (Rep_unique _ _ _ HPk HP) in Hk.
    assert (Heven : z_hdrftr st mod 2 = 0) by (rewrite Hh; reflexivity).
    assert (Hstart : z_hdrftr st = 0 ->
              loops (streams_body d) tt (sat 0 (rev outs) (N.of_nat (length outs))) r_total)
      by (intros _; subst outs; exact Hl).
    assert (Hbetween : 0 < z_hdrftr st ->
              after_stream d (sat 0 (rev outs) (N.of_nat (length outs))) r_total) by (intros Hpos; lia).
    exact (turn_start st outs k 0%nat HB He Heven Hec Hcrc HP ltac:(lia) Hk Hstart Hbetween).
  - destruct HBt as (R & Hev & Hpos & Hec & _ & HP & HR & Hal & Haft).
    rewrite (Rep_unique _ _ _ HPk HP) in Hk.
    assert (Hstart : z_hdrftr st = 0 ->
              loops (streams_body d) tt (sat R (rev outs) (N.of_nat (length outs))) r_total)
      by (intros Hz; lia).
    exact (turn_start st outs k R HB He Hev Hec Hcrc HP HR Hk Hstart (fun _ => Haft)).
  - destruct HBl as (R & lvl & c & stored & block & out0 & delivered & T & r' & reg &
                     Hodd & Hlev & Hlvl & Hec & Hc & Hbc & Hs32 & How & Hbo & Hbr & Hreg & Houts &
                     HP & HR & Herr & Hspec).
    destruct (owes_unique _ _ _ _ _ _ _ How How0) as (-> & ->).
    rewrite app_nil_r in Hbo. subst delivered.
    rewrite (Rep_unique _ _ _ HPk HP) in Hk.
    apply (turn_block st outs k R lvl c stored block out0 reg); try assumption.
    + rewrite Hbr. exact How.
    + rewrite Hbr. exact H40.
Qed.

(* ---- the loop of Read --------------------------------------------------------------------------------- *)
Lemma rounds_spec : forall fuel st outs n k, n <> 0%nat -> Drained st outs -> left_le st k ->
  (k < 48 * fuel)%nat ->
  match read_rounds fuel st n with
  | ((bytes, None), st') => bytes <> [] /\ Inv st' (outs ++ bytes)
  | ((bytes, Some e), st') => bytes = [] /\ Final e outs (z_inOff st')
  end.
Proof.
  induction fuel as [|fuel IH]; intros st outs n k Hn HD Hl Hk; [lia|].
  cbn [read_rounds].
  pose proof (turn_drained st outs k HD Hl) as Ht. unfold turn_result in Ht.
  destruct (z_err (one_round st)) as [e|] eqn:Ee.
  - split; [reflexivity | exact Ht].
  - destruct Ht as (HI & Hk48 & Hl').
    pose proof (drain_spec (one_round st) outs n Hn HI) as Hdr.
    destruct (drain (one_round st) n) as [[[bytes [e|]] st']|st'].
    + exact Hdr.
    + exact Hdr.
    + destruct Hdr as (HD' & Hrd).
      apply (IH st' outs n (k - 48)%nat Hn HD').
      * destruct Hl' as (R & HP & HR). exists R. split; [unfold ImplBits.Rep; rewrite Hrd; exact HP | exact HR].
      * lia.
Qed.

Lemma inv_rep st outs : Inv st outs -> exists R, Rep R st /\ (R <= total)%nat.
Proof.
  intros (_ & [HS|[HBt|HBl]]).
  - destruct HS as (_ & _ & _ & _ & HP & _). exists 0%nat. split; [exact HP | lia].
  - destruct HBt as (R & _ & _ & _ & _ & HP & HR & _). exists R. split; assumption.
  - destruct HBl as (R & lvl & c & stored & block & out0 & delivered & T & r' & reg &
                     _ & _ & _ & _ & _ & _ & _ & _ & _ & _ & _ & _ & HP & HR & _).
    exists R. split; assumption.
Qed.

(* ONE CALL OF Read *)
Theorem read_step st outs n : Inv st outs ->
  match bz_read st n with
  | ((bytes, None), st') => Inv st' (outs ++ bytes)
  | ((bytes, Some e), st') => bytes = [] /\ Final e outs (z_inOff st')
  end.
Proof.
  intros HI. unfold bz_read.
  destruct (Nat.eq_dec n 0) as [->|Hn].
  - (* a zero-length buffer *)
    assert (Hc : (-4 <= r_lastCnt (z_rle st))%Z).
    { destruct HI as (_ & [HS|[HBt|HBl]]).
      - destruct HS as (_ & _ & _ & (_ & r' & reg & [O1 _ _ _ _] & _) & _). exact O1.
      - destruct HBt as (R & _ & _ & _ & (_ & r' & reg & [O1 _ _ _ _] & _) & _). exact O1.
      - destruct HBl as (R & lvl & c & stored & block & out0 & delivered & T & r' & reg &
                         _ & _ & _ & _ & _ & _ & _ & [O1 _ _ _ _] & _). exact O1. }
    rewrite (drain_zero st Hc).
    destruct (z_err st) as [e|] eqn:Ee.
    + split; [reflexivity|].
      destruct HI as (_ & [HS|[HBt|HBl]]).
      * destruct HS as (_ & _ & _ & (He & _) & _). congruence.
      * destruct HBt as (R & _ & _ & _ & (He & _) & _). congruence.
      * destruct HBl as (R & lvl & c & stored & block & out0 & delivered & T & r' & reg &
                         Hodd & Hlev & Hlvl & Hec & Hc' & Hbc & Hs32 & How & Hbo & Hbr & Hreg & Houts &
                         HP & HR & Herr & Hspec).
        destruct Herr as [He|(He & HT & H4)]; [congruence|].
        rewrite Ee in He. inversion He; subst e. rewrite HT, H4 in *. rewrite app_nil_r in Hbo.
        apply (missing_count_final st outs _ R lvl c stored block out0 Hbr); [|exact Hspec].
        rewrite Houts, Hbo. reflexivity.
    + rewrite app_nil_r. exact HI.
  - pose proof (drain_spec st outs n Hn HI) as Hdr.
    destruct (drain st n) as [[[bytes [e|]] st']|st'].
    + exact Hdr.
    + exact (proj2 Hdr).
    + destruct Hdr as (HD & Hrd).
      destruct HD as (He & Ho & HI').
      destruct (inv_rep st' outs HI') as (R & HP & HR).
      assert (Hdata : s_data (p_src (z_rd st')) = data).
      { destruct HP as ([_ C2 _ _ _ _] & _ & _). exact C2. }
      rewrite Hdata.
      pose proof (rounds_spec (S (nat_of (len_n data))) st' outs n total Hn (conj He (conj Ho HI'))) as Hr.
      assert (Hfuel : (total < 48 * S (nat_of (len_n data)))%nat).
      { rewrite nat_of_eq, len_n_eq, Nat2N.id. lia. }
      specialize (Hr ltac:(exists R; split; [exact HP | lia]) Hfuel).
      destruct (read_rounds (S (nat_of (len_n data))) st' n) as [[bytes [e|]] st2].
      * exact Hr.
      * exact (proj2 Hr).
Qed.

(* PROGRESS: with a non-empty buffer, Read never returns (0, nil) *)
Theorem read_progress st outs n : Inv st outs -> n <> 0%nat ->
  match bz_read st n with
  | ((bytes, None), _) => bytes <> []
  | _ => True
  end.
Proof.
  intros HI Hn. unfold bz_read.
  pose proof (drain_spec st outs n Hn HI) as Hdr.
  destruct (drain st n) as [[[bytes [e|]] st']|st'].
  - exact I.
  - exact (proj1 Hdr).
  - destruct Hdr as (HD & Hrd). destruct HD as (He & Ho & HI').
    destruct (inv_rep st' outs HI') as (R & HP & HR).
    assert (Hdata : s_data (p_src (z_rd st')) = data).
    { destruct HP as ([_ C2 _ _ _ _] & _ & _). exact C2. }
    rewrite Hdata.
    pose proof (rounds_spec (S (nat_of (len_n data))) st' outs n total Hn (conj He (conj Ho HI'))) as Hr.
    assert (Hfuel : (total < 48 * S (nat_of (len_n data)))%nat).
    { rewrite nat_of_eq, len_n_eq, Nat2N.id. lia. }
    specialize (Hr ltac:(exists R; split; [exact HP | lia]) Hfuel).
    destruct (read_rounds (S (nat_of (len_n data))) st' n) as [[bytes [e|]] st2].
    + exact I.
    + exact (proj1 Hr).
Qed.

(* ---- a schedule of Read calls -------------------------------------------------------------------------- *)
Fixpoint bz_run_s (st : bzst) (sched : list nat) : list bzobs * bzst :=
  match sched with
  | [] => ([], st)
  | n :: r =>
    let '(o, st') := bz_read st n in
    match snd o with
    | Some _ => ([obs_of o st'], st')
    | None => let '(l, fin) := bz_run_s st' r in (obs_of o st' :: l, fin)
    end
  end.

Definition obs_out (obs : list bzobs) : list byte := concat (map bo_bytes obs).

Theorem run_final : forall sched st outs, Inv st outs ->
  forall obs fin, bz_run_s st sched = (obs, fin) ->
  forall pre o e, obs = pre ++ [o] -> bo_err o = Some e ->
  Final e (outs ++ obs_out obs) (bo_inOff o).
Proof.
  induction sched as [|n r IH]; intros st outs HI obs fin Hrun pre o e Hobs Herr.
  - cbn [bz_run_s] in Hrun. inversion Hrun; subst. destruct pre; discriminate.
  - cbn [bz_run_s] in Hrun. pose proof (read_step st outs n HI) as Hstep.
    destruct (bz_read st n) as [[bytes eo] st'] eqn:Er. cbn [snd] in Hrun.
    destruct eo as [e1|].
    + injection Hrun as Hob Hfi. rewrite <- Hob in Hobs. rewrite <- Hob. clear Hob Hfi.
      destruct Hstep as (-> & Hfin).
      destruct pre as [|x pre]; [|destruct pre; discriminate].
      cbn [app] in Hobs. injection Hobs as Ho. rewrite <- Ho in *.
      unfold obs_of in *. cbn [bo_err bo_inOff fst snd] in *. inversion Herr; subst e1.
      unfold obs_out. cbn [map concat bo_bytes fst]. rewrite app_nil_r. exact Hfin.
    + destruct (bz_run_s st' r) as [l fin'] eqn:Erun.
      injection Hrun as Hob Hfi. rewrite <- Hob in Hobs. rewrite <- Hob. clear Hob Hfi.
      destruct pre as [|x pre].
      * cbn [app] in Hobs. injection Hobs as Ho Hl. rewrite <- Ho in Herr.
        unfold obs_of in Herr. cbn [bo_err snd] in Herr. discriminate.
      * cbn [app] in Hobs. injection Hobs as Hx Hl.
        pose proof (IH st' (outs ++ bytes) Hstep l fin' Erun pre o e Hl Herr) as Hf.
        unfold obs_out in *. cbn [map concat]. unfold obs_of at 1. cbn [bo_bytes fst].
        rewrite app_assoc. exact Hf.
Qed.

Lemma bz_run_acc_eq : forall sched st acc,
  bz_run_acc st sched acc = (fast_rev acc ++ fst (bz_run_s st sched), snd (bz_run_s st sched)).
Proof.
  induction sched as [|n r IH]; intros st acc.
  - cbn [bz_run_acc bz_run_s fst snd]. rewrite app_nil_r. reflexivity.
  - cbn [bz_run_acc bz_run_s]. destruct (bz_read st n) as [o st']. destruct (snd o).
    + cbn [fst snd]. rewrite !fast_rev_eq. cbn [rev]. reflexivity.
    + rewrite IH. destruct (bz_run_s st' r) as [l fin]. cbn [fst snd].
      rewrite !fast_rev_eq. cbn [rev]. rewrite <- app_assoc. reflexivity.
Qed.

Lemma bz_run_eq st sched : bz_run st sched = bz_run_s st sched.
Proof.
  unfold bz_run. rewrite bz_run_acc_eq. cbn [fast_rev rev_append app].
  destruct (bz_run_s st sched); reflexivity.
Qed.

End Thms.

(* ===================================================================================================== *)
(* THE REFINEMENT THEOREM.  Any input, any source (ByteReader or BufferedReader, any script of
   its freedoms), any schedule of Read buffer sizes, read up to the first error e:
   - e is never a run-time panic (and the model's budgets are never exhausted);
   - libbzip2 accepts the input  <->  e = io.EOF; then the bytes delivered are libbzip2's, and
     InputOffset is the number of input bytes libbzip2 consumed (all of them);
   - otherwise libbzip2 rejects the input too, the bytes delivered are a prefix of what libbzip2
     delivered before its error, and either the error class and the bytes are the same, or the
     Reader reports io.ErrUnexpectedEOF (near the end of the input; see Bzip2/ImplSim.v and
     the finding in NOTES.md: a witness exists, the disjunct cannot be dropped). *)
Definition bzip2_impl_refines_libbzip2_statement : Prop :=
  forall (data : list byte) (buffered : bool) (fills reads : list nat) (sched : list nat)
         (obs : list bzobs) (fin : bzst) (pre : list bzobs) (o : bzobs) (e : err),
    (forall b, In b data -> b < 256) ->
    bz_run (bz_new data buffered fills reads) sched = (obs, fin) ->
    obs = pre ++ [o] -> bo_err o = Some e ->
    let spec := bzip2_decode data in
    e <> EPanic /\ e <> EFuel /\
    match bz_err spec with
    | None => e = EEOF /\ obs_out obs = bz_out spec /\ bo_inOff o = Z.of_N (bz_used spec)
    | Some es => e <> EEOF /\ prefix_of (obs_out obs) (bz_out spec) /\
                 ((e = es /\ obs_out obs = bz_out spec) \/ e = EUEOF)
    end.

Theorem bzip2_impl_refines_libbzip2 : bzip2_impl_refines_libbzip2_statement.
Proof.
  intros data buffered fills reads sched obs fin pre o e Hd Hrun Hobs Herr spec.
  rewrite bz_run_eq in Hrun.
  pose proof (run_final data Hd sched _ [] (inv_init data Hd buffered fills reads) obs fin Hrun pre o e Hobs Herr) as Hf.
  cbn [app] in Hf. exact Hf.
Qed.

Print Assumptions bzip2_impl_refines_libbzip2.
