(* Reader.decodeBlock as a whole ([decode_block]: block or stream footer) against the read-only
   piece [bof_ro] of the specification.  The footer branch is exact; on the block branch the
   Reader may answer io.ErrUnexpectedEOF near the end of the input (see Bzip2/ImplSim.v). *)
From V Require Import Base.Prelude Base.Prog Base.ProgThms Base.FuelThms Base.DepthThms
  Bzip2.Common Bzip2.SpecR Bzip2.BitIO Bzip2.Safe Prefix.Code Prefix.ReaderImpl Prefix.ReaderSpec
  Prefix.ReaderThms Prefix.DecTable Prefix.DecReadThms
  Bzip2.Impl Bzip2.ImplBits Bzip2.ImplSim Bzip2.ImplSimP Bzip2.ImplTables Bzip2.ImplSpecRun
  Bzip2.ImplHdr Bzip2.ImplBlock.

Local Open Scope N_scope.

Section Bof.
Variable data : list byte.
Hypothesis Hd : forall b, In b data -> b < 256.

Notation total := (8 * length data)%nat.
Notation Rep := (Rep data).
Notation sat := (sat data).
Notation PI := (PI true data).

Theorem bof_sim depth io oo e lvl h bc c crc rle R st out len :
  (total < 2 ^ depth)%nat -> 1 <= lvl <= 9 -> c < 2 ^ 32 ->
  rest st = (io, oo, e, lvl, h, bc, c, crc, rle) -> length (z_trees st) = 6%nat ->
  Rep R st -> (R <= total)%nat ->
  match run (bof_ro depth lvl c) (sat R out len) with
  | Done None s' =>
    exists R' p', s' = sat R' out len /\ (R + 80 <= R' <= total)%nat /\ (R' mod 8 = 0)%nat /\
      decode_block st = (ROk [], set_hdrftr (set_endCRC (set_rd st p') 0) (h + 1)) /\ PI R' p'
  | Done (Some sb) s' =>
    (exists R' st', s' = sat R' out len /\ (R + 48 <= R' <= total)%nat /\
       decode_block st = (ROk (snd sb), st') /\
       block_post io oo e lvl h c rle (snd sb) sb st' /\ Rep R' st')
    \/ ((ilen s' < 20)%nat /\ exists st', decode_block st = (RThrow EUEOF, st'))
  | Fail e' s' =>
    exists st', decode_block st = (RThrow e', st') \/ decode_block st = (RThrow EUEOF, st')
  end.
Proof.
  intros Hdepth Hlvl Hc Hrest Htrees HP HR.
  assert (Hec : z_endCRC st = c) by (unfold rest in Hrest; inversion Hrest; reflexivity).
  assert (Hh : z_hdrftr st = h) by (unfold rest in Hrest; inversion Hrest; reflexivity).
  unfold bof_ro. rewrite run_bind, decode_block_unfold.
  pose proof (run_rbits_at data Hd R 48 out len HR) as S1.
  pose proof (m_read_be64_48 data Hd R st HP) as G1.
  destruct (R + 48 <=? total)%nat eqn:E1.
  2:{ destruct S1 as (s' & -> & _). destruct G1 as (e0 & p' & G1 & _).
      exists (set_rd st p'). left. apply mbind_throw. exact G1. }
  apply Nat.leb_le in E1. rewrite S1. destruct G1 as (p1 & G1 & HP1 & _).
  rewrite (mbind_ok _ _ _ _ _ G1). set (magic := mval (field data R 48)).
  destruct (magic =? blkMagic) eqn:Eb; cbn [negb].
  - (* a block *)
    rewrite run_bind.
    assert (Hrest1 : rest (set_rd st p1) = (io, oo, e, lvl, h, bc, c, crc, rle)) by exact Hrest.
    pose proof (block_sim data Hd depth io oo e lvl h bc c crc rle Hdepth Hlvl
                          (R + 48)%nat (set_rd st p1) out len (conj Hrest1 Htrees) HP1 E1) as Hb.
    destruct (run (block_ro depth lvl) (sat (R + 48)%nat out len)) as [sb s1|e1 s1].
    + cbn [run]. destruct Hb as [(R' & a & st' & -> & HR' & Em & HQ & HP')|(Hw & st' & Em)].
      * left. exists R', st'. split; [reflexivity|]. split; [lia|].
        destruct HQ as (Ha & HQ). subst a. split; [exact Em|]. split; [|exact HP'].
        split; [reflexivity | exact HQ].
      * right. split; [exact Hw|]. exists st'. exact Em.
    + exact Hb.
  - destruct (magic =? endMagic) eqn:Ee.
    + (* the footer *)
      assert (Hc' : z_endCRC (set_rd st p1) < 2 ^ 32) by (cbn [z_endCRC set_rd]; rewrite Hec; exact Hc).
      pose proof (footer_exact data Hd (R + 48)%nat (set_rd st p1) out len HP1 E1 Hc') as Hf.
      cbn [z_endCRC set_rd z_hdrftr] in Hf. rewrite Hec, Hh in Hf.
      change (bind (rbits 32) (fun c0 => bind (assert_p (c0 =? c) ECorrupted) (fun _ => AlignP (fun _ => Ret None))))
        with (footer_ro c).
      destruct (run (footer_ro c) (sat (R + 48)%nat out len)) as [r s1|e1 s1].
      * destruct Hf as (R' & p' & -> & -> & HR' & Hal & Eg & HP').
        exists R', p'. split; [reflexivity|]. split; [lia|]. split; [exact Hal|].
        split; [|exact HP']. rewrite Eg. rewrite !set_rd_set_rd. reflexivity.
      * destruct Hf as (_ & _ & st' & Eg). exists st'. left. exact Eg.
    + cbn [run]. exists (set_rd st p1). left. reflexivity.
Qed.

End Bof.
