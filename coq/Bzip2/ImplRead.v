(* Layer (f), composition: the top of Read's loop ([drain]: rle.Read, crc.update, OutputOffset,
   the two early returns) in terms of what the RLE1 stage still owes ([rle_rest_st] of
   Bzip2/ImplRle.v) and of the CRC register of the libbzip2 port (Bzip2/ImplCrc.v). *)
From V Require Import Base.Prelude Base.Prog Bzip2.Common Bzip2.SpecR Bzip2.Rle1 Bzip2.Safe
  Prefix.ReaderImpl Bzip2.Impl Bzip2.ImplRle Bzip2.ImplCrc.

Local Open Scope N_scope.

(* the RLE1 state of the Reader: what is still owed, the run state at the end of the block,
   and the CRC register over what has been delivered of this block *)
Record Owes (st : bzst) (T : list byte) (r' : N) (reg : N) : Prop := mkOwes {
  ow_cnt : (-4 <= r_lastCnt (z_rle st))%Z;
  ow_rest : rle_rest_st (z_rle st) = (T, r');
  ow_bytes : Forall (fun b => b < 256) T;
  ow_reg : reg < 2 ^ 32;
  ow_crc : z_crc st = crc_final reg
}.

Definition upd_drain (st : bzst) (r : rlest) (e : option err) (crc : N) (off : Z) : bzst :=
  set_outOff (set_crc (set_err (set_rle st r) e) crc) off.

Lemma set_err_same st : set_err st (z_err st) = st.
Proof. destruct st; reflexivity. Qed.

Lemma Forall_firstn {A} (P : A -> Prop) n l : Forall P l -> Forall P (firstn n l).
Proof.
  intros H. revert n. induction H as [|x l Hx Hl IH]; intros [|n]; cbn [firstn]; try constructor; auto.
Qed.

Lemma Forall_skipn {A} (P : A -> Prop) n l : Forall P l -> Forall P (skipn n l).
Proof.
  intros H. revert n. induction H as [|x l Hx Hl IH]; intros [|n]; cbn [skipn]; auto.
Qed.

(* bytes are owed and the buffer is not empty: they are delivered, nothing else happens
   (a missing run-length count at the end of the block is remembered, not yet reported) *)
Theorem drain_deliver st n T r' reg :
  Owes st T r' reg -> z_err st = None -> n <> 0%nat -> T <> [] ->
  exists st', drain st n = inl ((firstn n T, None), st') /\
    Owes st' (skipn n T) r' (fold_left crc_step (firstn n T) reg) /\
    z_outOff st' = (z_outOff st + Z.of_nat (length (firstn n T)))%Z /\
    z_err st' = (if (length T <? n)%nat && (r' =? 4) then Some ECorrupted else None) /\
    z_rd st' = z_rd st /\ z_inOff st' = z_inOff st /\ z_level st' = z_level st /\
    z_hdrftr st' = z_hdrftr st /\ z_blkCRC st' = z_blkCRC st /\ z_endCRC st' = z_endCRC st /\
    z_trees st' = z_trees st.
Proof.
  intros [Hc Hr Hb Hreg Hcrc] He Hn HT. unfold drain.
  destruct (rle_read_call (z_rle st) n T r' Hc Hr) as (e & r1 & E & Hc1 & Hr1 & Hle & Hgt).
  rewrite E.
  assert (Hne : firstn n T <> []).
  { destruct T as [|x T]; [contradiction|]. destruct n as [|n]; [contradiction|]. discriminate. }
  destruct (firstn n T) as [|x o] eqn:Ef; [contradiction|]. rewrite <- Ef in *. clear Hne.
  assert (Herr : match e, z_err (set_rle st r1) with
                 | RCorrupt, None => set_err (set_rle st r1) (Some ECorrupted)
                 | _, _ => set_rle st r1
                 end = set_err (set_rle st r1)
                         (if (length T <? n)%nat && (r' =? 4) then Some ECorrupted else None)).
  { cbn [z_err set_rle]. rewrite He.
    destruct (Nat.ltb_spec (length T) n) as [Hlt|Hge].
    - destruct (Hgt Hlt) as (-> & _). unfold rle_end. destruct (r' =? 4); cbn [andb]; [reflexivity|].
      symmetry. rewrite <- He. apply (set_err_same (set_rle st r1)).
    - rewrite (Hle Hge). cbn [andb]. symmetry. rewrite <- He. apply (set_err_same (set_rle st r1)). }
  rewrite Herr. rewrite Ef. rewrite <- Ef.
  eexists. split; [reflexivity|].
  split; [|cbn [z_outOff z_err z_rd z_inOff z_level z_hdrftr z_blkCRC z_endCRC z_trees set_outOff set_crc set_err set_rle];
           rewrite len_n_eq, nat_N_Z; repeat split; reflexivity].
  constructor; cbn [z_rle z_crc set_outOff set_crc set_err set_rle].
  - exact Hc1.
  - exact Hr1.
  - apply Forall_skipn. exact Hb.
  - apply crc_fold_lt; [exact Hreg | apply Forall_firstn; exact Hb].
  - rewrite Hcrc. apply go_crc_update_spec; [exact Hreg | apply Forall_firstn; exact Hb].
Qed.

(* a zero-length buffer: nothing happens, the pending error (or nil) is returned *)
Theorem drain_zero st :
  (-4 <= r_lastCnt (z_rle st))%Z ->
  drain st 0 = inl (([], z_err st), st).
Proof.
  intros _. unfold drain. cbn [rle_read]. cbn [fast_rev rev_append].
  assert (Hs : set_rle st (mkRle (r_buf (z_rle st)) (r_lastVal (z_rle st)) (r_lastCnt (z_rle st))) = st).
  { destruct st as [a b c d e f g h i [x y z] k]. reflexivity. }
  rewrite Hs. destruct (z_err st); reflexivity.
Qed.

(* nothing is owed any more, no pending error, the block ended properly: on to the next round *)
Theorem drain_done st n r' reg :
  Owes st [] r' reg -> z_err st = None -> n <> 0%nat -> r' <> 4 ->
  exists st', drain st n = inr st' /\ Owes st' [] r' reg /\ z_err st' = None /\
    z_outOff st' = z_outOff st /\ z_crc st' = z_crc st /\
    z_rd st' = z_rd st /\ z_inOff st' = z_inOff st /\ z_level st' = z_level st /\
    z_hdrftr st' = z_hdrftr st /\ z_blkCRC st' = z_blkCRC st /\ z_endCRC st' = z_endCRC st /\
    z_trees st' = z_trees st.
Proof.
  intros [Hc Hr Hb Hreg Hcrc] He Hn H4. unfold drain.
  destruct (rle_read_call (z_rle st) n [] r' Hc Hr) as (e & r1 & E & Hc1 & Hr1 & Hle & Hgt).
  rewrite E. cbn [firstn]. destruct n as [|n]; [contradiction|]. cbn [firstn].
  destruct (Hgt ltac:(cbn [length]; lia)) as (-> & _).
  unfold rle_end. replace (r' =? 4) with false by lia.
  cbn [z_err set_rle]. rewrite He. cbn [Nat.eqb].
  eexists. split; [reflexivity|]. split; [|repeat split; try reflexivity; exact He].
  constructor; cbn [z_rle z_crc set_rle]; auto.
Qed.

(* nothing is owed and the block ended after four equal bytes: "missing terminating
   run-length repeater" *)
Theorem drain_missing st n reg :
  Owes st [] 4 reg -> n <> 0%nat ->
  exists st', drain st n = inl (([], Some (match z_err st with Some e => e | None => ECorrupted end)), st') /\
    z_outOff st' = z_outOff st.
Proof.
  intros [Hc Hr Hb Hreg Hcrc] Hn. unfold drain.
  destruct (rle_read_call (z_rle st) n [] 4 Hc Hr) as (e & r1 & E & Hc1 & Hr1 & Hle & Hgt).
  rewrite E. destruct n as [|n]; [contradiction|]. cbn [firstn].
  destruct (Hgt ltac:(cbn [length]; lia)) as (-> & _).
  unfold rle_end. change (4 =? 4) with true. cbv iota.
  cbn [z_err set_rle]. destruct (z_err st) as [e0|] eqn:He.
  - cbn [z_err set_rle]. rewrite He. eexists. split; reflexivity.
  - cbn [z_err set_err set_rle]. eexists. split; reflexivity.
Qed.

(* a pending error and nothing owed: it is returned *)
Theorem drain_error st n e T r' reg :
  Owes st T r' reg -> z_err st = Some e -> T = [] ->
  exists st', drain st n = inl (([], Some e), st') /\ z_outOff st' = z_outOff st.
Proof.
  intros [Hc Hr Hb Hreg Hcrc] He ->. unfold drain.
  destruct (rle_read_call (z_rle st) n [] r' Hc Hr) as (e1 & r1 & E & Hc1 & Hr1 & Hle & Hgt).
  rewrite E. replace (firstn n []) with (@nil byte) by (destruct n; reflexivity).
  assert (Hz : z_err (match e1, z_err (set_rle st r1) with
                      | RCorrupt, None => set_err (set_rle st r1) (Some ECorrupted)
                      | _, _ => set_rle st r1
                      end) = Some e).
  { cbn [z_err set_rle]. rewrite He. destruct e1; cbn [z_err set_rle]; exact He. }
  rewrite Hz. eexists. split; [reflexivity|].
  cbn [z_err set_rle]. rewrite He. destruct e1; reflexivity.
Qed.
