(* bzip2, implementation model: burrowsWheelerTransform.Decode of bwt.go (Impl.go_bwt_decode:
   counting sort through counts/cumm/perm on N-keyed maps, then the pointer walk
   buf2[j] = buf[i]; i = perm[i]) never panics on a block of bytes with an origin pointer
   inside the block, and returns exactly the bytes of the libbzip2 port SpecR.bwt_decode
   (tt/cftab buckets, links, walk).

   Route:
   (1) counts[b]            = number of occurrences of b in buf              (counts_get)
   (2) cumm[b]              = number of elements of buf smaller than b       (cumm_less)
   (3) the perm loop, after the first i elements: cumm[b] = less b + cnt b (firstn i buf),
       perm[rank j] = j for j < i, where rank j = less buf[j] + cnt buf[j] (firstn j buf) is
       the index of position j in Bwt.bwt_perm buf (rank_spec); every rank is < n, so the
       index expression perm[cumm[b]] is never out of range                  (perm_loop, perm_final)
   (4) bwt_follow is Bwt.awalk buf (bwt_perm buf) entered one step later     (follow_awalk);
       Bwt.links_get + Bwt.walk_concrete give the same for bwt_decode. *)
From Coq Require Import Permutation Sorted FMapPositive.
From V Require Import Base.Prelude Bzip2.Common Bzip2.SpecR Bzip2.MtfRle2 Bzip2.SortLemmas
                      Bzip2.Bwt Bzip2.Impl.

Local Open Scope N_scope.

(* ---- counting ------------------------------------------------------------------------------ *)
Fixpoint cnt (b : N) (l : list N) : nat :=
  match l with
  | [] => O
  | x :: r => if x =? b then Datatypes.S (cnt b r) else cnt b r
  end.

Lemma occ_length b l : forall i, length (occ b l i) = cnt b l.
Proof.
  induction l as [|x r IH]; intros i; cbn [occ cnt]; [reflexivity|].
  destruct (x =? b); cbn [length]; rewrite IH; reflexivity.
Qed.

Lemma cnt_app b l1 l2 : cnt b (l1 ++ l2) = (cnt b l1 + cnt b l2)%nat.
Proof.
  induction l1 as [|x r IH]; cbn [app cnt]; [reflexivity|].
  destruct (x =? b); rewrite IH; reflexivity.
Qed.

(* number of elements of tt smaller than b *)
Definition less (b : N) (tt : list N) : nat :=
  length (flat_map (fun c => occ c tt 0) (iota b)).

(* index of position p in bwt_perm tt *)
Definition rank (tt : list N) (p : nat) : nat :=
  Nat.add (less (nth p tt 0) tt) (cnt (nth p tt 0) (firstn p tt)).

Lemma occ_nth b l : forall i p, (p < length l)%nat -> nth p l 0 = b ->
  (cnt b (firstn p l) < cnt b l)%nat /\
  nth (cnt b (firstn p l)) (occ b l i) 0%nat = (i + p)%nat.
Proof.
  induction l as [|x r IH]; intros i p Hp Hb; cbn [length] in Hp; [lia|].
  destruct p as [|p].
  - cbn [nth] in Hb. subst x. cbn [firstn cnt occ]. rewrite N.eqb_refl. cbn [nth].
    split; lia.
  - cbn [nth] in Hb. cbn [firstn cnt occ].
    destruct (IH (Datatypes.S i) p ltac:(lia) Hb) as [H1 H2].
    destruct (x =? b); cbn [nth]; rewrite ?H2; split; lia.
Qed.

Lemma iota_split m b : b < m -> exists post, iota m = iota b ++ b :: post.
Proof.
  intros H. rewrite !iota_eq.
  replace (N.to_nat m) with (N.to_nat b + Datatypes.S (N.to_nat m - N.to_nat b - 1))%nat by lia.
  rewrite seq_app, map_app. cbn [seq map]. rewrite Nat.add_0_l, N2Nat.id.
  eexists. reflexivity.
Qed.

Lemma rank_spec tt p : (p < length tt)%nat -> nth p tt 0 < 256 ->
  (rank tt p < length (bwt_perm tt))%nat /\ nth (rank tt p) (bwt_perm tt) 0%nat = p.
Proof.
  intros Hp Hb. unfold rank, less, bwt_perm. set (b := nth p tt 0) in *.
  destruct (iota_split 256 b Hb) as [post E]. rewrite E.
  rewrite flat_map_app. cbn [flat_map].
  set (A := flat_map (fun c => occ c tt 0) (iota b)).
  set (C := flat_map (fun c => occ c tt 0) post).
  destruct (occ_nth b tt 0%nat p Hp eq_refl) as [H1 H2].
  split.
  - rewrite !app_length, occ_length. lia.
  - rewrite app_nth2 by lia.
    replace (length A + cnt b (firstn p tt) - length A)%nat with (cnt b (firstn p tt)) by lia.
    rewrite app_nth1 by (rewrite occ_length; exact H1).
    rewrite H2. reflexivity.
Qed.

Lemma bwt_perm_length tt : (forall b, In b tt -> b < 256) -> length (bwt_perm tt) = length tt.
Proof.
  intros H. rewrite (Permutation_length (bwt_perm_perm tt H)), seq_length. reflexivity.
Qed.

Lemma bwt_perm_bound tt : (forall b, In b tt -> b < 256) ->
  forall k, (k < length tt)%nat -> (nth k (bwt_perm tt) 0 < length tt)%nat.
Proof.
  intros H k Hk.
  assert (Hin : In (nth k (bwt_perm tt) 0%nat) (seq 0 (length tt))).
  { apply (Permutation_in _ (bwt_perm_perm tt H)). apply nth_In.
    rewrite bwt_perm_length by exact H. exact Hk. }
  apply in_seq in Hin. lia.
Qed.

Lemma bwt_perm_NoDup tt : (forall b, In b tt -> b < 256) -> NoDup (bwt_perm tt).
Proof.
  intros H. apply (Permutation_NoDup (Permutation_sym (bwt_perm_perm tt H))). apply seq_NoDup.
Qed.

(* ---- (1) counts ---------------------------------------------------------------------------- *)
Lemma nm_getd_empty0 {A} k (d : A) : nm_getd nm_empty k d = d.
Proof. unfold nm_getd. rewrite nm_get_empty. reflexivity. Qed.

Lemma counts_fold buf : forall (m : nmap N) b,
  nm_getd (fold_left (fun m v => nm_set m v (nm_getd m v 0 + 1)) buf m) b 0 =
  nm_getd m b 0 + N.of_nat (cnt b buf).
Proof.
  induction buf as [|x r IH]; intros m b; cbn [fold_left cnt]; [lia|].
  rewrite IH. destruct (N.eqb_spec x b) as [E|E].
  - subst b. rewrite nm_getd_set_eq. lia.
  - rewrite nm_getd_set_neq by exact E. reflexivity.
Qed.

Lemma counts_get buf b : nm_getd (bwt_counts buf) b 0 = N.of_nat (cnt b buf).
Proof. unfold bwt_counts. rewrite counts_fold, nm_getd_empty0. lia. Qed.

(* ---- (2) cumm ------------------------------------------------------------------------------ *)
Definition cstep (counts : nmap N) (st : nmap N * N) (i : N) : nmap N * N :=
  (nm_set (fst st) i (snd st), snd st + nm_getd counts i 0).

Lemma bwt_cumm_eq counts : bwt_cumm counts = fst (fold_left (cstep counts) (iota 256) (nm_empty, 0)).
Proof. reflexivity. Qed.

Fixpoint sumN (l : list N) : N := match l with [] => 0 | x :: r => x + sumN r end.

Lemma cumm_snd counts ks : forall st,
  snd (fold_left (cstep counts) ks st) = snd st + sumN (map (fun i => nm_getd counts i 0) ks).
Proof.
  induction ks as [|k ks IH]; intros st; cbn [fold_left map sumN]; [lia|].
  rewrite IH. unfold cstep. cbn [snd]. lia.
Qed.

Lemma cumm_notin counts ks b : ~ In b ks -> forall st,
  nm_getd (fst (fold_left (cstep counts) ks st)) b 0 = nm_getd (fst st) b 0.
Proof.
  induction ks as [|k ks IH]; intros Hn st; cbn [fold_left]; [reflexivity|].
  rewrite IH by (intros F; apply Hn; right; exact F).
  unfold cstep. cbn [fst]. apply nm_getd_set_neq. intros F. apply Hn. left. exact F.
Qed.

Lemma cumm_get counts pre b post : ~ In b post ->
  nm_getd (fst (fold_left (cstep counts) (pre ++ b :: post) (nm_empty, 0))) b 0 =
  sumN (map (fun i => nm_getd counts i 0) pre).
Proof.
  intros Hn. rewrite fold_left_app. cbn [fold_left]. rewrite cumm_notin by exact Hn.
  unfold cstep at 1. cbn [fst]. rewrite nm_getd_set_eq, cumm_snd. cbn [snd]. lia.
Qed.

Lemma sum_less buf ks :
  sumN (map (fun i => nm_getd (bwt_counts buf) i 0) ks) =
  N.of_nat (length (flat_map (fun c => occ c buf 0) ks)).
Proof.
  induction ks as [|k ks IH]; cbn [map sumN flat_map length]; [reflexivity|].
  rewrite IH, app_length, occ_length, counts_get. lia.
Qed.

Lemma cumm_less buf b : b < 256 ->
  nm_getd (bwt_cumm (bwt_counts buf)) b 0 = N.of_nat (less b buf).
Proof.
  intros Hb. rewrite bwt_cumm_eq. destruct (iota_split 256 b Hb) as [post E].
  assert (Hn : ~ In b post).
  { pose proof (iota_NoDup 256) as Hnd. rewrite E in Hnd.
    apply NoDup_remove_2 in Hnd. intros F. apply Hnd. apply in_or_app. right. exact F. }
  rewrite E, cumm_get by exact Hn. rewrite sum_less. reflexivity.
Qed.

(* ---- (3) the perm loop --------------------------------------------------------------------- *)
Lemma perm_step_ok n perm cumm i b : nm_getd cumm b 0 < n ->
  bwt_perm_step n (Some (perm, cumm, i)) b =
  Some (nm_set perm (nm_getd cumm b 0) i, nm_set cumm b (nm_getd cumm b 0 + 1), i + 1).
Proof.
  intros H. unfold bwt_perm_step. cbv zeta.
  rewrite (proj2 (N.ltb_lt _ _) H). reflexivity.
Qed.

Lemma perm_loop buf n : n = N.of_nat (length buf) -> (forall b, In b buf -> b < 256) ->
  forall rest done perm cumm,
  buf = done ++ rest ->
  (forall b, b < 256 -> nm_getd cumm b 0 = N.of_nat (less b buf + cnt b done)) ->
  (forall j, (j < length done)%nat -> nm_get perm (N.of_nat (rank buf j)) = Some (N.of_nat j)) ->
  exists perm' cumm',
    fold_left (bwt_perm_step n) rest (Some (perm, cumm, N.of_nat (length done))) =
      Some (perm', cumm', n) /\
    (forall j, (j < length buf)%nat -> nm_get perm' (N.of_nat (rank buf j)) = Some (N.of_nat j)).
Proof.
  intros Hn Hbytes. induction rest as [|x rest IH]; intros done perm cumm Hbuf Hcumm Hperm.
  - rewrite app_nil_r in Hbuf. subst done. exists perm, cumm. cbn [fold_left].
    split; [rewrite Hn; reflexivity | exact Hperm].
  - set (i := length done) in *.
    assert (Hi : (i < length buf)%nat).
    { rewrite Hbuf, app_length. cbn [length]. lia. }
    assert (Hx : nth i buf 0 = x).
    { rewrite Hbuf. unfold i. rewrite app_nth2 by lia. rewrite Nat.sub_diag. reflexivity. }
    assert (Hfn : firstn i buf = done).
    { rewrite Hbuf. unfold i. rewrite firstn_app, Nat.sub_diag, firstn_all. cbn [firstn].
      apply app_nil_r. }
    assert (Hx256 : x < 256).
    { apply Hbytes. rewrite Hbuf. apply in_or_app. right. left. reflexivity. }
    assert (Hrk : rank buf i = (less x buf + cnt x done)%nat).
    { unfold rank. rewrite Hx, Hfn. reflexivity. }
    assert (Hc : nm_getd cumm x 0 = N.of_nat (rank buf i)).
    { rewrite Hrk. apply Hcumm. exact Hx256. }
    destruct (rank_spec buf i Hi ltac:(rewrite Hx; exact Hx256)) as [Hr1 Hr2].
    rewrite bwt_perm_length in Hr1 by exact Hbytes.
    cbn [fold_left]. rewrite perm_step_ok by (rewrite Hc, Hn; lia).
    replace (N.of_nat i + 1) with (N.of_nat (length (done ++ [x])))
      by (rewrite app_length; cbn [length]; unfold i; lia).
    apply IH.
    + rewrite <- app_assoc. exact Hbuf.
    + intros b Hb. rewrite cnt_app. cbn [cnt]. destruct (N.eqb_spec x b) as [E|E].
      * subst b. rewrite nm_getd_set_eq, Hc, Hrk. lia.
      * rewrite nm_getd_set_neq by exact E. rewrite Hcumm by exact Hb. lia.
    + intros j Hj. rewrite app_length in Hj. cbn [length] in Hj. fold i in Hj.
      rewrite Hc. destruct (Nat.eq_dec j i) as [E|E].
      * subst j. apply nm_get_set_eq.
      * assert (Hji : (j < i)%nat) by lia.
        rewrite nm_get_set_neq; [apply Hperm; exact Hji|].
        intros F. apply Nat2N.inj in F.
        destruct (rank_spec buf j ltac:(lia)) as [_ Hj2].
        { apply Hbytes, nth_In. lia. }
        rewrite <- F, Hr2 in Hj2. lia.
Qed.

Lemma perm_final buf : (forall b, In b buf -> b < 256) ->
  exists perm cumm,
    fold_left (bwt_perm_step (len_n buf)) buf (Some (nm_empty, bwt_cumm (bwt_counts buf), 0)) =
      Some (perm, cumm, len_n buf) /\
    (forall k, (k < length buf)%nat ->
       nm_get perm (N.of_nat k) = Some (N.of_nat (nth k (bwt_perm buf) 0%nat))).
Proof.
  intros Hbytes.
  destruct (perm_loop buf (len_n buf) (len_n_length buf) Hbytes buf [] nm_empty
                      (bwt_cumm (bwt_counts buf)) eq_refl) as (perm & cumm & Hf & Hp).
  - intros b Hb. cbn [cnt]. rewrite Nat.add_0_r. apply cumm_less. exact Hb.
  - intros j Hj. cbn [length] in Hj. lia.
  - exists perm, cumm. split; [exact Hf|]. intros k Hk.
    set (p := nth k (bwt_perm buf) 0%nat).
    assert (Hpn : (p < length buf)%nat) by (apply bwt_perm_bound; assumption).
    destruct (rank_spec buf p Hpn ltac:(apply Hbytes, nth_In; exact Hpn)) as [Hr1 Hr2].
    assert (E : rank buf p = k).
    { apply (proj1 (NoDup_nth (bwt_perm buf) 0%nat) (bwt_perm_NoDup buf Hbytes)).
      - exact Hr1.
      - rewrite bwt_perm_length by exact Hbytes. exact Hk.
      - exact Hr2. }
    rewrite <- E at 1. apply Hp. exact Hpn.
Qed.

(* ---- (4) the pointer walk ------------------------------------------------------------------ *)
Lemma follow_awalk buf perm (P : list nat) :
  (forall k, (k < length buf)%nat -> nm_get perm (N.of_nat k) = Some (N.of_nat (nth k P 0%nat))) ->
  (forall k, (k < length buf)%nat -> (nth k P 0 < length buf)%nat) ->
  forall fuel pos acc, (pos < length buf)%nat ->
  bwt_follow fuel (nm_of_list buf) perm (N.of_nat (nth pos P 0%nat)) acc =
  Some (rev acc ++ awalk buf P fuel pos).
Proof.
  intros Hperm HP. induction fuel as [|f IH]; intros pos acc Hpos; cbn [bwt_follow awalk].
  - rewrite fast_rev_eq, app_nil_r. reflexivity.
  - pose proof (HP pos Hpos) as Hq.
    rewrite nm_of_list_get, Nat2N.id, (nth_error_nth' buf 0 Hq), (Hperm _ Hq).
    rewrite IH by exact Hq. cbn [rev]. rewrite <- app_assoc. reflexivity.
Qed.

Lemma go_bwt_decode_cons buf ptr : buf <> [] ->
  go_bwt_decode buf ptr =
  match fold_left (bwt_perm_step (len_n buf)) buf (Some (nm_empty, bwt_cumm (bwt_counts buf), 0)) with
  | None => None
  | Some (perm, _, _) =>
    match nm_get perm ptr with
    | None => None
    | Some i0 => bwt_follow (nat_of (len_n buf)) (nm_of_list buf) perm i0 []
    end
  end.
Proof. intros H. destruct buf as [|x r]; [contradiction | reflexivity]. Qed.

(* both decoders, as the abstract walk of Bwt.v *)
Lemma go_bwt_decode_awalk buf ptr :
  Forall (fun b => b < 256) buf -> ptr < len_n buf ->
  go_bwt_decode buf ptr = Some (awalk buf (bwt_perm buf) (length buf) (N.to_nat ptr)).
Proof.
  intros Hall Hptr. rewrite len_n_length in Hptr.
  assert (Hbytes : forall b, In b buf -> b < 256) by (apply Forall_forall; exact Hall).
  assert (Hne : buf <> []) by (intros F; subst buf; cbn [length] in Hptr; lia).
  rewrite go_bwt_decode_cons by exact Hne.
  destruct (perm_final buf Hbytes) as (perm & cumm & Hf & Hp). rewrite Hf.
  assert (Hk : (N.to_nat ptr < length buf)%nat) by lia.
  rewrite <- (N2Nat.id ptr) at 1. rewrite (Hp _ Hk).
  rewrite nat_of_to_nat, len_n_length, Nat2N.id.
  rewrite (follow_awalk buf perm (bwt_perm buf) Hp (bwt_perm_bound buf Hbytes)) by exact Hk.
  reflexivity.
Qed.

Lemma bwt_decode_awalk buf ptr :
  Forall (fun b => b < 256) buf -> ptr < len_n buf ->
  bwt_decode buf (len_n buf) ptr = awalk buf (bwt_perm buf) (length buf) (N.to_nat ptr).
Proof.
  intros Hall Hptr. rewrite len_n_length in Hptr |- *.
  assert (Hbytes : forall b, In b buf -> b < 256) by (apply Forall_forall; exact Hall).
  assert (Hk : (N.to_nat ptr < length buf)%nat) by lia.
  unfold bwt_decode. rewrite nat_of_to_nat, Nat2N.id.
  rewrite <- (N2Nat.id ptr) at 1.
  rewrite (walk_concrete _ buf (bwt_perm buf) (length buf) (links_get buf Hbytes)
                         (bwt_perm_bound buf Hbytes)) by exact Hk.
  reflexivity.
Qed.

(* ---- main theorem -------------------------------------------------------------------------- *)
Theorem go_bwt_decode_eq buf ptr :
  Forall (fun b => b < 256) buf -> ptr < len_n buf ->
  go_bwt_decode buf ptr = Some (bwt_decode buf (len_n buf) ptr).
Proof.
  intros Hall Hptr. rewrite go_bwt_decode_awalk, bwt_decode_awalk by assumption. reflexivity.
Qed.

Lemma awalk_length L P : forall fuel pos, length (awalk L P fuel pos) = fuel.
Proof.
  induction fuel as [|f IH]; intros pos; cbn [awalk length]; [reflexivity|].
  rewrite IH. reflexivity.
Qed.

Corollary go_bwt_decode_length buf ptr :
  Forall (fun b => b < 256) buf -> ptr < len_n buf ->
  exists out, go_bwt_decode buf ptr = Some out /\ length out = length buf.
Proof.
  intros Hall Hptr. eexists. split; [apply go_bwt_decode_awalk; assumption|].
  apply awalk_length.
Qed.

Corollary bwt_decode_length buf ptr :
  Forall (fun b => b < 256) buf -> ptr < len_n buf ->
  length (bwt_decode buf (len_n buf) ptr) = length buf.
Proof.
  intros Hall Hptr. rewrite bwt_decode_awalk by assumption. apply awalk_length.
Qed.

(* auxiliary facts asked for by the callers *)
Lemma len_n_of_nat {A} (l : list A) : len_n l = N.of_nat (length l).
Proof. apply len_n_length. Qed.

Lemma nm_of_list_nth_error {A} (l : list A) k : nm_get (nm_of_list l) (N.of_nat k) = nth_error l k.
Proof. rewrite nm_of_list_get, Nat2N.id. reflexivity. Qed.

(* ---- non-vacuity: the BWT of "banana" is "nnbaaa" with origin pointer 3 --------------------- *)
Example go_bwt_decode_banana :
  let buf := [110; 110; 98; 97; 97; 97] in      (* "nnbaaa" *)
  Forall (fun b => b < 256) buf /\ 3 < len_n buf /\
  go_bwt_decode buf 3 = Some [98; 97; 110; 97; 110; 97] /\      (* "banana" *)
  go_bwt_decode buf 3 = Some (bwt_decode buf (len_n buf) 3).
Proof.
  cbv zeta. split; [|split; [|split]].
  - repeat constructor.
  - vm_compute. reflexivity.
  - vm_compute. reflexivity.
  - vm_compute. reflexivity.
Qed.

(* the pointer must be inside the block: perm[ptr] panics otherwise *)
Example go_bwt_decode_ptr_out_of_range :
  go_bwt_decode [110; 110; 98; 97; 97; 97] 6 = None.
Proof. vm_compute. reflexivity. Qed.

Print Assumptions go_bwt_decode_eq.
Print Assumptions go_bwt_decode_length.
