(* The libbzip2 port (Bzip2/SpecR.v) cut at the points where bzip2.Reader's Read loop stops:
   stream header, then per block "everything up to the inverse BWT" (read-only: [block_ro]) and
   "RLE1 expansion + block CRC check" ([emit_k]), footer; with a budget-free reading of the two
   outer loops ([loops] of Base/DepthThms.v):

     run_one_stream, run_blocks_body     the programs in terms of these pieces
     streams_inv / in_stream_inv         what a [loops] derivation of the streams / blocks loop
                                         says about its first iteration
     run_emit_k                          the emitting piece on a state at bit R

   Only the specification is involved here. *)
From V Require Import Base.Prelude Base.Prog Base.ProgThms Base.FuelThms Base.DepthThms
  Bzip2.Common Bzip2.SpecR Bzip2.Safe Bzip2.Rle1 Prefix.ReaderImpl Prefix.ReaderSpec Bzip2.ImplBits.

Local Open Scope N_scope.

(* ---- program equivalence (same runs) ------------------------------------------------------- *)
Definition peq {A} (p q : prog A) : Prop := forall s, run p s = run q s.

Lemma peq_refl {A} (p : prog A) : peq p p.
Proof. intros s. reflexivity. Qed.

Lemma peq_trans {A} (p q r : prog A) : peq p q -> peq q r -> peq p r.
Proof. intros H1 H2 s. rewrite H1. apply H2. Qed.

Lemma peq_bind {A B} (p p' : prog A) (f f' : A -> prog B) :
  peq p p' -> (forall a, peq (f a) (f' a)) -> peq (bind p f) (bind p' f').
Proof.
  intros Hp Hf s. rewrite !run_bind, Hp. destruct (run p' s) as [a s'|e s']; [apply Hf | reflexivity].
Qed.

Lemma peq_assoc {A B C} (p : prog A) (f : A -> prog B) (g : B -> prog C) :
  peq (bind (bind p f) g) (bind p (fun a => bind (f a) g)).
Proof.
  intros s. rewrite !run_bind. destruct (run p s) as [a s'|e s']; [|reflexivity].
  rewrite run_bind. reflexivity.
Qed.

(* bind p f; g  where the tail of every branch is bound to g *)
Lemma peq_assoc_bind {A B C} (p : prog A) (f : A -> prog B) (g : B -> prog C) (h : A -> prog C) :
  (forall a, peq (bind (f a) g) (h a)) -> peq (bind (bind p f) g) (bind p h).
Proof.
  intros H. eapply peq_trans; [apply peq_assoc|]. apply peq_bind; [apply peq_refl | exact H].
Qed.

Lemma loops_inv {St R} (body : St -> prog (St + R)) st s r :
  loops body st s r ->
  match run (body st) s with
  | Fail e s' => r = Fail e s'
  | Done (inr x) s' => r = Done x s'
  | Done (inl st1) s1 => loops body st1 s1 r
  end.
Proof.
  intros H. inversion H as [st0 s0 e0 s0' E|st0 s0 x s0' E|st0 s0 st1 s01 r0 E Hrest]; subst;
    rewrite E; [reflexivity | reflexivity | exact Hrest].
Qed.

(* ---- the pieces ------------------------------------------------------------------------------- *)
(* stream header: the level 1..9 *)
Definition hdr_ro : prog N :=
  m <- rbits 16 ;;
  assert_p (m =? hdrMagic) ECorrupted ;;;
  ver <- rbits 8 ;;
  (if ver =? 104 then Ret tt
   else if ver =? 48 then Throw EDeprecated
   else corrupt) ;;;
  lvl <- rbits 8 ;;
  assert_p ((49 <=? lvl) && (lvl <=? 57)) ECorrupted ;;;
  Ret (lvl - 48).

(* one block after its magic number, up to the inverse BWT, with a continuation *)
Definition block_k {A} (depth : nat) (level : N) (k : N -> list byte -> prog A) : prog A :=
  stored <- rbits 32 ;;
  rand <- rbits 1 ;;
  assert_p (rand =? 0) EDeprecated ;;;
  origPtr <- rbits 24 ;;
  used <- read_symbol_map ;;
  let nInUse := len_n used in
  assert_p (0 <? nInUse) ECorrupted ;;;
  let alphaSize := nInUse + 2 in
  let eob := nInUse + 1 in
  nGroups <- rbits 3 ;;
  assert_p ((2 <=? nGroups) && (nGroups <=? 6)) ECorrupted ;;;
  nSelectors <- rbits 15 ;;
  selsMtf <- read_sels (nat_of nSelectors) nGroups [] ;;
  let sels := mtf_decode_sels nGroups (firstn (N.to_nat maxSelectors) selsMtf) in
  tabs <- read_tables depth (N.to_nat nGroups) (N.to_nat alphaSize) [] ;;
  let maxn := level * blockSize in
  syms <- read_syms (S (S (nat_of maxn))) tabs sels 0 empty_table eob maxn 0 [] ;;
  match mtf_rle2_decode syms used maxn 1 0 0 [] with
  | None => corrupt
  | Some (nblock, tt_rev) =>
    assert_p (origPtr <? nblock) ECorrupted ;;;
    k stored (bwt_decode (fast_rev tt_rev) nblock origPtr)
  end.

(* RLE1 expansion, CRC check *)
Definition emit_k (stored : N) (block : list byte) : prog N :=
  crc <- rle1_emit block 0 0 crc_init ;;
  assert_p (crc_final crc =? stored) ECorrupted ;;;
  Ret stored.

Lemma decode_block_eq depth level : decode_block depth level = block_k depth level emit_k.
Proof. reflexivity. Qed.

Definition block_ro (depth : nat) (level : N) : prog (N * list byte) :=
  block_k depth level (fun stored block => Ret (stored, block)).

Lemma block_k_ro {A} depth level (k : N -> list byte -> prog A) :
  peq (block_k depth level k) (bind (block_ro depth level) (fun sb => k (fst sb) (snd sb))).
Proof.
  apply peq_trans with (q := bind (block_ro depth level) (fun sb => k (fst sb) (snd sb))); [|apply peq_refl].
  intros s. symmetry. revert s. change (peq (bind (block_ro depth level) (fun sb => k (fst sb) (snd sb)))
                                            (block_k depth level k)).
  unfold block_ro, block_k.
  apply peq_assoc_bind; intros stored.
  apply peq_assoc_bind; intros rand.
  apply peq_assoc_bind; intros _.
  apply peq_assoc_bind; intros origPtr.
  apply peq_assoc_bind; intros used. cbv zeta.
  apply peq_assoc_bind; intros _.
  apply peq_assoc_bind; intros nGroups.
  apply peq_assoc_bind; intros _.
  apply peq_assoc_bind; intros nSelectors.
  apply peq_assoc_bind; intros selsMtf.
  apply peq_assoc_bind; intros tabs.
  apply peq_assoc_bind; intros syms.
  destruct (mtf_rle2_decode syms used (level * blockSize) 1 0 0 []) as [[nblock tt_rev]|].
  - apply peq_assoc_bind; intros _. apply peq_refl.
  - apply peq_refl.
Qed.

(* block or footer, read-only: None = the footer has been read *)
Definition bof_ro (depth : nat) (level combined : N) : prog (option (N * list byte)) :=
  magic <- rbits 48 ;;
  if magic =? blkMagic then sb <- block_ro depth level ;; Ret (Some sb)
  else if magic =? endMagic then
    c <- rbits 32 ;;
    assert_p (c =? combined) ECorrupted ;;;
    AlignP (fun _ => Ret None)
  else corrupt.

Lemma run_blocks_body depth level combined s :
  run (blocks_body depth level combined) s =
  match run (bof_ro depth level combined) s with
  | Fail e s' => Fail e s'
  | Done None s1 => Done (inr tt) s1
  | Done (Some (stored, block)) s1 =>
    match run (emit_k stored block) s1 with
    | Done blk s2 => Done (inl (crc_combine combined blk)) s2
    | Fail e s2 => Fail e s2
    end
  end.
Proof.
  unfold blocks_body, bof_ro. rewrite !run_bind.
  destruct (run (rbits 48) s) as [magic s0|e s0]; [|reflexivity].
  destruct (magic =? blkMagic).
  - rewrite !run_bind. rewrite decode_block_eq, (block_k_ro depth level emit_k s0), !run_bind.
    destruct (run (block_ro depth level) s0) as [[stored block] s1|e s1]; [|reflexivity].
    cbn [run fst snd]. destruct (run (emit_k stored block) s1) as [blk s2|e s2]; reflexivity.
  - destruct (magic =? endMagic); [|reflexivity].
    rewrite !run_bind. destruct (run (rbits 32) s0) as [c s1|e s1]; [|reflexivity].
    rewrite !run_bind. destruct (c =? combined); cbn [assert_p run]; [|reflexivity].
    destruct (Nat.leb _ _); reflexivity.
Qed.

Lemma run_one_stream depth s :
  run (one_stream depth) s =
  match run hdr_ro s with
  | Done lvl s1 => run (loop depth (blocks_body depth lvl) 0) s1
  | Fail e s' => Fail e s'
  end.
Proof.
  unfold one_stream, hdr_ro. rewrite !run_bind.
  destruct (run (rbits 16) s) as [m s0|e s0]; [|reflexivity].
  rewrite !run_bind. destruct (m =? hdrMagic); cbn [assert_p run]; [|reflexivity].
  rewrite !run_bind. destruct (run (rbits 8) s0) as [ver s1|e s1]; [|reflexivity].
  rewrite !run_bind.
  destruct (ver =? 104); [|destruct (ver =? 48); reflexivity]. cbn [run].
  rewrite !run_bind. destruct (run (rbits 8) s1) as [lvl s2|e s2]; [|reflexivity].
  rewrite !run_bind. destruct ((49 <=? lvl) && (lvl <=? 57)); cbn [assert_p run]; reflexivity.
Qed.

(* ---- budget-free reading of the two outer loops --------------------------------------------------- *)
Section Loops.
Variable depth : nat.

(* after a complete stream: the end of the input ends the decoding, anything else is the
   next stream *)
Definition after_stream (s1 : ast) (r : result unit) : Prop :=
  match a_in s1 with
  | [] => r = Done tt s1
  | _ => loops (streams_body depth) tt s1 r
  end.

(* inside a stream, before a block or the footer, with the combined CRC so far *)
Definition in_stream (lvl c : N) (s : ast) (r : result unit) : Prop :=
  exists r1, loops (blocks_body depth lvl) c s r1 /\
    match r1 with
    | Fail e s' => r = Fail e s'
    | Done _ s1 => after_stream s1 r
    end.

Lemma streams_inv s r : (ilen s < 2 ^ depth)%nat ->
  loops (streams_body depth) tt s r ->
  match run hdr_ro s with
  | Fail e s' => r = Fail e s'
  | Done lvl s1 => in_stream lvl 0 s1 r
  end.
Proof.
  intros Hs Hl.
  assert (Hbody : run (streams_body depth tt) s =
                  match run (one_stream depth) s with
                  | Done _ s1 => match a_in s1 with [] => Done (inr tt) s1 | _ => Done (inl tt) s1 end
                  | Fail e s' => Fail e s'
                  end).
  { unfold streams_body. rewrite run_bind. destruct (run (one_stream depth) s) as [u s1|e s1]; [|reflexivity].
    cbn [run]. destruct (a_in s1); reflexivity. }
  rewrite run_one_stream in Hbody.
  destruct (run hdr_ro s) as [lvl s1|e s1] eqn:Eh.
  - pose proof (run_done_ilen_le hdr_ro s lvl s1 Eh) as Hil.
    assert (Hnf : ~ is_efuel (run (loop depth (blocks_body depth lvl) 0) s1)).
    { pose proof (nofuel_loop (S (ilen s1)) depth (blocks_body depth lvl) 0) as Hn.
      specialize (Hn (fun st => nf_blocks_body (S (ilen s1)) depth lvl st ltac:(lia))
                     (fun st => eats_blocks_body depth lvl st) ltac:(lia) s1 ltac:(lia)).
      destruct (run (loop depth (blocks_body depth lvl) 0) s1) as [a s2|e s2]; [intros []|].
      intros He. destruct e; try destruct He. apply Hn. reflexivity. }
    pose proof (loop_loops depth (blocks_body depth lvl) 0 s1 Hnf) as Hin.
    exists (run (loop depth (blocks_body depth lvl) 0) s1). split; [exact Hin|].
    destruct (run (loop depth (blocks_body depth lvl) 0) s1) as [u s2|e s2] eqn:El.
    + unfold after_stream. apply loops_inv in Hl. rewrite Hbody in Hl.
      destruct (a_in s2) eqn:Ea.
      * destruct u. exact Hl.
      * exact Hl.
    + apply loops_inv in Hl. rewrite Hbody in Hl. exact Hl.
  - apply loops_inv in Hl. rewrite Hbody in Hl. exact Hl.
Qed.

Lemma in_stream_inv lvl c s r :
  in_stream lvl c s r ->
  match run (bof_ro depth lvl c) s with
  | Fail e s' => r = Fail e s'
  | Done None s1 => after_stream s1 r
  | Done (Some (stored, block)) s1 =>
    match run (emit_k stored block) s1 with
    | Done blk s2 => in_stream lvl (crc_combine c blk) s2 r
    | Fail e s2 => r = Fail e s2
    end
  end.
Proof.
  intros (r1 & Hl & Hr).
  pose proof (run_blocks_body depth lvl c s) as Hbody.
  destruct (run (bof_ro depth lvl c) s) as [[[stored block]|] s1|e s1].
  - destruct (run (emit_k stored block) s1) as [blk s2|e s2].
    + apply loops_inv in Hl. rewrite Hbody in Hl. exists r1. split; [exact Hl | exact Hr].
    + apply loops_inv in Hl. rewrite Hbody in Hl. subst r1. exact Hr.
  - apply loops_inv in Hl. rewrite Hbody in Hl. subst r1. exact Hr.
  - apply loops_inv in Hl. rewrite Hbody in Hl. subst r1. exact Hr.
Qed.

End Loops.

(* ---- the emitting piece on a state at bit R -------------------------------------------------------- *)
Lemma run_emit_k stored block s :
  run (emit_k stored block) s =
  let '(o, r', _) := expand block 0 0 in
  if r' =? 4 then Fail ECorrupted (push_out s o)
  else if crc_final (fold_left crc_step o crc_init) =? stored then Done stored (push_out s o)
  else Fail ECorrupted (push_out s o).
Proof.
  unfold emit_k. rewrite run_bind, run_rle1_emit.
  destruct (expand block 0 0) as [[o r'] ls]. destruct (r' =? 4); [reflexivity|].
  rewrite run_bind. destruct (crc_final (fold_left crc_step o crc_init) =? stored); reflexivity.
Qed.

(* ---- the whole decoder --------------------------------------------------------------------------- *)
Section Whole.
Variable data : list byte.
Hypothesis Hd : forall b, In b data -> b < 256.

Definition spec_depth : nat := depth_for_n (len_n data).
Definition spec_run : result unit :=
  run (bzip2_prog spec_depth) (ast_init (bits_of_bytes_msb data)).

Lemma bzip2_decode_run :
  bzip2_decode data = mkBZ (res_err spec_run) (res_out spec_run) ((res_pos spec_run + 7) / 8).
Proof. reflexivity. Qed.

Lemma spec_depth_enough : (8 * length data < 2 ^ spec_depth)%nat.
Proof.
  unfold spec_depth. pose proof (depth_for_n_enough (len_n data)) as H.
  replace (N.to_nat (len_n data)) with (length data) in H by (rewrite len_n_eq, Nat2N.id; reflexivity).
  exact H.
Qed.

Lemma ast_init_sat : ast_init (bits_of_bytes_msb data) = sat data 0 [] 0.
Proof.
  unfold ast_init, sat. rewrite <- (stream_bits_msb data Hd). reflexivity.
Qed.

Lemma ilen_sat R out len : ilen (sat data R out len) = (8 * length data - R)%nat.
Proof. unfold ilen, sat. cbn [a_in]. rewrite skipn_length, (bits_length data). reflexivity. Qed.

Theorem spec_run_loops : loops (streams_body spec_depth) tt (sat data 0 [] 0) spec_run.
Proof.
  unfold spec_run. rewrite ast_init_sat. unfold bzip2_prog. apply loop_loops.
  pose proof spec_depth_enough as Hde.
  pose proof (bzip2_prog_nofuel (S (8 * length data)) spec_depth ltac:(lia) (sat data 0 [] 0)) as Hn.
  rewrite ilen_sat in Hn. specialize (Hn ltac:(lia)). unfold bzip2_prog in Hn.
  destruct (run (loop spec_depth (streams_body spec_depth) tt) (sat data 0 [] 0)) as [a s2|e s2]; [intros []|].
  intros He. destruct e; try destruct He. apply Hn. reflexivity.
Qed.

End Whole.
