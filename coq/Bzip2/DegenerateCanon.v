(* The Kraft-sum-one branch of ReadPrefixCodes: for a COMPLETE vector of 2..258
   lengths in 1..20 the canonical code of prefix.GeneratePrefixes decodes like
   the tables of BZ2_hbCreateDecodeTables (libbzip2's limit/base/perm assign the
   code values in (length, symbol) order = canonical order):

     explore_complete_in_canonical  every explored word of a complete vector is a
                                    canonical code word with the same symbol, and
                                    there is no invalid marker
     gen_prefixes_equiv   (c)       decoding one symbol with the output of
                                    gen_prefixes = GET_MTF_VAL on the libbzip2 tables
     build_codes_ok                 the dispatch of ReadPrefixCodes: whatever the
                                    Kraft sum, the decoder is initialised with a
                                    complete prefix code that decodes like libbzip2 *)
From Coq Require Import Sorted FMapPositive.
From V Require Import Base.Prelude Base.Prog Base.ProgThms Flate.Spec Flate.Canon
  Prefix.GenPrefixesThms Bzip2.Common Bzip2.SpecR Bzip2.SortLemmas Bzip2.MtfRle2 Prefix.Code
  Bzip2.Degenerate Bzip2.DegenerateSpec Bzip2.DegenerateWalk Bzip2.DegenerateTables
  Bzip2.DegenerateRefine Bzip2.DegenerateAssemble Bzip2.DegenerateThms Bzip2.LengthsOfCounts.

Local Open Scope N_scope.

(* ---- the two count_len ------------------------------------------------------------------------- *)
Lemma flate_count_sel (xs : list (N * N)) l :
  Flate.Spec.count_len xs l = N.of_nat (length (sel xs l)).
Proof. unfold Flate.Spec.count_len, sel. rewrite map_length. reflexivity. Qed.

Lemma flate_count_indexed lens l :
  Flate.Spec.count_len (indexed_of lens) l = SpecR.count_len lens l.
Proof.
  rewrite flate_count_sel. unfold indexed_of. rewrite sel_length by apply indexed_len. lia.
Qed.

Lemma indexed_snd lens : map snd (indexed_of lens) = lens.
Proof.
  unfold indexed_of. pose proof (indexed_len lens) as H. revert H.
  generalize (iota (len_n lens)) as a. induction lens as [|x lens IH]; intros a Ha.
  - destruct a; reflexivity.
  - destruct a as [|y a]; [discriminate|]. cbn [combine map snd]. f_equal. apply IH.
    cbn [length] in Ha. lia.
Qed.

Lemma indexed_lens_pos lens : (forall l, In l lens -> 1 <= l) -> lens_pos (indexed_of lens).
Proof. intros H s l Hin. apply H. unfold indexed_of in Hin. apply in_combine_r in Hin. exact Hin. Qed.

Lemma indexed_max_len lens : max_len (indexed_of lens) = max_of lens.
Proof.
  assert (H : forall xs : list (N * N), max_len xs = fold_left N.max (map snd xs) 0).
  { intros xs. unfold max_len.
    assert (G : forall a, fold_left N.max (map snd xs) a =
                          N.max a (fold_right (fun sl acc => N.max (snd sl) acc) 0 xs)).
    { induction xs as [|x xs IH]; intros a; cbn [map fold_left fold_right]; [lia|]. rewrite IH. lia. }
    rewrite G. lia. }
  rewrite H, indexed_snd. reflexivity.
Qed.

Lemma pk_L1 lens k : (forall l, In l lens -> 1 <= l) ->
  pk (indexed_of lens) (N.of_nat k) = L1n lens k.
Proof.
  intros Hpos. induction k as [|k IH].
  - apply pk_zero. apply indexed_lens_pos, Hpos.
  - rewrite Nat2N.inj_succ, <- N.add_1_r. rewrite <- fc_count, fc_succ, IH.
    rewrite flate_count_indexed. cbn [L1n]. rewrite Nat2N.inj_succ, <- N.add_1_r. reflexivity.
Qed.

(* the t-th symbol of length l *)
Lemma sel_nth_split (xs : list (N * N)) l : forall t s,
  nth_error (sel xs l) t = Some s ->
  exists pre post, xs = pre ++ (s, l) :: post /\ Flate.Spec.count_len pre l = N.of_nat t.
Proof.
  induction xs as [|[j l'] xs IH]; intros t s H.
  - destruct t; discriminate.
  - rewrite sel_cons in H. cbn [fst snd] in H. destruct (l' =? l) eqn:E.
    + apply N.eqb_eq in E. subst l'. destruct t as [|t]; cbn [app nth_error] in H.
      * inversion H; subst. exists [], xs. split; reflexivity.
      * destruct (IH t s H) as (pre & post & -> & Hc). exists ((j, l) :: pre), post.
        split; [reflexivity|]. rewrite Flate.Canon.count_len_cons, N.eqb_refl, Hc. lia.
    + cbn [app] in H. destruct (IH t s H) as (pre & post & -> & Hc). exists ((j, l') :: pre), post.
      split; [reflexivity|]. rewrite Flate.Canon.count_len_cons, E, Hc. lia.
Qed.

(* ---- markers: where they come from ----------------------------------------------------------------- *)
Lemma xwalk_none perm rows : dead_ok rows -> forall z p bits, z = mval p ->
  In (bits, None) (snd (xwalk rows perm z p)) ->
  (exists q, bits = p ++ q /\ gstat rows perm z q = GOkay None) \/
  (exists i r, nth_error rows i = Some r /\ length bits = (length p + S i)%nat /\
               r_dead r <= mval bits).
Proof.
  induction rows as [|r rest IH]; intros Hok z p bits Hz Hin; [contradiction|].
  pose proof Hok as [_ Hok']. apply xwalk_in in Hin. destruct Hin as [[b Hin]|[b (He & Hf & _)]].
  - unfold xchild in Hin. cbv zeta in Hin.
    destruct (2 * z + N.b2n b <? r_limit1 r) eqn:E.
    + destruct Hin as [Hin|[]].
      pose proof (f_equal fst Hin) as H1. pose proof (f_equal snd Hin) as H2.
      cbn [fst snd] in H1, H2. subst bits. left. exists [b]. split; [reflexivity|].
      cbn [gstat]. cbv zeta. rewrite E, H2. reflexivity.
    + apply (IH Hok') in Hin; [|rewrite mval_snoc, Hz; reflexivity].
      destruct Hin as [(q & -> & Hg)|(i & r' & H1 & H2 & H3)].
      * left. exists (b :: q). split; [rewrite <- app_assoc; reflexivity|].
        cbn [gstat]. cbv zeta. rewrite E. exact Hg.
      * right. exists (S i), r'. split; [exact H1|].
        split; [rewrite H2, app_length; cbn [length]; lia | exact H3].
  - inversion He; subst bits. right. exists 0%nat, r. split; [reflexivity|].
    split; [rewrite app_length; reflexivity|].
    apply (xchild_false perm r rest z p b Hok) in Hf. rewrite mval_snoc, <- Hz. lia.
Qed.

Section Complete.
  Variable lens : list N.
  Hypothesis Hok : lens_ok lens.
  Hypothesis Hcomplete : complete (indexed_of lens) = true.

  Let codes := indexed_of lens.
  Let rows := t_rows (mk_table lens).
  Let perm := t_perm (mk_table lens).
  Let P := perm_list lens.
  Let E0 := snd (xwalk rows perm 0 []).
  Let n := N.of_nat (length lens).

  Let Hne : lens <> [] := proj1 (lens_ok_facts lens Hok).
  Let Hn : (length lens <= 258)%nat := proj1 (proj2 (lens_ok_facts lens Hok)).
  Let H20 : len20 lens := proj1 (proj2 (proj2 (lens_ok_facts lens Hok))).
  Let Hpos : forall l, In l lens -> 1 <= l := proj2 (proj2 (proj2 (lens_ok_facts lens Hok))).

  Lemma codes_pos : lens_pos codes.
  Proof. apply indexed_lens_pos, Hpos. Qed.

  Lemma L1n_le_pow k : (k <= N.to_nat (max_of lens))%nat -> L1n lens k <= 2 ^ N.of_nat k.
  Proof.
    intros Hk. rewrite <- (pk_L1 lens k Hpos). fold codes. apply pk_le_pow.
    - apply complete_kraft_ok, Hcomplete.
    - unfold codes. rewrite indexed_max_len. lia.
  Qed.

  Lemma L1n_max : L1n lens (N.to_nat (max_of lens)) = 2 ^ max_of lens.
  Proof.
    rewrite <- (pk_L1 lens _ Hpos), N2Nat.id. fold codes.
    rewrite <- (indexed_max_len lens). fold codes. rewrite pk_kraft_eq by lia.
    unfold complete in Hcomplete. apply N.eqb_eq in Hcomplete. exact Hcomplete.
  Qed.

  (* nothing is dead: the dead value of the row of length k is 2^k *)
  Lemma dead_pow : forall rs j, rs = skipn j rows -> rs <> [] -> dnext rs = 2 ^ N.of_nat (S j).
  Proof.
    destruct (mk_table_rows_ok lens Hpos) as [Hlen Hrows]. fold rows in Hlen, Hrows.
    induction rs as [|r rest IH]; intros j Hj Hnn; [contradiction|].
    assert (Hr : nth_error rows j = Some r).
    { rewrite <- (Nat.add_0_r j), <- nth_error_skipn', <- Hj. reflexivity. }
    assert (Hrest : rest = skipn (S j) rows).
    { rewrite (skipn_nth_error_cons rows j r Hr) in Hj. inversion Hj. reflexivity. }
    assert (Hjl : (j < length rows)%nat) by (apply nth_error_Some; congruence).
    assert (Hd : dead_ok (r :: rest)).
    { rewrite Hj. clear -rows. pose proof (mk_table_dead_ok lens) as Hd. fold rows in Hd.
      revert Hd. generalize rows as l. induction j as [|j IHj]; intros l Hd; [exact Hd|].
      destruct l as [|x l]; [exact I|]. cbn [skipn]. apply IHj. destruct Hd as [_ Hd]. exact Hd. }
    destruct Hd as [Hd _]. cbn [dnext]. rewrite Hd.
    destruct (Hrows j r Hr) as (H1 & _). rewrite H1.
    destruct rest as [|r' rest'].
    - (* the last row *)
      assert (Hjm : S j = N.to_nat (max_of lens)).
      { assert (Hs : length (skipn (S j) rows) = 0%nat) by (rewrite <- Hrest; reflexivity).
        rewrite skipn_length in Hs. lia. }
      cbn [dnext]. rewrite Hjm, L1n_max, N2Nat.id. change ((0 + 1) / 2) with 0. lia.
    - rewrite (IH (S j) Hrest) by discriminate.
      pose proof (L1n_le_pow (S j) ltac:(lia)) as Hle.
      replace (N.of_nat (S (S j))) with (N.of_nat (S j) + 1) by lia.
      rewrite N.pow_add_r. change (2 ^ 1) with 2.
      assert (Hh : (2 ^ N.of_nat (S j) * 2 + 1) / 2 = 2 ^ N.of_nat (S j)).
      { replace (2 ^ N.of_nat (S j) * 2 + 1) with (1 + 2 ^ N.of_nat (S j) * 2) by lia.
        rewrite N.div_add by lia. reflexivity. }
      rewrite Hh. lia.
  Qed.

  Lemma no_markers bits : ~ In (bits, None) E0.
  Proof.
    intros Hin.
    destruct (create_tables_ok lens Hne Hn H20) as (T & _ & HT).
    destruct (xwalk_none perm rows (mk_table_dead_ok lens) 0 [] bits eq_refl Hin)
      as [(q & Hq & Hg)|(i & r & Hr & Hl & Hd)].
    - destruct (gstat_okay_some lens T Hn Hpos HT q None Hg) as (s & Hs & _). discriminate.
    - cbn [length Nat.add] in Hl.
      pose proof (dead_pow (skipn i rows) i eq_refl) as Hp.
      rewrite (skipn_nth_error_cons rows i r Hr) in Hp. cbn [dnext] in Hp.
      rewrite Hp in Hd by discriminate.
      pose proof (mval_bound bits) as Hb. rewrite Hl in Hb. lia.
  Qed.

  (* a valid explored word is the canonical code word of its symbol *)
  Lemma emit_canonical bits s : In (bits, Some s) E0 ->
    In (s, N.of_nat (length bits), mval bits) (canonical codes).
  Proof.
    intros Hin. destruct (emit_index lens Hok bits s Hin) as (i & Hl & Hr & Hp).
    fold P in Hp. apply (canonical_spec codes codes_pos).
    set (t := mval bits - 2 * L1n lens i).
    assert (Ht : t < SpecR.count_len lens (N.of_nat (S i))).
    { unfold t. cbn [L1n] in Hr. lia. }
    assert (Hk : 1 <= N.of_nat (S i) <= max_of lens).
    { split; [lia|].
      destruct (N.le_gt_cases (N.of_nat (S i)) (max_of lens)) as [H|H]; [exact H|]. exfalso.
      rewrite count_len_zero in Ht; [lia|]. intros l Hl' El.
      destruct (scan_minmax_ok lens Hne H20) as (mn & _ & _ & _ & _ & Hall).
      specialize (Hall _ Hl'). lia. }
    pose proof (perm_list_nth lens (N.of_nat (S i)) t Hpos Hk Ht) as Hnth.
    unfold Cm in Hnth. rewrite Nat2N.id in Hnth. fold P in Hnth.
    replace (mval bits - 2 * L1n lens i + Cn lens (S i)) with (Cn lens (S i) + t) in Hp by (unfold t; lia).
    rewrite Hnth in Hp.
    destruct (sel_nth_split (indexed_of lens) (N.of_nat (S i)) (N.to_nat t) s Hp)
      as (pre & post & Hsplit & Hc).
    exists pre, post. rewrite Hl. split; [exact Hsplit|].
    rewrite Hc, N2Nat.id. replace (N.of_nat (S i)) with (N.of_nat i + 1) by lia.
    rewrite fc_succ. fold codes. unfold codes. rewrite (pk_L1 lens i Hpos). unfold t. lia.
  Qed.

  (* the entries of the explored code are entries of the canonical code *)
  Theorem explore_complete_in_canonical c :
    In c (final E0) -> In c (map rv (canonical codes)).
  Proof.
    intros Hc. destruct (final_sound E0 c (E0_ok lens Hok) Hc) as ([bits o] & He & Hm).
    destruct o as [s|]; [|exfalso; exact (no_markers bits He)].
    apply in_map_rv. exists s, (N.of_nat (length bits)), (mval bits).
    split; [|apply emit_canonical, He].
    destruct Hm as (Hl & Hv & Hs). cbn [fst snd] in Hl, Hv, Hs.
    destruct c as [[cs cl] cv]. unfold c_sym, c_len, c_val in *. cbn [fst snd] in *. subst cs cl cv.
    f_equal. rewrite reverse_bits_msb, Nat2N.id. unfold mval. rewrite msb_bits_of_word. reflexivity.
  Qed.

  (* (c) *)
  Theorem gen_prefixes_equiv out :
    gen_prefixes codes = GPOk out ->
    forall st, go_outcome n out st = c_outcome lens st.
  Proof.
    intros Hgp st.
    assert (H2 : (2 <= length codes)%nat).
    { unfold codes, indexed_of. rewrite combine_length, indexed_len. pose proof Hok as [[H _] _]. lia. }
    pose proof (gen_prefixes_valid codes out H2 Hgp) as Hvalid.
    pose proof (gen_prefixes_canonical codes out H2 Hgp) as Hout.
    change (out = map rv (canonical codes)) in Hout.
    rewrite <- (final_equiv lens Hok st). fold rows perm E0 n.
    pose proof (final_complete lens Hok) as HF. fold rows perm E0 in HF.
    assert (Hsub : forall c, In c (final E0) -> In c out).
    { intros c Hc. rewrite Hout. apply explore_complete_in_canonical, Hc. }
    (* a code entry starts the input iff its value matches the input read as a number *)
    assert (Hpre : forall c, c_val c < 2 ^ c_len c ->
              (is_prefix_b (code_bits c) (a_in st) = true <->
               (N.to_nat (c_len c) <= length (a_in st))%nat /\
               bits_val (a_in st) mod 2 ^ c_len c = c_val c)).
    { intros c Hv. rewrite is_prefix_b_iff. unfold code_bits.
      split.
      - intros [t Ht]. rewrite Ht. split.
        + rewrite app_length, val_bits_length. lia.
        + rewrite bits_val_app, val_bits_length, N2Nat.id, bits_val_val_bits, N2Nat.id.
          rewrite N.mul_comm, N.mod_add by (apply N.pow_nonzero; lia).
          rewrite N.mod_mod by (apply N.pow_nonzero; lia). apply N.mod_small, Hv.
      - intros [Hlen Hmod].
        pose proof (bits_val_prefix (val_bits (N.to_nat (c_len c)) (c_val c)) (a_in st)) as Hbp.
        rewrite val_bits_length, N2Nat.id, bits_val_val_bits, N2Nat.id in Hbp.
        rewrite (N.mod_small (c_val c)) in Hbp by exact Hv.
        apply Hbp; assumption. }
    unfold go_outcome.
    destruct (decode_with_codes (final E0) (a_in st)) as [[s k]|] eqn:EF.
    - destruct (decode_some _ _ _ _ EF) as (c & Hc & Hp & -> & ->).
      destruct (decode_with_codes out (a_in st)) as [[s' k']|] eqn:EO.
      + destruct (decode_some _ _ _ _ EO) as (c' & Hc' & Hp' & -> & ->).
        assert (c' = c).
        { apply (vc_unique out Hvalid (bits_val (a_in st)) c' c Hc' (Hsub c Hc)).
          - apply (Hpre c' (vc_val_lt out Hvalid c' Hc')), Hp'.
          - apply (Hpre c (vc_val_lt out Hvalid c (Hsub c Hc))), Hp. }
        subst c'. reflexivity.
      + exfalso. pose proof (decode_none _ _ EO c (Hsub c Hc)). congruence.
    - destruct (decode_with_codes out (a_in st)) as [[s' k']|] eqn:EO; [exfalso | reflexivity].
      destruct (decode_some _ _ _ _ EO) as (c' & Hc' & Hp' & -> & ->).
      (* pad the input with zeros: some explored entry starts the padded input; it is longer
         than the input, so c' is a proper prefix of it: impossible in a prefix code *)
      set (v := bits_val (a_in st)).
      destruct (cc_complete _ HF v) as (c & Hc & Hv).
      pose proof (decode_none _ _ EF c Hc) as Hnp.
      pose proof (cc_val_lt _ HF c Hc) as Hcv.
      assert (Hlong : (length (a_in st) < N.to_nat (c_len c))%nat).
      { destruct (Nat.lt_ge_cases (length (a_in st)) (N.to_nat (c_len c))) as [H|H]; [exact H|].
        exfalso. assert (Ht : is_prefix_b (code_bits c) (a_in st) = true) by (apply (Hpre c Hcv); auto).
        congruence. }
      pose proof (proj1 (Hpre c' (vc_val_lt out Hvalid c' Hc')) Hp') as [Hlen' Hmod'].
      assert (c' = c).
      { apply (vc_unique out Hvalid v c' c Hc' (Hsub c Hc)); assumption. }
      subst c'. lia.
  Qed.

End Complete.

(* ---- ReadPrefixCodes: the dispatch on the Kraft sum ------------------------------------------------ *)
Lemma shiftr_pow l : l <= 20 -> Z.shiftr 1048576 (Z.of_N l) = Z.of_N (2 ^ (20 - l)).
Proof.
  intros H.
  assert (Hc : l = 0 \/ l = 1 \/ l = 2 \/ l = 3 \/ l = 4 \/ l = 5 \/ l = 6 \/ l = 7 \/ l = 8 \/ l = 9 \/
               l = 10 \/ l = 11 \/ l = 12 \/ l = 13 \/ l = 14 \/ l = 15 \/ l = 16 \/ l = 17 \/
               l = 18 \/ l = 19 \/ l = 20) by lia.
  repeat (destruct Hc as [->|Hc]; [reflexivity|]). subst l. reflexivity.
Qed.

Lemma kraft_map_snd m (xs : list (N * N)) :
  kraft m xs = fold_right (fun l acc => 2 ^ (m - l) + acc) 0 (map snd xs).
Proof. induction xs as [|x xs IH]; [reflexivity|]. cbn [kraft map fold_right] in *. rewrite <- IH. reflexivity. Qed.

Lemma kraft_rest_eq lens : (forall l, In l lens -> l <= 20) ->
  kraft_rest lens = (1048576 - Z.of_N (kraft 20 (indexed_of lens)))%Z.
Proof.
  intros H20. rewrite kraft_map_snd, indexed_snd. unfold kraft_rest.
  assert (G : forall a, fold_left (fun s l => (s - Z.shiftr 1048576 (Z.of_N l))%Z) lens a =
                        (a - Z.of_N (fold_right (fun l acc => 2 ^ (20 - l) + acc) 0 lens)%N)%Z).
  { induction lens as [|x lens IH]; intros a; cbn [fold_left fold_right]; [lia|].
    rewrite IH by (intros l Hl; apply H20; right; exact Hl).
    rewrite shiftr_pow by (apply H20; left; reflexivity). lia. }
  apply G.
Qed.

Lemma indexed_fst lens : map fst (indexed_of lens) = iota (len_n lens).
Proof.
  unfold indexed_of. pose proof (indexed_len lens) as H. revert H.
  generalize (iota (len_n lens)) as a. intros a. revert lens.
  induction a as [|y a IH]; intros lens Ha; [reflexivity|].
  destruct lens as [|x lens]; [discriminate|]. cbn [combine map fst]. f_equal. apply IH.
  cbn [length] in Ha. lia.
Qed.

Theorem build_codes_ok lens : lens_ok lens ->
  exists out, build_codes lens = BOk out /\ complete_code out /\
    forall st, go_outcome (N.of_nat (length lens)) out st = c_outcome lens st.
Proof.
  intros Hok. destruct (lens_ok_facts lens Hok) as (Hne & Hn & H20 & Hpos).
  unfold build_codes. fold (indexed_of lens).
  assert (Hmax : max_len (indexed_of lens) <= 20).
  { rewrite indexed_max_len. destruct (scan_minmax_ok lens Hne H20) as (mn & _ & _ & Hmx & _). exact Hmx. }
  rewrite kraft_rest_eq by (intros l Hl; apply H20 in Hl; lia).
  destruct (1048576 - Z.of_N (kraft 20 (indexed_of lens)) =? 0)%Z eqn:Ek.
  - (* Kraft sum one: GeneratePrefixes *)
    assert (Hc : complete (indexed_of lens) = true).
    { apply (complete_of_kraft 20); [exact Hmax|]. change (2 ^ 20) with 1048576. lia. }
    destruct (gen_prefixes_accepts' (indexed_of lens)) as (out & Hgp & Hv & Hfst).
    + rewrite indexed_fst. apply iota_sorted_lt.
    + apply indexed_lens_pos, Hpos.
    + exact Hc.
    + rewrite Hgp. exists out. split; [reflexivity|]. split.
      * constructor.
        -- assert (Hl : length out = length (indexed_of lens)) by (rewrite <- Hfst, map_length; reflexivity).
           unfold pcode. rewrite Hl. unfold indexed_of.
           rewrite combine_length, indexed_len. destruct Hok as [[H _] _]. lia.
        -- apply (vc_sorted out Hv).
        -- intros e He. split; [apply (vc_len_pos out Hv e He)|].
           assert (Hin : In (fst e) (indexed_of lens)) by (rewrite <- Hfst; apply in_map, He).
           destruct e as [[s l] v]. cbn [fst] in Hin. unfold indexed_of in Hin.
           apply in_combine_r in Hin. apply H20 in Hin. unfold c_len, maxPrefixBits. cbn [fst snd]. lia.
        -- apply (vc_val_lt out Hv).
        -- apply (vc_kraft out Hv).
        -- apply (vc_prefix_free out Hv).
        -- apply (vc_complete out Hv).
        -- apply (vc_unique out Hv).
      * apply (gen_prefixes_equiv lens Hok Hc out Hgp).
  - (* anything else: handleDegenerateCodes *)
    rewrite (handle_degenerate_final lens Hok). eexists. split; [reflexivity|]. split.
    + apply (final_complete lens Hok).
    + apply (final_equiv lens Hok).
Qed.
