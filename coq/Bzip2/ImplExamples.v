(* Non-vacuity of the refinement theorem of Bzip2/ImplThms.v: concrete runs of the model of
   bzip2.Reader, computed with vm_compute, satisfy the hypotheses of
   [bzip2_impl_refines_libbzip2]; and the io.ErrUnexpectedEOF disjunct of its conclusion is
   inhabited (the witness of the finding in NOTES.md), so it cannot be dropped. *)
From V Require Import Base.Prelude Base.Prog Bzip2.Common Bzip2.SpecR Prefix.ReaderImpl Bzip2.Impl
  Bzip2.ImplThms.
Local Open Scope N_scope.

(* "hello", compressed by bzip2 -9 (41 bytes) *)
Definition ex_hello : list byte :=
  [66;90;104;57;49;65;89;38;83;89;25;49;101;61;0;0;0;129;0;2;68;160;0;33;154;104;51;77;7;51;139;185;
   34;156;40;72;12;152;178;158;128].

Lemma ex_hello_bytes : forall b, In b ex_hello -> b < 256.
Proof.
  intros b Hb. assert (H : forallb (fun x => x <? 256) ex_hello = true) by (vm_compute; reflexivity).
  rewrite forallb_forall in H. apply N.ltb_lt. apply H. exact Hb.
Qed.

(* a BufferedReader source, buffers of 3, 100 and 1 bytes *)
Example ex_hello_run :
  map (fun o => (bo_bytes o, bo_err o, bo_inOff o, bo_outOff o))
      (fst (bz_run (bz_new ex_hello true [] []) [3; 100; 1]%nat))
  = [([104; 101; 108], None, 31%Z, 3%Z); ([108; 111], None, 31%Z, 5%Z); ([], Some EEOF, 41%Z, 5%Z)].
Proof. vm_compute. reflexivity. Qed.

(* the theorem applied to this run: libbzip2 accepts, same bytes, all 41 input bytes consumed *)
Example ex_hello_refines :
  bz_err (bzip2_decode ex_hello) = None /\ bz_out (bzip2_decode ex_hello) = [104; 101; 108; 108; 111] /\
  bz_used (bzip2_decode ex_hello) = 41.
Proof.
  destruct (bz_run (bz_new ex_hello true [] []) [3; 100; 1]%nat) as [obs fin] eqn:Er.
  assert (Hobs : exists pre o, obs = pre ++ [o] /\ bo_err o = Some EEOF /\ bo_inOff o = 41%Z /\
                               obs_out obs = [104; 101; 108; 108; 111]).
  { assert (E : obs = fst (bz_run (bz_new ex_hello true [] []) [3; 100; 1]%nat)) by (rewrite Er; reflexivity).
    rewrite E. vm_compute. eexists [_; _], _. split; [reflexivity|]. repeat split; reflexivity. }
  destruct Hobs as (pre & o & Ho & He & Hi & Hout).
  pose proof (bzip2_impl_refines_libbzip2 ex_hello true [] [] _ obs fin pre o EEOF ex_hello_bytes Er Ho He) as H.
  cbv zeta in H. destruct H as (_ & _ & H).
  destruct (bz_err (bzip2_decode ex_hello)) as [es|].
  - destruct H as (Hne & _). exfalso. apply Hne. reflexivity.
  - destruct H as (_ & H2 & H3). split; [reflexivity|]. split; [rewrite <- H2; exact Hout|]. lia.
Qed.

(* the same stream cut after 30 bytes, on a ByteReader: unexpected EOF on both sides *)
Example ex_truncated_run :
  map (fun o => (bo_bytes o, bo_err o))
      (fst (bz_run (bz_new (firstn 30 ex_hello) false [] []) [4096]%nat)) = [([], Some EUEOF)]
  /\ bz_err (bzip2_decode (firstn 30 ex_hello)) = Some EUEOF.
Proof. vm_compute. split; reflexivity. Qed.

(* FINDING: the witness gen.BzOverRequest(12, 0): one block, two under-subscribed trees with the
   lengths (2, 12, 12), symbols RUNA and then the dead prefix 011 ending a byte, one more byte.
   libbzip2 (the port): data error.  bzip2.Reader over a source that has everything buffered: data
   error.  Over a ByteReader: unexpected EOF.  The last disjunct of the theorem is needed. *)
Definition ex_over_request : list byte :=
  [66;90;104;49;49;65;89;38;83;89;0;0;0;0;0;0;0;1;0;32;0;32;0;33;42;170;168;18;170;170;129;128].

Example ex_over_request_spec : bz_err (bzip2_decode ex_over_request) = Some ECorrupted.
Proof. vm_compute. reflexivity. Qed.

Example ex_over_request_bytereader :
  map (fun o => (bo_bytes o, bo_err o)) (fst (bz_run (bz_new ex_over_request false [] []) [4096]%nat))
  = [([], Some EUEOF)].
Proof. vm_compute. reflexivity. Qed.

Example ex_over_request_buffered :
  map (fun o => (bo_bytes o, bo_err o))
      (fst (bz_run (bz_new ex_over_request true [100%nat; 100%nat; 100%nat] []) [4096]%nat))
  = [([], Some ECorrupted)].
Proof. vm_compute. reflexivity. Qed.
