(* C04, stage 2: the inverse Burrows-Wheeler transform of the decoder model
   (SpecR.bwt_decode: bucket/counting sort of the positions, then the
   tt/cftab walk of libbzip2 and bwt.go Decode) inverts the transform of the
   encoder model (SpecW.bwt_encode: rotations sorted through a suffix order of
   the doubled block, equal rotations by descending start) - for EVERY block.

   Proof idea (no case distinction for periodic blocks is needed):
   let S be the list of rotations (as byte strings) in the encoder's order; S is
   sorted lexicographically whatever the tie-break is.  L = last bytes of S is
   the encoder's output.  Let P be the positions 0..n-1 stably sorted by L
   (what the decoder's buckets compute) and T[k] = S[P[k]] rotated right by
   one.  T is sorted as well (first by the byte L[P[k]] moved to the front,
   then, for equal bytes, by the remaining n-1 bytes because P is stable and S
   sorted), and T is a permutation of S because the set of rotations is closed
   under rotating.  A sorted permutation of a sorted list is that list, so
   S[P[k]] = S[k] rotated LEFT by one: each step of the decoder's walk moves
   to (a rank holding) the rotation that starts one byte later, and emits its
   predecessor's first byte.  Starting from the rank of rotation 0 (origPtr)
   the walk therefore emits block[0], block[1], ...  The tie-break between
   equal rotations only decides WHICH of several equal strings sits at a rank
   and is irrelevant for the bytes emitted. *)
From Coq Require Import Permutation Sorted FMapPositive.
From V Require Import Base.Prelude Bzip2.Common Bzip2.SpecR Bzip2.SpecW Bzip2.MtfRle2 Bzip2.SortLemmas.

(* ---- rotations --------------------------------------------------------------------- *)
Definition rotl (s : list N) : list N := match s with [] => [] | x :: r => r ++ [x] end.
Definition rotr (s : list N) : list N :=
  match s with [] => [] | _ :: _ => last s 0 :: removelast s end.

Lemma rotr_snoc a x : rotr (a ++ [x]) = x :: a.
Proof.
  unfold rotr. destruct (a ++ [x]) eqn:E; [destruct a; discriminate|].
  rewrite <- E, last_last, removelast_last. reflexivity.
Qed.

Lemma rotr_rotl s : rotr (rotl s) = s.
Proof. destruct s as [|x r]; [reflexivity|]. cbn [rotl]. apply rotr_snoc. Qed.

Lemma rotl_rotr s : rotl (rotr s) = s.
Proof. induction s as [|x r _] using rev_ind; [reflexivity|]. rewrite rotr_snoc. reflexivity. Qed.

(* the rotation of [block] that starts at index i *)
Definition rot (block : list N) (i : nat) : list N := skipn i block ++ firstn i block.

Lemma rot_length block i : length (rot block i) = length block.
Proof. unfold rot. rewrite app_length, skipn_length, firstn_length. lia. Qed.

Lemma rot_0 block : rot block 0 = block.
Proof. unfold rot. cbn [skipn firstn]. apply app_nil_r. Qed.

Lemma rot_n block : rot block (length block) = block.
Proof. unfold rot. rewrite skipn_all, firstn_all. reflexivity. Qed.

Lemma rot_cons block i : (i < length block)%nat ->
  rot block i = nth i block 0 :: skipn (S i) block ++ firstn i block.
Proof. intros H. unfold rot. rewrite (skipn_cons_nth block 0 i) by exact H. reflexivity. Qed.

Lemma rotl_rot block i : (i < length block)%nat -> rotl (rot block i) = rot block (S i).
Proof.
  intros H. rewrite rot_cons by exact H. cbn [rotl]. unfold rot.
  rewrite (firstn_S_nth block 0 i) by exact H. rewrite app_assoc. reflexivity.
Qed.

Definition pred_mod (n i : nat) : nat := match i with O => (n - 1)%nat | S j => j end.

Lemma rotr_rot block i : (i < length block)%nat ->
  rotr (rot block i) = rot block (pred_mod (length block) i).
Proof.
  intros H. destruct i as [|j]; cbn [pred_mod].
  - rewrite rot_0, <- (rot_n block) at 1.
    replace (length block) with (S (length block - 1)) at 1 by lia.
    rewrite <- rotl_rot by lia. apply rotr_rotl.
  - rewrite <- rotl_rot by lia. apply rotr_rotl.
Qed.

Lemma pred_mod_seq n : (0 < n)%nat -> Permutation (map (pred_mod n) (seq 0 n)) (seq 0 n).
Proof.
  intros H. destruct n as [|m]; [lia|]. cbn [seq map pred_mod].
  rewrite <- seq_shift, map_map. cbn [pred_mod]. rewrite map_id.
  replace (S m - 1)%nat with m by lia. rewrite seq_shift.
  change (0%nat :: seq 1 m) with (seq 0 (S m)). rewrite seq_S. cbn [Nat.add].
  apply Permutation_cons_append.
Qed.

(* the rotations (as strings) are closed under rotating right *)
Lemma rots_closed block order :
  Permutation order (seq 0 (length block)) ->
  Permutation (map rotr (map (rot block) order)) (map (rot block) order).
Proof.
  intros HP. destruct (Nat.eq_dec (length block) 0) as [E|E].
  - rewrite E in HP. cbn [seq] in HP. apply Permutation_sym, Permutation_nil in HP. subst order.
    constructor.
  - assert (E1 : map rotr (map (rot block) order) =
                 map (rot block) (map (pred_mod (length block)) order)).
    { rewrite !map_map. apply map_ext_in. intros i Hi. apply rotr_rot.
      apply (Permutation_in _ HP), in_seq in Hi. lia. }
    rewrite E1. apply Permutation_map.
    eapply Permutation_trans; [apply Permutation_map, HP|].
    eapply Permutation_trans; [apply pred_mod_seq; lia|]. apply Permutation_sym, HP.
Qed.

(* ---- the LF step, abstractly --------------------------------------------------------- *)
Definition keylt (L : list N) (p q : nat) : Prop :=
  nth p L 0 < nth q L 0 \/ (nth p L 0 = nth q L 0 /\ (p < q)%nat).

Lemma nth_map_lt {A B} (f : A -> B) l d d' k : (k < length l)%nat ->
  nth k (map f l) d' = f (nth k l d).
Proof.
  intros H. rewrite (nth_indep _ d' (f d)) by (rewrite map_length; exact H). apply map_nth.
Qed.

Fixpoint awalk (L : list N) (P : list nat) (fuel pos : nat) : list N :=
  match fuel with
  | O => []
  | S f => nth (nth pos P 0%nat) L 0 :: awalk L P f (nth pos P 0%nat)
  end.

Section LF.
  Variable block : list N.
  Variable order P : list nat.
  Let n := length block.
  Let RS := map (rot block) order.
  Let L := map (fun s => last s 0) RS.
  Hypothesis Hn : (0 < n)%nat.
  Hypothesis Hord : Permutation order (seq 0 n).
  Hypothesis HS : Sorted lex_le RS.
  Hypothesis HP : Permutation P (seq 0 n).
  Hypothesis HPs : StronglySorted (keylt L) P.

  Lemma S_length : length RS = n.
  Proof. unfold RS. rewrite map_length, (Permutation_length Hord), seq_length. reflexivity. Qed.

  Lemma P_length : length P = n.
  Proof. rewrite (Permutation_length HP), seq_length. reflexivity. Qed.

  Lemma S_nth_length k : (k < n)%nat -> length (nth k RS []) = n.
  Proof.
    intros H. assert (Hin : In (nth k RS []) RS) by (apply nth_In; rewrite S_length; exact H).
    unfold RS in Hin |- *. apply in_map_iff in Hin. destruct Hin as (i & <- & _). apply rot_length.
  Qed.

  Lemma L_nth k : nth k L 0 = last (nth k RS []) 0.
  Proof. exact (map_nth (fun s => last s 0) RS [] k). Qed.

  Lemma P_lt k : (k < n)%nat -> (nth k P 0 < n)%nat.
  Proof.
    intros H. assert (Hin : In (nth k P 0%nat) P) by (apply nth_In; rewrite P_length; exact H).
    apply (Permutation_in _ HP), in_seq in Hin. lia.
  Qed.

  Lemma S_strong : StronglySorted lex_le RS.
  Proof.
    apply Sorted_StronglySorted; [|exact HS]. intros x y z. apply lex_le_trans.
  Qed.

  Lemma S_snoc k : (k < n)%nat -> exists a x, nth k RS [] = a ++ [x] /\ length a = (n - 1)%nat.
  Proof.
    intros H. pose proof (S_nth_length k H) as Hl.
    destruct (nth k RS []) as [|y s] eqn:E using rev_ind; [cbn [length] in Hl; lia|].
    exists s, y. split; [reflexivity|]. rewrite app_length in Hl. cbn [length] in Hl. lia.
  Qed.

  Let T := map (fun p => rotr (nth p RS [])) P.

  Lemma T_perm : Permutation T RS.
  Proof.
    unfold T. rewrite <- (map_map (fun p => nth p RS []) rotr).
    eapply Permutation_trans; [|apply rots_closed, Hord].
    apply Permutation_map. fold RS.
    eapply Permutation_trans; [apply Permutation_map, HP|].
    rewrite <- S_length. rewrite map_nth_seq'. apply Permutation_refl.
  Qed.

  Lemma T_sorted : StronglySorted lex_le T.
  Proof.
    unfold T. eapply StronglySorted_map_in; [|exact HPs].
    intros p q Hp Hq Hk.
    apply (Permutation_in _ HP), in_seq in Hp. apply (Permutation_in _ HP), in_seq in Hq.
    destruct (S_snoc p) as (a & x & Ea & La); [lia|].
    destruct (S_snoc q) as (b & y & Eb & Lb); [lia|].
    unfold keylt in Hk. rewrite !L_nth, Ea, Eb, !last_last in Hk.
    rewrite Ea, Eb, !rotr_snoc. unfold lex_le. cbn [lexcmp].
    destruct Hk as [Hlt|[Heq Hpq]].
    - apply N.compare_lt_iff in Hlt. rewrite Hlt. discriminate.
    - subst y. rewrite N.compare_refl.
      pose proof (StronglySorted_nth lex_le RS [] S_strong p q Hpq) as Hle.
      rewrite S_length in Hle. specialize (Hle ltac:(lia)).
      rewrite Ea, Eb in Hle. unfold lex_le in Hle.
      rewrite lexcmp_snoc, N.compare_refl in Hle by lia.
      destruct (lexcmp a b); [discriminate | discriminate | exact Hle].
  Qed.

  Lemma T_eq_S : T = RS.
  Proof.
    apply (sorted_perm_unique lex_le lex_le_antisym); [exact T_sorted | exact S_strong | exact T_perm].
  Qed.

  (* the decoder's step: rank k -> rank P[k] moves to the rotation one byte later *)
  Lemma lf_step k : (k < n)%nat -> nth (nth k P 0%nat) RS [] = rotl (nth k RS []).
  Proof.
    intros H. rewrite <- T_eq_S at 2. unfold T.
    rewrite (nth_map_lt _ P 0%nat) by (rewrite P_length; exact H).
    rewrite rotl_rotr. reflexivity.
  Qed.

  Lemma awalk_spec : forall fuel j pos,
    (pos < n)%nat -> nth pos RS [] = rot block j -> (j + fuel <= n)%nat ->
    awalk L P fuel pos = firstn fuel (skipn j block).
  Proof.
    induction fuel as [|f IH]; intros j pos Hpos Hrot Hj; [reflexivity|].
    cbn [awalk]. fold n in Hj.
    assert (Hnext : nth (nth pos P 0%nat) RS [] = rot block (Datatypes.S j)).
    { rewrite lf_step by exact Hpos. rewrite Hrot. apply rotl_rot. fold n. lia. }
    rewrite (skipn_cons_nth block 0 j) by (fold n; lia). cbn [firstn]. f_equal.
    - rewrite L_nth, lf_step by exact Hpos. rewrite Hrot, rot_cons by (fold n; lia).
      cbn [rotl]. apply last_last.
    - apply IH; [apply P_lt, Hpos | exact Hnext | lia].
  Qed.

  (* started at a rank that holds rotation 0, the walk emits the block *)
  Theorem awalk_block ptr :
    (ptr < n)%nat -> nth ptr RS [] = block -> awalk L P n ptr = block.
  Proof.
    intros Hp Hb. rewrite (awalk_spec n 0 ptr Hp); [|rewrite rot_0; exact Hb | lia].
    cbn [skipn]. apply firstn_all.
  Qed.
End LF.

(* ---- the decoder's buckets and links --------------------------------------------------- *)
(* positions of byte b in l, counted from i, increasing *)
Fixpoint occ (b : N) (l : list N) (i : nat) : list nat :=
  match l with
  | [] => []
  | x :: r => if x =? b then i :: occ b r (Datatypes.S i) else occ b r (Datatypes.S i)
  end.

(* the positions of tt sorted by (byte, position): what cftab/tt compute *)
Definition bwt_perm (tt : list N) : list nat := flat_map (fun b => occ b tt 0) (iota 256).

Lemma occ_In b l : forall i p, In p (occ b l i) ->
  (i <= p < i + length l)%nat /\ nth (p - i) l 0 = b.
Proof.
  induction l as [|x r IH]; intros i p H; cbn [occ] in H; [destruct H|].
  cbn [length]. destruct (N.eqb_spec x b) as [E|E].
  - destruct H as [H|H].
    + subst p. rewrite Nat.sub_diag. cbn [nth]. split; [lia | exact E].
    + apply IH in H. destruct H as [H1 H2]. split; [lia|].
      replace (p - i)%nat with (Datatypes.S (p - Datatypes.S i)) by lia. exact H2.
  - apply IH in H. destruct H as [H1 H2]. split; [lia|].
    replace (p - i)%nat with (Datatypes.S (p - Datatypes.S i)) by lia. exact H2.
Qed.

Lemma occ_sorted b l : forall i, StronglySorted lt (occ b l i).
Proof.
  induction l as [|x r IH]; intros i; cbn [occ]; [constructor|].
  destruct (x =? b); [|apply IH]. constructor; [apply IH|].
  rewrite Forall_forall. intros p Hp. apply occ_In in Hp. lia.
Qed.

Lemma flat_map_ext_in {A B} (f g : A -> list B) l :
  (forall a, In a l -> f a = g a) -> flat_map f l = flat_map g l.
Proof.
  induction l as [|a l IH]; intros H; cbn [flat_map]; [reflexivity|].
  rewrite H by (left; reflexivity). rewrite IH; [reflexivity|]. intros b Hb. apply H. right; exact Hb.
Qed.

Lemma flat_map_insert {A} (B : list N) (g : N -> list A) x v :
  NoDup B -> In x B ->
  Permutation (flat_map (fun b => if x =? b then v :: g b else g b) B) (v :: flat_map g B).
Proof.
  induction B as [|c B IH]; intros Hnd Hin; [destruct Hin|].
  inversion Hnd as [|? ? Hc Hnd']. subst. cbn [flat_map]. destruct (N.eqb_spec x c) as [E|E].
  - subst c. rewrite (flat_map_ext_in (fun b => if x =? b then v :: g b else g b) g).
    + reflexivity.
    + intros b Hb. destruct (N.eqb_spec x b) as [E|E]; [subst b; contradiction | reflexivity].
  - destruct Hin as [Hin|Hin]; [congruence|].
    eapply Permutation_trans; [apply Permutation_app_head, IH; assumption|].
    apply Permutation_sym, Permutation_middle.
Qed.

Lemma occ_perm B : NoDup B -> forall l i, (forall x, In x l -> In x B) ->
  Permutation (flat_map (fun b => occ b l i) B) (seq i (length l)).
Proof.
  intros Hnd. induction l as [|x r IH]; intros i Hin.
  - cbn [occ length seq]. clear. induction B as [|c B IHB]; [constructor | exact IHB].
  - cbn [occ length seq].
    eapply Permutation_trans;
      [apply (flat_map_insert B (fun b => occ b r (Datatypes.S i)) x i Hnd); apply Hin; left; reflexivity|].
    constructor. apply IH. intros y Hy. apply Hin. right; exact Hy.
Qed.

Lemma bwt_perm_perm tt : (forall b, In b tt -> b < 256) ->
  Permutation (bwt_perm tt) (seq 0 (length tt)).
Proof.
  intros H. apply occ_perm; [apply iota_NoDup|]. intros x Hx. apply iota_In, H, Hx.
Qed.

Lemma seq_sorted n : forall a, StronglySorted lt (seq a n).
Proof.
  induction n as [|n IH]; intros a; cbn [seq]; constructor; [apply IH|].
  rewrite Forall_forall. intros x Hx. apply in_seq in Hx. lia.
Qed.

Lemma bwt_perm_sorted tt : StronglySorted (keylt tt) (bwt_perm tt).
Proof.
  unfold bwt_perm. apply (StronglySorted_flat_map (keylt tt) N.lt).
  - intros b _. rewrite <- (map_id (occ b tt 0)).
    eapply StronglySorted_map_in; [|apply occ_sorted].
    intros p q Hp Hq Hpq. apply occ_In in Hp. apply occ_In in Hq.
    rewrite Nat.sub_0_r in Hp, Hq. right. split; [|exact Hpq].
    rewrite (proj2 Hp), (proj2 Hq). reflexivity.
  - rewrite iota_eq. eapply StronglySorted_map_in; [|apply seq_sorted].
    intros x y _ _ Hxy. lia.
  - intros a b p q _ _ Hab Hp Hq. apply occ_In in Hp. apply occ_In in Hq.
    rewrite Nat.sub_0_r in Hp, Hq. left. rewrite (proj2 Hp), (proj2 Hq). exact Hab.
Qed.

Lemma buckets_fold tt : forall (m : nmap (list N)) i b,
  nm_getd (fst (fold_left
    (fun (st : nmap (list N) * N) b =>
       (nm_set (fst st) b (snd st :: nm_getd (fst st) b []), snd st + 1))
    tt (m, N.of_nat i))) b [] = rev (map N.of_nat (occ b tt i)) ++ nm_getd m b [].
Proof.
  induction tt as [|x r IH]; intros m i b; cbn [fold_left occ fst snd]; [reflexivity|].
  replace (N.of_nat i + 1) with (N.of_nat (Datatypes.S i)) by lia. rewrite IH.
  destruct (N.eqb_spec x b) as [E|E].
  - subst b. rewrite nm_getd_set_eq. cbn [map rev]. rewrite <- app_assoc. reflexivity.
  - rewrite nm_getd_set_neq by exact E. reflexivity.
Qed.

Lemma buckets_get tt b : nm_getd (bwt_buckets tt) b [] = rev (map N.of_nat (occ b tt 0)).
Proof.
  pose proof (buckets_fold tt nm_empty 0 b) as H. cbn [N.of_nat] in H.
  unfold bwt_buckets. rewrite H. unfold nm_getd at 1. rewrite nm_get_empty. apply app_nil_r.
Qed.

Definition lstep (st : nmap (byte * N) * N) (e : byte * N) : nmap (byte * N) * N :=
  (nm_set (fst st) (snd st - 1) e, snd st - 1).

(* (byte, position) pairs in the order of bwt_perm *)
Definition bwt_pairs (tt : list N) : list (byte * N) :=
  flat_map (fun b => map (fun i => (b, N.of_nat i)) (occ b tt 0)) (iota 256).

Lemma rev_flat_map {A B} (f : A -> list B) l :
  rev (flat_map f l) = flat_map (fun x => rev (f x)) (rev l).
Proof.
  induction l as [|a l IH]; [reflexivity|]. cbn [flat_map rev].
  rewrite rev_app_distr, IH, flat_map_app. cbn [flat_map]. rewrite app_nil_r. reflexivity.
Qed.

Lemma links_fold_flat (g : N -> list N) bs : forall st,
  fold_left (fun (st : nmap (byte * N) * N) b =>
               fold_left (fun (st2 : nmap (byte * N) * N) i =>
                            (nm_set (fst st2) (snd st2 - 1) (b, i), snd st2 - 1))
                         (g b) st) bs st =
  fold_left lstep (flat_map (fun b => map (fun i => (b, i)) (g b)) bs) st.
Proof.
  induction bs as [|b bs IH]; intros st; [reflexivity|].
  cbn [fold_left flat_map]. rewrite fold_left_app, IH. f_equal.
  generalize (g b) st. clear. intros l. induction l as [|i l IH]; intros st; [reflexivity|].
  cbn [fold_left map]. rewrite IH. reflexivity.
Qed.

Lemma links_eq tt n :
  bwt_links tt n = fst (fold_left lstep (rev (bwt_pairs tt)) (nm_empty, n)).
Proof.
  unfold bwt_links. rewrite fast_rev_eq.
  rewrite (links_fold_flat (fun b => nm_getd (bwt_buckets tt) b [])).
  f_equal. f_equal. unfold bwt_pairs. rewrite rev_flat_map. apply flat_map_ext.
  intros b. rewrite buckets_get, map_rev, map_map. reflexivity.
Qed.

Lemma lstep_fold W : forall m k, N.of_nat (length W) <= k ->
  let st := fold_left lstep W (m, k) in
  forall j, nm_get (fst st) j =
            if (k - N.of_nat (length W) <=? j) && (j <? k)
            then nth_error W (N.to_nat (k - 1 - j)) else nm_get m j.
Proof.
  induction W as [|e W IH]; intros m k Hk st j; subst st.
  - cbn [fold_left fst length]. destruct ((k - N.of_nat 0 <=? j) && (j <? k)) eqn:E; [lia | reflexivity].
  - cbn [fold_left length] in *. unfold lstep at 2. cbn [fst snd].
    rewrite IH by lia.
    destruct (N.eq_dec j (k - 1)) as [Ej|Ej].
    + subst j.
      replace ((k - 1 - N.of_nat (length W) <=? k - 1) && (k - 1 <? k - 1)) with false by lia.
      replace ((k - N.of_nat (Datatypes.S (length W)) <=? k - 1) && (k - 1 <? k)) with true by lia.
      rewrite nm_get_set_eq. replace (N.to_nat (k - 1 - (k - 1))) with 0%nat by lia. reflexivity.
    + rewrite nm_get_set_neq by congruence.
      destruct ((k - 1 - N.of_nat (length W) <=? j) && (j <? k - 1)) eqn:E1.
      * replace ((k - N.of_nat (Datatypes.S (length W)) <=? j) && (j <? k)) with true by lia.
        replace (N.to_nat (k - 1 - j)) with (Datatypes.S (N.to_nat (k - 1 - 1 - j))) by lia.
        reflexivity.
      * replace ((k - N.of_nat (Datatypes.S (length W)) <=? j) && (j <? k)) with false by lia.
        reflexivity.
Qed.

Lemma map_flat_map {A B C} (f : B -> C) (g : A -> list B) l :
  map f (flat_map g l) = flat_map (fun a => map f (g a)) l.
Proof.
  induction l as [|a l IH]; [reflexivity|]. cbn [flat_map]. rewrite map_app, IH. reflexivity.
Qed.

Lemma bwt_pairs_eq tt :
  bwt_pairs tt = map (fun p => (nth p tt 0, N.of_nat p)) (bwt_perm tt).
Proof.
  unfold bwt_pairs, bwt_perm. rewrite map_flat_map. apply flat_map_ext. intros b.
  apply map_ext_in. intros p Hp. apply occ_In in Hp. rewrite Nat.sub_0_r in Hp.
  rewrite (proj2 Hp). reflexivity.
Qed.

(* the links: rank k holds (F[k], P[k]) *)
Lemma links_get tt : (forall b, In b tt -> b < 256) ->
  forall k, (k < length tt)%nat ->
  nm_get (bwt_links tt (N.of_nat (length tt))) (N.of_nat k) =
    Some (nth (nth k (bwt_perm tt) 0%nat) tt 0, N.of_nat (nth k (bwt_perm tt) 0%nat)).
Proof.
  intros Hb k Hk. rewrite links_eq.
  assert (Hlen : length (bwt_pairs tt) = length tt).
  { rewrite bwt_pairs_eq, map_length, (Permutation_length (bwt_perm_perm tt Hb)), seq_length.
    reflexivity. }
  pose proof (lstep_fold (rev (bwt_pairs tt)) nm_empty (N.of_nat (length tt))) as H.
  rewrite rev_length, Hlen in H. specialize (H ltac:(lia)). cbv zeta in H. rewrite H.
  replace ((N.of_nat (length tt) - N.of_nat (length tt) <=? N.of_nat k) &&
           (N.of_nat k <? N.of_nat (length tt))) with true by lia.
  rewrite (nth_error_nth' _ (0, 0)) by (rewrite rev_length; lia).
  rewrite rev_nth by lia. rewrite Hlen.
  replace (length tt - Datatypes.S (N.to_nat (N.of_nat (length tt) - 1 - N.of_nat k)))%nat with k by lia.
  rewrite bwt_pairs_eq.
  rewrite (nth_map_lt _ (bwt_perm tt) 0%nat)
    by (rewrite (Permutation_length (bwt_perm_perm tt Hb)), seq_length; exact Hk).
  reflexivity.
Qed.

Lemma walk_concrete links L P n :
  (forall k, (k < n)%nat ->
     nm_get links (N.of_nat k) = Some (nth (nth k P 0%nat) L 0, N.of_nat (nth k P 0%nat))) ->
  (forall k, (k < n)%nat -> (nth k P 0 < n)%nat) ->
  forall fuel pos acc, (pos < n)%nat ->
  bwt_walk fuel links (N.of_nat pos) acc = rev acc ++ awalk L P fuel pos.
Proof.
  intros Hl HP. induction fuel as [|f IH]; intros pos acc Hpos; cbn [bwt_walk awalk].
  - rewrite fast_rev_eq, app_nil_r. reflexivity.
  - rewrite Hl by exact Hpos. rewrite IH by (apply HP, Hpos). cbn [rev].
    rewrite <- app_assoc. reflexivity.
Qed.

(* ---- the encoder's order ----------------------------------------------------------------- *)
Lemma cmp_rot_antisym t : forall f i j, cmp_rot f t j i = CompOpp (cmp_rot f t i j).
Proof.
  induction f as [|f IH]; intros i j; cbn [cmp_rot]; [reflexivity|].
  rewrite (N.compare_antisym (nm_getd t i 0) (nm_getd t j 0)).
  destruct (nm_getd t i 0 ?= nm_getd t j 0); cbn [CompOpp]; [apply IH | reflexivity | reflexivity].
Qed.

Lemma rot_leb_total f t x y : rot_leb f t x y = false -> rot_leb f t y x = true.
Proof.
  unfold rot_leb. rewrite (cmp_rot_antisym t f x y).
  destruct (cmp_rot f t x y); cbn [CompOpp]; intros H; try reflexivity; try discriminate. lia.
Qed.

Lemma cmp_rot_lexcmp D t : (forall x, nm_getd t x 0 = nth (N.to_nat x) D 0) ->
  forall f i j, (i + f <= length D)%nat -> (j + f <= length D)%nat ->
  cmp_rot f t (N.of_nat i) (N.of_nat j) = lexcmp (firstn f (skipn i D)) (firstn f (skipn j D)).
Proof.
  intros Ht. induction f as [|f IH]; intros i j Hi Hj; [reflexivity|].
  rewrite (skipn_cons_nth D 0 i), (skipn_cons_nth D 0 j) by lia.
  cbn [firstn lexcmp cmp_rot]. rewrite !Ht, !Nat2N.id.
  replace (N.of_nat i + 1) with (N.of_nat (Datatypes.S i)) by lia.
  replace (N.of_nat j + 1) with (N.of_nat (Datatypes.S j)) by lia.
  rewrite IH by lia. reflexivity.
Qed.

Lemma rot_doubled block i : (i <= length block)%nat ->
  firstn (length block) (skipn i (block ++ block)) = rot block i.
Proof.
  intros H. rewrite skipn_app. replace (i - length block)%nat with 0%nat by lia. cbn [skipn].
  rewrite firstn_app, skipn_length.
  rewrite firstn_all2 by (rewrite skipn_length; lia).
  replace (length block - (length block - i))%nat with i by lia. reflexivity.
Qed.

Lemma mtf_index_spec v l : In v l -> forall i,
  exists k, mtf_index N.eqb v l i = i + N.of_nat k /\ (k < length l)%nat /\ nth k l 0 = v.
Proof.
  induction l as [|x r IH]; intros Hin i; [destruct Hin|]. cbn [mtf_index].
  destruct (N.eqb_spec x v) as [E|E].
  - exists 0%nat. cbn [length nth]. repeat split; [lia | lia | exact E].
  - destruct Hin as [Hin|Hin]; [congruence|]. destruct (IH Hin (i + 1)) as (k & E1 & E2 & E3).
    exists (Datatypes.S k). cbn [length nth]. repeat split; [lia | lia | exact E3].
Qed.

(* ---- the round trip ------------------------------------------------------------------------ *)
Lemma bwt_roundtrip_aux block :
  block <> [] -> (forall b, In b block -> b < 256) ->
  N.of_nat (length block) <= 2 ^ 64 ->
  length (fst (bwt_encode block)) = length block /\
  snd (bwt_encode block) < len_n block /\
  (forall v, In v (fst (bwt_encode block)) -> In v block) /\
  bwt_decode (fst (bwt_encode block)) (len_n block) (snd (bwt_encode block)) = block.
Proof.
  intros Hne Hb Hsz. unfold bwt_encode. cbn [fst snd].
  rewrite len_n_length, nat_of_nat, Nat2N.id, app_tr_eq, map_tr_eq.
  set (n := length block). set (D := block ++ block). set (t := nm_of_list D).
  assert (Hn : (0 < n)%nat) by (subst n; destruct block; [congruence | cbn [length]; lia]).
  assert (Ht : forall x, nm_getd t x 0 = nth (N.to_nat x) D 0) by (intros x; apply nm_of_list_getd).
  assert (HD : length D = (n + n)%nat) by (subst D; apply app_length).
  destruct (msort_spec N (rot_leb n t) (rot_leb_total n t) (Datatypes.S n) (iota (N.of_nat n)))
    as [Hsort Hperm].
  { rewrite iota_length, Nat2N.id. lia. }
  { rewrite iota_length, Nat2N.id. exact Hsz. }
  set (order := msort (rot_leb n t) (Datatypes.S n) (iota (N.of_nat n))) in *.
  set (ordn := map N.to_nat order).
  assert (Hord : Permutation ordn (seq 0 n)).
  { subst ordn. eapply Permutation_trans; [apply Permutation_map, Hperm|].
    rewrite iota_eq, map_map, Nat2N.id.
    rewrite (map_ext (fun x => N.to_nat (N.of_nat x)) (fun x => x)) by (intros x; apply Nat2N.id).
    rewrite map_id. apply Permutation_refl. }
  assert (Hlt : forall i, In i order -> i < N.of_nat n).
  { intros i Hi. apply (Permutation_in _ Hperm), iota_In in Hi. exact Hi. }
  assert (HS : Sorted lex_le (map (rot block) ordn)).
  { subst ordn. rewrite map_map. eapply Sorted_map_in; [|exact Hsort].
    intros x y Hx Hy Hxy. cbv beta in Hxy. apply Hlt in Hx. apply Hlt in Hy.
    unfold rot_leb in Hxy.
    rewrite <- (N2Nat.id x), <- (N2Nat.id y) in Hxy.
    rewrite (cmp_rot_lexcmp D t Ht) in Hxy by lia.
    fold n in Hxy. unfold n in Hxy at 1 2. unfold D in Hxy.
    rewrite !rot_doubled in Hxy by (fold n; lia).
    unfold lex_le. destruct (lexcmp (rot block (N.to_nat x)) (rot block (N.to_nat y)));
      [discriminate | discriminate | discriminate]. }
  set (out := map (fun i => nm_getd t (i + N.of_nat n - 1) 0) order).
  assert (Hout : out = map (fun s => last s 0) (map (rot block) ordn)).
  { subst out ordn. rewrite !map_map. apply map_ext_in. intros i Hi. apply Hlt in Hi.
    rewrite Ht, last_nth', rot_length. fold n.
    rewrite <- rot_doubled by (fold n; lia). fold n. fold D.
    rewrite nth_firstn' by lia. rewrite nth_skipn'. f_equal. lia. }
  assert (Hlen : length out = n).
  { subst out. rewrite map_length, (Permutation_length Hperm), iota_length. apply Nat2N.id. }
  assert (Hin : forall v, In v out -> In v block).
  { intros v Hv. subst out. apply in_map_iff in Hv. destruct Hv as (i & <- & Hi).
    apply Hlt in Hi. rewrite Ht.
    assert (H : In (nth (N.to_nat (i + N.of_nat n - 1)) D 0) D) by (apply nth_In; lia).
    subst D. apply in_app_or in H. tauto. }
  destruct (mtf_index_spec 0 order) with (i := 0) as (k & Ek & Hk & Hk0).
  { apply (Permutation_in _ (Permutation_sym Hperm)), iota_In. lia. }
  rewrite Ek. rewrite (Permutation_length Hperm), iota_length, Nat2N.id in Hk.
  split; [exact Hlen|]. split; [lia|]. split; [exact Hin|].
  unfold bwt_decode. rewrite nat_of_nat, Nat2N.id. rewrite N.add_0_l.
  assert (Hob : forall b, In b out -> b < 256) by (intros b Hb'; apply Hb, Hin, Hb').
  pose proof (bwt_perm_perm out Hob) as HP. rewrite Hlen in HP.
  pose proof (bwt_perm_sorted out) as HPs.
  rewrite (walk_concrete (bwt_links out (N.of_nat n)) out (bwt_perm out) n).
  - cbn [rev app]. rewrite Hout at 1. fold n.
    apply (awalk_block block ordn (bwt_perm out)); try assumption.
    + rewrite <- Hout. exact HPs.
    + subst ordn. rewrite map_map. rewrite (nth_map_lt _ order 0) by
        (rewrite (Permutation_length Hperm), iota_length, Nat2N.id; exact Hk).
      rewrite Hk0. apply rot_0.
  - intros j Hj. rewrite <- Hlen. apply links_get; [exact Hob | lia].
  - intros j Hj. assert (H : In (nth j (bwt_perm out) 0%nat) (bwt_perm out)).
    { apply nth_In. rewrite (Permutation_length HP), seq_length. exact Hj. }
    apply (Permutation_in _ HP), in_seq in H. lia.
  - exact Hk.
Qed.

(* The inverse transform of the decoder model inverts the transform of the
   encoder model, for every block the merge sort can handle (2^64 elements:
   [merge_passes] makes at most 64 passes; bzip2 blocks have at most 900000). *)
Theorem bwt_roundtrip : forall block : list byte,
  block <> [] -> (forall b, In b block -> b < 256) ->
  N.of_nat (length block) <= 2 ^ 64 ->
  let '(out, ptr) := bwt_encode block in
  length out = length block /\ ptr < len_n block /\
  bwt_decode out (len_n block) ptr = block.
Proof.
  intros block Hne Hb Hsz. pose proof (bwt_roundtrip_aux block Hne Hb Hsz) as H.
  destruct (bwt_encode block) as [out ptr]. cbn [fst snd] in H. tauto.
Qed.

(* the output consists of the block's bytes: the hypothesis of
   MtfRle2.mtf_rle2_roundtrip_encode_block *)
Theorem bwt_encode_In : forall block : list byte,
  block <> [] -> (forall b, In b block -> b < 256) ->
  N.of_nat (length block) <= 2 ^ 64 ->
  forall v, In v (fst (bwt_encode block)) -> In v block.
Proof. intros block Hne Hb Hsz. apply (bwt_roundtrip_aux block Hne Hb Hsz). Qed.

(* in the form decode_block uses: the values come back reversed from stage 3 *)
Corollary bwt_roundtrip_decode_block : forall block : list byte,
  block <> [] -> (forall b, In b block -> b < 256) ->
  N.of_nat (length block) <= 2 ^ 64 ->
  let '(out, ptr) := bwt_encode block in
  let tt_rev := rev out in
  let nblock := N.of_nat (length out) in
  (ptr <? nblock) = true /\ bwt_decode (fast_rev tt_rev) nblock ptr = block.
Proof.
  intros block Hne Hb Hsz. pose proof (bwt_roundtrip block Hne Hb Hsz) as H.
  destruct (bwt_encode block) as [out ptr]. destruct H as (H1 & H2 & H3). cbv zeta.
  rewrite fast_rev_eq, rev_involutive, H1, <- len_n_length. split; [lia | exact H3].
Qed.

(* with the block size limit of the format (level*100000 <= 900000) *)
Corollary bwt_roundtrip_bzip2 : forall block : list byte,
  block <> [] -> bytes_ok block -> len_n block <= 900000 ->
  let '(out, ptr) := bwt_encode block in
  length out = length block /\ ptr < len_n block /\
  bwt_decode out (len_n block) ptr = block.
Proof.
  intros block Hne Hb Hsz. apply bwt_roundtrip; [exact Hne | |].
  - intros b Hin. unfold bytes_ok in Hb. rewrite Forall_forall in Hb. apply Hb, Hin.
  - rewrite len_n_length in Hsz. change (2 ^ 64) with 18446744073709551616. lia.
Qed.

(* stages 2+3 of encode_block / decode_block together: the symbols written for
   a block decode to (nblock, tt_rev), origPtr passes the range check, and the
   inverse transform gives the block back *)
Theorem bwt_mtf_roundtrip : forall (block : list byte) (maxn : N),
  block <> [] -> bytes_ok block -> len_n block <= maxn -> maxn <= 900000 ->
  let '(out, ptr) := bwt_encode block in
  let dict := block_dict block in
  exists nblock tt_rev,
    mtf_rle2_decode (mtf_rle2_encode out dict 0 []) dict maxn 1 0 0 [] = Some (nblock, tt_rev) /\
    (ptr <? nblock) = true /\
    bwt_decode (fast_rev tt_rev) nblock ptr = block.
Proof.
  intros block maxn Hne Hb Hsz Hmax.
  assert (Hb' : forall b, In b block -> b < 256).
  { intros b Hin. unfold bytes_ok in Hb. rewrite Forall_forall in Hb. apply Hb, Hin. }
  assert (Hsz' : N.of_nat (length block) <= 2 ^ 64).
  { rewrite len_n_length in Hsz. change (2 ^ 64) with 18446744073709551616. lia. }
  pose proof (bwt_roundtrip_decode_block block Hne Hb' Hsz') as H1.
  pose proof (bwt_roundtrip_aux block Hne Hb' Hsz') as H2.
  destruct (bwt_encode block) as [out ptr]. cbn [fst snd] in H2. cbv zeta in H1 |- *.
  destruct H2 as (Hlen & _ & Hin & _).
  destruct (mtf_rle2_roundtrip_encode_block block out maxn Hb Hin) as (Hdec & _); [|exact Hmax|].
  - rewrite Hlen, <- len_n_length. exact Hsz.
  - exists (N.of_nat (length out)), (rev out). split; [exact Hdec | exact H1].
Qed.

(* The size hypothesis cannot be dropped: beyond 2^64 elements the 64 passes
   of [merge_passes] run out and the model's sort returns the empty list. *)
Lemma bwt_encode_overflow (block : list byte) :
  2 ^ 64 < N.of_nat (length block) -> fst (bwt_encode block) = [].
Proof.
  intros H. unfold bwt_encode. cbn [fst]. rewrite map_tr_eq, msort_overflow; [reflexivity|].
  rewrite iota_length, len_n_length, Nat2N.id. exact H.
Qed.

Lemma bwt_roundtrip_needs_bound :
  exists block : list byte,
    block <> [] /\ (forall b, In b block -> b < 256) /\
    length (fst (bwt_encode block)) <> length block.
Proof.
  assert (Hex : exists k : nat, N.of_nat k = 2 ^ 64 + 1)
    by (exists (N.to_nat (2 ^ 64 + 1)); apply N2Nat.id).
  destruct Hex as [k Hk]. exists (repeat 0 k).
  assert (Hl : length (repeat 0 k) = k) by apply repeat_length.
  split; [|split].
  - intros E. rewrite E in Hl. cbn [length] in Hl. subst k. discriminate Hk.
  - intros b Hb. apply repeat_spec in Hb. subst b. reflexivity.
  - rewrite bwt_encode_overflow by (rewrite Hl, Hk; apply N.lt_succ_diag_r || lia).
    cbn [length]. rewrite Hl. intros E. subst k. discriminate Hk.
Qed.

(* non-vacuity: a periodic block (equal rotations) *)
Example bwt_roundtrip_abab :
  let block := [97; 98; 97; 98] in
  block <> [] /\ (forall b, In b block -> b < 256) /\ N.of_nat (length block) <= 2 ^ 64 /\
  bwt_encode block = ([98; 98; 97; 97], 1) /\ bwt_decode [98; 98; 97; 97] 4 1 = block.
Proof.
  cbv zeta. split; [discriminate|]. split.
  - intros b Hb. cbn [In] in Hb. lia.
  - split; [cbn [length]; lia|]. split; vm_compute; reflexivity.
Qed.

Print Assumptions bwt_roundtrip.
Print Assumptions bwt_encode_In.
Print Assumptions bwt_roundtrip_decode_block.
Print Assumptions bwt_roundtrip_bzip2.
Print Assumptions bwt_mtf_roundtrip.
Print Assumptions bwt_roundtrip_needs_bound.
