(* C04, stage 1: the run-length encoding with the block-full rules of
   bzip2/rle1.go (model: SpecW.rle1_fill) is inverted by the decoder's RLE1
   expansion (model: SpecR.rle1_emit) - for EVERY input and EVERY block size:
   the block expands to exactly the input bytes that were consumed, the two
   CRC registers agree, the block never ends inside the "four equal bytes
   without a count" state the decoder rejects, it fits the block size, and a
   non-empty input makes progress. *)
From V Require Import Base.Prelude Base.Prog Base.ProgThms Bzip2.Common Bzip2.SpecR Bzip2.SpecW.

(* ---- the expansion as a function ------------------------------------------------ *)
Fixpoint expand (l : list byte) (run : N) (last : byte) : list byte * N * byte :=
  match l with
  | [] => ([], run, last)
  | b :: r =>
    if run =? 4 then
      let '(o, rn, ls) := expand r 0 last in (repeat last (N.to_nat b) ++ o, rn, ls)
    else if (0 <? run) && (b =? last) then
      let '(o, rn, ls) := expand r (run + 1) last in (b :: o, rn, ls)
    else
      let '(o, rn, ls) := expand r 1 b in (b :: o, rn, ls)
  end.

Lemma expand_app l1 l2 run last :
  expand (l1 ++ l2) run last =
  let '(o1, r1, s1) := expand l1 run last in
  let '(o2, r2, s2) := expand l2 r1 s1 in
  (o1 ++ o2, r2, s2).
Proof.
  revert run last; induction l1 as [|b l1 IH]; intros run last; cbn [app expand].
  - destruct (expand l2 run last) as [[o2 r2] s2]. reflexivity.
  - destruct (run =? 4).
    + rewrite IH. destruct (expand l1 0 last) as [[o1 r1] s1].
      destruct (expand l2 r1 s1) as [[o2 r2] s2]. rewrite app_assoc. reflexivity.
    + destruct ((0 <? run) && (b =? last)).
      * rewrite IH. destruct (expand l1 (run + 1) last) as [[o1 r1] s1].
        destruct (expand l2 r1 s1) as [[o2 r2] s2]. reflexivity.
      * rewrite IH. destruct (expand l1 1 b) as [[o1 r1] s1].
        destruct (expand l2 r1 s1) as [[o2 r2] s2]. reflexivity.
Qed.

(* ---- the decoder program computes [expand] ----------------------------------------- *)
Definition push_out (s : ast) (o : list byte) : ast :=
  mkAst (a_in s) (a_pos s) (rev o ++ a_out s) (a_len s + N.of_nat (length o)).

Lemma push_out_nil s : push_out s [] = s.
Proof. destruct s. unfold push_out. cbn. f_equal. lia. Qed.

Lemma push_out_cons s b o :
  push_out (mkAst (a_in s) (a_pos s) (b :: a_out s) (a_len s + 1)) o = push_out s (b :: o).
Proof.
  unfold push_out. cbn [a_in a_pos a_out a_len rev length]. f_equal.
  - rewrite <- app_assoc. reflexivity.
  - lia.
Qed.

Lemma push_out_app s o1 o2 : push_out (push_out s o1) o2 = push_out s (o1 ++ o2).
Proof.
  unfold push_out. cbn [a_in a_pos a_out a_len]. f_equal.
  - rewrite rev_app_distr, app_assoc. reflexivity.
  - rewrite app_length. lia.
Qed.

Lemma run_put_rep n b crc k s :
  run (put_rep n b crc k) s =
  run (k (fold_left crc_step (repeat b n) crc)) (push_out s (repeat b n)).
Proof.
  revert crc s; induction n as [|n IH]; intros crc s; cbn [put_rep repeat fold_left].
  - rewrite push_out_nil. reflexivity.
  - cbn [run]. rewrite IH, push_out_cons. reflexivity.
Qed.

Lemma run_rle1_emit l : forall rn last crc s,
  run (rle1_emit l rn last crc) s =
  let '(o, r', _) := expand l rn last in
  if r' =? 4 then Fail ECorrupted (push_out s o)
  else Done (fold_left crc_step o crc) (push_out s o).
Proof.
  induction l as [|b l IH]; intros rn last crc s; cbn [rle1_emit expand].
  - rewrite push_out_nil. destruct (rn =? 4); reflexivity.
  - unfold delay. cbn [run]. destruct (rn =? 4).
    + rewrite run_put_rep, IH. destruct (expand l 0 last) as [[o r'] ls].
      rewrite push_out_app, fold_left_app. reflexivity.
    + destruct ((0 <? rn) && (b =? last)); cbn [run]; rewrite IH.
      * destruct (expand l (rn + 1) last) as [[o r'] ls]. rewrite push_out_cons. reflexivity.
      * destruct (expand l 1 b) as [[o r'] ls]. rewrite push_out_cons. reflexivity.
Qed.

(* ---- the encoder's invariant -------------------------------------------------------- *)
(* what the decoder makes of the (reversed) buffer so far, in terms of the
   encoder's run state *)
Definition fill_inv (buf : list byte) (idx lastVal lastCnt : N) (consumed : list byte) : Prop :=
  idx = N.of_nat (length buf) /\
  ((lastCnt < 4 /\ expand (rev buf) 0 0 = (consumed, lastCnt, lastVal) /\ (lastCnt = 0 -> lastVal = 0))
   \/
   (4 <= lastCnt <= 255 /\
    exists buf' pre, buf = (lastCnt - 4) :: buf' /\
      expand (rev buf') 0 0 = (pre, 4, lastVal) /\
      consumed = pre ++ repeat lastVal (N.to_nat (lastCnt - 4)))).

Lemma expand_snoc_state buf o r s b :
  expand (rev buf) 0 0 = (o, r, s) ->
  expand (rev (b :: buf)) 0 0 =
  let '(o2, r2, s2) := expand [b] r s in (o ++ o2, r2, s2).
Proof. intros H. cbn [rev]. rewrite expand_app, H. reflexivity. Qed.

Lemma repeat_snoc {A} (x : A) n : repeat x n ++ [x] = repeat x (S n).
Proof. induction n as [|n IH]; cbn; [reflexivity | rewrite IH; reflexivity]. Qed.

Theorem rle1_fill_spec L : forall data buf idx lastVal lastCnt crc consumed block crc' rest,
  fill_inv buf idx lastVal lastCnt consumed ->
  idx <= L ->
  rle1_fill L data buf idx lastVal lastCnt crc = (block, crc', rest) ->
  exists more r' s',
    data = more ++ rest /\
    expand block 0 0 = (consumed ++ more, r', s') /\ r' <> 4 /\
    crc' = fold_left crc_step more crc /\
    N.of_nat (length block) <= L.
Proof.
  induction data as [|b data IH]; intros buf idx lastVal lastCnt crc consumed block crc' rest Hinv HL Hf;
    cbn [rle1_fill] in Hf.
  - (* end of input: the buffer is the block *)
    inversion Hf; subst block crc' rest. clear Hf. rewrite fast_rev_eq.
    destruct Hinv as [Hidx [[Hc [He _]]|[Hc [buf' [pre [Hb [He Hcons]]]]]]].
    + exists [], lastCnt, lastVal. cbn [app]. rewrite !app_nil_r. repeat split; try assumption; try reflexivity.
      * lia.
      * rewrite rev_length. lia.
    + exists [], 0, lastVal. cbn [app]. rewrite !app_nil_r. subst buf.
      cbn [rev]. rewrite expand_app, He. cbn [expand N.eqb]. rewrite app_nil_r.
      repeat split; try reflexivity; try lia.
      * rewrite Hcons. reflexivity.
      * rewrite app_length, rev_length. cbn [length] in *. lia.
  - set (cnt := (if lastVal =? b then lastCnt else 0) + 1) in *.
    (* a stop leaves b for the next block *)
    assert (Hstop : (fast_rev buf, crc, b :: data) = (block, crc', rest) ->
                    exists more r' s', b :: data = more ++ rest /\
                      expand block 0 0 = (consumed ++ more, r', s') /\ r' <> 4 /\
                      crc' = fold_left crc_step more crc /\ N.of_nat (length block) <= L).
    { intros E. inversion E; subst block crc' rest. rewrite fast_rev_eq.
      destruct Hinv as [Hidx [[Hc [He _]]|[Hc [buf' [pre [Hb [He Hcons]]]]]]].
      - exists [], lastCnt, lastVal. cbn [app]. rewrite !app_nil_r. repeat split; try assumption; try reflexivity.
        + lia.
        + rewrite rev_length. lia.
      - exists [], 0, lastVal. cbn [app]. rewrite !app_nil_r. subst buf.
        cbn [rev]. rewrite expand_app, He. cbn [expand N.eqb]. rewrite app_nil_r.
        repeat split; try reflexivity; try lia.
        + rewrite Hcons. reflexivity.
        + rewrite app_length, rev_length. cbn [length] in *. lia. }
    (* a step consumes b *)
    assert (Hstep : forall buf2 idx2 cnt2,
              fill_inv buf2 idx2 b cnt2 (consumed ++ [b]) -> idx2 <= L ->
              rle1_fill L data buf2 idx2 b cnt2 (crc_step crc b) = (block, crc', rest) ->
              exists more r' s', b :: data = more ++ rest /\
                expand block 0 0 = (consumed ++ more, r', s') /\ r' <> 4 /\
                crc' = fold_left crc_step more crc /\ N.of_nat (length block) <= L).
    { intros buf2 idx2 cnt2 Hi2 HL2 Hf2.
      destruct (IH _ _ _ _ _ _ _ _ _ Hi2 HL2 Hf2) as [more [r' [s' [H1 [H2 [H3 [H4 H5]]]]]]].
      exists (b :: more), r', s'. repeat split; try assumption.
      - rewrite H1. reflexivity.
      - rewrite H2. rewrite <- app_assoc. reflexivity. }
    destruct Hinv as [Hidx [[Hc [He Hz]]|[Hc [buf' [pre [Hb [He Hcons]]]]]]].
    + (* the decoder is inside a run of lastCnt < 4 bytes (or at the start) *)
      destruct (lastVal =? b) eqn:Eb.
      * apply N.eqb_eq in Eb. subst lastVal. unfold cnt in *. clear cnt.
        destruct (lastCnt + 1 <? 4) eqn:E4.
        -- apply N.ltb_lt in E4.
           destruct (L <=? idx) eqn:EL; [apply Hstop; exact Hf|]. apply N.leb_gt in EL.
           apply (Hstep (b :: buf) (idx + 1) (lastCnt + 1)); try exact Hf; try lia.
           split; [cbn [length]; lia|]. left. split; [lia|]. split; [|lia].
           rewrite (expand_snoc_state _ _ _ _ b He). cbn [expand].
           replace (lastCnt =? 4) with false by (symmetry; apply N.eqb_neq; lia).
           destruct (0 <? lastCnt) eqn:E0; cbn [andb].
           ++ rewrite N.eqb_refl. reflexivity.
           ++ apply N.ltb_ge in E0. assert (lastCnt = 0) by lia. subst lastCnt. reflexivity.
        -- apply N.ltb_ge in E4.
           assert (lastCnt = 3) by lia. subst lastCnt. cbn [N.add N.eqb Pos.eqb] in Hf.
           change (3 + 1 =? 4) with true in Hf. cbn iota in Hf.
           destruct (L <=? idx + 1) eqn:EL; [apply Hstop; exact Hf|]. apply N.leb_gt in EL.
           apply (Hstep (0 :: b :: buf) (idx + 2) 4); try exact Hf; try lia.
           split; [cbn [length]; lia|]. right. split; [lia|].
           exists (b :: buf), (consumed ++ [b]). split; [reflexivity|]. split.
           ++ rewrite (expand_snoc_state _ _ _ _ b He). cbn [expand N.eqb N.ltb N.compare andb].
              rewrite N.eqb_refl. reflexivity.
           ++ cbn. rewrite app_nil_r. reflexivity.
      * (* a different byte starts a run of one *)
        unfold cnt in *. clear cnt. cbn [N.add] in Hf. change (0 + 1 <? 4) with true in Hf. cbn iota in Hf.
        destruct (L <=? idx) eqn:EL; [apply Hstop; exact Hf|]. apply N.leb_gt in EL.
        apply (Hstep (b :: buf) (idx + 1) 1); try exact Hf; try lia.
        split; [cbn [length]; lia|]. left. split; [lia|]. split; [|lia].
        rewrite (expand_snoc_state _ _ _ _ b He). cbn [expand].
        replace (lastCnt =? 4) with false by (symmetry; apply N.eqb_neq; lia).
        apply N.eqb_neq in Eb.
        replace (b =? lastVal) with false by (symmetry; apply N.eqb_neq; congruence).
        rewrite andb_false_r. reflexivity.
    + (* the buffer ends with the count byte of a run of lastCnt >= 4 *)
      subst buf.
      destruct (lastVal =? b) eqn:Eb.
      * apply N.eqb_eq in Eb. subst lastVal. unfold cnt in *. clear cnt.
        replace (lastCnt + 1 <? 4) with false in Hf by (symmetry; apply N.ltb_ge; lia).
        replace (lastCnt + 1 =? 4) with false in Hf by (symmetry; apply N.eqb_neq; lia).
        destruct (lastCnt + 1 <? 256) eqn:E256.
        -- apply N.ltb_lt in E256. cbn [bump_head] in Hf.
           apply (Hstep ((lastCnt - 4 + 1) :: buf') idx (lastCnt + 1)); try exact Hf; try lia.
           split; [cbn [length] in *; lia|]. right. split; [lia|].
           exists buf', pre. split; [f_equal; lia|]. split; [exact He|].
           rewrite Hcons, <- app_assoc, repeat_snoc. do 2 f_equal. lia.
        -- apply N.ltb_ge in E256. assert (lastCnt = 255) by lia. subst lastCnt.
           destruct (L <=? idx) eqn:EL; [apply Hstop; exact Hf|]. apply N.leb_gt in EL.
           apply (Hstep (b :: (255 - 4) :: buf') (idx + 1) 1); try exact Hf; try lia.
           split; [cbn [length] in *; lia|]. left. split; [lia|]. split; [|lia].
           cbn [rev]. rewrite !expand_app, He. cbn [expand N.eqb N.ltb N.compare andb].
           rewrite Hcons, app_nil_r. reflexivity.
      * unfold cnt in *. clear cnt. cbn [N.add] in Hf. change (0 + 1 <? 4) with true in Hf. cbn iota in Hf.
        destruct (L <=? idx) eqn:EL; [apply Hstop; exact Hf|]. apply N.leb_gt in EL.
        apply (Hstep (b :: (lastCnt - 4) :: buf') (idx + 1) 1); try exact Hf; try lia.
        split; [cbn [length] in *; lia|]. left. split; [lia|]. split; [|lia].
        cbn [rev]. rewrite !expand_app, He. cbn [expand N.eqb N.ltb N.compare andb].
        rewrite Hcons, app_nil_r. reflexivity.
Qed.

Lemma fill_inv_init : fill_inv [] 0 0 0 [].
Proof. split; [reflexivity|]. left. split; [lia|]. split; [reflexivity | reflexivity]. Qed.

(* one block: what the encoder's stage 1 stores, the decoder's stage expands to exactly
   the consumed input, with the same CRC register *)
Theorem rle1_block_roundtrip L data block crc rest :
  1 <= L ->
  rle1_fill L data [] 0 0 0 crc_init = (block, crc, rest) ->
  exists consumed,
    data = consumed ++ rest /\
    (data <> [] -> consumed <> []) /\
    N.of_nat (length block) <= L /\
    crc = fold_left crc_step consumed crc_init /\
    forall s, run (rle1_emit block 0 0 crc_init) s = Done crc (push_out s consumed).
Proof.
  intros HL Hf.
  destruct (rle1_fill_spec L data [] 0 0 0 crc_init [] block crc rest fill_inv_init (N.le_0_l L) Hf)
    as [more [r' [s' [H1 [H2 [H3 [H4 H5]]]]]]].
  cbn [app] in H2. exists more. repeat split; try assumption.
  - intros Hne E. subst more. cbn [app] in H1. subst rest.
    destruct data as [|b data]; [contradiction|].
    cbn [rle1_fill] in Hf.
    replace ((if 0 =? b then 0 else 0) + 1) with 1 in Hf by (destruct (0 =? b); reflexivity).
    change (1 <? 4) with true in Hf. cbn iota in Hf.
    replace (L <=? 0) with false in Hf by (symmetry; apply N.leb_gt; lia).
    assert (Hi : fill_inv [b] (0 + 1) b 1 [b]).
    { split; [reflexivity|]. left. split; [lia|]. split; [|lia].
      cbn [rev app expand N.eqb N.ltb N.compare andb]. reflexivity. }
    assert (HL1 : 0 + 1 <= L) by lia.
    destruct (rle1_fill_spec L data [b] (0 + 1) b 1 _ [b] block crc (b :: data) Hi HL1 Hf)
      as [more [r2 [s2 [G1 _]]]].
    (* data = more ++ b :: data is impossible *)
    apply (f_equal (@length byte)) in G1. rewrite app_length in G1. cbn [length] in G1. lia.
  - intros s. rewrite run_rle1_emit, H2.
    replace (r' =? 4) with false by (symmetry; apply N.eqb_neq; exact H3).
    rewrite H4. reflexivity.
Qed.

(* ---- the whole input: the sequence of blocks the Writer forms ------------------------
   [encode_blocks] (SpecW) calls rle1_fill on what is left until nothing is left, with fuel
   S (length data); [rle1_blocks] is that recursion without the later stages. *)
Fixpoint rle1_blocks (fuel : nat) (L : N) (data : list byte) : list (list byte * N) :=
  match fuel with
  | O => []
  | S f =>
    match data with
    | [] => []
    | _ => let '(block, crc, rest) := rle1_fill L data [] 0 0 0 crc_init in
           (block, crc) :: rle1_blocks f L rest
    end
  end.

(* the Writer's block loop is a fold of the later stages over exactly these blocks *)
Lemma encode_blocks_fold L : forall fuel data combined acc,
  encode_blocks fuel L data combined acc =
  fold_left (fun st bc => (crc_combine (fst st) (crc_final (snd bc)),
                           encode_block (fst bc) (crc_final (snd bc)) (snd st)))
            (rle1_blocks fuel L data) (combined, acc).
Proof.
  induction fuel as [|f IH]; intros data combined acc; cbn [encode_blocks rle1_blocks]; [reflexivity|].
  destruct data as [|b data]; [reflexivity|].
  destruct (rle1_fill L (b :: data) [] 0 0 0 crc_init) as [[block crc] rest].
  cbn [fold_left fst snd]. apply IH.
Qed.

Definition expand_out (block : list byte) : list byte := fst (fst (expand block 0 0)).

Theorem rle1_blocks_cover L : 1 <= L -> forall fuel data,
  (length data < fuel)%nat ->
  concat (map (fun bc => expand_out (fst bc)) (rle1_blocks fuel L data)) = data /\
  Forall (fun bc => N.of_nat (length (fst bc)) <= L /\
                    snd (fst (expand (fst bc) 0 0)) <> 4 /\
                    snd bc = fold_left crc_step (expand_out (fst bc)) crc_init)
         (rle1_blocks fuel L data).
Proof.
  intros HL. induction fuel as [|f IH]; intros data Hlen; [lia|].
  cbn [rle1_blocks]. destruct data as [|b data]; [split; [reflexivity | constructor]|].
  destruct (rle1_fill L (b :: data) [] 0 0 0 crc_init) as [[block crc] rest] eqn:Hf.
  destruct (rle1_fill_spec L (b :: data) [] 0 0 0 crc_init [] block crc rest fill_inv_init (N.le_0_l L) Hf)
    as [more [r' [s' [H1 [H2 [H3 [H4 H5]]]]]]].
  destruct (rle1_block_roundtrip L (b :: data) block crc rest HL Hf) as [cons [G1 [G2 _]]].
  assert (Hne : cons <> []) by (apply G2; discriminate).
  assert (Hrest : (length rest < f)%nat).
  { apply (f_equal (@length byte)) in G1. rewrite app_length in G1.
    destruct cons; [contradiction|]. cbn [length] in *. lia. }
  destruct (IH rest Hrest) as [I1 I2].
  cbn [map concat fst]. split.
  - rewrite I1. unfold expand_out. rewrite H2. cbn [fst app]. symmetry. exact H1.
  - constructor; [|exact I2]. unfold expand_out. cbn [fst snd]. rewrite H2. cbn [fst snd app].
    repeat split; assumption.
Qed.
