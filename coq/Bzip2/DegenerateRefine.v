(* Layer 2b: the Go functions getSymbol and exploreCode (model: Bzip2/Degenerate.v)
   computed on the tables of createTables, against the walks [gstat] / [xwalk]
   on the rows of the libbzip2 port:

     get_symbol_spec   getSymbol on the code (len, val) reports the status of
                       GET_MTF_VAL on the bits of the code
     explore_spec      exploreCode = xwalk, the emitted codes stored / appended
                       in the same order ([apply_emits]) *)
From Coq Require Import FMapPositive.
From V Require Import Base.Prelude Base.Prog Flate.Canon Prefix.GenPrefixesThms Bzip2.Common Bzip2.SpecR Bzip2.SortLemmas
  Bzip2.MtfRle2 Prefix.Code Bzip2.Degenerate Bzip2.DegenerateSpec Bzip2.DegenerateWalk
  Bzip2.DegenerateTables.

Local Open Scope N_scope.

(* ---- bit strings as numbers, most significant bit first ---------------------------------- *)
Definition mval (l : list bool) : N := bits_val (rev l).

Lemma mval_nil : mval [] = 0.
Proof. reflexivity. Qed.

Lemma mval_app a b : mval (a ++ b) = mval a * 2 ^ N.of_nat (length b) + mval b.
Proof. unfold mval. rewrite rev_app_distr, bits_val_app, rev_length. lia. Qed.

Lemma mval_snoc l b : mval (l ++ [b]) = 2 * mval l + N.b2n b.
Proof. rewrite mval_app. cbn [length]. unfold mval at 2. cbn [rev app bits_val]. change (2 ^ N.of_nat 1) with 2. lia. Qed.

Lemma mval_bound l : mval l < 2 ^ N.of_nat (length l).
Proof. unfold mval. rewrite <- rev_length. apply bits_val_bound. Qed.

Lemma mval_zeros m : mval (repeat false m) = 0.
Proof.
  induction m as [|m IH]; [reflexivity|].
  replace (repeat false (S m)) with (repeat false m ++ [false]).
  - rewrite mval_snoc, IH. reflexivity.
  - clear IH. induction m as [|m IH]; [reflexivity|]. cbn [repeat app] in *. rewrite IH. reflexivity.
Qed.

Lemma mval_inj a b : length a = length b -> mval a = mval b -> a = b.
Proof.
  intros Hl Hv. unfold mval in Hv. apply bits_val_inj in Hv; [|rewrite !rev_length; exact Hl].
  rewrite <- (rev_involutive a), <- (rev_involutive b), Hv. reflexivity.
Qed.

Lemma firstn_succ_nth {A} (l : list A) d : forall k, (k < length l)%nat ->
  firstn (S k) l = firstn k l ++ [nth k l d].
Proof.
  induction l as [|x l IH]; intros k Hk; [cbn in Hk; lia|].
  destruct k as [|k]; [reflexivity|]. cbn [firstn nth app]. f_equal. apply IH. cbn [length] in Hk. lia.
Qed.

Lemma skipn_nth_cons {A} (l : list A) d : forall k, (k < length l)%nat ->
  skipn k l = nth k l d :: skipn (S k) l.
Proof.
  induction l as [|x l IH]; intros k Hk; [cbn in Hk; lia|].
  destruct k as [|k]; [reflexivity|]. cbn [skipn nth]. apply IH. cbn [length] in Hk. lia.
Qed.

Lemma val_bits_zero m : val_bits m 0 = repeat false m.
Proof. induction m as [|m IH]; [reflexivity|]. cbn [val_bits repeat]. f_equal. exact IH. Qed.

Lemma val_bits_pad p : forall m, val_bits (length p + m) (bits_val p) = p ++ repeat false m.
Proof.
  induction p as [|b p IH]; intros m.
  - cbn [length bits_val app Nat.add]. apply val_bits_zero.
  - cbn [length Nat.add val_bits bits_val app].
    assert (Ho : N.odd (N.b2n b + 2 * bits_val p) = b).
    { rewrite N.odd_add_mul_2. destruct b; reflexivity. }
    assert (Hd : N.div2 (N.b2n b + 2 * bits_val p) = bits_val p).
    { rewrite N.div2_div. destruct b; cbn [N.b2n].
      - replace (1 + 2 * bits_val p) with (1 + bits_val p * 2) by lia.
        rewrite N.div_add by lia. reflexivity.
      - rewrite N.add_0_l, N.mul_comm, N.div_mul by lia. reflexivity. }
    rewrite Ho, Hd, IH. reflexivity.
Qed.

(* the word of getSymbol: internal.ReverseUint32(c.Val) *)
Lemma reverse32_mval p : (length p <= 32)%nat ->
  reverse32 (bits_val p) = mval p * 2 ^ N.of_nat (32 - length p).
Proof.
  intros H. unfold reverse32, reverse_bits. rewrite fast_rev_eq.
  change (N.to_nat 32) with 32%nat.
  replace 32%nat with (length p + (32 - length p))%nat at 1 by lia.
  rewrite val_bits_pad. fold (mval (p ++ repeat false (32 - length p))).
  rewrite mval_app, mval_zeros, repeat_length. lia.
Qed.

(* R / 2^(32-k) is the value of the first k bits *)
Lemma reverse32_shiftr p k : (k <= length p)%nat -> (length p <= 32)%nat ->
  N.shiftr (reverse32 (bits_val p)) (32 - N.of_nat k) = mval (firstn k p).
Proof.
  intros Hk Hp. rewrite reverse32_mval by exact Hp. rewrite N.shiftr_div_pow2.
  rewrite <- (firstn_skipn k p) at 1. rewrite mval_app.
  pose proof (mval_bound (skipn k p)) as Hb. rewrite skipn_length in *.
  set (a := mval (firstn k p)) in *. set (b := mval (skipn k p)) in *.
  replace (32 - N.of_nat k) with (N.of_nat (length p - k) + N.of_nat (32 - length p)) by lia.
  rewrite N.pow_add_r.
  set (u := 2 ^ N.of_nat (length p - k)) in *. set (w := 2 ^ N.of_nat (32 - length p)).
  assert (Hu : u <> 0) by (apply N.pow_nonzero; lia).
  assert (Hw : w <> 0) by (apply N.pow_nonzero; lia).
  replace ((a * u + b) * w) with (b * w + a * (u * w)) by lia.
  rewrite N.div_add by lia. rewrite N.div_small by nia. lia.
Qed.

(* w32: the low 32 bits *)
Lemma w32_mod x : w32 x = x mod 2 ^ 32.
Proof. unfold w32, mask32. change 0xffffffff with (N.ones 32). apply N.land_ones. Qed.

Lemma w32_shift_step R k : w32 (w32 (N.shiftl R k) * 2) = w32 (N.shiftl R (k + 1)).
Proof.
  rewrite !w32_mod, !N.shiftl_mul_pow2, N.pow_add_r. change (2 ^ 1) with 2.
  rewrite N.mul_mod_idemp_l by (apply N.pow_nonzero; lia). f_equal. lia.
Qed.

(* the top bit of the shifted word is the next bit of the code *)
Lemma top_bit p k : (k < length p)%nat -> (length p <= 32)%nat ->
  N.shiftr (w32 (N.shiftl (reverse32 (bits_val p)) (N.of_nat k))) 31 = N.b2n (nth k p false).
Proof.
  intros Hk Hp. set (R := reverse32 (bits_val p)).
  assert (Hv : w32 (N.shiftl R (N.of_nat k)) < 2 ^ 32).
  { rewrite w32_mod. apply N.mod_lt. apply N.pow_nonzero. lia. }
  assert (E : N.shiftr (w32 (N.shiftl R (N.of_nat k))) 31 =
              N.b2n (N.testbit (w32 (N.shiftl R (N.of_nat k))) 31)).
  { rewrite N.testbit_spec', N.shiftr_div_pow2. symmetry. apply N.mod_small.
    apply N.div_lt_upper_bound; [apply N.pow_nonzero; lia|]. change (2 ^ 31 * 2) with (2 ^ 32). exact Hv. }
  rewrite E. f_equal. unfold w32, mask32. change 0xffffffff with (N.ones 32).
  rewrite N.land_spec, N.ones_spec_low, andb_true_r by lia.
  rewrite N.shiftl_spec_high' by lia.
  (* bit 31-k of R is bit k of the code *)
  assert (Hs : N.shiftr R (32 - N.of_nat (S k)) = mval (firstn (S k) p)).
  { apply reverse32_shiftr; lia. }
  rewrite (firstn_succ_nth p false k Hk), mval_snoc in Hs.
  replace (31 - N.of_nat k) with (0 + (32 - N.of_nat (S k))) by lia.
  rewrite <- N.shiftr_spec', Hs. apply N.testbit_0_r.
Qed.

(* ---- the walk on the rows --------------------------------------------------------------------- *)
Definition gtest (rows : list hrow) (perm : nmap N) (z : N) (rest : list bool) : gstatus :=
  match rows with
  | [] => GMaxBits
  | r :: rs => if z <? r_limit1 r then GOkay (row_sym perm r z) else gstat rs perm z rest
  end.

Lemma gstat_cons rows perm z b p : gstat rows perm z (b :: p) = gtest rows perm (2 * z + N.b2n b) p.
Proof. destruct rows; reflexivity. Qed.

Definition dst (g : gstatus) : dstatus :=
  match g with
  | GOkay (Some s) => SOkay s
  | GOkay None => SInvalid
  | GNeedBits => SNeedBits
  | GMaxBits => SMaxBits
  end.

Lemma skipn_nth_error_cons {A} (l : list A) j r :
  nth_error l j = Some r -> skipn j l = r :: skipn (S j) l.
Proof.
  revert j. induction l as [|x l IH]; intros j H; [destruct j; discriminate|].
  destruct j as [|j]; [cbn in H; inversion H; reflexivity|]. cbn [skipn]. apply IH. exact H.
Qed.

(* ---- storing the explored codes as exploreCode does ------------------------------------------- *)
Definition apply_emit (pc : list pcode) (e : emit) : list pcode :=
  let len := N.of_nat (length (fst e)) in
  let val := bits_val (fst e) in
  match snd e with
  | Some s => match aset pc s (s, len, val) with Some pc' => pc' | None => pc end
  | None => push_invalid pc len val
  end.

Definition apply_emits (pc : list pcode) (es : list emit) : list pcode := fold_left apply_emit es pc.

Lemma apply_emit_length pc e : (length pc <= length (apply_emit pc e))%nat.
Proof.
  unfold apply_emit. destruct (snd e) as [s|].
  - rewrite aset_spec. destruct (N.to_nat s <? length pc)%nat eqn:E; [|lia].
    apply Nat.ltb_lt in E. rewrite app_length, firstn_length. cbn [length]. rewrite skipn_length. lia.
  - unfold push_invalid. rewrite app_length. cbn [length]. lia.
Qed.

Lemma apply_emits_length es : forall pc, (length pc <= length (apply_emits pc es))%nat.
Proof.
  induction es as [|e es IH]; intros pc; [cbn; lia|]. cbn [apply_emits fold_left].
  pose proof (apply_emit_length pc e). specialize (IH (apply_emit pc e)). unfold apply_emits in IH. lia.
Qed.

Lemma apply_emits_one pc e : apply_emits pc [e] = apply_emit pc e.
Proof. reflexivity. Qed.

Lemma apply_emits_app pc a b : apply_emits pc (a ++ b) = apply_emits (apply_emits pc a) b.
Proof. unfold apply_emits. apply fold_left_app. Qed.

(* the value of a code extended by one bit *)
Lemma bits_val_snoc p b : bits_val (p ++ [b]) = bits_val p + N.b2n b * 2 ^ N.of_nat (length p).
Proof. rewrite bits_val_app. cbn [bits_val]. lia. Qed.

Lemma testbit_small v n : v < 2 ^ n -> N.testbit v n = false.
Proof.
  intros H. destruct (N.eq_dec v 0) as [->|Hv]; [apply N.bits_0|].
  apply N.bits_above_log2. apply N.log2_lt_pow2; lia.
Qed.

Lemma lor_pow2 v n : v < 2 ^ n -> N.lor v (2 ^ n) = v + 2 ^ n.
Proof.
  intros H.
  assert (Hl : N.land v (2 ^ n) = 0).
  { apply N.bits_inj. intros i. rewrite N.land_spec, N.bits_0.
    destruct (N.eq_dec i n) as [->|Hne].
    - rewrite (testbit_small v n H). reflexivity.
    - rewrite N.pow2_bits_false by lia. apply andb_false_r. }
  rewrite (N.add_nocarry_lxor _ _ Hl). symmetry. apply N.lxor_lor. exact Hl.
Qed.

Lemma explore_val1 p : (length p < 32)%nat ->
  N.lor (bits_val p) (w32 (N.shiftl 1 (N.of_nat (length p) + 1 - 1))) = bits_val (p ++ [true]).
Proof.
  intros H. replace (N.of_nat (length p) + 1 - 1) with (N.of_nat (length p)) by lia.
  rewrite N.shiftl_1_l, w32_mod.
  rewrite N.mod_small by (apply N.pow_lt_mono_r; lia).
  rewrite lor_pow2 by apply bits_val_bound. rewrite bits_val_snoc. cbn [N.b2n]. lia.
Qed.

Lemma explore_val0 p : bits_val p = bits_val (p ++ [false]).
Proof. rewrite bits_val_snoc. cbn [N.b2n]. lia. Qed.

Lemma explore_S f T len val pc :
  explore (S f) T len val pc =
  match get_symbol T len val with
  | SOkay sym =>
    match aset pc sym (sym, len, val) with
    | Some pc' => XOk true pc'
    | None => XPanic
    end
  | SInvalid => XOk true (push_invalid pc len val)
  | SNeedBits =>
    let len1 := len + 1 in
    let val1 := N.lor val (w32 (N.shiftl 1 (len1 - 1))) in
    match explore f T len1 val pc with
    | XOk b0 pc0 =>
      match explore f T len1 val1 pc0 with
      | XOk b1 pc1 =>
        let pc2 := if negb b0 && b1 then push_invalid pc1 len1 val
                   else if negb b1 && b0 then push_invalid pc1 len1 val1
                   else pc1 in
        XOk (b0 || b1) pc2
      | r => r
      end
    | r => r
    end
  | SMaxBits => XOk false pc
  | SPanic => XPanic
  | SFuel => XFuel
  end.
Proof. reflexivity. Qed.

Section Refine.
  Variable lens : list N.
  Variable T : dtab.
  Hypothesis Hn : (length lens <= 258)%nat.
  Hypothesis Hpos : forall l, In l lens -> 1 <= l.
  Hypothesis HT : tab_ok lens T.

  Let rows := t_rows (mk_table lens).
  Let perm := t_perm (mk_table lens).
  Let P := perm_list lens.

  Lemma rows_len : length rows = N.to_nat (d_max T).
  Proof. unfold rows. rewrite (to_max lens T HT). apply (mk_table_rows_ok lens Hpos). Qed.

  Lemma rows_nth j r : nth_error rows j = Some r ->
    r_limit1 r = L1n lens (S j) /\ r_first r = 2 * L1n lens j /\ r_cum r = Cn lens (S j).
  Proof. apply (mk_table_rows_ok lens Hpos). Qed.

  Lemma perm_get k : nm_get perm k = nth_error P (N.to_nat k).
  Proof. unfold perm, mk_table. cbn [t_perm]. apply nm_of_list_get. Qed.

  (* an accepted value has a symbol: the two error exits of GET_MTF_VAL are dead code *)
  Lemma row_sym_some j r z : nth_error rows j = Some r ->
    2 * L1n lens j <= z -> z < r_limit1 r ->
    exists s, row_sym perm r z = Some s /\ s < N.of_nat (length lens) /\
              nth_error P (N.to_nat (z - 2 * L1n lens j + Cn lens (S j))) = Some s.
  Proof.
    intros Hj Hlo Hhi. destruct (rows_nth j r Hj) as (H1 & H2 & H3).
    assert (Hlt : (j < length rows)%nat) by (apply nth_error_Some; congruence).
    rewrite rows_len in Hlt.
    unfold row_sym. rewrite H2, H3. replace (z <? 2 * L1n lens j) with false by lia.
    rewrite perm_get.
    assert (Hk : 1 <= N.of_nat (S j) <= max_of lens) by (rewrite <- (to_max lens T HT); lia).
    assert (Ht : z - 2 * L1n lens j < count_len lens (N.of_nat (S j))).
    { rewrite H1 in Hhi. cbn [L1n] in Hhi. lia. }
    pose proof (perm_list_nth lens (N.of_nat (S j)) (z - 2 * L1n lens j) Hpos Hk Ht) as Hp.
    unfold Cm in Hp. rewrite Nat2N.id in Hp. fold P in Hp.
    replace (z - 2 * L1n lens j + Cn lens (S j)) with (Cn lens (S j) + (z - 2 * L1n lens j)) by lia.
    destruct (nth_error (sel (indexed_of lens) (N.of_nat (S j))) (N.to_nat (z - 2 * L1n lens j))) as [s|] eqn:Es.
    - exists s. rewrite Hp. split; [reflexivity|]. split; [|reflexivity].
      apply perm_list_In. fold P. apply (nth_error_In _ _ Hp).
    - exfalso. apply nth_error_None in Es. unfold indexed_of in Es.
      rewrite sel_length in Es by apply indexed_len. lia.
  Qed.

  (* perms[idx] of the Go array *)
  Lemma perms_get i s : nth_error P i = Some s -> aget (d_perms T) (N.of_nat i) = Some (Z.of_N s).
  Proof.
    intros H. rewrite aget_nth, Nat2N.id.
    assert (Hlt : (i < length P)%nat) by (apply nth_error_Some; congruence).
    rewrite <- (nth_error_firstn_lt (d_perms T) (length P) i Hlt).
    unfold P. rewrite (to_perm lens T HT). fold P. rewrite nth_error_map, H. reflexivity.
  Qed.

  (* ---- gs_loop ------------------------------------------------------------------------------ *)
  Lemma gs_finish_spec j r z : nth_error rows j = Some r ->
    2 * L1n lens j <= z -> z < r_limit1 r ->
    gs_finish T (N.of_nat (S j)) (Z.of_N z) = dst (GOkay (row_sym perm r z)).
  Proof.
    intros Hj Hlo Hhi. destruct (row_sym_some j r z Hj Hlo Hhi) as (s & Hs & Hsn & Hp).
    rewrite Hs. cbn [dst]. unfold gs_finish.
    assert (Hlt : (j < length rows)%nat) by (apply nth_error_Some; congruence).
    rewrite rows_len in Hlt.
    assert (Hmin : d_min T <= N.of_nat (S j)).
    { destruct (N.le_gt_cases (d_min T) (N.of_nat (S j))) as [H|H]; [exact H|]. exfalso.
      destruct (rows_nth j r Hj) as (H1 & _). rewrite H1 in Hhi.
      pose proof (L1_below lens (d_min T) (N.of_nat (S j)) (to_min_lb lens T HT) H) as Hz.
      unfold L1 in Hz. rewrite Nat2N.id in Hz. lia. }
    rewrite (to_base lens T HT) by lia.
    unfold L1, Cm. replace (N.to_nat (N.of_nat (S j) - 1)) with j by lia. rewrite Nat2N.id.
    assert (Hidx : (Z.of_N z - (2 * Z.of_N (L1n lens j) - Z.of_N (Cn lens (S j))))%Z
                   = Z.of_N (z - 2 * L1n lens j + Cn lens (S j))) by lia.
    rewrite Hidx.
    assert (Hi258 : z - 2 * L1n lens j + Cn lens (S j) < 258).
    { assert (Hl : (N.to_nat (z - 2 * L1n lens j + Cn lens (S j)) < length P)%nat)
        by (apply nth_error_Some; congruence).
      assert (Hpl : (length P <= 258)%nat).
      { pose proof (to_perm lens T HT) as Hf. fold P in Hf.
        apply (f_equal (@length Z)) in Hf. rewrite firstn_length, map_length in Hf.
        rewrite (to_perm_len lens T HT) in Hf. lia. }
      lia. }
    unfold maxNumSyms.
    replace ((Z.of_N (z - 2 * L1n lens j + Cn lens (S j)) <? 0)%Z) with false by lia.
    replace ((Z.of_N 258 <=? Z.of_N (z - 2 * L1n lens j + Cn lens (S j)))%Z) with false by lia.
    cbn [orb]. rewrite N2Z.id.
    rewrite <- (N2Nat.id (z - 2 * L1n lens j + Cn lens (S j))).
    rewrite (perms_get _ s Hp). rewrite N2Z.id. reflexivity.
  Qed.

  Lemma gs_loop_spec p : (length p <= 32)%nat ->
    forall fuel j z,
    (N.to_nat (d_max T) + 2 <= fuel + S j)%nat -> (S j <= N.to_nat (d_max T) + 1)%nat ->
    d_min T <= N.of_nat (S j) -> (S j <= length p)%nat ->
    z = mval (firstn (S j) p) -> 2 * L1n lens j <= z ->
    gs_loop fuel T (N.of_nat (length p)) (N.of_nat (S j)) (Z.of_N z)
            (w32 (N.shiftl (reverse32 (bits_val p)) (N.of_nat (S j))))
    = dst (gtest (skipn j rows) perm z (skipn (S j) p)).
  Proof.
    intros Hp32. induction fuel as [|fuel IH]; intros j z Hfuel Hjmax Hmin Hjp Hz Hlo; [lia|].
    cbn [gs_loop].
    destruct (d_max T <? N.of_nat (S j)) eqn:Emax.
    - (* beyond maxLen *)
      rewrite skipn_all2 by (rewrite rows_len; lia). reflexivity.
    - assert (Hlt : (j < length rows)%nat) by (rewrite rows_len; lia).
      destruct (nth_error rows j) as [r|] eqn:Hr; [|apply nth_error_None in Hr; lia].
      rewrite (skipn_nth_error_cons rows j r Hr). cbn [gtest].
      destruct (rows_nth j r Hr) as (H1 & H2 & H3).
      rewrite (to_lim lens T HT) by lia. unfold L1. rewrite Nat2N.id, <- H1.
      replace ((Z.of_N z <=? Z.of_N (r_limit1 r) - 1)%Z) with (z <? r_limit1 r) by lia.
      destruct (z <? r_limit1 r) eqn:Eacc.
      + apply gs_finish_spec; [exact Hr | exact Hlo | lia].
      + destruct (N.of_nat (length p) <? N.of_nat (S j) + 1) eqn:En.
        * (* the code is exhausted *)
          rewrite (skipn_all2 (n := S j) p) by lia. reflexivity.
        * assert (Hjp' : (S j < length p)%nat) by lia.
          rewrite (skipn_nth_cons p false (S j) Hjp'). rewrite gstat_cons.
          rewrite (top_bit p (S j) Hjp' Hp32).
          rewrite w32_shift_step.
          replace (N.of_nat (S j) + 1) with (N.of_nat (S (S j))) by lia.
          replace (Z.of_N z * 2 + Z.of_N (N.b2n (nth (S j) p false)))%Z
            with (Z.of_N (2 * z + N.b2n (nth (S j) p false))) by lia.
          apply IH; [lia | lia | lia | lia | |].
          -- rewrite (firstn_succ_nth p false (S j) Hjp'), mval_snoc, <- Hz. reflexivity.
          -- rewrite <- H1. lia.
  Qed.

  (* below minLen no row accepts *)
  Lemma gstat_prefix p : forall j, N.of_nat (S j) <= d_min T -> (S j <= length p)%nat ->
    gstat rows perm 0 p = gtest (skipn j rows) perm (mval (firstn (S j) p)) (skipn (S j) p).
  Proof.
    induction j as [|j IH]; intros Hj Hjp.
    - destruct p as [|b p]; [cbn in Hjp; lia|]. rewrite gstat_cons. cbn [skipn firstn].
      unfold mval. cbn [rev app bits_val]. f_equal. lia.
    - rewrite IH by lia.
      assert (Hlt : (j < length rows)%nat).
      { rewrite rows_len. pose proof (to_min_max lens T HT). lia. }
      destruct (nth_error rows j) as [r|] eqn:Hr; [|apply nth_error_None in Hr; lia].
      rewrite (skipn_nth_error_cons rows j r Hr). cbn [gtest].
      destruct (rows_nth j r Hr) as (H1 & _).
      pose proof (L1_below lens (d_min T) (N.of_nat (S j)) (to_min_lb lens T HT) ltac:(lia)) as Hz.
      unfold L1 in Hz. rewrite Nat2N.id in Hz. rewrite H1, Hz.
      replace (mval (firstn (S j) p) <? 0) with false by lia.
      rewrite (skipn_nth_cons p false (S j)) by lia. rewrite gstat_cons.
      rewrite (firstn_succ_nth p false (S j)) by lia. rewrite mval_snoc. reflexivity.
  Qed.

  Lemma gstat_short p : forall rs z, (length p < length rs)%nat ->
    (forall r, In r (firstn (length p) rs) -> r_limit1 r = 0) ->
    gstat rs perm z p = GNeedBits.
  Proof.
    induction p as [|b p IH]; intros rs z Hlen Hz; [reflexivity|].
    destruct rs as [|r rs]; [cbn in Hlen; lia|]. cbn [gstat]. cbv zeta.
    rewrite (Hz r) by (left; reflexivity).
    replace (2 * z + N.b2n b <? 0) with false by lia.
    apply IH; [cbn [length] in Hlen; lia|]. intros r' Hr'. apply Hz. right. exact Hr'.
  Qed.

  Theorem get_symbol_spec p : (length p <= 32)%nat ->
    get_symbol T (N.of_nat (length p)) (bits_val p) = dst (gstat rows perm 0 p).
  Proof.
    intros Hp. unfold get_symbol. cbv zeta.
    pose proof (to_min_pos lens T HT) as Hm1. pose proof (to_min_max lens T HT) as Hmm.
    pose proof (to_max20 lens T HT) as H20.
    destruct (N.of_nat (length p) <? d_min T) eqn:E.
    - rewrite gstat_short; [reflexivity | rewrite rows_len; lia |].
      intros r Hr. apply In_nth_error in Hr. destruct Hr as [j Hj].
      assert (Hjl : (j < length p)%nat).
      { assert (H : (j < length (firstn (length p) rows))%nat) by (apply nth_error_Some; congruence).
        rewrite firstn_length in H. lia. }
      rewrite nth_error_firstn_lt in Hj by exact Hjl.
      destruct (rows_nth j r Hj) as (H1 & _). rewrite H1.
      pose proof (L1_below lens (d_min T) (N.of_nat (S j)) (to_min_lb lens T HT) ltac:(lia)) as Hz.
      unfold L1 in Hz. rewrite Nat2N.id in Hz. exact Hz.
    - set (j := (N.to_nat (d_min T) - 1)%nat).
      assert (Hj : d_min T = N.of_nat (S j)) by lia.
      rewrite (gstat_prefix p j) by lia.
      rewrite Hj at 1 2 3.
      rewrite (reverse32_shiftr p (S j)) by lia.
      apply gs_loop_spec; try lia.
      pose proof (L1_below lens (d_min T) (N.of_nat j) (to_min_lb lens T HT) ltac:(lia)) as Hz.
      unfold L1 in Hz. rewrite Nat2N.id in Hz. lia.
  Qed.

  (* ---- exploreCode ------------------------------------------------------------------------------- *)
  Lemma gstat_okay_some_from p : forall j z o, L1n lens j <= z ->
    gstat (skipn j rows) perm z p = GOkay o ->
    exists s, o = Some s /\ s < N.of_nat (length lens).
  Proof.
    induction p as [|b p IH]; intros j z o Hz H; [discriminate|].
    rewrite gstat_cons in H.
    destruct (nth_error rows j) as [r|] eqn:Hr.
    - rewrite (skipn_nth_error_cons rows j r Hr) in H. cbn [gtest] in H.
      destruct (2 * z + N.b2n b <? r_limit1 r) eqn:E.
      + inversion H; subst o.
        destruct (row_sym_some j r (2 * z + N.b2n b) Hr ltac:(lia) ltac:(lia)) as (s & Hs & Hsn & _).
        exists s. split; assumption.
      + apply (IH (S j) (2 * z + N.b2n b) o); [|exact H].
        destruct (rows_nth j r Hr) as (H1 & _). rewrite <- H1. lia.
    - apply nth_error_None in Hr. rewrite skipn_all2 in H by exact Hr. discriminate.
  Qed.

  Lemma gstat_okay_some p o : gstat rows perm 0 p = GOkay o ->
    exists s, o = Some s /\ s < N.of_nat (length lens).
  Proof. apply (gstat_okay_some_from p 0 0 o). cbn [L1n]. lia. Qed.

  Lemma explore_spec : forall rs fuel z p pc,
    (length rs + 2 <= fuel)%nat -> (length p + length rs + 1 <= 32)%nat ->
    (forall q, gstat rows perm 0 (p ++ q) = gstat rs perm z q) ->
    (258 <= length pc)%nat ->
    explore fuel T (N.of_nat (length p)) (bits_val p) pc =
    XOk (fst (xwalk rs perm z p)) (apply_emits pc (snd (xwalk rs perm z p))).
  Proof.
    induction rs as [|r rest IH]; intros fuel z p pc Hfuel Hlen Hq Hpc.
    - (* no row left: both children are beyond maxLen *)
      destruct fuel as [|[|f]]; [cbn in Hfuel; lia | cbn in Hfuel; lia |].
      cbn [length Nat.add] in Hlen.
      assert (Hchild : forall b pc', explore (S f) T (N.of_nat (length p) + 1)
                          (bits_val (p ++ [b])) pc' = XOk false pc').
      { intros b pc'. rewrite explore_S.
        replace (N.of_nat (length p) + 1) with (N.of_nat (length (p ++ [b])))
          by (rewrite app_length; cbn [length]; lia).
        rewrite get_symbol_spec by (rewrite app_length; cbn [length]; lia).
        rewrite Hq. reflexivity. }
      rewrite explore_S. rewrite get_symbol_spec by lia.
      pose proof (Hq []) as Hq0. rewrite app_nil_r in Hq0. rewrite Hq0. cbn [gstat dst]. cbv zeta.
      rewrite explore_val1 by lia.
      pose proof (Hchild false) as Hc0. rewrite <- (explore_val0 p) in Hc0.
      rewrite Hc0, Hchild. reflexivity.
    - destruct fuel as [|f]; [cbn in Hfuel; lia|]. cbn [length] in Hfuel, Hlen.
      assert (Hchild : forall b pc', (258 <= length pc')%nat ->
                explore f T (N.of_nat (length p) + 1) (bits_val (p ++ [b])) pc' =
                XOk (fst (xchild perm r rest z p b)) (apply_emits pc' (snd (xchild perm r rest z p b)))).
      { intros b pc' Hpc'. unfold xchild. cbv zeta.
        replace (N.of_nat (length p) + 1) with (N.of_nat (length (p ++ [b])))
          by (rewrite app_length; cbn [length]; lia).
        destruct (2 * z + N.b2n b <? r_limit1 r) eqn:E.
        - destruct f as [|f]; [lia|]. rewrite explore_S.
          rewrite get_symbol_spec by (rewrite app_length; cbn [length]; lia).
          pose proof (Hq [b]) as Hb. cbn [gstat] in Hb. cbv zeta in Hb. rewrite E in Hb.
          destruct (gstat_okay_some _ _ Hb) as (s & Hs & Hsn). rewrite Hb, Hs. cbn [dst fst snd].
          unfold apply_emits. cbn [fold_left]. unfold apply_emit. cbn [fst snd].
          destruct (aset_some pc' s (s, N.of_nat (length (p ++ [b])), bits_val (p ++ [b])))
            as (pc'' & Hs' & _); [lia|].
          rewrite Hs'. reflexivity.
        - apply IH.
          + lia.
          + rewrite app_length. cbn [length]. lia.
          + intros q. rewrite <- app_assoc. cbn [app]. rewrite Hq. cbn [gstat]. cbv zeta.
            rewrite E. reflexivity.
          + exact Hpc'. }
      rewrite explore_S. rewrite get_symbol_spec by lia.
      pose proof (Hq []) as Hq0. rewrite app_nil_r in Hq0. rewrite Hq0. cbn [gstat dst]. cbv zeta.
      rewrite explore_val1 by lia.
      pose proof (Hchild false pc Hpc) as Hc0. rewrite <- (explore_val0 p) in Hc0.
      rewrite Hc0.
      set (c0 := xchild perm r rest z p false).
      assert (Hpc0 : (258 <= length (apply_emits pc (snd c0)))%nat).
      { pose proof (apply_emits_length (snd c0) pc). lia. }
      rewrite (Hchild true _ Hpc0).
      set (c1 := xchild perm r rest z p true).
      rewrite xwalk_cons. cbv zeta. fold c0 c1. cbn [fst snd].
      rewrite !apply_emits_app. f_equal.
      replace (N.of_nat (length p) + 1) with (N.of_nat (length (p ++ [false])))
        by (rewrite app_length; cbn [length]; lia).
      replace (N.of_nat (length (p ++ [false]))) with (N.of_nat (length (p ++ [true]))) at 2
        by (rewrite !app_length; reflexivity).
      destruct (fst c0), (fst c1); cbn [negb andb]; try reflexivity;
        rewrite apply_emits_one; unfold apply_emit; cbn [fst snd];
        rewrite <- ?(explore_val0 p); reflexivity.
  Qed.

End Refine.
