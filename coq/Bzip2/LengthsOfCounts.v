(* The code lengths of one bzip2 tree, as the encoder model computes them from
   the symbol counts ([Bzip2.SpecW.lengths_of_counts]: SortByCount,
   GenerateLengths(20), SortBySymbol): for every count vector over 2 <= n <= 2^20
   symbols the result has one length per symbol, every length is in 1..20,
   the Kraft sum is exactly one, and GeneratePrefixes accepts it, producing a
   valid canonical prefix code.
   Uses [msort_spec] / [sorted_perm_unique] of Bzip2/SortLemmas.v (by ag_bwt). *)
From Coq Require Import Sorting.Permutation Sorting.Sorted.
From V Require Import Base.Prelude Base.Prog Flate.Spec Flate.Canon.
From V Require Import Bzip2.Common Bzip2.SpecW Bzip2.MtfRle2 Bzip2.SortLemmas.
From V Require Import Prefix.Code Prefix.GenPrefixesThms Prefix.GenLengthsThms Prefix.GenPipelineThms
                      Bzip2.LengthsThms.
Local Open Scope N_scope.

Lemma count_leb_total x y : count_leb x y = false -> count_leb y x = true.
Proof.
  unfold count_leb. intros H.
  destruct (N.ltb_spec (fst x) (fst y)) as [H1|H1]; cbn [orb] in H; [discriminate|].
  destruct (N.eqb_spec (fst x) (fst y)) as [E|E]; cbn [andb] in H.
  - destruct (N.leb_spec (snd x) (snd y)) as [H2|H2]; [discriminate|].
    rewrite E, N.ltb_irrefl, N.eqb_refl. cbn [orb andb]. apply N.leb_le. lia.
  - assert (Hlt : (fst y <? fst x) = true) by (apply N.ltb_lt; lia). rewrite Hlt. reflexivity.
Qed.

Lemma sym_leb_total x y : sym_leb x y = false -> sym_leb y x = true.
Proof. unfold sym_leb. intros H. apply N.leb_gt in H. apply N.leb_le. lia. Qed.

Lemma seq_sorted_lt : forall k a, StronglySorted N.lt (map N.of_nat (seq a k)).
Proof.
  induction k as [|k IH]; intros a; cbn [seq map]; constructor; [apply IH|].
  apply Forall_forall. intros x Hx. apply in_map_iff in Hx. destruct Hx as (y & <- & Hy).
  apply in_seq in Hy. lia.
Qed.

Lemma iota_sorted_lt m : StronglySorted N.lt (iota m).
Proof. rewrite iota_eq. apply seq_sorted_lt. Qed.

Lemma SS_weaken {A} (R R' : A -> A -> Prop) l :
  (forall x y, R x y -> R' x y) -> StronglySorted R l -> StronglySorted R' l.
Proof.
  intros H. induction 1 as [|x l Hl IH Hx]; constructor; [exact IH|].
  rewrite Forall_forall in *. intros y Hy. apply H. apply Hx. exact Hy.
Qed.

Lemma combine_fst_snd {A B} (l : list (A * B)) : combine (map fst l) (map snd l) = l.
Proof. induction l as [|[a b] l IH]; [reflexivity|]. cbn [map combine fst snd]. rewrite IH. reflexivity. Qed.

Theorem lengths_of_counts_correct cnts :
  (2 <= length cnts)%nat -> N.of_nat (length cnts) <= 2 ^ 20 ->
  let n := N.of_nat (length cnts) in
  let ls := lengths_of_counts cnts in
  length ls = length cnts /\
  (forall l, In l ls -> 1 <= l <= 20) /\
  lsumN (fun l => 2 ^ (20 - l)) ls = 2 ^ 20 /\
  exists out, gen_prefixes (combine (iota n) ls) = GPOk out /\ valid_code out /\
              map fst out = combine (iota n) ls.
Proof.
  intros Hn Hcap n ls.
  assert (H64 : forall k, k = length cnts -> N.of_nat k <= 2 ^ 64).
  { intros k ->. change (2 ^ 20) with 1048576 in Hcap. change (2 ^ 64) with 18446744073709551616. lia. }
  unfold ls, lengths_of_counts.
  set (codes := combine cnts (iota (len_n cnts))).
  assert (Lio : length (iota (len_n cnts)) = length cnts).
  { rewrite iota_length, len_n_length. lia. }
  assert (Lc : length codes = length cnts).
  { unfold codes. rewrite combine_length. lia. }
  assert (Sc : map snd codes = iota n).
  { unfold codes. rewrite map_snd_combine by lia. rewrite len_n_length. reflexivity. }
  rewrite Lc.
  destruct (msort_spec _ count_leb count_leb_total (S (length cnts)) codes) as [_ P1];
    [lia | apply H64; exact Lc|].
  set (sorted := msort count_leb (S (length cnts)) codes) in *.
  assert (Ls : length sorted = length cnts) by (rewrite (Permutation_length P1); exact Lc).
  assert (Nd : NoDup (map snd sorted)).
  { apply (Permutation_NoDup (l := map snd codes)).
    - apply Permutation_map. apply Permutation_sym. exact P1.
    - rewrite Sc. apply iota_NoDup. }
  assert (Hc : gl_correct 20 sorted (generate_lengths sorted)).
  { apply generate_lengths_correct; [lia | exact Nd | rewrite Ls; exact Hcap]. }
  set (lens := generate_lengths sorted) in *.
  assert (Ll : length lens = length cnts).
  { rewrite <- (map_length fst lens), (gl_syms _ _ _ Hc), map_length. exact Ls. }
  rewrite Ll.
  destruct (msort_spec _ sym_leb sym_leb_total (S (length cnts)) lens) as [S2 P2];
    [lia | apply H64; exact Ll|].
  set (sorted2 := msort sym_leb (S (length cnts)) lens) in *.
  (* the symbols of the final list are 0 .. n-1 in order *)
  assert (Pf : Permutation (map fst sorted2) (iota n)).
  { eapply Permutation_trans; [apply Permutation_map; exact P2|].
    rewrite (gl_syms _ _ _ Hc). rewrite <- Sc. apply Permutation_map. exact P1. }
  assert (SS2 : StronglySorted N.le (map fst sorted2)).
  { apply (StronglySorted_map_in (fun x y => sym_leb x y = true)).
    - intros x y _ _ H. unfold sym_leb in H. apply N.leb_le in H. exact H.
    - apply Sorted_StronglySorted; [|exact S2].
      intros x y z Hxy Hyz. unfold sym_leb in *. apply N.leb_le in Hxy, Hyz. apply N.leb_le. lia. }
  assert (Ef : map fst sorted2 = iota n).
  { apply (sorted_perm_unique N.le); [intros x y; lia | exact SS2 | | exact Pf].
    apply (SS_weaken N.lt); [intros x y; lia | apply iota_sorted_lt]. }
  assert (E2 : sorted2 = combine (iota n) (map snd sorted2)).
  { rewrite <- Ef. symmetry. apply combine_fst_snd. }
  assert (Hin : forall l, In l (map snd sorted2) -> exists s, In (s, l) lens).
  { intros l Hl. apply in_map_iff in Hl. destruct Hl as ([s l'] & <- & Hl). exists s.
    apply (Permutation_in _ P2). exact Hl. }
  split; [|split; [|split]].
  - rewrite map_length, (Permutation_length P2). exact Ll.
  - intros l Hl. destruct (Hin l Hl) as (s & Hs). apply (gl_range _ _ _ Hc s l Hs).
  - rewrite <- lsum_lsumN, <- kraft_lsum, (kraft_perm _ _ _ P2). apply (gl_kraft _ _ _ Hc).
  - rewrite <- E2.
    destruct (gl_correct_accepted 20 sorted lens sorted2 Hc (Permutation_sym P2)) as (out & Ho & Hv & Hf & _).
    + rewrite Ef. apply iota_sorted_lt.
    + exists out. split; [exact Ho|]. split; [exact Hv | exact Hf].
Qed.

(* non-vacuity: five symbols *)
Example loc_ex : lengths_of_counts [5; 1; 1; 20; 3] = [2; 4; 4; 1; 3].
Proof. vm_compute. reflexivity. Qed.

Print Assumptions lengths_of_counts_correct.
