(* [simP]: refinement of a read-only specification program by a Reader step that may also
   read and update other fields of the Reader (level, CRCs, counters, the Decoder objects):
   a precondition P on the Reader state and a postcondition Q on result, specification result
   and final Reader state.  [sim] (Bzip2/ImplSim.v: only the bit reader changes) lifts to
   [simP] for every precondition that does not mention the bit reader. *)
From V Require Import Base.Prelude Base.Prog Base.ProgThms Base.FuelThms Bzip2.Common Bzip2.SpecR
  Bzip2.BitIO Prefix.Code Prefix.ReaderImpl Prefix.ReaderSpec Prefix.ReaderThms Prefix.DecTable
  Prefix.DecReadThms Bzip2.Safe Bzip2.Impl Bzip2.ImplBits Bzip2.ImplSim.

Local Open Scope N_scope.

Section SimP.
Variable data : list byte.
Hypothesis Hd : forall b, In b data -> b < 256.

Notation bits := (stream_bits true data).
Notation PI := (PI true data).
Notation total := (8 * length data)%nat.
Notation sat := (sat data).
Notation Rep := (Rep data).

Definition simP {A B} (P : bzst -> Prop) (m : M A) (q : prog B) (Q : A -> B -> bzst -> Prop) : Prop :=
  forall R st out len, P st -> Rep R st -> (R <= total)%nat ->
    match run q (sat R out len) with
    | Done b s' =>
      (exists R' a st', s' = sat R' out len /\ (R <= R' <= total)%nat /\
                        m st = (ROk a, st') /\ Q a b st' /\ Rep R' st')
      \/ ((ilen s' < 20)%nat /\ exists st', m st = (RThrow EUEOF, st'))
    | Fail e s' =>
      exists st', m st = (RThrow e, st') \/ m st = (RThrow EUEOF, st')
    end.

(* a predicate on Reader states that does not look at the bit reader *)
Definition rd_indep (P : bzst -> Prop) : Prop := forall st p, P st -> P (set_rd st p).

Lemma sim_simP {A B} (P : bzst -> Prop) (m : M A) (q : prog B) (rel : A -> B -> Prop) :
  rd_indep P -> sim data m q rel -> simP P m q (fun a b st' => rel a b /\ P st').
Proof.
  intros HPi Hs R st out len HP HR Hle. specialize (Hs R st out len HR Hle).
  destruct (run q (sat R out len)) as [b s'|e s'].
  - destruct Hs as [(R' & a & p' & -> & HR' & Em & Hrel & HP' & _)|(Hw & p' & Em)].
    + left. exists R', a, (set_rd st p'). split; [reflexivity|]. split; [exact HR'|].
      split; [exact Em|]. split; [split; [exact Hrel | apply HPi; exact HP]|]. exact HP'.
    + right. split; [exact Hw|]. exists (set_rd st p'). exact Em.
  - destruct Hs as (p' & Em). exists (set_rd st p'). exact Em.
Qed.

Lemma simP_bind {A B A' B'} (P : bzst -> Prop) (m : M A) (q : prog B) (Q : A -> B -> bzst -> Prop)
      (f : A -> M A') (g : B -> prog B') (Q' : A' -> B' -> bzst -> Prop) :
  simP P m q Q -> (forall a b, simP (Q a b) (f a) (g b) Q') ->
  simP P (mbind m f) (bind q g) Q'.
Proof.
  intros Hm Hf R st out len HP HR Hle. rewrite run_bind.
  specialize (Hm R st out len HP HR Hle).
  destruct (run q (sat R out len)) as [b s1|e s1].
  - destruct Hm as [(R1 & a & st1 & -> & HR1 & Em & HQ & HP1)|(Hwt & st1 & Em)].
    + rewrite (mbind_ok m f st a _ Em).
      specialize (Hf a b R1 st1 out len HQ HP1 ltac:(lia)).
      destruct (run (g b) (sat R1 out len)) as [b' s2|e s2].
      * destruct Hf as [(R2 & a' & st2 & -> & HR2 & Ef & HQ' & HP2)|(Hwt & st2 & Ef)].
        -- left. exists R2, a', st2. split; [reflexivity|]. split; [lia|].
           split; [exact Ef|]. split; [exact HQ' | exact HP2].
        -- right. split; [exact Hwt|]. exists st2. exact Ef.
      * exact Hf.
    + rewrite (mbind_throw m f st _ _ Em).
      pose proof (run_ilen_le (g b) s1) as Hmono.
      destruct (run (g b) s1) as [b' s2|e s2]; cbn [res_state] in Hmono.
      * right. split; [lia|]. exists st1. reflexivity.
      * exists st1. right. reflexivity.
  - destruct Hm as (st1 & Em). exists st1. destruct Em as [Em|Em].
    + left. apply mbind_throw. exact Em.
    + right. apply mbind_throw. exact Em.
Qed.

Lemma simP_weaken {A B} (P P' : bzst -> Prop) (m : M A) (q : prog B) (Q Q' : A -> B -> bzst -> Prop) :
  simP P m q Q -> (forall st, P' st -> P st) -> (forall a b st, Q a b st -> Q' a b st) ->
  simP P' m q Q'.
Proof.
  intros Hm HPP HQQ R st out len HP HR Hle. specialize (Hm R st out len (HPP st HP) HR Hle).
  destruct (run q (sat R out len)) as [b s1|e s1]; [|exact Hm].
  destruct Hm as [(R1 & a & st1 & H1 & H2 & H3 & H4 & H5)|Hw]; [left|right; exact Hw].
  exists R1, a, st1. split; [exact H1|]. split; [exact H2|]. split; [exact H3|].
  split; [apply HQQ; exact H4 | exact H5].
Qed.

Lemma simP_ret {A B} (P : bzst -> Prop) (a : A) (b : B) (Q : A -> B -> bzst -> Prop) :
  (forall st, P st -> Q a b st) -> simP P (ret a) (Ret b) Q.
Proof.
  intros HQ R st out len HP HR Hle. cbn [run]. left. exists R, a, st.
  split; [reflexivity|]. split; [lia|]. split; [reflexivity|]. split; [apply HQ; exact HP | exact HR].
Qed.

Lemma simP_throw {A B} (P : bzst -> Prop) e (Q : A -> B -> bzst -> Prop) :
  simP P (@throw A e) (@Throw B e) Q.
Proof. intros R st out len HP HR Hle. cbn [run]. exists st. left. reflexivity. Qed.

(* a state update that does not touch the bit reader, against nothing on the specification side *)
Lemma simP_upd {B} (P : bzst -> Prop) (u : bzst -> bzst) (b : B) (Q : unit -> B -> bzst -> Prop) :
  (forall st, z_rd (u st) = z_rd st) -> (forall st, P st -> Q tt b (u st)) ->
  simP P (mupd u) (Ret b) Q.
Proof.
  intros Hu HQ R st out len HP HR Hle. cbn [run]. left. exists R, tt, (u st).
  split; [reflexivity|]. split; [lia|]. split; [reflexivity|]. split; [apply HQ; exact HP|].
  unfold ImplBits.Rep. rewrite Hu. exact HR.
Qed.

(* reading the state *)
Lemma simP_get {A' B'} (P : bzst -> Prop) (f : bzst -> M A') (g : prog B') (Q' : A' -> B' -> bzst -> Prop) :
  (forall st0, simP (fun st => P st /\ st = st0) (f st0) g Q') ->
  simP P (mbind mget f) g Q'.
Proof.
  intros Hf R st out len HP HR Hle. unfold mbind, mget.
  exact (Hf st R st out len (conj HP eq_refl) HR Hle).
Qed.

(* a pure check on both sides *)
Lemma simP_assert {A' B'} (P : bzst -> Prop) (c : bool) e (f : M A') (g : prog B')
      (Q' : A' -> B' -> bzst -> Prop) :
  simP P f g Q' -> simP P (if c then f else throw e) (bind (assert_p c e) (fun _ => g)) Q'.
Proof.
  intros Hf. destruct c; cbn [assert_p bind]; [exact Hf | apply simP_throw].
Qed.

(* the specification side may be replaced by a program with the same runs *)
Lemma simP_run_eq {A B} (P : bzst -> Prop) (m : M A) (q q' : prog B) (Q : A -> B -> bzst -> Prop) :
  (forall s, run q' s = run q s) -> simP P m q Q -> simP P m q' Q.
Proof.
  intros He Hm R st out len HP HR Hle. rewrite He. exact (Hm R st out len HP HR Hle).
Qed.

(* the Reader side may be replaced by a pointwise equal step *)
Lemma simP_ext {A B} (P : bzst -> Prop) (m m' : M A) (q : prog B) (Q : A -> B -> bzst -> Prop) :
  (forall st, m st = m' st) -> simP P m q Q -> simP P m' q Q.
Proof.
  intros He Hm R st out len HP HR Hle. specialize (Hm R st out len HP HR Hle).
  rewrite <- He. exact Hm.
Qed.

(* the usual step: a stage that only moves the bit reader, under a precondition that does not
   mention it; the continuation may use the value relation and a postcondition of the
   specification's stage *)
Lemma simP_bind_sim {A B A' B'} (P : bzst -> Prop) (m : M A) (q : prog B) (rel : A -> B -> Prop)
      (Qs : B -> Prop) (f : A -> M A') (g : B -> prog B') (Q' : A' -> B' -> bzst -> Prop) :
  rd_indep P -> sim data m q rel -> post Qs q ->
  (forall a b, rel a b -> Qs b -> simP P (f a) (g b) Q') ->
  simP P (mbind m f) (bind q g) Q'.
Proof.
  intros HPi Hm Hpost Hf R st out len HP HR Hle. rewrite run_bind.
  specialize (Hm R st out len HR Hle).
  destruct (run q (sat R out len)) as [b s1|e s1] eqn:Eq.
  - pose proof (Hpost _ _ _ Eq) as HQs.
    destruct Hm as [(R1 & a & p1 & -> & HR1 & Em & Hrel & HP1 & _)|(Hwt & p1 & Em)].
    + rewrite (mbind_ok m f st a _ Em).
      specialize (Hf a b Hrel HQs R1 (set_rd st p1) out len (HPi st p1 HP) HP1 ltac:(lia)).
      destruct (run (g b) (sat R1 out len)) as [b' s2|e s2].
      * destruct Hf as [(R2 & a' & st2 & -> & HR2 & Ef & HQ' & HP2)|(Hwt & st2 & Ef)].
        -- left. exists R2, a', st2. split; [reflexivity|]. split; [lia|].
           split; [exact Ef|]. split; [exact HQ' | exact HP2].
        -- right. split; [exact Hwt|]. exists st2. exact Ef.
      * exact Hf.
    + rewrite (mbind_throw m f st _ _ Em).
      pose proof (run_ilen_le (g b) s1) as Hmono.
      destruct (run (g b) s1) as [b' s2|e s2]; cbn [res_state] in Hmono.
      * right. split; [lia|]. exists (set_rd st p1). reflexivity.
      * exists (set_rd st p1). right. reflexivity.
  - destruct Hm as (p1 & Em). exists (set_rd st p1). destruct Em as [Em|Em].
    + left. apply mbind_throw. exact Em.
    + right. apply mbind_throw. exact Em.
Qed.

End SimP.
