(* Layer (f) of the refinement of bzip2.Reader (Bzip2/Impl.v) to the libbzip2 port
   (Bzip2/SpecR.v): rle1.go runLengthEncoding.Read, called with ANY sequence of buffer
   sizes, delivers the bytes of SpecR.rle1_emit (as the function [expand] of Bzip2/Rle1.v)
   in order, piece by piece; it reports rleDone exactly when all of them have been
   delivered, and "missing terminating run-length repeater" exactly when the block ends
   after four equal bytes.

   The abstraction: a Go state (buf[idx:], lastVal, lastCnt) stands for
     - [rle_pending]: lastCnt > 0: that many copies of lastVal are still owed;
     - [rle_run]:     lastCnt <= 0: the current run of equal bytes has -lastCnt bytes
   and [rle_rest] is everything the stage will still deliver together with the run state at
   the end of the block. *)
From V Require Import Base.Prelude Base.Prog Bzip2.Common Bzip2.SpecR Bzip2.Rle1 Bzip2.Impl.

Local Open Scope N_scope.

Definition rle_pending (lc : Z) : nat := if (0 <? lc)%Z then Z.to_nat lc else 0%nat.
Definition rle_run (lc : Z) : N := if (0 <? lc)%Z then 0 else Z.to_N (- lc).

Definition rle_rest (buf : list byte) (lv : byte) (lc : Z) : list byte * N :=
  let '(o, r', _) := expand buf (rle_run lc) lv in (repeat lv (rle_pending lc) ++ o, r').

Definition rle_rest_st (st : rlest) : list byte * N :=
  rle_rest (r_buf st) (r_lastVal st) (r_lastCnt st).

Definition rle_end (r' : N) : rleres := if r' =? 4 then RCorrupt else RDone.

Lemma rle_rest_nil lv lc : (-4 <= lc <= 0)%Z -> rle_rest [] lv lc = ([], Z.to_N (- lc)).
Proof.
  intros H. unfold rle_rest, rle_run, rle_pending.
  replace (0 <? lc)%Z with false by lia. reflexivity.
Qed.

Lemma rle_rest_nonpos buf lv lc o r' ls : (lc <= 0)%Z ->
  expand buf (Z.to_N (- lc)) lv = (o, r', ls) -> rle_rest buf lv lc = (o, r').
Proof.
  intros H Ex. unfold rle_rest, rle_run, rle_pending.
  replace (0 <? lc)%Z with false by lia. rewrite Ex. reflexivity.
Qed.

Lemma rle_rest_pos buf lv lc o r' ls : (0 < lc)%Z ->
  expand buf 0 lv = (o, r', ls) -> rle_rest buf lv lc = (repeat lv (Z.to_nat lc) ++ o, r').
Proof.
  intros H Ex. unfold rle_rest, rle_run, rle_pending.
  replace (0 <? lc)%Z with true by lia. rewrite Ex. reflexivity.
Qed.

(* the state after k more steps of the loop: what has been stored, how it ended, the rest *)
Lemma rle_read_spec : forall n buf lv lc acc, (-4 <= lc)%Z ->
  forall T r', rle_rest buf lv lc = (T, r') ->
  forall out e st, rle_read n buf lv lc acc = ((out, e), st) ->
  out = rev acc ++ firstn n T /\
  (-4 <= r_lastCnt st)%Z /\
  ((n <= length T)%nat -> e = RNil /\ rle_rest_st st = (skipn n T, r')) /\
  ((length T < n)%nat -> e = rle_end r' /\ rle_rest_st st = ([], r') /\ r_buf st = [] /\
                         (r_lastCnt st <= 0)%Z).
Proof.
  induction n as [|n IH]; intros buf lv lc acc Hlc T r' HT out e st Hrd.
  - cbn [rle_read] in Hrd. inversion Hrd; subst out e st; clear Hrd.
    cbn [firstn skipn r_lastCnt]. rewrite fast_rev_eq, app_nil_r.
    split; [reflexivity|]. split; [exact Hlc|]. split.
    + intros _. split; [reflexivity|]. exact HT.
    + cbn [length]. lia.
  - cbn [rle_read] in Hrd.
    destruct (lc =? -4)%Z eqn:E4.
    + (* the count byte *)
      assert (lc = (-4)%Z) by lia. subst lc.
      unfold rle_rest, rle_run, rle_pending in HT.
      change (0 <? -4)%Z with false in HT. change (Z.to_N (- -4)) with 4 in HT.
      cbn [repeat app] in HT.
      destruct buf as [|c r].
      * cbn [expand] in HT. inversion HT; subst T r'; clear HT.
        inversion Hrd; subst out e st; clear Hrd.
        cbn [firstn length r_lastCnt r_buf]. rewrite fast_rev_eq, app_nil_r.
        split; [reflexivity|]. split; [lia|]. split; [lia|].
        intros _. split; [reflexivity|]. split; [|split; [reflexivity|lia]].
        unfold rle_rest_st. cbn [r_buf r_lastVal r_lastCnt]. apply rle_rest_nil. lia.
      * cbn [expand] in HT. change (4 =? 4) with true in HT. cbv iota in HT.
        destruct (expand r 0 lv) as [[o rn] ls] eqn:Ex.
        inversion HT; subst T r'; clear HT.
        destruct (0 <? c) eqn:Ec.
        -- (* a positive count: one copy now, c - 1 owed *)
           assert (HT' : rle_rest r lv (Z.of_N c - 1) = (repeat lv (N.to_nat c - 1) ++ o, rn)).
           { destruct (0 <? Z.of_N c - 1)%Z eqn:Ec1.
             - rewrite (rle_rest_pos r lv _ o rn ls) by (try lia; exact Ex).
               f_equal. f_equal. f_equal. lia.
             - replace (N.to_nat c - 1)%nat with 0%nat by lia. cbn [repeat app].
               apply (rle_rest_nonpos r lv _ o rn ls); [lia|].
               replace (Z.to_N (- (Z.of_N c - 1))) with 0 by lia. exact Ex. }
           specialize (IH r lv (Z.of_N c - 1)%Z (lv :: acc) ltac:(lia) _ _ HT' _ _ _ Hrd).
           destruct IH as (Ho & Hl & Hle & Hgt).
           replace (N.to_nat c) with (S (N.to_nat c - 1)) by lia.
           cbn [repeat app firstn skipn length].
           split; [rewrite Ho; cbn [rev]; rewrite <- app_assoc; reflexivity|].
           split; [exact Hl|]. split.
           ++ intros Hn. apply Hle. lia.
           ++ intros Hn. apply Hgt. lia.
        -- (* count zero: the next byte starts a new run *)
           assert (c = 0) by lia. subst c. cbn [N.to_nat repeat app].
           destruct r as [|b r2].
           ++ cbn [expand] in Ex. inversion Ex; subst o rn ls; clear Ex.
              inversion Hrd; subst out e st; clear Hrd.
              cbn [firstn length r_lastCnt r_buf]. rewrite fast_rev_eq, app_nil_r.
              split; [reflexivity|]. split; [lia|]. split; [lia|].
              intros _. split; [reflexivity|]. split; [|split; [reflexivity|lia]].
              unfold rle_rest_st. cbn [r_buf r_lastVal r_lastCnt]. apply rle_rest_nil. lia.
           ++ cbn [expand] in Ex. change (0 =? 4) with false in Ex.
              change (0 <? 0) with false in Ex. cbn [andb] in Ex.
              destruct (expand r2 1 b) as [[o2 rn2] ls2] eqn:Ex2.
              inversion Ex; subst o rn ls; clear Ex.
              destruct (b =? lv) eqn:Eb.
              ** apply N.eqb_eq in Eb. subst b.
                 assert (HT' : rle_rest r2 lv (-1) = (o2, rn2)).
                 { apply (rle_rest_nonpos r2 lv _ o2 rn2 ls2); [lia | exact Ex2]. }
                 specialize (IH r2 lv (-1)%Z (lv :: acc) ltac:(lia) _ _ HT' _ _ _ Hrd).
                 destruct IH as (Ho & Hl & Hle & Hgt).
                 cbn [firstn skipn length].
                 split; [rewrite Ho; cbn [rev]; rewrite <- app_assoc; reflexivity|].
                 split; [exact Hl|]. split.
                 --- intros Hn. apply Hle. lia.
                 --- intros Hn. apply Hgt. lia.
              ** assert (HT' : rle_rest r2 b (-1) = (o2, rn2)).
                 { apply (rle_rest_nonpos r2 b _ o2 rn2 ls2); [lia | exact Ex2]. }
                 specialize (IH r2 b (-1)%Z (b :: acc) ltac:(lia) _ _ HT' _ _ _ Hrd).
                 destruct IH as (Ho & Hl & Hle & Hgt).
                 cbn [firstn skipn length].
                 split; [rewrite Ho; cbn [rev]; rewrite <- app_assoc; reflexivity|].
                 split; [exact Hl|]. split.
                 --- intros Hn. apply Hle. lia.
                 --- intros Hn. apply Hgt. lia.
    + destruct (lc <=? 0)%Z eqn:E0.
      * (* an ordinary byte *)
        assert (Hr : rle_run lc = Z.to_N (- lc)) by (unfold rle_run; replace (0 <? lc)%Z with false by lia; reflexivity).
        assert (Hp : rle_pending lc = 0%nat) by (unfold rle_pending; replace (0 <? lc)%Z with false by lia; reflexivity).
        unfold rle_rest in HT. rewrite Hr, Hp in HT. cbn [repeat app] in HT.
        destruct buf as [|b r].
        -- cbn [expand] in HT. inversion HT; subst T r'; clear HT.
           inversion Hrd; subst out e st; clear Hrd.
           cbn [firstn length r_lastCnt r_buf]. rewrite fast_rev_eq, app_nil_r.
           split; [reflexivity|]. split; [lia|]. split; [lia|].
           intros _. split; [|split; [|split; [reflexivity|lia]]].
           ++ unfold rle_end. replace (Z.to_N (- lc) =? 4) with false by lia. reflexivity.
           ++ unfold rle_rest_st. cbn [r_buf r_lastVal r_lastCnt]. apply rle_rest_nil. lia.
        -- cbn [expand] in HT. replace (Z.to_N (- lc) =? 4) with false in HT by lia.
           destruct (b =? lv) eqn:Eb.
           ++ apply N.eqb_eq in Eb. subst b.
              assert (Hex : exists o2 rn2 ls2,
                         expand r (Z.to_N (- (lc - 1))) lv = (o2, rn2, ls2) /\ T = lv :: o2 /\ r' = rn2).
              { destruct (0 <? Z.to_N (- lc)) eqn:Erun; cbn [andb] in HT.
                - replace (Z.to_N (- (lc - 1))) with (Z.to_N (- lc) + 1) by lia.
                  destruct (expand r (Z.to_N (- lc) + 1) lv) as [[o2 rn2] ls2].
                  injection HT as HT1 HT2. exists o2, rn2, ls2.
                  split; [reflexivity|]. split; congruence.
                - replace (Z.to_N (- (lc - 1))) with 1 by lia.
                  destruct (expand r 1 lv) as [[o2 rn2] ls2].
                  injection HT as HT1 HT2. exists o2, rn2, ls2.
                  split; [reflexivity|]. split; congruence. }
              destruct Hex as (o2 & rn2 & ls2 & Ex2 & -> & ->).
              assert (HT' : rle_rest r lv (lc - 1) = (o2, rn2)).
              { apply (rle_rest_nonpos r lv _ o2 rn2 ls2); [lia | exact Ex2]. }
              specialize (IH r lv (lc - 1)%Z (lv :: acc) ltac:(lia) _ _ HT' _ _ _ Hrd).
              destruct IH as (Ho & Hl & Hle & Hgt).
              cbn [firstn skipn length].
              split; [rewrite Ho; cbn [rev]; rewrite <- app_assoc; reflexivity|].
              split; [exact Hl|]. split.
              ** intros Hn. apply Hle. lia.
              ** intros Hn. apply Hgt. lia.
           ++ rewrite andb_false_r in HT.
              destruct (expand r 1 b) as [[o2 rn2] ls2] eqn:Ex2.
              inversion HT; subst T r'; clear HT.
              assert (HT' : rle_rest r b (-1) = (o2, rn2)).
              { apply (rle_rest_nonpos r b _ o2 rn2 ls2); [lia | exact Ex2]. }
              specialize (IH r b (-1)%Z (b :: acc) ltac:(lia) _ _ HT' _ _ _ Hrd).
              destruct IH as (Ho & Hl & Hle & Hgt).
              cbn [firstn skipn length].
              split; [rewrite Ho; cbn [rev]; rewrite <- app_assoc; reflexivity|].
              split; [exact Hl|]. split.
              ** intros Hn. apply Hle. lia.
              ** intros Hn. apply Hgt. lia.
      * (* an owed copy *)
        assert (Hpos : (0 < lc)%Z) by lia.
        unfold rle_rest, rle_run, rle_pending in HT. replace (0 <? lc)%Z with true in HT by lia.
        destruct (expand buf 0 lv) as [[o rn] ls] eqn:Ex.
        inversion HT; subst T r'; clear HT.
        assert (HT' : rle_rest buf lv (lc - 1) = (repeat lv (Z.to_nat lc - 1) ++ o, rn)).
        { destruct (0 <? lc - 1)%Z eqn:Ec1.
          - rewrite (rle_rest_pos buf lv _ o rn ls) by (try lia; exact Ex).
            f_equal. f_equal. f_equal. lia.
          - replace (Z.to_nat lc - 1)%nat with 0%nat by lia. cbn [repeat app].
            apply (rle_rest_nonpos buf lv _ o rn ls); [lia|].
            replace (Z.to_N (- (lc - 1))) with 0 by lia. exact Ex. }
        specialize (IH buf lv (lc - 1)%Z (lv :: acc) ltac:(lia) _ _ HT' _ _ _ Hrd).
        destruct IH as (Ho & Hl & Hle & Hgt).
        replace (Z.to_nat lc) with (S (Z.to_nat lc - 1)) by lia.
        cbn [repeat app firstn skipn length].
        split; [rewrite Ho; cbn [rev]; rewrite <- app_assoc; reflexivity|].
        split; [exact Hl|]. split.
        -- intros Hn. apply Hle. lia.
        -- intros Hn. apply Hgt. lia.
Qed.

(* ---- a fresh stage: rle.Init(block) ------------------------------------------------------ *)
Definition block_out (block : list byte) : list byte := fst (fst (expand block 0 0)).
Definition block_run (block : list byte) : N := snd (fst (expand block 0 0)).

Lemma rle_rest_init block : rle_rest_st (rle_init block) = (block_out block, block_run block).
Proof.
  unfold rle_rest_st, rle_init, rle_rest, rle_run, rle_pending, block_out, block_run.
  cbn [r_buf r_lastVal r_lastCnt]. change (0 <? 0)%Z with false. change (Z.to_N (- 0)) with 0.
  destruct (expand block 0 0) as [[o r'] ls]. reflexivity.
Qed.

(* one call of rle.Read on a stage that stands for (T, r'), -4 <= lastCnt *)
Theorem rle_read_call st n T r' :
  (-4 <= r_lastCnt st)%Z -> rle_rest_st st = (T, r') ->
  exists e st', rle_read n (r_buf st) (r_lastVal st) (r_lastCnt st) [] = ((firstn n T, e), st') /\
    (-4 <= r_lastCnt st')%Z /\
    rle_rest_st st' = (skipn n T, r') /\
    ((n <= length T)%nat -> e = RNil) /\
    ((length T < n)%nat -> e = rle_end r' /\ r_buf st' = [] /\ (r_lastCnt st' <= 0)%Z).
Proof.
  intros Hlc HT.
  destruct (rle_read n (r_buf st) (r_lastVal st) (r_lastCnt st) []) as [[out e] st'] eqn:Hrd.
  destruct (rle_read_spec n _ _ _ [] Hlc T r' HT out e st' Hrd) as (Ho & Hl & Hle & Hgt).
  cbn [rev app] in Ho. subst out. exists e, st'. split; [reflexivity|]. split; [exact Hl|].
  destruct (Nat.le_gt_cases n (length T)) as [Hn|Hn].
  - destruct (Hle Hn) as (He & Hr). split; [exact Hr|]. split; [intros _; exact He | lia].
  - destruct (Hgt Hn) as (He & Hr & Hb & Hc). split.
    + rewrite Hr. rewrite skipn_all2 by lia. reflexivity.
    + split; [lia|]. intros _. split; [exact He|]. split; [exact Hb | exact Hc].
Qed.

(* RESUMABILITY: splitting a request in two gives the same bytes, the same outcome and the
   same state as the single request, whenever the first part ends normally *)
Theorem rle_read_split n1 n2 st :
  (-4 <= r_lastCnt st)%Z ->
  forall o1 st1, rle_read n1 (r_buf st) (r_lastVal st) (r_lastCnt st) [] = ((o1, RNil), st1) ->
  forall o2 e2 st2, rle_read n2 (r_buf st1) (r_lastVal st1) (r_lastCnt st1) [] = ((o2, e2), st2) ->
  (length o1 = n1) ->
  exists st2', rle_read (n1 + n2) (r_buf st) (r_lastVal st) (r_lastCnt st) [] = ((o1 ++ o2, e2), st2') /\
               rle_rest_st st2' = rle_rest_st st2.
Proof.
  intros Hlc o1 st1 H1 o2 e2 st2 H2 Hlen.
  destruct (rle_rest_st st) as [T r'] eqn:HT.
  destruct (rle_read_call st n1 T r' Hlc HT) as (e1 & st1' & E1 & Hl1 & Hr1 & Hle1 & Hgt1).
  rewrite E1 in H1. inversion H1; subst o1 e1 st1'; clear H1.
  assert (Hn1 : (n1 <= length T)%nat).
  { rewrite firstn_length in Hlen. lia. }
  destruct (rle_read_call st1 n2 (skipn n1 T) r' Hl1 Hr1) as (e2' & st2' & E2 & Hl2 & Hr2 & Hle2 & Hgt2).
  rewrite E2 in H2. inversion H2; subst o2 e2' st2'; clear H2.
  destruct (rle_read_call st (n1 + n2) T r' Hlc HT) as (e3 & st3 & E3 & Hl3 & Hr3 & Hle3 & Hgt3).
  exists st3. split.
  - rewrite E3. rewrite firstn_plus. f_equal. f_equal.
    rewrite skipn_length in Hle2, Hgt2.
    destruct (Nat.le_gt_cases n2 (length T - n1)) as [Hn|Hn].
    + rewrite (Hle2 Hn). apply Hle3. lia.
    + destruct (Hgt2 Hn) as (-> & _). apply Hgt3. lia.
  - rewrite Hr3, Hr2. rewrite skipn_skipn'. reflexivity.
Qed.

(* ---- a whole block read with any schedule ------------------------------------------------- *)
(* the calls of a schedule up to the first one that does not end with nil *)
Fixpoint rle_calls (st : rlest) (sched : list nat) : list (list byte) * rleres * rlest :=
  match sched with
  | [] => ([], RNil, st)
  | n :: r =>
    let '((o, e), st') := rle_read n (r_buf st) (r_lastVal st) (r_lastCnt st) [] in
    match e with
    | RNil => let '(os, e', st'') := rle_calls st' r in (o :: os, e', st'')
    | _ => ([o], e, st')
    end
  end.

Theorem rle_calls_spec : forall sched st T r',
  (-4 <= r_lastCnt st)%Z -> rle_rest_st st = (T, r') ->
  let '(os, e, st') := rle_calls st sched in
  concat os = firstn (fold_right Nat.add 0%nat sched) T /\
  (e = RNil \/ (e = rle_end r' /\ concat os = T)).
Proof.
  induction sched as [|n sched IH]; intros st T r' Hlc HT.
  - cbn [rle_calls concat fold_right firstn]. split; [reflexivity | left; reflexivity].
  - cbn [rle_calls fold_right].
    destruct (rle_read_call st n T r' Hlc HT) as (e & st1 & E & Hl & Hr & Hle & Hgt).
    rewrite E.
    destruct (Nat.le_gt_cases n (length T)) as [Hn|Hn].
    + rewrite (Hle Hn). specialize (IH st1 (skipn n T) r' Hl Hr).
      destruct (rle_calls st1 sched) as [[os e'] st''].
      destruct IH as (Hc & He). cbn [concat]. rewrite Hc. split.
      * rewrite firstn_plus. reflexivity.
      * destruct He as [He|[He Hall]]; [left; exact He|right].
        split; [exact He|]. rewrite <- Hc, Hall. apply firstn_skipn.
    + destruct (Hgt Hn) as (He & _). rewrite He.
      assert (Hf : firstn n T = T) by (apply firstn_all2; lia).
      unfold rle_end. destruct (r' =? 4); cbn [concat]; rewrite app_nil_r, Hf;
        (split; [symmetry; apply firstn_all2; lia | right; split; reflexivity]).
Qed.

(* the link with the libbzip2 port: the bytes of a block and its verdict are those of
   SpecR.rle1_emit (Bzip2/Rle1.v run_rle1_emit) *)
Theorem rle_block_spec block crc s :
  run (rle1_emit block 0 0 crc) s =
  if block_run block =? 4 then Fail ECorrupted (push_out s (block_out block))
  else Done (fold_left crc_step (block_out block) crc) (push_out s (block_out block)).
Proof.
  rewrite run_rle1_emit. unfold block_out, block_run.
  destruct (expand block 0 0) as [[o r'] ls]. reflexivity.
Qed.

(* non-vacuity: "xyzaaaa" + count 2 + "b", read 3 + 5 + 4 bytes *)
Example rle_calls_example :
  rle_calls (rle_init [120; 121; 122; 97; 97; 97; 97; 2; 98]) [3; 5; 4]%nat =
  ([[120; 121; 122]; [97; 97; 97; 97; 97]; [97; 98]], RDone, mkRle [] 98 (-1)%Z).
Proof. vm_compute. reflexivity. Qed.

Example rle_missing_count_example :
  rle_calls (rle_init [97; 97; 97; 97]) [3; 5]%nat = ([[97; 97; 97]; [97]], RCorrupt, mkRle [] 97 (-4)%Z).
Proof. vm_compute. reflexivity. Qed.
