(* Generic machinery for the refinement of bzip2.Reader (Bzip2/Impl.v) to the libbzip2 port:

   - [stepsM]: the Go-side loops ([iterM]/[loopM], budget 2^d) as "at most n iterations";
     a loop that reaches its result within n <= 2^d iterations is computed by [loopM d];
   - [sim]: what it means for a step of the Reader (a computation in the state + exception
     monad [M]) to refine a READ-ONLY piece of the specification (a [prog] that only consumes
     input bits), with the composition rule for [bind];
   - the two ways in which a ByteReader source may answer differently from the
     specification near the end of the input ([weak]): see the comment at [sim]. *)
From V Require Import Base.Prelude Base.Prog Base.ProgThms Base.FuelThms Bzip2.Common Bzip2.SpecR Bzip2.BitIO
  Prefix.Code Prefix.ReaderImpl Prefix.ReaderSpec Prefix.ReaderThms Prefix.DecTable
  Prefix.DecReadThms Bzip2.Safe Bzip2.Impl Bzip2.ImplBits.

Local Open Scope N_scope.
Local Open Scope bz_scope.

(* ---- Go-side loops ------------------------------------------------------------------------- *)
Fixpoint stepsM {S R} (n : nat) (body : S -> M (S + R)) (s : S) : M (S + R) :=
  match n with
  | O => ret (inl s)
  | Datatypes.S n' =>
    r <- body s ;;
    match r with
    | inl s' => stepsM n' body s'
    | inr x => ret (inr x)
    end
  end.

(* a final answer: a result of the loop or a throw *)
Definition finalM {S R} (r : res (S + R) * bzst) : Prop :=
  match fst r with ROk (inl _) => False | _ => True end.

Lemma stepsM_add {S R} (body : S -> M (S + R)) a : forall b s st,
  stepsM (a + b) body s st =
  match stepsM a body s st with
  | (ROk (inl s'), st') => stepsM b body s' st'
  | r => r
  end.
Proof.
  induction a as [|a IH]; intros b s st; [reflexivity|].
  cbn [Nat.add stepsM]. unfold mbind. destruct (body s st) as [[[s1|x]|e] st1]; try reflexivity.
  apply IH.
Qed.

Lemma iterM_steps {S R} (body : S -> M (S + R)) d : forall s st,
  iterM d body s st = stepsM (2 ^ d) body s st.
Proof.
  induction d as [|d IH]; intros s st.
  - cbn [iterM Nat.pow stepsM]. unfold mbind, ret.
    destruct (body s st) as [[[s1|x]|e] st1]; reflexivity.
  - cbn [iterM]. replace (2 ^ Datatypes.S d)%nat with (2 ^ d + 2 ^ d)%nat by (cbn [Nat.pow]; lia).
    rewrite stepsM_add. unfold mbind. rewrite IH.
    destruct (stepsM (2 ^ d) body s st) as [[[s1|x]|e] st1]; try reflexivity.
    apply IH.
Qed.

Lemma stepsM_final_mono {S R} (body : S -> M (S + R)) n m s st :
  (n <= m)%nat -> finalM (stepsM n body s st) -> stepsM m body s st = stepsM n body s st.
Proof.
  intros Hle Hf. replace m with (n + (m - n))%nat by lia. rewrite stepsM_add.
  destruct (stepsM n body s st) as [[[s1|x]|e] st1]; try reflexivity.
  destruct Hf.
Qed.

(* [loopM d] computes every loop that ends within 2^d iterations *)
Lemma loopM_steps {S R} (body : S -> M (S + R)) d n s st :
  (n <= 2 ^ d)%nat -> finalM (stepsM n body s st) ->
  loopM d body s st =
  match stepsM n body s st with
  | (ROk (inr x), st') => (ROk x, st')
  | (ROk (inl _), st') => (RThrow EFuel, st')
  | (RThrow e, st') => (RThrow e, st')
  end.
Proof.
  intros Hle Hf. unfold loopM, mbind. rewrite iterM_steps.
  rewrite (stepsM_final_mono body n (2 ^ d) s st Hle Hf).
  destruct (stepsM n body s st) as [[[s1|x]|e] st1]; reflexivity.
Qed.

Lemma stepsM_S {S R} (body : S -> M (S + R)) n s st :
  stepsM (Datatypes.S n) body s st =
  match body s st with
  | (ROk (inl s'), st') => stepsM n body s' st'
  | (ROk (inr x), st') => (ROk (inr x), st')
  | (RThrow e, st') => (RThrow e, st')
  end.
Proof.
  cbn [stepsM]. unfold mbind, ret. destruct (body s st) as [[[s1|x]|e] st1]; reflexivity.
Qed.

(* 2^(depth_of st) exceeds the number of input bits *)
Lemma depth_of_enough st :
  (8 * length (s_data (p_src (z_rd st))) + 64 < 2 ^ depth_of st)%nat.
Proof.
  unfold depth_of. rewrite len_n_eq. set (n := length (s_data (p_src (z_rd st)))).
  set (x := 8 * N.of_nat n + 64).
  assert (Hx : 0 < x) by (unfold x; lia).
  pose proof (N.log2_spec x Hx) as [_ H2].
  rewrite <- N2Nat.inj_succ.
  replace (2 ^ N.to_nat (N.succ (N.log2 x)))%nat with (N.to_nat (2 ^ N.succ (N.log2 x))).
  - set (p := 2 ^ N.succ (N.log2 x)) in *. unfold x in H2. lia.
  - rewrite N2Nat.inj_pow. reflexivity.
Qed.

(* ---- the monad laws we use, pointwise -------------------------------------------------------- *)
Lemma mbind_ok {A B} (m : M A) (f : A -> M B) st a st' :
  m st = (ROk a, st') -> mbind m f st = f a st'.
Proof. intros H. unfold mbind. rewrite H. reflexivity. Qed.

Lemma mbind_throw {A B} (m : M A) (f : A -> M B) st e st' :
  m st = (RThrow e, st') -> mbind m f st = (RThrow e, st').
Proof. intros H. unfold mbind. rewrite H. reflexivity. Qed.

Lemma set_rd_set_rd st p q : set_rd (set_rd st p) q = set_rd st q.
Proof. reflexivity. Qed.

Lemma set_rd_id st : set_rd st (z_rd st) = st.
Proof. destruct st; reflexivity. Qed.

Lemma z_rd_set_rd st p : z_rd (set_rd st p) = p.
Proof. reflexivity. Qed.

Section Sim.
Variable data : list byte.
Hypothesis Hd : forall b, In b data -> b < 256.

Notation bits := (stream_bits true data).
Notation PI := (PI true data).
Notation total := (8 * length data)%nat.
Notation sat := (sat data).
Notation Rep := (Rep data).

(* [sim m q rel]: the Reader step [m] refines the read-only specification program [q].
   Started in a Reader state whose bit reader stands at bit R, against the specification
   state at bit R:
   - if the specification delivers b at bit R', the step delivers a related value and leaves
     the bit reader at R', touching nothing else of the Reader;
   - if the specification fails with e, the step throws e;
   - EXCEPT near the end of the input: the step may throw io.ErrUnexpectedEOF although the
     specification goes on or fails differently (ReadSymbol asks its source for more bits
     than the code word it will decode, Prefix/DecReadThms.v witness_over_request: on a
     ByteReader, and on a BufferedReader that hands out its data in small pieces); then fewer
     than 20 bits are left where the specification stands when it delivers. *)
Definition sim {A B} (m : M A) (q : prog B) (rel : A -> B -> Prop) : Prop :=
  forall R st out len, Rep R st -> (R <= total)%nat ->
    match run q (sat R out len) with
    | Done b s' =>
      (exists R' a p', s' = sat R' out len /\ (R <= R' <= total)%nat /\
                       m st = (ROk a, set_rd st p') /\ rel a b /\ PI R' p' /\
                       p_buffered p' = p_buffered (z_rd st))
      \/ ((ilen s' < 20)%nat /\ exists p', m st = (RThrow EUEOF, set_rd st p'))
    | Fail e s' =>
      exists p', m st = (RThrow e, set_rd st p') \/ m st = (RThrow EUEOF, set_rd st p')
    end.

Lemma sim_ret {A B} (a : A) (b : B) (rel : A -> B -> Prop) : rel a b -> sim (ret a) (Ret b) rel.
Proof.
  intros Hr R st out len HP HR. cbn [run]. left. exists R, a, (z_rd st).
  rewrite set_rd_id. split; [reflexivity|]. split; [lia|]. split; [reflexivity|].
  split; [exact Hr|]. split; [exact HP | reflexivity].
Qed.

Lemma sim_throw {A B} e (rel : A -> B -> Prop) : sim (@throw A e) (@Throw B e) rel.
Proof.
  intros R st out len HP HR. cbn [run]. exists (z_rd st). left. rewrite set_rd_id. reflexivity.
Qed.

Lemma sim_bind {A B A' B'} (m : M A) (q : prog B) (rel : A -> B -> Prop)
      (f : A -> M A') (g : B -> prog B') (rel' : A' -> B' -> Prop) :
  sim m q rel -> (forall a b, rel a b -> sim (f a) (g b) rel') ->
  sim (mbind m f) (bind q g) rel'.
Proof.
  intros Hm Hf R st out len HP HR. rewrite run_bind.
  specialize (Hm R st out len HP HR).
  destruct (run q (sat R out len)) as [b s1|e s1].
  - destruct Hm as [(R1 & a & p1 & -> & HR1 & Em & Hrel & HP1 & Hb1)|(Hwt & p1 & Em)].
    + rewrite (mbind_ok m f st a _ Em).
      specialize (Hf a b Hrel R1 (set_rd st p1) out len HP1 ltac:(lia)).
      destruct (run (g b) (sat R1 out len)) as [b' s2|e s2].
      * destruct Hf as [(R2 & a' & p2 & -> & HR2 & Ef & Hrel' & HP2 & Hb2)|(Hwt & p2 & Ef)].
        -- left. exists R2, a', p2. split; [reflexivity|]. split; [lia|].
           rewrite set_rd_set_rd in Ef. split; [exact Ef|]. split; [exact Hrel'|].
           split; [exact HP2|]. rewrite z_rd_set_rd in Hb2. congruence.
        -- right. split; [exact Hwt|].
           exists p2. rewrite set_rd_set_rd in Ef. exact Ef.
      * destruct Hf as (p2 & Ef). exists p2. rewrite !set_rd_set_rd in Ef. exact Ef.
    + (* the step has already thrown UEOF on a ByteReader near the end *)
      rewrite (mbind_throw m f st _ _ Em).
      pose proof (run_ilen_le (g b) s1) as Hmono.
      destruct (run (g b) s1) as [b' s2|e s2]; cbn [res_state] in Hmono.
      * right. split; [lia|]. exists p1. reflexivity.
      * exists p1. right. reflexivity.
  - destruct Hm as (p1 & Em). exists p1. destruct Em as [Em|Em].
    + left. apply mbind_throw. exact Em.
    + right. apply mbind_throw. exact Em.
Qed.

(* a step that refines [q] exactly also refines it in the presence of a value relation
   that is implied *)
Lemma sim_weaken {A B} (m : M A) (q : prog B) (rel rel' : A -> B -> Prop) :
  sim m q rel -> (forall a b, rel a b -> rel' a b) -> sim m q rel'.
Proof.
  intros Hm Hr R st out len HP HR. specialize (Hm R st out len HP HR).
  destruct (run q (sat R out len)) as [b s1|e s1]; [|exact Hm].
  destruct Hm as [(R1 & a & p1 & H1 & H2 & H3 & H4 & H5)|Hw]; [left|right; exact Hw].
  exists R1, a, p1. split; [exact H1|]. split; [exact H2|]. split; [exact H3|].
  split; [apply Hr; exact H4 | exact H5].
Qed.

(* pure checks between reads *)
Lemma sim_assert {A' B'} (c : bool) e (f : M A') (g : prog B') (rel' : A' -> B' -> Prop) :
  sim f g rel' -> sim (if c then f else throw e) (bind (assert_p c e) (fun _ => g)) rel'.
Proof.
  intros Hf. destruct c; cbn [assert_p bind]; [exact Hf | apply sim_throw].
Qed.

(* ---- the bit fields as steps ---------------------------------------------------------------- *)
(* ReadBits(nb): the Go value has the first bit read in bit 0, the specification's [rbits] value
   has it on top; both are values of the same bit list *)
Definition same_field (n : nat) (a b : N) : Prop :=
  exists l : list bool, length l = n /\ a = bits_val l /\ b = mval l.

Lemma sim_read_bits nb : nb <= 57 ->
  sim (m_read_bits nb) (rbits (N.to_nat nb)) (same_field (N.to_nat nb)).
Proof.
  intros Hnb R st out len HP HR.
  pose proof (run_rbits_at data Hd R (N.to_nat nb) out len HR) as Hs.
  pose proof (m_read_bits_sim data Hd R st nb HP Hnb) as Hg.
  destruct (R + N.to_nat nb <=? total)%nat eqn:E.
  - rewrite Hs. destruct Hg as (p' & Eg & HP' & Hb). left.
    exists (R + N.to_nat nb)%nat, (bits_val (field data R (N.to_nat nb))), p'.
    apply Nat.leb_le in E. split; [reflexivity|]. split; [lia|]. split; [exact Eg|].
    split; [|split; assumption].
    exists (field data R (N.to_nat nb)). split; [apply field_length; exact E|]. split; reflexivity.
  - destruct Hs as (s' & Es & _). rewrite Es. destruct Hg as (p' & Eg). exists p'. left. exact Eg.
Qed.

Lemma sim_bits_fast nb : nb <= 57 ->
  sim (m_bits_fast nb) (rbits (N.to_nat nb)) (same_field (N.to_nat nb)).
Proof.
  intros Hnb R st out len HP HR.
  pose proof (run_rbits_at data Hd R (N.to_nat nb) out len HR) as Hs.
  pose proof (m_bits_fast_sim data Hd R st nb HP Hnb) as Hg.
  destruct (R + N.to_nat nb <=? total)%nat eqn:E.
  - rewrite Hs. destruct Hg as (p' & Eg & HP' & Hb). left.
    exists (R + N.to_nat nb)%nat, (bits_val (field data R (N.to_nat nb))), p'.
    apply Nat.leb_le in E. split; [reflexivity|]. split; [lia|]. split; [exact Eg|].
    split; [|split; assumption].
    exists (field data R (N.to_nat nb)). split; [apply field_length; exact E|]. split; reflexivity.
  - destruct Hs as (s' & Es & _). rewrite Es. destruct Hg as (p' & Eg). exists p'. left. exact Eg.
Qed.

(* one bit: both values are the bit itself *)
Lemma same_field_1 a b : same_field 1 a b -> a = b /\ (a = 0 \/ a = 1).
Proof.
  intros (l & Hl & -> & ->). destruct l as [|x [|y l]]; try discriminate.
  destruct x; cbn; split; auto.
Qed.

(* ReadBitsBE64(nb), nb <= 32 *)
Lemma sim_read_be64 nb : nb <= 32 -> sim (m_read_be64 nb) (rbits (N.to_nat nb)) eq.
Proof.
  intros Hnb R st out len HP HR.
  pose proof (run_rbits_at data Hd R (N.to_nat nb) out len HR) as Hs.
  pose proof (m_read_be64_small data Hd R st nb HP Hnb) as Hg.
  destruct (R + N.to_nat nb <=? total)%nat eqn:E.
  - rewrite Hs. destruct Hg as (p' & Eg & HP' & Hb). left.
    exists (R + N.to_nat nb)%nat, (mval (field data R (N.to_nat nb))), p'.
    apply Nat.leb_le in E. split; [reflexivity|]. split; [lia|]. split; [exact Eg|].
    split; [reflexivity|]. split; assumption.
  - destruct Hs as (s' & Es & _). rewrite Es. destruct Hg as (p' & Eg). exists p'. left. exact Eg.
Qed.

(* ReadBitsBE64(48) *)
Lemma sim_read_be64_48 : sim (m_read_be64 48) (rbits 48) eq.
Proof.
  intros R st out len HP HR.
  pose proof (run_rbits_at data Hd R 48 out len HR) as Hs.
  pose proof (m_read_be64_48 data Hd R st HP) as Hg.
  destruct (R + 48 <=? total)%nat eqn:E.
  - rewrite Hs. destruct Hg as (p' & Eg & HP' & Hb). left.
    exists (R + 48)%nat, (mval (field data R 48)), p'.
    apply Nat.leb_le in E. split; [reflexivity|]. split; [lia|]. split; [exact Eg|].
    split; [reflexivity|]. split; assumption.
  - destruct Hs as (s' & Es & _). rewrite Es. destruct Hg as (e & p' & Eg & _). exists p'. left. exact Eg.
Qed.

End Sim.
