(* Extraction of the bzip2 models for /verif/ocaml/bzip2_driver.ml.
   Not part of the proof build; run in a scratch directory:
     coqc -Q /verif/coq V /verif/coq/Bzip2/ExtractBz.v     (writes bzmodel.ml/.mli in the cwd)
     ocamlfind ocamlopt -w -a bzmodel.mli bzmodel.ml /verif/ocaml/bzip2_driver.ml -o bzdriver
   Besides the two top-level functions the stages are extracted so that the
   harness can compare them one by one with the Go code. *)
From Coq Require Import ExtrOcamlBasic.
From V Require Import Base.Prelude Base.Prog Bzip2.Common Bzip2.SpecR Bzip2.SpecW.
Extraction Language OCaml.
Extraction "bzmodel.ml"
  bzip2_decode bzip2_encode
  bz_crc rle1_fill bwt_encode mtf_rle2_encode lengths_of_counts canonical_codes
  mk_table read_symbol bwt_decode mtf_rle2_decode rle1_emit
  run ast_init res_err res_out res_pos crc_init crc_final nm_get.
