(* C04, stage 6: the whole stream.  bzip2.Writer is lossless: for EVERY input and every
   level 1..9 the decoder model (SpecR.bzip2_decode, a port of libbzip2) accepts what the
   encoder model (SpecW.bzip2_encode, byte-exact with bzip2.Writer) writes, returns the
   input and consumes every byte; the concatenation of several encodings decodes to the
   concatenation of the inputs (multi-stream).  No size bound is needed. *)
From Coq Require Import FMapPositive.
From V Require Import Base.Prelude Base.Prog Base.ProgThms Base.FuelThms Base.DepthThms
                      Bzip2.Common Bzip2.SpecR Bzip2.SpecW Bzip2.SortLemmas Bzip2.MtfRle2 Bzip2.Rle1
                      Bzip2.Safe Bzip2.BitIO Bzip2.StreamBits Bzip2.BlockRoundTrip.
Local Open Scope N_scope.

(* ---- stage 1 stores bytes ------------------------------------------------------------------- *)
Lemma rle1_fill_bytes_ok L : forall data buf idx lastVal lastCnt crc block crc' rest,
  bytes_ok data -> bytes_ok buf -> lastCnt <= 255 ->
  (4 <= lastCnt -> exists buf', buf = (lastCnt - 4) :: buf') ->
  rle1_fill L data buf idx lastVal lastCnt crc = (block, crc', rest) -> bytes_ok block.
Proof.
  induction data as [|b data IH]; intros buf idx lastVal lastCnt crc block crc' rest Hd Hb Hc Hh Hf;
    cbn [rle1_fill] in Hf.
  - inversion Hf; subst. rewrite fast_rev_eq. apply Forall_rev. exact Hb.
  - inversion Hd as [|? ? Hb0 Hd']; subst. unfold byte_ok in Hb0.
    assert (Hstop : (fast_rev buf, crc, b :: data) = (block, crc', rest) -> bytes_ok block).
    { intros E. inversion E; subst. rewrite fast_rev_eq. apply Forall_rev. exact Hb. }
    remember ((if lastVal =? b then lastCnt else 0) + 1) as cnt eqn:Ecnt.
    destruct (cnt <? 4) eqn:E4.
    + apply N.ltb_lt in E4. destruct (L <=? idx); [apply Hstop; exact Hf|].
      eapply IH; [exact Hd' | | | | exact Hf].
      * constructor; [exact Hb0 | exact Hb].
      * lia.
      * intros C. lia.
    + apply N.ltb_ge in E4. destruct (cnt =? 4) eqn:E44.
      * apply N.eqb_eq in E44. destruct (L <=? idx + 1); [apply Hstop; exact Hf|].
        eapply IH; [exact Hd' | | | | exact Hf].
        -- constructor; [unfold byte_ok; lia|]. constructor; [exact Hb0 | exact Hb].
        -- lia.
        -- intros _. exists (b :: buf). f_equal. lia.
      * apply N.eqb_neq in E44. destruct (cnt <? 256) eqn:E256.
        -- apply N.ltb_lt in E256.
           assert (Hl4 : 4 <= lastCnt /\ cnt = lastCnt + 1) by (destruct (lastVal =? b); lia).
           destruct Hl4 as [Hl4 Ec]. destruct (Hh Hl4) as [buf' ->]. cbn [bump_head] in Hf.
           inversion Hb as [|? ? Hc0 Hb']; subst.
           eapply IH; [exact Hd' | | | | exact Hf].
           ++ constructor; [unfold byte_ok in *; lia | exact Hb'].
           ++ lia.
           ++ intros _. exists buf'. f_equal. lia.
        -- destruct (L <=? idx); [apply Hstop; exact Hf|].
           eapply IH; [exact Hd' | | | | exact Hf].
           ++ constructor; [exact Hb0 | exact Hb].
           ++ lia.
           ++ intros C. lia.
Qed.

(* every block of the Writer's block loop is non-empty and made of bytes *)
Lemma rle1_blocks_good L : 1 <= L -> forall fuel data,
  (length data < fuel)%nat -> bytes_ok data ->
  Forall (fun bc => fst bc <> [] /\ bytes_ok (fst bc)) (rle1_blocks fuel L data).
Proof.
  intros HL. induction fuel as [|f IH]; intros data Hlen Hd; [lia|].
  cbn [rle1_blocks]. destruct data as [|b data]; [constructor|].
  destruct (rle1_fill L (b :: data) [] 0 0 0 crc_init) as [[block crc] rest] eqn:Hf.
  destruct (rle1_block_roundtrip L (b :: data) block crc rest HL Hf) as (cons & G1 & G2 & _ & _ & G5).
  assert (Hne : cons <> []) by (apply G2; discriminate).
  constructor.
  - cbn [fst]. split.
    + intros E. subst block. specialize (G5 (ast_init [])). cbn [rle1_emit N.eqb run] in G5.
      inversion G5 as [[E1 E2]]. unfold push_out, ast_init in E2. cbn [a_in a_pos a_out a_len] in E2.
      apply (f_equal (@length byte)) in E2. rewrite app_length, rev_length in E2.
      destruct cons; [contradiction|]. cbn [length] in E2. lia.
    + apply (rle1_fill_bytes_ok L (b :: data) [] 0 0 0 crc_init block crc rest Hd); [constructor | lia | lia | exact Hf].
  - apply IH.
    + apply (f_equal (@length byte)) in G1. rewrite app_length in G1.
      destruct cons; [contradiction|]. cbn [length] in *. lia.
    + unfold bytes_ok in *. rewrite G1 in Hd. apply Forall_app in Hd. apply Hd.
Qed.

(* ---- the bits of a stream ------------------------------------------------------------------------ *)
Definition blocks_bits (blocks : list (list byte * N)) : list bool :=
  flat_map (fun bc => mbits 48 blkMagic ++ block_bits (fst bc) (crc_final (snd bc))) blocks.

Definition blocks_crc (blocks : list (list byte * N)) (combined : N) : N :=
  fold_left (fun c bc => crc_combine c (crc_final (snd bc))) blocks combined.

Definition footer_bits (combined : N) : list bool := mbits 48 endMagic ++ mbits 32 combined.

Lemma blocks_fold_eq blocks : forall combined acc,
  fold_left (fun (st : N * list bool) (bc : list byte * N) =>
               (crc_combine (fst st) (crc_final (snd bc)),
                encode_block (fst bc) (crc_final (snd bc)) (snd st)))
            blocks (combined, acc) =
  (blocks_crc blocks combined, rev (blocks_bits blocks) ++ acc).
Proof.
  induction blocks as [|bc blocks IH]; intros combined acc; cbn [fold_left blocks_bits flat_map]; [reflexivity|].
  cbn [fst snd]. rewrite IH, encode_block_eq. unfold blocks_crc, blocks_bits. cbn [fold_left].
  f_equal. symmetry. rewrite rev_app_distr, <- app_assoc. reflexivity.
Qed.

Definition stream_blocks (level : N) (data : list byte) : list (list byte * N) :=
  rle1_blocks (S (length data)) (level * blockSize) data.

Definition stream_bits (level : N) (data : list byte) : list bool :=
  mbits 16 hdrMagic ++ mbits 8 104 ++ mbits 8 (48 + level) ++
  blocks_bits (stream_blocks level data) ++ footer_bits (blocks_crc (stream_blocks level data) 0).

Definition stream_pad (level : N) (data : list byte) : nat :=
  N.to_nat (pad_count (N.of_nat (length (stream_bits level data)))).

(* S4a at the stream level: the bytes of the encoding are these bits, padded with zeros *)
Theorem bzip2_encode_bits level data :
  bits_of_bytes_msb (bzip2_encode level data) =
  stream_bits level data ++ repeat false (stream_pad level data).
Proof.
  unfold bzip2_encode. rewrite encode_blocks_fold, nat_of_nat, len_n_length, Nat2N.id.
  fold (stream_blocks level data). rewrite blocks_fold_eq.
  rewrite !wbits_eq, fast_rev_eq.
  match goal with |- context[pack_msb _ ?b []] =>
    assert (Eb : b = stream_bits level data) end.
  { unfold stream_bits, footer_bits. rewrite app_nil_r, !rev_app_distr, !rev_involutive, <- !app_assoc.
    reflexivity. }
  rewrite Eb. apply pack_msb_bits.
  unfold stream_bits. rewrite !app_length, !mbits_length. lia.
Qed.

Lemma blocks_crc_lt blocks : forall combined, combined < 2 ^ 32 ->
  Forall (fun bc : list byte * N => snd bc < 2 ^ 32) blocks -> blocks_crc blocks combined < 2 ^ 32.
Proof.
  induction blocks as [|bc blocks IH]; intros combined Hc Hb; [exact Hc|].
  inversion Hb as [|? ? H1 H2]; subst. unfold blocks_crc. cbn [fold_left]. apply IH; [|exact H2].
  apply crc_combine_lt; [exact Hc | apply crc_final_lt; exact H1].
Qed.

(* ---- the decoder's block loop ---------------------------------------------------------------------- *)
Definition block_good (level : N) (bc : list byte * N) : Prop :=
  fst bc <> [] /\ bytes_ok (fst bc) /\ N.of_nat (length (fst bc)) <= level * blockSize /\
  snd (fst (expand (fst bc) 0 0)) <> 4 /\
  snd bc = fold_left crc_step (expand_out (fst bc)) crc_init.

Lemma block_good_emit level bc : block_good level bc ->
  forall s, run (rle1_emit (fst bc) 0 0 crc_init) s = Done (snd bc) (push_out s (expand_out (fst bc))).
Proof.
  intros (_ & _ & _ & H4 & H5) s. rewrite run_rle1_emit. unfold expand_out in *.
  destruct (expand (fst bc) 0 0) as [[o r'] ls]. cbn [fst snd] in *.
  replace (r' =? 4) with false by (symmetry; apply N.eqb_neq; exact H4). rewrite H5. reflexivity.
Qed.

Lemma magic_end_not_blk : (endMagic =? blkMagic) = false.
Proof. reflexivity. Qed.

Lemma run_align_pad {A} (k : N -> prog A) padn rest pos out len :
  padn = N.to_nat (pad_count pos) ->
  run (AlignP k) (mkAst (repeat false padn ++ rest) pos out len) =
  run (k (bits_val (repeat false padn))) (mkAst rest (pos + N.of_nat padn) out len).
Proof.
  intros E. cbn [run a_in a_pos a_out a_len]. rewrite <- E.
  replace (Nat.leb padn (length (repeat false padn ++ rest))) with true
    by (symmetry; apply Nat.leb_le; rewrite app_length, repeat_length; lia).
  rewrite firstn_app, skipn_app, repeat_length, Nat.sub_diag. cbn [firstn skipn].
  rewrite firstn_all2, skipn_all2 by (rewrite repeat_length; lia).
  rewrite app_nil_r. reflexivity.
Qed.

Definition blocks_out (blocks : list (list byte * N)) : list byte :=
  concat (map (fun bc => expand_out (fst bc)) blocks).

Lemma footer_bits_length c : length (footer_bits c) = 80%nat.
Proof. unfold footer_bits. rewrite app_length, !mbits_length. reflexivity. Qed.

Lemma blocks_bits_cons_length bc blocks :
  length (blocks_bits (bc :: blocks)) =
  (48 + length (block_bits (fst bc) (crc_final (snd bc))) + length (blocks_bits blocks))%nat.
Proof.
  unfold blocks_bits. cbn [flat_map]. rewrite !app_length, mbits_length. lia.
Qed.

Lemma blocks_loops depth level : (5 <= depth)%nat -> 1 <= level <= 9 ->
  forall blocks combined padn rest pos out len,
    Forall (block_good level) blocks -> combined < 2 ^ 32 ->
    padn = N.to_nat (pad_count (pos + N.of_nat (length (blocks_bits blocks ++ footer_bits (blocks_crc blocks combined))))) ->
    loops (blocks_body depth level) combined
          (mkAst (blocks_bits blocks ++ footer_bits (blocks_crc blocks combined) ++ repeat false padn ++ rest)
                 pos out len)
          (Done tt (mkAst rest
                          (pos + N.of_nat (length (blocks_bits blocks ++ footer_bits (blocks_crc blocks combined))) + N.of_nat padn)
                          (rev (blocks_out blocks) ++ out)
                          (len + N.of_nat (length (blocks_out blocks))))).
Proof.
  intros Hdepth Hlevel. induction blocks as [|bc blocks IH]; intros combined padn rest pos out len Hgood Hcomb Hpad.
  - (* the footer *)
    cbn [blocks_bits flat_map blocks_crc fold_left app blocks_out map concat rev length] in *.
    apply loops_done. unfold blocks_body, footer_bits in *. rewrite <- app_assoc.
    rewrite (run_reads_bind _ _ _ _ _ _ _ _ (reads_rbits 48 endMagic ltac:(reflexivity))).
    rewrite magic_end_not_blk, N.eqb_refl.
    rewrite (run_reads_bind _ _ _ _ _ _ _ _ (reads_rbits 32 combined Hcomb)).
    rewrite run_assert_bind by apply N.eqb_refl.
    rewrite run_align_pad.
    + cbn [run]. do 2 f_equal; rewrite ?app_length, ?mbits_length; lia.
    + rewrite Hpad. do 2 f_equal. rewrite app_length, !mbits_length. lia.
  - pose proof (Forall_inv Hgood) as Hbc. pose proof (Forall_inv_tail Hgood) as Hrest.
    pose proof (block_good_emit level bc Hbc) as Hemit.
    destruct Hbc as (H1 & H2 & H3 & H4 & H5).
    assert (Hcrc : snd bc < 2 ^ 32) by (rewrite H5; apply crc_fold_lt).
    cbn [blocks_bits flat_map]. fold (blocks_bits blocks).
    unfold blocks_crc. cbn [fold_left]. fold (blocks_crc blocks (crc_combine combined (crc_final (snd bc)))).
    eapply loops_step.
    + unfold blocks_body. rewrite <- !app_assoc.
      rewrite (run_reads_bind _ _ _ _ _ _ _ _ (reads_rbits 48 blkMagic ltac:(reflexivity))).
      rewrite N.eqb_refl. rewrite run_bind.
      rewrite (decode_block_correct depth level (fst bc) (snd bc) (expand_out (fst bc))
                 Hdepth Hlevel H1 H2 H3 Hcrc Hemit).
      cbn [run]. reflexivity.
    + unfold push_out. cbn [a_in a_pos a_out a_len].
      eapply eq_rect; [apply (IH (crc_combine combined (crc_final (snd bc))) padn rest) |].
      * exact Hrest.
      * apply crc_combine_lt; [exact Hcomb | apply crc_final_lt; exact Hcrc].
      * rewrite Hpad. do 2 f_equal.
        rewrite !app_length, !footer_bits_length, blocks_bits_cons_length, !mbits_length. lia.
      * f_equal. f_equal.
        -- rewrite !app_length, !footer_bits_length, !mbits_length. lia.
        -- unfold blocks_out. cbn [map concat]. rewrite rev_app_distr, <- app_assoc. reflexivity.
        -- unfold blocks_out. cbn [map concat]. rewrite app_length. lia.
Qed.

(* ---- the Writer's blocks satisfy what the decoder needs ------------------------------------------ *)
Lemma stream_blocks_good level data : 1 <= level <= 9 -> bytes_ok data ->
  Forall (block_good level) (stream_blocks level data) /\ blocks_out (stream_blocks level data) = data.
Proof.
  intros Hl Hd. unfold stream_blocks.
  assert (HL : 1 <= level * blockSize) by (unfold blockSize; lia).
  assert (Hlen : (length data < S (length data))%nat) by lia.
  destruct (rle1_blocks_cover _ HL (S (length data)) data Hlen) as [Hc Hf].
  pose proof (rle1_blocks_good _ HL (S (length data)) data Hlen Hd) as Hg.
  split; [|exact Hc].
  rewrite Forall_forall in *. intros bc Hin.
  destruct (Hf bc Hin) as (A & B & C). destruct (Hg bc Hin) as (D & E).
  unfold block_good. repeat split; assumption.
Qed.

Lemma not_efuel_of_nofuel n {A} (p : prog A) s : nofuel n p -> (ilen s < n)%nat -> ~ is_efuel (run p s).
Proof.
  intros Hn Hs C. specialize (Hn s Hs). destruct (run p s) as [a s'|e s']; [exact C|].
  destruct e; try exact C. apply Hn. reflexivity.
Qed.

Lemma stream_bits_length level data :
  length (stream_bits level data) =
  (32 + length (blocks_bits (stream_blocks level data) ++ footer_bits (blocks_crc (stream_blocks level data) 0)))%nat.
Proof. unfold stream_bits. rewrite !app_length, !mbits_length. lia. Qed.

(* ---- one stream -------------------------------------------------------------------------------------- *)
Theorem one_stream_correct depth level data rest pos out len :
  (5 <= depth)%nat -> 1 <= level <= 9 -> bytes_ok data -> pos mod 8 = 0 ->
  (length (stream_bits level data ++ repeat false (stream_pad level data) ++ rest) < 2 ^ depth)%nat ->
  run (one_stream depth)
      (mkAst (stream_bits level data ++ repeat false (stream_pad level data) ++ rest) pos out len) =
  Done tt (mkAst rest (pos + N.of_nat (length (stream_bits level data) + stream_pad level data))
                 (rev data ++ out) (len + N.of_nat (length data))).
Proof.
  intros Hdepth Hlevel Hd Hpos Hlen.
  destruct (stream_blocks_good level data Hlevel Hd) as [Hgood Hout].
  pose proof (stream_bits_length level data) as Hsl.
  rewrite !app_length, repeat_length in Hlen.
  remember (stream_pad level data) as padn eqn:Epad. unfold stream_pad in Epad. rewrite Hsl in Epad, Hlen |- *.
  unfold stream_bits, one_stream. rewrite <- !app_assoc.
  remember (stream_blocks level data) as blocks eqn:Eblocks.
  rewrite (run_reads_bind _ _ _ _ _ _ _ _ (reads_rbits 16 hdrMagic ltac:(reflexivity))).
  rewrite run_assert_bind by apply N.eqb_refl.
  rewrite (run_reads_bind _ _ _ _ _ _ _ _ (reads_rbits 8 104 ltac:(reflexivity))).
  rewrite N.eqb_refl. cbn [bind].
  assert (Hlv : 48 + level < 2 ^ N.of_nat 8) by (change (2 ^ N.of_nat 8) with 256; lia).
  rewrite (run_reads_bind _ _ _ _ _ _ _ _ (reads_rbits 8 (48 + level) Hlv)).
  rewrite run_assert_bind by (apply andb_true_iff; split; apply N.leb_le; lia).
  replace (48 + level - 48) with level by lia.
  rewrite !mbits_length.
  apply loops_loop.
  - eapply eq_rect; [apply (blocks_loops depth level Hdepth Hlevel blocks 0 padn rest) |].
    + exact Hgood.
    + lia.
    + rewrite Epad. f_equal. unfold pad_count. rewrite app_length. lia.
    + f_equal. f_equal.
      * rewrite !app_length. lia.
      * rewrite Hout. reflexivity.
      * rewrite Hout. reflexivity.
  - apply (not_efuel_of_nofuel (2 ^ depth)).
    + apply nofuel_loop.
      * intros st. apply nf_blocks_body. lia.
      * intros st. apply eats_blocks_body.
      * lia.
    + unfold ilen. cbn [a_in]. rewrite !app_length, repeat_length. rewrite !app_length in Hlen. lia.
Qed.

(* ---- the stream loop: any number of concatenated encodings -------------------------------------------- *)
Definition encode_all (inputs : list (N * list byte)) : list byte :=
  concat (map (fun ld => bzip2_encode (fst ld) (snd ld)) inputs).

Definition inputs_ok (inputs : list (N * list byte)) : Prop :=
  Forall (fun ld => 1 <= fst ld <= 9 /\ bytes_ok (snd ld)) inputs.

Lemma bits_of_bytes_msb_app a b : bits_of_bytes_msb (a ++ b) = bits_of_bytes_msb a ++ bits_of_bytes_msb b.
Proof. rewrite !bits_of_bytes_msb_eq. unfold bytes_to_bits_msb. apply flat_map_app. Qed.

Lemma pad_aligned n : (n + pad_count n) mod 8 = 0.
Proof. unfold pad_count. lia. Qed.

Lemma encode_all_bits_cons ld inputs :
  exists b r, bits_of_bytes_msb (encode_all (ld :: inputs)) = b :: r.
Proof.
  unfold encode_all. cbn [map concat]. rewrite bits_of_bytes_msb_app, bzip2_encode_bits.
  assert (Hs : (0 < length (stream_bits (fst ld) (snd ld)))%nat) by (rewrite stream_bits_length; lia).
  destruct (stream_bits (fst ld) (snd ld)) as [|b r]; [cbn [length] in Hs; lia|].
  eexists. eexists. cbn [app]. reflexivity.
Qed.

Lemma streams_loops depth : (5 <= depth)%nat ->
  forall inputs pos out len,
    inputs <> [] -> inputs_ok inputs -> pos mod 8 = 0 ->
    (length (bits_of_bytes_msb (encode_all inputs)) < 2 ^ depth)%nat ->
    loops (streams_body depth) tt
          (mkAst (bits_of_bytes_msb (encode_all inputs)) pos out len)
          (Done tt (mkAst [] (pos + N.of_nat (length (bits_of_bytes_msb (encode_all inputs))))
                          (rev (concat (map snd inputs)) ++ out)
                          (len + N.of_nat (length (concat (map snd inputs)))))).
Proof.
  intros Hdepth. induction inputs as [|[level data] inputs IH]; intros pos out len Hne Hok Hpos Hlen;
    [contradiction|].
  pose proof (Forall_inv Hok) as Hld. pose proof (Forall_inv_tail Hok) as Hok'. cbn [fst snd] in Hld.
  destruct Hld as [Hlevel Hd].
  unfold encode_all in *. cbn [map concat fst snd] in *. fold (encode_all inputs) in *.
  rewrite bits_of_bytes_msb_app, bzip2_encode_bits, <- app_assoc in *.
  assert (Hone := one_stream_correct depth level data (bits_of_bytes_msb (encode_all inputs))
                    pos out len Hdepth Hlevel Hd Hpos Hlen).
  assert (Hsb : (0 < length (stream_bits level data))%nat) by (rewrite stream_bits_length; lia).
  destruct inputs as [|ld2 inputs].
  - (* last stream: the source is exhausted *)
    assert (Enil : bits_of_bytes_msb (encode_all []) = []) by reflexivity. rewrite Enil in *.
    apply loops_done. unfold streams_body. rewrite run_bind, Hone.
    cbn [run a_in concat map app]. rewrite !app_nil_r.
    do 2 f_equal. rewrite !app_length, repeat_length. lia.
  - destruct (encode_all_bits_cons ld2 inputs) as (b0 & r0 & E).
    eapply loops_step.
    + unfold streams_body. rewrite run_bind, Hone. cbn [run a_in]. rewrite E. reflexivity.
    + rewrite <- E. eapply eq_rect; [apply (IH (pos + N.of_nat (length (stream_bits level data) + stream_pad level data))
                                 (rev data ++ out) (len + N.of_nat (length data))) |].
      * discriminate.
      * exact Hok'.
      * unfold stream_pad. pose proof (pad_aligned (N.of_nat (length (stream_bits level data)))). lia.
      * rewrite !app_length, repeat_length in Hlen. lia.
      * f_equal. f_equal.
        -- rewrite !app_length, repeat_length. lia.
        -- rewrite rev_app_distr, <- app_assoc. reflexivity.
        -- rewrite app_length. lia.
Qed.

Lemma depth_for_n_ge5 k : (5 <= depth_for_n k)%nat.
Proof.
  unfold depth_for_n. assert (6 <= N.log2 (8 * k + 64)); [|lia].
  change 6 with (N.log2 64). apply N.log2_le_mono. lia.
Qed.

(* ---- C04: bzip2.Writer is lossless ---------------------------------------------------------------------- *)
Theorem bzip2_roundtrip_multi inputs :
  inputs <> [] -> inputs_ok inputs ->
  bzip2_decode (encode_all inputs) =
  mkBZ None (concat (map snd inputs)) (N.of_nat (length (encode_all inputs))).
Proof.
  intros Hne Hok. unfold bzip2_decode.
  remember (encode_all inputs) as input eqn:Einput.
  remember (depth_for_n (len_n input)) as depth eqn:Edepth.
  assert (Hd5 : (5 <= depth)%nat) by (subst depth; apply depth_for_n_ge5).
  assert (Hlen : (length (bits_of_bytes_msb input) < 2 ^ depth)%nat).
  { rewrite bits_of_bytes_msb_length. pose proof (depth_for_n_enough (len_n input)) as H.
    rewrite <- Edepth, len_n_length, Nat2N.id in H. exact H. }
  unfold bzip2_prog, ast_init.
  assert (Hrun : run (loop depth (streams_body depth) tt) (mkAst (bits_of_bytes_msb input) 0 [] 0) =
                 Done tt (mkAst [] (0 + N.of_nat (length (bits_of_bytes_msb input)))
                                (rev (concat (map snd inputs)) ++ [])
                                (0 + N.of_nat (length (concat (map snd inputs)))))).
  { apply loops_loop.
    - subst input. apply (streams_loops depth Hd5 inputs 0 [] 0 Hne Hok); [reflexivity | exact Hlen].
    - apply (not_efuel_of_nofuel (2 ^ depth)); [apply bzip2_prog_nofuel; lia | exact Hlen]. }
  rewrite Hrun. unfold res_err, res_out, res_pos, res_state. cbn [a_out a_pos].
  rewrite fast_rev_eq, app_nil_r, rev_involutive. f_equal.
  rewrite bits_of_bytes_msb_length. lia.
Qed.

Theorem bzip2_roundtrip : forall level data,
  1 <= level <= 9 -> (forall b, In b data -> b < 256) ->
  bz_err (bzip2_decode (bzip2_encode level data)) = None /\
  bz_out (bzip2_decode (bzip2_encode level data)) = data /\
  bz_used (bzip2_decode (bzip2_encode level data)) = N.of_nat (length (bzip2_encode level data)).
Proof.
  intros level data Hlevel Hb.
  assert (Hok : inputs_ok [(level, data)]).
  { constructor; [|constructor]. cbn [fst snd]. split; [exact Hlevel|].
    unfold bytes_ok. apply Forall_forall. exact Hb. }
  pose proof (bzip2_roundtrip_multi [(level, data)] ltac:(discriminate) Hok) as H.
  unfold encode_all in H. cbn [map concat fst snd] in H. rewrite !app_nil_r in H.
  rewrite H. cbn [bz_err bz_out bz_used]. auto.
Qed.

(* decoding the concatenation of two encodings yields the concatenation of the inputs *)
Corollary bzip2_roundtrip_concat : forall l1 d1 l2 d2,
  1 <= l1 <= 9 -> 1 <= l2 <= 9 -> bytes_ok d1 -> bytes_ok d2 ->
  bzip2_decode (bzip2_encode l1 d1 ++ bzip2_encode l2 d2) =
  mkBZ None (d1 ++ d2) (N.of_nat (length (bzip2_encode l1 d1 ++ bzip2_encode l2 d2))).
Proof.
  intros l1 d1 l2 d2 H1 H2 B1 B2.
  assert (Hok : inputs_ok [(l1, d1); (l2, d2)]).
  { constructor; [split; assumption|]. constructor; [split; assumption|]. constructor. }
  pose proof (bzip2_roundtrip_multi [(l1, d1); (l2, d2)] ltac:(discriminate) Hok) as H.
  unfold encode_all in H. cbn [map concat fst snd] in H. rewrite !app_nil_r in H. exact H.
Qed.

(* non-vacuity: the hypotheses hold for concrete inputs, and the theorem agrees with the
   computed round trips of Bzip2/Thms.v *)
Example bzip2_roundtrip_ex :
  let data := [104;101;108;108;111;32;104;101;108;108;111] in
  1 <= 9 <= 9 /\ (forall b, In b data -> b < 256) /\
  bz_out (bzip2_decode (bzip2_encode 9 data)) = data.
Proof.
  cbv zeta. split; [lia|]. split.
  - intros b Hb. cbn [In] in Hb. lia.
  - apply bzip2_roundtrip; [lia|]. intros b Hb. cbn [In] in Hb. lia.
Qed.

Print Assumptions bzip2_encode_bits.
Print Assumptions one_stream_correct.
Print Assumptions bzip2_roundtrip_multi.
Print Assumptions bzip2_roundtrip.
Print Assumptions bzip2_roundtrip_concat.
