(* Layer 1: the exploration [xwalk] of the libbzip2 tables against the walk
   [hwalk] of Bzip2/SpecR.v, for ANY list of rows whose dead values satisfy the
   recurrence of [with_dead]:

     xwalk_dead      the exploration finds no code word below a prefix exactly
                     when the prefix value has reached the row's dead value
     xwalk_sound     every explored code word / marker is where hwalk returns /
                     fails, after exactly that many bits
     xwalk_complete  hwalk returns / fails only at an explored code word / marker
     xwalk_kraft     the explored words below a live prefix p have Kraft sum
                     2^-|p| *)
From V Require Import Base.Prelude Base.Prog Base.ProgThms Flate.Spec Bzip2.Common Bzip2.SpecR
  Prefix.Code Bzip2.Degenerate Bzip2.DegenerateSpec.

Local Open Scope N_scope.

(* ---- with_dead satisfies dead_ok ---------------------------------------------- *)
Lemma with_dead_ok raw :
  dead_ok (fst (with_dead raw)) /\ snd (with_dead raw) = dnext (fst (with_dead raw)).
Proof.
  induction raw as [|[[l1 first] cum] r IH]; cbn [with_dead].
  - split; [exact I | reflexivity].
  - destruct (with_dead r) as [rr tnext]. cbn [fst snd] in *.
    destruct IH as [IH1 IH2]. subst tnext. cbn [dead_ok dnext r_dead r_limit1].
    split; [split; [reflexivity | exact IH1] | reflexivity].
Qed.

Lemma mk_table_dead_ok lens : dead_ok (t_rows (mk_table lens)).
Proof. unfold mk_table. cbn [t_rows]. apply with_dead_ok. Qed.

(* ---- one step of hwalk ----------------------------------------------------------- *)
Definition st_next (st : ast) (t : list bool) : ast :=
  mkAst t (a_pos st + 1) (a_out st) (a_len st).

Lemma run_hwalk_nil perm z st : run (hwalk [] perm z) st = Fail ECorrupted st.
Proof. reflexivity. Qed.

Lemma run_hwalk_cons r rest perm z st :
  run (hwalk (r :: rest) perm z) st =
  match a_in st with
  | [] => Fail EUEOF st
  | b :: t =>
    let z' := 2 * z + N.b2n b in
    if z' <? r_limit1 r then
      match row_sym perm r z' with
      | Some s => Done s (st_next st t)
      | None => Fail ECorrupted (st_next st t)
      end
    else if r_dead r <=? z' then Fail ECorrupted (st_next st t)
    else run (hwalk rest perm z') (st_next st t)
  end.
Proof.
  cbn [hwalk run]. destruct (a_in st) as [|b t]; [reflexivity|].
  cbv zeta. unfold row_sym, st_next.
  destruct (2 * z + N.b2n b <? r_limit1 r); [|destruct (r_dead r <=? 2 * z + N.b2n b); reflexivity].
  destruct (2 * z + N.b2n b <? r_first r); [reflexivity|].
  destruct (nm_get perm _); reflexivity.
Qed.

Lemma adv_0 st : adv st 0 = st.
Proof. unfold adv. cbn [skipn]. rewrite N.add_0_r. destruct st; reflexivity. Qed.

Lemma adv_next st b t k : a_in st = b :: t -> adv (st_next st t) k = adv st (S k).
Proof.
  intros H. unfold adv, st_next. cbn [a_in a_pos a_out a_len]. rewrite H. cbn [skipn].
  f_equal. lia.
Qed.

(* ---- dead prefixes ------------------------------------------------------------------ *)
Lemma xwalk_dead perm rows : dead_ok rows ->
  forall z p, fst (xwalk rows perm z p) = false <-> dnext rows <= 2 * z.
Proof.
  induction rows as [|r rest IH]; intros Hok z p.
  - cbn [xwalk fst dnext]. split; [lia | reflexivity].
  - destruct Hok as [Hd Hok]. cbn [xwalk fst dnext]. rewrite Hd.
    rewrite orb_false_iff. cbn [N.b2n].
    assert (H0 : forall b, fst (if 2 * z + N.b2n b <? r_limit1 r
                                then (true, [(p ++ [b], row_sym perm r (2 * z + N.b2n b))])
                                else xwalk rest perm (2 * z + N.b2n b) (p ++ [b])) = false <->
                           r_limit1 r <= 2 * z + N.b2n b /\ dnext rest <= 2 * (2 * z + N.b2n b)).
    { intros b. destruct (2 * z + N.b2n b <? r_limit1 r) eqn:E.
      - cbn [fst]. split; [discriminate | lia].
      - rewrite (IH Hok). lia. }
    rewrite (H0 false), (H0 true). cbn [N.b2n]. lia.
Qed.

Lemma xwalk_false_nil perm rows : forall z p,
  fst (xwalk rows perm z p) = false -> snd (xwalk rows perm z p) = [].
Proof.
  induction rows as [|r rest IH]; intros z p H; [reflexivity|].
  cbn [xwalk fst snd] in *. apply orb_false_iff in H. destruct H as [H0 H1].
  rewrite H0, H1. cbn [negb andb].
  destruct (2 * z + N.b2n false <? r_limit1 r); [discriminate|].
  destruct (2 * z + N.b2n true <? r_limit1 r); [discriminate|].
  rewrite (IH _ _ H0), (IH _ _ H1). reflexivity.
Qed.

(* the shape of one node of the exploration *)
Definition xchild (perm : nmap N) (r : hrow) (rest : list hrow) (z : N) (p : list bool) (b : bool)
  : bool * list emit :=
  let z' := 2 * z + N.b2n b in
  if z' <? r_limit1 r then (true, [(p ++ [b], row_sym perm r z')])
  else xwalk rest perm z' (p ++ [b]).

Lemma xwalk_cons perm r rest z p :
  xwalk (r :: rest) perm z p =
  let r0 := xchild perm r rest z p false in
  let r1 := xchild perm r rest z p true in
  (fst r0 || fst r1,
   snd r0 ++ snd r1 ++
     (if negb (fst r0) && fst r1 then [(p ++ [false], None)]
      else if negb (fst r1) && fst r0 then [(p ++ [true], None)] else [])).
Proof. reflexivity. Qed.

Lemma xchild_false perm r rest z p b :
  dead_ok (r :: rest) ->
  (fst (xchild perm r rest z p b) = false <->
   r_limit1 r <= 2 * z + N.b2n b /\ r_dead r <= 2 * z + N.b2n b).
Proof.
  intros [Hd Hok]. unfold xchild. cbv zeta.
  destruct (2 * z + N.b2n b <? r_limit1 r) eqn:E.
  - cbn [fst]. split; [discriminate | lia].
  - rewrite (xwalk_dead perm rest Hok), Hd. lia.
Qed.

(* membership in the emitted list of a node *)
Lemma xwalk_in perm r rest z p e :
  In e (snd (xwalk (r :: rest) perm z p)) <->
  (exists b, In e (snd (xchild perm r rest z p b))) \/
  (exists b, e = (p ++ [b], None) /\ fst (xchild perm r rest z p b) = false /\
             fst (xchild perm r rest z p (negb b)) = true).
Proof.
  rewrite xwalk_cons. cbv zeta. cbn [snd]. rewrite !in_app_iff.
  set (r0 := xchild perm r rest z p false). set (r1 := xchild perm r rest z p true).
  split.
  - intros [H|[H|H]].
    + left. exists false. exact H.
    + left. exists true. exact H.
    + right. destruct (fst r0) eqn:E0, (fst r1) eqn:E1; cbn [negb andb] in H.
      * contradiction.
      * destruct H as [H|[]]. exists true. subst e. repeat split; assumption.
      * destruct H as [H|[]]. exists false. subst e. repeat split; assumption.
      * contradiction.
  - intros [[b H]|[b (He & Hb & Hn)]].
    + destruct b; [right; left | left]; exact H.
    + right. right. destruct b; cbn [negb] in Hn; fold r0 r1 in Hb, Hn; rewrite Hb, Hn;
        cbn [negb andb]; left; symmetry; exact He.
Qed.

(* ---- soundness: every explored word is decided by hwalk at its end ------------------ *)
Definition decided (o : option N) (st : ast) : result N :=
  match o with Some s => Done s st | None => Fail ECorrupted st end.

Lemma xwalk_sound perm rows : dead_ok rows ->
  forall z p bits o, In (bits, o) (snd (xwalk rows perm z p)) ->
  exists q, bits = p ++ q /\ q <> [] /\
    forall st t, a_in st = q ++ t ->
      run (hwalk rows perm z) st = decided o (adv st (length q)).
Proof.
  induction rows as [|r rest IH]; intros Hok z p bits o Hin.
  - contradiction.
  - pose proof Hok as [Hd Hok']. apply xwalk_in in Hin. destruct Hin as [[b Hin]|[b (He & Hb & Hn)]].
    + unfold xchild in Hin. cbv zeta in Hin.
      destruct (2 * z + N.b2n b <? r_limit1 r) eqn:E.
      * cbn [snd] in Hin. destruct Hin as [Hin|[]]. inversion Hin; subst bits o.
        exists [b]. split; [reflexivity|]. split; [discriminate|].
        intros st t Hst. rewrite run_hwalk_cons. cbn [app] in Hst. rewrite Hst. cbv zeta.
        rewrite E. cbn [length]. rewrite <- (adv_next st b t 0 Hst), adv_0.
        destruct (row_sym perm r _); reflexivity.
      * pose proof Hin as Hin'.
        apply (IH Hok') in Hin. destruct Hin as (q & Hq & Hne & Hrun).
        exists (b :: q). split; [rewrite Hq, <- app_assoc; reflexivity|]. split; [discriminate|].
        intros st t Hst. rewrite run_hwalk_cons. cbn [app] in Hst. rewrite Hst. cbv zeta.
        rewrite E.
        (* the child is live, so its value is below the dead value *)
        assert (Hlive : fst (xwalk rest perm (2 * z + N.b2n b) (p ++ [b])) = true).
        { destruct (fst (xwalk rest perm (2 * z + N.b2n b) (p ++ [b]))) eqn:Ef; [reflexivity|].
          rewrite (xwalk_false_nil _ _ _ _ Ef) in Hin'. contradiction. }
        assert (Hnd : (r_dead r <=? 2 * z + N.b2n b) = false).
        { destruct (r_dead r <=? 2 * z + N.b2n b) eqn:Ed; [|reflexivity].
          assert (Hf : fst (xchild perm r rest z p b) = false).
          { apply xchild_false; [exact Hok|]. lia. }
          unfold xchild in Hf. cbv zeta in Hf. rewrite E in Hf. congruence. }
        rewrite Hnd. rewrite (Hrun (st_next st (q ++ t)) t eq_refl).
        cbn [length]. rewrite (adv_next st b (q ++ t) _ Hst). reflexivity.
    + inversion He; subst bits o.
      exists [b]. split; [reflexivity|]. split; [discriminate|].
      intros st t Hst. rewrite run_hwalk_cons. cbn [app] in Hst. rewrite Hst. cbv zeta.
      apply (xchild_false perm r rest z p b Hok) in Hb. destruct Hb as [Hb1 Hb2].
      assert (E : (2 * z + N.b2n b <? r_limit1 r) = false) by lia.
      assert (E2 : (r_dead r <=? 2 * z + N.b2n b) = true) by lia.
      rewrite E, E2. cbn [length decided]. rewrite <- (adv_next st b t 0 Hst), adv_0. reflexivity.
Qed.

(* ---- completeness: hwalk decides only at explored words ------------------------------- *)
Lemma xwalk_complete perm rows : dead_ok rows ->
  forall z p, fst (xwalk rows perm z p) = true ->
  forall st,
    (exists k o, (k <= length (a_in st))%nat /\
       In (p ++ firstn k (a_in st), o) (snd (xwalk rows perm z p)) /\
       run (hwalk rows perm z) st = decided o (adv st k)) \/
    ((length (a_in st) < length rows)%nat /\
     run (hwalk rows perm z) st = Fail EUEOF (adv st (length (a_in st)))).
Proof.
  induction rows as [|r rest IH]; intros Hok z p Hlive st.
  - cbn [xwalk fst] in Hlive. discriminate.
  - pose proof Hok as [Hd Hok']. rewrite run_hwalk_cons.
    destruct (a_in st) as [|b t] eqn:Hst.
    + right. cbn [length]. split; [lia|]. rewrite adv_0. reflexivity.
    + cbv zeta.
      destruct (2 * z + N.b2n b <? r_limit1 r) eqn:E.
      * left. exists 1%nat, (row_sym perm r (2 * z + N.b2n b)). split; [cbn [length]; lia|].
        split.
        { apply xwalk_in. left. exists b. unfold xchild. cbv zeta. rewrite E. left. reflexivity. }
        rewrite <- (adv_next st b t 0 Hst), adv_0. destruct (row_sym perm r _); reflexivity.
      * destruct (r_dead r <=? 2 * z + N.b2n b) eqn:Ed.
        { (* dead child: the sibling is live, a marker sits here *)
          left. exists 1%nat, None. split; [cbn [length]; lia|]. split.
          - apply xwalk_in. right. exists b. split; [reflexivity|].
            assert (Hf : fst (xchild perm r rest z p b) = false).
            { apply xchild_false; [exact Hok|]. lia. }
            split; [exact Hf|].
            rewrite xwalk_cons in Hlive. cbv zeta in Hlive. cbn [fst] in Hlive.
            destruct b; cbn [negb]; rewrite Hf in Hlive.
            + rewrite orb_false_r in Hlive. exact Hlive.
            + exact Hlive.
          - rewrite <- (adv_next st b t 0 Hst), adv_0. reflexivity. }
        { assert (Hl : fst (xwalk rest perm (2 * z + N.b2n b) (p ++ [b])) = true).
          { destruct (fst (xwalk rest perm (2 * z + N.b2n b) (p ++ [b]))) eqn:Ef; [reflexivity|].
            apply (xwalk_dead perm rest Hok') in Ef. rewrite Hd in Ed. lia. }
          destruct (IH Hok' _ _ Hl (st_next st t)) as [(k & o & Hk & Hin & Hrun)|[Hlen Hrun]].
          - left. exists (S k), o. cbn [st_next a_in] in Hk, Hin. split; [cbn [length]; lia|].
            split.
            + apply xwalk_in. left. exists b. unfold xchild. cbv zeta. rewrite E.
              cbn [firstn]. rewrite <- app_assoc in Hin. exact Hin.
            + rewrite Hrun. rewrite (adv_next st b t k Hst). reflexivity.
          - right. cbn [st_next a_in] in Hlen, Hrun. split; [cbn [length]; lia|].
            rewrite Hrun. cbn [length]. rewrite (adv_next st b t _ Hst). reflexivity. }
Qed.

(* the bits consumed never exceed the number of rows *)
Lemma xwalk_len perm rows : forall z p bits o,
  In (bits, o) (snd (xwalk rows perm z p)) ->
  (length p < length bits <= length p + length rows)%nat.
Proof.
  induction rows as [|r rest IH]; intros z p bits o Hin; [contradiction|].
  apply xwalk_in in Hin. destruct Hin as [[b Hin]|[b (He & _)]].
  - unfold xchild in Hin. cbv zeta in Hin. destruct (2 * z + N.b2n b <? r_limit1 r).
    + destruct Hin as [Hin|[]]. inversion Hin; subst. rewrite app_length. cbn [length]. lia.
    + apply IH in Hin. rewrite app_length in Hin. cbn [length] in *. lia.
  - inversion He; subst. rewrite app_length. cbn [length]. lia.
Qed.

(* ---- Kraft sum of the explored words ------------------------------------------------------ *)
Definition ksum (m : N) (es : list emit) : N :=
  fold_right (fun e acc => 2 ^ (m - N.of_nat (length (fst e))) + acc) 0 es.

Lemma ksum_app m a b : ksum m (a ++ b) = ksum m a + ksum m b.
Proof. induction a as [|x a IH]; cbn [ksum app fold_right] in *; [reflexivity|]. fold (ksum m (a ++ b)). fold (ksum m a). rewrite IH. lia. Qed.

Lemma xwalk_kraft perm rows : forall z p m,
  N.of_nat (length p + length rows) <= m ->
  ksum m (snd (xwalk rows perm z p)) =
  if fst (xwalk rows perm z p) then 2 ^ (m - N.of_nat (length p)) else 0.
Proof.
  induction rows as [|r rest IH]; intros z p m Hm; [reflexivity|].
  rewrite xwalk_cons. cbv zeta. cbn [fst snd].
  assert (Hc : forall b, ksum m (snd (xchild perm r rest z p b)) =
                         if fst (xchild perm r rest z p b) then 2 ^ (m - N.of_nat (S (length p))) else 0).
  { intros b. unfold xchild. cbv zeta. destruct (2 * z + N.b2n b <? r_limit1 r).
    - cbn [fst snd ksum fold_right]. rewrite app_length. cbn [length].
      replace (length p + 1)%nat with (S (length p)) by lia. lia.
    - rewrite IH; rewrite app_length; cbn [length] in *.
      + replace (length p + 1)%nat with (S (length p)) by lia. reflexivity.
      + lia. }
  rewrite !ksum_app, (Hc false), (Hc true).
  assert (E : 2 ^ (m - N.of_nat (length p)) = 2 * 2 ^ (m - N.of_nat (S (length p)))).
  { rewrite <- N.pow_succ_r'. f_equal. cbn [length] in Hm. lia. }
  assert (Hm1 : forall b, ksum m [(p ++ [b], @None N)] = 2 ^ (m - N.of_nat (S (length p)))).
  { intros b. cbn [ksum fold_right fst]. rewrite app_length. cbn [length].
    replace (length p + 1)%nat with (S (length p)) by lia. lia. }
  destruct (fst (xchild perm r rest z p false)), (fst (xchild perm r rest z p true));
    cbn [negb andb orb]; rewrite ?Hm1; cbn [ksum fold_right]; lia.
Qed.
