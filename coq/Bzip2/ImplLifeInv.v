(* The invariant of every state a bzip2.Reader can be in ([good]): it holds after NewReader and
   after Reset (over a source of bytes), and every call - Read with any buffer, Close, Reset -
   preserves it.  Its point: WHENEVER zr.err != nil THE RLE1 STAGE IS EXHAUSTED, i.e. the error
   is latched (Bzip2/ImplLifeLatch.v).  The only way the Go code could break this is a Flush
   that fails after the closure has decoded a block; from a [good] state the bit reader is
   consistent with its source ([Rep], Prefix/DecReadThms.v PI) after every successful closure
   (Bzip2/ImplHdr.v header_exact, Bzip2/ImplBof.v bof_sim), so Discard cannot come back short
   (Bzip2/ImplHdr.v flush_pi). *)
From V Require Import Base.Prelude Base.Prog Bzip2.Common Bzip2.SpecR Bzip2.StreamBits
  Prefix.ReaderImpl Prefix.ReaderSpec Prefix.ReaderThms Prefix.DecTable Prefix.DecReadThms
  Bzip2.Impl Bzip2.ImplLife Bzip2.ImplBits Bzip2.ImplSim Bzip2.ImplTables Bzip2.ImplHdr
  Bzip2.ImplBlock Bzip2.ImplBof Bzip2.ImplRound Bzip2.ImplSpecRun Bzip2.ImplFrame
  Bzip2.ImplLifeLatch.
From Coq Require Import ZifyBool ZifyN ZifyNat.

Local Open Scope N_scope.

Definition bytes_ok (data : list byte) : Prop := forall b, In b data -> b < 256.

(* the source the Reader reads from *)
Definition src_data (st : bzst) : list byte := s_data (p_src (z_rd st)).

(* no error so far: the bit reader is consistent with its source, the checksums are 32-bit
   values, inside a stream the level is 1..9; between two turns of Read's loop InputOffset is the
   bit reader's offset *)
Record live (st : bzst) : Prop := mkLive {
  lv_bytes : bytes_ok (src_data st);
  lv_rep : exists R, Rep (src_data st) R st;
  lv_endCRC : z_endCRC st < 2 ^ 32;
  lv_blkCRC : z_blkCRC st < 2 ^ 32;
  lv_level : z_hdrftr st mod 2 = 1 -> 1 <= z_level st <= 9
}.

Record good (st : bzst) : Prop := mkGood {
  good_six : length (z_trees st) = 6%nat;
  good_latch : z_err st <> None -> stuck (z_rle st);
  good_live : z_err st = None -> live st /\ z_inOff st = p_offset (z_rd st)
}.

(* ---- NewReader, Reset ------------------------------------------------------------------------------------ *)
Lemma live_init trees data bf fills reads : bytes_ok data ->
  live (mkBz 0%Z 0%Z (init data bf true fills reads) None 0 0 0 0 0 (rle_init []) trees).
Proof.
  intros Hd. constructor; cbn [src_data z_rd z_inOff z_endCRC z_blkCRC z_hdrftr z_level init p_src s_data p_offset].
  - exact Hd.
  - exists 0%nat. unfold Rep. cbn [z_rd]. apply Inv_PI. apply Inv_init.
  - lia.
  - lia.
  - intros C. cbn in C. lia.
Qed.

Theorem good_new data bf fills reads : bytes_ok data -> good (bz_new data bf fills reads).
Proof.
  intros Hd. unfold bz_new. constructor; cbn [z_trees z_err z_rle].
  - reflexivity.
  - intros C. contradiction.
  - intros _. split; [apply live_init; exact Hd | reflexivity].
Qed.

Theorem good_reset st data bf fills reads : length (z_trees st) = 6%nat -> bytes_ok data ->
  good (bz_reset st data bf fills reads).
Proof.
  intros H6 Hd. unfold bz_reset. constructor; cbn [z_trees z_err z_rle].
  - exact H6.
  - intros C. contradiction.
  - intros _. split; [apply live_init; exact Hd | reflexivity].
Qed.

(* ---- the closure ---------------------------------------------------------------------------------------------- *)
Lemma Rep_data data R st : Rep data R st -> src_data st = data.
Proof. intros [[_ C _ _ _ _] _]. exact C. Qed.

Lemma Rep_le data (Hd : bytes_ok data) R st : Rep data R st -> (R <= 8 * length data)%nat.
Proof. intros H. destruct (PI_numBits true data Hd R _ H) as (_ & H2 & _). lia. Qed.

Lemma rest_eq st : rest st = (z_inOff st, z_outOff st, z_err st, z_level st, z_hdrftr st, z_blkCRC st,
                              z_endCRC st, z_crc st, z_rle st).
Proof. reflexivity. Qed.

(* Reader.decodeBlock from a live state inside a stream: when it returns, the state is live *)
Lemma decode_block_live st buf st1 :
  live st -> z_hdrftr st mod 2 = 1 -> length (z_trees st) = 6%nat ->
  decode_block st = (ROk buf, st1) ->
  live st1 /\ src_data st1 = src_data st.
Proof.
  intros [Hd [R HR] Hec Hbc Hlv] Hodd H6 E.
  set (data := src_data st) in *.
  pose proof (Rep_le data Hd R st HR) as HRle.
  pose proof (bof_sim data Hd (spec_depth data) _ _ _ (z_level st) _ _ (z_endCRC st) _ _ R st [] 0
                      (spec_depth_enough data) (Hlv Hodd) Hec (rest_eq st) H6 HR HRle) as Hb.
  destruct (run (bof_ro (spec_depth data) (z_level st) (z_endCRC st)) (sat data R [] 0))
    as [[sb|] s1|e s1].
  - destruct Hb as [(R' & st' & _ & _ & Eg & Hpost & HP')|(_ & st' & Eg)];
      [|rewrite Eg in E; discriminate E].
    rewrite Eg in E. inversion E; subst st' buf. clear E.
    destruct Hpost as (_ & Hr' & _ & Hs32 & _).
    unfold rest in Hr'. inversion Hr' as [[A1 A2 A3 A4 A5 A6 A7 A8 A9]].
    pose proof (Rep_data data R' st1 HP') as Hdat.
    split; [|exact Hdat].
    constructor; rewrite ?Hdat.
    + exact Hd.
    + exists R'. exact HP'.
    + rewrite A7. exact Hec.
    + rewrite A6. exact Hs32.
    + intros _. rewrite A4. apply Hlv. exact Hodd.
  - destruct Hb as (R' & p' & _ & _ & _ & Eg & HP').
    rewrite Eg in E. inversion E; subst st1 buf. clear E.
    assert (HRep : Rep data R' (set_hdrftr (set_endCRC (set_rd st p') 0) (z_hdrftr st + 1))) by exact HP'.
    pose proof (Rep_data data R' _ HRep) as Hdat.
    split; [|exact Hdat].
    constructor; rewrite ?Hdat.
    + exact Hd.
    + exists R'. exact HRep.
    + cbn. lia.
    + exact Hbc.
    + cbn [z_hdrftr set_hdrftr]. intros C. exfalso.
      assert ((z_hdrftr st + 1) mod 2 = 0); [|lia].
      rewrite N.add_mod by lia. rewrite Hodd. reflexivity.
  - destruct Hb as (st' & [Eg|Eg]); rewrite Eg in E; discriminate E.
Qed.

(* the whole closure, from a live state *)
Lemma round_body_live st st1 :
  live st -> length (z_trees st) = 6%nat -> round_body st = (ROk tt, st1) ->
  live st1 /\ src_data st1 = src_data st.
Proof.
  intros HL H6 E. rewrite round_body_unfold in E.
  set (data := src_data st) in *.
  pose proof HL as [Hd [R HR] Hec Hbc Hlv].
  (* the first half: stream header, or the check of the block checksum *)
  assert (Hmid : exists st0, live st0 /\ src_data st0 = data /\ z_hdrftr st0 mod 2 = 1 /\
                             length (z_trees st0) = 6%nat /\
                             mbind decode_block (fun buf => mupd (fun st => set_rle st (rle_init buf))) st0
                             = (ROk tt, st1)).
  { unfold mbind at 1 in E.
    destruct (z_hdrftr st mod 2 =? 0) eqn:Eh.
    - (* PullBits(1), header *)
      unfold mbind at 1 in E. unfold m_pull_first in E.
      pose proof (pull_any data Hd R (z_rd st) 1 HR ltac:(lia)) as Hp.
      destruct (pull_bits (z_rd st) 1) as [[|] p1]; [discriminate E|].
      destruct Hp as (HP1 & _ & _).
      assert (HR1 : Rep data R (set_rd st p1)) by exact HP1.
      pose proof (header_exact data Hd R (set_rd st p1) [] 0 HR1 (Rep_le data Hd R _ HR1)) as Hh.
      destruct (run hdr_ro (sat data R [] 0)) as [lvl s'|e s'].
      + destruct Hh as (p' & _ & _ & Hlvl & Eg & HP').
        fold go_header in E. rewrite Eg in E.
        eexists. split; [|split; [|split; [|split; [|exact E]]]].
        * assert (HRep : Rep data (R + 32)
                           (set_hdrftr (set_level (set_rd (set_rd st p1) p') lvl) (z_hdrftr (set_rd st p1) + 1)))
            by exact HP'.
          pose proof (Rep_data data _ _ HRep) as Hdat.
          constructor; rewrite ?Hdat.
          -- exact Hd.
          -- exists (R + 32)%nat. exact HRep.
          -- exact Hec.
          -- exact Hbc.
          -- intros _. cbn [z_level set_hdrftr set_level]. exact Hlvl.
        * apply (Rep_data data (R + 32)). exact HP'.
        * cbn [z_hdrftr set_hdrftr set_level set_rd]. rewrite N.add_mod by lia.
          replace (z_hdrftr st mod 2) with 0 by lia. reflexivity.
        * exact H6.
      + destruct Hh as (_ & _ & st' & Eg). fold go_header in E. rewrite Eg in E. discriminate E.
    - destruct (negb (z_blkCRC st =? z_crc st)); [discriminate E|].
      unfold mupd in E.
      eexists. split; [|split; [|split; [|split; [|exact E]]]].
      + constructor; cbn [src_data z_rd set_endCRC z_endCRC z_blkCRC z_hdrftr z_level].
        * exact Hd.
        * exists R. exact HR.
        * apply (crc_combine_lt _ _ Hec Hbc).
        * exact Hbc.
        * exact Hlv.
      + reflexivity.
      + cbn [z_hdrftr set_endCRC]. pose proof (N.mod_upper_bound (z_hdrftr st) 2). lia.
      + exact H6. }
  destruct Hmid as (st0 & HL0 & Hd0 & Hodd0 & H60 & E0).
  unfold mbind in E0. destruct (decode_block st0) as [[buf|e] st2] eqn:Eb; [|discriminate E0].
  unfold mupd in E0. inversion E0; subst st1. clear E0.
  destruct (decode_block_live st0 buf st2 HL0 Hodd0 H60 Eb) as [HL2 Hd2].
  split; [|change (src_data st2 = data); congruence].
  destruct HL2 as [A1 A2 A3 A4 A5]. constructor; assumption.
Qed.

(* ---- one turn of Read's loop ---------------------------------------------------------------------------- *)
Lemma round_start_id st : z_inOff st = p_offset (z_rd st) -> round_start st = st.
Proof. intros H. unfold round_start. apply one_round_start. exact H. Qed.

Lemma one_round_throw_err st e st1 : round_body (round_start st) = (RThrow e, st1) ->
  z_err (one_round st) <> None.
Proof.
  intros E. unfold one_round. fold (round_start st). cbv zeta. rewrite E.
  destruct e; cbn [z_rd set_err]; try (cbn [z_err set_err]; discriminate);
    destruct (flush (z_rd st1)) as [short p'];
    cbn [z_err set_inOff set_rd set_err]; discriminate.
Qed.

Theorem good_one_round st : good st -> z_err st = None -> stuck (z_rle st) -> good (one_round st).
Proof.
  intros [H6 _ HLv] He Hs. destruct (HLv He) as [HL Hoff].
  pose proof (round_start_id st Hoff) as Hst.
  constructor.
  - rewrite one_round_trees. exact H6.
  - intros Hne. destruct (z_err (one_round st)) as [e|] eqn:E1; [|contradiction].
    destruct (one_round_err st e He E1) as [[Hr _]|(st1 & Eb & Hshort)].
    + rewrite Hr. exact Hs.
    + exfalso. rewrite Hst in Eb.
      destruct (round_body_live st st1 HL H6 Eb) as [[_ [R1 HR1] _ _ _] _].
      destruct (flush_pi (src_data st1) R1 (z_rd st1) HR1) as (p' & Ef & _).
      rewrite Ef in Hshort. discriminate Hshort.
  - intros E1.
    destruct (round_body (round_start st)) as [[[]|e] st1] eqn:Eb.
    2:{ exfalso. apply (one_round_throw_err st e st1 Eb). exact E1. }
    rewrite Hst in Eb.
    destruct (round_body_live st st1 HL H6 Eb) as [HL1 Hd1].
    pose proof HL1 as [B1 [R1 HR1] B3 B4 B5].
    assert (He1 : z_err st1 = None).
    { pose proof (round_body_cases st) as Hc. rewrite Eb in Hc. destruct Hc as (Hc & _). congruence. }
    destruct (one_round_ok (src_data st1) st st1 R1 Hoff Eb HR1 He1) as (p' & Eo & HP' & _).
    rewrite Eo.
    assert (HRep : Rep (src_data st1) R1 (set_inOff (set_rd st1 p') (p_offset p'))) by exact HP'.
    pose proof (Rep_data _ _ _ HRep) as Hdat.
    split; [|reflexivity].
    constructor; rewrite ?Hdat.
    + exact B1.
    + exists R1. exact HRep.
    + exact B3.
    + exact B4.
    + exact B5.
Qed.

(* ---- the top of the loop ------------------------------------------------------------------------------------- *)
Lemma rle_read_corrupt n buf lastVal lastCnt acc out r' :
  rle_read n buf lastVal lastCnt acc = ((out, RCorrupt), r') -> stuck r'.
Proof.
  intros H. destruct (rle_read_short _ _ _ _ _ _ _ _ H) as [[_ C]|[Hs _]]; [discriminate C | exact Hs].
Qed.

Lemma good_drain st n : good st ->
  match drain st n with
  | inl (_, st') => good st'
  | inr st' => good st'
  end.
Proof.
  intros [H6 HLa HLv]. unfold drain.
  destruct (rle_read n (r_buf (z_rle st)) (r_lastVal (z_rle st)) (r_lastCnt (z_rle st)) [])
    as [[out e] r'] eqn:Er.
  set (st1 := set_rle st r').
  set (st2 := match e, z_err st1 with RCorrupt, None => set_err st1 (Some ECorrupted) | _, _ => st1 end).
  (* the state before the bookkeeping of the delivered bytes *)
  assert (G2 : good st2).
  { constructor.
    - unfold st2, st1. destruct e; destruct (z_err (set_rle st r')); exact H6.
    - intros Hne. assert (Hr2 : z_rle st2 = r') by (unfold st2, st1; destruct e; destruct (z_err (set_rle st r')); reflexivity).
      rewrite Hr2.
      destruct (z_err st) as [e0|] eqn:E0.
      + (* already latched: the stage was and stays exhausted *)
        destruct (HLa ltac:(discriminate)) as [Hb Hc].
        rewrite Hb, (rle_read_stuck n _ _ [] Hc) in Er.
        assert (Hr' : r' = mkRle [] (r_lastVal (z_rle st)) (r_lastCnt (z_rle st))) by (inversion Er; reflexivity).
        rewrite Hr'. split; [reflexivity | exact Hc].
      + unfold st2, st1 in Hne. cbn [z_err set_rle] in Hne. rewrite E0 in Hne.
        destruct e; cbn [z_err set_rle set_err] in Hne; rewrite ?E0 in Hne; try contradiction.
        apply (rle_read_corrupt _ _ _ _ _ _ _ Er).
    - intros E2. assert (E0 : z_err st = None).
      { unfold st2, st1 in E2.
        destruct (z_err st) as [e0|] eqn:E0; [|reflexivity].
        destruct e; cbn [z_err set_rle] in E2; rewrite ?E0 in E2; cbn [z_err set_rle] in E2;
          rewrite ?E0 in E2; discriminate E2. }
      destruct (HLv E0) as [[A1 A2 A3 A4 A5] Hoff].
      assert (Hsame : z_rd st2 = z_rd st /\ z_inOff st2 = z_inOff st /\ z_endCRC st2 = z_endCRC st /\
                      z_blkCRC st2 = z_blkCRC st /\ z_hdrftr st2 = z_hdrftr st /\ z_level st2 = z_level st).
      { unfold st2, st1. destruct e; destruct (z_err (set_rle st r')); repeat split. }
      destruct Hsame as (S1 & S2 & S3 & S4 & S5 & S6).
      split; [|congruence].
      constructor; unfold src_data, Rep; rewrite ?S1, ?S3, ?S4, ?S5, ?S6; assumption. }
  destruct out as [|x out'].
  - destruct (z_err st2); [exact G2|]. destruct (Nat.eqb n 0); exact G2.
  - destruct G2 as [G6 GLa GLv]. constructor.
    + exact G6.
    + exact GLa.
    + intros E. destruct (GLv E) as [[A1 A2 A3 A4 A5] Hoff]. split; [|exact Hoff].
      constructor; assumption.
Qed.

Lemma good_read_rounds : forall fuel st n, good st -> z_err st = None -> stuck (z_rle st) ->
  good (snd (read_rounds fuel st n)).
Proof.
  induction fuel as [|f IH]; intros st n HG He Hs; cbn [read_rounds].
  - cbn [snd]. destruct HG as [H6 _ _]. constructor; cbn [z_trees z_err z_rle set_err].
    + exact H6.
    + intros _. exact Hs.
    + intros C. discriminate C.
  - cbv zeta. pose proof (good_one_round st HG He Hs) as G1.
    destruct (z_err (one_round st)) as [e|] eqn:E1; [exact G1|].
    pose proof (good_drain (one_round st) n G1) as Gd.
    pose proof (drain_cases (one_round st) n) as Hc.
    destruct (drain (one_round st) n) as [[r t]|t]; [exact Gd|].
    destruct Hc as (_ & He2 & Hs2 & _). apply IH; assumption.
Qed.

Theorem good_read st n : good st -> good (snd (bz_read st n)).
Proof.
  intros HG. unfold bz_read. pose proof (good_drain st n HG) as Gd.
  pose proof (drain_cases st n) as Hc.
  destruct (drain st n) as [[r t]|t]; [exact Gd|].
  destruct Hc as (_ & He & Hs & _). apply good_read_rounds; assumption.
Qed.

(* ---- Close, histories ------------------------------------------------------------------------------------------ *)
Theorem good_close st : good st -> good (snd (bz_close st)).
Proof.
  intros HG. unfold bz_close. destruct (z_err st) as [e|] eqn:E; [|exact HG].
  destruct HG as [H6 HLa HLv].
  assert (Gc : good (set_err (set_rle st (rle_init [])) (Some EClosed))).
  { constructor; cbn [z_trees z_err z_rle set_err set_rle].
    - exact H6.
    - intros _. exact stuck_init_nil.
    - intros C. discriminate C. }
  destruct e; cbn [snd]; try exact Gc; (constructor; assumption).
Qed.

Definition op_ok (o : bzop) : Prop :=
  match o with BReset data _ _ _ => bytes_ok data | _ => True end.

Theorem good_op st o : good st -> op_ok o -> good (snd (bz_op st o)).
Proof.
  intros HG Ho. destruct o as [n| |data bf fills reads]; cbn [bz_op].
  - pose proof (good_read st n HG) as H. destruct (bz_read st n) as [[bs e] st']. exact H.
  - pose proof (good_close st HG) as H. destruct (bz_close st) as [e st']. exact H.
  - cbn [snd]. apply good_reset; [exact (good_six st HG) | exact Ho].
Qed.

Theorem good_ops : forall ops st, good st -> Forall op_ok ops -> good (snd (bz_ops st ops)).
Proof.
  induction ops as [|o r IH]; intros st HG Hall; cbn [bz_ops]; [exact HG|].
  inversion Hall as [|? ? Ho Hr]; subst.
  pose proof (good_op st o HG Ho) as H1. destruct (bz_op st o) as [ob st1]. cbn [snd] in H1.
  specialize (IH st1 H1 Hr). destruct (bz_ops st1 r) as [l fin]. exact IH.
Qed.

Print Assumptions good_ops.
