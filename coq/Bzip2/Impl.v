(* Implementation-level model of bzip2.Reader (bzip2/reader.go, prefix.go, mtf_rle2.go,
   bwt.go, rle1.go, common.go), composed from the implementation-level models of the
   mechanisms it is built from:

     internal/prefix.Reader   -> Prefix/ReaderImpl.v  (bit buffer over a scripted source,
                                                       big-endian mode: p_big = true)
     internal/prefix.Decoder  -> Prefix/DecTable.v    (two-level lookup tables, recycled arrays)
     prefix.GeneratePrefixes / handleDegenerateCodes  -> Bzip2/Degenerate.v (build_codes)

   Every function below mirrors the Go function of the same name, fast paths included
   (TryReadSymbol / TryReadBits falling back to ReadSymbol / ReadBits).  The control flow,
   the order of the checks, the limits and the chunking of the output are those of the Go
   code, NOT those of the libbzip2 port (Bzip2/SpecR.v); Bzip2/ImplThms.v relates the two.

   Step functions run in a state + exception monad: [errors.Panic(e)] is [throw e] and leaves
   the state as the Go code has mutated it so far; [errors.Recover] is the handler in
   [one_round].  A Go run-time panic (index out of range, nil dereference) is the explicit
   error [EPanic]: it is NOT recovered by errors.Recover, the Read call never returns.
   [EFuel] stands for "the model's loop budget is exhausted / the tables are outside the range
   Prefix/DecTable.v and Bzip2/Degenerate.v model"; the theorems exclude both.

   Data refinements (everything else is literal):
   * rle.buf/rle.idx are kept as the suffix buf[idx:] (the Reader never looks behind idx);
   * scratch buffers whose old contents are never read (mtf.vals, bwt.buf, bwt.perm, zr.syms,
     zr.treeSels, codes2D) are not part of the state; the Decoder objects trees1D[0..5] ARE
     (their chunks / links arrays are recycled with their stale contents, across blocks,
     streams and Reset);
   * hash/crc32.Update with the IEEE table (standard library) is taken to be the bitwise
     reflected CRC-32, table driven ([ieee_update]).

   No proofs here (the file is extracted). *)
From V Require Import Base.Prelude Bzip2.Common Prefix.Code Prefix.ReaderImpl Prefix.DecTable.
From V Require Bzip2.Degenerate.

Local Open Scope N_scope.

(* ---- a Decoder object together with the storage it recycles ---------------------------- *)
Record dslot := mkSlot {
  ds_dec : dec;
  ds_cmem : N -> N;          (* contents of the storage behind pd.chunks *)
  ds_lmem : N -> N           (* contents of the storage behind linksFlat (pd.links[0]) *)
}.

Definition overlay (a : arr) (m : N -> N) : N -> N :=
  fun i => match arr_get a i with Some v => v | None => m i end.

Definition empty_dec : dec := mkDec empty_arr empty_arr 0 0 0 0 0 0 0.
Definition fresh_slot : dslot := mkSlot empty_dec (fun _ => 0) (fun _ => 0).

(* pd.Init(codes) on a slot *)
Definition slot_init (s : dslot) (codes : list pcode) : ires dslot :=
  match dec_init (ds_cmem s) (ds_lmem s) codes with
  | IOk d => IOk (mkSlot d (overlay (d_chunks d) (ds_cmem s)) (overlay (d_flat d) (ds_lmem s)))
  | IPanic => IPanic
  | IOutOfModel => IOutOfModel
  end.

(* ---- decSel (bzip2/prefix.go, package initialisation, fresh storage) -------------------- *)
Definition maxNumTrees : N := 6.
Definition minNumTrees : N := 2.
Definition sel_lens : list (N * N) :=
  [(0, 1); (1, 2); (2, 3); (3, 4); (4, 5); (5, 6); (6, 6)].
Definition decSel : ires dec :=
  match gen_prefixes sel_lens with
  | GPOk codes => dec_init (fun _ => 0) (fun _ => 0) codes
  | GPInvalid => IPanic
  end.

(* ---- the RLE1 stage (rle1.go runLengthEncoding, reading side) --------------------------- *)
Record rlest := mkRle {
  r_buf : list byte;         (* rle.buf[rle.idx:] *)
  r_lastVal : byte;
  r_lastCnt : Z
}.
Definition rle_init (buf : list byte) : rlest := mkRle buf 0 0%Z.

Inductive rleres := RNil | RDone | RCorrupt.   (* nil, rleDone, "missing terminating run-length repeater" *)

(* rle.Read(buf) with len(buf) = n; [acc] = bytes stored so far, last first *)
Fixpoint rle_read (n : nat) (buf : list byte) (lastVal : byte) (lastCnt : Z) (acc : list byte)
  : (list byte * rleres) * rlest :=
  match n with
  | O => ((fast_rev acc, RNil), mkRle buf lastVal lastCnt)
  | S n' =>
    if (lastCnt =? -4)%Z then
      match buf with
      | [] => ((fast_rev acc, RCorrupt), mkRle buf lastVal lastCnt)
      | c :: r =>
        if 0 <? c then rle_read n' r lastVal (Z.of_N c - 1)%Z (lastVal :: acc)
        else (* count zero: fallthrough into the next case with lastCnt = 0 *)
          match r with
          | [] => ((fast_rev acc, RDone), mkRle r lastVal 0%Z)
          | b :: r' =>
            if b =? lastVal then rle_read n' r' lastVal (-1)%Z (lastVal :: acc)
            else rle_read n' r' b (-1)%Z (b :: acc)
          end
      end
    else if (lastCnt <=? 0)%Z then
      match buf with
      | [] => ((fast_rev acc, RDone), mkRle buf lastVal lastCnt)
      | b :: r =>
        if b =? lastVal then rle_read n' r lastVal (lastCnt - 1)%Z (lastVal :: acc)
        else rle_read n' r b (-1)%Z (b :: acc)
      end
    else rle_read n' buf lastVal (lastCnt - 1)%Z (lastVal :: acc)
  end.

(* ---- the block CRC (common.go crc.update) -------------------------------------------------
   c.val is the finished checksum.  update: reverse the bits of the value and of every byte,
   hash/crc32.Update with the IEEE table, reverse again.  (The 256-byte pieces of the Go loop
   are invisible: Update over pieces = Update over the concatenation.) *)
Definition ieee_poly : N := 0xEDB88320.
Fixpoint ieee_bits (k : nat) (c : N) : N :=
  match k with
  | O => c
  | S k' => ieee_bits k' (if N.odd c then N.lxor (N.shiftr c 1) ieee_poly else N.shiftr c 1)
  end.
(* crc32.IEEETable, and the table-driven update  crc = tab[byte(crc)^v] ^ (crc >> 8) *)
Definition ieee_table : nmap N := nm_of_list (map_tr (fun i => ieee_bits 8 i) (iota 256)).
Definition ieee_byte (c : N) (b : byte) : N :=
  N.lxor (nm_getd ieee_table (N.lxor (N.land c 255) b) 0) (N.shiftr c 8).
(* crc32.Update(crc, crc32.IEEETable, p) *)
Definition ieee_update (crc : N) (p : list byte) : N :=
  N.lxor (fold_left ieee_byte p (N.lxor crc mask32)) mask32.

Definition reverse32 (v : N) : N := reverse_bits v 32.

(* internal.ReverseLUT *)
Definition reverse_lut : nmap N := nm_of_list (map_tr rev8 (iota 256)).

Definition go_crc_update (val : N) (buf : list byte) : N :=
  reverse32 (ieee_update (reverse32 val) (map_tr (fun b => nm_getd reverse_lut b 0) buf)).

(* ---- moveToFront.Decode (mtf_rle2.go) -------------------------------------------------------
   Pure; RThrow ECorrupted = panicf(errors.Corrupted, ..), RThrow EPanic = index out of range. *)
Inductive res (A : Type) : Type :=
| ROk (a : A)
| RThrow (e : err).          (* errors.Panic(e); EPanic = a Go run-time panic *)
Arguments ROk {A} a.
Arguments RThrow {A} e.

(* x << s on uint32 (a shift count of 32 or more gives 0) *)
Definition shl32 (x s : N) : N := if 32 <=? s then 0 else w32 (N.shiftl x s).

(* dict[i] together with the list after  copy(dict[1:], dict[:i]); dict[0] = val *)
Fixpoint pick_front (i : nat) (l : list byte) : option (byte * list byte) :=
  match l with
  | [] => None
  | x :: r =>
    match i with
    | O => Some (x, r)
    | S i' => match pick_front i' r with
              | Some (y, r') => Some (y, x :: r')
              | None => None
              end
    end
  end.

(* the "if lastCnt > 0 { ... }" piece; n = len(vals), acc = vals reversed *)
Definition go_mtf_flush (dict : list byte) (blk lastCnt lastRun n : N) (acc : list byte)
  : res (N * list byte) :=
  if lastCnt =? 0 then ROk (n, acc) else
  let cnt := (Z.of_N (N.lor (shl32 1 lastCnt) lastRun) - 1)%Z in
  if (Z.of_N n + cnt >? Z.of_N blk)%Z || (24 <? lastCnt) then RThrow ECorrupted else
  if (cnt <=? 0)%Z then ROk (n, acc) else
  match dict with
  | [] => RThrow EPanic                                   (* dict[0] of an empty slice *)
  | d0 :: _ => ROk (n + Z.to_N cnt, repeat_acc (nat_of (Z.to_N cnt)) d0 acc)
  end.

Fixpoint go_mtf_decode (syms : list N) (dict : list byte) (blk lastCnt lastRun n : N)
         (acc : list byte) : res (list byte) :=
  match syms with
  | [] =>
    match go_mtf_flush dict blk lastCnt lastRun n acc with
    | ROk (_, acc') => ROk (fast_rev acc')
    | RThrow e => RThrow e
    end
  | sym :: r =>
    if sym <? 2 then
      go_mtf_decode r dict blk (lastCnt + 1) (N.lor lastRun (shl32 sym lastCnt)) n acc
    else
      match go_mtf_flush dict blk lastCnt lastRun n acc with
      | RThrow e => RThrow e
      | ROk (n', acc') =>
        match pick_front (N.to_nat (sym - 1)) dict with
        | None => RThrow EPanic                             (* dict[sym-1]: index out of range *)
        | Some (val, rest) =>
          if blk <=? n' then RThrow ECorrupted
          else go_mtf_decode r (val :: rest) blk 0 0 (n' + 1) (val :: acc')
        end
      end
  end.

(* ---- burrowsWheelerTransform.Decode (bwt.go) -------------------------------------------------
   None = run-time panic (index out of range). *)
Definition bwt_counts (buf : list byte) : nmap N :=
  fold_left (fun m v => nm_set m v (nm_getd m v 0 + 1)) buf nm_empty.

(* for i, v := range cumm { cumm[i] = sum; sum += v } *)
Definition bwt_cumm (counts : nmap N) : nmap N :=
  fst (fold_left (fun (st : nmap N * N) i =>
                    (nm_set (fst st) i (snd st), snd st + nm_getd counts i 0))
                 (iota 256) (nm_empty, 0)).

(* for i, b := range buf { perm[cumm[b]] = uint32(i); cumm[b]++ } *)
Definition bwt_perm_step (n : N) (st : option (nmap N * nmap N * N)) (b : byte)
  : option (nmap N * nmap N * N) :=
  match st with
  | None => None
  | Some (perm, cumm, i) =>
    let c := nm_getd cumm b 0 in
    if c <? n then Some (nm_set perm c i, nm_set cumm b (c + 1), i + 1) else None
  end.

Fixpoint bwt_follow (fuel : nat) (bufm perm : nmap N) (i : N) (acc : list byte) : option (list byte) :=
  match fuel with
  | O => Some (fast_rev acc)
  | S f =>
    match nm_get bufm i, nm_get perm i with
    | Some b, Some i' => bwt_follow f bufm perm i' (b :: acc)
    | _, _ => None
    end
  end.

Definition go_bwt_decode (buf : list byte) (ptr : N) : option (list byte) :=
  match buf with
  | [] => Some []
  | _ =>
    let n := len_n buf in
    match fold_left (bwt_perm_step n) buf (Some (nm_empty, bwt_cumm (bwt_counts buf), 0)) with
    | None => None
    | Some (perm, _, _) =>
      match nm_get perm ptr with
      | None => None                                          (* perm[ptr] *)
      | Some i0 => bwt_follow (nat_of n) (nm_of_list buf) perm i0 []
      end
    end
  end.

(* ---- internal.MoveToFront.Decode on the tree selectors (fresh value: identity list) -------- *)
Definition go_sels_mtf (idxs : list N) : res (list N) :=
  match fold_left
          (fun (st : option (list N * list N)) j =>
             match st with
             | None => None
             | Some (dict, out) =>
               match pick_front (N.to_nat j) dict with
               | Some (v, rest) => Some (v :: rest, v :: out)
               | None => None
               end
             end) idxs (Some (iota 256, [])) with
  | Some (_, out) => ROk (fast_rev out)
  | None => RThrow EPanic
  end.

(* ---- the Reader ------------------------------------------------------------------------- *)
Record bzst := mkBz {
  z_inOff : Z;                (* InputOffset *)
  z_outOff : Z;               (* OutputOffset *)
  z_rd : prd;                 (* rd.Reader *)
  z_err : option err;
  z_level : N;
  z_hdrftr : N;               (* rdHdrFtr *)
  z_blkCRC : N;
  z_endCRC : N;
  z_crc : N;                  (* crc.val *)
  z_rle : rlest;
  z_trees : list dslot        (* trees1D [6] *)
}.

Definition set_rd (st : bzst) (p : prd) : bzst :=
  mkBz (z_inOff st) (z_outOff st) p (z_err st) (z_level st) (z_hdrftr st) (z_blkCRC st)
       (z_endCRC st) (z_crc st) (z_rle st) (z_trees st).
Definition set_err (st : bzst) (e : option err) : bzst :=
  mkBz (z_inOff st) (z_outOff st) (z_rd st) e (z_level st) (z_hdrftr st) (z_blkCRC st)
       (z_endCRC st) (z_crc st) (z_rle st) (z_trees st).
Definition set_level (st : bzst) (v : N) : bzst :=
  mkBz (z_inOff st) (z_outOff st) (z_rd st) (z_err st) v (z_hdrftr st) (z_blkCRC st)
       (z_endCRC st) (z_crc st) (z_rle st) (z_trees st).
Definition set_hdrftr (st : bzst) (v : N) : bzst :=
  mkBz (z_inOff st) (z_outOff st) (z_rd st) (z_err st) (z_level st) v (z_blkCRC st)
       (z_endCRC st) (z_crc st) (z_rle st) (z_trees st).
Definition set_blkCRC (st : bzst) (v : N) : bzst :=
  mkBz (z_inOff st) (z_outOff st) (z_rd st) (z_err st) (z_level st) (z_hdrftr st) v
       (z_endCRC st) (z_crc st) (z_rle st) (z_trees st).
Definition set_endCRC (st : bzst) (v : N) : bzst :=
  mkBz (z_inOff st) (z_outOff st) (z_rd st) (z_err st) (z_level st) (z_hdrftr st) (z_blkCRC st)
       v (z_crc st) (z_rle st) (z_trees st).
Definition set_crc (st : bzst) (v : N) : bzst :=
  mkBz (z_inOff st) (z_outOff st) (z_rd st) (z_err st) (z_level st) (z_hdrftr st) (z_blkCRC st)
       (z_endCRC st) v (z_rle st) (z_trees st).
Definition set_rle (st : bzst) (v : rlest) : bzst :=
  mkBz (z_inOff st) (z_outOff st) (z_rd st) (z_err st) (z_level st) (z_hdrftr st) (z_blkCRC st)
       (z_endCRC st) (z_crc st) v (z_trees st).
Definition set_trees (st : bzst) (v : list dslot) : bzst :=
  mkBz (z_inOff st) (z_outOff st) (z_rd st) (z_err st) (z_level st) (z_hdrftr st) (z_blkCRC st)
       (z_endCRC st) (z_crc st) (z_rle st) v.
Definition set_inOff (st : bzst) (v : Z) : bzst :=
  mkBz v (z_outOff st) (z_rd st) (z_err st) (z_level st) (z_hdrftr st) (z_blkCRC st)
       (z_endCRC st) (z_crc st) (z_rle st) (z_trees st).
Definition set_outOff (st : bzst) (v : Z) : bzst :=
  mkBz (z_inOff st) v (z_rd st) (z_err st) (z_level st) (z_hdrftr st) (z_blkCRC st)
       (z_endCRC st) (z_crc st) (z_rle st) (z_trees st).

(* ---- the step monad: state + errors.Panic ------------------------------------------------ *)
Definition M (A : Type) : Type := bzst -> res A * bzst.

Definition ret {A} (a : A) : M A := fun st => (ROk a, st).
Definition throw {A} (e : err) : M A := fun st => (RThrow e, st).
Definition mbind {A B} (m : M A) (f : A -> M B) : M B :=
  fun st => match m st with
            | (ROk a, st') => f a st'
            | (RThrow e, st') => (RThrow e, st')
            end.
Definition mget : M bzst := fun st => (ROk st, st).
Definition mupd (f : bzst -> bzst) : M unit := fun st => (ROk tt, f st).
Definition lift {A} (r : res A) : M A := fun st => (r, st).

Declare Scope bz_scope.
Delimit Scope bz_scope with bz.
Notation "x <- m ;; k" := (mbind m (fun x => k))
  (at level 61, m at next level, right associativity) : bz_scope.
Notation "m ;;; k" := (mbind m (fun _ => k))
  (at level 61, right associativity) : bz_scope.
Local Open Scope bz_scope.

(* panicf(errors.Corrupted, ...) *)
Definition corrupted {A} : M A := throw ECorrupted.

(* bounded iteration in the monad: [iterM d body s] runs [body] at most 2^d times *)
Fixpoint iterM {S R} (d : nat) (body : S -> M (S + R)) (s : S) : M (S + R) :=
  match d with
  | O => body s
  | Datatypes.S d' =>
      r <- iterM d' body s ;;
      match r with
      | inl s' => iterM d' body s'
      | inr x => ret (inr x)
      end
  end.
Definition loopM {S R} (d : nat) (body : S -> M (S + R)) (s : S) : M R :=
  r <- iterM d body s ;;
  match r with
  | inl _ => throw EFuel
  | inr x => ret x
  end.

(* every loop below consumes at least one bit per iteration *)
Definition depth_of (st : bzst) : nat :=
  S (N.to_nat (N.log2 (8 * len_n (s_data (p_src (z_rd st))) + 64))).

(* ---- the bit reader inside the Reader ----------------------------------------------------- *)
(* pr.ReadBits(nb) *)
Definition m_read_bits (nb : N) : M N := fun st =>
  let '(o, p') := read_bits (z_rd st) nb in
  match o with
  | Some v => (ROk v, set_rd st p')
  | None => (RThrow EUEOF, set_rd st p')
  end.

(* pr.TryReadBits(nb) *)
Definition try_read_bits (p : prd) (nb : N) : option N * prd :=
  if p_numBits p <? nb then (None, p)
  else let '(v, p') := take_bits p nb in (Some v, p').

(* val, ok := TryReadBits(nb); if !ok { val = ReadBits(nb) } *)
Definition m_bits_fast (nb : N) : M N := fun st =>
  let '(o, p') := try_read_bits (z_rd st) nb in
  match o with
  | Some v => (ROk v, set_rd st p')
  | None => m_read_bits nb (set_rd st p')
  end.

(* pr.ReadPads() *)
Definition m_read_pads : M N := fun st =>
  let '(v, p') := read_pads (z_rd st) in (ROk v, set_rd st p').

(* pr.ReadSymbol(pd) *)
Definition m_read_symbol (d : dec) : M N := fun st =>
  let '(r, p') := dt_read_symbol d (z_rd st) in
  (match r with
   | RSym s => ROk s
   | RUEOF => RThrow EUEOF
   | RInvalid => RThrow EInvalid         (* "decode with empty prefix tree" *)
   | RPanic => RThrow EPanic
   | RFuel => RThrow EFuel
   end, set_rd st p').

(* sym, ok := TryReadSymbol(pd); if !ok { sym = ReadSymbol(pd) } *)
Definition m_symbol_fast (d : dec) : M N := fun st =>
  let '(r, p') := try_read_symbol d (z_rd st) in
  match r with
  | None => (RThrow EPanic, set_rd st p')
  | Some (Some s) => (ROk s, set_rd st p')
  | Some None => m_read_symbol d (set_rd st p')
  end.

(* internal.ReverseUint32N(v, nb) = ReverseUint32(v << (32 - nb)) *)
Definition reverse32N (v nb : N) : N := reverse32 (shl32 v (32 - nb)).

(* prefixReader.ReadBitsBE64(nb), nb <= 64 *)
Definition m_read_be64 (nb : N) : M N :=
  if nb <=? 32 then
    v <- m_read_bits nb ;; ret (reverse32N (w32 v) nb)
  else
    a <- m_read_bits 32 ;;
    b <- m_read_bits (nb - 32) ;;
    let v := N.lor (N.shiftl (reverse32 (w32 a)) 32) (reverse32 (w32 b)) in
    ret (N.shiftr v (64 - nb)).

(* ---- prefixReader.ReadPrefixCodes (prefix.go) ----------------------------------------------- *)
(* one turn of the inner "for" of one symbol; clen is an int *)
Definition clen_body (clen : Z) : M (Z + Z) :=
  if ((clen <? 1) || (20 <? clen))%Z then corrupted else
  b <- m_bits_fast 1 ;;
  if b =? 0 then ret (inr clen) else
  b2 <- m_bits_fast 1 ;;
  ret (inl (clen - (2 * Z.of_N b2 - 1))%Z).

(* for sym := range pc { ... }: the lengths, in symbol order *)
Fixpoint read_clens (d : nat) (n : nat) (clen : Z) (acc : list N) : M (list N) :=
  match n with
  | O => ret (fast_rev acc)
  | S n' => c <- loopM d clen_body clen ;; read_clens d n' c (Z.to_N c :: acc)
  end.

(* GeneratePrefixes or handleDegenerateCodes, then trees[i].Init(pc) on slot i *)
Definition build_tree (lens : list N) (s : dslot) : M dslot :=
  match Degenerate.build_codes lens with
  | Degenerate.BOk codes =>
    match slot_init s codes with
    | IOk s' => ret s'
    | IPanic => throw EPanic
    | IOutOfModel => throw EFuel
    end
  | Degenerate.BInternal => throw EInvalid     (* errors.Panic(err) of GeneratePrefixes: prefix/Invalid *)
  | Degenerate.BPanic => throw EPanic
  | Degenerate.BFuel => throw EFuel
  | Degenerate.BUnmodelled => throw EFuel
  end.

Fixpoint set_nth {A : Type} (i : nat) (l : list A) (x : A) : list A :=
  match l with
  | [] => []
  | y :: r => match i with O => x :: r | S i' => y :: set_nth i' r x end
  end.

(* for i, pc := range codes { ...; trees[i].Init(pc) }: k trees starting with trees1D[i] *)
Fixpoint read_prefix_codes (d : nat) (numSyms : nat) (k : nat) (i : nat) : M unit :=
  match k with
  | O => ret tt
  | S k' =>
    clen <- m_read_be64 5 ;;
    lens <- read_clens d numSyms (Z.of_N clen) [] ;;
    st <- mget ;;
    match nth_error (z_trees st) i with
    | None => throw EPanic
    | Some s =>
      s' <- build_tree lens s ;;
      mupd (fun st => set_trees st (set_nth i (z_trees st) s')) ;;;
      read_prefix_codes d numSyms k' (S i)
    end
  end.

(* ---- Reader.decodePrefix ------------------------------------------------------------------ *)
Fixpoint read_sels (n : nat) (dsel : dec) (numTrees : N) (acc : list N) : M (list N) :=
  match n with
  | O => ret (fast_rev acc)
  | S n' =>
    sym <- m_symbol_fast dsel ;;
    if numTrees <=? sym then corrupted
    else read_sels n' dsel numTrees (sym mod 256 :: acc)            (* uint8(sym) *)
  end.

Record symst := mkSym {
  y_blkLen : N;
  y_sels : list N;            (* treeSels[selIdx:] *)
  y_tree : option dec;        (* tree (nil before the first group) *)
  y_cnt : N;                  (* len(syms) *)
  y_acc : list N              (* syms, last first *)
}.

Definition sym_body (trees : list dslot) (numSyms limit : N) (y : symst) : M (symst + list N) :=
  g <- (if y_blkLen y =? 0 then
          match y_sels y with
          | [] => corrupted                                   (* "not enough prefix tree selectors" *)
          | sel :: r =>
            match nth_error trees (N.to_nat sel) with
            | Some s => ret (numBlockSyms, r, Some (ds_dec s))
            | None => throw EPanic                             (* zr.trees1D[..]: index out of range *)
            end
          end
        else ret (y_blkLen y, y_sels y, y_tree y)) ;;
  let '(blkLen, sels, tree) := g in
  match tree with
  | None => throw EPanic                                       (* nil tree *)
  | Some d =>
    sym <- m_symbol_fast d ;;
    if sym =? numSyms - 1 then ret (inr (fast_rev (y_acc y)))
    else if numSyms <=? sym then corrupted
    else if limit <=? y_cnt y then corrupted
    else ret (inl (mkSym (blkLen - 1) sels tree (y_cnt y + 1) (sym :: y_acc y)))
  end.

Definition decode_prefix (dictLen : N) : M (list N) :=
  let numSyms := dictLen + 2 in
  if numSyms <? 3 then corrupted else
  numTrees <- m_read_be64 3 ;;
  if (numTrees <? minNumTrees) || (maxNumTrees <? numTrees) then corrupted else
  numSels <- m_read_be64 15 ;;
  match decSel with
  | IOk dsel =>
    idxs <- read_sels (nat_of numSels) dsel numTrees [] ;;
    sels <- lift (go_sels_mtf idxs) ;;
    st <- mget ;;
    let d := depth_of st in
    read_prefix_codes d (N.to_nat numSyms) (N.to_nat numTrees) 0 ;;;
    st <- mget ;;
    loopM d (sym_body (z_trees st) numSyms (z_level st * blockSize)) (mkSym 0 sels None 0 [])
  | _ => throw EPanic
  end.

(* ---- Reader.decodeBlock ---------------------------------------------------------------------- *)
(* the j-th bit (from bit 0) of a 16-bit map selects value base+j *)
Definition row_values (base bmap : N) : list byte :=
  map (fun j => base + j) (filter (fun j => N.testbit bmap j) (iota 16)).

Fixpoint read_dict (k : nat) (i : N) (bmapHi : N) (acc : list byte) : M (list byte) :=
  match k with
  | O => ret acc
  | S k' =>
    if N.odd bmapHi then
      bmapLo <- m_read_bits 16 ;;
      read_dict k' (i + 16) (N.shiftr bmapHi 1) (acc ++ row_values i (bmapLo mod 65536))
    else read_dict k' (i + 16) (N.shiftr bmapHi 1) acc
  end.

(* the block after transformation; [] for the stream footer (nil) *)
Definition decode_block : M (list byte) :=
  magic <- m_read_be64 48 ;;
  if negb (magic =? blkMagic) then
    if magic =? endMagic then
      endCRC <- m_read_be64 32 ;;
      st <- mget ;;
      if negb (z_endCRC st =? w32 endCRC) then corrupted else
      mupd (fun st => set_endCRC st 0) ;;;
      m_read_pads ;;;
      mupd (fun st => set_hdrftr st (z_hdrftr st + 1)) ;;;
      ret []
    else corrupted
  else
    mupd (fun st => set_crc st 0) ;;;
    blkCRC <- m_read_be64 32 ;;
    mupd (fun st => set_blkCRC st (w32 blkCRC)) ;;;
    rnd <- m_read_be64 1 ;;
    if negb (rnd =? 0) then throw EDeprecated else
    ptr <- m_read_be64 24 ;;
    bmapHi <- m_read_bits 16 ;;
    dict <- read_dict 16 0 (bmapHi mod 65536) [] ;;
    syms <- decode_prefix (len_n dict) ;;
    st <- mget ;;
    buf <- lift (go_mtf_decode syms dict (z_level st * blockSize) 0 0 0 []) ;;
    if len_n buf <=? ptr then corrupted else
    match go_bwt_decode buf ptr with
    | Some out => ret out
    | None => throw EPanic
    end.

(* ---- Reader.Read ------------------------------------------------------------------------------- *)
(* "Check if we are already at EOF": PullBits(1); EOF is okay after at least one stream *)
Definition m_pull_first : M unit := fun st =>
  let '(e, p') := pull_bits (z_rd st) 1 in
  if e then (RThrow (if 0 <? z_hdrftr st then EEOF else EUEOF), set_rd st p')
  else (ROk tt, set_rd st p').

(* the closure under errors.Recover *)
Definition round_body : M unit :=
  st <- mget ;;
  (if z_hdrftr st mod 2 =? 0 then
     m_pull_first ;;;
     magic <- m_read_be64 16 ;;
     if negb (magic =? hdrMagic) then corrupted else
     ver <- m_read_be64 8 ;;
     if negb (ver =? 104) then
       if ver =? 48 then throw EDeprecated else corrupted
     else
     lvl <- m_read_be64 8 ;;
     if (lvl <? 49) || (57 <? lvl) then corrupted else
     mupd (fun st => set_hdrftr (set_level st (lvl - 48)) (z_hdrftr st + 1))
   else
     if negb (z_blkCRC st =? z_crc st) then corrupted else
     mupd (fun st => set_endCRC st (N.lxor (rotl1 (z_endCRC st)) (z_blkCRC st)))) ;;;
  buf <- decode_block ;;
  mupd (fun st => set_rle st (rle_init buf)).

(* errWrap(err, errors.Corrupted) *)
Definition err_wrap (e : err) : err := match e with EInvalid => ECorrupted | _ => e end.

(* one turn of the "for" of Read below the two early returns; the result state has z_err set
   when Read returns from this turn *)
Definition one_round (st : bzst) : bzst :=
  let st0 := set_rd st (let p := z_rd st in
                        mkPrd (p_src p) (p_buffered p) (p_big p) (p_bufBits p) (p_numBits p)
                              (p_peek p) (p_discard p) (p_fed p) (z_inOff st)) in
  let '(r, st1) := round_body st0 in
  match r with
  | RThrow EPanic => set_err st1 (Some EPanic)          (* the panic leaves Read *)
  | RThrow EFuel => set_err st1 (Some EFuel)
  | _ =>
    let st2 := match r with RThrow e => set_err st1 (Some e) | ROk _ => st1 end in
    let '(short, p') := flush (z_rd st2) in
    let st3 := set_inOff (set_rd st2 p') (p_offset p') in
    let st4 := match z_err st3 with
               | None => if short then set_err st3 (Some EEOF) else st3   (* error of Discard *)
               | Some _ => st3
               end in
    match z_err st4 with
    | Some e => set_err st4 (Some (err_wrap e))
    | None => st4
    end
  end.

(* the top of the "for": rle.Read, and the two early returns.  inl = Read returns *)
Definition drain (st : bzst) (n : nat) : (list byte * option err) * bzst + bzst :=
  let r := z_rle st in
  let '((out, e), r') := rle_read n (r_buf r) (r_lastVal r) (r_lastCnt r) [] in
  let st1 := set_rle st r' in
  let st2 := match e, z_err st1 with
             | RCorrupt, None => set_err st1 (Some ECorrupted)
             | _, _ => st1
             end in
  match out with
  | _ :: _ =>
    inl ((out, None),
         set_outOff (set_crc st2 (go_crc_update (z_crc st2) out))
                    (z_outOff st2 + Z.of_N (len_n out))%Z)
  | [] =>
    match z_err st2 with
    | Some e => inl (([], Some e), st2)
    | None => if Nat.eqb n 0 then inl (([], None), st2) else inr st2
    end
  end.

Fixpoint read_rounds (fuel : nat) (st : bzst) (n : nat) : (list byte * option err) * bzst :=
  match fuel with
  | O => (([], Some EFuel), set_err st (Some EFuel))
  | S f =>
    let st1 := one_round st in
    match z_err st1 with
    | Some e => (([], Some e), st1)
    | None =>
      match drain st1 n with
      | inl r => r
      | inr st2 => read_rounds f st2 n
      end
    end
  end.

(* zr.Read(buf) with len(buf) = n *)
Definition bz_read (st : bzst) (n : nat) : (list byte * option err) * bzst :=
  match drain st n with
  | inl r => r
  | inr st1 => read_rounds (S (nat_of (len_n (s_data (p_src (z_rd st1)))))) st1 n
  end.

(* NewReader(r, nil): r is the scripted source over [data]; buffered = r is a
   compress.BufferedReader, otherwise a compress.ByteReader *)
Definition bz_new (data : list byte) (buffered : bool) (fills reads : list nat) : bzst :=
  mkBz 0%Z 0%Z (init data buffered true fills reads) None 0 0 0 0 0 (rle_init [])
       (repeat fresh_slot 6).

(* zr.Reset(r): keeps the Decoder objects *)
Definition bz_reset (st : bzst) (data : list byte) (buffered : bool) (fills reads : list nat) : bzst :=
  mkBz 0%Z 0%Z (init data buffered true fills reads) None 0 0 0 0 0 (rle_init [])
       (z_trees st).

(* ---- histories, as the correspondence harness observes them --------------------------------- *)
Record bzobs := mkBzobs {
  bo_bytes : list byte;
  bo_err : option err;
  bo_inOff : Z;
  bo_outOff : Z;
  bo_srcPos : nat
}.

Definition obs_of (r : list byte * option err) (st : bzst) : bzobs :=
  mkBzobs (fst r) (snd r) (z_inOff st) (z_outOff st) (s_pos (p_src (z_rd st))).

(* Read with the given buffer sizes until an error is returned or the schedule ends
   (observations last first in [acc]) *)
Fixpoint bz_run_acc (st : bzst) (sched : list nat) (acc : list bzobs) : list bzobs * bzst :=
  match sched with
  | [] => (fast_rev acc, st)
  | n :: r =>
    let '(o, st') := bz_read st n in
    match snd o with
    | Some _ => (fast_rev (obs_of o st' :: acc), st')
    | None => bz_run_acc st' r (obs_of o st' :: acc)
    end
  end.
Definition bz_run (st : bzst) (sched : list nat) : list bzobs * bzst := bz_run_acc st sched [].
