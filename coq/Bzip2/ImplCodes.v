(* Layer (c), part 2: the code lists the Reader builds (ReadPrefixCodes: GeneratePrefixes or
   handleDegenerateCodes, model [Degenerate.build_codes]) under the table decoder
   (Prefix/DecTable.v), for EVERY vector of 2..258 code lengths in 1..20 ([lens_ok]):

     build_codes_sym_bound   every symbol of the list is below 2^27 (the table decoder keeps
                             27 bits of a symbol: [c_sym c mod 2^27] in ImplSym.v)
     complete_code_dec_valid what prefix.Decoder.Init needs ([complete_code]) is what the
                             tables need ([dec_valid 20])
     decode_present/_absent  the meaning of the list on the remaining input
                             ([Degenerate.decode_with_codes]) in terms of [present]
     sym_sim                 one symbol: TryReadSymbol/ReadSymbol followed by the check
                             "sym >= numSyms -> corrupted" refines GET_MTF_VAL of the
                             libbzip2 port ([SpecR.read_symbol (mk_table lens)])
     slot_init_ok            pd.Init on such a list succeeds, with correct tables *)
From Coq Require Import Sorted.
From V Require Import Base.Prelude Base.Prog Base.ProgThms Base.FuelThms Bzip2.Common Bzip2.SpecR
  Prefix.Code Prefix.ReaderImpl Prefix.ReaderSpec Prefix.ReaderThms Prefix.DecTable
  Prefix.DecTableSpec Prefix.DecTableThms Prefix.DecReadThms Bzip2.Impl Bzip2.ImplBits Bzip2.ImplSim
  Bzip2.ImplSym.
From V Require Bzip2.Degenerate Bzip2.DegenerateSpec Bzip2.DegenerateWalk Bzip2.DegenerateTables
  Bzip2.DegenerateAssemble Bzip2.DegenerateThms Bzip2.DegenerateCanon Prefix.GenPrefixesThms
  Bzip2.MtfRle2 Bzip2.SortLemmas.

Local Open Scope N_scope.

(* ---- 1. the symbols are below 2^27 ------------------------------------------------------------ *)

(* the markers are numbered consecutively *)
Lemma marks_upper es : forall base c, In c (DegenerateAssemble.marks base es) ->
  c_sym c < base + N.of_nat (length es).
Proof.
  induction es as [|[bits o] es IH]; intros base c Hin; [contradiction|].
  destruct o as [s|]; cbn [DegenerateAssemble.marks] in Hin.
  - specialize (IH base c Hin). cbn [length]. lia.
  - destruct Hin as [<-|Hin].
    + unfold DegenerateAssemble.code_of, c_sym. cbn [fst length]. lia.
    + specialize (IH (base + 1) c Hin). cbn [length]. lia.
Qed.

(* every explored word weighs at least one unit of the Kraft sum *)
Lemma ksum_ge_length m (es : list DegenerateSpec.emit) :
  N.of_nat (length es) <= DegenerateWalk.ksum m es.
Proof.
  induction es as [|e es IH]; [cbn; lia|].
  cbn [DegenerateWalk.ksum fold_right length]. fold (DegenerateWalk.ksum m es).
  assert (Hp : 1 <= 2 ^ (m - N.of_nat (length (fst e)))).
  { assert (Hnz : 2 ^ (m - N.of_nat (length (fst e))) <> 0) by (apply N.pow_nonzero; lia). lia. }
  lia.
Qed.

Lemma final_sym_bound (es : list DegenerateSpec.emit) c :
  DegenerateAssemble.emits_ok es -> In c (DegenerateAssemble.final es) ->
  c_sym c < 258 + N.of_nat (length es).
Proof.
  intros Hok Hin. rewrite (DegenerateAssemble.final_split es Hok) in Hin.
  apply in_app_or in Hin. destruct Hin as [Hin|Hin].
  - destruct (DegenerateAssemble.slots_sorted
                (DegenerateAssemble.somes (repeat DegenerateAssemble.zero_code 258) es) 0) as [_ S2].
    { intros k c' Hk.
      assert (Hget : Degenerate.aget (DegenerateAssemble.somes (repeat DegenerateAssemble.zero_code 258) es)
                                     (N.of_nat k) = Some c')
        by (rewrite DegenerateTables.aget_nth, Nat2N.id; exact Hk).
      destruct (DegenerateAssemble.somes_slot es _ _ c' DegenerateAssemble.repeat_zero_get Hget)
        as [->|(bits & _ & ->)]; [left; reflexivity|].
      right. reflexivity. }
    rewrite DegenerateAssemble.somes_length, repeat_length in S2.
    rewrite Forall_forall in S2.
    assert (Hx : 0 <= c_sym c < 0 + N.of_nat 258).
    { apply S2. apply in_map_iff. exists c. split; [reflexivity | exact Hin]. }
    lia.
  - apply filter_In in Hin. destruct Hin as [Hin _]. apply (marks_upper es 258 c Hin).
Qed.

Theorem build_codes_sym_bound lens out : DegenerateSpec.lens_ok lens ->
  Degenerate.build_codes lens = Degenerate.BOk out ->
  forall c, In c out -> c_sym c < 2 ^ 27.
Proof.
  intros Hok Hb c Hc.
  destruct (DegenerateThms.lens_ok_facts lens Hok) as (Hne & Hn & H20 & Hpos).
  unfold Degenerate.build_codes in Hb. fold (DegenerateTables.indexed_of lens) in Hb.
  destruct (Degenerate.kraft_rest lens =? 0)%Z eqn:Ek.
  - (* GeneratePrefixes keeps the symbols 0..n-1 *)
    rewrite DegenerateCanon.kraft_rest_eq in Ek by (intros l Hl; apply H20 in Hl; lia).
    assert (Hmax : Flate.Spec.max_len (DegenerateTables.indexed_of lens) <= 20).
    { rewrite DegenerateCanon.indexed_max_len.
      destruct (DegenerateTables.scan_minmax_ok lens Hne H20) as (mn & _ & _ & Hmx & _). exact Hmx. }
    assert (Hcomp : Flate.Spec.complete (DegenerateTables.indexed_of lens) = true).
    { apply (GenPrefixesThms.complete_of_kraft 20); [exact Hmax|]. change (2 ^ 20) with 1048576. lia. }
    destruct (GenPrefixesThms.gen_prefixes_accepts' (DegenerateTables.indexed_of lens))
      as (out' & Hgp & _ & Hfst).
    + rewrite DegenerateCanon.indexed_fst. apply LengthsOfCounts.iota_sorted_lt.
    + apply DegenerateCanon.indexed_lens_pos, Hpos.
    + exact Hcomp.
    + rewrite Hgp in Hb. inversion Hb; subst out'.
      assert (Hin : In (fst c) (DegenerateTables.indexed_of lens)) by (rewrite <- Hfst; apply in_map, Hc).
      assert (Hs : In (fst (fst c)) (iota (len_n lens))).
      { rewrite <- DegenerateCanon.indexed_fst. apply in_map, Hin. }
      apply MtfRle2.iota_In in Hs. rewrite SortLemmas.len_n_length in Hs.
      unfold c_sym. change (2 ^ 27) with 134217728. lia.
  - (* handleDegenerateCodes: slots below 258, markers numbered from 258 *)
    rewrite (DegenerateThms.handle_degenerate_final lens Hok) in Hb. inversion Hb; subst out.
    pose proof (final_sym_bound _ c (DegenerateThms.E0_ok lens Hok) Hc) as Hbound.
    set (rows := t_rows (mk_table lens)) in *. set (perm := t_perm (mk_table lens)) in *.
    pose proof (ksum_ge_length 20 (snd (DegenerateSpec.xwalk rows perm 0 []))) as Hl.
    pose proof (DegenerateThms.rows_length_le lens Hok) as Hrl. fold rows in Hrl.
    rewrite (DegenerateWalk.xwalk_kraft perm rows 0 [] 20) in Hl by (cbn [length]; lia).
    assert (Hle : N.of_nat (length (snd (DegenerateSpec.xwalk rows perm 0 []))) <= 2 ^ 20).
    { destruct (fst (DegenerateSpec.xwalk rows perm 0 [])); cbn [length] in Hl;
        change (2 ^ (20 - N.of_nat 0)) with (2 ^ 20) in Hl; [exact Hl|]. change (2 ^ 20) with 1048576. lia. }
    change (2 ^ 20) with 1048576 in Hle. change (2 ^ 27) with 134217728. lia.
Qed.

(* ---- 2. what Init needs is what the tables need ------------------------------------------------ *)
Theorem complete_code_dec_valid out : DegenerateSpec.complete_code out -> dec_valid 20 out.
Proof.
  intros Hcc. constructor.
  - constructor.
    + exact (DegenerateSpec.cc_two out Hcc).
    + intros c Hc. pose proof (DegenerateSpec.cc_len out Hcc c Hc) as H. unfold maxPrefixBits in H. exact H.
    + intros c Hc. exact (DegenerateSpec.cc_val_lt out Hcc c Hc).
  - intros b. destruct (DegenerateSpec.cc_complete out Hcc b) as (c & Hc & Hm). exists c.
    split; [exact Hc | exact Hm].
  - intros b c1 c2 H1 H2 M1 M2. exact (DegenerateSpec.cc_unique out Hcc b c1 c2 H1 H2 M1 M2).
Qed.

(* ---- decode_with_codes: the first entry that starts the input ---------------------------------- *)
Lemma dwc_some cs bs s k : Degenerate.decode_with_codes cs bs = Some (s, k) ->
  exists c, In c cs /\ is_prefix_b (Degenerate.code_bits c) bs = true /\ s = c_sym c /\ k = c_len c.
Proof.
  induction cs as [|c cs IH]; intros H; [discriminate|]. cbn [Degenerate.decode_with_codes] in H.
  destruct (is_prefix_b (Degenerate.code_bits c) bs) eqn:E.
  - inversion H; subst. exists c. split; [left; reflexivity|]. split; [exact E|]. split; reflexivity.
  - destruct (IH H) as (c' & H1 & H2). exists c'. split; [right; exact H1 | exact H2].
Qed.

Lemma dwc_none cs bs : Degenerate.decode_with_codes cs bs = None ->
  forall c, In c cs -> is_prefix_b (Degenerate.code_bits c) bs = false.
Proof.
  induction cs as [|c cs IH]; intros H c' Hc'; [contradiction|]. cbn [Degenerate.decode_with_codes] in H.
  destruct (is_prefix_b (Degenerate.code_bits c) bs) eqn:E; [discriminate|].
  destruct Hc' as [<-|Hc']; [exact E | apply IH; assumption].
Qed.

(* the specification state advanced by k bits *)
Lemma adv_sat data R o l k :
  DegenerateSpec.adv (sat data R o l) k = sat data (R + k) o l.
Proof.
  unfold DegenerateSpec.adv, sat. cbn [a_in a_pos a_out Prog.a_len].
  rewrite skipn_skipn'. f_equal. lia.
Qed.

(* ---- 4. (definition) the Reader's step: a symbol, then "sym >= numSyms -> corrupted" ------------ *)
Definition m_sym_checked (d : dec) (n : N) : M N :=
  mbind (m_symbol_fast d) (fun s => if n <=? s then corrupted else ret s).

Section Codes.
Variable data : list byte.
Hypothesis Hd : forall b, In b data -> b < 256.

Notation bits := (stream_bits true data).
Notation total := (8 * length data)%nat.

(* ---- 3. the meaning of a complete code on the remaining input --------------------------------- *)
Lemma present_unique out R c1 c2 : DegenerateSpec.complete_code out ->
  In c1 out -> In c2 out -> present data c1 R -> present data c2 R -> c1 = c2.
Proof.
  intros Hcc H1 H2 [M1 _] [M2 _].
  exact (DegenerateSpec.cc_unique out Hcc (window true data R) c1 c2 H1 H2 M1 M2).
Qed.

Lemma present_iff out R c : DegenerateSpec.complete_code out -> In c out ->
  present data c R <-> is_prefix_b (Degenerate.code_bits c) (skipn R bits) = true.
Proof.
  intros Hcc Hc. apply (present_prefix data Hd).
  - pose proof (DegenerateSpec.cc_len out Hcc c Hc) as H. unfold maxPrefixBits in H.
    change (Degenerate.c_len c) with (c_len c) in H. lia.
  - exact (DegenerateSpec.cc_val_lt out Hcc c Hc).
Qed.

Theorem decode_present out R s k : DegenerateSpec.complete_code out ->
  Degenerate.decode_with_codes out (skipn R bits) = Some (s, k) <->
  exists c, In c out /\ present data c R /\ s = c_sym c /\ k = c_len c.
Proof.
  intros Hcc. split.
  - intros H. destruct (dwc_some _ _ _ _ H) as (c & Hc & Hp & Hs & Hk). exists c.
    split; [exact Hc|]. split; [apply (present_iff out R c Hcc Hc); exact Hp|]. split; assumption.
  - intros (c & Hc & Hp & -> & ->).
    destruct (Degenerate.decode_with_codes out (skipn R bits)) as [[s' k']|] eqn:E.
    + destruct (dwc_some _ _ _ _ E) as (c' & Hc' & Hp' & -> & ->).
      apply (present_iff out R c' Hcc Hc') in Hp'.
      rewrite (present_unique out R c' c Hcc Hc' Hc Hp' Hp). reflexivity.
    + pose proof (dwc_none _ _ E c Hc) as Hf. apply (present_iff out R c Hcc Hc) in Hp. congruence.
Qed.

Theorem decode_absent out R : DegenerateSpec.complete_code out ->
  Degenerate.decode_with_codes out (skipn R bits) = None <->
  forall c, In c out -> ~ present data c R.
Proof.
  intros Hcc. split.
  - intros H c Hc Hp. apply (present_iff out R c Hcc Hc) in Hp.
    pose proof (dwc_none _ _ H c Hc). congruence.
  - intros Hall. destruct (Degenerate.decode_with_codes out (skipn R bits)) as [[s k]|] eqn:E; [|reflexivity].
    exfalso. apply (decode_present out R s k Hcc) in E. destruct E as (c & Hc & Hp & _).
    exact (Hall c Hc Hp).
Qed.

(* ---- 4. one symbol ------------------------------------------------------------------------------ *)
Theorem sym_sim lens out d : DegenerateSpec.lens_ok lens ->
  Degenerate.build_codes lens = Degenerate.BOk out -> tables_ok out d ->
  sim data (m_sym_checked d (N.of_nat (length lens))) (SpecR.read_symbol (SpecR.mk_table lens)) eq.
Proof.
  intros Hok Hb HT R st o l HP HR.
  destruct (DegenerateCanon.build_codes_ok lens Hok) as (out' & Hb' & Hcc & Heq).
  rewrite Hb in Hb'. inversion Hb'; subst out'. clear Hb'.
  pose proof (build_codes_sym_bound lens out Hok Hb) as Hsym.
  pose proof (complete_code_dec_valid out Hcc) as HV.
  assert (H20 : 20 <= 20) by lia.
  pose proof (m_symbol_fast_pi data Hd 20 out H20 HV d HT R st HP) as Hm.
  pose proof (max_bits_le_L data Hd 20 out H20 HV) as Hmax.
  change (run (SpecR.read_symbol (SpecR.mk_table lens)) (sat data R o l))
    with (DegenerateSpec.c_outcome lens (sat data R o l)).
  rewrite <- Heq. unfold DegenerateSpec.go_outcome.
  replace (a_in (sat data R o l)) with (skipn R bits) by reflexivity.
  set (n := N.of_nat (length lens)) in *.
  destruct (Degenerate.decode_with_codes out (skipn R bits)) as [[s k]|] eqn:Ed.
  - apply (decode_present out R s k Hcc) in Ed. destruct Ed as (c & Hc & Hpr & -> & ->).
    rewrite adv_sat.
    assert (Hin : (R + N.to_nat (c_len c) <= total)%nat) by (destruct Hpr as [_ Hpr]; exact Hpr).
    assert (Hl1 : 1 <= c_len c).
    { pose proof (DegenerateSpec.cc_len out Hcc c Hc) as H. change (Degenerate.c_len c) with (c_len c) in H. lia. }
    destruct Hm as [(c' & p' & E & Hc' & Hpr' & HP' & Hb1)|(p' & E & Hshort)].
    + (* the table decoder has found the code word *)
      assert (c' = c) by (apply (present_unique out R c' c Hcc Hc' Hc Hpr' Hpr)). subst c'.
      rewrite (N.mod_small (c_sym c) (2 ^ 27)) in E by (apply Hsym; exact Hc).
      unfold m_sym_checked. rewrite (mbind_ok _ _ st _ _ E).
      change (Degenerate.c_sym c) with (c_sym c). change (Degenerate.c_len c) with (c_len c).
      destruct (c_sym c <? n) eqn:En.
      * apply N.ltb_lt in En. left. exists (R + N.to_nat (c_len c))%nat, (c_sym c), p'.
        split; [reflexivity|]. split; [lia|].
        replace (n <=? c_sym c) with false by (symmetry; apply N.leb_gt; exact En).
        split; [reflexivity|]. split; [reflexivity|]. split; [exact HP' | exact Hb1].
      * apply N.ltb_ge in En. exists p'. left.
        replace (n <=? c_sym c) with true by (symmetry; apply N.leb_le; exact En).
        reflexivity.
    + (* the table walk asked for more bits than are left: fewer than 20 remain *)
      unfold m_sym_checked. rewrite (mbind_throw _ _ st _ _ E).
      change (Degenerate.c_sym c) with (c_sym c). change (Degenerate.c_len c) with (c_len c).
      destruct (c_sym c <? n).
      * right. split; [|exists p'; reflexivity].
        unfold ilen, sat. cbn [a_in]. rewrite skipn_length, (bits_length data). lia.
      * exists p'. right. reflexivity.
  - (* no code word is entirely present *)
    pose proof (proj1 (decode_absent out R Hcc) Ed) as Habs.
    destruct Hm as [(c' & p' & E & Hc' & Hpr' & _)|(p' & E & Hshort)].
    + exfalso. exact (Habs c' Hc' Hpr').
    + unfold m_sym_checked. rewrite (mbind_throw _ _ st _ _ E). exists p'. left. reflexivity.
Qed.

End Codes.

(* ---- 5. pd.Init on the list --------------------------------------------------------------------- *)
Theorem slot_init_ok s out : DegenerateSpec.complete_code out ->
  exists s', slot_init s out = IOk s' /\ tables_ok out (ds_dec s').
Proof.
  intros Hcc.
  destruct (dec_table_correct 20 out (ds_cmem s) (ds_lmem s) ltac:(lia) (complete_code_dec_valid out Hcc))
    as (d & E & HT & _).
  unfold slot_init. rewrite E. eexists. split; [reflexivity|]. cbn [ds_dec]. exact HT.
Qed.

(* ReadPrefixCodes followed by Init, for every length vector of the domain *)
Corollary build_codes_init lens s : DegenerateSpec.lens_ok lens ->
  exists out s', Degenerate.build_codes lens = Degenerate.BOk out /\
                 slot_init s out = IOk s' /\ tables_ok out (ds_dec s').
Proof.
  intros Hok. destruct (DegenerateCanon.build_codes_ok lens Hok) as (out & Hb & Hcc & _).
  destruct (slot_init_ok s out Hcc) as (s' & Hi & HT). exists out, s'. auto.
Qed.

(* ---- 6. non-vacuity: an under-subscribed vector (Kraft sum 1/4 + 2/4096) -------------------------- *)
Definition ex_lens : list N := [2; 12; 12].

Definition bres_out (b : Degenerate.bres) : list pcode :=
  match b with Degenerate.BOk o => o | _ => [] end.

Definition ex_out : list pcode := bres_out (Degenerate.build_codes ex_lens).

Lemma ex_lens_ok : DegenerateSpec.lens_ok ex_lens.
Proof.
  split; [cbn [ex_lens length]; lia|]. unfold ex_lens, maxPrefixBits.
  repeat constructor; lia.
Qed.

Lemma ex_build : Degenerate.build_codes ex_lens = Degenerate.BOk ex_out.
Proof. vm_compute. reflexivity. Qed.

(* the three symbols, and the invalid markers numbered from 258 (first bit read = bit 0 of Val) *)
Example ex_out_value : ex_out =
  [(0, 2, 0); (1, 12, 2); (2, 12, 2050); (258, 11, 1026); (259, 10, 514); (260, 9, 258);
   (261, 8, 130); (262, 7, 66); (263, 6, 34); (264, 5, 18); (265, 4, 10); (266, 3, 6); (267, 1, 1)].
Proof. vm_compute. reflexivity. Qed.

(* the list holds the three symbols and invalid markers numbered from 258 *)
Example ex_out_shape :
  (3 < length ex_out)%nat /\ (exists c, In c ex_out /\ c_sym c = 2) /\
  (exists c, In c ex_out /\ 258 <= c_sym c).
Proof.
  split; [vm_compute; lia|]. split.
  - exists (nth 2 ex_out (0, 0, 0)). split; [|vm_compute; reflexivity].
    apply nth_In. vm_compute. lia.
  - exists (nth 3 ex_out (0, 0, 0)). split; [apply nth_In; vm_compute; lia|].
    vm_compute. discriminate.
Qed.

Example sym_sim_nonvacuous data (Hd : forall b, In b data -> b < 256) :
  exists s', slot_init fresh_slot ex_out = IOk s' /\ tables_ok ex_out (ds_dec s') /\
    sim data (m_sym_checked (ds_dec s') 3) (SpecR.read_symbol (SpecR.mk_table ex_lens)) eq.
Proof.
  destruct (DegenerateCanon.build_codes_ok ex_lens ex_lens_ok) as (out & Hb & Hcc & _).
  assert (E : ex_out = out) by (unfold ex_out; rewrite Hb; reflexivity).
  rewrite <- E in Hcc. clear E Hb out.
  destruct (slot_init_ok fresh_slot ex_out Hcc) as (s' & Hi & HT). exists s'.
  split; [exact Hi|]. split; [exact HT|].
  exact (sym_sim data Hd ex_lens ex_out (ds_dec s') ex_lens_ok ex_build HT).
Qed.

Print Assumptions sym_sim.
Print Assumptions build_codes_sym_bound.
Print Assumptions decode_present.
Print Assumptions decode_absent.
Print Assumptions complete_code_dec_valid.
Print Assumptions slot_init_ok.
Print Assumptions sym_sim_nonvacuous.
